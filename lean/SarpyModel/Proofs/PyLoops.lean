/-
  Proofs.PyLoops — generic facts about the loop combinators of Spec/PyLoops.lean (proved once, used by every loop bridge):
    forEnum_eq_iter, pyIndex_ok          : the same for `for i, x in enumerate(l)`; `l[i]` inside the range
    forRange_eq_iter / whileFuel_eq_iter : a loop whose test and body are pure functions is the pure iteration; a while loop whose
                                           measure fits in the fuel never reports "OutOfFuel"
    iterWhile_fuel_irrelevant            : once the measure fits, more fuel changes nothing
    whileFuel_diverges                   : a loop that keeps an invariant under which the test holds runs out of every fuel
    ok_bind / error_bind / ite_bind      : `Except` bind steps as rewrite rules (used instead of unfolding `bind`, so that the kernel
                                           never has to evaluate a comparison with a large literal to see through a `match`)
-/
import SarpyModel.Spec.PyLoops
import Mathlib.Tactic.SplitIfs

namespace Sarpy.Proofs.PyLoops
open Sarpy

theorem ok_bind {ε α β : Type} (a : α) (f : α → Except ε β) : (Except.ok a >>= f) = f a := rfl
theorem error_bind {ε α β : Type} (e : ε) (f : α → Except ε β) : ((Except.error e : Except ε α) >>= f) = Except.error e := rfl
theorem ite_bind {ε α β : Type} (c : Prop) [Decidable c] (x y : Except ε α) (f : α → Except ε β) :
    ((if c then x else y) >>= f) = if c then x >>= f else y >>= f := by split <;> rfl
theorem pure_eq_ok {ε α : Type} (a : α) : (pure a : Except ε α) = Except.ok a := rfl

/-- a `for` loop whose body is a pure step function is the pure iteration -/
theorem forRange_eq_iter {σ : Type} (body : Int → σ → Except String σ) (b : Int → σ → σ)
    (hb : ∀ i s, body i s = .ok (b i s)) (n : Nat) (i : Int) (s : σ) :
    forRange body n i s = .ok (iterRange b n i s) := by
  induction n generalizing i s with
  | zero => rfl
  | succ k ih => simp only [forRange, iterRange, hb, bind, Except.bind, ih]

/-- the same under an invariant of (index, state) that the steps preserve inside the range -/
theorem forRange_eq_iter_inv {σ : Type} (body : Int → σ → Except String σ) (b : Int → σ → σ) (I : Int → σ → Prop) (n : Nat) (i0 : Int) (s : σ)
    (hb : ∀ i s, I i s → i0 ≤ i → i < i0 + n → body i s = .ok (b i s))
    (hI : ∀ i s, I i s → i0 ≤ i → i < i0 + n → I (i + 1) (b i s)) (h0 : I i0 s) :
    forRange body n i0 s = .ok (iterRange b n i0 s) := by
  induction n generalizing i0 s with
  | zero => rfl
  | succ k ih =>
    have h1 := hb i0 s h0 (Int.le_refl _) (by omega)
    simp only [forRange, iterRange, h1, bind, Except.bind]
    exact ih (i0 + 1) (b i0 s) (fun i s' hi h2 h3 => hb i s' hi (by omega) (by omega)) (fun i s' hi h2 h3 => hI i s' hi (by omega) (by omega))
      (hI i0 s h0 (Int.le_refl _) (by omega))

/-- the last round of a pure `for` loop -/
theorem iterRange_succ_last {σ : Type} (b : Int → σ → σ) (k : Nat) (i : Int) (s : σ) :
    iterRange b (k + 1) i s = b (i + k) (iterRange b k i s) := by
  induction k generalizing i s with
  | zero => simp [iterRange]
  | succ k ih =>
    have := ih (i + 1) (b i s)
    simp only [iterRange] at this ⊢
    rw [this]
    congr 1
    push_cast
    omega

/-- an `enumerate` loop whose body is a pure step function on the indices it visits is the pure iteration -/
theorem forEnum_eq_iter {σ τ : Type} (body : Int → τ → σ → Except String σ) (b : Int → τ → σ → σ) (l : List τ) (i : Int) (s : σ)
    (hb : ∀ (k : Int) (x : τ) (s' : σ), i ≤ k → k < i + l.length → body k x s' = .ok (b k x s')) :
    forEnum body l i s = .ok (iterEnum b l i s) := by
  induction l generalizing i s with
  | nil => rfl
  | cons x rest ih =>
    have h0 := hb i x s (Int.le_refl i) (by simp only [List.length_cons]; omega)
    simp only [forEnum, iterEnum, h0, bind, Except.bind]
    exact ih (i + 1) (b i x s) (fun k y s' h1 h2 => hb k y s' (by omega) (by simp only [List.length_cons]; omega))

/-- `l[i]` for an index in range -/
theorem pyIndex_ok {τ : Type} (l : List τ) (i : Int) (v : τ) (h0 : 0 ≤ i) (h : l[i.toNat]? = some v) : pyIndex l i = .ok v := by
  have h1 : ¬ i < 0 := by omega
  simp only [pyIndex, h1, if_false, h]
  rfl

/-- a `while` loop whose test and body are pure functions on the states satisfying an invariant, and whose measure fits in the
    fuel, ends normally (no "OutOfFuel") in the state of the pure iteration -/
theorem whileFuel_eq_iter {σ : Type} (cond : σ → Except String Bool) (body : σ → Except String σ) (c : σ → Bool) (b : σ → σ)
    (I : σ → Prop) (μ : σ → Nat)
    (hc : ∀ s, I s → cond s = .ok (c s)) (hb : ∀ s, I s → c s = true → body s = .ok (b s))
    (hI : ∀ s, I s → c s = true → I (b s)) (hμ : ∀ s, I s → c s = true → μ (b s) < μ s)
    (fuel : Nat) (s : σ) (hs : I s) (hf : μ s ≤ fuel) :
    whileFuel cond body fuel s = .ok (iterWhile c b fuel s) := by
  induction fuel generalizing s with
  | zero =>
    have hcs : c s = false := by
      cases h : c s with
      | false => rfl
      | true => have := hμ s hs h; omega
    simp [whileFuel, iterWhile, hc s hs, hcs, bind, Except.bind, pure, Except.pure]
  | succ k ih =>
    cases h : c s with
    | false => simp [whileFuel, iterWhile, hc s hs, h, bind, Except.bind, pure, Except.pure]
    | true =>
      have := hμ s hs h
      simp only [whileFuel, iterWhile, hc s hs, h, hb s hs h, bind, Except.bind, if_true]
      exact ih (b s) (hI s hs h) (by omega)

/-- once the measure fits, more fuel changes nothing -/
theorem iterWhile_fuel_irrelevant {σ : Type} (c : σ → Bool) (b : σ → σ) (I : σ → Prop) (μ : σ → Nat)
    (hI : ∀ s, I s → c s = true → I (b s)) (hμ : ∀ s, I s → c s = true → μ (b s) < μ s)
    (fuel fuel' : Nat) (s : σ) (hs : I s) (hf : μ s ≤ fuel) (hf' : μ s ≤ fuel') :
    iterWhile c b fuel s = iterWhile c b fuel' s := by
  induction fuel generalizing s fuel' with
  | zero =>
    have hcs : c s = false := by
      cases h : c s with
      | false => rfl
      | true => have := hμ s hs h; omega
    cases fuel' <;> simp [iterWhile, hcs]
  | succ k ih =>
    cases h : c s with
    | false => cases fuel' <;> simp [iterWhile, h]
    | true =>
      have := hμ s hs h
      cases fuel' with
      | zero => omega
      | succ k' => simp only [iterWhile, h, if_true]; exact ih k' (b s) (hI s hs h) (by omega) (by omega)

/-- a `while` loop that keeps an invariant under which the test holds runs out of every fuel: the Python loop does not end -/
theorem whileFuel_diverges {σ : Type} (cond : σ → Except String Bool) (body : σ → Except String σ) (b : σ → σ) (I : σ → Prop)
    (hc : ∀ s, I s → cond s = .ok true) (hb : ∀ s, I s → body s = .ok (b s)) (hI : ∀ s, I s → I (b s))
    (fuel : Nat) (s : σ) (hs : I s) : whileFuel cond body fuel s = .error "OutOfFuel" := by
  induction fuel generalizing s with
  | zero => simp [whileFuel, hc s hs, bind, Except.bind, throw, throwThe, MonadExceptOf.throw]
  | succ k ih => simp only [whileFuel, hc s hs, hb s hs, bind, Except.bind, if_true]; exact ih (b s) (hI s hs)

end Sarpy.Proofs.PyLoops
