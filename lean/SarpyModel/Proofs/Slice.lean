/-
  Lemmas about `Spec.Slice`: the counting function, arithmetic progressions, and the deep
  facts (mirror, overlap, reverse, compose) used by `Props/C01.lean`.
-/
import SarpyModel.Spec.Slice
import Mathlib.Tactic.Linarith
import Mathlib.Tactic.Ring

namespace Sarpy.Spec
open Sarpy

/-! ### counting -/

theorem lt_cnt_iff {span s : Int} (hs : 0 < s) (k : Nat) : k < cnt span s ↔ (k : Int) * s < span := by
  unfold cnt
  have h1 : (span + s - 1) / s * s ≤ span + s - 1 := Int.ediv_mul_le _ (by omega)
  have h2 : span + s - 1 < ((span + s - 1) / s + 1) * s := Int.lt_ediv_add_one_mul_self _ hs
  generalize (span + s - 1) / s = q at *
  constructor
  · intro h
    have hk : (k : Int) + 1 ≤ q := by omega
    nlinarith
  · intro h
    have : (k : Int) < q := by
      by_contra hc
      have : q + 1 ≤ (k : Int) + 1 := by omega
      nlinarith
    omega

theorem nat_eq_of_lt_iff {a b : Nat} (h : ∀ k : Nat, k < a ↔ k < b) : a = b := by
  have h1 := h a
  have h2 := h b
  omega

theorem cnt_pos {span s : Int} (hs : 0 < s) (hp : 0 < span) : 0 < cnt span s := by
  have := (lt_cnt_iff (span := span) hs 0).2 (by simpa using hp)
  exact this

theorem cnt_eq_zero {span s : Int} (hs : 0 < s) (hp : span ≤ 0) : cnt span s = 0 := by
  by_contra h
  have h0 : 0 < cnt span s := Nat.pos_of_ne_zero h
  have := (lt_cnt_iff (span := span) hs 0).1 h0
  simp at this
  omega

/-- the last term is below the span, the next one is not -/
theorem cnt_last {span s : Int} (hs : 0 < s) (hp : 0 < span) :
    ((cnt span s : Int) - 1) * s < span ∧ span ≤ (cnt span s : Int) * s := by
  have hc := cnt_pos hs hp
  constructor
  · have := (lt_cnt_iff (span := span) hs (cnt span s - 1)).1 (by omega)
    have e : ((cnt span s - 1 : Nat) : Int) = (cnt span s : Int) - 1 := by omega
    rwa [e] at this
  · by_contra h
    have := (lt_cnt_iff (span := span) hs (cnt span s)).2 (by omega)
    omega

/-- characterisation: `cnt` is the unique `c` with `(c-1)*s < span ≤ c*s` -/
theorem cnt_unique {span s : Int} (hs : 0 < s) {c : Nat} (h1 : ((c : Int) - 1) * s < span)
    (h2 : span ≤ (c : Int) * s) : cnt span s = c := by
  apply nat_eq_of_lt_iff
  intro k
  rw [lt_cnt_iff hs]
  constructor
  · intro h
    by_contra hc
    have : (c : Int) ≤ k := by omega
    nlinarith
  · intro h
    have : (k : Int) ≤ (c : Int) - 1 := by omega
    nlinarith

/-! ### arithmetic progressions -/

@[simp] theorem ap_length (a s : Int) (c : Nat) : (ap a s c).length = c := by simp [ap]

theorem ap_getElem (a s : Int) (c : Nat) (i : Nat) (h : i < (ap a s c).length) :
    (ap a s c)[i] = a + (i : Int) * s := by simp [ap]

theorem ap_ext {a a' s s' : Int} {c c' : Nat} (hc : c = c')
    (h : ∀ i : Nat, i < c → a + (i : Int) * s = a' + (i : Int) * s') : ap a s c = ap a' s' c' := by
  subst hc
  apply List.ext_getElem
  · simp
  · intro i h1 h2
    rw [ap_getElem, ap_getElem]
    exact h i (by simpa using h1)

theorem ap_reverse_map (a s : Int) (c : Nat) (m : Int) :
    ((ap a s c).reverse.map (fun r => m - r)) = ap (m - (a + ((c : Int) - 1) * s)) s c := by
  apply List.ext_getElem
  · simp
  · intro i h1 h2
    simp only [List.length_map, List.length_reverse, ap_length] at h1
    simp only [List.getElem_map, List.getElem_reverse, ap_getElem, ap_length]
    have : ((c - 1 - i : Nat) : Int) = (c : Int) - 1 - i := by omega
    rw [this]
    ring

theorem mem_ap {a s : Int} {c : Nat} {x : Int} : x ∈ ap a s c ↔ ∃ k : Nat, k < c ∧ x = a + (k : Int) * s := by
  simp [ap]
  constructor
  · rintro ⟨k, hk, rfl⟩; exact ⟨k, hk, rfl⟩
  · rintro ⟨k, hk, rfl⟩; exact ⟨k, hk, rfl⟩

end Sarpy.Spec

namespace Sarpy.Spec
open Sarpy

/-! ### normal slices -/

theorem count_pos_step {a b s : Int} (hs : 0 < s) :
    (⟨a, some b, s⟩ : NSlice).count = cnt (b - a) s := by
  simp [NSlice.count, hs]

theorem count_neg_step {a s : Int} {st : Option Int} (hs : s < 0) :
    (⟨a, st, s⟩ : NSlice).count = cnt (a - st.getD (-1)) (-s) := by
  have : ¬ (0 < s) := by omega
  simp [NSlice.count, hs, this]

/-- facts about a normal slice with positive step -/
theorem normal_pos_facts {n a b s : Int} (hs : 0 < s) (hab : a < b) :
    let t : NSlice := ⟨a, some b, s⟩
    0 < t.count ∧ a ≤ t.last ∧ t.last < b ∧ b ≤ t.last + s := by
  intro t
  have hc : t.count = cnt (b - a) s := count_pos_step hs
  have hp := cnt_pos hs (show 0 < b - a by omega)
  have hl := cnt_last hs (show 0 < b - a by omega)
  refine ⟨by omega, ?_, ?_, ?_⟩ <;> simp only [NSlice.last, hc, t]
  · have : (0 : Int) ≤ ((cnt (b - a) s : Int) - 1) * s := by
      apply Int.mul_nonneg <;> omega
    omega
  · omega
  · have : ((cnt (b - a) s : Int) - 1) * s + s = (cnt (b - a) s : Int) * s := by ring
    omega

/-- facts about a normal slice with negative step (`lo` is the exclusive lower end) -/
theorem normal_neg_facts {a s : Int} {st : Option Int} (hs : s < 0) (hlo : st.getD (-1) < a) :
    let t : NSlice := ⟨a, st, s⟩
    0 < t.count ∧ t.last ≤ a ∧ st.getD (-1) < t.last ∧ t.last + s ≤ st.getD (-1) := by
  intro t
  have hc : t.count = cnt (a - st.getD (-1)) (-s) := count_neg_step hs
  have hs' : 0 < -s := by omega
  have hp := cnt_pos hs' (show 0 < a - st.getD (-1) by omega)
  have hl := cnt_last hs' (show 0 < a - st.getD (-1) by omega)
  refine ⟨by omega, ?_, ?_, ?_⟩ <;> simp only [NSlice.last, hc, t]
  · have : (0 : Int) ≤ ((cnt (a - st.getD (-1)) (-s) : Int) - 1) * (-s) := by
      apply Int.mul_nonneg <;> omega
    have e : ((cnt (a - st.getD (-1)) (-s) : Int) - 1) * s = -(((cnt (a - st.getD (-1)) (-s) : Int) - 1) * (-s)) := by ring
    omega
  · have e : ((cnt (a - st.getD (-1)) (-s) : Int) - 1) * s = -(((cnt (a - st.getD (-1)) (-s) : Int) - 1) * (-s)) := by ring
    omega
  · have e : ((cnt (a - st.getD (-1)) (-s) : Int) - 1) * s + s = -((cnt (a - st.getD (-1)) (-s) : Int) * (-s)) := by ring
    omega

theorem Normal.count_pos {n : Int} {t : NSlice} (h : t.Normal n) : 0 < t.count := by
  obtain ⟨a, st, s⟩ := t
  obtain ⟨h0, h1, (⟨hs, b, hb, hab, hbn⟩ | ⟨hs, hstop⟩)⟩ := h
  · simp only at hb; subst hb
    exact (normal_pos_facts (n := n) hs hab).1
  · simp only at hs hstop h0
    apply (normal_neg_facts hs _).1
    rcases hstop with h | ⟨b, hb, hb0, hba⟩
    · simp [h]; omega
    · simp [hb]; omega

/-! ### mirror -/

theorem mirror_spec {n : Int} {t : NSlice} (h : t.Normal n) :
    (mirror n t).Normal n ∧ (mirror n t).count = t.count ∧
    ((mirror n t).indices.reverse.map (fun r => n - 1 - r)) = t.indices := by
  obtain ⟨a, st, s⟩ := t
  obtain ⟨h0, h1, (⟨hs, b, hb, hab, hbn⟩ | ⟨hs, hstop⟩)⟩ := h
  · -- positive step
    simp only at hb h0 h1 hs hab; subst hb
    obtain ⟨hc, hla, hlb, hlb'⟩ := normal_pos_facts (n := n) hs hab
    generalize hC : (⟨a, some b, s⟩ : NSlice).count = C at *
    have hlast : (⟨a, some b, s⟩ : NSlice).last = a + ((C : Int) - 1) * s := by simp [NSlice.last, hC]
    rw [hlast] at hla hlb hlb'
    have hm : mirror n ⟨a, some b, s⟩ = ⟨n - 1 - (a + ((C : Int) - 1) * s), some (n - a), s⟩ := by
      simp [mirror, hs, hlast]
    have hcm : (⟨n - 1 - (a + ((C : Int) - 1) * s), some (n - a), s⟩ : NSlice).count = C := by
      rw [count_pos_step hs]
      apply cnt_unique hs
      · ring_nf; omega
      · have : (C : Int) * s = ((C : Int) - 1) * s + s := by ring
        rw [this]; ring_nf; omega
    rw [hm]
    refine ⟨⟨by simp only; omega, by simp only; omega, Or.inl ⟨hs, n - a, rfl, by simp only; omega, by omega⟩⟩, hcm, ?_⟩
    simp only [NSlice.indices, hcm, hC]
    rw [ap_reverse_map]
    apply ap_ext rfl
    intro i _
    ring
  · -- negative step
    simp only at h0 h1 hs hstop
    have hlo : st.getD (-1) < a := by
      rcases hstop with h | ⟨b, hb, hb0, hba⟩
      · simp [h]; omega
      · simp [hb]; omega
    have hlo0 : -1 ≤ st.getD (-1) := by
      rcases hstop with h | ⟨b, hb, hb0, hba⟩
      · simp [h]
      · simp [hb]; omega
    obtain ⟨hc, hla, hlb, hlb'⟩ := normal_neg_facts hs hlo
    generalize hC : (⟨a, st, s⟩ : NSlice).count = C at *
    have hlast : (⟨a, st, s⟩ : NSlice).last = a + ((C : Int) - 1) * s := by simp [NSlice.last, hC]
    rw [hlast] at hla hlb hlb'
    have hns : ¬ (0 < s) := by omega
    have hm : mirror n ⟨a, st, s⟩ = ⟨n - 1 - (a + ((C : Int) - 1) * s),
        (if a = n - 1 then none else some (n - 2 - a)), s⟩ := by
      simp [mirror, hns, hlast]
    have hs' : 0 < -s := by omega
    have hcm : (⟨n - 1 - (a + ((C : Int) - 1) * s), (if a = n - 1 then none else some (n - 2 - a)), s⟩ : NSlice).count = C := by
      rw [count_neg_step hs]
      apply cnt_unique hs'
      · split <;> simp <;> ring_nf <;> omega
      · have : (C : Int) * (-s) = -(((C : Int) - 1) * s) + (-s) := by ring
        rw [this]
        split <;> simp <;> ring_nf <;> omega
    rw [hm]
    refine ⟨⟨by simp only; omega, by simp only; omega, Or.inr ⟨hs, ?_⟩⟩, hcm, ?_⟩
    · by_cases ha : a = n - 1
      · left; simp [ha]
      · right; exact ⟨n - 2 - a, by simp [ha], by omega, by simp only; omega⟩
    · simp only [NSlice.indices, hcm, hC]
      rw [ap_reverse_map]
      apply ap_ext rfl
      intro i _
      ring

end Sarpy.Spec

namespace Sarpy.Spec
open Sarpy

/-! ### reverse -/

theorem ap_reverse (a s : Int) (c : Nat) :
    (ap a s c).reverse = ap (a + ((c : Int) - 1) * s) (-s) c := by
  apply List.ext_getElem
  · simp
  · intro i h1 h2
    simp only [List.length_reverse, ap_length] at h1
    simp only [List.getElem_reverse, ap_getElem, ap_length]
    have : ((c - 1 - i : Nat) : Int) = (c : Int) - 1 - i := by omega
    rw [this]
    ring

theorem reverse_spec {n : Int} {t : NSlice} (h : t.Normal n) (hs : t.step < 0) :
    (reverseSlice t).Normal n ∧ (reverseSlice t).indices = t.indices.reverse := by
  obtain ⟨a, st, s⟩ := t
  simp only at hs
  obtain ⟨h0, h1, (⟨hs', _⟩ | ⟨_, hstop⟩)⟩ := h
  · simp only at hs'; omega
  simp only at h0 h1 hstop
  have hlo : st.getD (-1) < a := by
    rcases hstop with h | ⟨b, hb, hb0, hba⟩
    · simp [h]; omega
    · simp [hb]; omega
  have hlo0 : -1 ≤ st.getD (-1) := by
    rcases hstop with h | ⟨b, hb, hb0, hba⟩
    · simp [h]
    · simp [hb]; omega
  obtain ⟨hc, hla, hlb, hlb'⟩ := normal_neg_facts hs hlo
  generalize hC : (⟨a, st, s⟩ : NSlice).count = C at *
  have hlast : (⟨a, st, s⟩ : NSlice).last = a + ((C : Int) - 1) * s := by simp [NSlice.last, hC]
  rw [hlast] at hla hlb hlb'
  have hs' : 0 < -s := by omega
  have hr : reverseSlice ⟨a, st, s⟩ = ⟨a + ((C : Int) - 1) * s, some (a + 1), -s⟩ := by
    simp [reverseSlice, hlast]
  have hcr : (⟨a + ((C : Int) - 1) * s, some (a + 1), -s⟩ : NSlice).count = C := by
    rw [count_pos_step hs']
    apply cnt_unique hs'
    · ring_nf; omega
    · have : (C : Int) * (-s) = -(((C : Int) - 1) * s) + (-s) := by ring
      rw [this]; ring_nf; omega
  rw [hr]
  refine ⟨⟨by simp only; omega, by simp only; omega, Or.inl ⟨hs', a + 1, rfl, by simp only; omega, by omega⟩⟩, ?_⟩
  simp only [NSlice.indices, hcr, hC]
  rw [ap_reverse]

/-! ### overlap with a block -/

theorem ap_drop_take_map (a s d : Int) (c k m : Nat) (h : k + m ≤ c) :
    (((ap a s c).drop k).take m).map (fun x => x - d) = ap (a + (k : Int) * s - d) s m := by
  apply List.ext_getElem
  · simp; omega
  · intro i h1 h2
    simp only [List.getElem_map, List.getElem_take, List.getElem_drop, ap_getElem]
    push_cast
    ring

/-- what `overlap` returns, for either sign of the step -/
theorem overlap_spec {n : Int} {t : NSlice} (h : t.Normal n) {b0 b1 : Int} (hb0 : 0 ≤ b0) (hb : b0 < b1) (hb1 : b1 ≤ n) :
    match overlap t b0 b1 with
    | none => ∀ i : Nat, i < t.count → ¬ (b0 ≤ t.start + (i : Int) * t.step ∧ t.start + (i : Int) * t.step < b1)
    | some (p, c) =>
      ∃ k0 k1 : Nat, c = ⟨k0, some k1, 1⟩ ∧ k0 < k1 ∧ k1 ≤ t.count ∧ p.Normal (b1 - b0) ∧
        p.indices = ((t.indices.drop k0).take (k1 - k0)).map (fun x => x - b0) ∧
        ∀ i : Nat, i < t.count →
          ((b0 ≤ t.start + (i : Int) * t.step ∧ t.start + (i : Int) * t.step < b1) ↔ (k0 ≤ i ∧ i < k1)) := by
  obtain ⟨a, st, s⟩ := t
  obtain ⟨h0, h1, (⟨hs, b, hbb, hab, hbn⟩ | ⟨hs, hstop⟩)⟩ := h
  · -- positive step
    simp only at hbb h0 h1 hs hab; subst hbb
    have hC : (⟨a, some b, s⟩ : NSlice).count = cnt (b - a) s := count_pos_step hs
    have hk0 : ∀ i : Nat, i < cnt (b0 - a) s ↔ a + (i : Int) * s < b0 := by
      intro i; rw [lt_cnt_iff hs]; omega
    have hk1 : ∀ i : Nat, i < cnt (min b b1 - a) s ↔ a + (i : Int) * s < min b b1 := by
      intro i; rw [lt_cnt_iff hs]; omega
    have hkC : ∀ i : Nat, i < cnt (b - a) s ↔ a + (i : Int) * s < b := by
      intro i; rw [lt_cnt_iff hs]; omega
    generalize hK0 : cnt (b0 - a) s = k0 at *
    generalize hK1 : cnt (min b b1 - a) s = k1 at *
    generalize hCC : cnt (b - a) s = C at *
    have hk1C : k1 ≤ C := by
      by_contra hc
      have h1 := (hk1 C).1 (by omega)
      have h2 := (hkC C).not.1 (by omega)
      omega
    have key : ∀ i : Nat, i < C → ((b0 ≤ a + (i : Int) * s ∧ a + (i : Int) * s < b1) ↔ (k0 ≤ i ∧ i < k1)) := by
      intro i hi
      have e0 := hk0 i
      have e1 := hk1 i
      have eC := (hkC i).1 hi
      constructor
      · rintro ⟨x1, x2⟩
        exact ⟨by by_contra hc; have := e0.1 (by omega); omega, e1.2 (by omega)⟩
      · rintro ⟨x1, x2⟩
        have := e1.1 x2
        have := e0.not.1 (by omega)
        omega
    by_cases hlt : k0 < k1
    · have hov : overlap ⟨a, some b, s⟩ b0 b1 =
          some (⟨a - b0 + (k0 : Int) * s, some (min (a - b0 + (k1 : Int) * s) (b1 - b0)), s⟩, ⟨k0, some k1, 1⟩) := by
        simp [overlap, hs, hK0, hK1, hlt]
      rw [hov]
      simp only
      have hx0 : b0 ≤ a + (k0 : Int) * s := by
        have := (hk0 k0).not.1 (by omega); omega
      have hx0' : a + (k0 : Int) * s < min b b1 := (hk1 k0).1 hlt
      have hmono : (k0 : Int) * s < (k1 : Int) * s := by
        have : (k0 : Int) < k1 := by omega
        nlinarith
      have hpc : (⟨a - b0 + (k0 : Int) * s, some (min (a - b0 + (k1 : Int) * s) (b1 - b0)), s⟩ : NSlice).count = k1 - k0 := by
        rw [count_pos_step hs]
        apply nat_eq_of_lt_iff
        intro i
        rw [lt_cnt_iff hs]
        have e1 := hk1 (k0 + i)
        push_cast at e1
        constructor
        · intro hh
          have : ((k0 : Int) + i) * s < (k1 : Int) * s := by
            have := Int.min_le_left (a - b0 + (k1 : Int) * s) (b1 - b0)
            nlinarith
          have : (k0 : Int) + i < k1 := by
            by_contra hc
            have : (k1 : Int) ≤ (k0 : Int) + i := by omega
            nlinarith
          omega
        · intro hh
          have hx := e1.1 (by omega)
          have : ((k0 : Int) + i) * s < (k1 : Int) * s := by
            have : (k0 : Int) + i < k1 := by omega
            nlinarith
          have e : ((k0 : Int) + i) * s = (k0 : Int) * s + (i : Int) * s := by ring
          omega
      refine ⟨k0, k1, rfl, hlt, by omega, ⟨by simp only; omega, by simp only; omega,
        Or.inl ⟨hs, _, rfl, ?_, Int.min_le_right _ _⟩⟩, ?_, ?_⟩
      · simp only; rw [Int.lt_min]; constructor <;> omega
      · simp only [NSlice.indices, hpc, hC]
        rw [ap_drop_take_map _ _ _ _ _ _ (by omega)]
        apply ap_ext rfl
        intro i _; ring
      · rw [hC]; exact key
    · have hov : overlap ⟨a, some b, s⟩ b0 b1 = none := by
        simp [overlap, hs, hK0, hK1, hlt]
      rw [hov]
      simp only
      intro i hi hx
      rw [hC] at hi
      have := (key i hi).1 hx
      omega
  · -- negative step
    simp only at h0 h1 hs hstop
    have hlo : st.getD (-1) < a := by
      rcases hstop with h | ⟨b, hb, hb0, hba⟩
      · simp [h]; omega
      · simp [hb]; omega
    have hlo0 : -1 ≤ st.getD (-1) := by
      rcases hstop with h | ⟨b, hb, hb0, hba⟩
      · simp [h]
      · simp [hb]; omega
    have hs' : 0 < -s := by omega
    have hns : ¬ (0 < s) := by omega
    have hC : (⟨a, st, s⟩ : NSlice).count = cnt (a - st.getD (-1)) (-s) := count_neg_step hs
    generalize hL : st.getD (-1) = L at *
    have hk0 : ∀ i : Nat, i < cnt (a - (b1 - 1)) (-s) ↔ b1 ≤ a + (i : Int) * s := by
      intro i; rw [lt_cnt_iff hs']
      have : (i : Int) * (-s) = -((i : Int) * s) := by ring
      omega
    have hk1 : ∀ i : Nat, i < cnt (a - max (b0 - 1) L) (-s) ↔ max (b0 - 1) L < a + (i : Int) * s := by
      intro i; rw [lt_cnt_iff hs']
      have : (i : Int) * (-s) = -((i : Int) * s) := by ring
      omega
    have hkC : ∀ i : Nat, i < cnt (a - L) (-s) ↔ L < a + (i : Int) * s := by
      intro i; rw [lt_cnt_iff hs']
      have : (i : Int) * (-s) = -((i : Int) * s) := by ring
      omega
    generalize hK0 : cnt (a - (b1 - 1)) (-s) = k0 at *
    generalize hK1 : cnt (a - max (b0 - 1) L) (-s) = k1 at *
    generalize hCC : cnt (a - L) (-s) = C at *
    have hk1C : k1 ≤ C := by
      by_contra hc
      have h1 := (hk1 C).1 (by omega)
      have h2 := (hkC C).not.1 (by omega)
      have := Int.le_max_right (b0 - 1) L
      omega
    have key : ∀ i : Nat, i < C → ((b0 ≤ a + (i : Int) * s ∧ a + (i : Int) * s < b1) ↔ (k0 ≤ i ∧ i < k1)) := by
      intro i hi
      have e0 := hk0 i
      have e1 := hk1 i
      have eC := (hkC i).1 hi
      constructor
      · rintro ⟨x1, x2⟩
        refine ⟨by by_contra hc; have := e0.1 (by omega); omega, e1.2 ?_⟩
        rw [Int.max_lt]; omega
      · rintro ⟨x1, x2⟩
        have := e1.1 x2
        rw [Int.max_lt] at this
        have := e0.not.1 (by omega)
        omega
    by_cases hlt : k0 < k1
    · have hov : overlap ⟨a, st, s⟩ b0 b1 =
          some (⟨a - b0 + (k0 : Int) * s,
            (if a - b0 + (k1 : Int) * s < 0 then none else some (a - b0 + (k1 : Int) * s)), s⟩, ⟨k0, some k1, 1⟩) := by
        simp [overlap, hs, hns, hL, hK0, hK1, hlt]
      rw [hov]
      simp only
      have hx0 : a + (k0 : Int) * s < b1 := by
        have := (hk0 k0).not.1 (by omega); omega
      have hx0' : max (b0 - 1) L < a + (k0 : Int) * s := (hk1 k0).1 hlt
      rw [Int.max_lt] at hx0'
      have hxk1 : a + (k1 : Int) * s ≤ max (b0 - 1) L := by
        have := (hk1 k1).not.1 (by omega); omega
      have hmono : (k1 : Int) * s < (k0 : Int) * s := by
        have : (k0 : Int) < k1 := by omega
        nlinarith
      have hpc : (⟨a - b0 + (k0 : Int) * s,
            (if a - b0 + (k1 : Int) * s < 0 then none else some (a - b0 + (k1 : Int) * s)), s⟩ : NSlice).count = k1 - k0 := by
        rw [count_neg_step hs]
        apply nat_eq_of_lt_iff
        intro i
        rw [lt_cnt_iff hs']
        have e1 := hk1 (k0 + i)
        push_cast at e1
        have e : ((k0 : Int) + i) * s = (k0 : Int) * s + (i : Int) * s := by ring
        have e' : (i : Int) * (-s) = -((i : Int) * s) := by ring
        split
        · rename_i hneg
          simp only [Option.getD_none]
          constructor
          · intro hh
            -- x_{k0+i} ≥ b0 > x_{k1}
            have : (k1 : Int) * s < ((k0 : Int) + i) * s := by omega
            have : (k0 : Int) + i < k1 := by
              by_contra hc
              have : (k1 : Int) ≤ (k0 : Int) + i := by omega
              nlinarith
            omega
          · intro hh
            have hx := e1.1 (by omega)
            rw [Int.max_lt] at hx
            omega
        · rename_i hnn
          simp only [Option.getD_some]
          constructor
          · intro hh
            have : (k1 : Int) * s < ((k0 : Int) + i) * s := by omega
            have : (k0 : Int) + i < k1 := by
              by_contra hc
              have : (k1 : Int) ≤ (k0 : Int) + i := by omega
              nlinarith
            omega
          · intro hh
            have : (k1 : Int) * s < ((k0 : Int) + i) * s := by
              have : (k0 : Int) + i < k1 := by omega
              nlinarith
            omega
      refine ⟨k0, k1, rfl, hlt, by omega, ⟨by simp only; omega, by simp only; omega, Or.inr ⟨hs, ?_⟩⟩, ?_, ?_⟩
      · by_cases hneg : a - b0 + (k1 : Int) * s < 0
        · left; simp [hneg]
        · right; exact ⟨a - b0 + (k1 : Int) * s, by simp [hneg], by omega, by simp only; omega⟩
      · simp only [NSlice.indices, hpc, hC]
        rw [ap_drop_take_map _ _ _ _ _ _ (by omega)]
        apply ap_ext rfl
        intro i _; ring
      · rw [hC]; exact key
    · have hov : overlap ⟨a, st, s⟩ b0 b1 = none := by
        simp [overlap, hs, hns, hL, hK0, hK1, hlt]
      rw [hov]
      simp only
      intro i hi hx
      rw [hC] at hi
      have := (key i hi).1 hx
      omega

end Sarpy.Spec

namespace Sarpy.Spec
open Sarpy

/-! ### indices of a normal slice stay in range -/

theorem Normal.index_range {n : Int} {t : NSlice} (h : t.Normal n) (j : Int) (hj0 : 0 ≤ j) (hj : j < t.count) :
    0 ≤ t.start + j * t.step ∧ t.start + j * t.step < n := by
  obtain ⟨a, st, s⟩ := t
  obtain ⟨h0, h1, (⟨hs, b, hb, hab, hbn⟩ | ⟨hs, hstop⟩)⟩ := h
  · simp only at hb h0 h1 hs hab; subst hb
    obtain ⟨hc, hla, hlb, _⟩ := normal_pos_facts (n := n) hs hab
    simp only [NSlice.last] at hla hlb
    simp only
    have : j * s ≤ (((⟨a, some b, s⟩ : NSlice).count : Int) - 1) * s := by
      apply Int.mul_le_mul_of_nonneg_right <;> omega
    have : 0 ≤ j * s := Int.mul_nonneg hj0 (by omega)
    omega
  · simp only at h0 h1 hs hstop
    have hlo : st.getD (-1) < a := by
      rcases hstop with h | ⟨b, hb, hb0, hba⟩
      · simp [h]; omega
      · simp [hb]; omega
    have hlo0 : -1 ≤ st.getD (-1) := by
      rcases hstop with h | ⟨b, hb, hb0, hba⟩
      · simp [h]
      · simp [hb]; omega
    obtain ⟨hc, hla, hlb, _⟩ := normal_neg_facts hs hlo
    simp only [NSlice.last] at hla hlb
    simp only
    have : (((⟨a, st, s⟩ : NSlice).count : Int) - 1) * s ≤ j * s := by
      have : j * (-s) ≤ (((⟨a, st, s⟩ : NSlice).count : Int) - 1) * (-s) := by
        apply Int.mul_le_mul_of_nonneg_right <;> omega
      nlinarith
    have : j * s ≤ 0 := by nlinarith
    omega

theorem Normal.last_range {m : Int} {p : NSlice} (h : p.Normal m) : 0 ≤ p.last ∧ p.last < m := by
  have hc := Normal.count_pos h
  have := Normal.index_range h ((p.count : Int) - 1) (by omega) (by omega)
  simpa [NSlice.last] using this

theorem Normal.last_eq {m : Int} {p : NSlice} (_h : p.Normal m) :
    p.last = p.start + ((p.count : Int) - 1) * p.step := rfl

/-! ### composition of a subset definition with a subscript -/

theorem compose_spec {full : Int} {d p : NSlice} (hd : d.Normal full) (hp : p.Normal d.count) :
    (compose full d p).Normal full ∧ (compose full d p).count = p.count ∧
    (compose full d p).indices = p.indices.map (fun i => d.start + i * d.step) := by
  have hpc := Normal.count_pos hp
  have hpl := Normal.last_range hp
  have hps : 0 ≤ p.start ∧ p.start < d.count := ⟨hp.1, hp.2.1⟩
  have hfirst := Normal.index_range hd p.start hps.1 hps.2
  have hlast := Normal.index_range hd p.last hpl.1 hpl.2
  have hle : p.last = p.start + ((p.count : Int) - 1) * p.step := rfl
  -- sign of the steps
  have hdstep : d.step ≠ 0 := by
    obtain ⟨_, _, (⟨hs, _⟩ | ⟨hs, _⟩)⟩ := hd <;> omega
  have hpstep : p.step ≠ 0 := by
    obtain ⟨_, _, (⟨hs, _⟩ | ⟨hs, _⟩)⟩ := hp <;> omega
  generalize hC : p.count = C at *
  set step := p.step * d.step with hstep
  set first := d.start + p.start * d.step with hfirst'
  set last := d.start + p.last * d.step with hlast'
  have hspan : last - first = ((C : Int) - 1) * step := by
    simp only [hlast', hfirst', hle, hstep]; ring
  have hidx : ∀ stop', (⟨first, stop', step⟩ : NSlice).count = C →
      (⟨first, stop', step⟩ : NSlice).indices = p.indices.map (fun i => d.start + i * d.step) := by
    intro stop' hc
    simp only [NSlice.indices, hc, hC]
    apply List.ext_getElem
    · simp
    · intro i h1 h2
      simp only [List.getElem_map, ap_getElem, hfirst', hstep]
      ring
  by_cases hpos : 0 < step
  · -- positive composite step
    have hstop : 0 ≤ last + step := by omega
    have hcomp : compose full d p = ⟨first, (if last + step > full then some full else some (last + step)), step⟩ := by
      have : ¬ (last + step < 0) := by omega
      simp only [compose, this, if_false, ← hstep, ← hfirst', ← hlast']
    have hcnt : (⟨first, (if last + step > full then some full else some (last + step)), step⟩ : NSlice).count = C := by
      split
      · rw [count_pos_step hpos]
        apply cnt_unique hpos
        · omega
        · have : (C : Int) * step = ((C : Int) - 1) * step + step := by ring
          omega
      · rw [count_pos_step hpos]
        apply cnt_unique hpos
        · have : (C : Int) * step = ((C : Int) - 1) * step + step := by ring
          omega
        · have : (C : Int) * step = ((C : Int) - 1) * step + step := by ring
          omega
    rw [hcomp]
    refine ⟨⟨hfirst.1, hfirst.2, Or.inl ⟨hpos, ?_⟩⟩, hcnt, hidx _ hcnt⟩
    have hnn : (0 : Int) ≤ ((C : Int) - 1) * step := Int.mul_nonneg (by omega) (by omega)
    split
    · exact ⟨full, rfl, hfirst.2, le_refl _⟩
    · exact ⟨last + step, rfl, by simp only; omega, by omega⟩
  · -- negative composite step
    have hne : step ≠ 0 := Int.mul_ne_zero hpstep hdstep
    have hneg : step < 0 := by omega
    have hnp : (0 : Int) ≤ ((C : Int) - 1) * (-step) := Int.mul_nonneg (by omega) (by omega)
    have hsp' : first - last = ((C : Int) - 1) * (-step) := by
      have : ((C : Int) - 1) * (-step) = -(((C : Int) - 1) * step) := by ring
      omega
    have hcomp : compose full d p = ⟨first, (if last + step < 0 then none else some (last + step)), step⟩ := by
      have : ¬ (last + step > full) := by omega
      simp only [compose, ← hstep, ← hfirst', ← hlast']
      split <;> simp_all
    have hs' : 0 < -step := by omega
    have hcnt : (⟨first, (if last + step < 0 then none else some (last + step)), step⟩ : NSlice).count = C := by
      rw [count_neg_step hneg]
      have e : (C : Int) * (-step) = ((C : Int) - 1) * (-step) + (-step) := by ring
      have e2 : (C : Int) * (-step) = -((C : Int) * step) := by ring
      have e3 : ((C : Int) - 1) * (-step) = -(((C : Int) - 1) * step) := by ring
      apply cnt_unique hs'
      · split <;> simp <;> omega
      · split <;> simp <;> omega
    rw [hcomp]
    refine ⟨⟨hfirst.1, hfirst.2, Or.inr ⟨hneg, ?_⟩⟩, hcnt, hidx _ hcnt⟩
    by_cases hlt : last + step < 0
    · left; simp [hlt]
    · right; exact ⟨last + step, by simp [hlt], by omega, by simp only; omega⟩

end Sarpy.Spec

namespace Sarpy.Spec
open Sarpy

/-! ### verify_slice is sound w.r.t. numpy -/

theorem checkBound_some {n x y : Int} (h : checkBound n (some x) = some (some y)) :
    -n ≤ x ∧ x ≤ n ∧ y = (if x < 0 then x + n else x) ∧ 0 ≤ y ∧ y ≤ n := by
  unfold checkBound at h
  simp only at h
  split at h
  · rename_i h1; simp at h; subst h; simp [h1.2]; omega
  · split at h
    · rename_i h1 h2; simp at h; subst h
      have : ¬ x < 0 := by omega
      simp [this]; omega
    · simp at h

theorem checkBound_some_none {n x : Int} : checkBound n (some x) ≠ some none := by
  unfold checkBound; simp only; split <;> [simp; (split <;> simp)]

theorem npClamp_eq {n x lo hi y : Int} (hy : y = (if x < 0 then x + n else x)) (h1 : lo ≤ y) (h2 : y ≤ hi) :
    npClamp n x lo hi = y := by
  unfold npClamp
  simp only [← hy]
  have h3 : ¬ y < lo := by omega
  have h4 : ¬ y > hi := by omega
  simp only [h3, h4, if_false]

theorem checkBound_none {n : Int} {sa : Option Int} (h : checkBound n sa = some none) : sa = none := by
  cases sa with
  | none => rfl
  | some x => exact absurd h checkBound_some_none

theorem startPos_eq {n : Int} {sa a : Option Int} (h : checkBound n sa = some a) (hn : 0 ≤ n) :
    npStartPos n sa = a.getD 0 ∧ 0 ≤ a.getD 0 ∧ a.getD 0 ≤ n := by
  cases sa with
  | none => simp [checkBound] at h; subst h; simp [npStartPos]; omega
  | some x =>
    cases a with
    | none => exact absurd h checkBound_some_none
    | some y =>
      obtain ⟨_, _, hy, h0, h1⟩ := checkBound_some h
      simp only [Option.getD_some, npStartPos]
      exact ⟨npClamp_eq hy h0 h1, h0, h1⟩

theorem stopPos_eq {n : Int} {sb b : Option Int} (h : checkBound n sb = some b) (hn : 0 ≤ n) :
    npStopPos n sb = b.getD n ∧ 0 ≤ b.getD n ∧ b.getD n ≤ n := by
  cases sb with
  | none => simp [checkBound] at h; subst h; simp [npStopPos]; omega
  | some x =>
    cases b with
    | none => exact absurd h checkBound_some_none
    | some y =>
      obtain ⟨_, _, hy, h0, h1⟩ := checkBound_some h
      simp only [Option.getD_some, npStopPos]
      exact ⟨npClamp_eq hy h0 h1, h0, h1⟩

theorem startNeg_eq {n : Int} {sa a : Option Int} (h : checkBound n sa = some a) (hn : 1 ≤ n) :
    npStartNeg n sa = negStart n a ∧ 0 ≤ negStart n a ∧ negStart n a ≤ n - 1 := by
  cases sa with
  | none => simp [checkBound] at h; subst h; simp [npStartNeg, negStart]; omega
  | some x =>
    cases a with
    | none => exact absurd h checkBound_some_none
    | some y =>
      obtain ⟨_, _, hy, h0, h1⟩ := checkBound_some h
      by_cases hyn : y = n
      · simp only [npStartNeg, negStart, hyn, if_true]
        refine ⟨?_, by omega, le_refl _⟩
        unfold npClamp
        simp only [← hy, hyn]
        have h3 : ¬ (n < -1) := by omega
        have h4 : n > n - 1 := by omega
        simp only [h3, h4, if_false, if_true]
      · simp only [npStartNeg, negStart, hyn, if_false]
        exact ⟨npClamp_eq hy (by omega) (by omega), h0, by omega⟩

theorem stopNeg_eq {n : Int} {sb : Option Int} {b' : Int} (h : checkBound n sb = some (some b')) (hb : b' ≤ n - 1) :
    npStopNeg n sb = b' ∧ 0 ≤ b' := by
  cases sb with
  | none => simp [checkBound] at h
  | some x =>
    obtain ⟨_, _, hy, h0, h1⟩ := checkBound_some h
    simp only [npStopNeg]
    exact ⟨npClamp_eq hy (by omega) hb, h0⟩

theorem verifySlice_sound {n : Nat} {s : PySlice} {t : NSlice} (h : verifySlice n s = some t) :
    t.Normal n ∧ t.indices = npIndices n s := by
  obtain ⟨sa, sb, sc⟩ := s
  unfold verifySlice at h
  simp only at h
  split at h
  · simp at h
  rename_i hn
  split at h
  case h_2 => simp at h
  rename_i a b ha hb
  try simp only at ha hb
  by_cases hpos : sc.getD 1 > 0
  · simp only [hpos, if_true] at h
    split at h
    · simp at h
    rename_i hsign
    simp only [ne_eq, not_not] at hsign
    simp only [Option.some.injEq] at h; subst h
    have hss : Int.sign (sc.getD 1) = 1 := Int.sign_eq_one_of_pos hpos
    rw [hss] at hsign
    have hlt : a.getD 0 < b.getD n := by
      have := Int.sign_eq_one_iff_pos.1 hsign; omega
    obtain ⟨eA, hA0, hA1⟩ := startPos_eq ha (by omega)
    obtain ⟨eB, hB0, hB1⟩ := stopPos_eq hb (by omega)
    refine ⟨⟨hA0, by simp only; omega, Or.inl ⟨hpos, _, rfl, hlt, hB1⟩⟩, ?_⟩
    simp only [NSlice.indices, npIndices, hpos, if_true]
    rw [count_pos_step hpos, eA, eB]
  · simp only [hpos, if_false] at h
    by_cases hneg : sc.getD 1 < 0
    · simp only [hneg, if_true] at h
      have hns : ¬ (sc.getD 1 > 0) := hpos
      obtain ⟨eA, hA0, hA1⟩ := startNeg_eq ha (by omega)
      cases b with
      | none =>
        simp only [Option.some.injEq] at h; subst h
        have hsb := checkBound_none hb
        subst hsb
        refine ⟨⟨hA0, by simp only; omega, Or.inr ⟨hneg, Or.inl rfl⟩⟩, ?_⟩
        simp only [NSlice.indices, npIndices, hns, hneg, if_true, if_false]
        rw [count_neg_step hneg, eA]
        simp [npStopNeg]
      | some b' =>
        simp only at h
        split at h
        · simp at h
        rename_i hsign
        simp only [ne_eq, not_not] at hsign
        simp only [Option.some.injEq] at h; subst h
        have hss : Int.sign (sc.getD 1) = -1 := Int.sign_eq_neg_one_of_neg hneg
        rw [hss] at hsign
        have hlt : b' < negStart n a := by
          have := Int.sign_eq_neg_one_iff_neg.1 hsign; omega
        obtain ⟨eB, hB0⟩ := stopNeg_eq hb (by omega)
        refine ⟨⟨hA0, by simp only; omega, Or.inr ⟨hneg, Or.inr ⟨b', rfl, hB0, hlt⟩⟩⟩, ?_⟩
        simp only [NSlice.indices, npIndices, hns, hneg, if_true, if_false]
        rw [count_neg_step hneg, eA, eB]
        simp
    · have : sc.getD 1 = 0 := by omega
      simp [this] at h

theorem verifyInt_sound {n : Nat} {i : Int} {t : NSlice} (h : verifyInt n i = some t) :
    t.Normal n ∧ -(n : Int) ≤ i ∧ i < n ∧ t.indices = [if i < 0 then i + n else i] := by
  unfold verifyInt at h
  split at h
  · simp at h
  split at h
  · rename_i h1
    simp only [Option.some.injEq] at h; subst h
    refine ⟨⟨by simp only; omega, by simp only; omega, Or.inl ⟨by simp only; omega, _, rfl, by simp only; omega, by omega⟩⟩, h1.1, by omega, ?_⟩
    have : (⟨i + n, some (i + n + 1), 1⟩ : NSlice).count = 1 := by
      rw [count_pos_step (by omega)]
      apply cnt_unique (by omega) <;> simp
    simp [NSlice.indices, this, ap, h1.2]
  · split at h
    · rename_i h0 h1
      simp only [Option.some.injEq] at h; subst h
      refine ⟨⟨h1.1, h1.2, Or.inl ⟨by simp only; omega, _, rfl, by simp only; omega, by omega⟩⟩, by omega, h1.2, ?_⟩
      have : (⟨i, some (i + 1), 1⟩ : NSlice).count = 1 := by
        rw [count_pos_step (by omega)]
        apply cnt_unique (by omega) <;> simp
      have hi : ¬ i < 0 := by omega
      simp [NSlice.indices, this, ap, hi]
    · simp at h

end Sarpy.Spec
