/-
  C09 — every module that carries theorems of namespace `Sarpy.Props.C09` (the audit of harness/c09.py imports this one):
  layout arithmetic (C09), header text and retry termination (C09H), writer state machine (C09W: single steps, file-object log, close;
  C09Image: the file image over good histories; C09Wf: layout => well-formed configuration, counter-example; C09Amp: which AmpSF a formatted chunk is encoded with),
  bridge to the regenerated make_file_header kernels (Bridge/Cphd).
-/
import SarpyModel.Props.C09
import SarpyModel.Props.C09H
import SarpyModel.Props.C09W
import SarpyModel.Props.C09Image
import SarpyModel.Props.C09Wf
import SarpyModel.Props.C09Amp
import SarpyModel.Bridge.Cphd
