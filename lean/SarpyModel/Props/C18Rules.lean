/-
  C18 (extension) — the arithmetic / structural content rules of the consistency checkers.

  For every reference rule of `Spec.CheckerRules` (each one bridged by theorem to the comparison regenerated from the Python,
  `Bridge/CheckerRules.lean`, or hand-modelled and tied by correspondence):
  * `writer_satisfies_<rule>`  : the rule holds on everything the writer models produce — `Spec.CphdLayout.layout` / `choose`
    for the header rules, running-sum (packed) offsets for the per-channel arrays, declared counts taken from the list they
    count, identifiers made by an injective naming of 0 … n-1, the subheaders `_create_image_segments` builds for the row
    segmentation of C03 — for all sizes;
  * `mutation_<what>_falsifies_<rule>` : the catalogue mutation falsifies exactly that rule;
  * `<rule>_iff` : the declarative reading of the rule (what the message documents);
  * the boundary facts behind the search: a next block that starts immediately after the section terminator satisfies the
    rule (`padAfterXml_pad_zero`), the writer produces such files (`writer_pad_zero`), and 64 consecutive XML sizes produce
    every pad 0 … 63 (`residues_cover`).
-/
import SarpyModel.Spec.CheckerRules
import SarpyModel.Props.C18
import Mathlib.Data.List.Nodup
import Mathlib.Tactic.Ring

namespace Sarpy.Props.C18Rules
open Sarpy.Spec Sarpy.Spec.Checker Sarpy.Spec.CphdLayout Sarpy.Spec.CheckerRules

/-! ## header rules: the integer rules are the layout predicates of Props/C18 -/

/-- the header fields of a file as the integers the checker computes with -/
def suppOff (f : CphdFile) : Int := match f.b.supp with | some (so, _) => so | none => 0
def suppSize (f : CphdFile) : Int := match f.b.supp with | some (_, s) => s | none => 0

theorem padAfterXml_iff (f : CphdFile) :
    padAfterXml f.b.xmlOff f.b.xmlSize f.b.supp.isSome (suppOff f) f.b.pvpOff = true ↔ nextAfterXml f := by
  unfold padAfterXml nextAfterXml suppOff
  cases h : f.b.supp with
  | none => simp; omega
  | some p => obtain ⟨so, s⟩ := p; simp; omega

theorem padAfterSupport_iff (f : CphdFile) (so s : Nat) (h : f.b.supp = some (so, s)) :
    padAfterSupport (suppOff f) (suppSize f) f.b.pvpOff = true ↔ pvpAfterSupport f := by
  unfold padAfterSupport pvpAfterSupport suppOff suppSize
  simp [h]; omega

theorem padAfterPvp_iff (f : CphdFile) : padAfterPvp f.b.pvpOff f.b.pvpSize f.b.sigOff = true ↔ signalAfterPvp f := by
  unfold padAfterPvp signalAfterPvp; simp; omega

theorem signalAtEof_iff (f : CphdFile) : CheckerRules.signalAtEof f.fileLen f.b.sigOff f.b.sigSize = true ↔ Checker.signalAtEof f := by
  unfold CheckerRules.signalAtEof Checker.signalAtEof; simp; omega

theorem writer_satisfies_padAfterXml (hdrLen xo xs : Nat) (ss : Option Nat) (ps gs : Nat) :
    let f := writerFile hdrLen (layout xo xs ss ps gs)
    padAfterXml f.b.xmlOff f.b.xmlSize f.b.supp.isSome (suppOff f) f.b.pvpOff = true :=
  (padAfterXml_iff _).2 (C18.writer_layout_satisfies_nextAfterXml hdrLen xo xs ss ps gs)

theorem writer_satisfies_padAfterSupport (hdrLen xo xs s ps gs : Nat) :
    let f := writerFile hdrLen (layout xo xs (some s) ps gs)
    padAfterSupport (suppOff f) (suppSize f) f.b.pvpOff = true :=
  (padAfterSupport_iff _ _ s rfl).2 (C18.writer_layout_satisfies_pvpAfterSupport hdrLen xo xs (some s) ps gs)

theorem writer_satisfies_padAfterPvp (hdrLen xo xs : Nat) (ss : Option Nat) (ps gs : Nat) :
    let f := writerFile hdrLen (layout xo xs ss ps gs)
    padAfterPvp f.b.pvpOff f.b.pvpSize f.b.sigOff = true :=
  (padAfterPvp_iff _).2 (C18.writer_layout_satisfies_signalAfterPvp hdrLen xo xs ss ps gs)

theorem writer_satisfies_signalAtEof (hdrLen : Nat) (b : Blocks) :
    let f := writerFile hdrLen b
    CheckerRules.signalAtEof f.fileLen f.b.sigOff f.b.sigSize = true :=
  (signalAtEof_iff _).2 (C18.writer_layout_satisfies_signalAtEof hdrLen b)

/-- **pad 0 is valid**: a next block that starts immediately after the two-byte section terminator satisfies the rule -/
theorem padAfterXml_pad_zero (xo xs : Int) (hs : Bool) : padAfterXml xo xs hs (xo + xs + 2) (xo + xs + 2) = true := by
  cases hs <;> simp [padAfterXml]

/-- … and the rule is sharp: one byte earlier violates it -/
theorem mutation_nextoff_falsifies_padAfterXml (xo xs : Int) (hs : Bool) (n : Int) (hn : n < xo + xs + 2) :
    padAfterXml xo xs hs n n = false := by
  cases hs <;> simp [padAfterXml] <;> omega

/-- the writer does produce pad-0 files: when XML offset + size + 2 is a multiple of 64 the next block starts right there -/
theorem writer_pad_zero (xo xs : Nat) (ss : Option Nat) (ps gs : Nat) (h : (xo + xs + 2) % 64 = 0) :
    (match (layout xo xs ss ps gs).supp with | some (so, _) => so | none => (layout xo xs ss ps gs).pvpOff) = xo + xs + 2 := by
  cases ss with
  | none => simp [layout, C09.align_fix _ h]
  | some s => simp [layout, C09.align_fix _ h]

/-- 64 consecutive XML sizes produce every residue, hence every pad 0 … 63 after the XML block (the search sweeps them) -/
theorem residues_cover (xo base r : Nat) (hr : r < 64) : ∃ k, k < 64 ∧ (xo + (base + k) + 2) % 64 = r :=
  ⟨(r + 64 - (xo + base + 2) % 64) % 64, by omega, by omega⟩

theorem mutation_pvpoff_falsifies_padAfterSupport (so ss po : Int) (h : po < so + ss) : padAfterSupport so ss po = false := by
  simp [padAfterSupport]; omega

theorem padAfterSupport_pad_zero (so ss : Int) : padAfterSupport so ss (so + ss) = true := by simp [padAfterSupport]

theorem mutation_sigoff_falsifies_padAfterPvp (po ps go : Int) (h : go < po + ps) : padAfterPvp po ps go = false := by
  simp [padAfterPvp]; omega

theorem padAfterPvp_pad_zero (po ps : Int) : padAfterPvp po ps (po + ps) = true := by simp [padAfterPvp]

theorem mutation_filelen_falsifies_signalAtEof (fl go gs : Int) (h : fl ≠ go + gs) : CheckerRules.signalAtEof fl go gs = false := by
  simp [CheckerRules.signalAtEof, h]

/-- the retry rule of `make_file_header` keeps the XML block early: with a header text shorter than 2^28 - 98 bytes the XML
    offset it settles on is below 2^28 (the want "XML appears early in the file") -/
theorem writer_satisfies_xmlEarly (hdrLen : Blocks → Nat) (xs : Nat) (ss : Option Nat) (ps gs fuel xo : Nat) (b : Blocks)
    (hb : ∀ b, hdrLen b + 98 ≤ 2 ^ 28) (h0 : xo < 2 ^ 28) (h : choose hdrLen xs ss ps gs fuel xo = some b) :
    xmlEarly b.xmlOff = true := by
  induction fuel generalizing xo with
  | zero => simp [choose] at h
  | succ fuel ih =>
    simp only [choose] at h
    split at h
    · refine ih _ ?_ h
      have := C09.align_lt (hdrLen (layout xo xs ss ps gs) + 2 + 32)
      have := hb (layout xo xs ss ps gs)
      omega
    · simp only [Option.some.injEq] at h
      subst h
      have hx : (layout xo xs ss ps gs).xmlOff = xo := by cases ss <;> rfl
      simp only [xmlEarly, hx, decide_eq_true_eq]
      omega

theorem mutation_xmloff_falsifies_xmlEarly (xo : Int) (h : 2 ^ 28 ≤ xo) : xmlEarly xo = false := by
  simp [xmlEarly]; omega

/-! ## per-channel arrays: packed offsets fit the block and do not overlap -/

theorem packFrom_packed (start : Nat) (sizes : List Nat) : Packed start (packFrom start sizes) := by
  induction sizes generalizing start with
  | nil => trivial
  | cons s r ih => exact ⟨rfl, ih _⟩

theorem packFrom_bounds (start : Nat) (sizes : List Nat) :
    ∀ p ∈ packFrom start sizes, start ≤ p.1 ∧ p.1 + p.2 ≤ start + sizes.sum := by
  induction sizes generalizing start with
  | nil => intro p hp; simp [packFrom] at hp
  | cons s r ih =>
    intro p hp
    simp only [packFrom, List.mem_cons] at hp
    rcases hp with rfl | hp
    · simp
    · have := ih (start + s) p hp
      simp only [List.sum_cons]
      omega

/-- packed arrays are pairwise disjoint: each one starts where the previous one ends, at or after every earlier end -/
theorem packFrom_disjoint (start : Nat) (sizes : List Nat) :
    (packFrom start sizes).Pairwise (fun a b => a.1 + a.2 ≤ b.1) := by
  induction sizes generalizing start with
  | nil => exact List.Pairwise.nil
  | cons s r ih =>
    simp only [packFrom, List.pairwise_cons]
    exact ⟨fun b hb => (packFrom_bounds (start + s) r b hb).1, ih _⟩

theorem packFrom_length (start : Nat) (sizes : List Nat) : (packFrom start sizes).length = sizes.length := by
  induction sizes generalizing start with
  | nil => rfl
  | cons s r ih => simp [packFrom, ih]

theorem packFrom_snd (start : Nat) (sizes : List Nat) : (packFrom start sizes).map (·.2) = sizes := by
  induction sizes generalizing start with
  | nil => rfl
  | cons s r ih => simp [packFrom, ih]

theorem writerChannels_bounds (itemSize start : Nat) (chans : List (Nat × Nat)) :
    ∀ c ∈ ((packFrom start (signalSizes itemSize chans)).zip chans).map (fun p => (p.1.1, p.2.1, p.2.2)),
      start ≤ c.1 ∧ c.1 + c.2.1 * c.2.2 * itemSize ≤ start + (signalSizes itemSize chans).sum := by
  induction chans generalizing start with
  | nil => intro c hc; simp [signalSizes, packFrom] at hc
  | cons a r ih =>
    intro c hc
    simp only [signalSizes, List.map_cons, packFrom, List.zip_cons_cons, List.mem_cons, List.sum_cons] at hc ⊢
    rcases hc with rfl | hc
    · simp
    · have := ih (start + a.1 * a.2 * itemSize) c hc
      simp only [signalSizes] at this
      omega

/-- **every channel fits**: with the running-sum offsets the generators write and SIGNAL_BLOCK_SIZE = the sum of the
    channel sizes (`calculate_signal_block_size`), the rule holds for every channel, any number of channels, any sizes -/
theorem writer_satisfies_allSignalFit (itemSize : Nat) (chans : List (Nat × Nat)) :
    allSignalFit itemSize (signalBlockSize itemSize chans) (writerChannels itemSize chans) = true := by
  unfold allSignalFit writerChannels signalBlockSize
  rw [List.all_eq_true]
  intro c hc
  have h := (writerChannels_bounds itemSize 0 chans c hc).2
  have h' : ((c.1 + c.2.1 * c.2.2 * itemSize : Nat) : Int) ≤ ((0 + (signalSizes itemSize chans).sum : Nat) : Int) :=
    Int.ofNat_le.2 h
  push_cast at h'
  simp only [CheckerRules.signalFits, decide_eq_true_eq]
  simpa using h'

/-- the same holds for every packed table — PVP arrays (sizes `NumVectors * NumBytesPVP`, block size `calculate_pvp_block_size`)
    and support arrays (`NumRows * NumCols * BytesPerElement`): each array lies inside the block whose size is the sum.
    (The CPHD checker has no rule for these two blocks; this is the writer side only.) -/
theorem writer_packed_arrays_fit (sizes : List Nat) :
    ∀ p ∈ packFrom 0 sizes, p.1 + p.2 ≤ sizes.sum := by
  intro p hp
  have := (packFrom_bounds 0 sizes p hp).2
  omega

/-- PVP parameters laid out one after the other (offsets and sizes in 8-byte words, as the generators number them): every
    parameter lies inside a record of `NumBytesPVP = 8 * (sum of the sizes)` bytes and no two overlap -/
theorem writer_pvp_fields_tile (words : List Nat) :
    (∀ f ∈ packFrom 0 words, 8 * (f.1 + f.2) ≤ 8 * words.sum) ∧
    (packFrom 0 words).Pairwise (fun a b => 8 * (a.1 + a.2) ≤ 8 * b.1) := by
  constructor
  · intro f hf
    have := writer_packed_arrays_fit words f hf
    omega
  · exact (packFrom_disjoint 0 words).imp (fun h => by omega)

/-- the arrays the generators lay out never overlap -/
theorem writer_channels_disjoint (itemSize : Nat) (chans : List (Nat × Nat)) :
    (packFrom 0 (signalSizes itemSize chans)).Pairwise (fun a b => a.1 + a.2 ≤ b.1) :=
  packFrom_disjoint 0 _

/-- `cphd_numvectors_plus1` / `cphd_numsamples_plus1`: a channel whose array ends exactly at the end of the block (the last
    one of a packed table) no longer fits when one more vector (or any positive number of bytes) is declared -/
theorem mutation_numvectors_falsifies_signalFits (off nv ns item size : Int) (hend : off + nv * ns * item = size)
    (hpos : 0 < ns * item) : CheckerRules.signalFits off (nv + 1) ns item size = false := by
  simp only [CheckerRules.signalFits, decide_eq_false_iff_not]
  have e : (nv + 1) * ns * item = nv * ns * item + ns * item := by ring
  omega

theorem mutation_blocksize_falsifies_signalFits (off nv ns item size : Int) (h : size < off + nv * ns * item) :
    CheckerRules.signalFits off nv ns item size = false := by
  simp only [CheckerRules.signalFits, decide_eq_false_iff_not]; omega

/-! ## counts, flags, boxes, codes -/

/-- the XML writer emits a count element next to the list it counts -/
theorem writer_satisfies_countMatches {α : Type} (l : List α) : countMatches l.length l.length = true := by
  simp [countMatches]

theorem countMatches_iff (d p : Int) : countMatches d p = true ↔ d = p := by simp [countMatches]

theorem mutation_count_falsifies_countMatches (d p : Int) (h : d ≠ p) : countMatches d p = false := by
  simp [countMatches, h]

theorem writer_satisfies_fourCorners {α : Type} (a b c d : α) : fourCorners ([a, b, c, d].length) = true := rfl

theorem mutation_corner_falsifies_fourCorners (n : Int) (h : n ≠ 4) : fourCorners n = false := by
  simp [fourCorners, h]

/-- FXN1 / FXN2: included together, and only in the FX domain -/
theorem optionalFx_iff (f a b : Bool) : optionalFx f a b = true ↔ (a = b ∧ (a = true → f = true)) := by
  cases f <;> cases a <;> cases b <;> simp [optionalFx]

theorem mutation_one_missing_falsifies_optionalFx (f : Bool) :
    optionalFx f true false = false ∧ optionalFx f false true = false := by cases f <;> exact ⟨rfl, rfl⟩

theorem mutation_domain_falsifies_optionalFx : optionalFx false true true = false := rfl

theorem together_iff (a b : Bool) : together a b = true ↔ a = b := by cases a <;> cases b <;> simp [together]

theorem mutation_one_missing_falsifies_together (a : Bool) : together a (!a) = false := by cases a <;> rfl

theorem together3_iff (a b c : Bool) : together3 a b c = true ↔ (a = b ∧ b = c) := by
  cases a <;> cases b <;> cases c <;> simp [together3]

theorem boxOrdered_iff (x1 y1 x2 y2 : Int) : boxOrdered x1 y1 x2 y2 = true ↔ (x1 < x2 ∧ y1 < y2) := by
  simp [boxOrdered]

/-- the generators' image area: corners (-h, -h), (h, h) with h > 0 -/
theorem writer_satisfies_boxOrdered (h : Int) (hp : 0 < h) : boxOrdered (-h) (-h) h h = true := by
  simp [boxOrdered]; omega

theorem mutation_swap_falsifies_boxOrdered (x1 y1 x2 y2 : Int) (h : boxOrdered x1 y1 x2 y2 = true) :
    boxOrdered x2 y1 x1 y2 = false ∧ boxOrdered x1 y2 x2 y1 = false := by
  simp only [boxOrdered_iff] at h
  constructor <;> simp [boxOrdered] <;> omega

theorem mutation_degenerate_falsifies_boxOrdered (x y1 y2 : Int) : boxOrdered x y1 x y2 = false := by simp [boxOrdered]

/-- the writer renders the XML namespace and the file type header from the same version -/
theorem writer_satisfies_sameCode (v : Int) : sameCode v v = true := by simp [sameCode]

/-- equality of the codes is equality of the identifiers, for any injective coding of the strings -/
theorem sameCode_iff {α : Type} (code : α → Int) (inj : Function.Injective code) (a b : α) :
    sameCode (code a) (code b) = true ↔ a = b := by
  simp [sameCode]; exact ⟨fun h => inj h, fun h => h ▸ rfl⟩

theorem mutation_version_falsifies_sameCode (a b : Int) (h : a ≠ b) : sameCode a b = false := by simp [sameCode, h]

theorem writer_satisfies_matchesPresent {α : Type} [DecidableEq α] (a : α) : matchesPresent a (some a) = true := by
  simp [matchesPresent]

theorem mutation_value_falsifies_matchesPresent {α : Type} [DecidableEq α] (a b : α) (h : a ≠ b) :
    matchesPresent a (some b) = false ∧ matchesPresent a (none : Option α) = false := by
  simp [matchesPresent, Ne.symm h]

/-! ## identifier lists -/

theorem repeated_eq_nil_iff {α : Type} [DecidableEq α] (ids : List α) : repeated ids = [] ↔ ids.Nodup := by
  unfold repeated
  rw [List.filter_eq_nil_iff, List.nodup_iff_count]
  constructor
  · intro h a
    by_cases ha : a ∈ ids
    · have := h a (List.mem_eraseDups.2 ha)
      simp only [decide_eq_true_eq] at this
      omega
    · have : List.count a ids = 0 := List.count_eq_zero.2 ha
      omega
  · intro h a _
    have := h a
    simp only [decide_eq_true_eq]
    omega

/-- "Identifiers … are unique" means what it says -/
theorem unique_iff_nodup {α : Type} [DecidableEq α] (ids : List α) : unique ids = true ↔ ids.Nodup := by
  unfold unique
  rw [List.isEmpty_iff]
  exact repeated_eq_nil_iff ids

/-- what is reported is exactly the set of values occurring more than once -/
theorem mem_repeated {α : Type} [DecidableEq α] (ids : List α) (x : α) : x ∈ repeated ids ↔ 1 < ids.count x := by
  unfold repeated
  simp only [List.mem_filter, List.mem_eraseDups, decide_eq_true_eq]
  constructor
  · exact fun h => h.2
  · intro h
    exact ⟨List.count_pos_iff.1 (by omega), h⟩

/-- identifiers made by an injective naming of 0 … n-1 (`ch0, ch1, …`, `iaz0, …`) are unique, for every n -/
theorem writer_satisfies_unique {α : Type} [DecidableEq α] (name : Nat → α) (inj : Function.Injective name) (n : Nat) :
    unique ((List.range n).map name) = true :=
  (unique_iff_nodup _).2 (List.Nodup.map inj List.nodup_range)

/-- an identifier used twice, anywhere in the list, falsifies the rule -/
theorem mutation_duplicate_falsifies_unique {α : Type} [DecidableEq α] (a b c : List α) (x : α) :
    unique (a ++ x :: b ++ x :: c) = false := by
  cases h : unique (a ++ x :: b ++ x :: c) with
  | false => rfl
  | true =>
    have hn := (unique_iff_nodup _).1 h
    rw [List.nodup_append] at hn
    exact absurd rfl (hn.2.2 x (by simp) x (by simp))

theorem refsExist_iff {α : Type} [DecidableEq α] (refs defs : List α) : refsExist refs defs = true ↔ ∀ r ∈ refs, r ∈ defs := by
  simp [refsExist]

/-- references drawn from the defined identifiers (a channel naming its own Dwell / COD / antenna / TxRcv entries) -/
theorem writer_satisfies_refsExist {α : Type} [DecidableEq α] (defs : List α) (pick : List Nat) (dflt : α)
    (h : ∀ i ∈ pick, i < defs.length) : refsExist (pick.map (fun i => defs.getD i dflt)) defs = true := by
  rw [refsExist_iff]
  intro r hr
  simp only [List.mem_map] at hr
  obtain ⟨i, hi, rfl⟩ := hr
  have := h i hi
  simp [List.getD_eq_getElem?_getD, List.getElem?_eq_getElem this]

theorem mutation_dangling_falsifies_refsExist {α : Type} [DecidableEq α] (a b defs : List α) (x : α) (hx : x ∉ defs) :
    refsExist (a ++ x :: b) defs = false := by
  cases h : refsExist (a ++ x :: b) defs with
  | false => rfl
  | true => exact absurd ((refsExist_iff _ _).1 h x (by simp)) hx

theorem requiredPresent_iff {α : Type} [DecidableEq α] (required keys : List α) :
    requiredPresent required keys = true ↔ ∀ r ∈ required, r ∈ keys := by
  simp [requiredPresent]

/-- the header the writer renders carries every required key (it renders a superset) -/
theorem writer_satisfies_requiredPresent {α : Type} [DecidableEq α] (required extra : List α) :
    requiredPresent required (required ++ extra) = true := by
  rw [requiredPresent_iff]; intro r hr; simp [hr]

/-- `cphd_header_key_removed`: removing a required key line falsifies the rule -/
theorem mutation_key_removed_falsifies_requiredPresent {α : Type} [DecidableEq α] (required keys : List α) (k : α)
    (hk : k ∈ required) : requiredPresent required (keys.filter (· ≠ k)) = false := by
  cases h : requiredPresent required (keys.filter (· ≠ k)) with
  | false => rfl
  | true =>
    have := (requiredPresent_iff _ _).1 h k hk
    simp at this

/-! ## polygons and polynomials -/

theorem writer_satisfies_indicesPresent (n : Nat) : indicesPresent (List.range' 1 n) = true := by
  unfold indicesPresent
  have hs : (List.range' 1 n).mergeSort (fun a b => decide (a ≤ b)) = List.range' 1 n := by
    apply List.mergeSort_of_pairwise
    have := @List.pairwise_lt_range' 1 n 1 (by omega)
    exact this.imp (fun h => by simp; omega)
  simp [hs]

/-- "Polygon indices are all present": the indices are a rearrangement of 1 … n -/
theorem indicesPresent_iff_perm (idx : List Nat) : indicesPresent idx = true ↔ idx.Perm (List.range' 1 idx.length) := by
  unfold indicesPresent
  constructor
  · intro h
    have h' : idx.mergeSort (fun a b => decide (a ≤ b)) = List.range' 1 idx.length := by simpa using h
    rw [← h']
    exact (List.mergeSort_perm idx _).symm
  · intro h
    have hp : (idx.mergeSort (fun a b => decide (a ≤ b))).Perm (List.range' 1 idx.length) := (List.mergeSort_perm idx _).trans h
    have hs1 : (idx.mergeSort (fun a b => decide (a ≤ b))).Pairwise (fun a b => a ≤ b) := by
      have := List.pairwise_mergeSort (le := fun a b : Nat => decide (a ≤ b))
        (by intro a b c; simp; omega) (by intro a b; simp; omega) idx
      exact this.imp (fun h => by simpa using h)
    have hs2 : (List.range' 1 idx.length).Pairwise (fun a b => a ≤ b) :=
      (@List.pairwise_lt_range' 1 idx.length 1 (by omega)).imp (fun h => Nat.le_of_lt h)
    have := List.Perm.eq_of_pairwise (le := fun a b : Nat => a ≤ b) (fun a b _ _ h1 h2 => Nat.le_antisymm h1 h2) hs1 hs2 hp
    simp [this]

/-- a vertex index used twice (so that another one is missing) falsifies the rule -/
theorem mutation_duplicate_index_falsifies_indicesPresent (a b c : List Nat) (x : Nat) :
    indicesPresent (a ++ x :: b ++ x :: c) = false := by
  cases h : indicesPresent (a ++ x :: b ++ x :: c) with
  | false => rfl
  | true =>
    have hp := (indicesPresent_iff_perm _).1 h
    have hn : (a ++ x :: b ++ x :: c).Nodup := hp.symm.nodup (List.nodup_range' (step := 1) (by omega))
    have := (unique_iff_nodup _).2 hn
    rw [mutation_duplicate_falsifies_unique] at this
    exact Bool.noConfusion this

theorem polyOk_iff (orders : List Nat) (coefs : List (List Nat)) :
    polyOk orders coefs = true ↔ (∀ c ∈ coefs, ∀ p ∈ c.zip orders, p.1 ≤ p.2) ∧ coefs.Nodup := by
  unfold polyOk
  rw [Bool.and_eq_true, unique_iff_nodup]
  simp [List.all_eq_true]

/-- a one-variable polynomial of order `o` as the XML writer renders it: exponents 0 … o, each once -/
theorem writer_satisfies_polyOk_1d (o : Nat) : polyOk [o] ((List.range (o + 1)).map (fun i => [i])) = true := by
  rw [polyOk_iff]
  constructor
  · intro c hc p hp
    simp only [List.mem_map, List.mem_range] at hc
    obtain ⟨i, hi, rfl⟩ := hc
    simp at hp
    subst hp
    simp; omega
  · exact List.Nodup.map (fun a b h => by simpa using h) List.nodup_range

/-- a two-variable polynomial of orders `(o1, o2)`: the full grid of exponent pairs, each once -/
theorem writer_satisfies_polyOk_2d (o1 o2 : Nat) :
    polyOk [o1, o2] ((List.range (o1 + 1)).flatMap (fun i => (List.range (o2 + 1)).map (fun j => [i, j]))) = true := by
  rw [polyOk_iff]
  constructor
  · intro c hc p hp
    simp only [List.mem_flatMap, List.mem_map, List.mem_range] at hc
    obtain ⟨i, hi, j, hj, rfl⟩ := hc
    simp at hp
    rcases hp with rfl | rfl <;> simp <;> omega
  · rw [List.nodup_flatMap]
    constructor
    · intro i _
      exact List.Nodup.map (fun a b h => by simpa using h) List.nodup_range
    · apply List.Pairwise.imp _ (List.nodup_range (n := o1 + 1))
      intro a b hab
      simp only [Function.onFun, List.disjoint_left, List.mem_map, List.mem_range]
      rintro _ ⟨j, _, rfl⟩ ⟨j', _, h⟩
      simp at h
      exact hab h.1.symm

theorem mutation_exponent_falsifies_polyOk (orders : List Nat) (a b : List (List Nat)) (c : List Nat) (e o : Nat)
    (hp : (e, o) ∈ c.zip orders) (h : o < e) : polyOk orders (a ++ c :: b) = false := by
  cases hk : polyOk orders (a ++ c :: b) with
  | false => rfl
  | true =>
    have := ((polyOk_iff _ _).1 hk).1 c (by simp) (e, o) hp
    simp at this; omega

theorem mutation_duplicate_coef_falsifies_polyOk (orders : List Nat) (a b d : List (List Nat)) (c : List Nat) :
    polyOk orders (a ++ c :: b ++ c :: d) = false := by
  cases hk : polyOk orders (a ++ c :: b ++ c :: d) with
  | false => rfl
  | true =>
    have := (unique_iff_nodup _).2 ((polyOk_iff _ _).1 hk).2
    rw [mutation_duplicate_falsifies_unique] at this
    exact Bool.noConfusion this

/-! ## SICD / SIDD image segments -/

theorem writer_satisfies_sicdSegOk (pt : SicdPixel) (rows cols : Nat) : sicdSegOk pt (sicdWriterSeg pt rows cols) = true := by
  cases pt <;> simp [sicdSegOk, sicdWriterSeg, sicdExpect, sicdBands]

/-- **every SICD the writer lays out passes `check_image_data`**: any pixel type, any number of segments of any sizes -/
theorem writer_satisfies_sicdImagesOk (pt : SicdPixel) (cols : Nat) (ranges : List (Nat × Nat)) :
    sicdImagesOk pt (sicdWriterSegs pt cols ranges) = true := by
  unfold sicdImagesOk sicdWriterSegs
  rw [List.all_map, List.all_eq_true]
  intro r _
  exact writer_satisfies_sicdSegOk pt _ _

/-- `sicd_pixel_type_vs_image`: the XML pixel type replaced by any other one — the three types differ in NBPP -/
theorem mutation_pixeltype_falsifies_sicdSegOk (pt pt' : SicdPixel) (h : pt ≠ pt') (rows cols : Nat) :
    sicdSegOk pt' (sicdWriterSeg pt rows cols) = false := by
  cases pt <;> cases pt' <;> first | exact absurd rfl h | simp [sicdSegOk, sicdWriterSeg, sicdExpect, sicdBands]

/-- `sicd_nbpp_vs_pixel_type`: NBPP of a subheader altered -/
theorem mutation_nbpp_falsifies_sicdSegOk (pt : SicdPixel) (s : ImgSeg) (h : s.nbpp ≠ (sicdExpect pt).1) : sicdSegOk pt s = false := by
  simp [sicdSegOk, h]

/-- `sicd_icat`: ICAT of a subheader altered -/
theorem mutation_icat_falsifies_sicdSegOk (pt : SicdPixel) (s : ImgSeg) (h : s.icat ≠ "SAR") : sicdSegOk pt s = false := by
  simp [sicdSegOk, h]

theorem mutation_pvtype_falsifies_sicdSegOk (pt : SicdPixel) (s : ImgSeg) (h : s.pvtype ≠ (sicdExpect pt).2) : sicdSegOk pt s = false := by
  simp [sicdSegOk, h]

/-- the band test as written (`b0 != X and b1 != Y`) accepts a segment with ONE wrong band code: the rule the message
    documents ("expected (I, Q)") is weaker in the code.  Negation witness of the documented rule; see NOTES_C18X -/
theorem sicd_band_rule_accepts_one_wrong_code (pt : SicdPixel) (rows cols : Nat) (wrong : String) :
    sicdSegOk pt { sicdWriterSeg pt rows cols with subcats := [(sicdBands pt).1, wrong] } = true := by
  cases pt <;> simp [sicdSegOk, sicdWriterSeg, sicdExpect, sicdBands]

/-- both codes wrong is flagged -/
theorem mutation_both_bands_falsify_sicdSegOk (pt : SicdPixel) (rows cols : Nat) (w0 w1 : String)
    (h0 : w0 ≠ (sicdBands pt).1) (h1 : w1 ≠ (sicdBands pt).2) :
    sicdSegOk pt { sicdWriterSeg pt rows cols with subcats := [w0, w1] } = false := by
  simp [sicdSegOk, sicdWriterSeg, h0, h1]

/-- **sizes agree**: the rows the reader reassembles from the ILOC chain of the written subheaders, and the column count of
    every segment, are `NumRows` × `NumCols`, for every image height, width and row limit (C03 `segmentation_roundtrip`) -/
theorem writer_satisfies_sizeRule (rows cols limit : Nat) (hl : 0 < limit) :
    sizeRule rows cols (Layout.headersOf (Layout.segmentation rows limit))
      ((sicdWriterSegs .re32f cols (Layout.segmentation rows limit)).map (·.cols)) = true := by
  unfold sizeRule
  rw [C03.segmentation_roundtrip rows limit hl, (C03.segmentation_tiles rows limit hl).2.2]
  simp [sicdWriterSegs, sicdWriterSeg]

/-- `sicd_numrows_vs_pixels`: NumRows of the XML altered -/
theorem mutation_numrows_falsifies_sizeRule (rows cols limit n : Nat) (hl : 0 < limit) (hn : n ≠ rows) (cs : List Nat) :
    sizeRule n cols (Layout.headersOf (Layout.segmentation rows limit)) cs = false := by
  unfold sizeRule
  rw [C03.segmentation_roundtrip rows limit hl, (C03.segmentation_tiles rows limit hl).2.2]
  simp [Ne.symm hn]

theorem writer_satisfies_siddSegOk (pt : SiddPixel) (rows cols : Nat) : siddSegOk pt (siddWriterSeg pt rows cols) = true := by
  cases pt <;> simp [siddSegOk, siddWriterSeg, siddExpect]

/-- `sidd_pixel_type_vs_nbpp`: Display.PixelType replaced by one with another NBPP (MONO16I <-> any 8-bit type) -/
theorem mutation_pixeltype_falsifies_siddSegOk (pt pt' : SiddPixel) (h : (siddExpect pt).1 ≠ (siddExpect pt').1) (rows cols : Nat) :
    siddSegOk pt' (siddWriterSeg pt rows cols) = false := by
  cases pt <;> cases pt' <;> first | exact absurd rfl h | simp [siddSegOk, siddWriterSeg, siddExpect]

/-! ## the DES scan: additional DES segments in front of the product DES do not hide it -/

theorem sicdScanFrom_skip (i : Nat) (extras rest : List DesKind) (h : ∀ e ∈ extras, e = .otherXml ∨ e = .other) :
    sicdScanFrom i (extras ++ rest) = sicdScanFrom (i + extras.length) rest := by
  induction extras generalizing i with
  | nil => simp
  | cons e r ih =>
    have hr : ∀ e ∈ r, e = .otherXml ∨ e = .other := fun x hx => h x (List.mem_cons_of_mem _ hx)
    rcases h e (List.mem_cons_self) with rfl | rfl <;>
      simp only [List.cons_append, sicdScanFrom, ih _ hr, List.length_cons] <;> congr 1 <;> omega

/-- **the SICD DES is found behind any number of additional DES segments** (`SICDWritingDetails(additional_des=…)` puts them in
    front): user-defined and foreign-XML segments are skipped, the scan goes on to the end of the list -/
theorem writer_satisfies_sicdScan (extras : List DesKind) (h : ∀ e ∈ extras, e = .otherXml ∨ e = .other) :
    sicdScan (extras ++ [.sicdXml]) = some extras.length := by
  unfold sicdScan
  rw [sicdScanFrom_skip 0 extras _ h]
  simp [sicdScanFrom]

/-- no SICD DES at all: the checker refuses the file -/
theorem mutation_no_sicd_des_falsifies_sicdScan (des : List DesKind) (h : ∀ e ∈ des, e = .otherXml ∨ e = .other) :
    sicdScan des = none := by
  unfold sicdScan
  have := sicdScanFrom_skip 0 des [] h
  rw [List.append_nil] at this
  rw [this]
  simp [sicdScanFrom]

/-- a second SICD DES: refused ("Multiple SICD DES values found") -/
theorem mutation_second_sicd_des_falsifies_sicdScan (a b : List DesKind) (h : ∀ e ∈ a ++ b, e = .otherXml ∨ e = .other) :
    sicdScan (a ++ .sicdXml :: (b ++ [.sicdXml])) = none := by
  have ha : ∀ e ∈ a, e = .otherXml ∨ e = .other := fun e he => h e (List.mem_append_left _ he)
  have hb : ∀ e ∈ b, e = .otherXml ∨ e = .other := fun e he => h e (List.mem_append_right _ he)
  unfold sicdScan
  rw [sicdScanFrom_skip 0 a _ ha]
  simp only [sicdScanFrom]
  rw [sicdScanFrom_skip _ b _ hb]
  simp [sicdScanFrom]

/-- a SIDD DES in front of the SICD DES: refused ("should be a SIDD file") -/
theorem mutation_sidd_des_falsifies_sicdScan (extras rest : List DesKind) (h : ∀ e ∈ extras, e = .otherXml ∨ e = .other) :
    sicdScan (extras ++ .siddXml :: rest) = none := by
  unfold sicdScan
  rw [sicdScanFrom_skip 0 extras _ h]
  simp [sicdScanFrom]

/-- a SIDD file is recognised behind any additional DES segments, with any number of SIDD and SICD DES -/
theorem writer_satisfies_siddFound (extras : List DesKind) (n m : Nat) :
    siddFound (extras ++ List.replicate (n + 1) .siddXml ++ List.replicate m .sicdXml) = true := by
  simp [siddFound, List.replicate_succ]

/-! ## histories of `check()` calls on one checker object -/

section History
variable {α σ : Type} [DecidableEq α]

theorem lookup_storeSet_self {ρ : Type} (st : List (α × ρ)) (k : α) (v : ρ) : (storeSet st k v).lookup k = some v := by
  induction st with
  | nil => simp [storeSet, List.lookup]
  | cons p r ih =>
    obtain ⟨k', v'⟩ := p
    by_cases h : k' = k
    · subst h; simp [storeSet, List.lookup]
    · have h' : (k == k') = false := by simp [Ne.symm h]
      simp [storeSet, h, List.lookup, h', ih]

theorem lookup_storeSet_other {ρ : Type} (st : List (α × ρ)) (k k' : α) (v : ρ) (h : k' ≠ k) :
    (storeSet st k v).lookup k' = st.lookup k' := by
  induction st with
  | nil => have : (k' == k) = false := by simp [h]
           simp [storeSet, List.lookup, this]
  | cons p r ih =>
    obtain ⟨k0, v0⟩ := p
    by_cases h0 : k0 = k
    · subst h0
      have : (k' == k0) = false := by simp [h]
      simp [storeSet, List.lookup, this]
    · simp only [storeSet, h0, if_false, List.lookup]
      cases k' == k0 <;> simp [ih]

/-- what a fresh run of the method `n` records on the object state `s` -/
def freshResult (t : List (α × (σ → List Op))) (s : σ) (n : α) : Option Result :=
  (t.lookup n).map (fun ops => runCheck (ops s))

theorem lookup_runNamed (t : List (α × (σ → List Op))) (s : σ) (store : List (α × Result)) (name n : α)
    (hdef : (t.lookup name).isSome) :
    (runNamed t s store name).lookup n = if n = name then freshResult t s name else store.lookup n := by
  unfold runNamed freshResult
  cases ht : t.lookup name with
  | none => simp [ht] at hdef
  | some ops =>
    by_cases h : n = name
    · subst h; simp [lookup_storeSet_self]
    · simp [h, lookup_storeSet_other _ _ _ _ h]

/-- after a `check()` call the entry of every selected check is what a fresh run on the current state records; every other
    entry is what it was -/
theorem lookup_checkCall (t : List (α × (σ → List Op))) (s : σ) (store : List (α × Result)) (torun : List α) (n : α)
    (hdef : ∀ m ∈ torun, (t.lookup m).isSome) :
    (checkCall t s store torun).lookup n = if n ∈ torun then freshResult t s n else store.lookup n := by
  induction torun generalizing store with
  | nil => simp [checkCall]
  | cons a r ih =>
    have hr : ∀ m ∈ r, (t.lookup m).isSome := fun m hm => hdef m (List.mem_cons_of_mem _ hm)
    have ha := hdef a List.mem_cons_self
    show (checkCall t s (runNamed t s store a) r).lookup n = _
    rw [ih _ hr, lookup_runNamed t s store a n ha]
    by_cases h1 : n ∈ r
    · simp [h1]
    · by_cases h2 : n = a
      · subst h2; simp [h1]
      · simp [h1, h2]

/-- **the result of a selected check does not depend on what earlier calls left in the store** -/
theorem check_independent_of_history (t : List (α × (σ → List Op))) (s : σ) (st st' : List (α × Result)) (torun : List α)
    (n : α) (hdef : ∀ m ∈ torun, (t.lookup m).isSome) (hn : n ∈ torun) :
    (checkCall t s st torun).lookup n = (checkCall t s st' torun).lookup n := by
  rw [lookup_checkCall _ _ _ _ _ hdef, lookup_checkCall _ _ _ _ _ hdef]; simp [hn]

/-- … and the entry of a check the call does not select is the stale one (the store is never cleared) -/
theorem stale_entry_survives (t : List (α × (σ → List Op))) (s : σ) (st : List (α × Result)) (torun : List α) (n : α)
    (hdef : ∀ m ∈ torun, (t.lookup m).isSome) (hn : n ∉ torun) :
    (checkCall t s st torun).lookup n = st.lookup n := by
  rw [lookup_checkCall _ _ _ _ _ hdef]; simp [hn]

theorem runHistory_append (t : List (α × (σ → List Op))) (st : σ × List (α × Result)) (a b : List (Event α σ)) :
    runHistory t st (a ++ b) = runHistory t (runHistory t st a) b := by
  simp [runHistory, List.foldl_append]

/-- **histories**: whatever happened to the checker object before — any number of `check()` calls with any selections, interleaved
    with any changes of the checked object — the n-th call records, for every check it selects, exactly what a new checker
    records on the object as it is now -/
theorem history_then_check_eq_fresh (t : List (α × (σ → List Op))) (s0 : σ) (h : List (Event α σ)) (torun : List α) (n : α)
    (hdef : ∀ m ∈ torun, (t.lookup m).isSome) (hn : n ∈ torun) :
    (runHistory t (s0, []) (h ++ [.check torun])).2.lookup n =
      (checkCall t (runHistory t (s0, []) h).1 [] torun).lookup n := by
  rw [runHistory_append]
  exact check_independent_of_history t _ _ _ torun n hdef hn

/-- the results of the selected checks, in selection order -/
def selectedResults (store : List (α × Result)) (torun : List α) : List Result := torun.filterMap (fun n => store.lookup n)

/-- the verdict (Error level and Python flag) and the recorded failures of a call, over the checks it selects, depend only on
    the object state at that call and on the selection -/
theorem verdict_independent_of_history (t : List (α × (σ → List Op))) (s : σ) (st : List (α × Result)) (torun : List α)
    (hdef : ∀ m ∈ torun, (t.lookup m).isSome) :
    selectedResults (checkCall t s st torun) torun = selectedResults (checkCall t s [] torun) torun ∧
    passes (selectedResults (checkCall t s st torun) torun) = passes (selectedResults (checkCall t s [] torun) torun) ∧
    failures (selectedResults (checkCall t s st torun) torun) = failures (selectedResults (checkCall t s [] torun) torun) := by
  have e : selectedResults (checkCall t s st torun) torun = selectedResults (checkCall t s [] torun) torun := by
    unfold selectedResults
    apply List.filterMap_congr
    intro n hn
    exact check_independent_of_history t s st [] torun n hdef hn
  exact ⟨e, by rw [e], by rw [e]⟩

/-- every key of the store names a method of the class, after any history that starts with an empty store -/
theorem history_keys (t : List (α × (σ → List Op))) (st : σ × List (α × Result)) (h : List (Event α σ))
    (hinv : ∀ n, (st.2.lookup n).isSome → (t.lookup n).isSome)
    (hdef : ∀ e ∈ h, ∀ torun, e = .check torun → ∀ m ∈ torun, (t.lookup m).isSome) :
    ∀ n, ((runHistory t st h).2.lookup n).isSome → (t.lookup n).isSome := by
  induction h generalizing st with
  | nil => exact hinv
  | cons e r ih =>
    have hr : ∀ e' ∈ r, ∀ torun, e' = .check torun → ∀ m ∈ torun, (t.lookup m).isSome :=
      fun e' he' => hdef e' (List.mem_cons_of_mem _ he')
    show ∀ n, ((runHistory t (runEvent t st e) r).2.lookup n).isSome → _
    apply ih _ _ hr
    cases e with
    | change f => exact hinv
    | check torun =>
      intro n hn
      have hd := hdef (.check torun) List.mem_cons_self torun rfl
      simp only [runEvent] at hn
      rw [lookup_checkCall _ _ _ _ _ hd] at hn
      by_cases hm : n ∈ torun
      · exact hd n hm
      · simp only [hm, if_false] at hn; exact hinv n hn

/-- a full `check()` (every method selected) after ANY history leaves exactly the store of a new checker on the current state -/
theorem full_check_after_history_eq_fresh (t : List (α × (σ → List Op))) (s0 : σ) (h : List (Event α σ)) (torun : List α)
    (hdefh : ∀ e ∈ h, ∀ tr, e = .check tr → ∀ m ∈ tr, (t.lookup m).isSome)
    (hdef : ∀ m ∈ torun, (t.lookup m).isSome) (hall : ∀ n, (t.lookup n).isSome → n ∈ torun) (n : α) :
    (runHistory t (s0, []) (h ++ [.check torun])).2.lookup n =
      (checkCall t (runHistory t (s0, []) h).1 [] torun).lookup n := by
  rw [runHistory_append]
  show (checkCall t _ _ torun).lookup n = _
  rw [lookup_checkCall _ _ _ _ _ hdef, lookup_checkCall _ _ _ _ _ hdef]
  by_cases hn : n ∈ torun
  · simp [hn]
  · simp only [hn, if_false, List.lookup]
    cases hl : (runHistory t (s0, []) h).2.lookup n with
    | none => rfl
    | some v =>
      have := history_keys t (s0, []) h (by intro n hn; simp [List.lookup] at hn) hdefh n (by simp [hl])
      exact absurd (hall n this) hn

/-- everything the selection resolves to is a method of the class (so the hypotheses `hdef` above hold for real calls) -/
theorem resolve_defined {β : Type} (names : List α) (req : Option (List β)) (m : β → α → Bool) (ign : α → Bool) (l : List α)
    (h : resolve names req m ign = some l) : ∀ x ∈ l, x ∈ names := by
  unfold resolve at h
  cases req with
  | none =>
    simp only [Option.map_some, Option.some.injEq] at h
    subst h
    intro x hx; exact (List.mem_filter.1 hx).1
  | some rs =>
    simp only at h
    split at h
    · simp at h
    · simp only [Option.map_some, Option.some.injEq] at h
      subst h
      intro x hx
      have hx' := (List.mem_filter.1 hx).1
      simp only [List.mem_flatten, List.mem_map] at hx'
      obtain ⟨l', ⟨r, _, rfl⟩, hxl⟩ := hx'
      exact (List.mem_filter.1 hxl).1

end History

-- the seeded variant "skip a check that already has a stored result" returns the first verdict for ever: after the object
-- changed (`true` -> `false`) the second call still holds the result of the first, the code as it is re-runs the check
example :
    let t : List (Nat × (Bool → List Op)) := [(0, fun ok => [.need ok])]
    (checkCallSkipStored t false (checkCall t true [] [0]) [0]).lookup 0 = some (runCheck [.need true]) ∧
    (checkCall t false (checkCall t true [] [0]) [0]).lookup 0 = some (runCheck [.need false]) := by decide

/-! ## per-channel checks: /Data/Channel entries and /Channel/Parameters nodes are associated by Identifier -/

section Channels
variable {α β : Type} [DecidableEq α]

theorem lookupParam_eq_some_iff (params : List (α × β)) (hn : (params.map (·.1)).Nodup) (id : α) (b : β) :
    lookupParam params id = some b ↔ (id, b) ∈ params := by
  induction params with
  | nil => simp [lookupParam]
  | cons p r ih =>
    obtain ⟨k, v⟩ := p
    simp only [List.map_cons, List.nodup_cons] at hn
    by_cases hk : k = id
    · subst hk
      have : lookupParam ((k, v) :: r) k = some v := by simp [lookupParam, List.find?]
      rw [this]
      constructor
      · intro h; simp only [Option.some.injEq] at h; subst h; exact List.mem_cons_self
      · intro h
        rcases List.mem_cons.1 h with h | h
        · simp only [Prod.mk.injEq] at h; rw [h.2]
        · exact absurd (List.mem_map.2 ⟨(k, b), h, rfl⟩) hn.1
    · have hne : ((k, v).1 == id) = false := by simp [hk]
      have : lookupParam ((k, v) :: r) id = lookupParam r id := by simp [lookupParam, List.find?, hne]
      rw [this, ih hn.2]
      constructor
      · exact fun h => List.mem_cons_of_mem _ h
      · intro h
        rcases List.mem_cons.1 h with h | h
        · simp only [Prod.mk.injEq] at h; exact absurd h.1.symm hk
        · exact h

/-- **the order of the Parameters nodes does not matter** (identifiers unique — the rule `check_identifier_uniqueness`) -/
theorem lookupParam_perm (params params' : List (α × β)) (hp : params.Perm params') (hn : (params.map (·.1)).Nodup) (id : α) :
    lookupParam params id = lookupParam params' id := by
  have hn' : (params'.map (·.1)).Nodup := (hp.map _).nodup_iff.1 hn
  apply Option.ext
  intro b
  rw [lookupParam_eq_some_iff _ hn, lookupParam_eq_some_iff _ hn']
  exact hp.mem_iff

theorem perChannel_perm_params (verdict : α → β → Bool) (dataIds : List α) (params params' : List (α × β))
    (hp : params.Perm params') (hn : (params.map (·.1)).Nodup) :
    perChannel verdict dataIds params = perChannel verdict dataIds params' := by
  unfold perChannel
  apply List.map_congr_left
  intro id _
  rw [lookupParam_perm params params' hp hn id]

/-- **the order of the /Data/Channel entries does not matter**: the per-channel verdicts are the same ones, in the new order -/
theorem perChannel_perm_data (verdict : α → β → Bool) (dataIds dataIds' : List α) (params : List (α × β))
    (hd : dataIds.Perm dataIds') :
    (perChannel verdict dataIds params).Perm (perChannel verdict dataIds' params) := hd.map _

/-- the overall verdict is invariant under independent permutations of the two lists -/
theorem allChannelsPass_perm (verdict : α → β → Bool) (dataIds dataIds' : List α) (params params' : List (α × β))
    (hd : dataIds.Perm dataIds') (hp : params.Perm params') (hn : (params.map (·.1)).Nodup) :
    allChannelsPass verdict dataIds params = allChannelsPass verdict dataIds' params' := by
  unfold allChannelsPass
  rw [perChannel_perm_params verdict dataIds params params' hp hn]
  exact (perChannel_perm_data verdict dataIds dataIds' params' hd).all_eq

/-- `cphd_channel_params_ids_swapped`: two Parameters nodes carrying each other's Identifier — each channel is judged against
    the other channel's parameters -/
theorem mutation_identifiers_swapped (verdict : α → β → Bool) (a b : α) (pa pb : β) (h : a ≠ b) :
    perChannel verdict [a, b] [(b, pa), (a, pb)] = [(a, some (verdict a pb)), (b, some (verdict b pa))] := by
  have h1 : (b == a) = false := by simp [Ne.symm h]
  simp [perChannel, lookupParam, List.find?, h1]

/-- the seeded variant (pairing by position) does not see the swap, and misjudges a file whose two lists are in different order -/
theorem position_pairing_differs (verdict : α → β → Bool) (a b : α) (pa pb : β) (h : a ≠ b) :
    perChannelByPosition verdict [a, b] [(b, pa), (a, pb)] = [(a, some (verdict a pa)), (b, some (verdict b pb))] ∧
    perChannel verdict [b, a] [(a, pa), (b, pb)] = [(b, some (verdict b pb)), (a, some (verdict a pa))] ∧
    perChannelByPosition verdict [b, a] [(a, pa), (b, pb)] = [(b, some (verdict b pa)), (a, some (verdict a pb))] := by
  have h1 : (a == b) = false := by simp [h]
  simp [perChannelByPosition, perChannel, lookupParam, List.find?, h1]

end Channels

example : allChannelsPass (fun (id : Nat) (fxc : Nat) => id == fxc) [2, 1] [(1, 1), (2, 2)] = true ∧
    allChannelsPass (fun (id : Nat) (fxc : Nat) => id == fxc) [1, 2] [(2, 1), (1, 2)] = false := by decide

/-! ## satisfiable examples -/

example : sicdScan [.other, .otherXml, .sicdXml] = some 2 ∧ sicdScan [.other, .otherXml] = none ∧
    sicdScan [.sicdXml, .other, .sicdXml] = none ∧ sicdScan [.other, .siddXml, .sicdXml] = none := by decide

-- the hypotheses of `writer_satisfies_xmlEarly` on a real header: 292 bytes of header text, first candidate offset 1024
example : choose (fun _ => 292) 6163 (some 140) 2240 116 2 1024 = some (layout 1024 6163 (some 140) 2240 116) := by decide
example : xmlEarly 1024 = true ∧ xmlEarly (2 ^ 28) = false := by decide
example : packFrom 0 [1, 1, 3, 3, 1] = [(0, 1), (1, 1), (2, 3), (5, 3), (8, 1)] := by decide

example : padAfterXml 1024 6462 true 7488 7552 = true ∧ padAfterXml 1024 6462 true 7487 7552 = false := by decide
example : (1024 + 6462 + 2) % 64 = 0 := by decide
example : allSignalFit 8 400 (writerChannels 8 [(2, 3), (7, 2), (6, 5)]) = true := by decide
example : writerChannels 8 [(2, 3), (7, 2), (6, 5)] = [(0, 2, 3), (48, 7, 2), (160, 6, 5)] := by decide
example : unique ["ch0", "ch1", "ch2"] = true ∧ repeated ["a", "b", "a", "c", "b", "a"] = ["a", "b"] := by decide
example : refsExist ["cod0", "cod0"] ["cod0", "cod1"] = true ∧ refsExist ["cod2"] ["cod0", "cod1"] = false := by decide
example : polyOk [1, 2] [[0, 0], [0, 1], [1, 2]] = true ∧ polyOk [1, 2] [[0, 0], [2, 0]] = false ∧
    polyOk [1, 2] [[0, 1], [0, 1]] = false := by decide
example : indicesPresent (List.range' 1 4) = true ∧ indicesPresent [1, 2, 4, 4] = false :=
  ⟨writer_satisfies_indicesPresent 4, mutation_duplicate_index_falsifies_indicesPresent [1, 2] [] [] 4⟩
example : optionalFx true true true = true ∧ optionalFx false false false = true := by decide
example : sizeRule 40 7 (Layout.headersOf (Layout.segmentation 40 15)) [7, 7, 7] = true ∧
    sizeRule 41 7 (Layout.headersOf (Layout.segmentation 40 15)) [7, 7, 7] = false := by decide

end Sarpy.Props.C18Rules
