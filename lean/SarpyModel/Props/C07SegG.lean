/-
  C07Seg, general routing (extension SEG2): **where every part of a written pixel is stored**, for all writable
  segment trees including the complex format functions (orders IQ / QI / MP / PM, band axis collapsed or kept).

  `Stores s v id r w`: writing the formatted value `v` at a pixel whose provenance is `s` stores `w` at sample `r`
  of stored array `id` - for a plain pixel (`Src.leaf`) `w = v` at that very sample; for a complex pixel
  `pair re im` the real part goes to the sample `re` is read from and the imaginary part to the sample `im` is read
  from; for `polar mag ph` the magnitude and the phase (named parts `Parts.part 0..3`, their numerics are C08's).

  `write_routesG : Routes' t.fullSrc ts d (t.write ts d)` says that the assignment list the code performs is exactly
  `{ (sample, part of d[idx]) | idx in the chunk, Stores (full[ts[idx]]) d[idx] sample part }`: the inverse of a format
  function writes each part of a pixel to the position the forward function reads that part from, nothing else is
  touched.  `Props/C07Seg.lean` keeps the store theorems for trees without complex formats (`tiled`).
-/
import SarpyModel.Props.C07Seg

namespace Sarpy.Props.C07Seg
open Sarpy Sarpy.Spec Sarpy.Props.C01Seg

section
variable {α : Type} [Parts α]

/-- writing `v` at a pixel of provenance `s` stores `w` at sample `r` of stored array `id` -/
def Stores : Src → α → Nat → List Int → α → Prop
  | .fill, _, _, _, _ => False
  | .leaf i x, v, id, r, w => i = id ∧ x = r ∧ v = w
  | .pair a b, v, id, r, w => Stores a (Parts.part 0 v) id r w ∨ Stores b (Parts.part 1 v) id r w
  | .polar a b, v, id, r, w => Stores a (Parts.part 2 v) id r w ∨ Stores b (Parts.part 3 v) id r w
  | .lut _ _, _, _, _, _ => False

/-- the assignments `A` route chunk `d`, addressed by `ts`, part by part to the samples the image `fl` is made of -/
def RoutesG (fl : Arr Src) (ts : List NSlice) (d : Arr α) (A : List (Nat × List Int × α)) : Prop :=
  ∀ id r w, (id, r, w) ∈ A ↔
    ∃ idx : Idx, InR (ts.map NSlice.count) idx ∧ Stores (fl.get (selIdx ts idx)) (d.get idx) id r w

/-- the two stored samples of a complex pixel receive the parts `COrd.slot` names -/
theorem stores_comb (ord : COrd) (s0 s1 : Src) (v : α) (id : Nat) (r : List Int) (w : α) :
    Stores (comb ord s0 s1) v id r w ↔
      Stores s0 (Parts.part (ord.slot false) v) id r w ∨ Stores s1 (Parts.part (ord.slot true) v) id r w := by
  cases ord
  · exact Iff.rfl
  · exact Or.comm
  · exact Iff.rfl
  · exact Or.comm

/-- on a plain pixel the general relation is the one of `Routes` -/
theorem stores_leaf (i : Nat) (x : List Int) (v : α) (id : Nat) (r : List Int) (w : α) :
    Stores (Src.leaf i x) v id r w ↔ (Src.leaf i x = Src.leaf id r ∧ v = w) := by
  show (i = id ∧ x = r ∧ v = w) ↔ _
  simp only [Src.leaf.injEq]
  tauto

/-! ### leaf -/

theorem leaf_routesG (id : Nat) (s : List Nat) (ts : List NSlice) (hts : NormalSub s ts)
    (d : Arr α) (hd : d.shape = ts.map NSlice.count) (hl : d.Local) :
    RoutesG (Seg.leaf id s).fullSrc ts d ((Seg.leaf id s).write ts d) := by
  intro id' r v
  have := leaf_routes id s ts hts d hd hl id' r v
  rw [this]
  constructor
  · rintro ⟨idx, hidx, hsrc, hv⟩
    refine ⟨idx, hidx, ?_⟩
    have e : (Seg.leaf id s).fullSrc.get (selIdx ts idx) = Src.leaf id ((List.range s.length).map (selIdx ts idx)) := rfl
    rw [e] at hsrc ⊢
    exact (stores_leaf _ _ _ _ _ _).2 ⟨hsrc, hv⟩
  · rintro ⟨idx, hidx, hst⟩
    refine ⟨idx, hidx, ?_⟩
    have e : (Seg.leaf id s).fullSrc.get (selIdx ts idx) = Src.leaf id ((List.range s.length).map (selIdx ts idx)) := rfl
    rw [e] at hst ⊢
    exact (stores_leaf _ _ _ _ _ _).1 hst

/-! ### a change of chunk coordinates carries a routing over -/

/-- if the chunk indices of `(ts', d')` and `(ts, d)` correspond (maps `f`, `g`) so that corresponding indices see
    the same pixel of the image and the same chunk value, a routing for one is a routing for the other -/
theorem routes_transfer {fl fl' : Arr Src} {ts ts' : List NSlice} {d d' : Arr α} {A : List (Nat × List Int × α)}
    (f g : Idx → Idx)
    (hf : ∀ i', InR (ts'.map NSlice.count) i' → InR (ts.map NSlice.count) (f i') ∧
      fl.get (selIdx ts (f i')) = fl'.get (selIdx ts' i') ∧ d.get (f i') = d'.get i')
    (hg : ∀ i, InR (ts.map NSlice.count) i → InR (ts'.map NSlice.count) (g i) ∧
      fl'.get (selIdx ts' (g i)) = fl.get (selIdx ts i) ∧ d'.get (g i) = d.get i)
    (ih : RoutesG fl' ts' d' A) : RoutesG fl ts d A := by
  intro id r w
  rw [ih id r w]
  constructor
  · rintro ⟨i', hi', hst⟩
    obtain ⟨h1, h2, h3⟩ := hf i' hi'
    exact ⟨f i', h1, by rw [h2, h3]; exact hst⟩
  · rintro ⟨i, hi, hst⟩
    obtain ⟨h1, h2, h3⟩ := hg i hi
    exact ⟨g i, h1, by rw [h2, h3]; exact hst⟩

/-! ### re-orientation -/

theorem orient_routesG (fl : Arr Src) (S rev perm : List Nat) (ts : List NSlice)
    (hp : PermOK perm S.length) (hS : fl.shape = S) (hloc : fl.Local) (hts : NormalSub (gather perm S) ts)
    (d : Arr α) (hd : d.shape = ts.map NSlice.count) (hdl : d.Local) (A : List (Nat × List Int × α))
    (ih : RoutesG fl (rawSub S rev (invPerm perm) ts) ((d.transpose (invPerm perm) perm).flip rev) A) :
    RoutesG ((fl.flip rev).transpose perm (invPerm perm)) ts d A := by
  obtain ⟨hl, hn⟩ := (normalSub_iff _ _).1 hts
  rw [gather_length, hp.len] at hl
  set rts := rawSub S rev (invPerm perm) ts with hrts
  have hrn : NormalSub S rts := rawSub_normal rev hp hts
  have hrl : rts.length = S.length := ((normalSub_iff _ _).1 hrn).1
  have hcnt : ∀ i, i < S.length → (sliceAt rts i).count = (sliceAt ts ((invPerm perm).getD i 0)).count :=
    fun i hi => rawSub_count rev hp hts hi
  have key : ∀ idx, InR (ts.map NSlice.count) idx →
      fl.get (selIdx rts (rawIx (rts.map NSlice.count) rev (invPerm perm) idx)) =
        ((fl.flip rev).transpose perm (invPerm perm)).get (selIdx ts idx) := by
    intro idx hidx
    have := orient_refines (fl.select rts) fl S rev perm ts hp hS hloc hts (Arr.Equiv.refl _)
    have hsh : (((fl.select rts).flip rev).transpose perm (invPerm perm)).shape = ts.map NSlice.count :=
      orient_shape rev hp hts
    exact this.2 idx (hsh ▸ hidx)
  have hdsh : (d.transpose (invPerm perm) perm).shape = rts.map NSlice.count := by
    show gather (invPerm perm) d.shape = _
    rw [hd]; exact inv_data_shape rev hp hts
  have hraw_inR : ∀ idx, InR (ts.map NSlice.count) idx →
      InR (rts.map NSlice.count) (rawIx (rts.map NSlice.count) rev (invPerm perm) idx) := by
    intro idx hidx i hi
    simp only [List.length_map, hrl] at hi
    have hk := hidx _ (by simp only [List.length_map, hl]; exact hp.invlt i hi)
    rw [dimAt_map_count] at hk
    simp only [rawIx, dimAt_map_count, hcnt i hi]
    split <;> omega
  have hfmt_inR : ∀ ridx, InR (rts.map NSlice.count) ridx →
      InR (ts.map NSlice.count) (fmtIx (rts.map NSlice.count) rev perm ridx) := by
    intro ridx hr j hj
    simp only [List.length_map, hl] at hj
    have hpj := hp.lt j hj
    have hk := hr _ (by simp only [List.length_map, hrl]; exact hpj)
    rw [dimAt_map_count, hcnt _ hpj, hp.invp j hj] at hk
    simp only [fmtIx, dimAt_map_count, hcnt _ hpj, hp.invp j hj]
    split <;> omega
  have hraw_fmt : ∀ ridx i, i < S.length →
      rawIx (rts.map NSlice.count) rev (invPerm perm) (fmtIx (rts.map NSlice.count) rev perm ridx) i = ridx i := by
    intro ridx i hi
    simp only [rawIx, fmtIx, hp.pinv i hi]
    split <;> omega
  have hfmt_raw : ∀ idx j, j < S.length →
      fmtIx (rts.map NSlice.count) rev perm (rawIx (rts.map NSlice.count) rev (invPerm perm) idx) j = idx j := by
    intro idx j hj
    simp only [rawIx, fmtIx, hp.invp j hj]
    split <;> omega
  have hdata : ∀ ridx, ((d.transpose (invPerm perm) perm).flip rev).get ridx =
      d.get (fmtIx (rts.map NSlice.count) rev perm ridx) := by
    intro ridx
    show d.get _ = d.get _
    simp only [hdsh]
    rfl
  refine routes_transfer (fmtIx (rts.map NSlice.count) rev perm) (rawIx (rts.map NSlice.count) rev (invPerm perm)) ?_ ?_ ih
  · intro ridx hr
    refine ⟨hfmt_inR ridx hr, ?_, (hdata ridx).symm⟩
    rw [← key _ (hfmt_inR ridx hr)]
    apply hloc
    intro i hi
    rw [hS] at hi
    simp only [selIdx, hraw_fmt ridx i hi]
  · intro idx hidx
    refine ⟨hraw_inR idx hidx, key idx hidx, ?_⟩
    rw [hdata]
    apply hdl
    intro j hj
    rw [hd] at hj
    simp only [List.length_map, hl] at hj
    exact hfmt_raw idx j hj

/-! ### subset -/

theorem subset_routesG (fl : Arr Src) (S : List Nat) (sq : Bool) (defs ts : List NSlice)
    (hS : fl.shape = S) (hloc : fl.Local)
    (hd : NormalSub S defs) (hts : NormalSub (pick (keepAxes sq defs) (defs.map NSlice.count)) ts)
    (d : Arr α) (hds : d.shape = ts.map NSlice.count) (hdl : d.Local) (A : List (Nat × List Int × α))
    (ih : RoutesG fl (composeSq S defs (keepAxes sq defs) ts)
      (d.unsqueeze (keepAxes sq defs) ((composeSq S defs (keepAxes sq defs) ts).map NSlice.count)) A) :
    RoutesG ((fl.select defs).squeeze (keepAxes sq defs)) ts d A := by
  obtain ⟨hn, _, hsel, hcount, htl⟩ := subset_sub hd hts
  obtain ⟨hcl, _⟩ := (normalSub_iff _ _).1 hn
  have hKl : (keepAxes sq defs).length = S.length := by rw [keepAxes_length, ((normalSub_iff _ _).1 hd).1]
  set K := keepAxes sq defs with hK
  set pts := composeSq S defs K ts with hpts
  refine routes_transfer (sqIdx K) (unsq K) ?_ ?_ ih
  · intro pidx hp
    have hpk : ∀ i, i < S.length → 0 ≤ pidx i ∧ pidx i < ((sliceAt pts i).count : Int) := by
      intro i hi
      have := hp i (by simp only [List.length_map, hcl]; exact hi)
      rwa [dimAt_map_count] at this
    have hun : ∀ i, i < S.length → unsq K (sqIdx K pidx) i = pidx i := by
      intro i hi
      simp only [unsq, sqIdx]
      by_cases hk : K.getD i false = true
      · simp only [hk, if_true]
        rw [kept_rank K i (by omega) hk]
      · have hk' : K.getD i false = false := by simpa using hk
        have := hpk i hi
        rw [hcount i hi] at this
        simp only [hk', Bool.false_eq_true, if_false] at this ⊢
        omega
    refine ⟨?_, ?_, rfl⟩
    · intro r' hr
      simp only [List.length_map, htl] at hr
      obtain ⟨i1, i2, i3⟩ := kept_spec K r' hr
      have := hpk ((keptAxes K).getD r' 0) (by omega)
      rw [hcount ((keptAxes K).getD r' 0) (by omega), if_pos i2, i3] at this
      rw [dimAt_map_count]
      exact this
    · show fl.get _ = fl.get _
      apply hloc
      intro i hi
      rw [hS] at hi
      rw [← hsel _ i hi]
      simp only [selIdx, hun i hi]
  · intro idx hidx
    refine ⟨unsq_inR hd hts hidx, ?_, ?_⟩
    · show fl.get _ = fl.get _
      apply hloc
      intro i hi
      rw [hS] at hi
      exact hsel idx i hi
    · show d.get _ = d.get _
      apply hdl
      intro r' hr
      rw [hds] at hr
      simp only [List.length_map, htl] at hr
      obtain ⟨i1, i2, i3⟩ := kept_spec K r' hr
      simp only [sqIdx, unsq, i2, if_true, i3]

/-! ### complex format, band axis collapsed: the inverse adds the band axis again -/

theorem delAt_insAt {β : Type} (k : Nat) (x : β) (l : List β) (hk : k ≤ l.length) : delAt k (insAt k x l) = l := by
  unfold delAt insAt
  have hk' : (List.take k l).length = k := by simp; omega
  have h1 : (l.take k ++ x :: l.drop k).take k = l.take k := List.take_left' hk'
  have h2 : (l.take k ++ x :: l.drop k).drop (k + 1) = l.drop k := by
    have e : k + 1 = (l.take k).length + 1 := by rw [hk']
    rw [e, List.drop_append]
    have e2 : (List.take k l).length + 1 - (List.take k l).length = 1 := by omega
    rw [e2, List.drop_of_length_le (by omega)]
    simp
  rw [h1, h2, List.take_append_drop]

theorem unpair_shape (ord : COrd) (bd : Nat) (d : Arr α) (ts : List NSlice) (hd : d.shape = ts.map NSlice.count)
    (hbd : bd ≤ ts.length) : (d.unpair ord bd).shape = (insAt bd ⟨0, some 2, 1⟩ ts).map NSlice.count := by
  show insAt bd 2 d.shape = _
  rw [hd]
  unfold insAt
  simp only [List.map_append, List.map_take, List.map_cons, List.map_drop]
  rfl

theorem unpair_local (ord : COrd) {bd : Nat} {d : Arr α} (hdl : d.Local) (hbd : bd ≤ d.shape.length) :
    (d.unpair ord bd).Local := by
  intro idx idx' h
  have hlen : (d.unpair ord bd).shape.length = d.shape.length + 1 := insAt_length _ _ _ hbd
  show Parts.part _ (d.get (dropAx bd idx)) = Parts.part _ (d.get (dropAx bd idx'))
  rw [h bd (by rw [hlen]; omega)]
  congr 1
  apply hdl
  intro i hi
  simp only [dropAx]
  split
  · exact h i (by rw [hlen]; omega)
  · exact h (i + 1) (by rw [hlen]; omega)

theorem cplx_routesG (O : Arr Src) (ord : COrd) (bd : Nat) (ts : List NSlice) (hbd : bd ≤ ts.length)
    (d : Arr α) (A : List (Nat × List Int × α))
    (ih : RoutesG O (insAt bd ⟨0, some 2, 1⟩ ts) (d.unpair ord bd) A) :
    RoutesG (O.pairUp ord bd) ts d A := by
  have hc2 : (⟨0, some 2, 1⟩ : NSlice).count = 2 := by decide
  have hlen' : (insAt bd (⟨0, some 2, 1⟩ : NSlice) ts).length = ts.length + 1 := insAt_length _ _ _ hbd
  -- a chunk index of the padded subscript is a chunk index of `ts` plus a band position 0 / 1
  have hsplit : ∀ ridx, InR ((insAt bd (⟨0, some 2, 1⟩ : NSlice) ts).map NSlice.count) ridx →
      InR (ts.map NSlice.count) (dropAx bd ridx) ∧ 0 ≤ ridx bd ∧ ridx bd < 2 := by
    intro ridx hr
    constructor
    · have := dropAx_inR (ts := insAt bd (⟨0, some 2, 1⟩ : NSlice) ts) (bd := bd) (by rw [hlen']; omega) hr
      rwa [delAt_insAt _ _ _ hbd] at this
    · have := hr bd (by simp only [List.length_map, hlen']; omega)
      rw [dimAt_map_count, sliceAt_insAt _ _ _ hbd] at this
      simpa [hc2] using this
  have hjoin : ∀ idx, InR (ts.map NSlice.count) idx → ∀ k : Int, 0 ≤ k → k < 2 →
      InR ((insAt bd (⟨0, some 2, 1⟩ : NSlice) ts).map NSlice.count) (insAx bd k idx) := by
    intro idx hidx k hk0 hk2 i hi
    simp only [List.length_map, hlen'] at hi
    rw [dimAt_map_count, sliceAt_insAt _ _ _ hbd]
    simp only [insAx]
    by_cases c1 : i < bd
    · have := hidx i (by simp; omega)
      rw [dimAt_map_count] at this
      simpa [c1] using this
    · by_cases c2 : i = bd
      · subst c2
        simp only [Nat.lt_irrefl, if_false, if_true, hc2]
        exact ⟨hk0, by omega⟩
      · have := hidx (i - 1) (by simp; omega)
        rw [dimAt_map_count] at this
        simpa [c1, c2] using this
  intro id r w
  rw [ih id r w]
  constructor
  · rintro ⟨ridx, hr, hst⟩
    obtain ⟨h1, h2, h3⟩ := hsplit ridx hr
    refine ⟨dropAx bd ridx, h1, ?_⟩
    have e1 : selIdx (insAt bd ⟨0, some 2, 1⟩ ts) ridx = insAx bd (ridx bd) (selIdx ts (dropAx bd ridx)) := by
      rw [← insAx_selIdx bd ts hbd, insAx_dropAx]
    rw [e1] at hst
    show Stores (comb ord (O.get (insAx bd 0 (selIdx ts (dropAx bd ridx)))) (O.get (insAx bd 1 (selIdx ts (dropAx bd ridx)))))
      (d.get (dropAx bd ridx)) id r w
    rw [stores_comb]
    have hv : (d.unpair ord bd).get ridx = Parts.part (ord.slot (decide (ridx bd ≠ 0))) (d.get (dropAx bd ridx)) := rfl
    rw [hv] at hst
    by_cases hz : ridx bd = 0
    · left
      rw [hz] at hst
      simpa using hst
    · right
      have h1' : ridx bd = 1 := by omega
      rw [h1'] at hst
      simpa using hst
  · rintro ⟨idx, hidx, hst⟩
    have hst' : Stores (comb ord (O.get (insAx bd 0 (selIdx ts idx))) (O.get (insAx bd 1 (selIdx ts idx))))
      (d.get idx) id r w := hst
    rw [stores_comb] at hst'
    rcases hst' with h | h
    · refine ⟨insAx bd 0 idx, hjoin idx hidx 0 (by decide) (by decide), ?_⟩
      rw [insAx_selIdx bd ts hbd]
      have hv : (d.unpair ord bd).get (insAx bd 0 idx) =
          Parts.part (ord.slot (decide (insAx bd 0 idx bd ≠ 0))) (d.get (dropAx bd (insAx bd 0 idx))) := rfl
      rw [hv, dropAx_insAx, insAx_at]
      simpa using h
    · refine ⟨insAx bd 1 idx, hjoin idx hidx 1 (by decide) (by decide), ?_⟩
      rw [insAx_selIdx bd ts hbd]
      have hv : (d.unpair ord bd).get (insAx bd 1 idx) =
          Parts.part (ord.slot (decide (insAx bd 1 idx bd ≠ 0))) (d.get (dropAx bd (insAx bd 1 idx))) := rfl
      rw [hv, dropAx_insAx, insAx_at]
      simpa using h

/-! ### complex format, band axis kept: the inverse doubles the band axis -/

theorem dimAt_doubleAt (bd : Nat) (G : List Nat) (i : Nat) :
    dimAt (doubleAt bd G) i = if i < G.length then (if i = bd then 2 * dimAt G i else dimAt G i) else 0 := by
  unfold doubleAt
  show ((List.range G.length).map _).getD i 0 = _
  rw [getD_map_range]

theorem doubleAt_length (bd : Nat) (G : List Nat) : (doubleAt bd G).length = G.length := by simp [doubleAt]

theorem unpairK_shape (ord : COrd) (bd : Nat) (d : Arr α) (ts : List NSlice) (hd : d.shape = ts.map NSlice.count)
    (hstep : (sliceAt ts bd).step = 1) : (d.unpairK ord bd).shape = (dblAt bd ts).map NSlice.count := by
  show doubleAt bd d.shape = _
  rw [hd]
  apply List.ext_getElem
  · simp [doubleAt_length, dblAt_length]
  · intro i h1 h2
    have hi : i < ts.length := by simpa [dblAt_length] using h2
    rw [← dimAt_lt h1, ← dimAt_lt h2, dimAt_doubleAt, if_pos (by simpa using hi), dimAt_map_count, dimAt_map_count,
      sliceAt_dblAt]
    by_cases hb : i = bd
    · subst hb
      simp only [true_and, hi, if_true, dblSlice_count hstep]
    · simp only [hb, false_and, if_false]

theorem unpairK_local (ord : COrd) {bd : Nat} {d : Arr α} (hdl : d.Local) (hb : bd < d.shape.length) :
    (d.unpairK ord bd).Local := by
  intro idx idx' h
  have hlen : (d.unpairK ord bd).shape.length = d.shape.length := doubleAt_length _ _
  show Parts.part _ (d.get (halfAx bd idx)) = Parts.part _ (d.get (halfAx bd idx'))
  rw [h bd (by rw [hlen]; exact hb)]
  congr 1
  apply hdl
  intro i hi
  simp only [halfAx]
  rw [h i (by rw [hlen]; exact hi)]

theorem kept_routesG (O : Arr Src) (ord : COrd) (bd : Nat) (ts : List NSlice) (hbd : bd < ts.length)
    (hstep : (sliceAt ts bd).step = 1) (d : Arr α) (A : List (Nat × List Int × α))
    (ih : RoutesG O (dblAt bd ts) (d.unpairK ord bd) A) :
    RoutesG (O.pairKept ord bd) ts d A := by
  have hcnt : ∀ i, (sliceAt (dblAt bd ts) i).count = if i = bd then 2 * (sliceAt ts i).count else (sliceAt ts i).count := by
    intro i
    rw [sliceAt_dblAt]
    by_cases hb : i = bd
    · subst hb
      simp only [true_and, hbd, if_true, dblSlice_count hstep]
    · simp only [hb, false_and, if_false]
  have hjoin : ∀ idx, InR (ts.map NSlice.count) idx → ∀ k : Int, 0 ≤ k → k < 2 →
      InR ((dblAt bd ts).map NSlice.count) (dblAx bd k idx) := by
    intro idx hidx k hk0 hk2 i hi
    simp only [List.length_map, dblAt_length] at hi
    have := hidx i (by simpa using hi)
    rw [dimAt_map_count] at this
    rw [dimAt_map_count, hcnt]
    simp only [dblAx]
    by_cases hb : i = bd
    · simp only [hb, if_true] at this ⊢
      have e : ((2 * (sliceAt ts bd).count : Nat) : Int) = 2 * ((sliceAt ts bd).count : Int) := by simp
      omega
    · simp only [hb, if_false]
      exact this
  intro id r w
  rw [ih id r w]
  constructor
  · rintro ⟨ridx, hr, hst⟩
    have hb := hr bd (by simp only [List.length_map, dblAt_length]; exact hbd)
    rw [dimAt_map_count, hcnt, if_pos rfl] at hb
    have e2 : ((2 * (sliceAt ts bd).count : Nat) : Int) = 2 * ((sliceAt ts bd).count : Int) := by simp
    have hsplit : ridx = dblAx bd (ridx bd % 2) (halfAx bd ridx) := by
      funext i
      simp only [dblAx, halfAx]
      by_cases hi : i = bd
      · subst hi; simp only [if_true]; omega
      · simp only [hi, if_false]
    have hin : InR (ts.map NSlice.count) (halfAx bd ridx) := by
      intro i hi
      simp only [List.length_map] at hi
      have := hr i (by simp only [List.length_map, dblAt_length]; exact hi)
      rw [dimAt_map_count, hcnt] at this
      rw [dimAt_map_count]
      simp only [halfAx]
      by_cases hb' : i = bd
      · simp only [hb', if_true] at this ⊢
        omega
      · simp only [hb', if_false] at this ⊢
        exact this
    refine ⟨halfAx bd ridx, hin, ?_⟩
    have e1 : selIdx (dblAt bd ts) ridx = dblAx bd (ridx bd % 2) (selIdx ts (halfAx bd ridx)) := by
      conv_lhs => rw [hsplit]
      exact selIdx_dblAt bd ts hbd hstep _ _
    rw [e1] at hst
    show Stores (comb ord (O.get (dblAx bd 0 (selIdx ts (halfAx bd ridx)))) (O.get (dblAx bd 1 (selIdx ts (halfAx bd ridx)))))
      (d.get (halfAx bd ridx)) id r w
    rw [stores_comb]
    have hv : (d.unpairK ord bd).get ridx =
        Parts.part (ord.slot (decide (ridx bd % 2 ≠ 0))) (d.get (halfAx bd ridx)) := rfl
    rw [hv] at hst
    by_cases hz : ridx bd % 2 = 0
    · left
      rw [hz] at hst
      simpa using hst
    · right
      have h1' : ridx bd % 2 = 1 := by omega
      rw [h1'] at hst
      simpa using hst
  · rintro ⟨idx, hidx, hst⟩
    have hk := hidx bd (by simpa using hbd)
    rw [dimAt_map_count] at hk
    have hst' : Stores (comb ord (O.get (dblAx bd 0 (selIdx ts idx))) (O.get (dblAx bd 1 (selIdx ts idx))))
      (d.get idx) id r w := hst
    rw [stores_comb] at hst'
    have hhalf : ∀ k : Int, 0 ≤ k → k < 2 → ∀ i, halfAx bd (dblAx bd k idx) i = idx i := by
      intro k hk0 hk2 i
      simp only [halfAx, dblAx]
      by_cases hi : i = bd
      · simp only [hi, if_true]; omega
      · simp only [hi, if_false]
    have hpar : ∀ k : Int, 0 ≤ k → k < 2 → dblAx bd k idx bd % 2 = k := by
      intro k hk0 hk2
      simp only [dblAx, if_true]; omega
    rcases hst' with h | h
    · refine ⟨dblAx bd 0 idx, hjoin idx hidx 0 (by decide) (by decide), ?_⟩
      rw [selIdx_dblAt bd ts hbd hstep]
      have hv : (d.unpairK ord bd).get (dblAx bd 0 idx) =
          Parts.part (ord.slot (decide (dblAx bd 0 idx bd % 2 ≠ 0))) (d.get (halfAx bd (dblAx bd 0 idx))) := rfl
      rw [hv, hpar 0 (by decide) (by decide), show halfAx bd (dblAx bd 0 idx) = idx from funext (hhalf 0 (by decide) (by decide))]
      simpa using h
    · refine ⟨dblAx bd 1 idx, hjoin idx hidx 1 (by decide) (by decide), ?_⟩
      rw [selIdx_dblAt bd ts hbd hstep]
      have hv : (d.unpairK ord bd).get (dblAx bd 1 idx) =
          Parts.part (ord.slot (decide (dblAx bd 1 idx bd % 2 ≠ 0))) (d.get (halfAx bd (dblAx bd 1 idx))) := rfl
      rw [hv, hpar 1 (by decide) (by decide), show halfAx bd (dblAx bd 1 idx) = idx from funext (hhalf 1 (by decide) (by decide))]
      simpa using h

/-! ### band aggregate -/

/-- bands: `W n dd` / `G n` stand for writing chunk `dd` into / the full image of the `n`-th child; only the children the
    band slice selects are written -/
theorem bands_routesG (W : Nat → Arr α → List (Nat × List Int × α)) (G : Nat → Arr Src)
    (sh : List Nat) (bd nb : Nat) (hbd : bd ≤ sh.length) (ts : List NSlice) (hts : NormalSub (insAt bd nb sh) ts)
    (d : Arr α) (hd : d.shape = ts.map NSlice.count) (hdl : d.Local)
    (ih : ∀ x : Int, x ∈ (sliceAt ts bd).indices → x.toNat < nb →
      ∀ dd : Arr α, dd.shape = (delAt bd ts).map NSlice.count → dd.Local →
      RoutesG (G x.toNat) (delAt bd ts) dd (W x.toNat dd)) :
    RoutesG ⟨insAt bd nb sh, fun idx => (G (idx bd).toNat).get (dropAx bd idx)⟩ ts d
      (((sliceAt ts bd).indices.zipIdx).flatMap (fun io => W io.1.toNat (d.takeAx bd (io.2 : Nat)))) := by
  obtain ⟨hsub, hn⟩ := bands_sub hbd hts
  have htl : ts.length = sh.length + 1 := by
    have := ((normalSub_iff _ _).1 hts).1
    rwa [insAt_length _ _ _ hbd] at this
  have hbd' : bd < ts.length := by omega
  have htk : ∀ k : Int, (d.takeAx bd k).shape = (delAt bd ts).map NSlice.count ∧ (d.takeAx bd k).Local := by
    intro k
    refine ⟨?_, takeAx_local hdl (by rw [hd]; simpa using hbd') k⟩
    show delAt bd d.shape = _
    rw [hd, map_count_delAt]
  intro id r v
  simp only [List.mem_flatMap]
  constructor
  · rintro ⟨⟨x, o⟩, hio, hmem⟩
    rw [List.mk_mem_zipIdx_iff_getElem?] at hio
    have ho : o < (sliceAt ts bd).count := by
      have := (List.getElem?_eq_some_iff.1 hio).1
      simpa [NSlice.indices] using this
    have hx : x = (sliceAt ts bd).start + (o : Int) * (sliceAt ts bd).step := by
      obtain ⟨h1, h2⟩ := List.getElem?_eq_some_iff.1 hio
      rw [← h2]; simp [NSlice.indices, ap_getElem]
    have hxm : x ∈ (sliceAt ts bd).indices := List.mem_of_getElem? hio
    have hxr := Normal.index_range hn (o : Int) (by omega) (by omega)
    rw [← hx] at hxr
    obtain ⟨c, hc, hsrc⟩ := (ih x hxm (by omega) _ (htk o).1 (htk o).2 id r v).1 hmem
    refine ⟨insAx bd o c, insAx_inR hbd' hc (by omega) (by omega), ?_⟩
    show Stores ((G (selIdx ts (insAx bd o c) bd).toNat).get (dropAx bd (selIdx ts (insAx bd o c)))) (d.get (insAx bd o c)) id r v
    rw [dropAx_selIdx bd ts (by omega), dropAx_insAx]
    simp only [selIdx, insAx_at, ← hx]
    exact hsrc
  · rintro ⟨idx, hidx, hsrc⟩
    have hk := hidx bd (by simpa using hbd')
    rw [dimAt_map_count] at hk
    obtain ⟨o, ho⟩ : ∃ o : Nat, idx bd = o := ⟨(idx bd).toNat, by omega⟩
    set x := (sliceAt ts bd).start + (o : Int) * (sliceAt ts bd).step with hx
    have hxr := Normal.index_range hn (o : Int) (by omega) (by omega)
    rw [← hx] at hxr
    have hlt : o < (sliceAt ts bd).indices.length := by simp [NSlice.indices]; omega
    have hget : (sliceAt ts bd).indices[o]? = some x := by
      rw [List.getElem?_eq_getElem hlt]
      simp [NSlice.indices, ap_getElem, hx]
    refine ⟨(x, o), ?_, ?_⟩
    · rw [List.mk_mem_zipIdx_iff_getElem?]
      exact hget
    · apply (ih x (List.mem_of_getElem? hget) (by omega) _ (htk o).1 (htk o).2 id r v).2
      refine ⟨dropAx bd idx, dropAx_inR hbd' hidx, ?_⟩
      have hsrc' : Stores ((G (selIdx ts idx bd).toNat).get (dropAx bd (selIdx ts idx))) (d.get idx) id r v := hsrc
      rw [dropAx_selIdx bd ts (by omega)] at hsrc'
      simp only [selIdx] at hsrc'
      rw [ho] at hsrc'
      show Stores ((G x.toNat).get (selIdx (delAt bd ts) (dropAx bd idx))) (d.get (insAx bd (o : Int) (dropAx bd idx))) id r v
      rw [← ho, insAx_dropAx]
      exact hsrc'

/-! ### block aggregate -/

/-- one block: the part of the chunk that falls into the block is routed into the child -/
theorem block_routesG (cfl : Arr Src) {sh csh : List Nat} {arr : List (Int × Int)}
    {ts csub psub : List NSlice}
    (hbox : boxOK sh arr csh = true) (hts : NormalSub sh ts) (ho : overlaps ts arr = some (csub, psub))
    (hcs : cfl.shape = csh) (hcloc : cfl.Local)
    (d : Arr α) (hd : d.shape = ts.map NSlice.count) (hdl : d.Local) (A : List (Nat × List Int × α))
    (ihc : RoutesG cfl csub (d.select psub) A) (id : Nat) (r : List Int) (v : α) :
    (id, r, v) ∈ A ↔ ∃ idx : Idx, InR (ts.map NSlice.count) idx ∧ inBox arr (selIdx ts idx) = true ∧
      Stores (cfl.get (boxLo arr (selIdx ts idx))) (d.get idx) id r v := by
  obtain ⟨hcl, hpl, hax⟩ := block_axes hbox hts ho
  have hstep := block_axes_step hbox hts ho
  obtain ⟨hal, hcshl, _⟩ := (boxOK_iff _ _ _).1 hbox
  have htl := ((normalSub_iff _ _).1 hts).1
  rw [ihc id r v]
  constructor
  · rintro ⟨c, hc, hst⟩
    have hck : ∀ i, i < sh.length → 0 ≤ c i ∧ c i < ((sliceAt csub i).count : Int) := by
      intro i hi
      have := hc i (by simp; omega)
      rwa [dimAt_map_count] at this
    refine ⟨selIdx psub c, ?_, ?_, ?_⟩
    · intro i hi
      simp only [List.length_map, htl] at hi
      obtain ⟨k0, k1, e1, e2, e3, e4, e5, _, e7, _, _⟩ := hax i hi
      have := hck i hi
      rw [dimAt_map_count]
      simp only [selIdx, e1, hstep i hi]
      omega
    · rw [inBox_iff]
      intro i hi
      rw [hal] at hi
      obtain ⟨k0, k1, e1, e2, e3, e4, e5, _, e7, e8, _⟩ := hax i hi
      have := hck i hi
      have hk : selIdx psub c i = k0 + c i := by simp only [selIdx, e1, hstep i hi]; omega
      exact (e8 (selIdx psub c i) (by omega) (by omega)).2 (by omega)
    · have e1 : cfl.get (boxLo arr (selIdx ts (selIdx psub c))) = cfl.get (selIdx csub c) := by
        apply hcloc
        intro i hi
        rw [hcs, hcshl] at hi
        obtain ⟨k0, k1, e1, e2, e3, e4, e5, _, e7, _, e9⟩ := hax i hi
        have := hck i hi
        have hk : selIdx psub c i = k0 + c i := by simp only [selIdx, e1, hstep i hi]; omega
        have := e9 (selIdx psub c i) (by omega) (by omega)
        simp only [boxLo]
        rw [show selIdx ts (selIdx psub c) i = (sliceAt ts i).start + selIdx psub c i * (sliceAt ts i).step from rfl,
          ← this, hk]
        simp only [selIdx]
        congr 2; omega
      rw [e1]
      exact hst
  · rintro ⟨idx, hidx, hin, hst⟩
    have hk : ∀ i, i < sh.length → 0 ≤ idx i ∧ idx i < ((sliceAt ts i).count : Int) := by
      intro i hi
      have := hidx i (by simp; omega)
      rwa [dimAt_map_count] at this
    rw [inBox_iff] at hin
    have hloc : ∀ i, i < sh.length → ∃ k0 k1 : Int, (sliceAt psub i).start = k0 ∧ k0 ≤ idx i ∧ idx i < k1 ∧
        ((sliceAt csub i).count : Int) = k1 - k0 ∧
        (sliceAt csub i).start + (idx i - k0) * (sliceAt csub i).step =
          (sliceAt ts i).start + idx i * (sliceAt ts i).step - (arr.getD i (0, 0)).1 := by
      intro i hi
      obtain ⟨k0, k1, e1, e2, _, _, _, _, e7, e8, e9⟩ := hax i hi
      have := (e8 (idx i) (hk i hi).1 (hk i hi).2).1 (hin i (by omega))
      exact ⟨k0, k1, e1, this.1, this.2, e7, e9 _ this.1 this.2⟩
    refine ⟨fun i => idx i - (sliceAt psub i).start, ?_, ?_⟩
    · intro i hi
      simp only [List.length_map, hcl] at hi
      obtain ⟨k0, k1, e1, h1, h2, e7, _⟩ := hloc i hi
      rw [dimAt_map_count]
      beta_reduce
      omega
    · have e1 : cfl.get (selIdx csub (fun i => idx i - (sliceAt psub i).start)) = cfl.get (boxLo arr (selIdx ts idx)) := by
        apply hcloc
        intro i hi
        rw [hcs, hcshl] at hi
        obtain ⟨k0, k1, e1, h1, h2, e7, e⟩ := hloc i hi
        simp only [selIdx, boxLo, e1]
        exact e
      have e2 : (d.select psub).get (fun i => idx i - (sliceAt psub i).start) = d.get idx := by
        show d.get _ = d.get _
        apply hdl
        intro i hi
        rw [hd] at hi
        simp only [List.length_map, htl] at hi
        simp only [selIdx, hstep i hi]
        omega
      rw [e1, e2]
      exact hst

/-- position `pt` of the mosaic lies in a block whose image there satisfies `P` -/
def hitP (P : Src → Prop) : Blks → Idx → Prop
  | .nil, _ => False
  | .cons arr c r, pt => (inBox arr pt = true ∧ P (c.fullSrc.get (boxLo arr pt))) ∨ hitP P r pt
  | .rcons arr rv c r, pt => (inBox arr pt = true ∧ P (c.fullSrc.get (boxLoR arr rv pt))) ∨ hitP P r pt

/-- the image of a tiling at a position: the block the position lies in, or the canvas -/
theorem fullOnto_charP (P : Src → Prop) : ∀ (cs : Blks) (sh : List Nat), cs.wfAll sh = true → cs.writable = true →
    ∀ (acc : Arr Src) (pt : Idx),
    P ((cs.fullOnto Src.leaf Src.fill acc).get pt) ↔ hitP P cs pt ∨ (outside cs pt ∧ P (acc.get pt))
  | .nil, _, _, _, acc, pt => by simp [Blks.fullOnto, hitP, outside]
  | .cons arr c r, sh, hwf, htl, acc, pt => by
    simp only [Blks.wfAll, Bool.and_eq_true] at hwf
    simp only [Blks.writable, Bool.and_eq_true] at htl
    obtain ⟨harr, _, _⟩ := (boxOK_iff _ _ _).1 hwf.1.2
    have ih := fullOnto_charP P r sh hwf.2 htl.2 (acc.paste arr c.fullSrc) pt
    simp only [Blks.fullOnto, hitP, outside]
    rw [show (r.fullOnto Src.leaf Src.fill (acc.paste arr (c.full Src.leaf Src.fill))) =
      (r.fullOnto Src.leaf Src.fill (acc.paste arr c.fullSrc)) from rfl, ih]
    have hp : (acc.paste arr c.fullSrc).get pt =
        if inBox arr pt then c.fullSrc.get (boxLo arr pt) else acc.get pt := rfl
    rw [hp]
    by_cases hin : inBox arr pt = true
    · have hout := disjoint_outside r sh arr hwf.2 harr htl.1.2 pt hin
      simp only [hin, if_true]
      constructor
      · rintro (h | ⟨_, h⟩)
        · exact Or.inl (Or.inr h)
        · exact Or.inl (Or.inl ⟨trivial, h⟩)
      · rintro ((⟨_, h⟩ | h) | ⟨⟨h, _⟩, _⟩)
        · exact Or.inr ⟨hout, h⟩
        · exact Or.inl h
        · simp at h
    · have hin' : inBox arr pt = false := by simpa using hin
      simp only [hin', Bool.false_eq_true, if_false, false_and, false_or, true_and]
  | .rcons arr rv c r, sh, hwf, htl, acc, pt => by
    simp only [Blks.wfAll, Bool.and_eq_true] at hwf
    simp only [Blks.writable, Bool.and_eq_true] at htl
    obtain ⟨harr, _, _⟩ := (boxOK_iff _ _ _).1 hwf.1.1.1.2
    have ih := fullOnto_charP P r sh hwf.2 htl.2 (acc.pasteR arr rv c.fullSrc) pt
    simp only [Blks.fullOnto, hitP, outside]
    rw [show (r.fullOnto Src.leaf Src.fill (acc.pasteR arr rv (c.full Src.leaf Src.fill))) =
      (r.fullOnto Src.leaf Src.fill (acc.pasteR arr rv c.fullSrc)) from rfl, ih]
    have hp : (acc.pasteR arr rv c.fullSrc).get pt =
        if inBox arr pt then c.fullSrc.get (boxLoR arr rv pt) else acc.get pt := rfl
    rw [hp]
    by_cases hin : inBox arr pt = true
    · have hout := disjoint_outside r sh arr hwf.2 harr htl.1.2 pt hin
      simp only [hin, if_true]
      constructor
      · rintro (h | ⟨_, h⟩)
        · exact Or.inl (Or.inr h)
        · exact Or.inl (Or.inl ⟨trivial, h⟩)
      · rintro ((⟨_, h⟩ | h) | ⟨⟨h, _⟩, _⟩)
        · exact Or.inr ⟨hout, h⟩
        · exact Or.inl h
        · simp at h
    · have hin' : inBox arr pt = false := by simpa using hin
      simp only [hin', Bool.false_eq_true, if_false, false_and, false_or, true_and]

/-! ### the general routing theorem -/

mutual
/-- **every part of a written pixel is stored where the full image reads that part from** - all writable trees,
    complex format functions included, every subscript the code serves -/
theorem write_routesG : ∀ (t : Seg), t.wf = true → t.writable = true → ∀ ts : List NSlice, NormalSub t.fshape ts →
    t.accepts ts = true →
    ∀ d : Arr α, d.shape = ts.map NSlice.count → d.Local → RoutesG t.fullSrc ts d (t.write ts d)
  | .leaf id s, _, _, ts, hts, _, d, hd, hdl => leaf_routesG id s ts hts d hd hdl
  | .fleaf _ _, _, htl, _, _, _, _, _, _ => by simp [Seg.writable] at htl
  | .lut1 _ _ _, _, htl, _, _, _, _, _, _ => by simp [Seg.writable] at htl
  | .lut2 _ _ _ _, _, htl, _, _, _, _, _, _ => by simp [Seg.writable] at htl
  | .orient rev perm p, h, htl, ts, hts, ha, d, hd, hdl => by
    simp only [Seg.wf, Bool.and_eq_true] at h
    simp only [Seg.writable] at htl
    simp only [Seg.accepts] at ha
    have hp := isPerm_ok h.1.2
    have ih := write_routesG p h.1.1 htl (rawSub p.fshape rev (invPerm perm) ts) (rawSub_normal rev hp hts) ha
      ((d.transpose (invPerm perm) perm).flip rev)
      (by show gather (invPerm perm) d.shape = _; rw [hd]; exact inv_data_shape rev hp hts)
      (inv_data_local rev hp hts d hd hdl)
    exact orient_routesG _ p.fshape rev perm ts hp (full_shape _ _ p h.1.1) (full_local _ _ p h.1.1) hts d hd hdl _ ih
  | .cplx ord rev perm bd p, h, htl, ts, hts, ha, d, hd, hdl => by
    simp only [Seg.wf, Bool.and_eq_true, decide_eq_true_eq] at h
    simp only [Seg.writable] at htl
    simp only [Seg.accepts] at ha
    obtain ⟨⟨⟨⟨hpwf, hperm⟩, _⟩, hbd⟩, h2⟩ := h
    have hp := isPerm_ok hperm
    have hbd' : bd < (gather perm p.fshape).length := by rw [gather_length, hp.len]; exact hbd
    obtain ⟨hts', hl⟩ := cplx_sub hbd' h2 hts
    have hbl : bd ≤ ts.length := by rw [gather_length, hp.len] at hl; omega
    have hus := unpair_shape ord bd d ts hd hbl
    have hul : (d.unpair ord bd).Local := unpair_local ord hdl (by rw [hd]; simpa using hbl)
    have ih := write_routesG p hpwf htl _ (rawSub_normal rev hp hts') ha
      (((d.unpair ord bd).transpose (invPerm perm) perm).flip rev)
      (by show gather (invPerm perm) (d.unpair ord bd).shape = _; rw [hus]; exact inv_data_shape rev hp hts')
      (inv_data_local rev hp hts' _ hus hul)
    have ho := orient_routesG _ p.fshape rev perm _ hp (full_shape _ _ p hpwf) (full_local _ _ p hpwf) hts' _ hus hul _ ih
    exact cplx_routesG _ ord bd ts hbl d _ ho
  | .cplxK ord rev perm bd p, h, htl, ts, hts, ha, d, hd, hdl => by
    simp only [Seg.wf, Bool.and_eq_true, decide_eq_true_eq] at h
    simp only [Seg.writable] at htl
    simp only [Seg.accepts, Bool.and_eq_true, decide_eq_true_eq] at ha
    obtain ⟨⟨⟨⟨hpwf, hperm⟩, _⟩, hbd⟩, heven⟩ := h
    obtain ⟨⟨hstep, hnorm⟩, hacc⟩ := ha
    have hp := isPerm_ok hperm
    have hbd' : bd < (gather perm p.fshape).length := by rw [gather_length, hp.len]; exact hbd
    have hts0 : NormalSub (halveAt bd (gather perm p.fshape)) ts := hts
    have htl' : ts.length = p.fshape.length := by
      have := ((normalSub_iff _ _).1 hts0).1
      rwa [halveAt_length, gather_length, hp.len] at this
    by_cases hr : perm.getD bd 0 ∈ rev
    · exact absurd hnorm (rawSubK_reversed_not_normal rev hp hbd hr hts0 hstep heven)
    · have heq := rawSubK_eq rev hp hbd hr ts htl'
      have hts' : NormalSub (gather perm p.fshape) (dblAt bd ts) := dblAt_normal hbd' hts0 hstep
      rw [heq] at hacc
      have hus := unpairK_shape ord bd d ts hd hstep
      have hul : (d.unpairK ord bd).Local := unpairK_local ord hdl (by rw [hd]; simp; omega)
      have ih := write_routesG p hpwf htl _ (rawSub_normal rev hp hts') hacc
        (((d.unpairK ord bd).transpose (invPerm perm) perm).flip rev)
        (by show gather (invPerm perm) (d.unpairK ord bd).shape = _; rw [hus]; exact inv_data_shape rev hp hts')
        (inv_data_local rev hp hts' _ hus hul)
      have ho := orient_routesG _ p.fshape rev perm _ hp (full_shape _ _ p hpwf) (full_local _ _ p hpwf) hts' _ hus hul _ ih
      have := kept_routesG _ ord bd ts (by omega) hstep d _ ho
      simp only [Seg.write, heq]
      exact this
  | .subset sq defs p, h, htl, ts, hts, ha, d, hd, hdl => by
    simp only [Seg.wf, Bool.and_eq_true] at h
    simp only [Seg.writable] at htl
    simp only [Seg.accepts] at ha
    have hdn : NormalSub p.fshape defs := h.1.2
    have ih := write_routesG p h.1.1 htl (composeSq p.fshape defs (keepAxes sq defs) ts) (subset_sub hdn hts).1 ha
      (d.unsqueeze (keepAxes sq defs) ((composeSq p.fshape defs (keepAxes sq defs) ts).map NSlice.count)) rfl
      (unsqueeze_local hdn hts d hd hdl)
    exact subset_routesG _ p.fshape sq defs ts (full_shape _ _ p h.1.1) (full_local _ _ p h.1.1) hdn hts d hd hdl _ ih
  | .subsetR sq rdefs rev perm p, h, htl, ts, hts, ha, d, hd, hdl => by
    simp only [Seg.wf, Bool.and_eq_true] at h
    simp only [Seg.writable] at htl
    simp only [Seg.accepts] at ha
    obtain ⟨⟨⟨hpwf, hperm⟩, _⟩, hrn⟩ := h
    have hp := isPerm_ok hperm
    have hdn : NormalSub (gather perm p.fshape) (fmtSub p.fshape rev perm rdefs) := fmtSub_normal rev hp hrn
    have hpts := (subset_sub hdn hts).1
    have hul := unsqueeze_local hdn hts d hd hdl
    have ih := write_routesG p hpwf htl _ (rawSub_normal rev hp hpts) ha
      (((d.unsqueeze (keepAxes sq (fmtSub p.fshape rev perm rdefs))
          ((composeSq (gather perm p.fshape) (fmtSub p.fshape rev perm rdefs)
            (keepAxes sq (fmtSub p.fshape rev perm rdefs)) ts).map NSlice.count)).transpose (invPerm perm) perm).flip rev)
      (by show gather (invPerm perm) _ = _; exact inv_data_shape rev hp hpts)
      (inv_data_local rev hp hpts _ rfl hul)
    have ho := orient_routesG _ p.fshape rev perm _ hp (full_shape _ _ p hpwf) (full_local _ _ p hpwf) hpts _ rfl hul _ ih
    have hOs : (((p.full Src.leaf Src.fill).flip rev).transpose perm (invPerm perm)).shape = gather perm p.fshape := by
      show gather perm (p.full Src.leaf Src.fill).shape = _
      rw [full_shape _ _ p hpwf]
    exact subset_routesG _ (gather perm p.fshape) sq _ ts hOs
      (orient_local rev hp (full_shape _ _ p hpwf) (full_local _ _ p hpwf)) hdn hts d hd hdl _ ho
  | .bands bd cs, h, htl, ts, hts, ha, d, hd, hdl => by
    simp only [Seg.wf, Bool.and_eq_true, decide_eq_true_eq] at h
    simp only [Seg.writable] at htl
    simp only [Seg.accepts, List.all_eq_true] at ha
    obtain ⟨⟨hwf, hbd⟩, _⟩ := h
    exact bands_routesG (fun n dd => cs.writeNth n (delAt bd ts) dd) (fun n => cs.fullNth Src.leaf Src.fill n)
      cs.headShape bd cs.length hbd ts hts d hd hdl
      (fun x hx hn dd hds hdl' =>
        writeNth_routesG cs cs.headShape hwf htl x.toNat hn (delAt bd ts) (bands_sub hbd hts).1 (ha x hx) dd hds hdl')
  | .blocks s cs, h, htl, ts, hts, ha, d, hd, hdl => by
    simp only [Seg.wf] at h
    simp only [Seg.writable] at htl
    simp only [Seg.accepts] at ha
    intro id r v
    show (id, r, v) ∈ cs.writeOnto s ts d ↔ _
    rw [writeOnto_routesG cs s h htl ts hts ha d hd hdl id r v]
    have hc : ∀ (pt : Idx) (val : α), Stores ((Seg.blocks s cs).fullSrc.get pt) val id r v ↔
        hitP (fun src => Stores src val id r v) cs pt := by
      intro pt val
      have := fullOnto_charP (fun src => Stores src val id r v) cs s h htl (Arr.const s Src.fill) pt
      rw [show (Seg.blocks s cs).fullSrc = cs.fullOnto Src.leaf Src.fill (Arr.const s Src.fill) from rfl, this]
      simp [Arr.const, Stores]
    constructor
    · rintro ⟨idx, h1, h2⟩; exact ⟨idx, h1, (hc _ _).2 h2⟩
    · rintro ⟨idx, h1, h2⟩; exact ⟨idx, h1, (hc _ _).1 h2⟩
theorem writeNth_routesG : ∀ (cs : Segs) (sh : List Nat), cs.wfAll sh = true → cs.writable = true →
    ∀ n, n < cs.length → ∀ ts : List NSlice, NormalSub sh ts → cs.acceptsNth n ts = true →
    ∀ d : Arr α, d.shape = ts.map NSlice.count → d.Local →
    RoutesG (cs.fullNth Src.leaf Src.fill n) ts d (cs.writeNth n ts d)
  | .nil, _, _, _, n, hn, _, _, _, _, _, _ => by simp [Segs.length] at hn
  | .cons c r, sh, h, htl, n, hn, ts, hts, ha, d, hd, hdl => by
    simp only [Segs.wfAll, Bool.and_eq_true, decide_eq_true_eq] at h
    simp only [Segs.writable, Bool.and_eq_true] at htl
    cases n with
    | zero =>
      simp only [Segs.writeNth, Segs.fullNth]
      exact write_routesG c h.1.1 htl.1 ts (h.1.2 ▸ hts) ha d hd hdl
    | succ n =>
      simp only [Segs.writeNth, Segs.fullNth]
      exact writeNth_routesG r sh h.2 htl.2 n (by simpa [Segs.length] using hn) ts hts ha d hd hdl
theorem writeOnto_routesG : ∀ (cs : Blks) (sh : List Nat), cs.wfAll sh = true → cs.writable = true →
    ∀ ts : List NSlice, NormalSub sh ts → cs.acceptsOnto ts = true →
    ∀ d : Arr α, d.shape = ts.map NSlice.count → d.Local →
    ∀ (id : Nat) (r : List Int) (v : α), (id, r, v) ∈ cs.writeOnto sh ts d ↔
      ∃ idx : Idx, InR (ts.map NSlice.count) idx ∧ hitP (fun src => Stores src (d.get idx) id r v) cs (selIdx ts idx)
  | .nil, _, _, _, _, _, _, _, _, _, _, _, _ => by simp [Blks.writeOnto, hitP]
  | .cons arr c r, sh, h, htl, ts, hts, ha, d, hd, hdl, id, x, v => by
    simp only [Blks.wfAll, Bool.and_eq_true] at h
    simp only [Blks.writable, Bool.and_eq_true] at htl
    simp only [Blks.acceptsOnto, Bool.and_eq_true] at ha
    obtain ⟨⟨hcwf, hbox⟩, hrwf⟩ := h
    have ihr := writeOnto_routesG r sh hrwf htl.2 ts hts ha.2 d hd hdl id x v
    have hfirst : ∀ A0 : List (Nat × List Int × α),
        (match overlaps ts arr with
          | none => []
          | some (csub, dsub) => c.write csub (d.select dsub)) = A0 →
        ((id, x, v) ∈ A0 ↔
        ∃ idx : Idx, InR (ts.map NSlice.count) idx ∧ inBox arr (selIdx ts idx) = true ∧
          Stores (c.fullSrc.get (boxLo arr (selIdx ts idx))) (d.get idx) id x v) := by
      intro A0 hA
      cases ho : overlaps ts arr with
      | none =>
        rw [ho] at hA
        simp only at hA
        subst hA
        simp only [List.not_mem_nil, false_iff]
        rintro ⟨idx, hidx, hin, _⟩
        rw [block_none_inBox hbox hts ho idx hidx] at hin
        simp at hin
      | some cp =>
        obtain ⟨csub, psub⟩ := cp
        rw [ho] at hA
        simp only at hA
        subst hA
        obtain ⟨hcl, _, hax⟩ := block_axes hbox hts ho
        obtain ⟨_, hcshl, _⟩ := (boxOK_iff _ _ _).1 hbox
        have hcn : NormalSub c.fshape csub := by
          rw [normalSub_iff]
          refine ⟨by omega, fun i hi => ?_⟩
          obtain ⟨k0, k1, _, _, _, _, _, e6, _⟩ := hax i (by omega)
          exact e6
        have hca : c.accepts csub = true := by
          have := ha.1
          rw [ho] at this
          exact this
        obtain ⟨hds, hdl'⟩ := block_data hbox hts ho d hd hdl
        have ihc := write_routesG c hcwf htl.1.1 csub hcn hca (d.select psub) hds hdl'
        exact block_routesG c.fullSrc hbox hts ho (full_shape _ _ c hcwf) (full_local _ _ c hcwf) d hd hdl _ ihc id x v
    simp only [Blks.writeOnto, List.mem_append, hitP, overlapsW_eq sh ts arr c.fshape hts hbox, ihr]
    refine Iff.trans (or_congr (hfirst _ rfl) Iff.rfl) ?_
    constructor
    · rintro (⟨idx, h1, h2, h3⟩ | ⟨idx, h1, h2⟩)
      · exact ⟨idx, h1, Or.inl ⟨h2, h3⟩⟩
      · exact ⟨idx, h1, Or.inr h2⟩
    · rintro ⟨idx, h1, (⟨h2, h3⟩ | h2)⟩
      · exact Or.inl ⟨idx, h1, h2, h3⟩
      · exact Or.inr ⟨idx, h1, h2⟩
  | .rcons arr rv c r, sh, h, htl, ts, hts, ha, d, hd, hdl, id, x, v => by
    simp only [Blks.wfAll, Bool.and_eq_true, decide_eq_true_eq] at h
    simp only [Blks.writable, Bool.and_eq_true] at htl
    simp only [Blks.acceptsOnto, Bool.and_eq_true] at ha
    obtain ⟨⟨⟨⟨hcwf, hbox⟩, hrl⟩, _⟩, hrwf⟩ := h
    obtain ⟨hal, _, _⟩ := (boxOK_iff _ _ _).1 hbox
    have htl' := ((normalSub_iff _ _).1 hts).1
    have ihr := writeOnto_routesG r sh hrwf htl.2 ts hts ha.2 d hd hdl id x v
    have hfirst : ∀ A0 : List (Nat × List Int × α),
        (match overlapsR ts arr rv with
          | none => []
          | some (csub, dsub) => c.write csub (d.select dsub)) = A0 →
        ((id, x, v) ∈ A0 ↔
        ∃ idx : Idx, InR (ts.map NSlice.count) idx ∧ inBox arr (selIdx ts idx) = true ∧
          Stores (c.fullSrc.get (boxLoR arr rv (selIdx ts idx))) (d.get idx) id x v) := by
      intro A0 hA
      cases ho : overlapsR ts arr rv with
      | none =>
        rw [ho] at hA
        simp only at hA
        subst hA
        have hs0 := overlapsR_spec ts arr rv (by omega) (by omega)
        rw [ho] at hs0
        simp only [List.not_mem_nil, false_iff]
        rintro ⟨idx, hidx, hin, _⟩
        rw [block_none_inBox hbox hts hs0 idx hidx] at hin
        simp at hin
      | some cp =>
        obtain ⟨csub, psub⟩ := cp
        rw [ho] at hA
        simp only at hA
        subst hA
        obtain ⟨hcl, _, _, hax⟩ := block_axesR hbox hrl hts ho
        obtain ⟨_, hcshl, _⟩ := (boxOK_iff _ _ _).1 hbox
        have hcn : NormalSub c.fshape csub := by
          rw [normalSub_iff]
          refine ⟨by omega, fun i hi => ?_⟩
          obtain ⟨k0, k1, _, _, _, _, _, e6, _⟩ := hax i (by omega)
          exact e6
        have hca : c.accepts csub = true := by
          have := ha.1
          rw [ho] at this
          exact this
        obtain ⟨hds, hdl'⟩ := block_dataR hbox hrl hts ho d hd hdl
        have ihc := write_routesG c hcwf htl.1.1 csub hcn hca (d.select psub) hds hdl'
        rw [ihc id x v]
        exact block_routesRQ (fun s y => Stores s y id x v) c.fullSrc hbox hrl hts ho (full_shape _ _ c hcwf)
          (full_local _ _ c hcwf) d hd hdl
    simp only [Blks.writeOnto, List.mem_append, hitP, overlapsWR_eq sh ts arr rv c.fshape hts hbox hrl, ihr]
    refine Iff.trans (or_congr (hfirst _ rfl) Iff.rfl) ?_
    constructor
    · rintro (⟨idx, h1, h2, h3⟩ | ⟨idx, h1, h2⟩)
      · exact ⟨idx, h1, Or.inl ⟨h2, h3⟩⟩
      · exact ⟨idx, h1, Or.inr h2⟩
    · rintro ⟨idx, h1, (⟨h2, h3⟩ | h2)⟩
      · exact Or.inl ⟨idx, h1, h2, h3⟩
      · exact Or.inr ⟨idx, h1, h2⟩
end

/-- on trees without complex formats the general routing is the routing of `write_routes` -/
theorem routesG_plain {fl : Arr Src} {ts : List NSlice} {d : Arr α} {A : List (Nat × List Int × α)}
    (h : RoutesG fl ts d A) (hpl : ∀ pt, plain (fl.get pt)) : Routes fl ts d A := by
  intro id r v
  rw [h id r v]
  constructor
  · rintro ⟨idx, hidx, hst⟩
    refine ⟨idx, hidx, ?_⟩
    have := hpl (selIdx ts idx)
    cases hs : fl.get (selIdx ts idx) with
    | fill => rw [hs] at hst; exact absurd hst (by simp [Stores])
    | leaf i x => rw [hs] at hst; exact (stores_leaf _ _ _ _ _ _).1 hst
    | pair a b => rw [hs] at this; exact absurd this (by simp [plain])
    | polar a b => rw [hs] at this; exact absurd this (by simp [plain])
    | lut c a => rw [hs] at this; exact absurd this (by simp [plain])
  · rintro ⟨idx, hidx, hsrc, hv⟩
    refine ⟨idx, hidx, ?_⟩
    rw [hsrc]
    exact (stores_leaf _ _ _ _ _ _).2 ⟨rfl, hv⟩

end

/-! ### non-vacuity: a complex (QI, band dimension kept, second raw axis reversed, transposed) leaf - where the four parts of two
    written pixels go; and a magnitude / phase leaf with the band axis collapsed -/

example : (Seg.cplxK .QI [0] [1, 0] 0 (.leaf 0 [3, 4])).wf = true ∧
    (Seg.cplxK .QI [0] [1, 0] 0 (.leaf 0 [3, 4])).writable = true ∧
    (Seg.cplxK .QI [0] [1, 0] 0 (.leaf 0 [3, 4])).fshape = [2, 3] := by decide
example : (Seg.cplxK .QI [0] [1, 0] 0 (.leaf 0 [3, 4])).accepts [⟨1, some 2, 1⟩, ⟨2, none, -2⟩] = true ∧
    (Seg.cplxK .QI [0] [1, 0] 0 (.leaf 0 [3, 4])).write [⟨1, some 2, 1⟩, ⟨2, none, -2⟩]
        (idChunkW [⟨1, some 2, 1⟩, ⟨2, none, -2⟩]) =
      [(0, [2, 2], .part 1 (.elem [0, 1])), (0, [2, 3], .part 0 (.elem [0, 1])),
       (0, [0, 2], .part 1 (.elem [0, 0])), (0, [0, 3], .part 0 (.elem [0, 0]))] := by decide
/-- the band axis read with a stride, or reversed, is refused -/
example : (Seg.cplxK .QI [0] [1, 0] 0 (.leaf 0 [3, 4])).accepts [⟨0, some 2, 2⟩, ⟨0, some 3, 1⟩] = false ∧
    (Seg.cplxK .IQ [0] [1, 0] 1 (.leaf 0 [4, 3])).wf = true ∧
    (Seg.cplxK .IQ [0] [1, 0] 1 (.leaf 0 [4, 3])).accepts [⟨0, some 3, 1⟩, ⟨0, some 2, 1⟩] = false := by decide
example : (Seg.cplx .MP [] [0, 1] 1 (.leaf 0 [3, 2])).write [⟨2, none, -2⟩] (idChunkW [⟨2, none, -2⟩]) =
    [(0, [2, 0], .part 2 (.elem [0])), (0, [2, 1], .part 3 (.elem [0])),
     (0, [0, 0], .part 2 (.elem [1])), (0, [0, 1], .part 3 (.elem [1]))] ∧
    ((Seg.cplx .MP [] [0, 1] 1 (.leaf 0 [3, 2])).readSrc [⟨2, none, -2⟩]).toList =
      [.polar (.leaf 0 [2, 0]) (.leaf 0 [2, 1]), .polar (.leaf 0 [0, 0]) (.leaf 0 [0, 1])] := by decide

/-- a chunk written across a forward and a backward block of a mosaic: the backward block receives it mirrored -/
example : exRev.wf = true ∧ exRev.tiled = true ∧ exRev.writable = true ∧
    exRev.write [⟨1, some 2, 1⟩, ⟨5, none, -2⟩] (idChunkW [⟨1, some 2, 1⟩, ⟨5, none, -2⟩]) =
      [(0, [1, 1], .elem [0, 2]), (1, [1, 0], .elem [0, 0]), (1, [1, 2], .elem [0, 1])] := by decide

end Sarpy.Props.C07Seg
