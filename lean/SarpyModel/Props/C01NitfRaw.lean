/-
  C01Nitf, part 3: the raw data of one image segment, pointwise: `rawBPR_get` (IMODE B / P / R) and `rawS_get` (IMODE S) -
  the sample at raw index `pt` is `pixelSrc`, the sample MIL-STD-2500C stores for that band / row / column.
-/
import SarpyModel.Props.C01NitfGrid
import Mathlib.Tactic.Ring

namespace Sarpy.Props.C01.Nitf
open Sarpy Sarpy.Spec Sarpy.Spec.NitfAssembly Sarpy.Props.C01Seg

/-- side conditions on the file under which the specification is stated:
    * no block of an UNMASKED image starts at byte offset 0xFFFFFFFF (the reader compares every block offset with the "not recorded"
      mark even when there is no mask table, so such a block would be dropped);
    * a mask subheader has a non-zero length (IMDATOFF ≥ 10 in every file). -/
structure Valid (h : ImageHeaderFields) : Prop where
  noSentinel : h.mask = none → ∀ m, m < h.nbpc * h.nbpr * h.nbands → m * blockSize h ≠ Layout.absentMark
  maskLen : ∀ m, h.mask = some m → 0 < m.imdatoff

theorem leafIdx_eq (h : ImageHeaderFields) (hS : h.imode ≠ .S) (b iy ix : Nat) :
    leafIdx h b iy ix = idxList h.nbands (rawBandDim h.imode) (b : Int) (iy : Int) (ix : Int) := by
  unfold leafIdx idxList
  by_cases h1 : h.nbands = 1
  · simp [h1]
  · cases hm : h.imode <;> simp_all [rawBandDim]

theorem leafIdx_S (h : ImageHeaderFields) (hS : h.imode = .S) (b iy ix : Nat) :
    leafIdx h b iy ix = [(iy : Int), (ix : Int)] := by
  unfold leafIdx
  by_cases h1 : h.nbands = 1 <;> simp [h1, hS]

theorem blockOffset_nonS (h : ImageHeaderFields) (hS : h.imode ≠ .S) (b k : Nat) :
    blockOffset h b k =
      match h.mask with
      | none => some (k * blockSize h)
      | some m =>
        if (m.table.getD 0 []).getD k Layout.absentMark = Layout.absentMark then none
        else some ((m.table.getD 0 []).getD k Layout.absentMark) := by
  unfold blockOffset
  cases hi : h.imode with
  | S => exact absurd hi hS
  | B => cases h.mask <;> rfl
  | P => cases h.mask <;> rfl
  | R => cases h.mask <;> rfl

/-- the offsets `_handle_no_compression` walks through are the offsets of the specification -/
theorem flat_lookup (h : ImageHeaderFields) (hS : h.imode ≠ .S) (hv : Valid h) (hb : h.nbands ≠ 0) (offs : List Nat)
    (hoffs : flatOffsets h (bounds h).length = .ok offs) (hlen : (bounds h).length = offs.length) (b k : Nat)
    (hk : k < h.nbpc * h.nbpr) :
    match blockOffset h b k with
    | none => offs[k]? = some Layout.absentMark
    | some v => offs[k]? = some v ∧ v ≠ Layout.absentMark := by
  rw [bounds_length] at hoffs hlen
  unfold flatOffsets at hoffs
  rw [blockOffset_nonS h hS]
  cases hm : h.mask with
  | none =>
    simp only [hm, Except.ok.injEq] at hoffs
    have hne : k * blockSize h ≠ Layout.absentMark := by
      apply hv.noSentinel hm
      have : 0 < h.nbands := Nat.pos_of_ne_zero hb
      calc k < h.nbpc * h.nbpr := hk
        _ = h.nbpc * h.nbpr * 1 := (Nat.mul_one _).symm
        _ ≤ h.nbpc * h.nbpr * h.nbands := Nat.mul_le_mul_left _ this
    have hget : offs[k]? = some (k * blockSize h) := by
      rw [← hoffs, List.getElem?_map, List.getElem?_range hk]; rfl
    exact ⟨hget, hne⟩
  | some m =>
    simp only [hm] at hoffs
    have hrow : m.table = [offs] := by
      cases ht : m.table with
      | nil => simp [ht] at hoffs
      | cons r rest =>
        cases rest with
        | nil => simp only [ht, Except.ok.injEq] at hoffs; rw [hoffs]
        | cons _ _ => simp [ht] at hoffs
    have hget : offs[k]? = some (offs.getD k Layout.absentMark) := by
      rw [List.getD_eq_getElem?_getD, List.getElem?_eq_getElem (by omega)]; rfl
    have hr : m.table.getD 0 [] = offs := by simp [hrow]
    simp only []
    rw [hr]
    by_cases hab : offs.getD k Layout.absentMark = Layout.absentMark
    · rw [if_pos hab]; rw [hget, hab]
    · rw [if_neg hab]; exact ⟨hget, hab⟩

theorem map_range_idx (bands bd : Nat) (pt : Idx) :
    (List.range (rankOf bands)).map pt = idxList bands bd (pt (axB bands bd)) (pt (axY bands bd)) (pt (axX bands bd)) := by
  rcases lay_cases bands bd with h | ⟨h, h'⟩ | ⟨h, h'⟩ | ⟨h, h', h''⟩ <;>
    simp [rankOf, idxList, axY, axX, axB, List.range_succ, *]

theorem idxList_congr (bands bd : Nat) (b b' iy ix : Int) (hb : bands ≠ 1 → b = b') :
    idxList bands bd b iy ix = idxList bands bd b' iy ix := by
  unfold idxList
  by_cases h1 : bands = 1
  · simp [h1]
  · rw [hb h1]

/-- **raw data of an IMODE B / P / R image segment**: the sample at the raw index of (band b, row y, column x) is the sample the
    standard stores for it - block (y / NPPBV, x / NPPBH) at its recorded offset, position inside the block by IMODE; the fill value
    when the block is masked out -/
theorem rawBPR_get (h : ImageHeaderFields) (hg : gridOK h = true) (hb : h.nbands ≠ 0) (hS : h.imode ≠ .S) (hv : Valid h)
    (mm : Bool) (offs : List Nat) (hoffs : flatOffsets h (bounds h).length = .ok offs) (hlen : (bounds h).length = offs.length)
    (pt : Idx) (hin : InImage h h.nbands (rawBandDim h.imode) pt) (b : Nat)
    (hbb : h.nbands ≠ 1 → pt (axB h.nbands (rawBandDim h.imode)) = (b : Int)) :
    (rawBPR h mm offs).fullSrc.get pt =
      pixelSrc h (pt (axY h.nbands (rawBandDim h.imode))).toNat (pt (axX h.nbands (rawBandDim h.imode))).toNat b := by
  have hg' := hg
  simp only [gridOK, decide_eq_true_eq] at hg'
  have ey := Int.toNat_of_nonneg hin.y0
  have ex := Int.toNat_of_nonneg hin.x0
  have hy : (pt (axY h.nbands (rawBandDim h.imode))).toNat < h.nrows := by have := hin.y1; omega
  have hx : (pt (axX h.nbands (rawBandDim h.imode))).toNat < h.ncols := by have := hin.x1; omega
  obtain ⟨hrb, _, _, _⟩ := block_of_pixel (blockH_pos hg) hy hg'.2.2.1
  obtain ⟨hcb, _, _, _⟩ := block_of_pixel (blockW_pos hg) hx hg'.1
  obtain ⟨hklt, _, _⟩ := grid_index hrb hcb
  have hlook := flat_lookup h hS hv hb offs hoffs hlen b _ hklt
  unfold pixelSrc
  simp only []
  unfold rawBPR
  simp only []
  split
  · -- a single block without pad pixels, no mask subheader: one stored array at the start of the image data
    rename_i hsingle
    obtain ⟨h1, haddl, hbh, hbw⟩ := hsingle
    rw [bounds_length] at h1
    have hy0 : (pt (axY h.nbands (rawBandDim h.imode))).toNat / blockH h = 0 := Nat.div_eq_of_lt (by omega)
    have hx0 : (pt (axX h.nbands (rawBandDim h.imode))).toNat / blockW h = 0 := Nat.div_eq_of_lt (by omega)
    have hym : (pt (axY h.nbands (rawBandDim h.imode))).toNat % blockH h = (pt (axY h.nbands (rawBandDim h.imode))).toNat :=
      Nat.mod_eq_of_lt (by omega)
    have hxm : (pt (axX h.nbands (rawBandDim h.imode))).toNat % blockW h = (pt (axX h.nbands (rawBandDim h.imode))).toNat :=
      Nat.mod_eq_of_lt (by omega)
    have hmask : h.mask = none := by
      cases hm : h.mask with
      | none => rfl
      | some m => have := hv.maskLen m hm; simp [addlOffset, hm] at haddl; omega
    have hbo : blockOffset h b 0 = some 0 := by
      rw [blockOffset_nonS h hS, hmask]; simp
    rw [hy0, hx0, Nat.zero_mul, Nat.add_zero, hbo]
    simp only []
    rw [hym, hxm, leafIdx_eq h hS, haddl]
    have : (mkLeaf mm h.offset (getShape h.nrows h.ncols h.nbands (rawBandDim h.imode))).fullSrc.get pt =
        Src.leaf h.offset ((List.range (getShape h.nrows h.ncols h.nbands (rawBandDim h.imode)).length).map pt) := by
      cases mm <;> rfl
    rw [this, getShape_length, map_range_idx h.nbands (rawBandDim h.imode) pt, ey, ex]
    simp only [Nat.add_zero]
    exact congrArg _ (idxList_congr _ _ _ _ _ _ hbb)
  · -- the mosaic of the recorded blocks
    show ((mkBlks (blockList h mm h.nbands (rawBandDim h.imode) (bounds h) offs)).fullOnto Src.leaf Src.fill
      (Arr.const _ Src.fill)).get pt = _
    have hk : blockNo h h.nbands (rawBandDim h.imode) pt =
      (pt (axY h.nbands (rawBandDim h.imode))).toNat / blockH h * h.nbpr + (pt (axX h.nbands (rawBandDim h.imode))).toNat / blockW h := rfl
    rw [← hk] at hlook ⊢
    cases hbo : blockOffset h b (blockNo h h.nbands (rawBandDim h.imode) pt) with
    | none =>
      rw [hbo] at hlook
      simp only [] at hlook ⊢
      rw [grid_miss Src.leaf Src.fill h hg mm _ _ offs _ pt hin (Or.inl hlook)]
      rfl
    | some v =>
      rw [hbo] at hlook
      simp only [] at hlook ⊢
      rw [grid_hit Src.leaf Src.fill h hg mm _ _ offs _ pt hin v hlook.1 hlook.2, leafIdx_eq h hS]
      exact congrArg _ (idxList_congr _ _ _ _ _ _ hbb)

/-! ### IMODE S: band sequential -/

theorem band_lookup (h : ImageHeaderFields) (hS : h.imode = .S) (hv : Valid h) (table : List (List Nat))
    (htab : bandOffsets h (bounds h).length = .ok table) (b k : Nat) (hb : b < h.nbands) (hk : k < h.nbpc * h.nbpr) :
    ∃ row, table[b]? = some row ∧
      match blockOffset h b k with
      | none => row[k]? = some Layout.absentMark
      | some v => row[k]? = some v ∧ v ≠ Layout.absentMark := by
  rw [bounds_length] at htab
  unfold bandOffsets at htab
  unfold blockOffset
  cases hm : h.mask with
  | none =>
    simp only [hm, Except.ok.injEq] at htab
    refine ⟨(List.range (h.nbpc * h.nbpr)).map (fun k => b * (blockSize h * (h.nbpc * h.nbpr)) + k * blockSize h), ?_, ?_⟩
    · rw [← htab, List.getElem?_map, List.getElem?_range hb]; rfl
    · simp only [hS]
      refine ⟨by rw [List.getElem?_map, List.getElem?_range hk]; rfl, ?_⟩
      have e : b * (blockSize h * (h.nbpc * h.nbpr)) + k * blockSize h = (b * (h.nbpc * h.nbpr) + k) * blockSize h := by ring
      rw [e]
      apply hv.noSentinel hm
      have : (b + 1) * (h.nbpc * h.nbpr) ≤ h.nbands * (h.nbpc * h.nbpr) := Nat.mul_le_mul_right _ hb
      rw [Nat.add_mul, Nat.one_mul] at this
      rw [Nat.mul_comm (h.nbpc * h.nbpr) h.nbands]
      omega
  | some m =>
    simp only [hm] at htab
    split at htab
    · rename_i hc
      simp only [Except.ok.injEq] at htab
      subst htab
      obtain ⟨hl, hall⟩ := hc
      have hbl : b < m.table.length := by omega
      refine ⟨m.table[b], List.getElem?_eq_getElem hbl, ?_⟩
      have hrl : (m.table[b]).length = h.nbpc * h.nbpr := by
        have := List.all_eq_true.1 hall _ (List.getElem_mem hbl)
        simpa using this
      simp only [hS]
      have hgd : m.table.getD b [] = m.table[b] := by simp [List.getD_eq_getElem?_getD, hbl]
      rw [hgd]
      have hget : (m.table[b])[k]? = some ((m.table[b]).getD k Layout.absentMark) := by
        rw [List.getD_eq_getElem?_getD, List.getElem?_eq_getElem (by omega)]; rfl
      by_cases hab : (m.table[b]).getD k Layout.absentMark = Layout.absentMark
      · rw [if_pos hab]; rw [hget, hab]
      · rw [if_neg hab]; exact ⟨hget, hab⟩
    · cases htab

/-- **raw data of an IMODE S image segment**: band `b` of the stack at (row y, column x) is the sample of band `b`'s own block
    (y / NPPBV, x / NPPBH) at the offset the band-sequential order / the per-band mask table gives -/
theorem rawS_get (h : ImageHeaderFields) (hg : gridOK h = true) (hS : h.imode = .S) (hv : Valid h) (mm : Bool)
    (table : List (List Nat)) (htab : bandOffsets h (bounds h).length = .ok table)
    (pt : Idx) (hy0 : 0 ≤ pt 0) (hy1 : pt 0 < (h.nrows : Int)) (hx0 : 0 ≤ pt 1) (hx1 : pt 1 < (h.ncols : Int))
    (b : Nat) (hb : pt 2 = (b : Int)) (hblt : b < h.nbands) :
    (rawS h mm table).fullSrc.get pt = pixelSrc h (pt 0).toNat (pt 1).toNat b := by
  have hg' := hg
  simp only [gridOK, decide_eq_true_eq] at hg'
  have hy : (pt 0).toNat < h.nrows := by omega
  have hx : (pt 1).toNat < h.ncols := by omega
  obtain ⟨hrb, _, _, _⟩ := block_of_pixel (blockH_pos hg) hy hg'.2.2.1
  obtain ⟨hcb, _, _, _⟩ := block_of_pixel (blockW_pos hg) hx hg'.1
  obtain ⟨hklt, _, _⟩ := grid_index hrb hcb
  obtain ⟨row, hrow, hlook⟩ := band_lookup h hS hv table htab b _ hblt hklt
  have hbl : b < table.length := by
    rcases Nat.lt_or_ge b table.length with hlt | hge
    · exact hlt
    · rw [List.getElem?_eq_none hge] at hrow; cases hrow
  have hrow' : table[b] = row := by rw [List.getElem?_eq_getElem hbl] at hrow; exact Option.some.inj hrow
  -- the band aggregate picks band (pt 2) and drops that axis
  have hstep1 : (rawS h mm table).fullSrc.get pt =
      ((mkSegs (table.map (bandSeg h mm))).fullNth Src.leaf Src.fill (pt 2).toNat).get (dropAx 2 pt) := rfl
  have hb' : (pt 2).toNat = b := by omega
  rw [hstep1, hb', fullNth_mkSegs Src.leaf Src.fill _ b (by simpa using hbl), List.getElem_map, hrow']
  -- the band's own mosaic, no orientation
  have e0 : (invPerm [0, 1]).getD 0 0 = 0 := by decide
  have e1 : (invPerm [0, 1]).getD 1 0 = 1 := by decide
  let pt' : Idx := fun i => dropAx 2 pt ((invPerm [0, 1]).getD i 0)
  have hstep2 : ((bandSeg h mm row).full Src.leaf Src.fill).get (dropAx 2 pt) =
      ((mkBlks (blockList h mm 1 2 (bounds h) row)).fullOnto Src.leaf Src.fill (Arr.const [h.nrows, h.ncols] Src.fill)).get pt' := rfl
  have hp0 : pt' 0 = pt 0 := by show dropAx 2 pt ((invPerm [0, 1]).getD 0 0) = pt 0; rw [e0]; rfl
  have hp1 : pt' 1 = pt 1 := by show dropAx 2 pt ((invPerm [0, 1]).getD 1 0) = pt 1; rw [e1]; rfl
  have hin : InImage h 1 2 pt' := by
    constructor
    · show 0 ≤ pt' 0; rw [hp0]; exact hy0
    · show pt' 0 < _; rw [hp0]; exact hy1
    · show 0 ≤ pt' 1; rw [hp1]; exact hx0
    · show pt' 1 < _; rw [hp1]; exact hx1
    · exact Or.inl rfl
  have hk : blockNo h 1 2 pt' = (pt 0).toNat / blockH h * h.nbpr + (pt 1).toNat / blockW h := by
    show (pt' 0).toNat / blockH h * h.nbpr + (pt' 1).toNat / blockW h = _
    rw [hp0, hp1]
  rw [hstep2]
  unfold pixelSrc
  simp only []
  rw [← hk] at hlook ⊢
  cases hbo : blockOffset h b (blockNo h 1 2 pt') with
  | none =>
    rw [hbo] at hlook
    simp only [] at hlook ⊢
    rw [grid_miss Src.leaf Src.fill h hg mm 1 2 row _ pt' hin (Or.inl hlook)]
    rfl
  | some v =>
    rw [hbo] at hlook
    simp only [] at hlook ⊢
    rw [grid_hit Src.leaf Src.fill h hg mm 1 2 row _ pt' hin v hlook.1 hlook.2, leafIdx_S h hS]
    show Src.leaf _ (idxList 1 2 _ ((pt' 0).toNat % blockH h : Nat) ((pt' 1).toNat % blockW h : Nat)) = _
    rw [hp0, hp1]
    rfl

end Sarpy.Props.C01.Nitf
