/-
  C16 — metadata polynomials evaluate, differentiate and re-centre as polynomials do.

  All theorems are over an arbitrary commutative ring `R` (so in particular over ℝ and ℚ) and
  over coefficient lists of any length.  `eval` is numpy's Horner evaluation, `shift0`/`pass`
  are the in-place triangular update of `Poly1DType.shift`, transcribed sweep by sweep.
  The convention the code implements (and every caller relies on) is
      eval (shift t0 α p) t = eval p (α·t − t0).
-/
import SarpyModel.Spec.Poly
import Mathlib.Algebra.Polynomial.Derivative
import Mathlib.Algebra.Polynomial.Eval.Defs
import Mathlib.Tactic.Ring
import Mathlib.Tactic.LinearCombination

namespace Sarpy.Props.C16
open Sarpy.Spec.Poly Polynomial

variable {R : Type} [CommRing R]

@[simp] theorem eval_nil (x : R) : eval ([] : List R) x = 0 := rfl
@[simp] theorem eval_cons (c : R) (l : List R) (x : R) : eval (c :: l) x = c + x * eval l x := rfl

/-- one sweep subtracts `t0 ×` the polynomial shifted down by one degree -/
theorem eval_pass (t0 : R) (l : List R) (t : R) : eval (pass t0 l) t = eval l t - t0 * eval l.tail t := by
  induction l with
  | nil => simp [pass]
  | cons a l ih =>
    cases l with
    | nil => simp [pass]
    | cons b rest =>
      simp only [pass, eval_cons, List.tail_cons] at ih ⊢
      rw [ih]; ring

/-- **re-centring**: the triangular in-place update computes `p(t − t0)` -/
theorem eval_shift0 (t0 : R) (p : List R) (t : R) : eval (shift0 t0 p) t = eval p (t - t0) := by
  induction p with
  | nil => simp [shift0]
  | cons a rest ih =>
    simp only [shift0, eval_pass, eval_cons, List.tail_cons, ih]
    ring

theorem eval_scaleAux (a pw : R) (l : List R) (t : R) : eval (scaleAux a pw l) t = pw * eval l (a * t) := by
  induction l generalizing pw with
  | nil => simp [scaleAux]
  | cons c l ih => simp only [scaleAux, eval_cons, ih]; ring

/-- **re-scaling** -/
theorem eval_scale (a : R) (p : List R) (t : R) : eval (scale a p) t = eval p (a * t) := by
  simp [scale, eval_scaleAux]

theorem shift0_length (t0 : R) (p : List R) : (shift0 t0 p).length = p.length := by
  have hp : ∀ l : List R, (pass t0 l).length = l.length := by
    intro l
    induction l with
    | nil => rfl
    | cons a l ih => cases l with
      | nil => rfl
      | cons b rest => simp only [pass, List.length_cons] at ih ⊢; omega
  induction p with
  | nil => rfl
  | cons a rest ih => simp [shift0, hp, ih]

/-- **shift then evaluate = evaluate at the transformed argument**, including the code's fast paths
    (`t0 = 0`, `α = 1`, a single coefficient), for every coefficient list -/
theorem eval_short (p : List R) (h : p.length ≤ 1) (x y : R) : eval p x = eval p y := by
  match p, h with
  | [], _ => rfl
  | [c], _ => simp

theorem eval_shift [DecidableEq R] (t0 a : R) (p : List R) (t : R) :
    eval (shift t0 a p) t = eval p (a * t - t0) := by
  unfold shift
  simp only
  have hlen : (if t0 ≠ 0 ∧ p.length > 1 then shift0 t0 p else p).length = p.length := by
    split
    · exact shift0_length t0 p
    · rfl
  have h1 : ∀ x : R, eval (if t0 ≠ 0 ∧ p.length > 1 then shift0 t0 p else p) x = eval p (x - t0) := by
    intro x
    by_cases h : t0 ≠ 0 ∧ p.length > 1
    · rw [if_pos h]; exact eval_shift0 t0 p x
    · rw [if_neg h]
      by_cases ht : t0 = 0
      · subst ht; simp
      · exact eval_short p (by by_contra hc; exact h ⟨ht, by omega⟩) _ _
  generalize (if t0 ≠ 0 ∧ p.length > 1 then shift0 t0 p else p) = out at hlen h1
  by_cases h : a ≠ 1 ∧ out.length > 1
  · rw [if_pos h, eval_scale, h1]
  · rw [if_neg h, h1]
    by_cases ha : a = 1
    · subst ha; simp
    · exact eval_short p (by by_contra hc; exact h ⟨ha, by omega⟩) _ _

/-! ### link to Mathlib polynomials: values and derivatives of every order -/

noncomputable def toPoly : List R → R[X]
  | [] => 0
  | c :: l => C c + X * toPoly l

theorem eval_eq (p : List R) (x : R) : eval p x = (toPoly p).eval x := by
  induction p with
  | nil => simp [toPoly]
  | cons c l ih => simp [toPoly, ih]

theorem toPoly_derAux (k : Nat) (l : List R) :
    toPoly (derAux k l) = (k : R[X]) * toPoly l + X * derivative (toPoly l) := by
  induction l generalizing k with
  | nil => simp [derAux, toPoly]
  | cons c l ih =>
    simp only [derAux, toPoly, ih, derivative_add, derivative_C, derivative_mul, derivative_X, map_mul, map_natCast]
    push_cast
    ring

/-- the derivative coefficient array is the analytic derivative -/
theorem toPoly_der (p : List R) : toPoly (der p) = derivative (toPoly p) := by
  cases p with
  | nil => simp [der, derAux, toPoly]
  | cons c l =>
    simp only [der, List.tail_cons, toPoly_derAux, toPoly, derivative_add, derivative_C, derivative_mul, derivative_X]
    push_cast
    ring

/-- derivative objects and derivative evaluations of every order -/
theorem eval_derN (n : Nat) (p : List R) (x : R) :
    eval (derN n p) x = ((derivative^[n]) (toPoly p)).eval x := by
  induction n generalizing p with
  | zero => simp [derN, eval_eq]
  | succ n ih => simp only [derN, ih, toPoly_der, Function.iterate_succ, Function.comp_apply]

/-! ### order minimisation never changes the value -/

theorem eval_dropTrailingZeros [DecidableEq R] (p : List R) (x : R) : eval (dropTrailingZeros p) x = eval p x := by
  induction p with
  | nil => rfl
  | cons c l ih =>
    simp only [dropTrailingZeros]
    split
    · rename_i h
      rw [eval_cons, ← ih, h.1, h.2]; simp
    · rw [eval_cons, eval_cons, ih]

theorem eval_minimize [DecidableEq R] (p : List R) (x : R) : eval (minimize p) x = eval p x := by
  unfold minimize
  simp only
  split
  · rename_i h
    rw [← eval_dropTrailingZeros p x, h]; simp
  · exact eval_dropTrailingZeros p x

theorem minimize_nonempty [DecidableEq R] (p : List R) : minimize p ≠ [] := by
  unfold minimize; simp only; split <;> simp_all

/-! ### two variables -/

theorem eval_rowSubScaled (t0 : R) (a b : List R) (h : a.length = b.length) (y : R) :
    eval (rowSubScaled t0 a b) y = eval a y - t0 * eval b y := by
  induction a generalizing b with
  | nil => cases b <;> simp_all [rowSubScaled]
  | cons u a ih =>
    cases b with
    | nil => simp at h
    | cons v b =>
      simp only [rowSubScaled, List.zipWith_cons_cons, eval_cons] at ih ⊢
      rw [ih b (by simpa using h)]; ring

/-- all rows have the same number of coefficients -/
def Rect (p : List (List R)) : Prop := ∀ r ∈ p, ∀ r' ∈ p, r.length = r'.length

theorem rowSubScaled_length (t0 : R) (a b : List R) (h : a.length = b.length) :
    (rowSubScaled t0 a b).length = a.length := by simp [rowSubScaled, h]

theorem pass2_spec (t0 : R) (p : List (List R)) (n : Nat) (h : ∀ r ∈ p, r.length = n) (y : R) :
    (∀ r ∈ pass2 t0 p, r.length = n) ∧
    (pass2 t0 p).map (fun row => eval row y) = pass t0 (p.map (fun row => eval row y)) := by
  induction p with
  | nil => simp [pass2, pass]
  | cons a l ih =>
    cases l with
    | nil => simpa [pass2, pass] using h
    | cons b rest =>
      have ha := h a (by simp)
      have hb := h b (by simp)
      obtain ⟨ih1, ih2⟩ := ih (fun r hr => h r (by simp [hr]))
      constructor
      · intro r hr
        simp only [pass2, List.mem_cons] at hr
        rcases hr with rfl | hr
        · rw [rowSubScaled_length _ _ _ (by rw [ha, hb]), ha]
        · exact ih1 r (by simpa [pass2] using hr)
      · simp only [pass2, List.map_cons, pass]
        rw [eval_rowSubScaled _ _ _ (by rw [ha, hb])]
        simp only [List.map_cons] at ih2
        rw [ih2]

theorem shift02_spec (t0 : R) (p : List (List R)) (n : Nat) (h : ∀ r ∈ p, r.length = n) (y : R) :
    (∀ r ∈ shift02 t0 p, r.length = n) ∧
    (shift02 t0 p).map (fun row => eval row y) = shift0 t0 (p.map (fun row => eval row y)) := by
  induction p with
  | nil => simp [shift02, shift0]
  | cons a rest ih =>
    obtain ⟨ih1, ih2⟩ := ih (fun r hr => h r (by simp [hr]))
    have hall : ∀ r ∈ a :: shift02 t0 rest, r.length = n := by
      intro r hr
      rcases List.mem_cons.1 hr with rfl | hr
      · exact h _ (by simp)
      · exact ih1 r hr
    obtain ⟨p1, p2⟩ := pass2_spec t0 (a :: shift02 t0 rest) n hall y
    refine ⟨by simpa [shift02] using p1, ?_⟩
    simp only [shift02, shift0, List.map_cons] at p2 ⊢
    rw [p2, ih2]

/-- re-centring the first variable of a rectangular two-variable polynomial -/
theorem eval2_shift02 (t0 : R) (p : List (List R)) (n : Nat) (h : ∀ r ∈ p, r.length = n) (x y : R) :
    eval2 (shift02 t0 p) x y = eval2 p (x - t0) y := by
  unfold eval2
  rw [(shift02_spec t0 p n h y).2, eval_shift0]

theorem eval2_scaleRowsAux (a pw : R) (p : List (List R)) (x y : R) :
    eval2 (scaleRowsAux a pw p) x y = pw * eval2 p (a * x) y := by
  unfold eval2
  induction p generalizing pw with
  | nil => simp [scaleRowsAux]
  | cons row l ih =>
    have hrow : eval (row.map (fun c => pw * c)) y = pw * eval row y := by
      induction row with
      | nil => simp
      | cons c r ihr => simp only [List.map_cons, eval_cons, ihr]; ring
    simp only [scaleRowsAux, List.map_cons, eval_cons, hrow, ih]
    ring

/-- re-centring / re-scaling the second variable acts row by row -/
theorem eval2_map_rows (f : List R → List R) (g : R → R) (hf : ∀ row y, eval (f row) y = eval row (g y))
    (p : List (List R)) (x y : R) : eval2 (p.map f) x y = eval2 p x (g y) := by
  unfold eval2
  simp only [List.map_map, Function.comp_def, hf]

/-! ### trimming a two-variable coefficient array (`Poly2DType.minimize_order`) -/

theorem eval_zero_of_dropTrailingZeros_nil [DecidableEq R] (r : List R) (h : dropTrailingZeros r = []) (y : R) :
    eval r y = 0 := by
  rw [← eval_dropTrailingZeros r y, h]; rfl

theorem eval_take [DecidableEq R] (r : List R) (n : Nat) (h : (dropTrailingZeros r).length ≤ n) (y : R) :
    eval (r.take n) y = eval r y := by
  induction r generalizing n with
  | nil => simp
  | cons c l ih =>
    cases n with
    | zero =>
      have h0 : dropTrailingZeros (c :: l) = [] := List.eq_nil_of_length_eq_zero (Nat.le_zero.mp h)
      simp [eval_zero_of_dropTrailingZeros_nil _ h0]
    | succ n =>
      have hl : (dropTrailingZeros l).length ≤ n := by
        simp only [dropTrailingZeros] at h
        split at h
        · rename_i hz; simp [hz.1]
        · simpa using h
      simp only [List.take_succ_cons, eval_cons, ih n hl]

theorem eval2_dropTrailingZeroRows [DecidableEq R] (p : List (List R)) (x y : R) :
    eval2 (dropTrailingZeroRows p) x y = eval2 p x y := by
  unfold eval2
  induction p with
  | nil => rfl
  | cons r l ih =>
    simp only [dropTrailingZeroRows]
    split
    · rename_i h
      rw [h.1] at ih
      simp only [List.map_nil, eval_nil] at ih
      simp [eval_zero_of_dropTrailingZeros_nil r h.2, ← ih]
    · simp only [List.map_cons, eval_cons, ih]

theorem eval2_take_cols [DecidableEq R] (q : List (List R)) (n : Nat) (h : lastCol q ≤ n) (x y : R) :
    eval2 (q.map (fun r => r.take n)) x y = eval2 q x y := by
  unfold eval2
  induction q with
  | nil => rfl
  | cons r l ih =>
    have h1 : (dropTrailingZeros r).length ≤ n := Nat.le_trans (Nat.le_max_left _ _) h
    have h2 : lastCol l ≤ n := Nat.le_trans (Nat.le_max_right _ _) h
    simp only [List.map_cons, eval_cons, eval_take r n h1, ih h2]

/-- **trimming preserves the polynomial** (two variables) -/
theorem eval2_minimize2 [DecidableEq R] (p : List (List R)) (x y : R) : eval2 (minimize2 p) x y = eval2 p x y := by
  unfold minimize2
  simp only
  split
  · rename_i h
    rw [← eval2_dropTrailingZeroRows p x y, h]
    simp [eval2]
  · rw [eval2_take_cols _ _ (Nat.le_refl _), eval2_dropTrailingZeroRows]

theorem minimize2_nonempty [DecidableEq R] (p : List (List R)) : minimize2 p ≠ [] := by
  unfold minimize2; simp only; split <;> simp_all

/-! ### vector polynomials are three independent one-variable polynomials -/
theorem xyz_shift [DecidableEq R] (t0 a : R) (px py pz : List R) (t : R) :
    (eval (shift t0 a px) t, eval (shift t0 a py) t, eval (shift t0 a pz) t) =
    (eval px (a * t - t0), eval py (a * t - t0), eval pz (a * t - t0)) := by
  simp [eval_shift]

/-! ### vector polynomials on array arguments of any shape: result shape `t.shape + (3,)`, entry `(i, c)` is component `c` at point `i` -/
theorem xyzEvalFlat_length (px py pz ts : List R) : (xyzEvalFlat px py pz ts).length = 3 * ts.length := by
  unfold xyzEvalFlat
  induction ts with
  | nil => rfl
  | cons t ts ih => simp only [List.map_cons, List.flatten_cons, List.length_append, ih, List.length_cons, List.length_nil]; omega

theorem xyzEvalFlat_get (px py pz ts : List R) (i c : Nat) (hi : i < ts.length) (hc : c < 3) :
    (xyzEvalFlat px py pz ts)[3 * i + c]? = some (eval ([px, py, pz][c]'(by simpa using hc)) ts[i]) := by
  unfold xyzEvalFlat
  induction ts generalizing i with
  | nil => simp at hi
  | cons t ts ih =>
    simp only [List.map_cons, List.flatten_cons]
    cases i with
    | zero =>
      have h3 : c = 0 ∨ c = 1 ∨ c = 2 := by omega
      rcases h3 with rfl | rfl | rfl <;> simp
    | succ j =>
      have hj : j < ts.length := by simpa using hi
      have : 3 * (j + 1) + c = 3 + (3 * j + c) := by omega
      rw [this, List.getElem?_append_right (by simp)]
      simpa using ih j hj

/-- a 0-d argument is the one-point case: the three components -/
theorem xyzEvalFlat_single (px py pz : List R) (t : R) : xyzEvalFlat px py pz [t] = [eval px t, eval py t, eval pz t] := by
  simp [xyzEvalFlat]

theorem xyzDerEvalFlat_get (n : Nat) (px py pz ts : List R) (i c : Nat) (hi : i < ts.length) (hc : c < 3) :
    (xyzDerEvalFlat n px py pz ts)[3 * i + c]? = some (eval (derN n ([px, py, pz][c]'(by simpa using hc))) ts[i]) := by
  unfold xyzDerEvalFlat
  rw [xyzEvalFlat_get _ _ _ _ i c hi hc]
  have h3 : c = 0 ∨ c = 1 ∨ c = 2 := by omega
  rcases h3 with rfl | rfl | rfl <;> rfl

example : xyzEvalFlat ([1, 2] : List Int) [0, 0, 1] [5] [10, 20] = [21, 100, 5, 41, 400, 5] := by decide

/-! ### non-vacuity (ℤ): a cubic, shifted and scaled, and its second derivative -/
example : minimize2 ([[1, 0, 0], [2, 0, 0], [-3, 0, 0], [0, 0, 0]] : List (List Int)) = [[1], [2], [-3]] := by decide
example : minimize2 ([[1, 0, 2, 0], [0, 5, 0, 0], [0, 0, 0, 0]] : List (List Int)) = [[1, 0, 2], [0, 5, 0]] := by decide
example : eval (shift (2 : Int) 3 [1, -4, 0, 5]) 7 = eval [1, -4, 0, 5] (3 * 7 - 2) := by decide
example : shift (2 : Int) 3 [1, -4, 0, 5] = [-31, 168, -270, 135] := by decide
example : derN 2 ([1, -4, 0, 5] : List Int) = [0, 30] := by decide
example : minimize ([3, 0, 2, 0, 0] : List Int) = [3, 0, 2] := by decide

end Sarpy.Props.C16
