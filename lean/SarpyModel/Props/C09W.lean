import SarpyModel.Spec.CphdWriter
namespace Sarpy.Props.C09
end Sarpy.Props.C09
