/-
  C09 / C11 — the CPHD / CRSD writer as a state machine (Spec.CphdWriter): theorems over arbitrary operation histories.

  Part 1 (this file): single steps and the file-object log
  * `write_after_close_refused`, `close_idempotent`, `run_closed` : after close every call is refused / a no-op and nothing changes
  * `refused_keeps_file`                                         : a refused call changes nothing: the state after it is the state before it
  * `rewrite_pvp_refused_mem`, `rewrite_sup_refused_mem`         : in memory a second write of a written PVP / support array is refused
  * `rewrite_pvp_real_overwrites`                                : on a real file it is accepted and overwrites (what the code does)
  * `inv1_run` with `Inv1`                                       : for every history: no write through the file object before the header; the
                                                                   file-object log is the four header writes at 0 followed by item writes, each item
                                                                   at most once, at its own offset, with its own bytes
  * `header_first_once`, `item_written_once`, `close_delivers`, `close_report_exact`, `close_report_mem_no_signal`
-/
import SarpyModel.Spec.CphdWriter

namespace Sarpy.Props.C09
open Sarpy.Spec.CphdWriter

variable {α : Type}

/-! ### rows bookkeeping -/

theorem markRows_length (l : List Bool) (r n : Nat) : (markRows l r n).length = l.length := by
  fun_induction markRows l r n <;> simp_all

theorem cntRows_le (l : List Bool) : cntRows l ≤ l.length := by
  induction l with
  | nil => simp [cntRows]
  | cons b l ih => cases b <;> simp [cntRows] <;> omega

theorem markRows_zero (l : List Bool) (r : Nat) : markRows l r 0 = l := by
  induction l generalizing r with
  | nil => simp [markRows]
  | cons b l ih =>
    cases r with
    | zero => simp [markRows]
    | succ r => simp [markRows, ih]

/-- a fresh chunk adds exactly its rows -/
theorem cntRows_markRows_fresh (l : List Bool) (r n : Nat) (h : freshRows l r n = true) :
    cntRows (markRows l r n) = cntRows l + n := by
  induction l generalizing r n with
  | nil =>
    cases n with
    | zero => simp [markRows]
    | succ n => simp [freshRows] at h
  | cons b l ih =>
    cases n with
    | zero => simp [markRows_zero]
    | succ n =>
      cases r with
      | zero =>
        simp [freshRows] at h
        have := ih 0 n h.2
        simp [markRows, cntRows, h.1]; omega
      | succ r =>
        simp [freshRows] at h
        have := ih r (n + 1) h
        simp [markRows, cntRows]; omega

/-- when every row is written no non-empty chunk is fresh -/
theorem not_fresh_of_full (l : List Bool) (r n : Nat) (h : cntRows l = l.length) :
    freshRows l r (n + 1) = false := by
  induction l generalizing r with
  | nil => simp [freshRows]
  | cons b l ih =>
    have hle := cntRows_le l
    cases b
    · simp [cntRows] at h; omega
    · have hl : cntRows l = l.length := by simp [cntRows] at h; omega
      cases r with
      | zero => simp [freshRows]
      | succ r => simp [freshRows, ih r hl]

/-- which rows are marked after `markRows` -/
theorem markRows_getD (l : List Bool) (r n q : Nat) :
    (markRows l r n).getD q false = (decide (r ≤ q ∧ q < r + n ∧ q < l.length) || l.getD q false) := by
  induction l generalizing r n q with
  | nil => simp [markRows]
  | cons b l ih =>
    cases r with
    | zero =>
      cases n with
      | zero => simp [markRows]
      | succ n =>
        cases q with
        | zero => simp [markRows]
        | succ q =>
          simp only [markRows, List.getD_cons_succ, ih 0 n q, List.length_cons]
          congr 1
          simp only [decide_eq_decide]
          omega
    | succ r =>
      cases q with
      | zero => simp [markRows]
      | succ q =>
        simp only [markRows, List.getD_cons_succ, ih r n q, List.length_cons]
        congr 1
        simp only [decide_eq_decide]
        omega

theorem getD_of_cntRows_full (l : List Bool) (h : cntRows l = l.length) (q : Nat) (hq : q < l.length) : l.getD q false = true := by
  induction l generalizing q with
  | nil => simp at hq
  | cons b l ih =>
    have hle := cntRows_le l
    cases b
    · simp [cntRows] at h; omega
    · have hl : cntRows l = l.length := by simp [cntRows] at h; omega
      cases q with
      | zero => simp
      | succ q => simp only [List.getD_cons_succ]; exact ih hl q (by simpa using hq)

theorem getD_of_cntRows_zero (l : List Bool) (h : cntRows l = 0) (q : Nat) : l.getD q false = false := by
  induction l generalizing q with
  | nil => simp
  | cons b l ih =>
    cases b
    · have hl : cntRows l = 0 := by simpa [cntRows] using h
      cases q with
      | zero => simp
      | succ q => simp only [List.getD_cons_succ]; exact ih hl q
    · simp [cntRows] at h

theorem cntRows_replicate_false (n : Nat) : cntRows (List.replicate n false) = 0 := by
  induction n with
  | zero => rfl
  | succ n ih => simp [List.replicate_succ, cntRows, ih]

/-! ### single steps -/

/-- **writes after close are refused without changing anything** (`_validate_closed`; a signal write fails even earlier) -/
theorem write_after_close_refused (c : Cfg α) (s : State α) (h : s.closed = true) (op : Op α)
    (hop : ∀ (_ : op = .close), False) : step c s op = (s, .refused) := by
  cases op with
  | writePvp i d a => simp [step, pvpBad, h]
  | writeSup j d => simp [step, supBad, h]
  | writeSig i r0 d raw => simp [step, sigBad, h]
  | flush => simp [step, h]
  | close => exact absurd rfl (fun e => hop e)

/-- close is idempotent -/
theorem close_idempotent (c : Cfg α) (s : State α) (h : s.closed = true) : step c s .close = (s, .ok) := by
  simp [step, h]

theorem step_closed_state (c : Cfg α) (s : State α) (h : s.closed = true) (op : Op α) : (step c s op).1 = s := by
  cases op with
  | close => rw [close_idempotent c s h]
  | writePvp i d a => rw [write_after_close_refused c s h _ (by intro e; cases e)]
  | writeSup j d => rw [write_after_close_refused c s h _ (by intro e; cases e)]
  | writeSig i r0 d raw => rw [write_after_close_refused c s h _ (by intro e; cases e)]
  | flush => rw [write_after_close_refused c s h _ (by intro e; cases e)]

/-- after close no history changes the writer or the file -/
theorem run_closed (c : Cfg α) (s : State α) (h : s.closed = true) (ops : List (Op α)) : run c s ops = s := by
  induction ops with
  | nil => rfl
  | cons op ops ih => simp only [run, step_closed_state c s h op, ih]

/-- the element data and the file of two states agree (everything except `_can_write_regular_data`) -/
def SameData (s s' : State α) : Prop :=
  s'.ws = s.ws ∧ s'.pos = s.pos ∧ s'.closed = s.closed ∧ s'.hdrWritten = s.hdrWritten ∧
  ∀ k, (s'.el k).bytes = (s.el k).bytes ∧ (s'.el k).written = (s.el k).written ∧ (s'.el k).store = (s.el k).store ∧
       (s'.el k).count = (s.el k).count ∧ (s'.el k).done = (s.el k).done

theorem SameData.refl (s : State α) : SameData s s := ⟨rfl, rfl, rfl, rfl, fun _ => ⟨rfl, rfl, rfl, rfl, rfl⟩⟩

theorem sameData_markCanReg (c : Cfg α) (s : State α) (i a : Nat) : SameData s (markCanReg c s i a) := by
  unfold markCanReg
  split
  · refine ⟨rfl, rfl, rfl, rfl, fun j => ?_⟩
    simp only [setEl]
    split
    · rename_i e; subst e; exact ⟨rfl, rfl, rfl, rfl, rfl⟩
    · exact ⟨rfl, rfl, rfl, rfl, rfl⟩
  · exact SameData.refl s

theorem putData_refused (c : Cfg α) (s : State α) (k : Nat) (d : Blk α) (h : (putData c s k d).2 = .refused) :
    (putData c s k d).1 = s := by
  unfold putData at h ⊢
  split
  · split
    · rfl
    · rename_i h1 h2; simp [h1, h2] at h
  · rename_i h1; simp [h1] at h

theorem markCanReg_el_ne (c : Cfg α) (s : State α) (i a k : Nat) (h : k ≠ c.sigIdx i) : (markCanReg c s i a).el k = s.el k := by
  unfold markCanReg
  split
  · simp [setEl, h]
  · rfl

/-- **a refused call changes nothing at all**: not the file, not an element, not `_can_write_regular_data` (a refused PVP rewrite is
    stopped before the amplitude-scaling hand-off) -/
theorem refused_keeps_file (c : Cfg α) (s : State α) (op : Op α) (h : (step c s op).2 = .refused) :
    (step c s op).1 = s := by
  cases op with
  | writePvp i d a =>
    simp only [step] at h ⊢
    split
    · rfl
    · rename_i hb
      rw [if_neg hb] at h
      exfalso
      simp only [pvpBad, not_or, Decidable.not_not, not_and] at hb
      obtain ⟨_, hi, _, hnb⟩ := hb
      have hne : i ≠ c.sigIdx i := by unfold Cfg.sigIdx; omega
      unfold putData at h
      split at h
      · rename_i hm
        rw [markCanReg_el_ne c s i a i hne] at h
        split at h
        · rename_i hbs; exact hnb hm hbs
        · simp at h
      · simp at h
  | writeSup j d =>
    simp only [step] at h ⊢
    split
    · rfl
    · rename_i hb
      rw [if_neg hb] at h
      exact putData_refused _ _ _ _ h
  | writeSig i r0 d raw =>
    simp only [step] at h ⊢
    split
    · rfl
    · rename_i hb; rw [if_neg hb] at h; simp at h
  | flush =>
    simp only [step] at h ⊢
    split
    · rfl
    · rename_i h1; rw [if_neg h1] at h; simp at h
  | close =>
    simp only [step] at h
    split at h <;> simp at h

/-- **in memory, a second write of a written PVP array is refused** - by the guard in `write_pvp_array` itself, before anything is touched -/
theorem rewrite_pvp_refused_mem (c : Cfg α) (s : State α) (i a : Nat) (d : Blk α) (hm : c.inMem = true)
    (hb : (s.el i).bytes.isSome = true) : step c s (.writePvp i d a) = (s, .refused) := by
  simp only [step]
  rw [if_pos]
  exact Or.inr (Or.inr (Or.inr ⟨hm, hb⟩))

theorem rewrite_sup_refused_mem (c : Cfg α) (s : State α) (j : Nat) (d : Blk α) (hm : c.inMem = true)
    (hb : (s.el (c.supIdx j)).bytes.isSome = true) : (step c s (.writeSup j d)).2 = .refused := by
  simp only [step]
  split
  · rfl
  · unfold putData
    rw [if_pos hm, if_pos hb]

theorem markCanReg_ws (c : Cfg α) (s : State α) (i a : Nat) : (markCanReg c s i a).ws = s.ws := by
  unfold markCanReg; split <;> rfl

/-- on a real file a repeated PVP write is accepted and overwrites the memory map (what the code does; no refusal) -/
theorem rewrite_pvp_real_overwrites (c : Cfg α) (s : State α) (i a : Nat) (d : Blk α) (hm : c.inMem = false)
    (hok : ¬ pvpBad c s i d) :
    (step c s (.writePvp i d a)).2 = .ok ∧ (step c s (.writePvp i d a)).1.ws = ⟨false, (c.item i).off, d⟩ :: s.ws := by
  have hm' : ¬ (c.inMem = true) := by simp [hm]
  simp only [step, if_neg hok]
  unfold putData
  rw [if_neg hm']
  exact ⟨rfl, by simp [markCanReg_ws]⟩

/-! ### the file-object log over arbitrary histories -/

/-- the writes that went through the file object (newest first) -/
def foPart (ws : List (W α)) : List (W α) := ws.filter (·.fo)

/-- invariant of every reachable state (no hypothesis on the configuration or the history):
    * before the header is written nothing went through the file object, its position is 0, and (in memory) nothing is marked written;
    * on a real file no element ever gets `item_bytes`; in memory `item_written` implies `item_bytes`; only table entries get bytes;
    * once the header is written, the file-object log is: the four header writes at position 0, then one write per *delivered* element
      (`item_written` with `item_bytes`), each exactly once, at the element's offset, carrying the element's bytes. -/
structure Inv1 (c : Cfg α) (s : State α) : Prop where
  hdr0 : s.hdrWritten = false → s.pos = 0 ∧ foPart s.ws = [] ∧ (c.inMem = true → ∀ k, (s.el k).written = false)
  realNoBytes : c.inMem = false → ∀ k, (s.el k).bytes = none
  writtenBytes : c.inMem = true → ∀ k, (s.el k).written = true → (s.el k).bytes.isSome = true
  bytesIdx : ∀ k, (s.el k).bytes.isSome = true → k < c.n
  log : s.hdrWritten = true → ∃ l : List Nat,
          foPart s.ws = (l.map (itemWrite c s.el)).reverse ++ hdrWrites c 0 ∧ l.Nodup ∧
          (∀ k, k ∈ l ↔ (k < c.n ∧ (s.el k).written = true ∧ (s.el k).bytes.isSome = true))

theorem itemWrite_congr (c : Cfg α) (el el' : Nat → El α) (l : List Nat) (h : ∀ k ∈ l, (el' k).bytes = (el k).bytes) :
    l.map (itemWrite c el') = l.map (itemWrite c el) := by
  apply List.map_congr_left
  intro k hk
  simp [itemWrite, h k hk]

theorem inv1_init (c : Cfg α) : Inv1 c (init c) where
  hdr0 := fun _ => ⟨rfl, rfl, fun _ _ => rfl⟩
  realNoBytes := fun _ _ => rfl
  writtenBytes := fun _ k h => by simp [init] at h
  bytesIdx := fun k h => by simp [init] at h
  log := fun h => by simp [init] at h

/-- a change that keeps the file-object log, the position, the header flag, every `item_bytes`, and (in memory) every `item_written` -/
theorem inv1_same_delivered (c : Cfg α) (s s' : State α) (hi : Inv1 c s)
    (hws : foPart s'.ws = foPart s.ws) (hpos : s'.pos = s.pos) (hh : s'.hdrWritten = s.hdrWritten)
    (hb : ∀ k, (s'.el k).bytes = (s.el k).bytes) (hw : c.inMem = true → ∀ k, (s'.el k).written = (s.el k).written) : Inv1 c s' where
  hdr0 := fun h => by
    have := hi.hdr0 (by rw [← hh]; exact h)
    exact ⟨by rw [hpos]; exact this.1, by rw [hws]; exact this.2.1, fun hm k => by rw [hw hm k]; exact this.2.2 hm k⟩
  realNoBytes := fun hm k => by rw [hb k]; exact hi.realNoBytes hm k
  writtenBytes := fun hm k h => by rw [hb k]; exact hi.writtenBytes hm k (by rw [← hw hm k]; exact h)
  bytesIdx := fun k h => hi.bytesIdx k (by rw [← hb k]; exact h)
  log := fun h => by
    obtain ⟨l, h1, h2, h3⟩ := hi.log (by rw [← hh]; exact h)
    refine ⟨l, ?_, h2, ?_⟩
    · rw [hws, h1, itemWrite_congr c s.el s'.el l (fun k _ => hb k)]
    · intro k
      rw [h3 k, hb k]
      cases hm : c.inMem with
      | true => rw [hw hm k]
      | false =>
        have := hi.realNoBytes hm k
        simp [this]

/-- in memory: some elements that had no bytes and were not written get bytes; nothing else changes -/
theorem inv1_add_bytes (c : Cfg α) (s s' : State α) (hi : Inv1 c s)
    (hws : s'.ws = s.ws) (hpos : s'.pos = s.pos) (hh : s'.hdrWritten = s.hdrWritten)
    (hw : ∀ k, (s'.el k).written = (s.el k).written)
    (hkeep : ∀ k, (s.el k).bytes.isSome = true → (s'.el k).bytes = (s.el k).bytes)
    (hnew : ∀ k, (s'.el k).bytes.isSome = true → (s.el k).bytes.isSome = true ∨ (k < c.n ∧ c.inMem = true)) : Inv1 c s' where
  hdr0 := fun h => by
    have := hi.hdr0 (by rw [← hh]; exact h)
    exact ⟨by rw [hpos]; exact this.1, by rw [hws]; exact this.2.1, fun hm k => by rw [hw k]; exact this.2.2 hm k⟩
  realNoBytes := fun hm k => by
    cases hb : (s'.el k).bytes with
    | none => rfl
    | some b =>
      rcases hnew k (by simp [hb]) with h1 | h1
      · have := hi.realNoBytes hm k; simp [this] at h1
      · simp [hm] at h1
  writtenBytes := fun hm k h => by
    have := hi.writtenBytes hm k (by rw [← hw k]; exact h)
    rw [hkeep k this]; exact this
  bytesIdx := fun k h => by
    rcases hnew k h with h1 | h1
    · exact hi.bytesIdx k h1
    · exact h1.1
  log := fun h => by
    obtain ⟨l, h1, h2, h3⟩ := hi.log (by rw [← hh]; exact h)
    refine ⟨l, ?_, h2, ?_⟩
    · rw [hws, h1, itemWrite_congr c s.el s'.el l (fun k hk => hkeep k ((h3 k).mp hk).2.2)]
    · intro k
      rw [h3 k, hw k]
      constructor
      · rintro ⟨a, b, d⟩; exact ⟨a, b, by rw [hkeep k d]; exact d⟩
      · rintro ⟨a, b, d⟩
        refine ⟨a, b, ?_⟩
        cases hm : c.inMem with
        | true => exact hi.writtenBytes hm k b
        | false =>
          rcases hnew k d with h4 | h4
          · exact h4
          · simp [hm] at h4

theorem inv1_markCanReg (c : Cfg α) (s : State α) (i a : Nat) (hi : Inv1 c s) : Inv1 c (markCanReg c s i a) := by
  obtain ⟨h1, h2, _, h4, h5⟩ := sameData_markCanReg c s i a
  exact inv1_same_delivered c s _ hi (by rw [h1]) h2 h4 (fun k => (h5 k).1) (fun _ k => (h5 k).2.1)

theorem foPart_cons_mm (w : W α) (ws : List (W α)) (h : w.fo = false) : foPart (w :: ws) = foPart ws := by
  simp [foPart, h]

theorem inv1_putData (c : Cfg α) (s : State α) (k : Nat) (d : Blk α) (hk : k < c.n) (hi : Inv1 c s) :
    Inv1 c (putData c s k d).1 := by
  unfold putData
  cases hm : c.inMem with
  | true =>
    simp only [if_true]
    cases hb : (s.el k).bytes.isSome with
    | true => simpa using hi
    | false =>
      simp only [Bool.false_eq_true, if_false]
      refine inv1_add_bytes c s _ hi rfl rfl rfl ?_ ?_ ?_
      · intro j; simp only [setEl]; split
        · rename_i e; subst e; rfl
        · rfl
      · intro j hj; simp only [setEl]; split
        · rename_i e; subst e; rw [hb] at hj; simp at hj
        · rfl
      · intro j hj; simp only [setEl] at hj; split at hj
        · rename_i e; subst e; exact Or.inr ⟨hk, hm⟩
        · exact Or.inl hj
  | false =>
    simp only [Bool.false_eq_true, if_false]
    refine inv1_same_delivered c s _ hi (foPart_cons_mm _ _ rfl) rfl rfl ?_ (fun h => by simp [hm] at h)
    intro j; simp only [setEl]; split
    · rename_i e; subst e; rfl
    · rfl

theorem inv1_putChunk (c : Cfg α) (s : State α) (k r0 : Nat) (d : Blk α) (raw : Bool) (hi : Inv1 c s) : Inv1 c (putChunk c s k r0 d raw) := by
  unfold putChunk
  cases hm : c.inMem with
  | true =>
    simp only [if_true]
    refine inv1_same_delivered c s _ hi rfl rfl rfl ?_ ?_
    · intro j; simp only [setEl]; split
      · rename_i e; subst e; rfl
      · rfl
    · intro _ j; simp only [setEl]; split
      · rename_i e; subst e; rfl
      · rfl
  | false =>
    simp only [Bool.false_eq_true, if_false]
    refine inv1_same_delivered c s _ hi (foPart_cons_mm _ _ rfl) rfl rfl ?_ (fun h => by simp [hm] at h)
    intro j; simp only [setEl]; split
    · rename_i e; subst e; rfl
    · rfl

theorem snapEl_written (c : Cfg α) (f : Bool) (k : Nat) (e : El α) : (snapEl c f k e).written = e.written := by
  unfold snapEl; split <;> rfl

theorem snapEl_keep (c : Cfg α) (f : Bool) (k : Nat) (e : El α) (h : e.bytes.isSome = true) : snapEl c f k e = e := by
  unfold snapEl
  rw [if_neg]
  cases hb : e.bytes with
  | none => rw [hb] at h; simp at h
  | some b => simp

theorem snapEl_new (c : Cfg α) (f : Bool) (k : Nat) (e : El α) (h : (snapEl c f k e).bytes.isSome = true) :
    e.bytes.isSome = true ∨ (k < c.n ∧ c.inMem = true) := by
  unfold snapEl at h
  split at h
  · rename_i hc
    simp only [Bool.and_eq_true, decide_eq_true_eq] at hc
    exact Or.inr ⟨hc.1.1.1.1.2, hc.1.1.1.1.1⟩
  · exact Or.inl h

theorem inv1_snapPhase (c : Cfg α) (f : Bool) (s : State α) (hi : Inv1 c s) : Inv1 c (snapPhase c f s) :=
  inv1_add_bytes c s _ hi rfl rfl rfl (fun k => snapEl_written c f k _)
    (fun k hk => by simp only [snapPhase]; rw [snapEl_keep c f k _ hk]) (fun k hk => snapEl_new c f k _ hk)

theorem foPart_hdrWrites (c : Cfg α) (p : Nat) : foPart (hdrWrites c p) = hdrWrites c p := by
  simp [foPart, hdrWrites]

theorem inv1_hdrPhase (c : Cfg α) (s : State α) (hi : Inv1 c s) : Inv1 c (hdrPhase c s) := by
  unfold hdrPhase
  cases hh : s.hdrWritten with
  | true => simpa using hi
  | false =>
    simp only [Bool.false_eq_true, if_false]
    obtain ⟨hp, hf, hw⟩ := hi.hdr0 hh
    exact {
      hdr0 := fun h => by simp at h
      realNoBytes := hi.realNoBytes
      writtenBytes := hi.writtenBytes
      bytesIdx := hi.bytesIdx
      log := fun _ => by
        refine ⟨[], ?_, List.nodup_nil, ?_⟩
        · simp only [foPart, List.filter_append] at hf ⊢
          rw [hf, hp]
          simpa [foPart] using foPart_hdrWrites c 0
        · intro k
          simp only [List.not_mem_nil, false_iff, not_and]
          intro _ hwk hbk
          cases hm : c.inMem with
          | true => have := hw hm k; rw [this] at hwk; simp at hwk
          | false => have := hi.realNoBytes hm k; rw [this] at hbk; simp at hbk }

theorem mem_todo (c : Cfg α) (s : State α) (k : Nat) :
    k ∈ todo c s ↔ (k < c.n ∧ (s.el k).written = false ∧ (s.el k).bytes.isSome = true) := by
  simp [todo, pending]

theorem todo_nodup (c : Cfg α) (s : State α) : (todo c s).Nodup :=
  List.Nodup.sublist List.filter_sublist List.nodup_range

theorem foPart_itemWrites (c : Cfg α) (el : Nat → El α) (l : List Nat) :
    foPart ((l.map (itemWrite c el)).reverse) = (l.map (itemWrite c el)).reverse := by
  unfold foPart
  rw [List.filter_eq_self]
  intro w hw
  simp only [List.mem_reverse, List.mem_map] at hw
  obtain ⟨k, _, rfl⟩ := hw
  rfl

theorem itemsPhase_el (c : Cfg α) (s : State α) (k : Nat) :
    ((itemsPhase c s).el k).bytes = (s.el k).bytes ∧
    ((itemsPhase c s).el k).written = ((s.el k).written || (decide (k < c.n) && (s.el k).bytes.isSome)) ∧
    ((itemsPhase c s).el k).store = (s.el k).store ∧ ((itemsPhase c s).el k).count = (s.el k).count ∧
    ((itemsPhase c s).el k).done = (s.el k).done ∧ ((itemsPhase c s).el k).canReg = (s.el k).canReg := by
  simp only [itemsPhase]
  by_cases h : k < c.n ∧ pending (s.el k) = true
  · simp only [if_pos h]
    simp only [pending, Bool.and_eq_true, Bool.not_eq_true'] at h
    simp [h.1, h.2.2]
  · simp only [if_neg h, true_and, and_true]
    cases hw : (s.el k).written with
    | true => simp
    | false =>
      simp only [Bool.false_or]
      cases hb : (s.el k).bytes.isSome with
      | false => simp
      | true =>
        have : ¬ k < c.n := fun hk => h ⟨hk, by simp [pending, hw, hb]⟩
        simp [this]

theorem inv1_itemsPhase (c : Cfg α) (s : State α) (hi : Inv1 c s) (hh : s.hdrWritten = true) : Inv1 c (itemsPhase c s) where
  hdr0 := fun h => by simp [itemsPhase, hh] at h
  realNoBytes := fun hm k => by rw [(itemsPhase_el c s k).1]; exact hi.realNoBytes hm k
  writtenBytes := fun hm k h => by
    rw [(itemsPhase_el c s k).1]
    rw [(itemsPhase_el c s k).2.1] at h
    cases hw : (s.el k).written with
    | true => exact hi.writtenBytes hm k hw
    | false => rw [hw] at h; simp at h; exact h.2
  bytesIdx := fun k h => hi.bytesIdx k (by rw [← (itemsPhase_el c s k).1]; exact h)
  log := fun _ => by
    obtain ⟨l, h1, h2, h3⟩ := hi.log hh
    refine ⟨l ++ todo c s, ?_, ?_, ?_⟩
    · have e : (itemsPhase c s).ws = ((todo c s).map (itemWrite c s.el)).reverse ++ s.ws := rfl
      rw [e]
      have e2 : (l ++ todo c s).map (itemWrite c (itemsPhase c s).el) = (l ++ todo c s).map (itemWrite c s.el) :=
        itemWrite_congr c s.el _ _ (fun k _ => (itemsPhase_el c s k).1)
      rw [e2]
      simp only [foPart, List.filter_append] at h1 ⊢
      rw [h1]
      have := foPart_itemWrites c s.el (todo c s)
      simp only [foPart] at this
      rw [this]
      simp [List.map_append, List.reverse_append, List.append_assoc]
    · rw [List.nodup_append]
      refine ⟨h2, todo_nodup c s, ?_⟩
      intro a ha b hb hab
      subst hab
      have := ((h3 a).mp ha).2.1
      have := ((mem_todo c s a).mp hb).2.1
      simp_all
    · intro k
      rw [List.mem_append, h3 k, mem_todo, (itemsPhase_el c s k).1, (itemsPhase_el c s k).2.1]
      constructor
      · rintro (⟨a, b, d⟩ | ⟨a, b, d⟩)
        · exact ⟨a, by simp [b], d⟩
        · exact ⟨a, by simp [a, d], d⟩
      · rintro ⟨a, b, d⟩
        cases hw : (s.el k).written with
        | true => exact Or.inl ⟨a, rfl, d⟩
        | false => exact Or.inr ⟨a, rfl, d⟩

theorem hdrPhase_hdrWritten (c : Cfg α) (s : State α) : (hdrPhase c s).hdrWritten = true := by
  unfold hdrPhase; split
  · assumption
  · rfl

theorem inv1_flushCore (c : Cfg α) (f : Bool) (s : State α) (hi : Inv1 c s) : Inv1 c (flushCore c f s) :=
  inv1_itemsPhase c _ (inv1_hdrPhase c _ (inv1_snapPhase c f s hi)) (hdrPhase_hdrWritten c _)

theorem supIdx_lt (c : Cfg α) (j : Nat) (h : j < c.nsup) : c.supIdx j < c.n := by unfold Cfg.supIdx Cfg.n; omega
theorem sigIdx_lt (c : Cfg α) (i : Nat) (h : i < c.nchan) : c.sigIdx i < c.n := by unfold Cfg.sigIdx Cfg.n; omega
theorem pvpIdx_lt (c : Cfg α) (i : Nat) (h : i < c.nchan) : i < c.n := by unfold Cfg.n; omega

theorem inv1_step (c : Cfg α) (s : State α) (op : Op α) (hi : Inv1 c s) : Inv1 c (step c s op).1 := by
  cases op with
  | writePvp i d a =>
    simp only [step]
    split
    · exact hi
    · rename_i hb
      have hi' : i < c.nchan := Decidable.byContradiction (fun hn => hb (Or.inr (Or.inl hn)))
      exact inv1_putData c _ i d (pvpIdx_lt c i hi') (inv1_markCanReg c s i a hi)
  | writeSup j d =>
    simp only [step]
    split
    · exact hi
    · rename_i hb
      have hj : j < c.nsup := Decidable.byContradiction (fun hn => hb (Or.inr (Or.inl hn)))
      exact inv1_putData c _ _ d (supIdx_lt c j hj) hi
  | writeSig i r0 d raw =>
    simp only [step]
    split
    · exact hi
    · exact inv1_putChunk c s _ r0 d raw hi
  | flush =>
    simp only [step]
    split
    · exact hi
    · exact inv1_flushCore c false s hi
  | close =>
    simp only [step]
    split
    · exact hi
    · exact inv1_same_delivered c _ _ (inv1_flushCore c true s hi) rfl rfl rfl (fun _ => rfl) (fun _ _ => rfl)

/-- **every reachable state satisfies `Inv1`**, whatever the operations, their order, their arguments -/
theorem inv1_run (c : Cfg α) (s : State α) (ops : List (Op α)) (hi : Inv1 c s) : Inv1 c (run c s ops) := by
  induction ops generalizing s with
  | nil => exact hi
  | cons op ops ih => exact ih _ (inv1_step c s op hi)

/-! ### what the invariant says about the file-object log, and what close does -/

/-- the four writes of `write_header` as (offset, length) -/
def hdrLog (c : Cfg α) : List (Nat × Nat) :=
  [(0, c.hdr.len), (c.hdr.len, c.term.len), (c.xmlOff, c.xml.len), (c.xmlOff + c.xml.len, c.term.len)]

/-- **the header is written exactly once, before anything else; every element is written at most once, at its own offset**:
    after any history the file-object log is empty (nothing flushed yet), or it is the four header writes starting at position 0
    followed by one write per delivered element - distinct elements (`Nodup`), each at `(c.item k).off` with the length of its bytes -/
theorem fo_log_shape (c : Cfg α) (ops : List (Op α)) :
    ((run c (init c) ops).hdrWritten = false ∧ foLog (run c (init c) ops) = []) ∨
    ((run c (init c) ops).hdrWritten = true ∧ ∃ l : List Nat, l.Nodup ∧
      (∀ k, k ∈ l ↔ (k < c.n ∧ ((run c (init c) ops).el k).written = true ∧ ((run c (init c) ops).el k).bytes.isSome = true)) ∧
      foLog (run c (init c) ops) =
        hdrLog c ++ l.map (fun k => ((c.item k).off, (((run c (init c) ops).el k).bytes.getD (Blk.nil c.zero)).len))) := by
  have hi := inv1_run c (init c) ops (inv1_init c)
  generalize run c (init c) ops = s at hi
  cases hh : s.hdrWritten with
  | false =>
    left
    refine ⟨rfl, ?_⟩
    have := (hi.hdr0 hh).2.1
    simp only [foPart] at this
    simp [foLog, this]
  | true =>
    right
    obtain ⟨l, h1, h2, h3⟩ := hi.log hh
    refine ⟨rfl, l, h2, h3, ?_⟩
    simp only [foPart] at h1
    simp only [foLog, h1, List.map_append, List.map_reverse, List.reverse_append, List.reverse_reverse, List.map_map]
    simp [hdrWrites, hdrLog, itemWrite, Function.comp_def]

theorem hdrPhase_el (c : Cfg α) (s : State α) : (hdrPhase c s).el = s.el := by
  unfold hdrPhase; split <;> rfl

theorem flushCore_bytes (c : Cfg α) (f : Bool) (s : State α) (k : Nat) :
    ((flushCore c f s).el k).bytes = (snapEl c f k (s.el k)).bytes := by
  unfold flushCore
  rw [(itemsPhase_el c _ k).1, hdrPhase_el]
  rfl

theorem flushCore_written (c : Cfg α) (f : Bool) (s : State α) (k : Nat) :
    ((flushCore c f s).el k).written = ((s.el k).written || (decide (k < c.n) && (snapEl c f k (s.el k)).bytes.isSome)) := by
  unfold flushCore
  rw [(itemsPhase_el c _ k).2.1, hdrPhase_el]
  simp [snapPhase, snapEl_written]

/-- **everything populated is written by a flush, hence by close**: after `flush` / `close` every table element that has bytes is written -/
theorem flush_delivers (c : Cfg α) (f : Bool) (s : State α) (k : Nat) (hk : k < c.n)
    (hb : ((flushCore c f s).el k).bytes.isSome = true) : ((flushCore c f s).el k).written = true := by
  rw [flushCore_written]
  rw [flushCore_bytes] at hb
  simp [hk, hb]

theorem close_delivers (c : Cfg α) (s : State α) (hc : s.closed = false) (k : Nat) (hk : k < c.n)
    (hb : (((step c s .close).1).el k).bytes.isSome = true) : (((step c s .close).1).el k).written = true := by
  simp only [step, hc, Bool.false_eq_true, if_false] at hb ⊢
  exact flush_delivers c true s k hk hb

/-- in memory, close hands over and writes **every** signal array, complete or not (`flush(force=True)`) -/
theorem close_delivers_signal_mem (c : Cfg α) (s : State α) (hc : s.closed = false) (hm : c.inMem = true) (k : Nat) (hk : k < c.n)
    (hs : (c.item k).kind = .signal) : (((step c s .close).1).el k).written = true := by
  simp only [step, hc, Bool.false_eq_true, if_false]
  rw [flushCore_written]
  cases hw : (s.el k).written with
  | true => simp
  | false =>
    cases hb : (s.el k).bytes with
    | some b => simp [snapEl, hk, hb]
    | none => simp [snapEl, hk, hb, hm, hs, hw]

theorem mem_unwritten (c : Cfg α) (s : State α) (k : Nat) : k ∈ unwritten c s ↔ (k < c.n ∧ (s.el k).written = false) := by
  simp [unwritten]

/-- **close on an incomplete writer reports it**: the first close answers with the list `verify_all_written` logs - exactly the table
    elements that are not written in the closed state - and never reports the header (close has just written it) -/
theorem close_report_exact (c : Cfg α) (s : State α) (hc : s.closed = false) :
    (step c s .close).2 = .report false (unwritten c (step c s .close).1) ∧ ((step c s .close).1).closed = true := by
  have : (flushCore c true s).hdrWritten = true := by
    unfold flushCore itemsPhase; exact hdrPhase_hdrWritten c _
  constructor
  · simp [step, hc, this, unwritten]
  · simp [step, hc]

/-- what the code does in memory: an incomplete signal array is never reported (close force-writes it, zeros where nothing was written);
    on a real file it is reported exactly when its sample count never equalled the expected count -/
theorem close_report_mem_no_signal (c : Cfg α) (s : State α) (hc : s.closed = false) (hm : c.inMem = true) (k : Nat)
    (hk : k ∈ unwritten c (step c s .close).1) : (c.item k).kind ≠ .signal := by
  intro hs
  have h1 := (mem_unwritten c _ k).mp hk
  have h2 := close_delivers_signal_mem c s hc hm k h1.1 hs
  rw [h2] at h1
  simp at h1

/-- an element reported by close was never populated: it has no bytes (in memory) -/
theorem close_report_unpopulated (c : Cfg α) (s : State α) (hc : s.closed = false) (k : Nat)
    (hk : k ∈ unwritten c (step c s .close).1) : (((step c s .close).1).el k).bytes = none := by
  have h1 := (mem_unwritten c _ k).mp hk
  cases hb : (((step c s .close).1).el k).bytes with
  | none => rfl
  | some b =>
    have := close_delivers c s hc k h1.1 (by simp [hb])
    rw [this] at h1
    simp at h1

end Sarpy.Props.C09
