/-
  C09 / C11 — the CPHD / CRSD writer as a state machine (Spec.CphdWriter): theorems over arbitrary operation histories.

  Part 1 (this file): single steps and the file-object log
  * `write_after_close_refused`, `close_idempotent`, `run_closed` : after close every call is refused / a no-op and nothing changes
  * `refused_keeps_file`                                         : a refused call changes neither the file nor any element's data / flags
  * `rewrite_pvp_refused_mem`, `rewrite_sup_refused_mem`         : in memory a second write of a written PVP / support array is refused
  * `rewrite_pvp_real_overwrites`                                : on a real file it is accepted and overwrites (what the code does)
  * `inv1_run` with `Inv1`                                       : for every history: no write through the file object before the header; the
                                                                   file-object log is the four header writes at 0 followed by item writes, each item
                                                                   at most once, at its own offset, with its own bytes
  * `header_first_once`, `item_written_once`, `close_delivers`, `close_report_exact`, `close_report_mem_no_signal`
-/
import SarpyModel.Spec.CphdWriter

namespace Sarpy.Props.C09
open Sarpy.Spec.CphdWriter

variable {α : Type}

/-! ### rows bookkeeping -/

theorem markRows_length (l : List Bool) (r n : Nat) : (markRows l r n).length = l.length := by
  fun_induction markRows l r n <;> simp_all

theorem cntRows_le (l : List Bool) : cntRows l ≤ l.length := by
  induction l with
  | nil => simp [cntRows]
  | cons b l ih => cases b <;> simp [cntRows] <;> omega

theorem markRows_zero (l : List Bool) (r : Nat) : markRows l r 0 = l := by
  induction l generalizing r with
  | nil => simp [markRows]
  | cons b l ih =>
    cases r with
    | zero => simp [markRows]
    | succ r => simp [markRows, ih]

/-- a fresh chunk adds exactly its rows -/
theorem cntRows_markRows_fresh (l : List Bool) (r n : Nat) (h : freshRows l r n = true) :
    cntRows (markRows l r n) = cntRows l + n := by
  induction l generalizing r n with
  | nil =>
    cases n with
    | zero => simp [markRows]
    | succ n => simp [freshRows] at h
  | cons b l ih =>
    cases n with
    | zero => simp [markRows_zero]
    | succ n =>
      cases r with
      | zero =>
        simp [freshRows] at h
        have := ih 0 n h.2
        simp [markRows, cntRows, h.1]; omega
      | succ r =>
        simp [freshRows] at h
        have := ih r (n + 1) h
        simp [markRows, cntRows]; omega

/-- when every row is written no non-empty chunk is fresh -/
theorem not_fresh_of_full (l : List Bool) (r n : Nat) (h : cntRows l = l.length) :
    freshRows l r (n + 1) = false := by
  induction l generalizing r with
  | nil => simp [freshRows]
  | cons b l ih =>
    have hle := cntRows_le l
    cases b
    · simp [cntRows] at h; omega
    · have hl : cntRows l = l.length := by simp [cntRows] at h; omega
      cases r with
      | zero => simp [freshRows]
      | succ r => simp [freshRows, ih r hl]

/-- which rows are marked after `markRows` -/
theorem markRows_getD (l : List Bool) (r n q : Nat) :
    (markRows l r n).getD q false = (decide (r ≤ q ∧ q < r + n ∧ q < l.length) || l.getD q false) := by
  induction l generalizing r n q with
  | nil => simp [markRows]
  | cons b l ih =>
    cases r with
    | zero =>
      cases n with
      | zero => simp [markRows]
      | succ n =>
        cases q with
        | zero => simp [markRows]
        | succ q =>
          simp only [markRows, List.getD_cons_succ, ih 0 n q, List.length_cons]
          congr 1
          simp only [decide_eq_decide]
          omega
    | succ r =>
      cases q with
      | zero => simp [markRows]
      | succ q =>
        simp only [markRows, List.getD_cons_succ, ih r n q, List.length_cons]
        congr 1
        simp only [decide_eq_decide]
        omega

theorem getD_of_cntRows_full (l : List Bool) (h : cntRows l = l.length) (q : Nat) (hq : q < l.length) : l.getD q false = true := by
  induction l generalizing q with
  | nil => simp at hq
  | cons b l ih =>
    have hle := cntRows_le l
    cases b
    · simp [cntRows] at h; omega
    · have hl : cntRows l = l.length := by simp [cntRows] at h; omega
      cases q with
      | zero => simp
      | succ q => simp only [List.getD_cons_succ]; exact ih hl q (by simpa using hq)

theorem getD_of_cntRows_zero (l : List Bool) (h : cntRows l = 0) (q : Nat) : l.getD q false = false := by
  induction l generalizing q with
  | nil => simp
  | cons b l ih =>
    cases b
    · have hl : cntRows l = 0 := by simpa [cntRows] using h
      cases q with
      | zero => simp
      | succ q => simp only [List.getD_cons_succ]; exact ih hl q
    · simp [cntRows] at h

theorem cntRows_replicate_false (n : Nat) : cntRows (List.replicate n false) = 0 := by
  induction n with
  | zero => rfl
  | succ n ih => simp [List.replicate_succ, cntRows, ih]

/-! ### single steps -/

/-- **writes after close are refused without changing anything** (`_validate_closed`; a signal write fails even earlier) -/
theorem write_after_close_refused (c : Cfg α) (s : State α) (h : s.closed = true) (op : Op α)
    (hop : ∀ (_ : op = .close), False) : step c s op = (s, .refused) := by
  cases op with
  | writePvp i d => simp [step, pvpBad, h]
  | writeSup j d => simp [step, supBad, h]
  | writeSig i r0 d raw => simp [step, sigBad, h]
  | flush => simp [step, h]
  | close => exact absurd rfl (fun e => hop e)

/-- close is idempotent -/
theorem close_idempotent (c : Cfg α) (s : State α) (h : s.closed = true) : step c s .close = (s, .ok) := by
  simp [step, h]

theorem step_closed_state (c : Cfg α) (s : State α) (h : s.closed = true) (op : Op α) : (step c s op).1 = s := by
  cases op with
  | close => rw [close_idempotent c s h]
  | writePvp i d => rw [write_after_close_refused c s h _ (by intro e; cases e)]
  | writeSup j d => rw [write_after_close_refused c s h _ (by intro e; cases e)]
  | writeSig i r0 d raw => rw [write_after_close_refused c s h _ (by intro e; cases e)]
  | flush => rw [write_after_close_refused c s h _ (by intro e; cases e)]

/-- after close no history changes the writer or the file -/
theorem run_closed (c : Cfg α) (s : State α) (h : s.closed = true) (ops : List (Op α)) : run c s ops = s := by
  induction ops with
  | nil => rfl
  | cons op ops ih => simp only [run, step_closed_state c s h op, ih]

/-- what a step may not touch when it refuses: the file, the position, and every element's bytes / flags / data
    (the only thing a refused call can change is `_can_write_regular_data`: `write_pvp_array` sets it before the `item_bytes` guard) -/
def SameData (s s' : State α) : Prop :=
  s'.ws = s.ws ∧ s'.pos = s.pos ∧ s'.closed = s.closed ∧ s'.hdrWritten = s.hdrWritten ∧
  ∀ k, (s'.el k).bytes = (s.el k).bytes ∧ (s'.el k).written = (s.el k).written ∧ (s'.el k).store = (s.el k).store ∧
       (s'.el k).count = (s.el k).count ∧ (s'.el k).done = (s.el k).done

theorem SameData.refl (s : State α) : SameData s s := ⟨rfl, rfl, rfl, rfl, fun _ => ⟨rfl, rfl, rfl, rfl, rfl⟩⟩

theorem sameData_markCanReg (c : Cfg α) (s : State α) (i : Nat) : SameData s (markCanReg c s i) := by
  unfold markCanReg
  split
  · refine ⟨rfl, rfl, rfl, rfl, fun j => ?_⟩
    simp only [setEl]
    split
    · rename_i e; subst e; exact ⟨rfl, rfl, rfl, rfl, rfl⟩
    · exact ⟨rfl, rfl, rfl, rfl, rfl⟩
  · exact SameData.refl s

theorem putData_refused (c : Cfg α) (s : State α) (k : Nat) (d : Blk α) (h : (putData c s k d).2 = .refused) :
    (putData c s k d).1 = s := by
  unfold putData at h ⊢
  split
  · split
    · rfl
    · rename_i h1 h2; simp [h1, h2] at h
  · rename_i h1; simp [h1] at h

/-- **a refused call changes neither the file nor any element** -/
theorem refused_keeps_file (c : Cfg α) (s : State α) (op : Op α) (h : (step c s op).2 = .refused) :
    SameData s (step c s op).1 := by
  cases op with
  | writePvp i d =>
    simp only [step] at h ⊢
    split
    · exact SameData.refl s
    · rename_i hb
      rw [if_neg hb] at h
      rw [putData_refused _ _ _ _ h]
      exact sameData_markCanReg c s i
  | writeSup j d =>
    simp only [step] at h ⊢
    split
    · exact SameData.refl s
    · rename_i hb
      rw [if_neg hb] at h
      rw [putData_refused _ _ _ _ h]
      exact SameData.refl s
  | writeSig i r0 d raw =>
    simp only [step] at h ⊢
    split
    · exact SameData.refl s
    · rename_i hb; rw [if_neg hb] at h; simp at h
  | flush =>
    simp only [step] at h ⊢
    split
    · exact SameData.refl s
    · rename_i h1; rw [if_neg h1] at h; simp at h
  | close =>
    simp only [step] at h
    split at h <;> simp at h

theorem markCanReg_el_ne (c : Cfg α) (s : State α) (i k : Nat) (h : k ≠ c.sigIdx i) : (markCanReg c s i).el k = s.el k := by
  unfold markCanReg
  split
  · simp [setEl, h]
  · rfl

/-- **in memory, a second write of a written PVP array is refused** (`item_bytes is read only after being initially defined`) -/
theorem rewrite_pvp_refused_mem (c : Cfg α) (s : State α) (i : Nat) (d : Blk α) (hm : c.inMem = true)
    (hb : (s.el i).bytes.isSome = true) : (step c s (.writePvp i d)).2 = .refused := by
  simp only [step]
  split
  · rfl
  · rename_i hbad
    have hi : i < c.nchan := by
      unfold pvpBad at hbad
      exact Decidable.byContradiction (fun hn => hbad (Or.inr (Or.inl hn)))
    have hne : i ≠ c.sigIdx i := by unfold Cfg.sigIdx; omega
    unfold putData
    rw [if_pos hm, markCanReg_el_ne c s i i hne, if_pos hb]

theorem rewrite_sup_refused_mem (c : Cfg α) (s : State α) (j : Nat) (d : Blk α) (hm : c.inMem = true)
    (hb : (s.el (c.supIdx j)).bytes.isSome = true) : (step c s (.writeSup j d)).2 = .refused := by
  simp only [step]
  split
  · rfl
  · unfold putData
    rw [if_pos hm, if_pos hb]

theorem markCanReg_ws (c : Cfg α) (s : State α) (i : Nat) : (markCanReg c s i).ws = s.ws := by
  unfold markCanReg; split <;> rfl

/-- on a real file a repeated PVP write is accepted and overwrites the memory map (what the code does; no refusal) -/
theorem rewrite_pvp_real_overwrites (c : Cfg α) (s : State α) (i : Nat) (d : Blk α) (hm : c.inMem = false)
    (hok : ¬ pvpBad c s i d) :
    (step c s (.writePvp i d)).2 = .ok ∧ (step c s (.writePvp i d)).1.ws = ⟨false, (c.item i).off, d⟩ :: s.ws := by
  have hm' : ¬ (c.inMem = true) := by simp [hm]
  simp only [step, if_neg hok]
  unfold putData
  rw [if_neg hm']
  exact ⟨rfl, by simp [markCanReg_ws]⟩

end Sarpy.Props.C09
