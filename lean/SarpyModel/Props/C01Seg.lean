/-
  C01Seg — data segments as index maps: **what the segment classes compute for a subscript is the numpy selection
  from the full image**, for arbitrary segment trees (any number of axes, any shapes, any depth), and the full image
  is the documented transform of the stored samples (`Seg.full` is that transform, written with flip / transpose /
  basic slicing / stack / paste only).

  Model: `Spec/Segment.lean` (`Seg.read` mirrors sarpy/io/general/data_segment.py + format_function.py line by
  line; `Seg.full` is the denotation).  The per-axis facts are the theorems of `Proofs/Slice.lean`
  (`mirror_spec`, `overlap_spec`, `compose_spec`, `Normal.index_range`), used through their pointwise forms in
  `Props/C01SegBase.lean`; one lemma per node kind is in `Props/C01SegNodes.lean`; here the structural induction.

  Reading guide:
  * `read_refines`        : `t.read ts` and `(t.full)[ts]` have the same shape and the same element at every index
  * `read_eq_select`      : ... hence the same elements in row-major order (what the driver prints)
  * `read_shape`          : the shape of a read is the per-axis slice counts (what `get_subscript_result_size` says)
  * `full_shape`          : the advertised `formatted_shape` is the shape of the full image
  * `full_read`           : reading with the full subscript returns the full image
  * `read_in_store`       : every element of a read is the fill value or a sample at an in-range index of a leaf of
                            the tree (reads never leave the stored arrays)
-/
import SarpyModel.Props.C01SegNodes2

namespace Sarpy.Props.C01Seg
open Sarpy Sarpy.Spec

section
variable {α : Type} [Pairing α] (L : Nat → List Int → α) (F : α)

/-! ### shapes -/

theorem fullOnto_shape : ∀ (cs : Blks) (acc : Arr α), (cs.fullOnto L F acc).shape = acc.shape
  | .nil, _ => rfl
  | .cons _ _ r, acc => by
    simp only [Blks.fullOnto]
    rw [fullOnto_shape r]
    rfl
  | .rcons _ _ _ r, acc => by
    simp only [Blks.fullOnto]
    rw [fullOnto_shape r]
    rfl

mutual
/-- the advertised formatted shape is the shape of the full image -/
theorem full_shape : ∀ t : Seg, t.wf = true → (t.full L F).shape = t.fshape
  | .leaf _ _, _ => rfl
  | .fleaf _ _, _ => rfl
  | .orient rev perm p, h => by
    simp only [Seg.wf, Bool.and_eq_true] at h
    show gather perm (p.full L F).shape = gather perm p.fshape
    rw [full_shape p h.1.1]
  | .cplx ord rev perm bd p, h => by
    simp only [Seg.wf, Bool.and_eq_true] at h
    show delAt bd (gather perm (p.full L F).shape) = delAt bd (gather perm p.fshape)
    rw [full_shape p h.1.1.1.1]
  | .cplxK ord rev perm bd p, h => by
    simp only [Seg.wf, Bool.and_eq_true] at h
    show halveAt bd (gather perm (p.full L F).shape) = halveAt bd (gather perm p.fshape)
    rw [full_shape p h.1.1.1.1]
  | .lut1 rev perm p, h => by
    simp only [Seg.wf, Bool.and_eq_true] at h
    show gather perm (p.full L F).shape = gather perm p.fshape
    rw [full_shape p h.1.1]
  | .lut2 m rev perm p, h => by
    simp only [Seg.wf, Bool.and_eq_true] at h
    show gather perm (p.full L F).shape ++ [m] = gather perm p.fshape ++ [m]
    rw [full_shape p h.1.1]
  | .subset _ _ _, _ => rfl
  | .subsetR _ _ _ _ _, _ => rfl
  | .bands _ _, _ => rfl
  | .blocks s cs, _ => by
    show (cs.fullOnto L F (Arr.const s F)).shape = s
    rw [fullOnto_shape]; rfl
end

theorem fullNth_shape : ∀ (cs : Segs) (sh : List Nat), cs.wfAll sh = true → ∀ n, n < cs.length →
    (cs.fullNth L F n).shape = sh
  | .nil, _, _, n, hn => by simp [Segs.length] at hn
  | .cons c r, sh, h, n, hn => by
    simp only [Segs.wfAll, Bool.and_eq_true, decide_eq_true_eq] at h
    cases n with
    | zero => simp only [Segs.fullNth]; rw [full_shape L F c h.1.1, h.1.2]
    | succ n => simp only [Segs.fullNth]; exact fullNth_shape r sh h.2 n (by simpa [Segs.length] using hn)

/-! ### locality: an image depends on its index tuple only below its number of axes -/

theorem paste_local {acc cfl : Arr α} {sh csh : List Nat} {arr : List (Int × Int)}
    (hbox : boxOK sh arr csh = true) (hacc : acc.shape = sh) (hl : acc.Local) (hcs : cfl.shape = csh) (hcl : cfl.Local) :
    (acc.paste arr cfl).Local := by
  obtain ⟨hal, hcshl, _⟩ := (boxOK_iff _ _ _).1 hbox
  intro idx idx' h
  have h' : ∀ i, i < sh.length → idx i = idx' i := by
    intro i hi; exact h i (by show i < acc.shape.length; rw [hacc]; exact hi)
  have hb : inBox arr idx = inBox arr idx' := by
    rw [Bool.eq_iff_iff, inBox_iff, inBox_iff]
    constructor
    · intro hh i hi; rw [← h' i (by omega)]; exact hh i hi
    · intro hh i hi; rw [h' i (by omega)]; exact hh i hi
  show (if inBox arr idx then cfl.get (boxLo arr idx) else acc.get idx) =
    (if inBox arr idx' then cfl.get (boxLo arr idx') else acc.get idx')
  rw [hb]
  split
  · apply hcl
    intro i hi
    rw [hcs, hcshl] at hi
    simp only [boxLo, h' i hi]
  · exact hl idx idx' h

theorem orient_local {fl : Arr α} {S : List Nat} (rev : List Nat) {perm : List Nat} (hp : PermOK perm S.length)
    (hS : fl.shape = S) (hl : fl.Local) : ((fl.flip rev).transpose perm (invPerm perm)).Local := by
  intro idx idx' hh
  have hlen : ((fl.flip rev).transpose perm (invPerm perm)).shape.length = S.length := by
    show (gather perm fl.shape).length = _
    rw [gather_length, hp.len]
  show fl.get _ = fl.get _
  apply hl
  intro i hi
  rw [hS] at hi
  have e := hh _ (lt_of_lt_of_eq (hp.invlt i hi) hlen.symm)
  beta_reduce
  rw [e]

theorem pairUp_local {O : Arr α} (hl : O.Local) (ord : COrd) {bd : Nat} (hbd : bd < O.shape.length) :
    (O.pairUp ord bd).Local := by
  intro idx idx' h
  have hlen : (O.pairUp ord bd).shape.length = O.shape.length - 1 := delAt_length _ _ hbd
  have hk : ∀ k : Int, O.get (insAx bd k idx) = O.get (insAx bd k idx') := by
    intro k
    apply hl
    intro i hi
    simp only [insAx]
    by_cases h1 : i < bd
    · simp only [h1, if_true]; exact h i (by rw [hlen]; omega)
    · by_cases h2 : i = bd
      · simp [h2]
      · simp only [h1, h2, if_false]; exact h (i - 1) (by rw [hlen]; omega)
  show comb ord (O.get (insAx bd 0 idx)) (O.get (insAx bd 1 idx)) =
    comb ord (O.get (insAx bd 0 idx')) (O.get (insAx bd 1 idx'))
  rw [hk 0, hk 1]

theorem pairKept_local {O : Arr α} (hl : O.Local) (ord : COrd) (bd : Nat) : (O.pairKept ord bd).Local := by
  intro idx idx' h
  have hlen : (O.pairKept ord bd).shape.length = O.shape.length := halveAt_length _ _
  have hk : ∀ s : Int, O.get (dblAx bd s idx) = O.get (dblAx bd s idx') := by
    intro s
    apply hl
    intro i hi
    simp only [dblAx]
    rw [h i (by rw [hlen]; exact hi)]
  show comb ord (O.get (dblAx bd 0 idx)) (O.get (dblAx bd 1 idx)) =
    comb ord (O.get (dblAx bd 0 idx')) (O.get (dblAx bd 1 idx'))
  rw [hk 0, hk 1]

theorem lutMap_local {O : Arr α} (hl : O.Local) : O.lutMap.Local := by
  intro idx idx' h
  show Pairing.lut 0 (O.get idx) = Pairing.lut 0 (O.get idx')
  rw [hl idx idx' h]

theorem lutCols_local {O : Arr α} (hl : O.Local) (m : Nat) : (O.lutCols m).Local := by
  intro idx idx' h
  have hlen : (O.lutCols m).shape.length = O.shape.length + 1 := by
    show (O.shape ++ [m]).length = _
    simp
  show Pairing.lut (idx O.shape.length).toNat (O.get idx) = Pairing.lut (idx' O.shape.length).toNat (O.get idx')
  rw [h O.shape.length (by rw [hlen]; omega), hl idx idx' (fun i hi => h i (by rw [hlen]; omega))]

theorem subset_local {fl : Arr α} {S : List Nat} (sq : Bool) {defs : List NSlice} (hS : fl.shape = S) (hl : fl.Local)
    (hdl : defs.length = S.length) : ((fl.select defs).squeeze (keepAxes sq defs)).Local := by
  have hKl : (keepAxes sq defs).length = S.length := by rw [keepAxes_length, hdl]
  intro idx idx' hh
  have hlen : ((fl.select defs).squeeze (keepAxes sq defs)).shape.length = (keptAxes (keepAxes sq defs)).length :=
    pick_length _ _ (by rw [keepAxes_length]; show defs.length = (defs.map NSlice.count).length; simp)
  show fl.get _ = fl.get _
  apply hl
  intro i hi
  rw [hS] at hi
  simp only [selIdx, unsq]
  by_cases hk : (keepAxes sq defs).getD i false = true
  · simp only [hk, if_true]
    rw [hh _ (by rw [hlen]; exact rank_lt _ i (by omega) hk)]
  · have hk' : (keepAxes sq defs).getD i false = false := by simpa using hk
    simp only [hk', Bool.false_eq_true, if_false]

theorem pasteR_local {acc cfl : Arr α} {sh csh : List Nat} {arr : List (Int × Int)} (rv : List Bool)
    (hbox : boxOK sh arr csh = true) (hacc : acc.shape = sh) (hl : acc.Local) (hcs : cfl.shape = csh) (hcl : cfl.Local) :
    (acc.pasteR arr rv cfl).Local := by
  obtain ⟨hal, hcshl, _⟩ := (boxOK_iff _ _ _).1 hbox
  intro idx idx' h
  have h' : ∀ i, i < sh.length → idx i = idx' i := by
    intro i hi; exact h i (by show i < acc.shape.length; rw [hacc]; exact hi)
  have hb : inBox arr idx = inBox arr idx' := by
    rw [Bool.eq_iff_iff, inBox_iff, inBox_iff]
    constructor
    · intro hh i hi; rw [← h' i (by omega)]; exact hh i hi
    · intro hh i hi; rw [h' i (by omega)]; exact hh i hi
  show (if inBox arr idx then cfl.get (boxLoR arr rv idx) else acc.get idx) =
    (if inBox arr idx' then cfl.get (boxLoR arr rv idx') else acc.get idx')
  rw [hb]
  split
  · apply hcl
    intro i hi
    rw [hcs, hcshl] at hi
    simp only [boxLoR, h' i hi]
  · exact hl idx idx' h

mutual
theorem full_local : ∀ t : Seg, t.wf = true → (t.full L F).Local
  | .leaf _ s, _ => by
    intro idx idx' h
    show L _ _ = L _ _
    congr 1
    apply List.map_congr_left
    intro i hi
    exact h i (List.mem_range.1 hi)
  | .fleaf _ s, _ => by
    intro idx idx' h
    show L _ _ = L _ _
    congr 1
    apply List.map_congr_left
    intro i hi
    exact h i (List.mem_range.1 hi)
  | .orient rev perm p, h => by
    simp only [Seg.wf, Bool.and_eq_true] at h
    exact orient_local rev (isPerm_ok h.1.2) (full_shape L F p h.1.1) (full_local p h.1.1)
  | .cplx ord rev perm bd p, h => by
    simp only [Seg.wf, Bool.and_eq_true, decide_eq_true_eq] at h
    obtain ⟨⟨⟨⟨hpwf, hperm⟩, _⟩, hbd⟩, _⟩ := h
    have hp := isPerm_ok hperm
    refine pairUp_local (orient_local rev hp (full_shape L F p hpwf) (full_local p hpwf)) ord ?_
    show bd < (gather perm (p.full L F).shape).length
    rw [gather_length, hp.len]; exact hbd
  | .cplxK ord rev perm bd p, h => by
    simp only [Seg.wf, Bool.and_eq_true, decide_eq_true_eq] at h
    obtain ⟨⟨⟨⟨hpwf, hperm⟩, _⟩, _⟩, _⟩ := h
    exact pairKept_local (orient_local rev (isPerm_ok hperm) (full_shape L F p hpwf) (full_local p hpwf)) ord bd
  | .lut1 rev perm p, h => by
    simp only [Seg.wf, Bool.and_eq_true] at h
    exact lutMap_local (orient_local rev (isPerm_ok h.1.2) (full_shape L F p h.1.1) (full_local p h.1.1))
  | .lut2 m rev perm p, h => by
    simp only [Seg.wf, Bool.and_eq_true] at h
    exact lutCols_local (orient_local rev (isPerm_ok h.1.2) (full_shape L F p h.1.1) (full_local p h.1.1)) m
  | .subset sq defs p, h => by
    simp only [Seg.wf, Bool.and_eq_true] at h
    obtain ⟨hdl, _⟩ := (normalSub_iff _ _).1 h.1.2
    exact subset_local sq (full_shape L F p h.1.1) (full_local p h.1.1) hdl
  | .subsetR sq rdefs rev perm p, h => by
    simp only [Seg.wf, Bool.and_eq_true] at h
    obtain ⟨⟨⟨hpwf, hperm⟩, _⟩, hrn⟩ := h
    have hp := isPerm_ok hperm
    have hs := full_shape L F p hpwf
    refine subset_local sq (S := gather perm p.fshape) ?_ (orient_local rev hp hs (full_local p hpwf)) ?_
    · show gather perm (p.full L F).shape = _
      rw [hs]
    · rw [fmtSub_length, gather_length]
  | .bands bd cs, h => by
    simp only [Seg.wf, Bool.and_eq_true, decide_eq_true_eq] at h
    intro idx idx' hh
    have hlen : (Seg.full L F (.bands bd cs)).shape.length = cs.headShape.length + 1 :=
      insAt_length _ _ _ h.1.2
    rw [hlen] at hh
    show (cs.fullNth L F (idx bd).toNat).get (dropAx bd idx) = (cs.fullNth L F (idx' bd).toNat).get (dropAx bd idx')
    rw [hh bd (by omega)]
    apply fullNth_local cs cs.headShape h.1.1
    intro i hi
    simp only [dropAx]
    split
    · exact hh i (by omega)
    · exact hh (i + 1) (by omega)
  | .blocks s cs, h => by
    simp only [Seg.wf] at h
    exact fullOnto_local cs s h (Arr.const s F) rfl (fun _ _ _ => rfl)
theorem fullNth_local : ∀ (cs : Segs) (sh : List Nat), cs.wfAll sh = true → ∀ (n : Nat) (idx idx' : Idx),
    (∀ i, i < sh.length → idx i = idx' i) → (cs.fullNth L F n).get idx = (cs.fullNth L F n).get idx'
  | .nil, _, _, _, _, _, _ => rfl
  | .cons c r, sh, h, n, idx, idx', hh => by
    simp only [Segs.wfAll, Bool.and_eq_true, decide_eq_true_eq] at h
    cases n with
    | zero =>
      simp only [Segs.fullNth]
      apply full_local c h.1.1
      intro i hi
      rw [full_shape L F c h.1.1, h.1.2] at hi
      exact hh i hi
    | succ n => simp only [Segs.fullNth]; exact fullNth_local r sh h.2 n idx idx' hh
theorem fullOnto_local : ∀ (cs : Blks) (sh : List Nat), cs.wfAll sh = true → ∀ acc : Arr α, acc.shape = sh → acc.Local →
    (cs.fullOnto L F acc).Local
  | .nil, _, _, _, _, hl => hl
  | .cons arr c r, sh, h, acc, hs, hl => by
    simp only [Blks.wfAll, Bool.and_eq_true] at h
    simp only [Blks.fullOnto]
    exact fullOnto_local r sh h.2 _ hs (paste_local h.1.2 hs hl (full_shape L F c h.1.1) (full_local c h.1.1))
  | .rcons arr rv c r, sh, h, acc, hs, hl => by
    simp only [Blks.wfAll, Bool.and_eq_true] at h
    simp only [Blks.fullOnto]
    exact fullOnto_local r sh h.2 _ hs
      (pasteR_local rv h.1.1.1.2 hs hl (full_shape L F c h.1.1.1.1) (full_local c h.1.1.1.1))
end

/-! ### the supported set -/

theorem mem_indices {t : NSlice} {k : Int} (hk0 : 0 ≤ k) (hk : k < t.count) : t.start + k * t.step ∈ t.indices := by
  unfold NSlice.indices
  rw [mem_ap]
  exact ⟨k.toNat, by omega, by rw [show ((k.toNat : Nat) : Int) = k by omega]⟩

mutual
/-- a tree without kept-band complex formats and without reversed block definitions serves every subscript -/
theorem accepts_of_total : ∀ (t : Seg), t.total = true → ∀ ts : List NSlice, t.accepts ts = true
  | .leaf _ _, _, _ => rfl
  | .fleaf _ _, _, _ => rfl
  | .orient _ _ p, h, _ => by simp only [Seg.total] at h; simp only [Seg.accepts]; exact accepts_of_total p h _
  | .cplx _ _ _ _ p, h, _ => by simp only [Seg.total] at h; simp only [Seg.accepts]; exact accepts_of_total p h _
  | .cplxK _ _ _ _ _, h, _ => by simp [Seg.total] at h
  | .lut1 _ _ p, h, _ => by simp only [Seg.total] at h; simp only [Seg.accepts]; exact accepts_of_total p h _
  | .lut2 _ _ _ p, h, _ => by simp only [Seg.total] at h; simp only [Seg.accepts]; exact accepts_of_total p h _
  | .subset _ _ p, h, _ => by simp only [Seg.total] at h; simp only [Seg.accepts]; exact accepts_of_total p h _
  | .subsetR _ _ _ _ p, h, _ => by simp only [Seg.total] at h; simp only [Seg.accepts]; exact accepts_of_total p h _
  | .bands _ cs, h, _ => by
    simp only [Seg.total] at h
    simp only [Seg.accepts, List.all_eq_true]
    intro b _
    exact acceptsNth_of_total cs h _ _
  | .blocks _ cs, h, _ => by simp only [Seg.total] at h; simp only [Seg.accepts]; exact acceptsOnto_of_total cs h _
theorem acceptsNth_of_total : ∀ (cs : Segs), cs.total = true → ∀ n ts, cs.acceptsNth n ts = true
  | .nil, _, _, _ => rfl
  | .cons c _, h, 0, ts => by
    simp only [Segs.total, Bool.and_eq_true] at h
    simp only [Segs.acceptsNth]; exact accepts_of_total c h.1 ts
  | .cons _ r, h, n + 1, ts => by
    simp only [Segs.total, Bool.and_eq_true] at h
    simp only [Segs.acceptsNth]; exact acceptsNth_of_total r h.2 n ts
theorem acceptsOnto_of_total : ∀ (cs : Blks), cs.total = true → ∀ ts, cs.acceptsOnto ts = true
  | .nil, _, _ => rfl
  | .cons arr c r, h, ts => by
    simp only [Blks.total, Bool.and_eq_true] at h
    simp only [Blks.acceptsOnto, Bool.and_eq_true]
    refine ⟨?_, acceptsOnto_of_total r h.2 ts⟩
    cases overlaps ts arr with
    | none => rfl
    | some cp => exact accepts_of_total c h.1 _
  | .rcons arr rv c r, h, ts => by
    simp only [Blks.total, Bool.and_eq_true] at h
    simp only [Blks.acceptsOnto, Bool.and_eq_true]
    refine ⟨?_, acceptsOnto_of_total r h.2 ts⟩
    cases overlapsR ts arr rv with
    | none => rfl
    | some cp => exact accepts_of_total c h.1 _
end

/-! ### the refinement theorem -/

mutual
/-- **reading a sub-region equals slicing the full image**: for every well-formed segment tree and every
    normalised subscript that the code serves, what the code computes has the shape and the elements of `full[ts]` -/
theorem read_refines : ∀ (t : Seg), t.wf = true → ∀ ts : List NSlice, NormalSub t.fshape ts → t.accepts ts = true →
    Arr.Equiv (t.read L F ts) ((t.full L F).select ts)
  | .leaf _ _, _, _, _, _ => Arr.Equiv.refl _
  | .fleaf id s, h, ts, hts, _ => by
    simp only [Seg.wf, decide_eq_true_eq] at h
    exact fleaf_refines L F id s h ts hts
  | .orient rev perm p, h, ts, hts, ha => by
    simp only [Seg.wf, Bool.and_eq_true] at h
    simp only [Seg.accepts] at ha
    have hp := isPerm_ok h.1.2
    have ih := read_refines p h.1.1 (rawSub p.fshape rev (invPerm perm) ts) (rawSub_normal rev hp hts) ha
    exact orient_refines _ _ p.fshape rev perm ts hp (full_shape L F p h.1.1) (full_local L F p h.1.1) hts ih
  | .cplx ord rev perm bd p, h, ts, hts, ha => by
    simp only [Seg.wf, Bool.and_eq_true, decide_eq_true_eq] at h
    simp only [Seg.accepts] at ha
    obtain ⟨⟨⟨⟨hpwf, hperm⟩, _⟩, hbd⟩, h2⟩ := h
    have hp := isPerm_ok hperm
    have hbd' : bd < (gather perm p.fshape).length := by rw [gather_length, hp.len]; exact hbd
    obtain ⟨hts', hl⟩ := cplx_sub hbd' h2 hts
    have ih := read_refines p hpwf _ (rawSub_normal rev hp hts') ha
    have ho := orient_refines _ _ p.fshape rev perm _ hp (full_shape L F p hpwf) (full_local L F p hpwf) hts' ih
    exact cplx_refines _ _ ord bd ts (by omega) ho
  | .cplxK ord rev perm bd p, h, ts, hts, ha => by
    simp only [Seg.wf, Bool.and_eq_true, decide_eq_true_eq] at h
    simp only [Seg.accepts, Bool.and_eq_true, decide_eq_true_eq] at ha
    obtain ⟨⟨⟨⟨hpwf, hperm⟩, _⟩, hbd⟩, heven⟩ := h
    obtain ⟨⟨hstep, hnorm⟩, hacc⟩ := ha
    have hp := isPerm_ok hperm
    have hbd' : bd < (gather perm p.fshape).length := by rw [gather_length, hp.len]; exact hbd
    have hts0 : NormalSub (halveAt bd (gather perm p.fshape)) ts := hts
    have htl : ts.length = p.fshape.length := by
      have := ((normalSub_iff _ _).1 hts0).1
      rwa [halveAt_length, gather_length, hp.len] at this
    by_cases hr : perm.getD bd 0 ∈ rev
    · exact absurd hnorm (rawSubK_reversed_not_normal rev hp hbd hr hts0 hstep heven)
    · have heq := rawSubK_eq rev hp hbd hr ts htl
      have hts' : NormalSub (gather perm p.fshape) (dblAt bd ts) := dblAt_normal hbd' hts0 hstep
      rw [heq] at hacc
      have ih := read_refines p hpwf _ (rawSub_normal rev hp hts') hacc
      have ho := orient_refines _ _ p.fshape rev perm _ hp (full_shape L F p hpwf) (full_local L F p hpwf) hts' ih
      have := kept_refines _ _ ord bd ts (by omega) hstep ho
      simp only [Seg.read, Seg.full, heq]
      exact this
  | .lut1 rev perm p, h, ts, hts, ha => by
    simp only [Seg.wf, Bool.and_eq_true] at h
    simp only [Seg.accepts] at ha
    have hp := isPerm_ok h.1.2
    have ih := read_refines p h.1.1 (rawSub p.fshape rev (invPerm perm) ts) (rawSub_normal rev hp hts) ha
    have ho := orient_refines _ _ p.fshape rev perm ts hp (full_shape L F p h.1.1) (full_local L F p h.1.1) hts ih
    exact lutMap_refines _ _ ts ho
  | .lut2 m rev perm p, h, ts, hts, ha => by
    simp only [Seg.wf, Bool.and_eq_true] at h
    simp only [Seg.accepts] at ha
    have hp := isPerm_ok h.1.2
    have hts0 : NormalSub (gather perm p.fshape ++ [m]) ts := hts
    have hG : (gather perm p.fshape).length = p.fshape.length := by rw [gather_length, hp.len]
    obtain ⟨hn0, _, _⟩ := take_normal hts0
    rw [hG] at hn0
    have hrt := rawSub_take rev hp (S := p.fshape) ts
    rw [← hrt] at ha
    have ih := read_refines p h.1.1 _ (rawSub_normal rev hp hn0) ha
    have ho := orient_refines _ _ p.fshape rev perm _ hp (full_shape L F p h.1.1) (full_local L F p h.1.1) hn0 ih
    have hOs : (((p.full L F).flip rev).transpose perm (invPerm perm)).shape = gather perm p.fshape := by
      show gather perm (p.full L F).shape = _
      rw [full_shape L F p h.1.1]
    have := lutCols_refines _ _ (gather perm p.fshape) m ts hOs
      (orient_local rev hp (full_shape L F p h.1.1) (full_local L F p h.1.1)) hts0 (by rw [hG]; exact ho)
    simp only [Seg.read, Seg.full, ← hrt]
    rw [gather_length] at this
    exact this
  | .subset sq defs p, h, ts, hts, ha => by
    simp only [Seg.wf, Bool.and_eq_true] at h
    simp only [Seg.accepts] at ha
    have hd : NormalSub p.fshape defs := h.1.2
    have ih := read_refines p h.1.1 (composeSq p.fshape defs (keepAxes sq defs) ts) (subset_sub hd hts).1 ha
    exact subset_refines _ _ p.fshape sq defs ts (full_shape L F p h.1.1) (full_local L F p h.1.1) hd hts ih
  | .subsetR sq rdefs rev perm p, h, ts, hts, ha => by
    simp only [Seg.wf, Bool.and_eq_true] at h
    simp only [Seg.accepts] at ha
    obtain ⟨⟨⟨hpwf, hperm⟩, _⟩, hrn⟩ := h
    have hp := isPerm_ok hperm
    have hd : NormalSub (gather perm p.fshape) (fmtSub p.fshape rev perm rdefs) := fmtSub_normal rev hp hrn
    have hpts := (subset_sub hd hts).1
    have ih := read_refines p hpwf _ (rawSub_normal rev hp hpts) ha
    have ho := orient_refines _ _ p.fshape rev perm _ hp (full_shape L F p hpwf) (full_local L F p hpwf) hpts ih
    have hOs : (((p.full L F).flip rev).transpose perm (invPerm perm)).shape = gather perm p.fshape := by
      show gather perm (p.full L F).shape = _
      rw [full_shape L F p hpwf]
    exact subset_refines _ _ (gather perm p.fshape) sq _ ts hOs
      (orient_local rev hp (full_shape L F p hpwf) (full_local L F p hpwf)) hd hts ho
  | .bands bd cs, h, ts, hts, ha => by
    simp only [Seg.wf, Bool.and_eq_true, decide_eq_true_eq] at h
    simp only [Seg.accepts, List.all_eq_true] at ha
    obtain ⟨⟨hwf, hbd⟩, _⟩ := h
    obtain ⟨hsub, hn⟩ := bands_sub hbd hts
    have htl : ts.length = cs.headShape.length + 1 := by
      have := ((normalSub_iff _ _).1 hts).1
      rwa [show (Seg.bands bd cs).fshape = insAt bd cs.length cs.headShape from rfl, insAt_length _ _ _ hbd] at this
    refine ⟨rfl, fun idx hidx => ?_⟩
    have hidx' : InR (ts.map NSlice.count) idx := hidx
    have hk := hidx' bd (by simp; omega)
    rw [dimAt_map_count] at hk
    obtain ⟨e, h0, h1⟩ := band_index hn hk.1 hk.2
    show (cs.readNth L F ((sliceAt ts bd).indices.getD (idx bd).toNat 0).toNat (delAt bd ts)).get (dropAx bd idx) =
      (cs.fullNth L F (selIdx ts idx bd).toNat).get (dropAx bd (selIdx ts idx))
    rw [e, show selIdx ts idx bd = (sliceAt ts bd).start + idx bd * (sliceAt ts bd).step from rfl]
    have ih := readNth_refines cs cs.headShape hwf ((sliceAt ts bd).start + idx bd * (sliceAt ts bd).step).toNat
      (by omega) (delAt bd ts) hsub (ha _ (mem_indices hk.1 hk.2))
    rw [ih.2]
    · show (cs.fullNth L F _).get _ = _
      rw [dropAx_selIdx bd ts (by omega)]
    · rw [ih.1]
      exact dropAx_inR (by omega) hidx'
  | .blocks s cs, h, ts, hts, ha => by
    simp only [Seg.wf] at h
    simp only [Seg.accepts] at ha
    have := readOnto_refines cs s h ts hts ha (Arr.const (ts.map NSlice.count) F) (Arr.const s F) rfl (fun _ _ => rfl)
    exact ⟨this.1, fun idx hidx => this.2 idx (this.1 ▸ hidx)⟩
theorem readNth_refines : ∀ (cs : Segs) (sh : List Nat), cs.wfAll sh = true → ∀ n, n < cs.length →
    ∀ ts : List NSlice, NormalSub sh ts → cs.acceptsNth n ts = true →
    Arr.Equiv (cs.readNth L F n ts) ((cs.fullNth L F n).select ts)
  | .nil, _, _, n, hn, _, _, _ => by simp [Segs.length] at hn
  | .cons c r, sh, h, n, hn, ts, hts, ha => by
    simp only [Segs.wfAll, Bool.and_eq_true, decide_eq_true_eq] at h
    cases n with
    | zero =>
      simp only [Segs.readNth, Segs.fullNth]
      exact read_refines c h.1.1 ts (h.1.2 ▸ hts) ha
    | succ n =>
      simp only [Segs.readNth, Segs.fullNth]
      exact readNth_refines r sh h.2 n (by simpa [Segs.length] using hn) ts hts ha
theorem readOnto_refines : ∀ (cs : Blks) (sh : List Nat), cs.wfAll sh = true → ∀ ts : List NSlice, NormalSub sh ts →
    cs.acceptsOnto ts = true →
    ∀ out acc : Arr α, out.shape = ts.map NSlice.count →
    (∀ idx, InR (ts.map NSlice.count) idx → out.get idx = acc.get (selIdx ts idx)) →
    (cs.readOnto L F ts out).shape = ts.map NSlice.count ∧
    ∀ idx, InR (ts.map NSlice.count) idx → (cs.readOnto L F ts out).get idx = (cs.fullOnto L F acc).get (selIdx ts idx)
  | .nil, _, _, _, _, _, _, _, hs, hout => ⟨hs, hout⟩
  | .cons arr c r, sh, h, ts, hts, ha, out, acc, hs, hout => by
    simp only [Blks.wfAll, Bool.and_eq_true] at h
    simp only [Blks.acceptsOnto, Bool.and_eq_true] at ha
    obtain ⟨⟨hcwf, hbox⟩, hrwf⟩ := h
    cases ho : overlaps ts arr with
    | none =>
      simp only [Blks.readOnto, Blks.fullOnto, ho]
      apply readOnto_refines r sh hrwf ts hts ha.2 out _ hs
      intro idx hidx
      rw [hout idx hidx, block_none acc (c.full L F) hbox hts ho idx hidx]
    | some cp =>
      obtain ⟨csub, psub⟩ := cp
      simp only [Blks.readOnto, Blks.fullOnto, ho]
      obtain ⟨hcl, _, hax⟩ := block_axes hbox hts ho
      obtain ⟨_, hcshl, _⟩ := (boxOK_iff _ _ _).1 hbox
      have hcn : NormalSub c.fshape csub := by
        rw [normalSub_iff]
        refine ⟨by omega, fun i hi => ?_⟩
        obtain ⟨k0, k1, _, _, _, _, _, e6, _⟩ := hax i (by omega)
        exact e6
      have hca : c.accepts csub = true := by
        have := ha.1
        rw [ho] at this
        exact this
      have ihc := read_refines c hcwf csub hcn hca
      apply readOnto_refines r sh hrwf ts hts ha.2 (out.paste (sliceBox psub) (c.read L F csub))
        (acc.paste arr (c.full L F)) hs
      intro idx hidx
      exact block_some out acc _ _ hbox hts ho (full_shape L F c hcwf) (full_local L F c hcwf) ihc idx hidx
        (hout idx hidx)
  | .rcons arr rv c r, sh, h, ts, hts, ha, out, acc, hs, hout => by
    simp only [Blks.wfAll, Bool.and_eq_true, decide_eq_true_eq] at h
    simp only [Blks.acceptsOnto, Bool.and_eq_true] at ha
    obtain ⟨⟨⟨⟨hcwf, hbox⟩, hrl⟩, _⟩, hrwf⟩ := h
    obtain ⟨hal, hcshl, _⟩ := (boxOK_iff _ _ _).1 hbox
    have htl := ((normalSub_iff _ _).1 hts).1
    cases ho : overlapsR ts arr rv with
    | none =>
      have hs0 := overlapsR_spec ts arr rv (by omega) (by omega)
      rw [ho] at hs0
      simp only [Blks.readOnto, Blks.fullOnto, ho]
      apply readOnto_refines r sh hrwf ts hts ha.2 out _ hs
      intro idx hidx
      rw [hout idx hidx, block_noneR acc (c.full L F) hbox hts hs0 idx hidx]
    | some cp =>
      obtain ⟨csub, psub⟩ := cp
      simp only [Blks.readOnto, Blks.fullOnto, ho]
      obtain ⟨hcl, _, _, hax⟩ := block_axesR hbox hrl hts ho
      have hcn : NormalSub c.fshape csub := by
        rw [normalSub_iff]
        refine ⟨by omega, fun i hi => ?_⟩
        obtain ⟨k0, k1, _, _, _, _, _, e6, _⟩ := hax i (by omega)
        exact e6
      have hca : c.accepts csub = true := by
        have := ha.1
        rw [ho] at this
        exact this
      have ihc := read_refines c hcwf csub hcn hca
      apply readOnto_refines r sh hrwf ts hts ha.2 (out.paste (sliceBox psub) (c.read L F csub))
        (acc.pasteR arr rv (c.full L F)) hs
      intro idx hidx
      exact block_someR out acc _ _ hbox hrl hts ho (full_shape L F c hcwf) (full_local L F c hcwf) ihc idx hidx
        (hout idx hidx)
end

/-- the same for trees in which no node ever refuses (`Seg.total`): no premise on the subscript but normality -/
theorem read_refines_total (t : Seg) (h : t.wf = true) (htot : t.total = true) (ts : List NSlice)
    (hts : NormalSub t.fshape ts) : Arr.Equiv (t.read L F ts) ((t.full L F).select ts) :=
  read_refines L F t h ts hts (accepts_of_total t htot ts)

/-- the same elements in the same (row-major) order -/
theorem read_eq_select (t : Seg) (h : t.wf = true) (ts : List NSlice) (hts : NormalSub t.fshape ts)
    (ha : t.accepts ts = true) : (t.read L F ts).toList = ((t.full L F).select ts).toList :=
  Arr.Equiv.toList_eq (read_refines L F t h ts hts ha)

/-- the shape of a read is the tuple of slice counts, whatever lies below -/
theorem read_shape (t : Seg) (h : t.wf = true) (ts : List NSlice) (hts : NormalSub t.fshape ts)
    (ha : t.accepts ts = true) : (t.read L F ts).shape = ts.map NSlice.count :=
  (read_refines L F t h ts hts ha).1

/-- **what a raw-basis subset shows**: the full image of `SubsetSegment(parent, rdefs, 'raw')` is the parent's
    orientation (flip, transpose) of the raw selection `raw[rdefs]`, with the length-one axes squeezed -/
theorem subsetR_full_raw (sq : Bool) (rdefs : List NSlice) (rev perm : List Nat) (p : Seg)
    (h : (Seg.subsetR sq rdefs rev perm p).wf = true) :
    Arr.Equiv ((Seg.subsetR sq rdefs rev perm p).full L F)
      (((((p.full L F).select rdefs).flip rev).transpose perm (invPerm perm)).squeeze
        (keepAxes sq (fmtSub p.fshape rev perm rdefs))) := by
  simp only [Seg.wf, Bool.and_eq_true] at h
  obtain ⟨⟨⟨hpwf, hperm⟩, _⟩, hrn⟩ := h
  have hp := isPerm_ok hperm
  have he := fmtSub_orient (p.full L F) p.fshape rev perm rdefs hp (full_shape L F p hpwf) (full_local L F p hpwf) hrn
  have hd : NormalSub (gather perm p.fshape) (fmtSub p.fshape rev perm rdefs) := fmtSub_normal rev hp hrn
  obtain ⟨hdl, _⟩ := (normalSub_iff _ _).1 hd
  apply squeeze_congr _ he
  · rw [keepAxes_length]; show _ = ((fmtSub p.fshape rev perm rdefs).map NSlice.count).length; simp
  · intro i hi hk
    rw [keepAxes_length] at hi
    rw [keepAxes_getD _ _ i hi] at hk
    have : sq = true ∧ (sliceAt (fmtSub p.fshape rev perm rdefs) i).count = 1 := by simpa using hk
    show dimAt ((fmtSub p.fshape rev perm rdefs).map NSlice.count) i = 1
    rw [dimAt_map_count]; exact this.2

end

/-! ### reads never leave the stored arrays -/

/-- `r` is an index tuple inside an array of the given shape -/
def InRL (shape : List Nat) (r : List Int) : Prop :=
  r.length = shape.length ∧ ∀ i, i < shape.length → 0 ≤ r.getD i 0 ∧ r.getD i 0 < (dimAt shape i : Int)

/-- the sample is the fill value or lies inside one of the listed stored arrays -/
def Owns (lv : List (Nat × List Nat)) : Src → Prop
  | .fill => True
  | .leaf id r => ∃ shape, (id, shape) ∈ lv ∧ InRL shape r
  | .pair a b => Owns lv a ∧ Owns lv b
  | .polar a b => Owns lv a ∧ Owns lv b
  | .lut _ a => Owns lv a

theorem Owns.mono {lv lv' : List (Nat × List Nat)} (h : ∀ x ∈ lv, x ∈ lv') : ∀ {s : Src}, Owns lv s → Owns lv' s
  | .fill, _ => trivial
  | .leaf _ _, ho => by obtain ⟨sh, hm, hr⟩ := ho; exact ⟨sh, h _ hm, hr⟩
  | .pair _ _, ho => ⟨Owns.mono h ho.1, Owns.mono h ho.2⟩
  | .polar _ _, ho => ⟨Owns.mono h ho.1, Owns.mono h ho.2⟩
  | .lut _ a, ho => Owns.mono (s := a) h ho

theorem insAx_inR_shape {G : List Nat} {bd : Nat} (hbd : bd < G.length) {idx : Idx} (h : InR (delAt bd G) idx)
    {k : Int} (hk0 : 0 ≤ k) (hk : k < (dimAt G bd : Int)) : InR G (insAx bd k idx) := by
  rw [InR, delAt_length _ _ hbd] at h
  intro i hi
  simp only [insAx]
  by_cases c1 : i < bd
  · have := h i (by omega)
    rw [dimAt_delAt _ _ (by omega), if_pos c1] at this
    simpa [c1] using this
  · by_cases c2 : i = bd
    · subst c2; simp; omega
    · have := h (i - 1) (by omega)
      rw [dimAt_delAt _ _ (by omega), if_neg (by omega), show i - 1 + 1 = i by omega] at this
      simpa [c1, c2] using this

theorem orient_ix_inR {S rev perm : List Nat} (hp : PermOK perm S.length) {idx : Idx}
    (h : InR (gather perm S) idx) :
    InR S (fun i => if i ∈ rev then (dimAt S i : Int) - 1 - idx ((invPerm perm).getD i 0) else idx ((invPerm perm).getD i 0)) := by
  intro i hi
  have := h _ (by rw [gather_length, hp.len]; exact hp.invlt i hi)
  rw [dimAt_gather, if_pos (by rw [hp.len]; exact hp.invlt i hi), hp.pinv i hi] at this
  beta_reduce
  split <;> omega

theorem subset_ix_inR {S : List Nat} {sq : Bool} {defs : List NSlice} (hd : NormalSub S defs) {idx : Idx}
    (h : InR (pick (keepAxes sq defs) (defs.map NSlice.count)) idx) :
    InR S (selIdx defs (unsq (keepAxes sq defs) idx)) := by
  obtain ⟨hdl, hdn⟩ := (normalSub_iff _ _).1 hd
  have hKl : (keepAxes sq defs).length = S.length := by rw [keepAxes_length, hdl]
  have hpl : (pick (keepAxes sq defs) (defs.map NSlice.count)).length = (keptAxes (keepAxes sq defs)).length :=
    pick_length _ _ (by simp [hKl, hdl])
  intro i hi
  simp only [selIdx, unsq]
  by_cases hk : (keepAxes sq defs).getD i false = true
  · simp only [hk, if_true]
    have := h _ (by rw [hpl]; exact rank_lt _ i (by omega) hk)
    rw [show dimAt (pick (keepAxes sq defs) (defs.map NSlice.count)) (rank (keepAxes sq defs) i) = (sliceAt defs i).count from by
      unfold dimAt; rw [getD_pick_rank 0 _ _ i (by simp [hKl, hdl]) (by omega) hk]; exact dimAt_map_count defs i] at this
    exact Normal.index_range (hdn i hi) _ this.1 this.2
  · have hk' : (keepAxes sq defs).getD i false = false := by simpa using hk
    simp only [hk', Bool.false_eq_true, if_false]
    have hc := Normal.count_pos (hdn i hi)
    exact Normal.index_range (hdn i hi) 0 (by omega) (by omega)

theorem bands_ix_inR {sh : List Nat} {bd nb : Nat} (hbd : bd ≤ sh.length) {idx : Idx}
    (h : InR (insAt bd nb sh) idx) : InR sh (dropAx bd idx) ∧ 0 ≤ idx bd ∧ idx bd < nb := by
  rw [InR, insAt_length _ _ _ hbd] at h
  constructor
  · intro i hi
    simp only [dropAx]
    by_cases hlt : i < bd
    · have := h i (by omega)
      rw [dimAt_insAt _ _ _ hbd, if_pos hlt] at this
      simpa [hlt] using this
    · have := h (i + 1) (by omega)
      rw [dimAt_insAt _ _ _ hbd, if_neg (by omega), if_neg (by omega)] at this
      simpa [hlt] using this
  · have := h bd (by omega)
    rwa [dimAt_insAt _ _ _ hbd, if_neg (by omega), if_pos rfl] at this

theorem box_ix_inR {sh csh : List Nat} {arr : List (Int × Int)} (hbox : boxOK sh arr csh = true) {idx : Idx}
    (hin : inBox arr idx = true) : InR csh (boxLo arr idx) := by
  obtain ⟨hal, hcl, hb⟩ := (boxOK_iff _ _ _).1 hbox
  rw [inBox_iff] at hin
  intro i hi
  have h1 := hin i (by omega)
  have h2 := hb i (by omega)
  simp only [boxLo]
  omega

theorem dblAx_inR_shape {G : List Nat} {bd : Nat} (heven : dimAt G bd % 2 = 0) {idx : Idx}
    (h : InR (halveAt bd G) idx) {s : Int} (hs0 : 0 ≤ s) (hs : s < 2) : InR G (dblAx bd s idx) := by
  rw [InR, halveAt_length] at h
  intro i hi
  have := h i hi
  rw [dimAt_halveAt, if_pos hi] at this
  simp only [dblAx]
  by_cases hb : i = bd
  · subst hb
    simp only [if_true] at this ⊢
    have e : ((dimAt G i / 2 : Nat) : Int) = (dimAt G i : Int) / 2 := by simp
    omega
  · simp only [hb, if_false] at this ⊢
    exact this

theorem prefix_inR {G : List Nat} {m : Nat} {idx : Idx} (h : InR (G ++ [m]) idx) : InR G idx := by
  intro i hi
  have := h i (by simp; omega)
  have e : dimAt (G ++ [m]) i = dimAt G i := by
    unfold dimAt
    rw [List.getD_eq_getElem?_getD, List.getD_eq_getElem?_getD, List.getElem?_append_left hi]
  rwa [e] at this

mutual
/-- every element of the full image is the fill value or a sample inside one of the tree's stored arrays -/
theorem full_in_store : ∀ (t : Seg), t.wf = true → ∀ idx, InR t.fshape idx → Owns t.leaves (t.fullSrc.get idx)
  | .leaf id s, _, idx, h => by
    refine ⟨s, by simp [Seg.leaves], by simp, fun i hi => ?_⟩
    rw [getD_map_range, if_pos hi]
    exact h i hi
  | .fleaf id s, _, idx, h => by
    refine ⟨s, by simp [Seg.leaves], by simp, fun i hi => ?_⟩
    rw [getD_map_range, if_pos hi]
    exact h i hi
  | .orient rev perm p, h, idx, hidx => by
    simp only [Seg.wf, Bool.and_eq_true] at h
    have hp := isPerm_ok h.1.2
    have ih := full_in_store p h.1.1 _ (orient_ix_inR (rev := rev) hp hidx)
    have hs : (p.full Src.leaf Src.fill).shape = p.fshape := full_shape _ _ p h.1.1
    have e : (Seg.orient rev perm p).fullSrc.get idx = p.fullSrc.get (fun i =>
        if i ∈ rev then (dimAt (p.full Src.leaf Src.fill).shape i : Int) - 1 - idx ((invPerm perm).getD i 0)
        else idx ((invPerm perm).getD i 0)) := rfl
    rw [e, hs]
    exact ih
  | .cplx ord rev perm bd p, h, idx, hidx => by
    simp only [Seg.wf, Bool.and_eq_true, decide_eq_true_eq] at h
    obtain ⟨⟨⟨⟨hpwf, hperm⟩, _⟩, hbd⟩, h2⟩ := h
    have hp := isPerm_ok hperm
    have hbd' : bd < (gather perm p.fshape).length := by rw [gather_length, hp.len]; exact hbd
    have hs : (p.full Src.leaf Src.fill).shape = p.fshape := full_shape _ _ p hpwf
    have hk : ∀ k : Int, 0 ≤ k → k < 2 → Owns p.leaves (p.fullSrc.get (fun i =>
        if i ∈ rev then (dimAt (p.full Src.leaf Src.fill).shape i : Int) - 1 - insAx bd k idx ((invPerm perm).getD i 0)
        else insAx bd k idx ((invPerm perm).getD i 0))) := by
      intro k hk0 hk2
      rw [hs]
      exact full_in_store p hpwf _ (orient_ix_inR (rev := rev) hp
        (insAx_inR_shape hbd' hidx hk0 (by rw [h2]; exact hk2)))
    show Owns p.leaves (comb ord _ _)
    cases ord
    · exact ⟨hk 0 (by decide) (by decide), hk 1 (by decide) (by decide)⟩
    · exact ⟨hk 1 (by decide) (by decide), hk 0 (by decide) (by decide)⟩
    · exact ⟨hk 0 (by decide) (by decide), hk 1 (by decide) (by decide)⟩
    · exact ⟨hk 1 (by decide) (by decide), hk 0 (by decide) (by decide)⟩
  | .cplxK ord rev perm bd p, h, idx, hidx => by
    simp only [Seg.wf, Bool.and_eq_true, decide_eq_true_eq] at h
    obtain ⟨⟨⟨⟨hpwf, hperm⟩, _⟩, hbd⟩, heven⟩ := h
    have hp := isPerm_ok hperm
    have hs : (p.full Src.leaf Src.fill).shape = p.fshape := full_shape _ _ p hpwf
    have hk : ∀ k : Int, 0 ≤ k → k < 2 → Owns p.leaves (p.fullSrc.get (fun i =>
        if i ∈ rev then (dimAt (p.full Src.leaf Src.fill).shape i : Int) - 1 - dblAx bd k idx ((invPerm perm).getD i 0)
        else dblAx bd k idx ((invPerm perm).getD i 0))) := by
      intro k hk0 hk2
      rw [hs]
      exact full_in_store p hpwf _ (orient_ix_inR (rev := rev) hp (dblAx_inR_shape heven hidx hk0 hk2))
    show Owns p.leaves (comb ord _ _)
    cases ord
    · exact ⟨hk 0 (by decide) (by decide), hk 1 (by decide) (by decide)⟩
    · exact ⟨hk 1 (by decide) (by decide), hk 0 (by decide) (by decide)⟩
    · exact ⟨hk 0 (by decide) (by decide), hk 1 (by decide) (by decide)⟩
    · exact ⟨hk 1 (by decide) (by decide), hk 0 (by decide) (by decide)⟩
  | .lut1 rev perm p, h, idx, hidx => by
    simp only [Seg.wf, Bool.and_eq_true] at h
    have hp := isPerm_ok h.1.2
    have ih := full_in_store p h.1.1 _ (orient_ix_inR (rev := rev) hp hidx)
    have hs : (p.full Src.leaf Src.fill).shape = p.fshape := full_shape _ _ p h.1.1
    have e : (Seg.lut1 rev perm p).fullSrc.get idx = Src.lut 0 (p.fullSrc.get (fun i =>
        if i ∈ rev then (dimAt (p.full Src.leaf Src.fill).shape i : Int) - 1 - idx ((invPerm perm).getD i 0)
        else idx ((invPerm perm).getD i 0))) := rfl
    rw [e, hs]
    exact ih
  | .lut2 m rev perm p, h, idx, hidx => by
    simp only [Seg.wf, Bool.and_eq_true] at h
    have hp := isPerm_ok h.1.2
    have hidx' : InR (gather perm p.fshape ++ [m]) idx := hidx
    have ih := full_in_store p h.1.1 _ (orient_ix_inR (rev := rev) hp (prefix_inR hidx'))
    have hs : (p.full Src.leaf Src.fill).shape = p.fshape := full_shape _ _ p h.1.1
    have e : (Seg.lut2 m rev perm p).fullSrc.get idx =
        Src.lut (idx (gather perm (p.full Src.leaf Src.fill).shape).length).toNat (p.fullSrc.get (fun i =>
        if i ∈ rev then (dimAt (p.full Src.leaf Src.fill).shape i : Int) - 1 - idx ((invPerm perm).getD i 0)
        else idx ((invPerm perm).getD i 0))) := rfl
    rw [e, hs]
    exact ih
  | .subset sq defs p, h, idx, hidx => by
    simp only [Seg.wf, Bool.and_eq_true] at h
    exact full_in_store p h.1.1 _ (subset_ix_inR h.1.2 hidx)
  | .subsetR sq rdefs rev perm p, h, idx, hidx => by
    simp only [Seg.wf, Bool.and_eq_true] at h
    obtain ⟨⟨⟨hpwf, hperm⟩, _⟩, hrn⟩ := h
    have hp := isPerm_ok hperm
    have hd : NormalSub (gather perm p.fshape) (fmtSub p.fshape rev perm rdefs) := fmtSub_normal rev hp hrn
    have ih := full_in_store p hpwf _ (orient_ix_inR (rev := rev) hp (subset_ix_inR hd hidx))
    have hs : (p.full Src.leaf Src.fill).shape = p.fshape := full_shape _ _ p hpwf
    have e : (Seg.subsetR sq rdefs rev perm p).fullSrc.get idx = p.fullSrc.get (fun i =>
        if i ∈ rev then (dimAt (p.full Src.leaf Src.fill).shape i : Int) - 1 -
          selIdx (fmtSub p.fshape rev perm rdefs) (unsq (keepAxes sq (fmtSub p.fshape rev perm rdefs)) idx)
            ((invPerm perm).getD i 0)
        else selIdx (fmtSub p.fshape rev perm rdefs) (unsq (keepAxes sq (fmtSub p.fshape rev perm rdefs)) idx)
            ((invPerm perm).getD i 0)) := rfl
    rw [e, hs]
    exact ih
  | .bands bd cs, h, idx, hidx => by
    simp only [Seg.wf, Bool.and_eq_true, decide_eq_true_eq] at h
    obtain ⟨h1, h2, h3⟩ := bands_ix_inR h.1.2 hidx
    exact fullNth_in_store cs cs.headShape h.1.1 (idx bd).toNat (by omega) _ h1
  | .blocks s cs, h, idx, hidx => by
    simp only [Seg.wf] at h
    exact fullOnto_in_store cs s h (Arr.const s Src.fill) (fun _ _ => trivial) idx hidx
theorem fullNth_in_store : ∀ (cs : Segs) (sh : List Nat), cs.wfAll sh = true → ∀ n, n < cs.length →
    ∀ idx, InR sh idx → Owns cs.leaves ((cs.fullNth Src.leaf Src.fill n).get idx)
  | .nil, _, _, n, hn, _, _ => by simp [Segs.length] at hn
  | .cons c r, sh, h, n, hn, idx, hidx => by
    simp only [Segs.wfAll, Bool.and_eq_true, decide_eq_true_eq] at h
    cases n with
    | zero =>
      simp only [Segs.fullNth]
      exact (full_in_store c h.1.1 idx (h.1.2 ▸ hidx)).mono (fun x hx => by simp [Segs.leaves, hx])
    | succ n =>
      simp only [Segs.fullNth]
      exact (fullNth_in_store r sh h.2 n (by simpa [Segs.length] using hn) idx hidx).mono
        (fun x hx => by simp [Segs.leaves, hx])
theorem fullOnto_in_store : ∀ (cs : Blks) (sh : List Nat), cs.wfAll sh = true → ∀ acc : Arr Src,
    (∀ idx, InR sh idx → Owns [] (acc.get idx)) →
    ∀ idx, InR sh idx → Owns cs.leaves ((cs.fullOnto Src.leaf Src.fill acc).get idx)
  | .nil, _, _, acc, hacc, idx, hidx => (hacc idx hidx).mono (fun x hx => by simp at hx)
  | .cons arr c r, sh, h, acc, hacc, idx, hidx => by
    simp only [Blks.wfAll, Bool.and_eq_true] at h
    simp only [Blks.fullOnto]
    -- generalise: the canvas may already own samples of earlier blocks
    exact fullOnto_in_store' r sh h.2 (c.leaves) (acc.paste arr (c.full Src.leaf Src.fill)) (by
      intro idx hidx
      show Owns c.leaves (if inBox arr idx then (c.full Src.leaf Src.fill).get (boxLo arr idx) else acc.get idx)
      split
      · rename_i hin
        exact full_in_store c h.1.1 _ (box_ix_inR h.1.2 hin)
      · exact (hacc idx hidx).mono (fun x hx => by simp at hx)) idx hidx
  | .rcons arr rv c r, sh, h, acc, hacc, idx, hidx => by
    simp only [Blks.wfAll, Bool.and_eq_true] at h
    simp only [Blks.fullOnto]
    exact fullOnto_in_store' r sh h.2 (c.leaves) (acc.pasteR arr rv (c.full Src.leaf Src.fill)) (by
      intro idx hidx
      show Owns c.leaves (if inBox arr idx then (c.full Src.leaf Src.fill).get (boxLoR arr rv idx) else acc.get idx)
      split
      · rename_i hin
        exact full_in_store c h.1.1.1.1 _ (boxR_ix_inR rv h.1.1.1.2 hin)
      · exact (hacc idx hidx).mono (fun x hx => by simp at hx)) idx hidx
theorem fullOnto_in_store' : ∀ (cs : Blks) (sh : List Nat), cs.wfAll sh = true → ∀ (lv : List (Nat × List Nat))
    (acc : Arr Src), (∀ idx, InR sh idx → Owns lv (acc.get idx)) →
    ∀ idx, InR sh idx → Owns (lv ++ cs.leaves) ((cs.fullOnto Src.leaf Src.fill acc).get idx)
  | .nil, _, _, lv, acc, hacc, idx, hidx => (hacc idx hidx).mono (fun x hx => by simp [Blks.leaves, hx])
  | .cons arr c r, sh, h, lv, acc, hacc, idx, hidx => by
    simp only [Blks.wfAll, Bool.and_eq_true] at h
    simp only [Blks.fullOnto]
    have := fullOnto_in_store' r sh h.2 (lv ++ c.leaves) (acc.paste arr (c.full Src.leaf Src.fill)) (by
      intro idx hidx
      show Owns (lv ++ c.leaves) (if inBox arr idx then (c.full Src.leaf Src.fill).get (boxLo arr idx) else acc.get idx)
      split
      · rename_i hin
        exact (full_in_store c h.1.1 _ (box_ix_inR h.1.2 hin)).mono (fun x hx => by simp [hx])
      · exact (hacc idx hidx).mono (fun x hx => by simp [hx])) idx hidx
    exact this.mono (fun x hx => by simpa [Blks.leaves, List.append_assoc] using hx)
  | .rcons arr rv c r, sh, h, lv, acc, hacc, idx, hidx => by
    simp only [Blks.wfAll, Bool.and_eq_true] at h
    simp only [Blks.fullOnto]
    have := fullOnto_in_store' r sh h.2 (lv ++ c.leaves) (acc.pasteR arr rv (c.full Src.leaf Src.fill)) (by
      intro idx hidx
      show Owns (lv ++ c.leaves) (if inBox arr idx then (c.full Src.leaf Src.fill).get (boxLoR arr rv idx) else acc.get idx)
      split
      · rename_i hin
        exact (full_in_store c h.1.1.1.1 _ (boxR_ix_inR rv h.1.1.1.2 hin)).mono (fun x hx => by simp [hx])
      · exact (hacc idx hidx).mono (fun x hx => by simp [hx])) idx hidx
    exact this.mono (fun x hx => by simpa [Blks.leaves, List.append_assoc] using hx)
end

/-- **reads never leave the stored arrays**: every element a read returns is the fill value or the sample at an
    in-range index of a stored array of the tree -/
theorem read_in_store (t : Seg) (h : t.wf = true) (ts : List NSlice) (hts : NormalSub t.fshape ts)
    (ha : t.accepts ts = true)
    (idx : Idx) (hidx : InR (ts.map NSlice.count) idx) : Owns t.leaves ((t.readSrc ts).get idx) := by
  have hr := read_refines Src.leaf Src.fill t h ts hts ha
  have : (t.readSrc ts).get idx = t.fullSrc.get (selIdx ts idx) := hr.2 idx (hr.1 ▸ hidx)
  rw [this]
  exact full_in_store t h _ (selIdx_inR hts hidx)

/-- reading with the whole-array subscript returns the full image (no axis may be empty) -/
theorem full_read (t : Seg) (h : t.wf = true) (hpos : ∀ i, i < t.fshape.length → 0 < dimAt t.fshape i)
    (ha : t.accepts (fullSub t.fshape) = true)
    {α : Type} [Pairing α] (L : Nat → List Int → α) (F : α) :
    NormalSub t.fshape (fullSub t.fshape) ∧ Arr.Equiv (t.read L F (fullSub t.fshape)) (t.full L F) := by
  have hcnt : ∀ i, i < t.fshape.length → sliceAt (fullSub t.fshape) i = ⟨0, some (dimAt t.fshape i : Int), 1⟩ := by
    intro i hi
    simp [fullSub, sliceAt, dimAt, List.getD_eq_getElem?_getD, hi]
  have hn : NormalSub t.fshape (fullSub t.fshape) := by
    rw [normalSub_iff]
    refine ⟨by simp [fullSub], fun i hi => ?_⟩
    rw [hcnt i hi]
    have := hpos i hi
    refine ⟨le_refl _, ?_, Or.inl ⟨?_, _, rfl, ?_, le_refl _⟩⟩
    · show (0 : Int) < (dimAt t.fshape i : Int); omega
    · show (0 : Int) < 1; decide
    · show (0 : Int) < (dimAt t.fshape i : Int); omega
  refine ⟨hn, ?_⟩
  have hr := read_refines L F t h _ hn ha
  have hs := full_shape L F t h
  refine Arr.Equiv.trans hr ⟨?_, ?_⟩
  · show List.map NSlice.count _ = _
    rw [hs]
    apply List.ext_getElem
    · simp [fullSub]
    · intro i h1 h2
      have hi : i < t.fshape.length := h2
      rw [← dimAt_lt h1, ← dimAt_lt h2, dimAt_map_count, hcnt i hi]
      simp [NSlice.count, cnt]
  · intro idx _
    show (t.full L F).get _ = (t.full L F).get idx
    apply full_local L F t h
    intro i hi
    rw [hs] at hi
    simp only [selIdx, hcnt i hi]
    omega

/-! ### non-vacuity: a subset (one squeezed axis) of a reversed mosaic with a hole, built from reversed + transposed leaves,
    read with a stride -2 -/

/-- 3 x 2 stored array `id`, first axis reversed, transposed: a 2 x 3 block -/
def exLeaf (id : Nat) : Seg := .orient [0] [1, 0] (.leaf id [3, 2])

/-- 4 x 6 mosaic (second axis reversed) of two 2 x 3 blocks, the other two quadrants are holes;
    the subset takes rows 3,2,1,0, columns 1,3,5 -/
def exTree : Seg :=
  .subset true [⟨3, none, -1⟩, ⟨1, some 6, 2⟩]
    (.orient [1] [0, 1] (.blocks [4, 6] (.cons [(0, 2), (0, 3)] (exLeaf 1) (.cons [(2, 4), (3, 6)] (exLeaf 2) .nil))))

/-- rows 3 and 1, all columns of the subset -/
def exSub : List NSlice := [⟨3, some 0, -2⟩, ⟨0, some 3, 1⟩]

example : exTree.wf = true := by decide
example : exTree.fshape = [4, 3] := by decide
example : NormalSub exTree.fshape exSub := by decide
example : (exTree.readSrc exSub).shape = [2, 3] := by decide
example : (exTree.readSrc exSub).toList =
    [.fill, .leaf 1 [0, 0], .leaf 1 [2, 0], .leaf 2 [1, 0], .fill, .fill] := by decide
example : (exTree.readSrc exSub).toList = (exTree.fullSrc.select exSub).toList := by decide
/-- a squeezed axis: row 2 only, as a 1-d segment of 3 pixels -/
example : (Seg.subset true [⟨2, some 3, 1⟩, ⟨0, some 3, 1⟩] (exLeaf 7)).fshape = [3] ∧
    ((Seg.subset false [⟨1, some 2, 1⟩, ⟨0, some 3, 1⟩] (exLeaf 7)).fshape = [1, 3]) ∧
    ((Seg.subset true [⟨1, some 2, 1⟩, ⟨0, some 3, 1⟩] (exLeaf 7)).readSrc [⟨2, none, -1⟩]).toList =
      [.leaf 7 [0, 1], .leaf 7 [1, 1], .leaf 7 [2, 1]] := by decide
/-- a band stack of two blocks along a new middle axis -/
example : ((Seg.bands 1 (.cons (exLeaf 1) (.cons (exLeaf 2) .nil))).readSrc
    [⟨1, some 2, 1⟩, ⟨1, none, -1⟩, ⟨0, some 3, 2⟩]).toList =
    [.leaf 2 [2, 1], .leaf 2 [0, 1], .leaf 1 [2, 1], .leaf 1 [0, 1]] := by decide

/-- a file-read leaf (2 x 3 stored, transposed to 3 x 2, first raw axis reversed) read backwards, and the same leaf behind an
    IQ complex format function whose band axis (the second formatted axis, length 2) is collapsed -/
example : ((Seg.orient [0] [1, 0] (.fleaf 3 [2, 3])).readSrc [⟨2, none, -2⟩, ⟨0, some 2, 1⟩]).toList =
    [.leaf 3 [1, 2], .leaf 3 [0, 2], .leaf 3 [1, 0], .leaf 3 [0, 0]] := by decide
example : (Seg.cplx .IQ [0] [1, 0] 1 (.fleaf 3 [2, 3])).wf = true ∧ (Seg.cplx .IQ [0] [1, 0] 1 (.fleaf 3 [2, 3])).fshape = [3] ∧
    ((Seg.cplx .IQ [0] [1, 0] 1 (.fleaf 3 [2, 3])).readSrc [⟨2, none, -2⟩]).toList =
      [.pair (.leaf 3 [1, 2]) (.leaf 3 [0, 2]), .pair (.leaf 3 [1, 0]) (.leaf 3 [0, 0])] ∧
    ((Seg.cplx .QI [0] [1, 0] 1 (.fleaf 3 [2, 3])).readSrc [⟨1, some 2, 1⟩]).toList =
      [.pair (.leaf 3 [0, 1]) (.leaf 3 [1, 1])] := by decide

/-! ### non-vacuity of the extension (SEG2) -/

/-- a raw-basis subset: rows 1 and 3, columns 5, 3, 1 of a stored 4 x 6 array whose formatted view is the transpose of the
    row-reversed array; the subset shows the same orientation of the raw selection -/
def exRaw (sq : Bool) : Seg := .subsetR sq [⟨1, some 4, 2⟩, ⟨5, none, -2⟩] [0] [1, 0] (.leaf 0 [4, 6])

example : (exRaw false).wf = true ∧ (exRaw false).fshape = [3, 2] ∧
    (exRaw false).fullSrc.toList = [.leaf 0 [3, 5], .leaf 0 [1, 5], .leaf 0 [3, 3], .leaf 0 [1, 3], .leaf 0 [3, 1], .leaf 0 [1, 1]] ∧
    (((((Seg.leaf 0 [4, 6]).fullSrc.select [⟨1, some 4, 2⟩, ⟨5, none, -2⟩]).flip [0]).transpose [1, 0] [1, 0]).toList =
      (exRaw false).fullSrc.toList) := by decide
/-- one raw row only (squeezed): a 1-d segment -/
example : (Seg.subsetR true [⟨1, some 2, 1⟩, ⟨5, none, -2⟩] [0] [1, 0] (.leaf 0 [4, 6])).fshape = [3] ∧
    ((Seg.subsetR true [⟨1, some 2, 1⟩, ⟨5, none, -2⟩] [0] [1, 0] (.leaf 0 [4, 6])).readSrc [⟨2, none, -2⟩]).toList =
      [.leaf 0 [1, 1], .leaf 0 [1, 5]] := by decide

/-- a 2 x 6 mosaic whose right block is defined backwards along the columns (`slice(5, 2, -1)`) -/
def exRev : Seg :=
  .blocks [2, 6] (.cons [(0, 2), (0, 3)] (.leaf 0 [2, 3]) (.rcons [(0, 2), (3, 6)] [false, true] (.leaf 1 [2, 3]) .nil))

example : exRev.wf = true ∧ exRev.total = true ∧
    exRev.fullSrc.toList = [.leaf 0 [0, 0], .leaf 0 [0, 1], .leaf 0 [0, 2], .leaf 1 [0, 2], .leaf 1 [0, 1], .leaf 1 [0, 0],
      .leaf 0 [1, 0], .leaf 0 [1, 1], .leaf 0 [1, 2], .leaf 1 [1, 2], .leaf 1 [1, 1], .leaf 1 [1, 0]] := by decide
/-- a strided read across both blocks, columns 5, 3, 1: the reversed block is addressed forwards (`flipSlice`) -/
example : exRev.accepts [⟨0, some 2, 1⟩, ⟨5, none, -2⟩] = true ∧
    (exRev.readSrc [⟨1, some 2, 1⟩, ⟨5, none, -2⟩]).toList = [.leaf 1 [1, 0], .leaf 1 [1, 2], .leaf 0 [1, 1]] ∧
    (exRev.readSrc [⟨0, some 2, 1⟩, ⟨5, none, -2⟩]).toList = (exRev.fullSrc.select [⟨0, some 2, 1⟩, ⟨5, none, -2⟩]).toList := by
  decide

/-- complex QI with the band dimension kept (first formatted axis, raw axis 1 after the transpose), raw axis 0 reversed -/
example : (Seg.cplxK .QI [0] [1, 0] 0 (.leaf 0 [3, 4])).fshape = [2, 3] ∧
    ((Seg.cplxK .QI [0] [1, 0] 0 (.leaf 0 [3, 4])).readSrc [⟨1, some 2, 1⟩, ⟨2, none, -2⟩]).toList =
      [.pair (.leaf 0 [0, 3]) (.leaf 0 [0, 2]), .pair (.leaf 0 [2, 3]) (.leaf 0 [2, 2])] ∧
    (Seg.cplxK .QI [0] [1, 0] 0 (.leaf 0 [3, 4])).accepts [⟨1, none, -1⟩, ⟨0, some 3, 1⟩] = false := by decide
/-- a lookup table over a transposed, column-reversed 2 x 3 array -/
example : ((Seg.lut1 [1] [1, 0] (.leaf 0 [2, 3])).readSrc [⟨2, none, -2⟩, ⟨0, some 2, 1⟩]).toList =
    [.lut 0 (.leaf 0 [0, 0]), .lut 0 (.leaf 0 [1, 0]), .lut 0 (.leaf 0 [0, 2]), .lut 0 (.leaf 0 [1, 2])] := by decide

end Sarpy.Props.C01Seg
