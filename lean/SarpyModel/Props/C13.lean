/-
  C13 — NITF headers encode to fixed-width bytes and decode back.

  Unbounded theorems about the field codec of `Spec.FieldFmt` (the model of
  sarpy/io/general/nitf_elements/base.py): for every field width, every accepted value, every
  record (list of fields of any length) and every counted loop of records:
    * the encoding has exactly the declared length,
    * decoding the encoding (followed by arbitrary further bytes) returns the value and the rest,
  so offsets computed from declared lengths (C03) are the offsets the decoder uses.
  Which classes are table-driven records, and their tables, are regenerated from /repo on every run
  (`Gen/NitfTables.lean`); classes with hand-written byte logic are covered by correspondence only.
-/
import SarpyModel.Spec.FieldFmt
import Mathlib.Tactic.Linarith
import Mathlib.Tactic.Ring

namespace Sarpy.Props.C13
open Sarpy.Spec.FieldFmt

/-! ### decimal digits -/

theorem padDigits_length (w n : Nat) : (padDigits w n).length = w := by
  induction w generalizing n with
  | zero => rfl
  | succ w ih => simp [padDigits, ih]

theorem padDigits_digit (w n : Nat) : ∀ b ∈ padDigits w n, 48 ≤ b ∧ b ≤ 57 := by
  induction w generalizing n with
  | zero => intro b hb; simp [padDigits] at hb
  | succ w ih =>
    intro b hb
    simp only [padDigits, List.mem_append, List.mem_singleton] at hb
    rcases hb with hb | rfl
    · exact ih _ b hb
    · have := Nat.mod_lt n (show 10 > 0 by decide); omega

def step (acc : Option Nat) (b : Nat) : Option Nat :=
  match acc with
  | none => none
  | some a => if 48 ≤ b ∧ b ≤ 57 then some (10 * a + (b - 48)) else none

theorem fromDigits_eq (bs : Bytes) : fromDigits bs = bs.foldl step (some 0) := rfl

theorem fromDigits_snoc (xs : Bytes) (d : Nat) (hd : d < 10) :
    fromDigits (xs ++ [48 + d]) = (fromDigits xs).map (fun a => 10 * a + d) := by
  simp only [fromDigits_eq, List.foldl_append, List.foldl_cons, List.foldl_nil]
  cases h : List.foldl step (some 0) xs with
  | none => simp [step]
  | some a =>
    have h1 : 48 ≤ 48 + d ∧ 48 + d ≤ 57 := by omega
    simp [step, h1]

theorem fromDigits_padDigits (w n : Nat) : fromDigits (padDigits w n) = some (n % 10 ^ w) := by
  induction w generalizing n with
  | zero => simp [padDigits, fromDigits, Nat.mod_one]
  | succ w ih =>
    simp only [padDigits]
    rw [fromDigits_snoc _ _ (Nat.mod_lt n (by decide)), ih]
    simp only [Option.map_some, Option.some.injEq]
    rw [pow_succ', Nat.mod_mul]; ring

/-! ### integer fields -/

theorem acceptInt_iff (w : Nat) (v : Int) : acceptInt w v = true ↔ (-(10 : Int) ^ (w - 1) < v ∧ v < (10 : Int) ^ w) := by
  simp [acceptInt]

theorem encInt_length {w : Nat} {v : Int} (h : acceptInt w v = true) : (encInt w v).length = w := by
  rw [acceptInt_iff] at h
  unfold encInt
  split
  · rename_i hv
    have hw : 1 ≤ w := by
      by_contra hc
      have : w = 0 := by omega
      subst this
      simp at h; omega
    simp [padDigits_length]; omega
  · simp [padDigits_length]

theorem head_ne_minus (w n : Nat) : ∀ rest, padDigits w n ≠ 45 :: rest := by
  intro rest h
  have := padDigits_digit w n 45 (by rw [h]; simp)
  omega

theorem decInt_of_digits (bs : Bytes) (h : ∀ rest, bs ≠ 45 :: rest) : decInt bs = (fromDigits bs).map (fun n => (n : Int)) := by
  unfold decInt
  split
  · rename_i rest; exact absurd rfl (h rest)
  · rfl

theorem decInt_minus (rest : Bytes) : decInt (45 :: rest) = (fromDigits rest).map (fun n => -(n : Int)) := rfl

theorem decInt_encInt {w : Nat} {v : Int} (h : acceptInt w v = true) : decInt (encInt w v) = some v := by
  rw [acceptInt_iff] at h
  unfold encInt
  split
  · rename_i hv
    have e : ((v.natAbs : Nat) : Int) = -v := by omega
    have hlt : v.natAbs < 10 ^ (w - 1) := by
      have : ((v.natAbs : Nat) : Int) < ((10 ^ (w - 1) : Nat) : Int) := by
        rw [e]; push_cast; linarith [h.1]
      exact_mod_cast this
    rw [decInt_minus, fromDigits_padDigits, Nat.mod_eq_of_lt hlt]
    show some (-((v.natAbs : Nat) : Int)) = some v
    rw [e]; simp
  · rename_i hv
    have e : ((v.natAbs : Nat) : Int) = v := by omega
    have hlt : v.natAbs < 10 ^ w := by
      have : ((v.natAbs : Nat) : Int) < ((10 ^ w : Nat) : Int) := by
        rw [e]; push_cast; linarith [h.2]
      exact_mod_cast this
    rw [decInt_of_digits _ (head_ne_minus _ _), fromDigits_padDigits, Nat.mod_eq_of_lt hlt]
    show some ((v.natAbs : Nat) : Int) = some v
    rw [e]

/-! ### text and raw fields -/

theorem rstrip_append_blanks (s : Bytes) (k : Nat) : rstrip (s ++ List.replicate k 32) = rstrip s := by
  unfold rstrip
  rw [List.reverse_append, List.reverse_replicate]
  congr 1
  induction k with
  | zero => simp
  | succ k ih => simp [List.replicate_succ, List.dropWhile_cons, isSpace, ih]

theorem acceptStr_iff (w : Nat) (s : Bytes) :
    acceptStr w s = true ↔ (s.length ≤ w ∧ (∀ b ∈ s, b < 128) ∧ rstrip s = s) := by
  simp [acceptStr, and_assoc]

theorem encStr_length {w : Nat} {s : Bytes} (h : acceptStr w s = true) : (encStr w s).length = w := by
  rw [acceptStr_iff] at h
  simp [encStr]; omega

theorem decStr_encStr {w : Nat} {s : Bytes} (h : acceptStr w s = true) : decStr (encStr w s) = s := by
  rw [acceptStr_iff] at h
  simp [decStr, encStr, rstrip_append_blanks, h.2.2]

theorem encRaw_eq {w : Nat} {s : Bytes} (h : acceptRaw w s = true) : encRaw w s = s := by
  simp [acceptRaw] at h
  simp [encRaw, h, List.take_of_length_le (le_of_eq h)]

/-! ### one field, a record, a counted loop -/

theorem encField_length {f : Field} {v : Value} (h : acceptField f v = true) : (encField f v).length = f.width := by
  cases v with
  | int x => simp [acceptField] at h; exact encInt_length h.2
  | str s => simp [acceptField] at h; exact encStr_length h.2
  | raw s =>
    simp [acceptField] at h
    rw [encField, encRaw_eq h.2]
    simpa [acceptRaw] using h.2

theorem decField_encField {f : Field} {v : Value} (h : acceptField f v = true) : decField f (encField f v) = some v := by
  cases v with
  | int x => simp [acceptField] at h; simp [decField, encField, h.1, decInt_encInt h.2]
  | str s => simp [acceptField] at h; simp [decField, encField, h.1, decStr_encStr h.2]
  | raw s => simp [acceptField] at h; simp [decField, encField, h.1, encRaw_eq h.2]

/-- **length accounting**: a record's encoding is exactly as long as the sum of its declared widths -/
theorem encRecord_length {fs : List Field} {vs : List Value} (h : acceptRecord fs vs = true) :
    (encRecord fs vs).length = recordWidth fs := by
  induction fs generalizing vs with
  | nil => cases vs <;> simp_all [acceptRecord, encRecord, recordWidth]
  | cons f fs ih =>
    cases vs with
    | nil => simp [acceptRecord] at h
    | cons v vs =>
      simp only [acceptRecord, Bool.and_eq_true] at h
      simp only [encRecord, List.length_append, encField_length h.1, ih h.2, recordWidth, List.map_cons, List.sum_cons]

/-- **decode ∘ encode = id**, prefix-safe: whatever follows the record is handed back untouched -/
theorem decRecord_encRecord {fs : List Field} {vs : List Value} (h : acceptRecord fs vs = true) (rest : Bytes) :
    decRecord fs (encRecord fs vs ++ rest) = some (vs, rest) := by
  induction fs generalizing vs with
  | nil => cases vs <;> simp_all [acceptRecord, encRecord, decRecord]
  | cons f fs ih =>
    cases vs with
    | nil => simp [acceptRecord] at h
    | cons v vs =>
      simp only [acceptRecord, Bool.and_eq_true] at h
      have hl := encField_length h.1
      simp only [encRecord, decRecord, List.append_assoc]
      have h1 : ¬ ((encField f v ++ (encRecord fs vs ++ rest)).length < f.width) := by
        simp [hl]
      rw [if_neg h1]
      have h2 : (encField f v ++ (encRecord fs vs ++ rest)).take f.width = encField f v := List.take_left' hl
      have h3 : (encField f v ++ (encRecord fs vs ++ rest)).drop f.width = encRecord fs vs ++ rest := List.drop_left' hl
      rw [h2, h3, decField_encField h.1, ih h.2]

theorem decItems_encode {fs : List Field} (items : List (List Value)) (h : ∀ it ∈ items, acceptRecord fs it = true) (rest : Bytes) :
    decItems fs items.length ((items.map (encRecord fs)).flatten ++ rest) = some (items, rest) := by
  induction items with
  | nil => simp [decItems]
  | cons it items ih =>
    simp only [List.length_cons, decItems, List.map_cons, List.flatten_cons, List.append_assoc,
      decRecord_encRecord (h it (by simp)), ih (fun x hx => h x (by simp [hx]))]

/-- a counted loop (band loop, comment loop, …) of any number of items round-trips, prefix-safe -/
theorem decLoop_encLoop {cw : Nat} {fs : List Field} (items : List (List Value))
    (hc : acceptInt cw items.length = true) (h : ∀ it ∈ items, acceptRecord fs it = true) (rest : Bytes) :
    decLoop cw fs (encLoop cw fs items ++ rest) = some (items, rest) := by
  have hl := encInt_length hc
  unfold decLoop encLoop
  simp only [List.append_assoc]
  have h1 : ¬ ((encInt cw ↑items.length ++ ((items.map (encRecord fs)).flatten ++ rest)).length < cw) := by
    simp [hl]
  rw [if_neg h1]
  have h2 : (encInt cw ↑items.length ++ ((items.map (encRecord fs)).flatten ++ rest)).take cw = encInt cw ↑items.length := List.take_left' hl
  have h3 : (encInt cw ↑items.length ++ ((items.map (encRecord fs)).flatten ++ rest)).drop cw = (items.map (encRecord fs)).flatten ++ rest := List.drop_left' hl
  rw [h2, h3, decInt_encInt hc]
  exact decItems_encode items h rest

theorem items_length {fs : List Field} (items : List (List Value)) (h : ∀ it ∈ items, acceptRecord fs it = true) :
    ((items.map (encRecord fs)).map List.length).sum = items.length * recordWidth fs := by
  induction items with
  | nil => simp
  | cons it items ih =>
    simp only [List.map_cons, List.sum_cons, List.length_cons]
    rw [encRecord_length (h it (by simp)), ih (fun x hx => h x (by simp [hx]))]
    ring

theorem encLoop_length {cw : Nat} {fs : List Field} (items : List (List Value))
    (hc : acceptInt cw items.length = true) (h : ∀ it ∈ items, acceptRecord fs it = true) :
    (encLoop cw fs items).length = cw + items.length * recordWidth fs := by
  unfold encLoop
  rw [List.length_append, encInt_length hc, List.length_flatten, items_length items h]

/-- values outside the accepted range are exactly those that do not fit: the rendering of an
    accepted integer never spills into the neighbouring field -/
theorem accepted_never_overflows {f : Field} {v : Value} (h : acceptField f v = true) (next : Bytes) :
    (encField f v ++ next).drop f.width = next := List.drop_left' (encField_length h)

/-! non-vacuity -/
example : encInt 5 (-42) = [45, 48, 48, 52, 50] := by decide
example : decInt (encInt 5 (-42)) = some (-42) := by decide
example : acceptInt 5 (-42) = true ∧ acceptInt 2 (-10) = false ∧ acceptInt 2 99 = true ∧ acceptInt 2 100 = false := by decide
example : decRecord [⟨.str, 4⟩, ⟨.int, 3⟩] (encRecord [⟨.str, 4⟩, ⟨.int, 3⟩] [.str [78, 73], .int 7] ++ [1, 2]) =
    some ([.str [78, 73], .int 7], [1, 2]) := by decide

end Sarpy.Props.C13
