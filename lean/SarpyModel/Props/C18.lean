/-
  C18 — consistency checkers accept what sarpy writes and flag seeded violations: the logic core.

  Part 1, the rule runner (`sarpy/consistency/consistency.py`), all by induction over arbitrary lists of checks and
  arbitrary op lists (including raising ops, unbalanced blocks, nested preconditions):
  * `mem_emitted`                 : an item is recorded iff some op is reached in `running` mode and emits it
  * `passes_iff_no_need_failed`   : the Error-level verdict of a run is `true` iff no executed `need` failed and no
                                    executed op raised
  * `strictPasses_iff`            : the Python flag / `failures()` verdict additionally counts failed `want`s
  * `runner_total`                : the runner returns one result per check for every input, the stored flag is the
                                    conjunction of the recorded items, and a run that does not pass has a non-empty
                                    `failures()` (an Error never disappears)
  * `raise_recorded`, `checks_independent` : an exception is one failed Error item of its own check, the rest of that
                                    check is not executed, other checks are unaffected
  * `precondition_skips`, `precondition_resumes` : a failed precondition records one No-Op item, leaves the flag
                                    alone, ignores everything up to the end of its block and resumes after it
  * `warnings_do_not_fail`        : deleting every `want` leaves the Error-level verdict unchanged;
    `want_failure_clears_flag`    : … but a failed `want` does clear the Python `passed` flag (it is in `failures()`)
  * `partition`                   : `failures`, `passes`, `skips` partition the results

  Part 2, file-level rules over the C09 / C03 layout models:
  * `writer_layout_satisfies_*`   : every layout `Spec.CphdLayout.layout` / `choose` / `Spec.Layout.offsets` produce
                                    satisfies the rule predicate, for all sizes
  * `mutation_*_falsifies_*`      : each arithmetic mutation of the harness catalogue falsifies its rule
-/
import SarpyModel.Spec.Checker
import SarpyModel.Props.C09
import SarpyModel.Props.C03

namespace Sarpy.Props.C18
open Sarpy.Spec.Checker Sarpy.Spec.CphdLayout

/-! ## Part 1: the runner -/

theorem exec_cons (s : State) (op : Op) (r : List Op) : exec s (op :: r) = exec (step s op) r := rfl

theorem exec_append (s : State) (a b : List Op) : exec s (a ++ b) = exec (exec s a) b := by
  simp [exec, List.foldl_append]

theorem modeAfter_cons (m : Mode) (op : Op) (r : List Op) : modeAfter m (op :: r) = modeAfter (ctl m op) r := rfl

theorem modeAfter_append (m : Mode) (a b : List Op) : modeAfter m (a ++ b) = modeAfter (modeAfter m a) b := by
  simp [modeAfter, List.foldl_append]

theorem step_mode (s : State) (op : Op) : (step s op).mode = ctl s.mode op := by
  unfold step; cases emit s.mode op <;> rfl

theorem step_details (s : State) (op : Op) : (step s op).details = s.details ++ (emit s.mode op).toList := by
  unfold step; cases emit s.mode op <;> simp [State.add]

theorem step_passed (s : State) (op : Op) :
    (step s op).passed = (s.passed && (emit s.mode op).toList.all (·.passed)) := by
  unfold step; cases emit s.mode op <;> simp [State.add]

theorem exec_mode (s : State) (ops : List Op) : (exec s ops).mode = modeAfter s.mode ops := by
  induction ops generalizing s with
  | nil => rfl
  | cons o r ih => rw [exec_cons, ih, step_mode, modeAfter_cons]

/-- the recorded items are exactly `emitted`, in order, after whatever was there -/
theorem exec_details (s : State) (ops : List Op) : (exec s ops).details = s.details ++ emitted s.mode ops := by
  induction ops generalizing s with
  | nil => simp [exec, emitted]
  | cons o r ih => rw [exec_cons, ih, step_details, step_mode, emitted, List.append_assoc]

/-- the flag is the conjunction of the flags of the recorded items (`passed &= passed`) -/
theorem exec_passed (s : State) (ops : List Op) :
    (exec s ops).passed = (s.passed && (emitted s.mode ops).all (·.passed)) := by
  induction ops generalizing s with
  | nil => simp [exec, emitted]
  | cons o r ih => rw [exec_cons, ih, step_passed, step_mode, emitted, List.all_append, Bool.and_assoc]

theorem runCheck_details (ops : List Op) : (runCheck ops).details = emitted .running ops := by
  simp [runCheck, exec_details, init]

theorem runCheck_passed (ops : List Op) : (runCheck ops).passed = (emitted .running ops).all (·.passed) := by
  simp [runCheck, exec_passed, init]

/-- invariant of `_add_item_to_current`: the stored flag is the conjunction over the stored details -/
theorem flag_eq_all_details (ops : List Op) : (runCheck ops).passed = (runCheck ops).details.all (·.passed) := by
  rw [runCheck_passed, runCheck_details]

/-- an item is recorded iff some op, reached after a prefix `p`, emits it in the mode the prefix leads to -/
theorem mem_emitted (m : Mode) (ops : List Op) (it : Item) :
    it ∈ emitted m ops ↔ ∃ p op rest, ops = p ++ op :: rest ∧ emit (modeAfter m p) op = some it := by
  induction ops generalizing m with
  | nil => simp [emitted]
  | cons o r ih =>
    simp only [emitted, List.mem_append, Option.mem_toList]
    constructor
    · rintro (h | h)
      · exact ⟨[], o, r, rfl, h⟩
      · obtain ⟨p, op, rest, hr, he⟩ := (ih _).1 h
        exact ⟨o :: p, op, rest, by simp [hr], he⟩
    · rintro ⟨p, op, rest, hr, he⟩
      cases p with
      | nil =>
        simp only [List.nil_append, List.cons.injEq] at hr
        obtain ⟨rfl, rfl⟩ := hr
        exact Or.inl he
      | cons a p' =>
        simp only [List.cons_append, List.cons.injEq] at hr
        obtain ⟨rfl, rfl⟩ := hr
        exact Or.inr ((ih _).2 ⟨p', op, rest, rfl, he⟩)

/-- `op` is executed by the check `ops`: it is reached in `running` mode -/
def Executed (ops : List Op) (op : Op) : Prop :=
  ∃ p rest, ops = p ++ op :: rest ∧ modeAfter .running p = .running

/-- only `running` mode emits -/
theorem emit_some_running (m : Mode) (op : Op) (it : Item) (h : emit m op = some it) : m = .running := by
  cases m with
  | running => rfl
  | skipping d => cases op <;> simp [emit] at h
  | aborted => cases op <;> simp [emit] at h

/-- the ops that record a failed Error item are exactly a failed `need` and a raise -/
theorem emit_error_iff (op : Op) :
    (∃ it, emit .running op = some it ∧ it.errOk = false) ↔ (op = .need false ∨ op = .raise) := by
  cases op with
  | need c => cases c <;> simp [emit, Item.errOk]
  | want c => cases c <;> simp [emit, Item.errOk]
  | pre c => cases c <;> simp [emit, Item.errOk]
  | close => simp [emit]
  | «raise» => simp [emit, Item.errOk]

/-- the ops that record a failed item (of any severity) -/
theorem emit_failed_iff (op : Op) :
    (∃ it, emit .running op = some it ∧ it.passed = false) ↔ (op = .need false ∨ op = .want false ∨ op = .raise) := by
  cases op with
  | need c => cases c <;> simp [emit]
  | want c => cases c <;> simp [emit]
  | pre c => cases c <;> simp [emit]
  | close => simp [emit]
  | «raise» => simp [emit]

theorem errorFree_iff (ops : List Op) :
    (runCheck ops).errorFree = true ↔ ∀ op, Executed ops op → op ≠ .need false ∧ op ≠ .raise := by
  unfold Result.errorFree
  rw [runCheck_details, List.all_eq_true]
  constructor
  · intro h op ⟨p, rest, hr, hm⟩
    have hne : ¬ (op = .need false ∨ op = .raise) := by
      intro hbad
      obtain ⟨it, he, hbadit⟩ := (emit_error_iff op).2 hbad
      have := h it ((mem_emitted _ _ _).2 ⟨p, op, rest, hr, by rw [hm]; exact he⟩)
      rw [hbadit] at this; exact Bool.noConfusion this
    exact ⟨fun e => hne (Or.inl e), fun e => hne (Or.inr e)⟩
  · intro h it hit
    obtain ⟨p, op, rest, hr, he⟩ := (mem_emitted _ _ _).1 hit
    have hm := emit_some_running _ _ _ he
    rw [hm] at he
    cases hok : it.errOk with
    | true => rfl
    | false =>
      have := (emit_error_iff op).1 ⟨it, he, hok⟩
      have hx := h op ⟨p, rest, hr, hm⟩
      rcases this with e | e
      · exact absurd e hx.1
      · exact absurd e hx.2

theorem flag_iff (ops : List Op) :
    (runCheck ops).passed = true ↔ ∀ op, Executed ops op → op ≠ .need false ∧ op ≠ .want false ∧ op ≠ .raise := by
  rw [runCheck_passed, List.all_eq_true]
  constructor
  · intro h op ⟨p, rest, hr, hm⟩
    have hne : ¬ (op = .need false ∨ op = .want false ∨ op = .raise) := by
      intro hbad
      obtain ⟨it, he, hbadit⟩ := (emit_failed_iff op).2 hbad
      have := h it ((mem_emitted _ _ _).2 ⟨p, op, rest, hr, by rw [hm]; exact he⟩)
      rw [hbadit] at this; exact Bool.noConfusion this
    exact ⟨fun e => hne (Or.inl e), fun e => hne (Or.inr (Or.inl e)), fun e => hne (Or.inr (Or.inr e))⟩
  · intro h it hit
    obtain ⟨p, op, rest, hr, he⟩ := (mem_emitted _ _ _).1 hit
    have hm := emit_some_running _ _ _ he
    rw [hm] at he
    cases hok : it.passed with
    | true => rfl
    | false =>
      have := (emit_failed_iff op).1 ⟨it, he, hok⟩
      have hx := h op ⟨p, rest, hr, hm⟩
      rcases this with e | e | e
      · exact absurd e hx.1
      · exact absurd e hx.2.1
      · exact absurd e hx.2.2

/-- **the verdict**: a run passes (no Error-level failure) iff in every check no executed `need` failed and no
    executed op raised — for arbitrary lists of arbitrary checks -/
theorem passes_iff_no_need_failed (checks : List (List Op)) :
    passes (run checks) = true ↔
      ∀ ops ∈ checks, ∀ op, Executed ops op → op ≠ .need false ∧ op ≠ .raise := by
  unfold passes run
  rw [List.all_eq_true]
  constructor
  · intro h ops hops
    exact (errorFree_iff ops).1 (h _ (List.mem_map.2 ⟨ops, hops, rfl⟩))
  · intro h r hr
    obtain ⟨ops, hops, rfl⟩ := List.mem_map.1 hr
    exact (errorFree_iff ops).2 (h ops hops)

/-- the Python flag verdict (`failures()` empty, exit status of `cphd_consistency.main`) also counts failed wants -/
theorem strictPasses_iff (checks : List (List Op)) :
    strictPasses (run checks) = true ↔
      ∀ ops ∈ checks, ∀ op, Executed ops op → op ≠ .need false ∧ op ≠ .want false ∧ op ≠ .raise := by
  unfold strictPasses run
  rw [List.all_eq_true]
  constructor
  · intro h ops hops
    exact (flag_iff ops).1 (h _ (List.mem_map.2 ⟨ops, hops, rfl⟩))
  · intro h r hr
    obtain ⟨ops, hops, rfl⟩ := List.mem_map.1 hr
    exact (flag_iff ops).2 (h ops hops)

theorem strict_implies_passes (checks : List (List Op)) (h : strictPasses (run checks) = true) :
    passes (run checks) = true := by
  rw [passes_iff_no_need_failed]
  intro ops hops op hex
  have := (strictPasses_iff checks).1 h ops hops op hex
  exact ⟨this.1, this.2.2⟩

theorem failures_eq_nil_iff (rs : List Result) : failures rs = [] ↔ strictPasses rs = true := by
  unfold failures strictPasses
  rw [List.filter_eq_nil_iff, List.all_eq_true]
  constructor
  · intro h r hr
    have := h r hr
    cases hp : r.passed with
    | true => rfl
    | false => simp [hp] at this
  · intro h r hr
    simp [h r hr]

/-- an item that fails at Error level has `passed = false` -/
theorem errOk_of_passed (i : Item) (h : i.passed = true) : i.errOk = true := by
  simp [Item.errOk, h]

/-- **totality**: for every input — any number of checks, any ops, raising ops included — the runner returns one
    result per check, each stored flag is the conjunction of its recorded items, and there is a verdict: either the
    run passes or `failures()` is non-empty -/
theorem runner_total (checks : List (List Op)) :
    (run checks).length = checks.length ∧
    (∀ r ∈ run checks, r.passed = r.details.all (·.passed)) ∧
    (passes (run checks) = true ∨ failures (run checks) ≠ []) := by
  refine ⟨by simp [run], ?_, ?_⟩
  · intro r hr
    obtain ⟨ops, _, rfl⟩ := List.mem_map.1 hr
    exact flag_eq_all_details ops
  · cases hp : passes (run checks) with
    | true => exact Or.inl rfl
    | false =>
      right
      intro hnil
      have hs := (failures_eq_nil_iff _).1 hnil
      have := strict_implies_passes checks hs
      rw [hp] at this; exact Bool.noConfusion this

/-- checks do not influence one another -/
theorem checks_independent (a b : List (List Op)) : run (a ++ b) = run a ++ run b := by
  simp [run]

theorem emitted_append (m : Mode) (a b : List Op) :
    emitted m (a ++ b) = emitted m a ++ emitted (modeAfter m a) b := by
  induction a generalizing m with
  | nil => simp [emitted, modeAfter]
  | cons o r ih => simp [emitted, ih, modeAfter_cons, List.append_assoc]

theorem ctl_aborted (op : Op) : ctl .aborted op = .aborted := by cases op <;> rfl

theorem emitted_aborted (ops : List Op) : emitted .aborted ops = [] := by
  induction ops with
  | nil => rfl
  | cons o r ih => cases o <;> simp [emitted, emit, ctl, ih]

/-- **an exception never propagates**: a raise reached in running mode is recorded as one failed Error item of
    that check; whatever follows in the method is not executed; the flag is False -/
theorem raise_recorded (p rest : List Op) (hp : modeAfter .running p = .running) :
    runCheck (p ++ .raise :: rest) = ⟨(runCheck p).details ++ [⟨.error, false⟩], false⟩ := by
  have hd : (runCheck (p ++ .raise :: rest)).details = (runCheck p).details ++ [⟨.error, false⟩] := by
    rw [runCheck_details, runCheck_details, emitted_append, hp]
    simp [emitted, emit, ctl, emitted_aborted]
  have hf : (runCheck (p ++ .raise :: rest)).passed = false := by
    rw [flag_eq_all_details, hd]; simp
  cases h : runCheck (p ++ .raise :: rest) with
  | mk d f =>
    rw [h] at hd hf
    simp only at hd hf
    rw [hd, hf]

/-! ### preconditions -/

theorem ctl_skipping_other (d : Nat) (op : Op) (h1 : ∀ c, op ≠ .pre c) (h2 : op ≠ .close) :
    ctl (.skipping d) op = .skipping d := by
  cases op with
  | pre c => exact absurd rfl (h1 c)
  | close => exact absurd rfl h2
  | need c => cases d <;> rfl
  | want c => cases d <;> rfl
  | «raise» => cases d <;> rfl

theorem emit_skipping (d : Nat) (op : Op) : emit (.skipping d) op = none := by
  cases op <;> rfl

/-- inside a failed precondition block nothing is recorded and the runner stays in the block -/
theorem skipping_silent (d : Nat) (body : List Op) (h : staysSkipping d body = true) :
    emitted (.skipping d) body = [] ∧ ∃ e, modeAfter (.skipping d) body = .skipping e := by
  induction body generalizing d with
  | nil => exact ⟨rfl, d, rfl⟩
  | cons o r ih =>
    cases o with
    | pre c =>
      have := ih (d + 1) (by simpa [staysSkipping] using h)
      simpa [emitted, emit_skipping, ctl, modeAfter_cons] using this
    | close =>
      cases d with
      | zero => simp [staysSkipping] at h
      | succ d' =>
        have := ih d' (by simpa [staysSkipping] using h)
        simpa [emitted, emit_skipping, ctl, modeAfter_cons] using this
    | need c =>
      have := ih d (by simpa [staysSkipping] using h)
      rw [emitted, emit_skipping, modeAfter_cons, ctl_skipping_other d _ (by intro c; simp) (by simp)]
      simpa using this
    | want c =>
      have := ih d (by simpa [staysSkipping] using h)
      rw [emitted, emit_skipping, modeAfter_cons, ctl_skipping_other d _ (by intro c; simp) (by simp)]
      simpa using this
    | «raise» =>
      have := ih d (by simpa [staysSkipping] using h)
      rw [emitted, emit_skipping, modeAfter_cons, ctl_skipping_other d _ (by intro c; simp) (by simp)]
      simpa using this

/-- **a failed precondition skips the rest of its block without failure**: one No-Op item with passed = True is
    recorded, the flag of the check is what it was, nothing inside the block (needs, wants, raises, nested
    preconditions) has any effect.  With `body` = the rest of the method this is "skips the rest of the check". -/
theorem precondition_skips (p body : List Op) (hp : modeAfter .running p = .running)
    (hb : staysSkipping 0 body = true) :
    runCheck (p ++ .pre false :: body) = ⟨(runCheck p).details ++ [⟨.noop, true⟩], (runCheck p).passed⟩ := by
  have hd : (runCheck (p ++ .pre false :: body)).details = (runCheck p).details ++ [⟨.noop, true⟩] := by
    rw [runCheck_details, runCheck_details, emitted_append, hp]
    simp [emitted, emit, ctl, (skipping_silent 0 body hb).1]
  have hf : (runCheck (p ++ .pre false :: body)).passed = (runCheck p).passed := by
    rw [flag_eq_all_details, hd, flag_eq_all_details]; simp
  cases h : runCheck (p ++ .pre false :: body) with
  | mk d f =>
    rw [h] at hd hf
    simp only at hd hf
    rw [hd, hf]

/-- after the `close` that ends the failed block the runner goes on as if the block were not there -/
theorem skipping_resumes (d : Nat) (ops : List Op) :
    emitted (.skipping d) ops = emitted .running (afterBlock d ops) := by
  induction ops generalizing d with
  | nil => rfl
  | cons o r ih =>
    cases o with
    | pre c => simpa [emitted, emit_skipping, ctl, afterBlock] using ih (d + 1)
    | close =>
      cases d with
      | zero => simp [emitted, emit_skipping, ctl, afterBlock]
      | succ d' => simpa [emitted, emit_skipping, ctl, afterBlock] using ih d'
    | need c =>
      rw [emitted, emit_skipping, ctl_skipping_other d _ (by intro c; simp) (by simp)]
      simpa [afterBlock] using ih d
    | want c =>
      rw [emitted, emit_skipping, ctl_skipping_other d _ (by intro c; simp) (by simp)]
      simpa [afterBlock] using ih d
    | «raise» =>
      rw [emitted, emit_skipping, ctl_skipping_other d _ (by intro c; simp) (by simp)]
      simpa [afterBlock] using ih d

theorem precondition_resumes (p ops : List Op) (hp : modeAfter .running p = .running) :
    (runCheck (p ++ .pre false :: ops)).details =
      (runCheck p).details ++ ⟨.noop, true⟩ :: emitted .running (afterBlock 0 ops) := by
  rw [runCheck_details, runCheck_details, emitted_append, hp]
  simp [emitted, emit, ctl, skipping_resumes]

/-- a satisfied precondition records nothing and changes nothing -/
theorem precondition_true (s : State) (h : s.mode = .running) : step s (.pre true) = s := by
  cases s with
  | mk d f m =>
    simp only at h
    subst h
    rfl

/-! ### warnings -/

theorem ctl_want (m : Mode) (c : Bool) : ctl m (.want c) = m := by
  cases m with
  | running => rfl
  | skipping d => cases d <;> rfl
  | aborted => rfl

theorem emit_sev_of_notWant (m : Mode) (op : Op) (h : notWant op = true) :
    (emit m op).toList.filter (fun i => i.sev != .warning) = (emit m op).toList := by
  cases m with
  | running =>
    cases op with
    | want c => simp [notWant] at h
    | need c => simp [emit]
    | pre c => cases c <;> simp [emit]
    | close => simp [emit]
    | «raise» => simp [emit]
  | skipping d => simp [emit_skipping]
  | aborted => cases op <;> simp [emit]

theorem emit_want_filtered (m : Mode) (c : Bool) :
    (emit m (.want c)).toList.filter (fun i => i.sev != .warning) = [] := by
  cases m <;> simp [emit]

theorem emitted_filter (m : Mode) (ops : List Op) :
    emitted m (ops.filter notWant) = (emitted m ops).filter (fun i => i.sev != .warning) := by
  induction ops generalizing m with
  | nil => rfl
  | cons o r ih =>
    cases hn : notWant o with
    | true =>
      rw [List.filter_cons_of_pos (by simpa using hn), emitted, emitted, List.filter_append, ih,
        emit_sev_of_notWant m o hn]
    | false =>
      cases o with
      | want c =>
        rw [List.filter_cons_of_neg (by simp [hn]), emitted, List.filter_append, ctl_want, emit_want_filtered, ih]
        simp
      | need c => simp [notWant] at hn
      | pre c => simp [notWant] at hn
      | close => simp [notWant] at hn
      | «raise» => simp [notWant] at hn

theorem all_errOk_filter (l : List Item) :
    (l.filter (fun i => i.sev != .warning)).all Item.errOk = l.all Item.errOk := by
  induction l with
  | nil => rfl
  | cons i r ih =>
    cases i with
    | mk sev ok =>
      cases sev <;> simp [Item.errOk, ih]

/-- a `want`, passed or failed, never records an Error item -/
theorem want_only_warning (m : Mode) (c : Bool) (it : Item) (h : emit m (.want c) = some it) : it.sev = .warning := by
  cases m <;> simp [emit] at h
  rw [← h]

/-- **warnings do not fail**: deleting every `want` step from every check leaves the Error-level verdict unchanged
    (in particular a run whose only failed steps are wants passes) -/
theorem warnings_do_not_fail (checks : List (List Op)) :
    passes (run (checks.map (fun ops => ops.filter notWant))) = passes (run checks) := by
  unfold passes run
  rw [List.map_map, List.all_map, List.all_map]
  congr 1
  funext ops
  simp only [Function.comp, Result.errorFree, runCheck_details, emitted_filter, all_errOk_filter]

/-- … but the Python `passed` flag is cleared by a failed `want`: such a check is listed by `failures()`
    (tests/consistency/test_consistency.py counts `check_want_fail` among the 5 failures) -/
theorem want_failure_clears_flag (p rest : List Op) (hp : modeAfter .running p = .running) :
    (runCheck (p ++ .want false :: rest)).passed = false ∧
    (runCheck (p ++ .want false :: rest)).errorFree = (runCheck (p ++ rest)).errorFree := by
  constructor
  · cases h : (runCheck (p ++ .want false :: rest)).passed with
    | false => rfl
    | true =>
      have := ((flag_iff _).1 h (.want false) ⟨p, rest, rfl, hp⟩).2.1
      exact absurd rfl this
  · unfold Result.errorFree
    rw [runCheck_details, runCheck_details, emitted_append, emitted_append, hp]
    have hw : (Severity.warning != Severity.error) = true := rfl
    simp [emitted, emit, ctl, Item.errOk, hw]

/-- `failures()`, `passes()`, `skips()` partition the results: every result is in exactly one of them -/
theorem partition (r : Result) :
    (r ∈ failures [r] ∧ r ∉ pyPasses [r] ∧ r ∉ skips [r]) ∨
    (r ∉ failures [r] ∧ r ∈ pyPasses [r] ∧ r ∉ skips [r]) ∨
    (r ∉ failures [r] ∧ r ∉ pyPasses [r] ∧ r ∈ skips [r]) := by
  cases hp : r.passed with
  | false => left; simp [failures, pyPasses, skips, hp]
  | true =>
    right
    cases hs : r.details.all (fun d => d.sev == .noop) with
    | true =>
      right
      have : r.details.any (fun d => d.sev != .noop) = false := by
        rw [List.any_eq_false]
        intro d hd
        have := (List.all_eq_true.1 hs) d hd
        simp at this
        simp [this]
      simp [failures, pyPasses, skips, hp, hs, this]
    | false =>
      left
      have : r.details.any (fun d => d.sev != .noop) = true := by
        cases ha : r.details.any (fun d => d.sev != .noop) with
        | true => rfl
        | false =>
          rw [List.any_eq_false] at ha
          have : r.details.all (fun d => d.sev == .noop) = true := by
            rw [List.all_eq_true]
            intro d hd
            have := ha d hd
            simpa using this
          rw [hs] at this; exact Bool.noConfusion this
      simp [failures, pyPasses, skips, hp, hs, this]

/-! ## Part 2: file-level rules -/

/-! ### CPHD: what the writer lays out satisfies every header rule, for all sizes -/

theorem writer_layout_satisfies_nextAfterXml (hdrLen xo xs : Nat) (ss : Option Nat) (ps gs : Nat) :
    nextAfterXml (writerFile hdrLen (layout xo xs ss ps gs)) := by
  cases ss with
  | none => simp [nextAfterXml, writerFile, layout, C09.align_ge]
  | some s => simp [nextAfterXml, writerFile, layout, C09.align_ge]

theorem writer_layout_satisfies_pvpAfterSupport (hdrLen xo xs : Nat) (ss : Option Nat) (ps gs : Nat) :
    pvpAfterSupport (writerFile hdrLen (layout xo xs ss ps gs)) := by
  cases ss with
  | none => simp [pvpAfterSupport, writerFile, layout]
  | some s => simp [pvpAfterSupport, writerFile, layout, C09.align_ge]

theorem writer_layout_satisfies_signalAfterPvp (hdrLen xo xs : Nat) (ss : Option Nat) (ps gs : Nat) :
    signalAfterPvp (writerFile hdrLen (layout xo xs ss ps gs)) := by
  cases ss with
  | none => simp [signalAfterPvp, writerFile, layout, C09.align_ge]
  | some s => simp [signalAfterPvp, writerFile, layout, C09.align_ge]

theorem writer_layout_satisfies_signalAtEof (hdrLen : Nat) (b : Blocks) :
    signalAtEof (writerFile hdrLen b) := rfl

/-- the header-fits rule holds for whatever the retry rule of `make_file_header` returns -/
theorem writer_layout_satisfies_hdrBeforeXml (hdrLen : Blocks → Nat) (xs : Nat) (ss : Option Nat) (ps gs fuel xo : Nat)
    (b : Blocks) (h : choose hdrLen xs ss ps gs fuel xo = some b) :
    hdrBeforeXml (writerFile (hdrLen b) b) :=
  (C09.choose_fits hdrLen xs ss ps gs fuel xo b h).1

/-- all header rules at once for a file produced through the retry rule -/
theorem writer_layout_satisfies_all (hdrLen : Blocks → Nat) (xs : Nat) (ss : Option Nat) (ps gs fuel xo : Nat)
    (b : Blocks) (h : choose hdrLen xs ss ps gs fuel xo = some b) :
    let f := writerFile (hdrLen b) b
    hdrBeforeXml f ∧ nextAfterXml f ∧ pvpAfterSupport f ∧ signalAfterPvp f ∧ signalAtEof f := by
  obtain ⟨hfit, xo', rfl⟩ := C09.choose_fits hdrLen xs ss ps gs fuel xo b h
  exact ⟨hfit, writer_layout_satisfies_nextAfterXml _ _ _ _ _ _, writer_layout_satisfies_pvpAfterSupport _ _ _ _ _ _,
    writer_layout_satisfies_signalAfterPvp _ _ _ _ _ _, rfl⟩

theorem packed_fits (start : Nat) (chans : List (Nat × Nat)) (h : Packed start chans) :
    ∀ c ∈ chans, start ≤ c.1 ∧ c.1 + c.2 ≤ start + totalBytes chans := by
  induction chans generalizing start with
  | nil => intro c hc; simp at hc
  | cons a r ih =>
    obtain ⟨off, size⟩ := a
    obtain ⟨ho, hr⟩ := h
    subst ho
    intro c hc
    rcases List.mem_cons.1 hc with rfl | hc'
    · simp [totalBytes]
    · have := ih (off + size) hr c hc'
      simp only [totalBytes, List.map_cons, List.sum_cons] at this ⊢
      omega

/-- self-consistent (packed) channel offsets with SIGNAL_BLOCK_SIZE = the sum of the channel sizes: every channel fits -/
theorem writer_layout_satisfies_signalFits (chans : List (Nat × Nat)) (h : Packed 0 chans) :
    signalFits (totalBytes chans) chans = true := by
  unfold signalFits
  rw [List.all_eq_true]
  intro c hc
  have := (packed_fits 0 chans h c hc).2
  simpa using this

/-! ### CPHD: each arithmetic mutation of the catalogue falsifies its rule -/

/-- `cphd_sig_size` (SIGNAL_BLOCK_SIZE altered), `cphd_truncated`, `cphd_trailing_bytes` (file length altered),
    `cphd_sig_offset` (SIGNAL_BLOCK_BYTE_OFFSET altered): any change of one of the three quantities breaks the
    end-of-file rule -/
theorem mutation_sigsize_falsifies_signalAtEof (f : CphdFile) (h : signalAtEof f) (n : Nat) (hn : n ≠ f.b.sigSize) :
    ¬ signalAtEof { f with b := { f.b with sigSize := n } } := by
  unfold signalAtEof at *; simp only; omega

theorem mutation_filelen_falsifies_signalAtEof (f : CphdFile) (h : signalAtEof f) (n : Nat) (hn : n ≠ f.fileLen) :
    ¬ signalAtEof { f with fileLen := n } := by
  unfold signalAtEof at *; simp only; omega

theorem mutation_truncate_falsifies_signalAtEof (f : CphdFile) (h : signalAtEof f) (k : Nat) (hk : 0 < k)
    (hle : k ≤ f.fileLen) : ¬ signalAtEof { f with fileLen := f.fileLen - k } :=
  mutation_filelen_falsifies_signalAtEof f h _ (by omega)

theorem mutation_sigoff_falsifies_signalAtEof (f : CphdFile) (h : signalAtEof f) (n : Nat) (hn : n ≠ f.b.sigOff) :
    ¬ signalAtEof { f with b := { f.b with sigOff := n } } := by
  unfold signalAtEof at *; simp only; omega

/-- `cphd_sig_offset_into_pvp`: a signal offset before the end of the PVP block breaks "Signal comes after PVP" -/
theorem mutation_sigoff_falsifies_signalAfterPvp (f : CphdFile) (n : Nat) (hn : n < f.b.pvpOff + f.b.pvpSize) :
    ¬ signalAfterPvp { f with b := { f.b with sigOff := n } } := by
  unfold signalAfterPvp; simp only; omega

/-- `cphd_pvp_size`: a PVP size that runs past the signal offset breaks "Signal comes after PVP"; on a writer
    layout an increase by 64 or more always does (the pad is shorter than 64 bytes) -/
theorem mutation_pvpsize_falsifies_signalAfterPvp (hdrLen xo xs : Nat) (ss : Option Nat) (ps gs d : Nat) (hd : 64 ≤ d) :
    ¬ signalAfterPvp { writerFile hdrLen (layout xo xs ss ps gs) with
        b := { (layout xo xs ss ps gs) with pvpSize := ps + d } } := by
  have := (C09.layout_aligned xo xs ss ps gs).2.2.1
  have hp : (layout xo xs ss ps gs).pvpSize = ps := by cases ss <;> rfl
  simp only [hp] at this
  unfold signalAfterPvp; simp only; omega

/-- `cphd_pvp_offset_overlap`: a PVP offset inside what precedes it breaks the order rule of the preceding block -/
theorem mutation_pvpoff_falsifies_order (f : CphdFile) (n : Nat) :
    (f.b.supp = none → n < f.b.xmlOff + f.b.xmlSize + 2 →
        ¬ nextAfterXml { f with b := { f.b with pvpOff := n } }) ∧
    (∀ so s, f.b.supp = some (so, s) → n < so + s →
        ¬ pvpAfterSupport { f with b := { f.b with pvpOff := n } }) := by
  constructor
  · intro hs hn
    unfold nextAfterXml; simp only [hs]; omega
  · intro so s hs hn
    unfold pvpAfterSupport; simp only [hs]; omega

/-- `cphd_xml_size`: on a writer layout, XML_BLOCK_SIZE enlarged by 64 or more runs into the next block -/
theorem mutation_xmlsize_falsifies_nextAfterXml (hdrLen xo xs : Nat) (ss : Option Nat) (ps gs d : Nat) (hd : 64 ≤ d) :
    ¬ nextAfterXml { writerFile hdrLen (layout xo xs ss ps gs) with
        b := { (layout xo xs ss ps gs) with xmlSize := xs + d } } := by
  have hal := (C09.layout_aligned xo xs ss ps gs).2.2.2
  cases ss with
  | none =>
    simp only [layout] at hal
    simp only [nextAfterXml, layout]
    omega
  | some s =>
    simp only [layout] at hal
    simp only [nextAfterXml, layout]
    omega

/-- `cphd_xml_offset_into_header`: an XML offset inside the header text breaks the terminator rule -/
theorem mutation_xmloff_falsifies_hdrBeforeXml (f : CphdFile) (n : Nat) (hn : n < f.hdrLen + 2) :
    ¬ hdrBeforeXml { f with b := { f.b with xmlOff := n } } := by
  unfold hdrBeforeXml; simp only; omega

theorem totalBytes_append (a b : List (Nat × Nat)) : totalBytes (a ++ b) = totalBytes a + totalBytes b := by
  simp [totalBytes]

theorem packed_append_last (start : Nat) (chans : List (Nat × Nat)) (o sz : Nat) (h : Packed start (chans ++ [(o, sz)])) :
    o = start + totalBytes chans := by
  induction chans generalizing start with
  | nil => simpa [Packed, totalBytes] using h.1
  | cons a r ih =>
    obtain ⟨off, size⟩ := a
    obtain ⟨ho, hr⟩ := h
    subst ho
    have := ih (off + size) hr
    simp only [totalBytes, List.map_cons, List.sum_cons] at this ⊢
    omega

/-- `cphd_numvectors` / `cphd_numsamples`: the last channel declared larger than the data written (NumVectors + 1
    with non-empty vectors, or any larger byte count) no longer fits the signal block -/
theorem mutation_numvectors_falsifies_signalFits (chans : List (Nat × Nat)) (o nv ns sz : Nat)
    (h : Packed 0 (chans ++ [(o, chanBytes nv ns sz)])) (hpos : 0 < ns * sz) :
    signalFits (totalBytes (chans ++ [(o, chanBytes nv ns sz)])) (chans ++ [(o, chanBytes (nv + 1) ns sz)]) = false := by
  have ho := packed_append_last 0 chans o _ h
  unfold signalFits
  rw [List.all_append, totalBytes_append]
  have : decide (o + chanBytes (nv + 1) ns sz ≤ totalBytes chans + totalBytes [(o, chanBytes nv ns sz)]) = false := by
    rw [decide_eq_false_iff_not]
    simp only [totalBytes, List.map_cons, List.map_nil, List.sum_cons, List.sum_nil, chanBytes] at ho ⊢
    have e : (nv + 1) * ns * sz = nv * ns * sz + ns * sz := by
      rw [Nat.add_mul, Nat.add_mul, Nat.one_mul]
    omega
  simp [this]

/-! ### SICD / SIDD DES rule -/

theorem writer_layout_satisfies_desRule {α : Type} [DecidableEq α] (table : List (α × α)) (urn version : α)
    (h : table.lookup urn = some version) : desRule table (writerDes urn version) = true := by
  simp [desRule, writerDes, h]

/-- `sicd_desshtn_mismatch`: DESSHTN replaced by any other value (a recognised urn or not) -/
theorem mutation_desshtn_falsifies_desRule {α : Type} [DecidableEq α] (table : List (α × α)) (urn version other : α)
    (hne : other ≠ urn) : desRule table { writerDes urn version with desshtn := other } = false := by
  simp [desRule, writerDes, hne]

/-- `sicd_xmlns_mismatch`: the namespace of the XML replaced by any other value -/
theorem mutation_xmlns_falsifies_desRule {α : Type} [DecidableEq α] (table : List (α × α)) (urn version other : α)
    (hne : other ≠ urn) : desRule table { writerDes urn version with xmlns := other } = false := by
  simp [desRule, writerDes, Ne.symm hne]

/-- `sicd_desshsv_mismatch`: DESSHSV replaced by a version that is not the table's version of the urn -/
theorem mutation_desshsv_falsifies_desRule {α : Type} [DecidableEq α] (table : List (α × α)) (urn version other : α)
    (h : table.lookup urn = some version) (hne : other ≠ version) :
    desRule table { writerDes urn version with desshsv := other } = false := by
  simp [desRule, writerDes, h, Ne.symm hne]

/-! ### NITF file length -/

/-- the writer sets FL to the end of the last item, which is the sum of all declared sizes -/
theorem writer_layout_satisfies_flRule (header : Nat) (segs : List (Nat × Nat)) :
    flRule (Spec.Layout.fileLength header segs) (lastEnd header segs) := by
  unfold flRule lastEnd
  exact (C03.offsets_end header segs).symm

/-- `nitf_truncated` / `nitf_fl`: bytes removed (or FL altered) break the rule -/
theorem mutation_truncate_falsifies_flRule (fl len k : Nat) (h : flRule fl len) (hk : 0 < k) (hle : k ≤ len) :
    ¬ flRule fl (len - k) := by
  unfold flRule at *; omega

theorem mutation_fl_falsifies_flRule (fl len n : Nat) (h : flRule fl len) (hn : n ≠ fl) : ¬ flRule n len := by
  unfold flRule at *; omega

/-! ## satisfiable examples -/

-- tests/consistency/test_consistency.py `DummyConsistency`, in name order: exception, need_both, need_fail,
-- need_fail_nodetails, need_pass, nopre_need_pass, nopre_want_pass, pre_need_pass, pre_want_pass, want_fail, want_pass
def dummy : List (List Op) :=
  [[.raise], [.need true, .need false], [.need false], [.need false], [.need true],
   [.pre false, .need true, .close], [.pre false, .want true, .close], [.pre true, .need true, .close],
   [.pre true, .want true, .close], [.want false], [.want true]]

example : (run dummy).length = 11 ∧ (failures (run dummy)).length = 5 ∧ (skips (run dummy)).length = 2 ∧
    (pyPasses (run dummy)).length = 4 ∧ passes (run dummy) = false := by decide

example : runCheck [.need true, .pre false, .need false, .pre true, .raise, .close, .close, .want false] =
    ⟨[⟨.error, true⟩, ⟨.noop, true⟩, ⟨.warning, false⟩], false⟩ := by decide

example : passes (run [[.want false], [.pre false, .raise]]) = true ∧
    strictPasses (run [[.want false], [.pre false, .raise]]) = false := by decide

example : Executed [.need true, .raise, .need false] .raise := ⟨[.need true], [.need false], rfl, rfl⟩

-- a two-channel file with a support array (numbers from a real header): every rule holds, each mutation breaks its rule
def exFile : CphdFile := writerFile 292 (layout 1024 6163 (some 140) 2240 116)

example : hdrBeforeXml exFile ∧ nextAfterXml exFile ∧ pvpAfterSupport exFile ∧ signalAfterPvp exFile ∧ signalAtEof exFile := by
  decide
example : ¬ signalAtEof { exFile with b := { exFile.b with sigSize := 117 } } := by decide
example : ¬ signalAtEof { exFile with fileLen := exFile.fileLen - 1 } := by decide
example : ¬ pvpAfterSupport { exFile with b := { exFile.b with pvpOff := 7360 } } := by decide
example : ¬ signalAfterPvp { exFile with b := { exFile.b with sigOff := 9600 } } := by decide
example : ¬ nextAfterXml { exFile with b := { exFile.b with xmlSize := 6163 + 64 } } := by decide
example : Packed 0 [(0, 96), (96, 20)] ∧ signalFits 116 [(0, 96), (96, 20)] = true ∧
    signalFits 116 [(0, 96), (96, chanBytes 6 1 4)] = false := ⟨⟨rfl, rfl, trivial⟩, by decide, by decide⟩

example : desRule [(130, 130), (121, 121)] (writerDes 130 130) = true ∧
    desRule [(130, 130), (121, 121)] { writerDes 130 130 with desshtn := 121 } = false := by decide

example : flRule (Spec.Layout.fileLength 388 [(500, 1000), (200, 30)]) (lastEnd 388 [(500, 1000), (200, 30)]) := by decide

end Sarpy.Props.C18
