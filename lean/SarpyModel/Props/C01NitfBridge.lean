/-
  C01Nitf, bridge: the orientation tables of the model (`orientBPR`, `orientLast`) against the tables regenerated from the CURRENT
  Python source on every run (translate/gen_nitf_orient.py cuts the if / elif chain "account for rearrangement of bands to final
  dimension" out of NITFReader._handle_no_compression, and NITFReader._get_transpose, and evaluates them on their whole finite domain).
  A semantic change of that chain - e.g. handing `use_reverse` on unchanged for IMODE B, where raw axis 0 is the band axis - changes a
  row and `gen_orient_eq_spec` no longer holds.  Shallow automation only (`decide`).
-/
import SarpyModel.Gen.NitfOrient
import SarpyModel.Props.C01NitfColl

namespace Sarpy.Props.C01.Nitf
open Sarpy Sarpy.Spec Sarpy.Spec.NitfAssembly

def hdrOf (im : IMode) (nb : Nat) : ImageHeaderFields := { (default : ImageHeaderFields) with imode := im, nbands := nb }

/-- every row the current Python produces is what the model hands to the outermost segment -/
theorem gen_orient_eq_spec : ∀ r ∈ Gen.NitfOrient.rows,
    orientBPR (hdrOf r.1 r.2.1) ⟨r.2.2.2.1, r.2.2.1, true⟩ true = (none, r.2.2.2.2.2, r.2.2.2.2.1) := by decide +kernel

def orientDomain : List (IMode × Nat × Bool × List Nat) :=
  [IMode.B, IMode.P, IMode.R].flatMap (fun im => [1, 2, 3, 4].flatMap (fun nb => [false, true].flatMap (fun tr =>
    [[], [], [0], [1], [0, 1], [1, 0]].map (fun rev => (im, nb, tr, rev)))))

/-- the regenerated table covers the whole domain: IMODE B / P / R x 1..4 bands x transpose or not x every reverse_axes value -/
theorem gen_orient_complete : Gen.NitfOrient.rows.map (fun r => (r.1, r.2.1, r.2.2.1, r.2.2.2.1)) = orientDomain := by decide +kernel

/-- `_get_transpose` (IMODE S band stack, collection mosaic) for data that is not an I/Q pair -/
theorem gen_transpose_eq_spec : ∀ r ∈ Gen.NitfOrient.transposeRows,
    (orientLast none r.1 ⟨[], r.2.1, true⟩ true).2.2 = r.2.2 := by decide

theorem gen_transpose_complete : Gen.NitfOrient.transposeRows.map (fun r => (r.1, r.2.1)) =
    [1, 2, 3, 4].flatMap (fun nb => [false, true].map (fun tr => (nb, tr))) := by decide

/-- the model looks at the number of bands only through `= 1` (the sampled band counts 2, 3, 4 stand for every multi-band image) -/
theorem orientBPR_bands (h : ImageHeaderFields) (o : ReaderOptions) (af : Bool) (nb nb' : Nat) (h1 : nb ≠ 1) (h2 : nb' ≠ 1) :
    orientBPR { h with nbands := nb } o af = orientBPR { h with nbands := nb' } o af := by
  simp [orientBPR, h1, h2]

end Sarpy.Props.C01.Nitf
