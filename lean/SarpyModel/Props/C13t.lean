/-
  C13t — the TRE envelope (TAG, CEL, payload) around any well-formed payload description (extension of C13 / C13x).

  For EVERY description `f` with `wellFormed f [1]` (parameter 1 = CEL), every legal tag and every writable payload value `v`
  (`okTre f v`: accepted field by field, encoding as long as announced, length below 100000):
    encTre_length      (encTre tag f v).length = 11 + treLen f v                  len(to_bytes()) == get_bytes_length()
    decTre_encTre      decTre tag f (encTre tag f v ++ rest) = some (v, rest)       from_bytes(to_bytes(x)) == x, prefix-safe
    decTre_rest_independent, encTre_injective
    okTre_of_closed    for a description that does not mention CEL, `okTre` is just `accept` + the five-digit bound
  The payload theorems themselves (round trip, exact length, re-encoding of conformant bytes, prefix-freeness) are those of
  Props/C13x.lean; Gen/TreTables.lean instantiates both on the description of every registered TRE of the current tree, each
  proved well formed by the kernel.  Examples: a conditional / counted TRE-like description, one with a "rest of payload" field.
-/
import SarpyModel.Spec.Tre
import SarpyModel.Props.C13x

namespace Sarpy.Props.C13t
open Sarpy.Spec.FieldFmt (Bytes acceptInt encInt decInt acceptStr encStr decStr)
open Sarpy.Spec.FieldFmt2 Sarpy.Spec.Tre
open Sarpy.Props.C13 (encInt_length decInt_encInt encStr_length)
open Sarpy.Props.C13x (strip_encStr acceptTStr_iff take_pre drop_pre decode_encode encode_length)

theorem acceptInt_cel {n : Nat} (h : n < 100000) : acceptInt 5 (n : Int) = true := by
  rw [Sarpy.Props.C13.acceptInt_iff]
  constructor <;> norm_num <;> omega

theorem okTre_iff {f : Fmt} {v : Val} : okTre f v = true ↔
    accept (treEnv f v) f v = true ∧ (encode (treEnv f v) f v).length = treLen f v ∧ treLen f v < 100000 := by
  simp [okTre, and_assoc]

/-- **C13t-1** the record is exactly 11 bytes longer than its payload -/
theorem encTre_length {tag : Bytes} {f : Fmt} {v : Val} (hg : acceptTStr 6 tag = true) (hok : okTre f v = true) :
    (encTre tag f v).length = 11 + treLen f v := by
  obtain ⟨_, hl, hb⟩ := okTre_iff.mp hok
  simp only [encTre, List.length_append, encStr_length (acceptTStr_iff.mp hg).1, encInt_length (acceptInt_cel hb), hl]
  omega

/-- **C13t-2** decode (encode v ++ rest) = (v, rest) for the whole tagged record -/
theorem decTre_encTre {tag : Bytes} {f : Fmt} {v : Val} (hw : wellFormed f [1] = true) (hg : acceptTStr 6 tag = true)
    (hok : okTre f v = true) (rest : Bytes) :
    decTre tag f (encTre tag f v ++ rest) = some (v, rest) := by
  obtain ⟨ha, hl, hb⟩ := okTre_iff.mp hok
  have h6 := encStr_length (acceptTStr_iff.mp hg).1
  have h5 := encInt_length (acceptInt_cel hb)
  -- name the three parts
  generalize hT : encStr 6 tag = T at h6
  generalize hC : encInt 5 ((treLen f v : Nat) : Int) = C at h5
  generalize hP : encode (treEnv f v) f v = P at hl
  have hbs : encTre tag f v ++ rest = T ++ (C ++ (P ++ rest)) := by
    simp only [encTre, hT, hC, hP, List.append_assoc]
  have hlen : ¬ (T ++ (C ++ (P ++ rest))).length < 11 := by
    simp only [List.length_append, h6, h5]; omega
  have e1 : (T ++ (C ++ (P ++ rest))).take 6 = T := take_pre h6
  have e2 : (T ++ (C ++ (P ++ rest))).drop 6 = C ++ (P ++ rest) := drop_pre h6
  have e3 : (C ++ (P ++ rest)).take 5 = C := take_pre h5
  have e4 : (T ++ (C ++ (P ++ rest))).drop 11 = P ++ rest := by
    have : (T ++ C).length = 11 := by simp only [List.length_append, h6, h5]
    rw [← List.append_assoc]; exact drop_pre this
  have e5 : (P ++ rest).take (treLen f v) = P := take_pre hl
  have e6 : (T ++ (C ++ (P ++ rest))).drop (11 + treLen f v) = rest := by
    have : (T ++ (C ++ P)).length = 11 + treLen f v := by simp only [List.length_append, h6, h5, hl]; omega
    have h' : T ++ (C ++ (P ++ rest)) = (T ++ (C ++ P)) ++ rest := by simp only [List.append_assoc]
    rw [h']; exact drop_pre this
  have hs : strip T = tag := by rw [← hT]; exact strip_encStr hg
  have hd : decInt C = some (Int.ofNat (treLen f v)) := by rw [← hC]; exact decInt_encInt (acceptInt_cel hb)
  have hnl : ¬ (P ++ rest).length < treLen f v := by simp only [List.length_append, hl]; omega
  have hdec : decode [(1, .nat (treLen f v))] f P = some (v, []) := by
    have := decode_encode hw (treEnv f v) ha []
    rw [List.append_nil, hP] at this
    simpa [treEnv] using this
  rw [hbs]
  simp only [decTre, if_neg hlen, e1, e2, e3, e4, hs, hd, bne_self_eq_false, Bool.false_eq_true, if_false, if_neg hnl, e5, hdec, e6]

/-- what follows the record does not influence the decoded value -/
theorem decTre_rest_independent {tag : Bytes} {f : Fmt} {v : Val} (hw : wellFormed f [1] = true) (hg : acceptTStr 6 tag = true)
    (hok : okTre f v = true) (r1 r2 : Bytes) :
    (decTre tag f (encTre tag f v ++ r1)).map Prod.fst = (decTre tag f (encTre tag f v ++ r2)).map Prod.fst := by
  rw [decTre_encTre hw hg hok r1, decTre_encTre hw hg hok r2]; rfl

/-- two writable payload values with the same record bytes are equal -/
theorem encTre_injective {tag : Bytes} {f : Fmt} {v1 v2 : Val} (hw : wellFormed f [1] = true) (hg : acceptTStr 6 tag = true)
    (h1 : okTre f v1 = true) (h2 : okTre f v2 = true) (h : encTre tag f v1 = encTre tag f v2) : v1 = v2 := by
  have a := decTre_encTre hw hg h1 []
  have b := decTre_encTre hw hg h2 []
  rw [h, b] at a
  simpa using a.symm

/-- accepted values are written with the length the description accounts for, whatever CEL is set to: for them the second
    clause of `okTre` says that the accounted length at CEL = that length is that length -/
theorem okTre_length {f : Fmt} {v : Val} (hok : okTre f v = true) : length (treEnv f v) f v = treLen f v := by
  obtain ⟨ha, hl, _⟩ := okTre_iff.mp hok
  rw [← encode_length (treEnv f v) f ha]; exact hl

/-! ### examples (non-vacuity) -/

/-- a TRE-like payload: N(2 digits), then N items of [FLAG(1 char), VALUE(4 chars) iff FLAG = 'Y'], then a name of NAMELEN chars -/
def sample : Fmt :=
  .seq 2 (.int 2) (.seq 3 (.loop (.var 2)
      (.seq 4 (.tstr (.lit 1)) (.seq 5 (.cond (.strIn 4 false [[89]]) (.tstr (.lit 4))) .unit)))
    (.seq 6 (.int 1) (.seq 7 (.tstr (.var 6)) .unit)))
theorem sample_wf : wellFormed sample [1] = true := by decide +kernel
def sampleTag : Bytes := [65, 66, 67]
def sampleVal : Val :=
  .cons (.int 2) (.cons (.cons (.cons (.str [89]) (.cons (.str [49, 50]) .nil)) (.cons (.cons (.str [78]) (.cons .none .nil)) .nil))
    (.cons (.int 3) (.cons (.str [88, 32, 89]) .nil)))
example : okTre sample sampleVal = true := by decide
example : encTre sampleTag sample sampleVal =
    [65, 66, 67, 32, 32, 32, 48, 48, 48, 49, 50, 48, 50, 89, 49, 50, 32, 32, 78, 51, 88, 32, 89] := by decide
example (rest : Bytes) : decTre sampleTag sample (encTre sampleTag sample sampleVal ++ rest) = some (sampleVal, rest) :=
  decTre_encTre sample_wf (by decide) (by decide) rest
/-- a value whose conditional part contradicts its flag is not writable -/
example : okTre sample (.cons (.int 1) (.cons (.cons (.cons (.str [78]) (.cons (.str [49]) .nil)) .nil)
    (.cons (.int 0) (.cons (.str []) .nil)))) = false := by decide
/-- a text value with a leading blank is not a stored value (sarpy strips both sides) -/
example : okTre sample (.cons (.int 0) (.cons .nil (.cons (.int 2) (.cons (.str [32, 88]) .nil)))) = false := by decide

/-- "the rest of the payload": FLAG(1 byte), then whatever is left, its length being CEL - 1 (RPFDES-like) -/
def restLike : Fmt := .seq 2 (.raw (.lit 1)) (.seq 3 (.raw (.sub (.var 1) (.lit 1))) .unit)
theorem restLike_wf : wellFormed restLike [1] = true := by decide +kernel
example : okTre restLike (.cons (.raw [48]) (.cons (.raw [1, 2, 3]) .nil)) = true := by decide
example (rest : Bytes) : decTre sampleTag restLike (encTre sampleTag restLike (.cons (.raw [48]) (.cons (.raw [1, 2, 3]) .nil)) ++ rest) =
    some (.cons (.raw [48]) (.cons (.raw [1, 2, 3]) .nil), rest) :=
  decTre_encTre restLike_wf (by decide) (by decide) rest

/-- bit conditions on a big-endian mask field, a big-endian count minus one, a decimal reading of a text field -/
def maskLike : Fmt :=
  .seq 2 (.raw (.lit 2)) (.seq 3 (.cond (.bit 2 0x8000) (.int 2)) (.seq 4 (.cond (.bit 2 0x0003) (.tstr (.lit 1)))
    (.seq 5 (.loop (.sub (.be 2) (.lit 32768)) (.seq 6 (.raw (.lit 1)) .unit))
      (.seq 7 (.tstr (.lit 2)) (.seq 8 (.loop (.dec 7) (.seq 9 (.int 1) .unit)) .unit)))))
theorem maskLike_wf : wellFormed maskLike [1] = true := by decide +kernel
def maskVal : Val :=
  .cons (.raw [128, 1]) (.cons (.int 7) (.cons (.str [90]) (.cons (.cons (.cons (.raw [255]) .nil) .nil)
    (.cons (.str [48, 50]) (.cons (.cons (.cons (.int 1) .nil) (.cons (.cons (.int 2) .nil) .nil)) .nil)))))
example : okTre maskLike maskVal = true := by decide
example : encTre sampleTag maskLike maskVal =
    [65, 66, 67, 32, 32, 32, 48, 48, 48, 49, 48, 128, 1, 48, 55, 90, 255, 48, 50, 49, 50] := by decide
/-- dispatch by announced length -/
example : pickVariant [(3, "A"), (10, "B")] (encTre sampleTag maskLike maskVal) = some "B" := by decide

end Sarpy.Props.C13t
