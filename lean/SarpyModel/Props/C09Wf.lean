/-
  C09 / C11 — the writer configuration that `make_file_header` + the metadata's relative offsets produce is well formed
  (`WF` of Props/C09Image.lean), so the history theorems apply to it; and the no-rewrite hypothesis of those theorems is needed.

  * `packed_ranges_ordered`   : packed relative offsets give element ranges that follow each other (hence are pairwise disjoint)
  * `wf_of_layout`            : header-fit (`header_text_fits`) + `layout` + elements inside their blocks + disjointness inside each block
                                => header / XML / element ranges as `WF` needs them ("ranges of distinct items never overlap")
  * `rewrite_counter_example` : in memory, a signal row written twice makes an incomplete array count as complete: the next flush
                                delivers it with a zero row and the row written afterwards never reaches the file (the C19 finding
                                `fully-written-claim-counts-rewritten-pixels`, seen from the file image)
-/
import SarpyModel.Spec.CphdLayout
import SarpyModel.Spec.CphdWriter
import SarpyModel.Props.C09
import SarpyModel.Props.C09Image

namespace Sarpy.Props.C09
open Sarpy.Spec.CphdLayout Sarpy.Spec.CphdWriter

variable {α : Type}

/-- every element range of a packed list starts at or after the block start plus `start` -/
theorem packed_ranges_lower (blockOff start : Nat) (rel : List (Nat × Nat)) (h : Packed start rel) :
    ∀ r ∈ elementRanges blockOff rel, blockOff + start ≤ r.1 := by
  induction rel generalizing start with
  | nil => intro r hr; simp [elementRanges] at hr
  | cons q rest ih =>
    obtain ⟨off, size⟩ := q
    obtain ⟨ho, hrest⟩ := h
    subst ho
    intro r hr
    simp only [elementRanges, List.map_cons, List.mem_cons] at hr
    rcases hr with hr | hr
    · subst hr; exact Nat.le_refl _
    · have := ih (off + size) hrest r (by simpa [elementRanges] using hr)
      omega

/-- in a packed list every element range ends where or before every later one starts (so distinct elements never overlap) -/
theorem packed_ranges_ordered (blockOff start : Nat) (rel : List (Nat × Nat)) (h : Packed start rel) :
    List.Pairwise (fun a b => a.2 ≤ b.1) (elementRanges blockOff rel) := by
  induction rel generalizing start with
  | nil => simp [elementRanges]
  | cons q rest ih =>
    obtain ⟨off, size⟩ := q
    obtain ⟨ho, hrest⟩ := h
    subst ho
    have e : elementRanges blockOff ((off, size) :: rest) = (blockOff + off, blockOff + off + size) :: elementRanges blockOff rest := rfl
    rw [e, List.pairwise_cons]
    refine ⟨fun b hb => ?_, ih (off + size) hrest⟩
    have := packed_ranges_lower blockOff (off + size) rest hrest b hb
    simp only
    omega

/-- **ranges of distinct items never overlap, and nothing overlaps header or XML**: the three layout clauses of `WF` for a
    configuration whose XML offset / sizes are those of `layout`, whose header text fits (`header_text_fits`), whose elements lie
    inside the block of their kind and do not overlap inside one block (`packed_ranges_ordered`) -/
theorem wf_of_layout (c : Cfg α) (xo xs : Nat) (ss : Option Nat) (ps gs : Nat)
    (hx : c.xmlOff = xo) (hxl : c.xml.len = xs) (ht : c.term.len = 2) (hh : c.hdr.len + 2 ≤ xo)
    (hpvp : ∀ k, k < c.n → (c.item k).kind = .pvp →
      (layout xo xs ss ps gs).pvpOff ≤ (c.item k).off ∧ (c.item k).off + (c.item k).size ≤ (layout xo xs ss ps gs).pvpOff + ps)
    (hsig : ∀ k, k < c.n → (c.item k).kind = .signal →
      (layout xo xs ss ps gs).sigOff ≤ (c.item k).off ∧ (c.item k).off + (c.item k).size ≤ (layout xo xs ss ps gs).sigOff + gs)
    (hsup : ∀ k, k < c.n → (c.item k).kind = .support → ∃ so s, (layout xo xs ss ps gs).supp = some (so, s) ∧
      so ≤ (c.item k).off ∧ (c.item k).off + (c.item k).size ≤ so + s)
    (hsame : ∀ j k, j < c.n → k < c.n → j ≠ k → (c.item j).kind = (c.item k).kind →
      (c.item j).off + (c.item j).size ≤ (c.item k).off ∨ (c.item k).off + (c.item k).size ≤ (c.item j).off) :
    c.hdr.len + c.term.len ≤ c.xmlOff ∧
    (∀ k, k < c.n → c.xmlOff + c.xml.len + c.term.len ≤ (c.item k).off) ∧
    (∀ j k, j < c.n → k < c.n → j ≠ k →
      (c.item j).off + (c.item j).size ≤ (c.item k).off ∨ (c.item k).off + (c.item k).size ≤ (c.item j).off) := by
  have hord := layout_ordered xo xs ss ps gs
  simp only at hord
  obtain ⟨_, _, _, _, hsp, hps⟩ := hord
  -- where an element of each kind lies relative to the XML end, the PVP block and the SIGNAL block
  have key : ∀ k, k < c.n →
      xo + xs + 2 ≤ (c.item k).off ∧
      ((c.item k).kind = .support → (c.item k).off + (c.item k).size ≤ (layout xo xs ss ps gs).pvpOff) ∧
      ((c.item k).kind = .pvp → (layout xo xs ss ps gs).pvpOff ≤ (c.item k).off ∧
          (c.item k).off + (c.item k).size ≤ (layout xo xs ss ps gs).sigOff) ∧
      ((c.item k).kind = .signal → (layout xo xs ss ps gs).sigOff ≤ (c.item k).off) := by
    intro k hk
    have hxp : xo + xs + 2 ≤ (layout xo xs ss ps gs).pvpOff := by
      cases hs : (layout xo xs ss ps gs).supp with
      | none => rw [hs] at hsp; exact hsp.2
      | some p => obtain ⟨so, s⟩ := p; rw [hs] at hsp; simp only at hsp; omega
    cases hkind : (c.item k).kind with
    | pvp =>
      have := hpvp k hk hkind
      refine ⟨by omega, ?_, ?_, ?_⟩
      · intro h; cases h
      · intro _; exact ⟨this.1, by omega⟩
      · intro h; cases h
    | signal =>
      have := hsig k hk hkind
      refine ⟨by omega, ?_, ?_, ?_⟩
      · intro h; cases h
      · intro h; cases h
      · intro _; exact this.1
    | support =>
      obtain ⟨so, s, hs, h1, h2⟩ := hsup k hk hkind
      rw [hs] at hsp
      simp only at hsp
      refine ⟨by omega, ?_, ?_, ?_⟩
      · intro _; omega
      · intro h; cases h
      · intro h; cases h
  refine ⟨by rw [ht, hx]; exact hh, fun k hk => by rw [hx, hxl, ht]; exact (key k hk).1, fun j k hj hk hne => ?_⟩
  by_cases hkk : (c.item j).kind = (c.item k).kind
  · exact hsame j k hj hk hne hkk
  · have kj := key j hj
    have kk := key k hk
    cases hj' : (c.item j).kind <;> cases hk' : (c.item k).kind <;> simp [hj', hk'] at hkk kj kk <;> omega

/-! ### the no-rewrite hypothesis is needed -/

/-- one channel of two one-byte rows (PVP at 10..12, signal at 12..14), BytesIO protocol, every data byte is 7 -/
def demoCfg : Cfg Nat :=
  { zero := 0, inMem := true, ampSF := false, hdr := ⟨2, fun _ => 1⟩, term := ⟨1, fun _ => 2⟩, xmlOff := 4, xml := ⟨3, fun _ => 3⟩,
    nchan := 1, nsup := 0,
    item := fun k => if k = 0 then { kind := .pvp, off := 10, size := 2, rows := 1, rowBytes := 2 }
                     else { kind := .signal, off := 12, size := 2, rows := 2, rowBytes := 1 } }

def demoRow : Blk Nat := ⟨1, fun _ => 7⟩

/-- row 0 twice, flush, row 1, close: both rows have been written, yet byte 13 (row 1) of the file is zero -/
theorem rewrite_counter_example :
    let ops : List (Op Nat) := [.writeSig 0 0 demoRow true, .writeSig 0 0 demoRow true, .flush, .writeSig 0 1 demoRow true, .close]
    let s := run demoCfg (init demoCfg) ops
    s.closed = true ∧ (s.el 1).done = [true, true] ∧ rd demoCfg s 12 = 7 ∧ rd demoCfg s 13 = 0 ∧
    outs demoCfg (init demoCfg) ops = [.ok, .ok, .ok, .ok, .report false [0]] := by decide

/-- the same calls without the repeated one: byte 13 is the written value -/
example :
    let ops : List (Op Nat) := [.writeSig 0 0 demoRow true, .flush, .writeSig 0 1 demoRow true, .close]
    let s := run demoCfg (init demoCfg) ops
    s.closed = true ∧ rd demoCfg s 12 = 7 ∧ rd demoCfg s 13 = 7 := by decide

end Sarpy.Props.C09
