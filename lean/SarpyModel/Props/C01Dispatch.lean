/-
  C01, reader dispatch layer (`sarpy/io/general/base.py`): which image, raw or formatted, squeezed or not and which
  per-image subscript a Python-level request denotes, for every entry point, over `Spec/Dispatch.lean`.
  Unbounded in the number of images, the number and kind of subscript items, and the positions of the string modifiers.
-/
import SarpyModel.Spec.Dispatch
import SarpyModel.Props.C01Nd
import SarpyModel.Props.C01Seg
import Mathlib.Tactic.SplitIfs

namespace Sarpy.Props.C01
open Sarpy Sarpy.Spec

/-! ### string modifiers -/

/-- the non-string entries of a tuple subscript, in order -/
def nonStr (l : List PyVal) : List PyVal := l.filter (fun v => !v.isStr)
/-- the string entries of a tuple subscript, in order -/
def strsOf (l : List PyVal) : List StrMod := l.filterMap PyVal.strOf

theorem strsOf_nil_filter {l : List PyVal} (h : (strsOf l).length = 0) : nonStr l = l := by
  induction l with
  | nil => rfl
  | cons v l ih =>
    cases v <;> simp_all [strsOf, nonStr, PyVal.strOf, PyVal.isStr]

/-- `extract_string_from_subscript` on a tuple: the `if len(string_entries) > 0` is immaterial -/
theorem extract_tuple (l : List PyVal) : extractStrings (.tuple l) = (.tuple (nonStr l), strsOf l) := by
  unfold extractStrings
  simp only
  split_ifs with h
  · rfl
  · have : (strsOf l).length = 0 := by unfold strsOf; omega
    rw [show l.filterMap PyVal.strOf = strsOf l from rfl, strsOf_nil_filter this]

/-- `__getitem__` once the strings are out of the way: `items` are the non-string entries, the flags come from the strings -/
def getitemCore (count : Nat) (items : List PyVal) (raw squeeze : Bool) : Except Err Sel :=
  match items.getLast? with
  | Option.none => .error .indexError
  | some (.int i) =>
    if -(count : Int) < i ∧ i < count then readerCall count items.dropLast i raw squeeze
    else readerCall count items 0 raw squeeze
  | some _ => readerCall count items 0 raw squeeze

/-- **the modifiers commute with everything else**: `reader[tuple]` is decided by the non-string entries in their order and by
    *whether* 'raw' / 'nosqueeze' occur - not by where the strings stand, how often they occur or which other strings are present -/
theorem getitem_tuple (count : Nat) (l : List PyVal) :
    readerGetitem count (.tuple l) =
      getitemCore count (nonStr l) ((strsOf l).contains StrMod.raw) (!(strsOf l).contains StrMod.nosqueeze) := by
  unfold readerGetitem getitemCore
  simp only [extract_tuple, asTuple]
  cases (nonStr l).getLast? with
  | none => rfl
  | some v => cases v <;> rfl

/-- stripping the strings first or last gives the same (image, subscript): two tuples with the same non-string entries and the
    same set of modifiers are the same request -/
theorem getitem_mods_anywhere (count : Nat) {l₁ l₂ : List PyVal} (h : nonStr l₁ = nonStr l₂)
    (hr : (strsOf l₁).contains StrMod.raw = (strsOf l₂).contains StrMod.raw)
    (hn : (strsOf l₁).contains StrMod.nosqueeze = (strsOf l₂).contains StrMod.nosqueeze) :
    readerGetitem count (.tuple l₁) = readerGetitem count (.tuple l₂) := by
  rw [getitem_tuple, getitem_tuple, h, hr, hn]

theorem nonStr_append (a b : List PyVal) : nonStr (a ++ b) = nonStr a ++ nonStr b := by simp [nonStr]
theorem strsOf_append (a b : List PyVal) : strsOf (a ++ b) = strsOf a ++ strsOf b := by simp [strsOf]
theorem nonStr_str (m : StrMod) : nonStr [.str m] = [] := rfl
theorem strsOf_str (m : StrMod) : strsOf [.str m] = [m] := rfl
theorem nonStr_of_noStr {l : List PyVal} (h : ∀ v ∈ l, v.isStr = false) : nonStr l = l := by
  unfold nonStr
  rw [List.filter_eq_self]
  intro v hv
  simp [h v hv]
theorem strsOf_of_noStr {l : List PyVal} (h : ∀ v ∈ l, v.isStr = false) : strsOf l = [] := by
  unfold strsOf
  rw [List.filterMap_eq_nil_iff]
  intro v hv
  have := h v hv
  cases v <;> simp_all [PyVal.strOf, PyVal.isStr]

/-- a modifier may be moved from any position to any other position (here: from the front of the rest to its end) -/
theorem getitem_mod_moves (count : Nat) (a b : List PyVal) (m : StrMod) :
    readerGetitem count (.tuple (a ++ [.str m] ++ b)) = readerGetitem count (.tuple (a ++ b ++ [.str m])) := by
  apply getitem_mods_anywhere
  · simp [nonStr_append, nonStr_str, nonStr, PyVal.isStr]
  · simp only [strsOf_append, strsOf_str, List.contains_eq_mem, List.mem_append, List.mem_singleton]
    congr 1; apply propext; constructor <;> (intro h; rcases h with (h | h) | h <;> simp_all)
  · simp only [strsOf_append, strsOf_str, List.contains_eq_mem, List.mem_append, List.mem_singleton]
    congr 1; apply propext; constructor <;> (intro h; rcases h with (h | h) | h <;> simp_all)

/-- a lone string subscript: the whole of image 0 with the flag of that string -/
theorem getitem_single_str (count : Nat) (m : StrMod) :
    readerGetitem count (.str m) = readerCall count [.none] 0 (m == StrMod.raw) (!(m == StrMod.nosqueeze)) := by
  cases m <;> rfl

/-- a lone object that is neither a string nor a tuple is the one-entry tuple -/
theorem getitem_single (count : Nat) (v : PyVal) (hs : v.isStr = false) (ht : ∀ l, v ≠ .tuple l) :
    readerGetitem count v = readerGetitem count (.tuple [v]) := by
  cases v with
  | str m => simp [PyVal.isStr] at hs
  | tuple l => exact absurd rfl (ht l)
  | _ => rfl

/-! ### the image-index rule of `__getitem__` -/

/-- the trailing-integer rule, stated on the non-string entries: the last entry is an `int` strictly between
    `-image_count` and `image_count` -/
def trailingIndex (count : Nat) (items : List PyVal) : Option Int :=
  match items.getLast? with
  | some (.int i) => if -(count : Int) < i ∧ i < count then some i else Option.none
  | _ => Option.none

/-- **when the image index is recognised**: exactly when the non-string entries end in an integer `i` with
    `-image_count < i < image_count` (the number of entries and the rank of the image play no role in the code) -/
theorem trailingIndex_some_iff (count : Nat) (items : List PyVal) (i : Int) :
    trailingIndex count items = some i ↔ ∃ init, items = init ++ [.int i] ∧ -(count : Int) < i ∧ i < count := by
  unfold trailingIndex
  constructor
  · intro h
    split at h
    · rename_i j hl
      split_ifs at h with hr
      simp only [Option.some.injEq] at h
      subst h
      obtain ⟨ys, rfl⟩ := List.getLast?_eq_some_iff.mp hl
      exact ⟨ys, rfl, hr⟩
    · simp at h
  · rintro ⟨init, rfl, hr⟩
    simp [hr]

/-- **the rule**: with a recognised index `i` the remaining entries are the ranges and image `i` is read; otherwise ALL
    entries (a trailing integer included) are ranges of image 0; an empty tuple is an IndexError -/
theorem getitemCore_rule (count : Nat) (items : List PyVal) (raw sq : Bool) :
    getitemCore count items raw sq =
      match trailingIndex count items with
      | some i => readerCall count items.dropLast i raw sq
      | Option.none => if items = [] then .error .indexError else readerCall count items 0 raw sq := by
  unfold getitemCore trailingIndex
  cases h : items.getLast? with
  | none => simp [List.getLast?_eq_none_iff.mp h]
  | some v =>
    have hne : items ≠ [] := by
      intro e; subst e; simp at h
    cases v <;> simp only [hne, if_false]
    split_ifs <;> rfl

/-- the recognised index is never refused, and names the image Python's tuple indexing names -/
theorem trailingIndex_image {count : Nat} {items : List PyVal} {i : Int} (h : trailingIndex count items = some i) :
    ∃ k, pickImage count i = .ok k ∧ k < count ∧ (k : Int) = if i < 0 then i + count else i := by
  obtain ⟨_, _, h1, h2⟩ := (trailingIndex_some_iff count items i).mp h
  unfold pickImage pyIndex
  by_cases hc : count = 1
  · subst hc
    have : i = 0 := by omega
    subst this
    exact ⟨0, by simp, by omega, by simp⟩
  · rw [if_neg hc, if_pos ⟨by omega, h2⟩]
    refine ⟨_, rfl, ?_, ?_⟩
    · split_ifs <;> omega
    · split_ifs <;> omega

/-! ### `__call__`: ranges, image -/

theorem pyIndex_ok_iff (count : Nat) (index : Int) (k : Nat) :
    pyIndex count index = .ok k ↔
      -(count : Int) ≤ index ∧ index < count ∧ (k : Int) = if index < 0 then index + count else index := by
  unfold pyIndex
  by_cases h : -(count : Int) ≤ index ∧ index < count
  · rw [if_pos h]
    simp only [Except.ok.injEq]
    by_cases hn : index < 0
    · simp only [if_pos hn]
      constructor
      · intro e; subst e; exact ⟨h.1, h.2, by omega⟩
      · rintro ⟨_, _, e⟩; omega
    · simp only [if_neg hn]
      constructor
      · intro e; subst e; exact ⟨h.1, h.2, by omega⟩
      · rintro ⟨_, _, e⟩; omega
  · rw [if_neg h]
    constructor
    · intro e; cases e
    · rintro ⟨a, b, _⟩; exact absurd ⟨a, b⟩ h

theorem pyIndex_lt {count : Nat} {index : Int} {k : Nat} (h : pyIndex count index = .ok k) : k < count := by
  obtain ⟨h1, h2, h3⟩ := (pyIndex_ok_iff count index k).mp h
  split_ifs at h3 <;> omega

/-- **an out-of-range index is refused** by Python's tuple indexing -/
theorem pyIndex_refused_iff (count : Nat) (index : Int) :
    pyIndex count index = .error .indexError ↔ index < -(count : Int) ∨ (count : Int) ≤ index := by
  unfold pyIndex
  split_ifs with h
  · constructor
    · intro e; cases e
    · intro e; omega
  · constructor
    · intro _; omega
    · intro _; rfl

theorem pickImage_lt {count : Nat} {index : Int} {k : Nat} (h : pickImage count index = .ok k) : k < count := by
  unfold pickImage at h
  split_ifs at h with hc
  · cases h; omega
  · exact pyIndex_lt h

/-- `__call__` succeeds exactly when every range has a handled type and the index names an image; it then hands over
    that image, the flags as given and the converted ranges -/
theorem call_ok_iff (count : Nat) (ranges : List PyVal) (index : Int) (raw sq : Bool) (sel : Sel) :
    readerCall count ranges index raw sq = .ok sel ↔
      ∃ sub k, callSub ranges = .ok sub ∧ pickImage count index = .ok k ∧ sel = ⟨k, raw, sq, sub⟩ := by
  unfold readerCall
  cases hs : callSub ranges with
  | error e => simp
  | ok sub =>
    cases hk : pickImage count index with
    | error e => simp
    | ok k =>
      simp only [Except.ok.injEq]
      constructor
      · intro e; exact ⟨sub, k, rfl, rfl, e.symm⟩
      · rintro ⟨sub', k', e1, e2, e3⟩; cases e1; cases e2; exact e3.symm

/-- whatever is served comes from an existing image -/
theorem call_image_lt {count : Nat} {ranges : List PyVal} {index : Int} {raw sq : Bool} {sel : Sel}
    (h : readerCall count ranges index raw sq = .ok sel) : sel.image < count := by
  obtain ⟨_, k, _, hk, rfl⟩ := (call_ok_iff ..).mp h
  exact pickImage_lt hk

/-- the flags reach the segment as given -/
theorem call_flags {count : Nat} {ranges : List PyVal} {index : Int} {raw sq : Bool} {sel : Sel}
    (h : readerCall count ranges index raw sq = .ok sel) : sel.raw = raw ∧ sel.squeeze = sq := by
  obtain ⟨_, _, _, _, rfl⟩ := (call_ok_iff ..).mp h
  exact ⟨rfl, rfl⟩

/-- the subscript handed to the segment depends on the ranges only -/
theorem call_sub {count : Nat} {ranges : List PyVal} {index : Int} {raw sq : Bool} {sel : Sel}
    (h : readerCall count ranges index raw sq = .ok sel) : callSub ranges = .ok sel.sub := by
  obtain ⟨_, _, hs, _, rfl⟩ := (call_ok_iff ..).mp h
  exact hs

/-- **out-of-range index is refused** (readers with more than one image, or none): no selection is ever produced -/
theorem call_index_out_of_range {count : Nat} (hc : count ≠ 1) {index : Int}
    (h : index < -(count : Int) ∨ (count : Int) ≤ index) (ranges : List PyVal) (raw sq : Bool) (sel : Sel) :
    readerCall count ranges index raw sq ≠ .ok sel := by
  intro e
  obtain ⟨_, k, _, hk, _⟩ := (call_ok_iff ..).mp e
  unfold pickImage at hk
  rw [if_neg hc] at hk
  have := (pyIndex_refused_iff count index).mpr h
  rw [this] at hk
  cases hk

/-- a non-negative in-range index reads exactly that image -/
theorem call_index_nonneg {count : Nat} (hc : count ≠ 1) {index : Int} (h0 : 0 ≤ index) {ranges : List PyVal} {raw sq : Bool}
    {sel : Sel} (h : readerCall count ranges index raw sq = .ok sel) : (sel.image : Int) = index := by
  obtain ⟨_, k, _, hk, rfl⟩ := (call_ok_iff ..).mp h
  unfold pickImage at hk
  rw [if_neg hc] at hk
  obtain ⟨_, _, h3⟩ := (pyIndex_ok_iff ..).mp hk
  rw [if_neg (by omega)] at h3
  exact h3

/-- a negative in-range index counts from the end -/
theorem call_index_neg {count : Nat} (hc : count ≠ 1) {index : Int} (h0 : index < 0) {ranges : List PyVal} {raw sq : Bool}
    {sel : Sel} (h : readerCall count ranges index raw sq = .ok sel) : (sel.image : Int) = index + count := by
  obtain ⟨_, k, _, hk, rfl⟩ := (call_ok_iff ..).mp h
  unfold pickImage at hk
  rw [if_neg hc] at hk
  obtain ⟨_, _, h3⟩ := (pyIndex_ok_iff ..).mp hk
  rw [if_pos h0] at h3
  exact h3

/-- a reader over a single image ignores `index` (documented in `read`) -/
theorem call_single_ignores_index (ranges : List PyVal) (index : Int) (raw sq : Bool) :
    readerCall 1 ranges index raw sq = readerCall 1 ranges 0 raw sq := by
  unfold readerCall pickImage
  simp

theorem convRanges_length : ∀ {rs : List PyVal} {xs : List SubEntry}, convRanges rs = .ok xs → xs.length = rs.length
  | [], xs, h => by simp [convRanges] at h; subst h; rfl
  | r :: rs, xs, h => by
    unfold convRanges at h
    cases h1 : convRange r with
    | error e => simp [h1] at h
    | ok x =>
      cases h2 : convRanges rs with
      | error e => simp [h1, h2] at h
      | ok ys =>
        simp [h1, h2] at h
        subst h
        simp [convRanges_length h2]

/-- what `__call__` hands to a segment consists of slices and Ellipses only: one entry per range, in order -/
theorem convRanges_entries : ∀ {rs : List PyVal} {xs : List SubEntry}, convRanges rs = .ok xs →
    ∀ x ∈ xs, x = .ell ∨ ∃ s, x = .item (.slice s)
  | [], xs, h => by simp [convRanges] at h; subst h; simp
  | r :: rs, xs, h => by
    unfold convRanges at h
    cases h1 : convRange r with
    | error e => simp [h1] at h
    | ok x =>
      cases h2 : convRanges rs with
      | error e => simp [h1, h2] at h
      | ok ys =>
        simp [h1, h2] at h
        subst h
        intro y hy
        rcases List.mem_cons.mp hy with rfl | hy
        · cases r with
          | tuple l =>
            simp only [convRange] at h1
            cases hs : sliceOfTuple l with
            | error e => simp [hs, Except.map] at h1
            | ok s => simp [hs, Except.map] at h1; exact Or.inr ⟨s, h1.symm⟩
          | none => simp [convRange] at h1; exact Or.inr ⟨_, h1.symm⟩
          | int i => simp [convRange] at h1; exact Or.inr ⟨_, h1.symm⟩
          | slice s => simp [convRange] at h1; exact Or.inr ⟨_, h1.symm⟩
          | ell => simp [convRange] at h1; exact Or.inl h1.symm
          | str m => simp [convRange] at h1
          | other => simp [convRange] at h1
        · exact convRanges_entries h2 y hy

/-- no ranges is `None`, the whole image; anything else is a list with one entry per range -/
theorem callSub_none_iff (ranges : List PyVal) : callSub ranges = .ok Option.none ↔ ranges = [] := by
  unfold callSub
  constructor
  · intro h
    split_ifs at h with h0
    · exact List.length_eq_zero_iff.mp h0
    · cases hc : convRanges ranges <;> simp [hc, Except.map] at h
  · rintro rfl; rfl

/-- slices and Ellipses pass through unchanged -/
theorem convRanges_slices (ss : List PySlice) :
    convRanges (ss.map PyVal.slice) = .ok (ss.map (fun s => SubEntry.item (.slice s))) := by
  induction ss with
  | nil => rfl
  | cons s ss ih => simp [convRanges, convRange, ih]

/-- the reader API reads an integer range `r` as `slice(r)` = the first `r` entries, `None` as the full axis with step 1 and a
    tuple as `slice(*tuple)` -/
theorem convRange_int (r : Int) : convRange (.int r) = .ok (.item (.slice ⟨Option.none, some r, Option.none⟩)) := rfl
theorem convRange_none : convRange .none = .ok (.item (.slice ⟨Option.none, Option.none, some 1⟩)) := rfl
theorem convRange_tuple3 (a b c : Option Int) (va vb vc : PyVal) (ha : boundOf va = some a) (hb : boundOf vb = some b)
    (hc : boundOf vc = some c) : convRange (.tuple [va, vb, vc]) = .ok (.item (.slice ⟨a, b, c⟩)) := by
  simp [convRange, sliceOfTuple, ha, hb, hc, Except.map]

/-! ### every entry point denotes the same selection -/

theorem read_eq_call (count : Nat) (r : List PyVal) (i : Int) (sq : Bool) :
    dispatchGet count (.read r i sq) = dispatchGet count (.call r i false sq) := rfl
theorem read_raw_eq_call (count : Nat) (r : List PyVal) (i : Int) (sq : Bool) :
    dispatchGet count (.readRaw r i sq) = dispatchGet count (.call r i true sq) := rfl
theorem read_chip_eq_read (count : Nat) (r : List PyVal) (i : Int) (sq : Bool) :
    dispatchGet count (.readChip r i sq) = dispatchGet count (.read r i sq) := rfl

/-- **`reader[..., i, ...]` = `reader(*ranges, index=i, raw=, squeeze=)`**: if the non-string entries of the tuple are
    `ranges ++ [i]` with `-image_count < i < image_count`, then - wherever the strings stand - the request is the call with
    those ranges, that index, `raw` iff 'raw' occurs and `squeeze` iff 'nosqueeze' does not -/
theorem getitem_eq_call (count : Nat) {l ranges : List PyVal} {i : Int} (hl : nonStr l = ranges ++ [.int i])
    (hi : -(count : Int) < i ∧ i < count) :
    dispatchGet count (.getitem (.tuple l)) =
      dispatchGet count (.call ranges i ((strsOf l).contains StrMod.raw) (!(strsOf l).contains StrMod.nosqueeze)) := by
  show readerGetitem count (.tuple l) = readerCall count ranges i _ _
  rw [getitem_tuple, getitemCore_rule, hl]
  have : trailingIndex count (ranges ++ [.int i]) = some i :=
    (trailingIndex_some_iff ..).mpr ⟨ranges, rfl, hi⟩
  simp [this]

/-- without a recognisable index the whole tuple addresses image 0 -/
theorem getitem_eq_call_zero (count : Nat) {l : List PyVal} (hne : nonStr l ≠ [])
    (hi : trailingIndex count (nonStr l) = Option.none) :
    dispatchGet count (.getitem (.tuple l)) =
      dispatchGet count (.call (nonStr l) 0 ((strsOf l).contains StrMod.raw) (!(strsOf l).contains StrMod.nosqueeze)) := by
  show readerGetitem count (.tuple l) = readerCall count (nonStr l) 0 _ _
  rw [getitem_tuple, getitemCore_rule, hi]
  simp [hne]

/-- `reader[s..., i]` is `reader.read(s..., index=i)` -/
theorem getitem_eq_read (count : Nat) {ranges : List PyVal} {i : Int} (hs : ∀ v ∈ ranges, v.isStr = false)
    (hi : -(count : Int) < i ∧ i < count) :
    dispatchGet count (.getitem (.tuple (ranges ++ [.int i]))) = dispatchGet count (.read ranges i true) := by
  have h1 : ∀ v ∈ ranges ++ [PyVal.int i], v.isStr = false := by
    intro v hv
    rcases List.mem_append.mp hv with h | h
    · exact hs v h
    · simp at h; subst h; rfl
  rw [getitem_eq_call count (l := ranges ++ [PyVal.int i]) (nonStr_of_noStr h1) hi, strsOf_of_noStr h1]
  rfl

/-- `reader[s..., i, 'raw']` and `reader['raw', s..., i]` are `reader.read_raw(s..., index=i)` -/
theorem getitem_raw_eq_read_raw (count : Nat) {ranges : List PyVal} {i : Int} (hs : ∀ v ∈ ranges, v.isStr = false)
    (hi : -(count : Int) < i ∧ i < count) :
    dispatchGet count (.getitem (.tuple (ranges ++ [.int i, .str .raw]))) = dispatchGet count (.readRaw ranges i true) ∧
    dispatchGet count (.getitem (.tuple (.str .raw :: ranges ++ [.int i]))) = dispatchGet count (.readRaw ranges i true) := by
  have hn : nonStr ranges = ranges := nonStr_of_noStr hs
  have hz : strsOf ranges = [] := strsOf_of_noStr hs
  constructor
  · rw [getitem_eq_call count (l := ranges ++ [PyVal.int i, PyVal.str StrMod.raw]) (ranges := ranges) (i := i)
      (by rw [nonStr_append, hn]; rfl) hi]
    have : strsOf (ranges ++ [PyVal.int i, PyVal.str StrMod.raw]) = [StrMod.raw] := by rw [strsOf_append, hz]; rfl
    rw [this]
    rfl
  · rw [getitem_eq_call count (l := PyVal.str StrMod.raw :: ranges ++ [PyVal.int i]) (ranges := ranges) (i := i)
      (by
        show nonStr ([PyVal.str StrMod.raw] ++ (ranges ++ [PyVal.int i])) = _
        rw [nonStr_append, nonStr_append, hn]; rfl) hi]
    have : strsOf (PyVal.str StrMod.raw :: ranges ++ [PyVal.int i]) = [StrMod.raw] := by
      show strsOf ([PyVal.str StrMod.raw] ++ (ranges ++ [PyVal.int i])) = _
      rw [strsOf_append, strsOf_append, hz]; rfl
    rw [this]
    rfl

/-- `reader[s..., i, 'nosqueeze']` is `reader.read(s..., index=i, squeeze=False)` -/
theorem getitem_nosqueeze_eq_read (count : Nat) {ranges : List PyVal} {i : Int} (hs : ∀ v ∈ ranges, v.isStr = false)
    (hi : -(count : Int) < i ∧ i < count) :
    dispatchGet count (.getitem (.tuple (ranges ++ [.int i, .str .nosqueeze]))) = dispatchGet count (.read ranges i false) := by
  have hn : nonStr ranges = ranges := nonStr_of_noStr hs
  have hz : strsOf ranges = [] := strsOf_of_noStr hs
  rw [getitem_eq_call count (l := ranges ++ [PyVal.int i, PyVal.str StrMod.nosqueeze]) (ranges := ranges) (i := i)
    (by rw [nonStr_append, hn]; rfl) hi]
  have : strsOf (ranges ++ [PyVal.int i, PyVal.str StrMod.nosqueeze]) = [StrMod.nosqueeze] := by rw [strsOf_append, hz]; rfl
  rw [this]
  rfl

/-- **all five entry points**: for corresponding arguments they hand the same image, flags and subscript to the segment -/
theorem entry_points_agree (count : Nat) {ranges : List PyVal} {i : Int} (hs : ∀ v ∈ ranges, v.isStr = false)
    (hi : -(count : Int) < i ∧ i < count) :
    dispatchGet count (.getitem (.tuple (ranges ++ [.int i]))) = dispatchGet count (.call ranges i false true) ∧
    dispatchGet count (.read ranges i true) = dispatchGet count (.call ranges i false true) ∧
    dispatchGet count (.readChip ranges i true) = dispatchGet count (.call ranges i false true) ∧
    dispatchGet count (.getitem (.tuple (ranges ++ [.int i, .str .raw]))) = dispatchGet count (.call ranges i true true) ∧
    dispatchGet count (.readRaw ranges i true) = dispatchGet count (.call ranges i true true) :=
  ⟨getitem_eq_read count hs hi, rfl, rfl, (getitem_raw_eq_read_raw count hs hi).1, rfl⟩

/-- whatever entry point: a served request comes from an existing image -/
theorem dispatch_image_lt {count : Nat} {req : Request} {sel : Sel} (h : dispatchGet count req = .ok sel) :
    sel.image < count := by
  cases req with
  | call r i raw sq => exact call_image_lt h
  | read r i sq => exact call_image_lt h
  | readRaw r i sq => exact call_image_lt h
  | readChip r i sq => exact call_image_lt h
  | getitem s =>
    replace h : readerGetitem count s = .ok sel := h
    unfold readerGetitem at h
    dsimp only at h
    split at h
    · cases h
    · split_ifs at h <;> exact call_image_lt h
    · exact call_image_lt h

/-- **the image the index names**: `reader[ranges..., i]` with `0 <= i < image_count` reads image `i` - never image 0 instead -/
theorem getitem_reads_index {count : Nat} {l ranges : List PyVal} {i : Nat} (hl : nonStr l = ranges ++ [.int i])
    (hi : i < count) {sel : Sel} (h : dispatchGet count (.getitem (.tuple l)) = .ok sel) : sel.image = i := by
  rw [getitem_eq_call count hl ⟨by omega, by omega⟩] at h
  replace h : readerCall count ranges i _ _ = .ok sel := h
  by_cases hc : count = 1
  · subst hc
    obtain ⟨_, k, _, hk, rfl⟩ := (call_ok_iff ..).mp h
    simp only [pickImage, if_true, Except.ok.injEq] at hk
    show k = i
    omega
  · have := call_index_nonneg hc (by omega) h
    omega

/-! ### aggregate readers -/

theorem aggMapFrom_length (i : Nat) (counts : List Nat) : (aggMapFrom i counts).length = counts.sum := by
  induction counts generalizing i with
  | nil => rfl
  | cons c cs ih => simp [aggMapFrom, ih]

/-- the aggregate has as many images as its children together -/
theorem aggMap_length (counts : List Nat) : (aggMap counts).length = counts.sum := aggMapFrom_length 0 counts

theorem aggMapFrom_get (i0 : Nat) : ∀ (counts : List Nat) (i j : Nat), i < counts.length → j < counts.getD i 0 →
    (aggMapFrom i0 counts)[(counts.take i).sum + j]? = some (i0 + i, j)
  | [], i, j, hi, _ => by simp at hi
  | c :: cs, 0, j, _, hj => by
    simp only [List.getD_cons_zero] at hj
    simp only [aggMapFrom, List.take_zero, List.sum_nil, Nat.zero_add, Nat.add_zero]
    rw [List.getElem?_append_left (by simpa using hj)]
    simp [hj]
  | c :: cs, i + 1, j, hi, hj => by
    simp only [List.getD_cons_succ] at hj
    simp only [aggMapFrom, List.take_succ_cons, List.sum_cons]
    rw [List.getElem?_append_right (by simp; omega)]
    have := aggMapFrom_get (i0 + 1) cs i j (by simpa using hi) hj
    simp only [List.length_map, List.length_range]
    rw [show c + (List.take i cs).sum + j - c = (List.take i cs).sum + j by omega, this]
    congr 2; omega

/-- **a global index lands in the right child**: image `(images of children before i) + j` of the aggregate is image `j` of
    child `i` -/
theorem aggMap_get (counts : List Nat) (i j : Nat) (hi : i < counts.length) (hj : j < counts.getD i 0) :
    (aggMap counts)[(counts.take i).sum + j]? = some (i, j) := by
  have := aggMapFrom_get 0 counts i j hi hj
  simpa [aggMap] using this

theorem flatten_get {α : Type} : ∀ (children : List (List α)) (i j : Nat), i < children.length →
    j < (children.getD i []).length →
    (aggImages children)[((children.map List.length).take i).sum + j]? = (children.getD i [])[j]?
  | [], i, j, hi, _ => by simp at hi
  | c :: cs, 0, j, _, hj => by
    simp only [List.getD_cons_zero] at hj
    simp [aggImages, List.getElem?_append_left hj]
  | c :: cs, i + 1, j, hi, hj => by
    simp only [List.getD_cons_succ] at hj ⊢
    have := flatten_get cs i j (by simpa using hi) hj
    simp only [aggImages] at this ⊢
    simp only [List.flatten_cons, List.map_cons, List.take_succ_cons, List.sum_cons]
    rw [List.getElem?_append_right (by omega)]
    rw [show c.length + (List.take i (List.map List.length cs)).sum + j - c.length =
      (List.take i (List.map List.length cs)).sum + j by omega]
    exact this

/-- **index mapping and segment list agree**: the segment the aggregate stores at a global position is the segment of the
    child the index mapping names for that position -/
theorem agg_segment_is_childs {α : Type} (children : List (List α)) (i j : Nat) (hi : i < children.length)
    (hj : j < (children.getD i []).length) :
    let g := ((children.map List.length).take i).sum + j
    (aggMap (children.map List.length))[g]? = some (i, j) ∧ (aggImages children)[g]? = (children.getD i [])[j]? := by
  refine ⟨aggMap_get _ i j (by simpa using hi) ?_, flatten_get children i j hi hj⟩
  rw [List.getD_eq_getElem?_getD, List.getElem?_map]
  rw [List.getD_eq_getElem?_getD] at hj
  cases h : children[i]? <;> simp_all

/-- a request to the aggregate is the same request to a reader with that many images, and its image has a child position -/
theorem agg_dispatch {counts : List Nat} {req : Request} {sel : Sel} {i j : Nat}
    (h : aggDispatch counts req = .ok (sel, i, j)) :
    dispatchGet counts.sum req = .ok sel ∧ (aggMap counts)[sel.image]? = some (i, j) := by
  unfold aggDispatch at h
  rw [aggMap_length] at h
  cases hd : dispatchGet counts.sum req with
  | error e => simp [hd] at h
  | ok s =>
    simp only [hd] at h
    cases hm : (aggMap counts)[s.image]? with
    | none => simp [hm] at h
    | some p =>
      obtain ⟨a, b⟩ := p
      simp [hm] at h
      obtain ⟨rfl, rfl, rfl⟩ := h
      exact ⟨rfl, hm⟩

/-- a served request to an aggregate always lands in some child (the mapping covers every image) -/
theorem agg_dispatch_total {counts : List Nat} {req : Request} {sel : Sel} (h : dispatchGet counts.sum req = .ok sel) :
    ∃ i j, aggDispatch counts req = .ok (sel, i, j) := by
  have hlt := dispatch_image_lt h
  unfold aggDispatch
  rw [aggMap_length, h]
  have : sel.image < (aggMap counts).length := by rw [aggMap_length]; exact hlt
  obtain ⟨i, j⟩ := (aggMap counts)[sel.image]
  refine ⟨((aggMap counts)[sel.image]).1, ((aggMap counts)[sel.image]).2, ?_⟩
  simp [List.getElem?_eq_getElem this]

/-! ### size accessors -/

/-- `get_data_size_as_tuple` / `get_raw_data_size_as_tuple`: one entry per image, the formatted resp. raw shape of that image,
    whether the reader stores one segment or a tuple -/
theorem sizes_agree (r : List Image) :
    getDataSizeAsTuple r = r.map Image.fshape ∧ getRawDataSizeAsTuple r = r.map Image.rshape ∧
    (getDataSizeAsTuple r).length = imageCount r ∧ (getRawDataSizeAsTuple r).length = imageCount r := by
  unfold getDataSizeAsTuple getRawDataSizeAsTuple dataSize rawDataSize imageCount
  match r with
  | [] => simp
  | [im] => simp
  | a :: b :: l => simp

/-- `data_size` is a bare shape exactly for single-image readers -/
theorem dataSize_one_iff (r : List Image) : (∃ s, dataSize r = .one s) ↔ imageCount r = 1 := by
  unfold dataSize imageCount
  match r with
  | [] => simp
  | [im] => simp
  | a :: b :: l => simp

/-! ### consumers: SubsetSICDReader, FullResolutionFetcher -/

/-- `SubsetSICDReader(reader, ..., index=i)` cuts its subset out of image `i` of the parent, refuses an index naming no image -/
theorem subset_parent (count : Nat) (i : Nat) (h : i < count) : subsetParent count i = .ok i := by
  unfold subsetParent
  rw [pyIndex_ok_iff]
  refine ⟨by omega, by omega, ?_⟩
  rw [if_neg (by omega)]
theorem subset_parent_refused (count : Nat) (index : Int) (h : index < -(count : Int) ∨ (count : Int) ≤ index) :
    subsetParent count index = .error .indexError := (pyIndex_refused_iff count index).mpr h

/-- a normal slice is a fixed point of `verify_slice` -/
theorem verifySlice_normal {n : Int} {t : NSlice} (h : t.Normal n) : verifySlice n t.toPy = some t := by
  obtain ⟨a, st, s⟩ := t
  obtain ⟨h0, h1, (⟨hs, b, hb, hab, hbn⟩ | ⟨hs, hstop⟩)⟩ := h
  · simp only at hb hs hab h0 h1; subst hb
    have e1 : Int.sign (b - a) = 1 := Int.sign_eq_one_of_pos (by omega)
    have e2 : Int.sign s = 1 := Int.sign_eq_one_of_pos hs
    have hn : ¬ n < 1 := by omega
    have c1 : ¬ (-n ≤ a ∧ a < 0) := by omega
    have c2 : (0 ≤ a ∧ a ≤ n) := by omega
    have c3 : ¬ (-n ≤ b ∧ b < 0) := by omega
    have c4 : (0 ≤ b ∧ b ≤ n) := by omega
    simp [verifySlice, NSlice.toPy, checkBound, hn, c1, c2, c3, c4, hs, e1, e2]
  · simp only at hs hstop h0 h1
    have hn : ¬ n < 1 := by omega
    have hns : ¬ s > 0 := by omega
    have c1 : ¬ (-n ≤ a ∧ a < 0) := by omega
    have c2 : (0 ≤ a ∧ a ≤ n) := by omega
    have ha : ¬ a = n := by omega
    rcases hstop with hst | ⟨b, hb, hb0, hba⟩
    · subst hst
      simp [verifySlice, NSlice.toPy, checkBound, hn, c1, c2, hns, hs, negStart, ha]
    · subst hb
      have e1 : Int.sign (b - a) = -1 := Int.sign_eq_neg_one_of_neg (by omega)
      have e2 : Int.sign s = -1 := Int.sign_eq_neg_one_of_neg hs
      have c3 : ¬ (-n ≤ b ∧ b < 0) := by omega
      have c4 : (0 ≤ b ∧ b ≤ n) := by omega
      simp [verifySlice, NSlice.toPy, checkBound, hn, c1, c2, c3, c4, hns, hs, negStart, ha, e1, e2]

/-- the entries `FullResolutionFetcher.__getitem__` re-submits: the verified slices as slice objects -/
def normEntries (ts : List NSlice) : List SubEntry := ts.map (fun t => SubEntry.item (.slice t.toPy))

theorem subItems_normEntries (ts : List NSlice) : subItems (normEntries ts) = ts.map (fun t => PyItem.slice t.toPy) := by
  induction ts with
  | nil => rfl
  | cons t ts ih => simp [normEntries, subItems] at ih ⊢; exact ih
theorem countEll_normEntries (ts : List NSlice) : countEll (normEntries ts) = 0 := by
  induction ts with
  | nil => rfl
  | cons t ts ih => simp [normEntries, countEll] at ih ⊢; exact ih

theorem verifyAxes_normal : ∀ {shape : List Nat} {ts : List NSlice}, NormalSub shape ts →
    verifyAxes shape (ts.map (fun t => PyItem.slice t.toPy)) = some ts
  | [], [], _ => rfl
  | [], _ :: _, h => by simp [NormalSub, allSlicesNormal] at h
  | _ :: _, [], h => by simp [NormalSub, allSlicesNormal] at h
  | n :: ns, t :: ts, h => by
    simp only [NormalSub, allSlicesNormal, Bool.and_eq_true, decide_eq_true_eq] at h
    have ih := verifyAxes_normal (shape := ns) (ts := ts) h.2
    simp [verifyAxes, verifyItem, verifySlice_normal h.1, ih]

theorem normalSub_length {shape : List Nat} {ts : List NSlice} (h : NormalSub shape ts) : ts.length = shape.length :=
  ((C01Seg.normalSub_iff shape ts).mp h).1

/-- **re-verification is the identity**: handing the slices `verify_subscript` produced back to `verify_subscript` (what the
    fetcher does through `reader.read(*subscript)`) yields the same slices -/
theorem verifySub_normEntries {shape : List Nat} {ts : List NSlice} (h : NormalSub shape ts) :
    verifySub shape (normEntries ts) = some ts := by
  unfold verifySub
  have hl := normalSub_length h
  rw [expand_no_ellipsis (countEll_normEntries ts) (by rw [subItems_normEntries]; simp [hl])]
  rw [subItems_normEntries]
  simp [hl, verifyAxes_normal h]

theorem axesOK_normalSub : ∀ {shape : List Nat} {its : List PyItem} {ts : List NSlice}, AxesOK shape its ts →
    NormalSub shape ts
  | [], [], [], _ => by simp [NormalSub, allSlicesNormal]
  | n :: ns, it :: its, t :: ts, h => by
    have ih := axesOK_normalSub h.2
    simp only [NormalSub, allSlicesNormal, Bool.and_eq_true, decide_eq_true_eq] at ih ⊢
    exact ⟨h.1.1, ih⟩
  | [], [], _ :: _, h => by simp [AxesOK] at h
  | [], _ :: _, _, h => by simp [AxesOK] at h
  | _ :: _, [], _, h => by simp [AxesOK] at h
  | _ :: _, _ :: _, [], h => by simp [AxesOK] at h

/-- what `verify_subscript` accepts is a normalised subscript of the shape -/
theorem verifySub_normalSub {shape : List Nat} {l : List SubEntry} {ts : List NSlice} (h : verifySub shape l = some ts) :
    NormalSub shape ts := by
  obtain ⟨_, _, _, _, hok⟩ := verify_sub_sound h
  exact axesOK_normalSub hok

theorem fullSlices_normalSub : ∀ {shape : List Nat}, (∀ n ∈ shape, 0 < n) → NormalSub shape (fullSlices shape)
  | [], _ => by simp [NormalSub, fullSlices, allSlicesNormal]
  | n :: ns, h => by
    have ih := fullSlices_normalSub (shape := ns) (fun m hm => h m (List.mem_cons_of_mem _ hm))
    have hn := h n (List.mem_cons_self ..)
    simp only [NormalSub, fullSlices, List.map_cons, allSlicesNormal, Bool.and_eq_true, decide_eq_true_eq] at ih ⊢
    refine ⟨?_, ih⟩
    refine ⟨by simp, by simp; omega, Or.inl ⟨by simp, (n : Int), rfl, by simp; omega, by simp⟩⟩

/-- whatever the segment accepts from the dispatch layer is a normalised subscript of the image -/
theorem resolveSub_normalSub {shape : List Nat} (hpos : ∀ n ∈ shape, 0 < n) {sub : Option (List SubEntry)}
    {ts : List NSlice} (h : resolveSub shape sub = some ts) : NormalSub shape ts := by
  cases sub with
  | none => simp only [resolveSub, Option.some.injEq] at h; subst h; exact fullSlices_normalSub hpos
  | some l => exact verifySub_normalSub h

/-- **`FullResolutionFetcher(reader, index=i)[subscript]` reads image `i`**: formatted, not squeezed, and the subscript the
    segment of image `i` ends up with is `verify_subscript(subscript, shape of image i)` -/
theorem fetcher_reads_its_image {r : List Image} {index : Nat} {sub : List SubEntry} {sel : Sel}
    (h : fetcherGetitem r index sub = .ok sel) :
    sel.image = index ∧ sel.raw = false ∧ sel.squeeze = false ∧
      ∃ im ts, r[index]? = some im ∧ verifySub im.fshape sub = some ts ∧ resolveSub im.fshape sel.sub = some ts := by
  unfold fetcherGetitem at h
  cases him : r[index]? with
  | none => simp [him] at h
  | some im =>
    simp only [him] at h
    cases hv : verifySub im.fshape sub with
    | none => simp [hv] at h
    | some ts =>
      simp only [hv] at h
      replace h : readerCall r.length (ts.map (fun t => PyVal.slice t.toPy)) index false false = .ok sel := h
      have hlt : index < r.length := by
        have := List.getElem?_eq_some_iff.mp him
        exact this.1
      have himg : sel.image = index := by
        by_cases hc : r.length = 1
        · obtain ⟨_, k, _, hk, rfl⟩ := (call_ok_iff ..).mp h
          simp only [pickImage, hc, if_true, Except.ok.injEq] at hk
          show k = index
          omega
        · have := call_index_nonneg hc (by omega) h
          omega
      obtain ⟨hraw, hsq⟩ := call_flags h
      refine ⟨himg, hraw, hsq, im, ts, rfl, hv, ?_⟩
      have hsub := call_sub h
      have hN := verifySub_normalSub hv
      unfold callSub at hsub
      split_ifs at hsub with h0
      · simp only [Except.ok.injEq] at hsub
        rw [← hsub]
        have hts : ts = [] := by simpa using h0
        subst hts
        have : im.fshape = [] := by
          have := normalSub_length hN
          exact List.length_eq_zero_iff.mp this.symm
        simp [resolveSub, fullSlices, this]
      · have : ts.map (fun t => PyVal.slice t.toPy) = (ts.map NSlice.toPy).map PyVal.slice := by simp
        rw [this, convRanges_slices] at hsub
        simp only [Except.map, Except.ok.injEq] at hsub
        rw [← hsub]
        have e : (ts.map NSlice.toPy).map (fun s => SubEntry.item (.slice s)) = normEntries ts := by simp [normEntries]
        simp only [resolveSub, e]
        exact verifySub_normEntries hN

/-- `reader[(row_range, col_range, self.index)]` (full-resolution fetches, `OrthorectificationHelper`) is
    `reader.read(row_range, col_range, index=self.index)` -/
theorem fetcher_fullres (count index : Nat) (h : index < count) (rows cols : PySlice) :
    fetcherFullRes count index rows cols = dispatchGet count (.read [.slice rows, .slice cols] index true) := by
  have := getitem_eq_read count (ranges := [.slice rows, .slice cols]) (i := index)
    (by intro v hv; simp at hv; rcases hv with rfl | rfl <;> rfl) ⟨by omega, by omega⟩
  exact this

/-! ### end to end: `reader[...]` = numpy selection of THAT image -/

/-- **a served request reads the numpy selection of the image it designates**: the flat offsets touched in image
    `sel.image` (raw or formatted basis as requested) are those numpy's basic slicing selects for the handed-over subscript,
    in the same order, none outside the image; the returned shape is the per-axis counts, length-1 axes dropped iff squeeze -/
theorem serve_eq_numpy {r : List Image} {req : Request} {sel : Sel} {ts : List NSlice} {shape : List Nat}
    (h : readerServe r req = some (sel, ts, shape)) :
    dispatchGet r.length req = .ok sel ∧ sel.image < r.length ∧ shape = resultShape sel.squeeze ts ∧
    ∃ im, r[sel.image]? = some im ∧
      match sel.sub with
      | Option.none => ts = fullSlices (im.shapeFor sel.raw)
      | some l => ∃ its, expandSub (im.shapeFor sel.raw).length l = some its ∧
          readFlat (im.shapeFor sel.raw) ts = selectFlat (im.shapeFor sel.raw) (npAxes (im.shapeFor sel.raw) its) ∧
          (readFlat (im.shapeFor sel.raw) ts).length = prodNat (ts.map NSlice.count) ∧
          ∀ o ∈ readFlat (im.shapeFor sel.raw) ts, 0 ≤ o ∧ o < (prodNat (im.shapeFor sel.raw) : Int) := by
  unfold readerServe at h
  cases hd : dispatchGet r.length req with
  | error e => simp [hd] at h
  | ok s =>
    simp only [hd] at h
    cases him : r[s.image]? with
    | none => simp [him] at h
    | some im =>
      simp only [him] at h
      cases hv : resolveSub (im.shapeFor s.raw) s.sub with
      | none => simp [hv] at h
      | some ts' =>
        simp only [hv, Option.some.injEq, Prod.mk.injEq] at h
        obtain ⟨rfl, rfl, rfl⟩ := h
        refine ⟨rfl, dispatch_image_lt hd, rfl, im, him, ?_⟩
        cases hs : s.sub with
        | none => simp only [hs, resolveSub, Option.some.injEq] at hv ⊢; exact hv.symm
        | some l =>
          simp only [hs, resolveSub] at hv ⊢
          obtain ⟨its, he, hr⟩ := read_eq_numpy hv
          exact ⟨its, he, hr, read_shape hv, read_in_bounds hv⟩

section Segments
variable {α : Type} [Pairing α] (L : Nat → List Int → α) (F : α)

/-- **reader[...] = (full image of THAT image)[subscript]**, through the segment refinement theorem: for a reader over
    arbitrary well-formed segment trees, a formatted request that is served returns, from the tree of the designated image, an
    array with the shape and the elements of `full[ts]` where `ts` is `verify_subscript` of the handed-over subscript -/
theorem reader_read_refines (segs : List Seg) (req : Request) (sel : Sel) (t : Seg) (ts : List NSlice)
    (hd : dispatchGet segs.length req = .ok sel) (ht : segs[sel.image]? = some t) (hwf : t.wf = true)
    (hpos : ∀ n ∈ t.fshape, 0 < n) (hv : resolveSub t.fshape sel.sub = some ts) (ha : t.accepts ts = true) :
    sel.image < segs.length ∧ NormalSub t.fshape ts ∧
    Arr.Equiv (t.read L F ts) ((t.full L F).select ts) ∧ (t.read L F ts).shape = ts.map NSlice.count := by
  have hN := resolveSub_normalSub hpos hv
  exact ⟨dispatch_image_lt hd, hN, C01Seg.read_refines L F t hwf ts hN ha, C01Seg.read_shape L F t hwf ts hN ha⟩

/-- **the headline**: `reader[ranges..., i, <modifiers anywhere>]` with `0 <= i < image_count` and no 'raw' returns
    `full_i[verify_subscript(ranges)]` - the selection from the full image of image `i`, not of any other image -/
theorem getitem_reads_that_image (segs : List Seg) {l ranges : List PyVal} {i : Nat} (hl : nonStr l = ranges ++ [.int i])
    (hi : i < segs.length) {sel : Sel} (hd : dispatchGet segs.length (.getitem (.tuple l)) = .ok sel)
    (t : Seg) (ht : segs[i]? = some t) (hwf : t.wf = true) (hpos : ∀ n ∈ t.fshape, 0 < n) (ts : List NSlice)
    (hv : resolveSub t.fshape sel.sub = some ts) (ha : t.accepts ts = true) :
    sel.image = i ∧ callSub ranges = .ok sel.sub ∧ sel.raw = (strsOf l).contains StrMod.raw ∧
    sel.squeeze = (!(strsOf l).contains StrMod.nosqueeze) ∧
    Arr.Equiv (t.read L F ts) ((t.full L F).select ts) := by
  have himg := getitem_reads_index hl hi hd
  have hd' := hd
  rw [getitem_eq_call segs.length hl ⟨by omega, by omega⟩] at hd'
  replace hd' : readerCall segs.length ranges i _ _ = .ok sel := hd'
  obtain ⟨hraw, hsq⟩ := call_flags hd'
  refine ⟨himg, call_sub hd', hraw, hsq, ?_⟩
  exact (reader_read_refines L F segs _ sel t ts hd (by rw [himg]; exact ht) hwf hpos hv ha).2.2.1

end Segments

/-! ### the premises are satisfiable; witnesses for the edges of the rule -/

-- a three-image reader: `reader[0:2, 1:3, 1, 'raw']` and `reader['raw', 0:2, 1:3, 1]` are `read_raw(0:2, 1:3, index=1)`
example : dispatchGet 3 (.getitem (.tuple [.slice ⟨some 0, some 2, none⟩, .slice ⟨some 1, some 3, none⟩, .int 1, .str .raw])) =
    .ok ⟨1, true, true, some [.item (.slice ⟨some 0, some 2, none⟩), .item (.slice ⟨some 1, some 3, none⟩)]⟩ := by decide
example : dispatchGet 3 (.getitem (.tuple [.str .raw, .slice ⟨some 0, some 2, none⟩, .slice ⟨some 1, some 3, none⟩, .int 1])) =
    dispatchGet 3 (.readRaw [.slice ⟨some 0, some 2, none⟩, .slice ⟨some 1, some 3, none⟩] 1 true) := by decide
-- `-1` is the last image; `-3` is not an index of a three-image reader but a third range (and then refused by a 2-d image)
example : (dispatchGet 3 (.getitem (.tuple [.slice ⟨none, none, none⟩, .int (-1)]))).toOption.map Sel.image = some 2 := by decide
example : dispatchGet 3 (.getitem (.tuple [.slice ⟨none, none, none⟩, .int (-3)])) =
    .ok ⟨0, false, true, some [.item (.slice ⟨none, none, none⟩), .item (.slice ⟨none, some (-3), none⟩)]⟩ := by decide
-- a single-image reader: a trailing 0 is the index, a trailing 1 is `slice(1)`
example : dispatchGet 1 (.getitem (.tuple [.slice ⟨some 0, some 2, none⟩, .int 0])) =
    .ok ⟨0, false, true, some [.item (.slice ⟨some 0, some 2, none⟩)]⟩ := by decide
example : dispatchGet 1 (.getitem (.tuple [.slice ⟨some 0, some 2, none⟩, .int 1])) =
    .ok ⟨0, false, true, some [.item (.slice ⟨some 0, some 2, none⟩), .item (.slice ⟨none, some 1, none⟩)]⟩ := by decide
-- a tuple of strings only, and the empty tuple, are IndexErrors (`subscript[-1]` of an empty tuple); a lone string is not
example : dispatchGet 2 (.getitem (.tuple [.str .raw])) = .error .indexError := by decide
example : dispatchGet 2 (.getitem (.tuple [])) = .error .indexError := by decide
example : dispatchGet 2 (.getitem (.str .raw)) = .ok ⟨0, true, true, some [.item (.slice ⟨none, none, some 1⟩)]⟩ := by decide
-- an index naming no image is refused; a single-image reader ignores it
example : dispatchGet 2 (.read [] 2 true) = .error .indexError := by decide
example : dispatchGet 1 (.read [] 2 true) = .ok ⟨0, false, true, none⟩ := by decide
-- a whole read, end to end: image 1 (3 x 6, stored 6 x 3), formatted, rows 0:2 and every second column backwards
example : readerServe [⟨[4, 5], [5, 4]⟩, ⟨[3, 6], [6, 3]⟩]
    (.getitem (.tuple [.slice ⟨some 0, some 2, none⟩, .str .nosqueeze, .slice ⟨none, none, some (-2)⟩, .int 1])) =
    some (⟨1, false, false, some [.item (.slice ⟨some 0, some 2, none⟩), .item (.slice ⟨none, none, some (-2)⟩)]⟩,
      [⟨0, some 2, 1⟩, ⟨5, none, -2⟩], [2, 3]) := by decide
-- aggregate of readers with 2, 1 and 3 images
example : aggMap [2, 1, 3] = [(0, 0), (0, 1), (1, 0), (2, 0), (2, 1), (2, 2)] := by decide
example : aggDispatch [2, 1, 3] (.read [] 4 true) = .ok (⟨4, false, true, none⟩, 2, 1) := by decide
-- the fetcher built for image 1 of a two-image reader
example : fetcherGetitem [⟨[4, 5], [4, 5]⟩, ⟨[3, 6], [3, 6]⟩] 1 [.item (.slice ⟨some 0, some 2, none⟩), .ell] =
    .ok ⟨1, false, false, some [.item (.slice ⟨some 0, some 2, some 1⟩), .item (.slice ⟨some 0, some 6, some 1⟩)]⟩ := by decide

end Sarpy.Props.C01
