/-
  C07 — chunked writes compose: any partition, any order, same stored image.

  The per-axis index arithmetic that turns a formatted chunk into raw positions is the same
  kernel set as C01 (mirror, overlap, compose: `Props/C01.lean`, bridged to the generated code).
  Here: the *history* theorems.  A chunk write is a scatter of (raw position, sample) pairs;
  for chunks with pairwise distinct positions, the final store does not depend on the order of
  the chunks, equals one whole-image write, holds each written sample at its position, and the
  sample counter reaches the expected total exactly when every position has been written.
-/
import SarpyModel.Spec.Scatter
import Mathlib.Data.List.Perm.Basic
import Mathlib.Data.List.Nodup
import Mathlib.Data.Finset.Card
import Mathlib.Data.List.Range

namespace Sarpy.Props.C07
open Sarpy.Spec

variable {α : Type}

theorem scatter_length (st : Store α) (c : Chunk α) : (scatter st c).length = st.length := by
  unfold scatter
  induction c generalizing st with
  | nil => rfl
  | cons p c ih => simp [List.foldl_cons, ih]

theorem writeAll_length (st : Store α) (h : List (Chunk α)) : (writeAll st h).length = st.length := by
  unfold writeAll
  induction h generalizing st with
  | nil => rfl
  | cons c h ih => simp [List.foldl_cons, ih, scatter_length]

/-- a single assignment commutes with a chunk that does not touch its position -/
theorem set_scatter_comm (st : Store α) (i : Nat) (v : Option α) (c : Chunk α) (hi : ∀ p ∈ c, p.1 ≠ i) :
    scatter (st.set i v) c = (scatter st c).set i v := by
  unfold scatter
  induction c generalizing st with
  | nil => rfl
  | cons p c ih =>
    simp only [List.foldl_cons]
    have hp : p.1 ≠ i := hi p (by simp)
    rw [List.set_comm _ _ (Ne.symm hp)]
    exact ih _ (fun q hq => hi q (by simp [hq]))

/-- two chunks on disjoint positions commute -/
theorem writes_commute_of_disjoint (st : Store α) (a b : Chunk α)
    (hd : ∀ p ∈ a, ∀ q ∈ b, p.1 ≠ q.1) : scatter (scatter st a) b = scatter (scatter st b) a := by
  induction a generalizing st with
  | nil => rfl
  | cons p a ih =>
    have h1 : scatter st (p :: a) = scatter (st.set p.1 (some p.2)) a := rfl
    rw [h1, ih _ (fun x hx q hq => hd x (by simp [hx]) q hq)]
    have h2 : scatter (scatter st b) (p :: a) = scatter ((scatter st b).set p.1 (some p.2)) a := rfl
    rw [h2, set_scatter_comm st p.1 (some p.2) b (fun q hq => (hd p (by simp) q hq).symm)]

theorem pairwise_mem {β : Type} {R : β → β → Prop} {l : List β} (hs : ∀ x y, R x y → R y x) (h : l.Pairwise R) :
    ∀ a ∈ l, ∀ b ∈ l, a ≠ b → R a b := by
  induction h with
  | nil => intro a ha; simp at ha
  | cons hx _ ih =>
    intro a ha b hb hab
    rcases List.mem_cons.1 ha with rfl | ha' <;> rcases List.mem_cons.1 hb with rfl | hb'
    · exact absurd rfl hab
    · exact hx b hb'
    · exact hs _ _ (hx a ha')
    · exact ih a ha' b hb' hab

/-- chunks of a history are pairwise position-disjoint -/
def PairwiseDisjoint (h : List (Chunk α)) : Prop :=
  h.Pairwise (fun a b => ∀ p ∈ a, ∀ q ∈ b, p.1 ≠ q.1)

/-- **any order**: permuting a history of pairwise disjoint chunks does not change the store -/
theorem partition_history (st : Store α) (h h' : List (Chunk α)) (hp : h.Perm h') (hd : PairwiseDisjoint h) :
    writeAll st h' = writeAll st h := by
  unfold writeAll
  symm
  apply List.Perm.foldl_eq' hp
  intro a ha b hb z
  by_cases hab : a = b
  · subst hab; rfl
  · have := pairwise_mem (R := fun (a b : Chunk α) => ∀ p ∈ a, ∀ q ∈ b, p.1 ≠ q.1)
      (fun x y hxy p hp q hq => (hxy q hq p hp).symm) hd a ha b hb hab
    exact writes_commute_of_disjoint z a b this

/-- **one whole write**: a history equals the single write of the concatenated chunks -/
theorem history_eq_whole_write (st : Store α) (h : List (Chunk α)) :
    writeAll st h = scatter st h.flatten := by
  unfold writeAll scatter
  induction h generalizing st with
  | nil => rfl
  | cons c h ih => simp [List.foldl_cons, List.flatten_cons, List.foldl_append, ih]

/-- reading back: with distinct positions, every assignment is found at its position -/
theorem scatter_get (st : Store α) (c : Chunk α) (nd : (c.map Prod.fst).Nodup) :
    ∀ p ∈ c, p.1 < st.length → (scatter st c)[p.1]? = some (some p.2) := by
  induction c generalizing st with
  | nil => intro p hp; simp at hp
  | cons q c ih =>
    intro p hp hlt
    have h1 : scatter st (q :: c) = scatter (st.set q.1 (some q.2)) c := rfl
    simp only [List.map_cons, List.nodup_cons] at nd
    rcases List.mem_cons.1 hp with rfl | hpc
    · rw [h1, set_scatter_comm st p.1 (some p.2) c]
      · rw [List.getElem?_set_self (by rw [scatter_length]; exact hlt)]
      · intro r hr heq
        exact nd.1 (List.mem_map.2 ⟨r, hr, heq⟩)
    · rw [h1]
      exact ih _ nd.2 p hpc (by simpa using hlt)

/-- positions that no chunk touches keep their old content -/
theorem scatter_untouched (st : Store α) (c : Chunk α) (i : Nat) (hi : ∀ p ∈ c, p.1 ≠ i) :
    (scatter st c)[i]? = st[i]? := by
  induction c generalizing st with
  | nil => rfl
  | cons q c ih =>
    have h1 : scatter st (q :: c) = scatter (st.set q.1 (some q.2)) c := rfl
    rw [h1, ih _ (fun p hp => hi p (by simp [hp]))]
    rw [List.getElem?_set_ne (hi q (by simp))]

/-- **accounting**: for a history with distinct in-range positions, the sample counter equals the
    expected total exactly when every raw position has been written -/
theorem fully_written_iff (n : Nat) (h : List (Chunk α)) (nd : (keys h).Nodup) (hr : ∀ k ∈ keys h, k < n) :
    reportsFullyWritten n h = true ↔ ∀ i, i < n → i ∈ keys h := by
  have hlen : pixelsWritten h = (keys h).length := by
    unfold pixelsWritten keys
    simp [List.length_flatten, Function.comp_def]
  unfold reportsFullyWritten
  rw [beq_iff_eq, hlen]
  have hsub : (keys h).toFinset ⊆ Finset.range n := by
    intro k hk
    simp only [List.mem_toFinset] at hk
    simpa using hr k hk
  have hcard : (keys h).toFinset.card = (keys h).length := List.toFinset_card_of_nodup nd
  constructor
  · intro hl i hi
    have : (keys h).toFinset = Finset.range n := by
      apply Finset.eq_of_subset_of_card_le hsub
      simp [hcard, hl]
    have : i ∈ (keys h).toFinset := by rw [this]; simpa using hi
    simpa using this
  · intro hall
    have : (keys h).toFinset = Finset.range n := by
      apply Finset.Subset.antisymm hsub
      intro i hi
      simp only [Finset.mem_range] at hi
      simpa using hall i hi
    rw [← hcard, this, Finset.card_range]

/-- the store is complete exactly when the counter says so (same hypotheses, from an empty store) -/
theorem store_complete_iff (n : Nat) (h : List (Chunk α)) (nd : (keys h).Nodup) (hr : ∀ k ∈ keys h, k < n) :
    reportsFullyWritten n h = true ↔ fullyWritten (writeAll (emptyStore α n) h) = true := by
  rw [fully_written_iff n h nd hr, history_eq_whole_write]
  unfold fullyWritten
  rw [List.all_eq_true]
  have hl : (scatter (emptyStore α n) h.flatten).length = n := by simp [scatter_length, emptyStore]
  constructor
  · intro hall x hx
    obtain ⟨i, hi, rfl⟩ := List.mem_iff_getElem.1 hx
    rw [hl] at hi
    have hk := hall i hi
    unfold keys at hk
    obtain ⟨p, hp, rfl⟩ := List.mem_map.1 hk
    have := scatter_get (emptyStore α n) h.flatten (by simpa [keys] using nd) p hp (by simpa [emptyStore] using hi)
    rw [List.getElem?_eq_getElem (by rw [hl]; exact hi)] at this
    simp only [Option.some.injEq] at this
    rw [this]; rfl
  · intro hall i hi
    by_contra hni
    have hu := scatter_untouched (emptyStore α n) h.flatten i (by
      intro p hp heq
      exact hni (by unfold keys; exact List.mem_map.2 ⟨p, hp, heq⟩))
    have hget : (scatter (emptyStore α n) h.flatten)[i]? = some none := by
      rw [hu]; simp [emptyStore, hi]
    have hmem : (none : Option α) ∈ scatter (emptyStore α n) h.flatten := by
      rw [List.mem_iff_getElem?]; exact ⟨i, hget⟩
    have := hall none hmem
    simp at this

/-- what the counter does **not** detect: the same chunk written twice reaches the expected total
    of a two-sample store although one sample is missing (stated so the limit is visible). -/
example : reportsFullyWritten 2 [[(0, 7)], [(0, 7)]] = true ∧
    fullyWritten (writeAll (emptyStore Nat 2) [[(0, 7)], [(0, 7)]]) = false := by decide

/-- non-vacuity: a strided two-chunk partition of four samples in both orders -/
example : writeAll (emptyStore Nat 4) [[(0, 10), (2, 12)], [(1, 11), (3, 13)]] =
    writeAll (emptyStore Nat 4) [[(1, 11), (3, 13)], [(0, 10), (2, 12)]] := by decide
example : PairwiseDisjoint [[(0, 10), (2, 12)], [(1, 11), (3, 13)]] := by
  unfold PairwiseDisjoint; decide

end Sarpy.Props.C07
