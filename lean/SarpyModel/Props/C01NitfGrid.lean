/-
  C01Nitf, part 2: the block grid.  A pixel (y, x) lies in exactly one block of the grid of `_construct_block_bounds`: block
  row y / NPPBV, block column x / NPPBH, number (y / NPPBV) * NBPR + x / NPPBH in the order of the offsets; the mosaic shows the
  sample of that block (`grid_hit`) or the fill value when the mask table marks it as not recorded (`grid_miss`).
-/
import SarpyModel.Props.C01NitfBlocks

namespace Sarpy.Props.C01.Nitf
open Sarpy Sarpy.Spec Sarpy.Spec.NitfAssembly Sarpy.Props.C01Seg

theorem bounds_getElem? (h : ImageHeaderFields) (k : Nat) :
    (bounds h)[k]? = if k < h.nbpc * h.nbpr then some (bnd h (k / h.nbpr) (k % h.nbpr)) else none := by
  rw [bounds_eq, List.getElem?_map]
  split
  · rename_i hk; rw [List.getElem?_range hk]; rfl
  · rename_i hk; rw [List.getElem?_eq_none (by simpa using hk)]; rfl

theorem mem_blockList (h : ImageHeaderFields) (mm : Bool) (bands bd : Nat) (offs : List Nat) (e : List (Int × Int) × Seg) :
    e ∈ blockList h mm bands bd (bounds h) offs ↔
      ∃ k v, k < h.nbpc * h.nbpr ∧ offs[k]? = some v ∧ v ≠ Layout.absentMark ∧
        e = blockChild h mm bands bd (bnd h (k / h.nbpr) (k % h.nbpr)) v := by
  unfold blockList
  rw [List.mem_filterMap]
  constructor
  · rintro ⟨p, hp, hf⟩
    obtain ⟨k, hk⟩ := List.mem_iff_getElem?.1 hp
    rw [List.getElem?_zip_eq_some, bounds_getElem?] at hk
    obtain ⟨hb, ho⟩ := hk
    by_cases hlt : k < h.nbpc * h.nbpr
    · rw [if_pos hlt] at hb
      have hb' : p.1 = bnd h (k / h.nbpr) (k % h.nbpr) := (Option.some.inj hb).symm
      by_cases ha : p.2 = Layout.absentMark
      · simp [ha] at hf
      · rw [if_neg ha] at hf
        exact ⟨k, p.2, hlt, ho, ha, by rw [← hb']; exact (Option.some.inj hf).symm⟩
    · rw [if_neg hlt] at hb; cases hb
  · rintro ⟨k, v, hlt, ho, ha, rfl⟩
    refine ⟨(bnd h (k / h.nbpr) (k % h.nbpr), v), ?_, by simp [ha]⟩
    apply List.mem_iff_getElem?.2
    refine ⟨k, ?_⟩
    rw [List.getElem?_zip_eq_some, bounds_getElem?, if_pos hlt]
    exact ⟨rfl, ho⟩

/-! ### grid arithmetic -/

theorem blockH_pos {h : ImageHeaderFields} (hg : gridOK h = true) : 0 < blockH h := by
  simp only [gridOK, decide_eq_true_eq] at hg
  rcases Nat.eq_zero_or_pos (blockH h) with h0 | h0
  · rw [h0] at hg; omega
  · exact h0

theorem blockW_pos {h : ImageHeaderFields} (hg : gridOK h = true) : 0 < blockW h := by
  simp only [gridOK, decide_eq_true_eq] at hg
  rcases Nat.eq_zero_or_pos (blockW h) with h0 | h0
  · rw [h0] at hg; omega
  · exact h0

theorem grid_index {nbpr nbpc rb cb : Nat} (hr : rb < nbpc) (hc : cb < nbpr) :
    rb * nbpr + cb < nbpc * nbpr ∧ (rb * nbpr + cb) / nbpr = rb ∧ (rb * nbpr + cb) % nbpr = cb := by
  have hpos : 0 < nbpr := by omega
  refine ⟨?_, ?_, ?_⟩
  · have : (rb + 1) * nbpr ≤ nbpc * nbpr := Nat.mul_le_mul_right _ hr
    rw [Nat.add_mul] at this; omega
  · rw [Nat.mul_comm, Nat.mul_add_div hpos, Nat.div_eq_of_lt hc]; omega
  · rw [Nat.mul_comm, Nat.mul_add_mod, Nat.mod_eq_of_lt hc]

/-- the pixel's block row / column -/
theorem block_of_pixel {n bsz nb y : Nat} (hpos : 0 < bsz) (hy : y < n) (hcov : n ≤ bsz * nb) :
    y / bsz < nb ∧ (y / bsz) * bsz ≤ y ∧ y < min ((y / bsz + 1) * bsz) n ∧ y - (y / bsz) * bsz = y % bsz := by
  have h1 : y / bsz < nb := Nat.div_lt_of_lt_mul (by omega)
  have h2 := Nat.div_mul_le_self y bsz
  have h3 := Nat.lt_mul_div_succ y hpos
  have h4 := Nat.div_add_mod y bsz
  rw [Nat.mul_comm] at h3
  rw [Nat.mul_comm] at h4
  refine ⟨h1, h2, ?_, ?_⟩
  · omega
  · omega

/-- a block that contains the pixel is the pixel's block -/
theorem pixel_in_block {bsz rb y : Nat} (h1 : rb * bsz ≤ y) (h2 : y < (rb + 1) * bsz) : y / bsz = rb :=
  Nat.div_eq_of_lt_le h1 h2

section
variable {α : Type} [Pairing α] (L : Nat → List Int → α) (F : α)

/-- the hypotheses that locate a raw index inside the image -/
structure InImage (h : ImageHeaderFields) (bands bd : Nat) (pt : Idx) : Prop where
  y0 : 0 ≤ pt (axY bands bd)
  y1 : pt (axY bands bd) < (h.nrows : Int)
  x0 : 0 ≤ pt (axX bands bd)
  x1 : pt (axX bands bd) < (h.ncols : Int)
  b : bands = 1 ∨ (0 ≤ pt (axB bands bd) ∧ pt (axB bands bd) < (bands : Int))

/-- number of the block that holds raw index `pt` -/
def blockNo (h : ImageHeaderFields) (bands bd : Nat) (pt : Idx) : Nat :=
  ((pt (axY bands bd)).toNat / blockH h) * h.nbpr + (pt (axX bands bd)).toNat / blockW h

theorem grid_unique (h : ImageHeaderFields) (hg : gridOK h = true) (bands bd : Nat) (pt : Idx) (hin : InImage h bands bd pt)
    (k : Nat) (hk : k < h.nbpc * h.nbpr)
    (hbox : inBox (boxDef (bnd h (k / h.nbpr) (k % h.nbpr)).1 (min (bnd h (k / h.nbpr) (k % h.nbpr)).2.1 h.nrows)
      (bnd h (k / h.nbpr) (k % h.nbpr)).2.2.1 (min (bnd h (k / h.nbpr) (k % h.nbpr)).2.2.2 h.ncols) bands bd) pt = true) :
    k = blockNo h bands bd pt := by
  rw [inBox_boxDef] at hbox
  obtain ⟨⟨hr0, hr1⟩, ⟨hc0, hc1⟩, _⟩ := hbox
  simp only [bnd] at hr0 hr1 hc0 hc1
  have ey := Int.toNat_of_nonneg hin.y0
  have ex := Int.toNat_of_nonneg hin.x0
  unfold blockNo
  generalize (pt (axY bands bd)).toNat = y at *
  generalize (pt (axX bands bd)).toNat = x at *
  have hy : y / blockH h = k / h.nbpr := by
    apply pixel_in_block <;> [skip; skip]
    · have : ((k / h.nbpr * blockH h : Nat) : Int) ≤ (y : Int) := by rw [ey]; exact_mod_cast hr0
      exact_mod_cast this
    · have : (y : Int) < ((min ((k / h.nbpr + 1) * blockH h) h.nrows : Nat) : Int) := by rw [ey]; exact_mod_cast hr1
      have : y < min ((k / h.nbpr + 1) * blockH h) h.nrows := by exact_mod_cast this
      omega
  have hx : x / blockW h = k % h.nbpr := by
    apply pixel_in_block <;> [skip; skip]
    · have : ((k % h.nbpr * blockW h : Nat) : Int) ≤ (x : Int) := by rw [ex]; exact_mod_cast hc0
      exact_mod_cast this
    · have : (x : Int) < ((min ((k % h.nbpr + 1) * blockW h) h.ncols : Nat) : Int) := by rw [ex]; exact_mod_cast hc1
      have : x < min ((k % h.nbpr + 1) * blockW h) h.ncols := by exact_mod_cast this
      omega
  rw [hy, hx]
  have := Nat.div_add_mod k h.nbpr
  rw [Nat.mul_comm] at this
  omega

/-- the pixel's block is recorded: the mosaic shows the sample of that block, at the pixel's position inside the block -/
theorem grid_hit (h : ImageHeaderFields) (hg : gridOK h = true) (mm : Bool) (bands bd : Nat) (offs : List Nat) (acc : Arr α)
    (pt : Idx) (hin : InImage h bands bd pt) (v : Nat) (hv : offs[blockNo h bands bd pt]? = some v) (hva : v ≠ Layout.absentMark) :
    ((mkBlks (blockList h mm bands bd (bounds h) offs)).fullOnto L F acc).get pt =
      L (h.offset + addlOffset h + v)
        (idxList bands bd (pt (axB bands bd)) (((pt (axY bands bd)).toNat % blockH h : Nat) : Int)
          (((pt (axX bands bd)).toNat % blockW h : Nat) : Int)) := by
  have hg' := hg
  simp only [gridOK, decide_eq_true_eq] at hg'
  have ey := Int.toNat_of_nonneg hin.y0
  have ex := Int.toNat_of_nonneg hin.x0
  have hy : (pt (axY bands bd)).toNat < h.nrows := by have := hin.y1; omega
  have hx : (pt (axX bands bd)).toNat < h.ncols := by have := hin.x1; omega
  obtain ⟨hrb, hr_lo, hr_hi, hr_mod⟩ := block_of_pixel (blockH_pos hg) hy hg'.2.2.1
  obtain ⟨hcb, hc_lo, hc_hi, hc_mod⟩ := block_of_pixel (blockW_pos hg) hx hg'.1
  obtain ⟨hklt, hkdiv, hkmod⟩ := grid_index hrb hcb
  have hk : blockNo h bands bd pt = (pt (axY bands bd)).toNat / blockH h * h.nbpr + (pt (axX bands bd)).toNat / blockW h := rfl
  have hbox : inBox (blockChild h mm bands bd (bnd h (blockNo h bands bd pt / h.nbpr) (blockNo h bands bd pt % h.nbpr)) v).1 pt = true := by
    rw [blockChild_box, inBox_boxDef, hk, hkdiv, hkmod]
    simp only [bnd]
    refine ⟨⟨?_, ?_⟩, ⟨?_, ?_⟩, hin.b⟩
    · rw [← ey]; exact_mod_cast hr_lo
    · rw [← ey]; exact_mod_cast hr_hi
    · rw [← ex]; exact_mod_cast hc_lo
    · rw [← ex]; exact_mod_cast hc_hi
  rw [fullOnto_unique L F _ acc pt
    (blockChild h mm bands bd (bnd h (blockNo h bands bd pt / h.nbpr) (blockNo h bands bd pt % h.nbpr)) v)
    ((mem_blockList h mm bands bd offs _).2 ⟨_, v, hk ▸ hklt, hv, hva, rfl⟩) hbox]
  · rw [blockChild_full, blockChild_box, map_boxLo, hk, hkdiv, hkmod]
    simp only [bnd]
    congr 2
    · rw [← hr_mod, Nat.cast_sub hr_lo, ey]
    · rw [← hc_mod, Nat.cast_sub hc_lo, ex]
  · intro e' he' hin'
    obtain ⟨k', v', hk', ho', _, rfl⟩ := (mem_blockList h mm bands bd offs e').1 he'
    rw [blockChild_box] at hin'
    have := grid_unique h hg bands bd pt hin k' hk' hin'
    subst this
    rw [hv] at ho'
    cases ho'
    rfl

/-- the pixel's block is masked out (or the table is too short): the canvas shows -/
theorem grid_miss (h : ImageHeaderFields) (hg : gridOK h = true) (mm : Bool) (bands bd : Nat) (offs : List Nat) (acc : Arr α)
    (pt : Idx) (hin : InImage h bands bd pt)
    (hv : offs[blockNo h bands bd pt]? = some Layout.absentMark ∨ offs[blockNo h bands bd pt]? = none) :
    ((mkBlks (blockList h mm bands bd (bounds h) offs)).fullOnto L F acc).get pt = acc.get pt := by
  apply fullOnto_none
  intro e' he'
  obtain ⟨k', v', hk', ho', hne, rfl⟩ := (mem_blockList h mm bands bd offs e').1 he'
  cases hb : inBox (blockChild h mm bands bd (bnd h (k' / h.nbpr) (k' % h.nbpr)) v').1 pt with
  | false => rfl
  | true =>
    rw [blockChild_box] at hb
    have := grid_unique h hg bands bd pt hin k' hk' hb
    subst this
    rcases hv with hv | hv
    · rw [hv] at ho'; cases ho'; exact absurd rfl hne
    · rw [hv] at ho'; cases ho'

end

end Sarpy.Props.C01.Nitf
