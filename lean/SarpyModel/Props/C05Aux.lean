/-
  C05 (extension) — lemmas about the helper functions of the constructs added to `Spec.XmlFmt`:
    `place`   (coefficient arrays: every child placed at its exponent; dense enumeration, any order, zeros left out),
    `chunk`   (2-D arrays as rows),
    `reindex` (`SerializableArray._check_indices`: canonical `index` fields; idempotent; identity on canonical entries),
    `dedupe`  (`parse_parameters_collection`: OrderedDict semantics; idempotent; identity on distinct names).
  All statements are for lists of any length.
-/
import SarpyModel.Spec.XmlFmt

namespace Sarpy.Props.C05
open Sarpy.Spec.XmlFmt

/-! ### `place` -/

/-- the dense enumeration `(i, c_i), (i+1, c_{i+1}), ...` -/
def enumFrom' {α : Type} : Nat → List α → List (Nat × α)
  | _, [] => []
  | i, x :: xs => (i, x) :: enumFrom' (i + 1) xs

theorem enumFrom'_append {α : Type} : ∀ (a b : List α) (k : Nat),
    enumFrom' k (a ++ b) = enumFrom' k a ++ enumFrom' (k + a.length) b
  | [], b, k => by simp [enumFrom']
  | x :: a, b, k => by
    simp only [List.cons_append, enumFrom', List.length_cons, enumFrom'_append a b (k + 1)]
    congr 3; omega

theorem enumFrom'_map_fst {α : Type} : ∀ (l : List α) (k : Nat), (enumFrom' k l).map (·.1) = List.range' k l.length
  | [], _ => rfl
  | _ :: l, k => by simp [enumFrom', List.range', enumFrom'_map_fst l (k + 1)]

/-- placing the dense enumeration of `cs` into any array of the right length yields `cs` (whatever was there before) -/
theorem place_enum {α : Type} : ∀ (cs done rest : List α), rest.length = cs.length →
    place (done ++ rest) (enumFrom' done.length cs) = some (done ++ cs)
  | [], done, rest, h => by
    have : rest = [] := List.eq_nil_of_length_eq_zero (by simpa using h)
    simp [enumFrom', place, this]
  | c :: cs, done, [], h => by simp at h
  | c :: cs, done, z :: rest, h => by
    have hlt : done.length < (done ++ z :: rest).length := by simp
    have hset : (done ++ z :: rest).set done.length c = (done ++ [c]) ++ rest := by
      simp [List.set_append_right]
    have ih := place_enum cs (done ++ [c]) rest (by simpa using h)
    simp only [List.length_append, List.length_cons, List.length_nil, Nat.zero_add] at ih
    simp only [enumFrom', place, hlt, if_true, hset, ih]
    simp

/-- `numpy.zeros(n)` then `coefs[i] = c_i` for i = 0..n-1 gives `cs` -/
theorem place_enum_zero {α : Type} (z : α) (cs : List α) :
    place (List.replicate cs.length z) (enumFrom' 0 cs) = some cs := by
  have := place_enum cs [] (List.replicate cs.length z) (by simp)
  simpa using this

theorem place_length {α : Type} : ∀ (es : List (Nat × α)) (init r : List α), place init es = some r → r.length = init.length
  | [], init, r, h => by simp [place] at h; subst h; rfl
  | e :: es, init, r, h => by
    unfold place at h
    split at h
    · have := place_length es _ r h; simpa using this
    · simp at h

/-- two assignments at different positions commute -/
theorem place_swap {α : Type} (init : List α) (x y : Nat × α) (es : List (Nat × α)) (hne : x.1 ≠ y.1) :
    place init (x :: y :: es) = place init (y :: x :: es) := by
  simp only [place, List.length_set]
  by_cases hx : x.1 < init.length <;> by_cases hy : y.1 < init.length <;> simp [hx, hy, List.set_comm _ _ hne]

/-- **document order is irrelevant**: with pairwise different exponents, any permutation of the entries gives the same array -/
theorem place_perm {α : Type} {es₁ es₂ : List (Nat × α)} (hp : es₁.Perm es₂) :
    ∀ (init : List α), (es₁.map (·.1)).Nodup → place init es₁ = place init es₂ := by
  induction hp with
  | nil => intros; rfl
  | cons x _ ih =>
    intro init hnd
    simp only [List.map_cons, List.nodup_cons] at hnd
    simp only [place]
    split
    · exact ih _ hnd.2
    · rfl
  | swap x y l =>
    intro init hnd
    simp only [List.map_cons, List.nodup_cons, List.mem_cons, not_or] at hnd
    exact place_swap init y x l (fun h => hnd.1.1 h)
  | trans h₁ _ ih₁ ih₂ =>
    intro init hnd
    rw [ih₁ init hnd]
    exact ih₂ init ((h₁.map _).nodup_iff.1 hnd)

/-- an entry that writes the value its position already holds changes nothing -/
theorem set_self_of_getElem? {α : Type} (l : List α) (i : Nat) (x : α) (h : l[i]? = some x) : l.set i x = l := by
  apply List.ext_getElem?
  intro k
  by_cases hk : i = k
  · subst hk; simp [List.getElem?_set, h]
    have : i < l.length := by
      rcases List.getElem?_eq_some_iff.1 h with ⟨hl, _⟩; exact hl
    simp [this]
  · simp [hk]

/-- **absent coefficients are zero**: leaving out entries whose value is the fill value `z` does not change the result, provided
    exponents are pairwise different and in range -/
theorem place_drop_fill {α : Type} (z : α) (keep : Nat × α → Bool) :
    ∀ (es : List (Nat × α)) (init : List α), (es.map (·.1)).Nodup → (∀ e ∈ es, e.1 < init.length) →
      (∀ e ∈ es, init[e.1]? = some z) → (∀ e ∈ es, keep e = false → e.2 = z) →
      place init (es.filter keep) = place init es
  | [], _, _, _, _, _ => rfl
  | e :: es, init, hnd, hr, hz, hk => by
    simp only [List.map_cons, List.nodup_cons] at hnd
    have hlt : e.1 < init.length := hr e (by simp)
    have hz' : ∀ e' ∈ es, (init.set e.1 e.2)[e'.1]? = some z := by
      intro e' he'
      have hne : e.1 ≠ e'.1 := fun h => hnd.1 (h ▸ List.mem_map_of_mem (f := (·.1)) he')
      rw [List.getElem?_set_ne hne]
      exact hz e' (by simp [he'])
    cases hke : keep e with
    | true =>
      simp only [List.filter_cons, hke, if_true, place, hlt]
      exact place_drop_fill z keep es _ hnd.2 (fun e' he' => by simpa using hr e' (by simp [he'])) hz'
        (fun e' he' => hk e' (by simp [he']))
    | false =>
      have hez : e.2 = z := hk e (by simp) hke
      have hself : init.set e.1 e.2 = init := set_self_of_getElem? init e.1 e.2 (by rw [hez]; exact hz e (by simp))
      simp only [List.filter_cons, hke, place, hlt, if_true, hself]
      exact place_drop_fill z keep es init hnd.2 (fun e' he' => hr e' (by simp [he']))
        (fun e' he' => hz e' (by simp [he'])) (fun e' he' => hk e' (by simp [he']))

/-! ### 2-D arrays: rows and the flat array -/

def enumRow {α : Type} (w i : Nat) : Nat → List α → List (Nat × α)
  | _, [] => []
  | j, x :: xs => (i * w + j, x) :: enumRow w i (j + 1) xs

def enumRows {α : Type} (w : Nat) : Nat → List (List α) → List (Nat × α)
  | _, [] => []
  | i, r :: rs => enumRow w i 0 r ++ enumRows w (i + 1) rs

theorem enumRow_eq {α : Type} (w i : Nat) : ∀ (xs : List α) (j : Nat), enumRow w i j xs = enumFrom' (i * w + j) xs
  | [], _ => rfl
  | _ :: xs, j => by simp [enumRow, enumFrom', enumRow_eq w i xs (j + 1), Nat.add_assoc]

/-- row-major numbering: entry (i, j) of a rectangular array of width `w` is entry `i * w + j` of the flat array -/
theorem enumRows_eq {α : Type} (w : Nat) : ∀ (rows : List (List α)) (i : Nat), (∀ r ∈ rows, r.length = w) →
    enumRows w i rows = enumFrom' (i * w) rows.flatten
  | [], _, _ => rfl
  | r :: rs, i, h => by
    have hr : r.length = w := h r (by simp)
    have ih := enumRows_eq w rs (i + 1) (fun r' hr' => h r' (by simp [hr']))
    simp only [enumRows, List.flatten_cons, enumFrom'_append, enumRow_eq, Nat.add_zero, ih, hr]
    congr 2
    rw [Nat.succ_mul]

theorem chunk_flatten {α : Type} (w : Nat) : ∀ (rows : List (List α)), (∀ r ∈ rows, r.length = w) →
    chunk rows.length w rows.flatten = rows
  | [], _ => rfl
  | r :: rs, h => by
    have hr : r.length = w := h r (by simp)
    have ih := chunk_flatten w rs (fun r' hr' => h r' (by simp [hr']))
    simp only [List.length_cons, chunk, List.flatten_cons]
    rw [← hr, List.take_left, List.drop_left, hr, ih]

theorem length_flatten_rect {α : Type} (w : Nat) : ∀ (rows : List (List α)), (∀ r ∈ rows, r.length = w) →
    rows.flatten.length = rows.length * w
  | [], _ => by simp
  | r :: rs, h => by
    have hr : r.length = w := h r (by simp)
    have ih := length_flatten_rect w rs (fun r' hr' => h r' (by simp [hr']))
    simp only [List.flatten_cons, List.length_append, List.length_cons, hr, ih, Nat.succ_mul]
    omega

/-! ### `reindex` -/

section reindex
variable {P S : Type} (C : Codec P S)

theorem setKid_idem (pos : Nat) (x : Val P S) (v : Val P S) : setKid pos x (setKid pos x v) = setKid pos x v := by
  cases v <;> simp [setKid]

theorem reindexFrom_length (pos : Nat) (labels : List Nat) (lim : Nat) : ∀ (items : List (Val P S)) (k : Nat),
    (reindexFrom C pos labels lim k items).length = items.length
  | [], _ => rfl
  | _ :: vs, k => by simp [reindexFrom, reindexFrom_length pos labels lim vs (k + 1)]

/-- `_check_indices` is idempotent -/
theorem reindexFrom_idem (pos : Nat) (labels : List Nat) (lim : Nat) : ∀ (items : List (Val P S)) (k : Nat),
    reindexFrom C pos labels lim k (reindexFrom C pos labels lim k items) = reindexFrom C pos labels lim k items
  | [], _ => rfl
  | v :: vs, k => by
    simp only [reindexFrom, reindexFrom_idem pos labels lim vs (k + 1)]
    split <;> simp [setKid_idem]

theorem reindex_idem (a : ArrSpec) (items : List (Val P S)) : reindex C a (reindex C a items) = reindex C a items := by
  unfold reindex
  split
  · rfl
  · exact reindexFrom_idem C _ _ _ items 0

theorem reindex_length (a : ArrSpec) (items : List (Val P S)) : (reindex C a items).length = items.length := by
  unfold reindex
  split
  · rfl
  · exact reindexFrom_length C _ _ _ items 0

theorem setKid_of_idxOk (hp : ∀ a b, C.peq a b = true ↔ a = b) (pos : Nat) (labels : List Nat) (k : Nat) (v : Val P S)
    (h : idxOk C pos labels k v = true) : setKid pos (.prim (idxVal C labels k)) v = v := by
  cases v with
  | node kids =>
    simp only [idxOk] at h
    split at h
    · rename_i x hx
      have hxe : x = idxVal C labels k := (hp _ _).1 h
      subst hxe
      simp only [setKid]
      rw [set_self_of_getElem? kids pos _ hx]
    · simp at h
  | absent => simp [idxOk] at h
  | prim x => simp [idxOk] at h
  | blob a x ch => simp [idxOk] at h

/-- entries that already carry their canonical index are left alone -/
theorem reindexFrom_of_ok (hp : ∀ a b, C.peq a b = true ↔ a = b) (pos : Nat) (labels : List Nat) (lim : Nat) :
    ∀ (items : List (Val P S)) (k : Nat), idxOkFrom C pos labels lim k items = true → reindexFrom C pos labels lim k items = items
  | [], _, _ => rfl
  | v :: vs, k, h => by
    simp only [idxOkFrom, Bool.and_eq_true, Bool.or_eq_true, decide_eq_true_eq] at h
    simp only [reindexFrom, reindexFrom_of_ok hp pos labels lim vs (k + 1) h.2]
    split
    · rename_i hk
      rcases h.1 with h1 | h1
      · omega
      · rw [setKid_of_idxOk C hp pos labels k v h1]
    · rfl

theorem reindex_of_canon (hp : ∀ a b, C.peq a b = true ↔ a = b) (a : ArrSpec) (items : List (Val P S))
    (h : isCanonArr C a items = true) : reindex C a items = items := by
  unfold reindex
  unfold isCanonArr at h
  split
  · rfl
  · rename_i pos hpos
    simp only [hpos] at h
    exact reindexFrom_of_ok C hp pos _ _ items 0 h

theorem finishArr_of_wf (hp : ∀ a b, C.peq a b = true ↔ a = b) (a : ArrSpec) (items : List (Val P S))
    (hlen : (decide (a.minLen ≤ items.length) && decide (items.length ≤ a.maxLen)) = true)
    (hc : isCanonArr C a items = true) : finishArr C a items = some (.node items) := by
  unfold finishArr
  simp only [hlen, if_true, reindex_of_canon C hp a items hc]

end reindex

/-! ### `dedupe` -/

section dedupe
variable {P S : Type} (C : Codec P S)

theorem foldl_insert_distinct : ∀ (items acc : List (Val P S)),
    (∀ a ∈ acc, ∀ b ∈ items, sameKey C a b = false) → distinctKeys C items = true →
    items.foldl (insertParam C) acc = acc ++ items
  | [], acc, _, _ => by simp
  | x :: items, acc, hacc, hd => by
    simp only [distinctKeys, pairwiseB, Bool.and_eq_true, List.all_eq_true, Bool.not_eq_true'] at hd
    have hno : acc.any (fun a => sameKey C a x) = false := by
      rw [List.any_eq_false]
      intro a ha
      simp [hacc a ha x (by simp)]
    have ih := foldl_insert_distinct items (acc ++ [x])
      (by
        intro a ha b hb
        rcases List.mem_append.1 ha with ha | ha
        · exact hacc a ha b (by simp [hb])
        · simp only [List.mem_singleton] at ha; subst ha; exact hd.1 b hb)
      (by simpa [distinctKeys] using hd.2)
    simp only [List.foldl_cons, insertParam, hno, Bool.false_eq_true, if_false, ih]
    simp

/-- a parameter list without repeated names is read back as it is (insertion order preserved) -/
theorem dedupe_of_distinct (items : List (Val P S)) (h : distinctKeys C items = true) : dedupe C items = items := by
  have := foldl_insert_distinct C items [] (by simp) h
  simpa [dedupe] using this

theorem pairwiseB_map {α β : Type} (r : β → β → Bool) (f : α → β) : ∀ (l : List α),
    pairwiseB r (l.map f) = pairwiseB (fun a b => r (f a) (f b)) l
  | [] => rfl
  | a :: l => by simp [pairwiseB, pairwiseB_map r f l, List.all_map]; rfl

theorem pairwiseB_append_singleton {α : Type} (r : α → α → Bool) (x : α) : ∀ (l : List α),
    pairwiseB r (l ++ [x]) = (pairwiseB r l && l.all (fun a => r a x))
  | [] => by simp [pairwiseB]
  | a :: l => by
    simp only [List.cons_append, pairwiseB, pairwiseB_append_singleton r x l, List.all_append, List.all_cons, List.all_nil,
      Bool.and_true]
    cases l.all (r a) <;> cases r a x <;> cases pairwiseB r l <;> cases l.all (fun a => r a x) <;> rfl

/-- "the names differ", on the names alone -/
def keyNe (a b : Option P) : Bool :=
  match a, b with
  | some x, some y => !(C.peq x y)
  | _, _ => true

theorem sameKey_keyNe (a b : Val P S) : (!(sameKey C a b)) = keyNe C (paramKey a) (paramKey b) := by
  unfold sameKey keyNe
  cases paramKey a <;> cases paramKey b <;> rfl

theorem distinctKeys_keys (l : List (Val P S)) : distinctKeys C l = pairwiseB (keyNe C) (l.map paramKey) := by
  rw [pairwiseB_map]
  unfold distinctKeys
  congr 1
  funext a b
  exact sameKey_keyNe C a b

theorem sameKey_eq (hp : ∀ a b, C.peq a b = true ↔ a = b) (a x : Val P S) (h : sameKey C a x = true) :
    paramKey x = paramKey a := by
  unfold sameKey at h
  cases ha : paramKey a with
  | none => simp [ha] at h
  | some u =>
    cases hx : paramKey x with
    | none => simp [ha, hx] at h
    | some v =>
      simp only [ha, hx] at h
      rw [(hp _ _).1 h]

/-- inserting into an OrderedDict keeps the names pairwise different -/
theorem insertParam_distinct (hp : ∀ a b, C.peq a b = true ↔ a = b) (acc : List (Val P S)) (x : Val P S)
    (h : distinctKeys C acc = true) : distinctKeys C (insertParam C acc x) = true := by
  unfold insertParam
  split
  · rw [distinctKeys_keys] at h ⊢
    have hk : (acc.map (fun a => if sameKey C a x = true then x else a)).map paramKey = acc.map paramKey := by
      rw [List.map_map]
      apply List.map_congr_left
      intro a _
      simp only [Function.comp]
      split
      · rename_i hs; exact sameKey_eq C hp a x hs
      · rfl
    rw [hk]; exact h
  · rename_i hno
    have hno' : acc.any (fun a => sameKey C a x) = false := by simpa using hno
    unfold distinctKeys at h ⊢
    rw [pairwiseB_append_singleton, h, Bool.true_and, List.all_eq_true]
    intro a ha
    have := (List.any_eq_false.1 hno') a ha
    simpa using this

theorem foldl_insert_keeps_distinct (hp : ∀ a b, C.peq a b = true ↔ a = b) : ∀ (items acc : List (Val P S)),
    distinctKeys C acc = true → distinctKeys C (items.foldl (insertParam C) acc) = true
  | [], _, h => h
  | x :: items, acc, h => foldl_insert_keeps_distinct hp items _ (insertParam_distinct C hp acc x h)

/-- what the reader builds never repeats a name -/
theorem dedupe_distinct (hp : ∀ a b, C.peq a b = true ↔ a = b) (items : List (Val P S)) :
    distinctKeys C (dedupe C items) = true :=
  foldl_insert_keeps_distinct C hp items [] rfl

/-- `parse_parameters_collection` is idempotent: reading what was read changes nothing -/
theorem dedupe_idem (hp : ∀ a b, C.peq a b = true ↔ a = b) (items : List (Val P S)) :
    dedupe C (dedupe C items) = dedupe C items :=
  dedupe_of_distinct C _ (dedupe_distinct C hp items)

end dedupe

end Sarpy.Props.C05
