/-
  C19 (extension) — "an existing path is not overwritten unless the caller disabled the existence check", over what is at
  the path beforehand (absent / empty file / non-empty file / directory) and the `check_existence` argument (not given /
  True / False).  Model: `Spec/Lifecycle.lean` part (e) (`PrePath`, `pathCtor`, `kept`).

      e_refused_iff                       refused  iff  something exists at the path and the check is enabled
      e_default_is_checked                not passing `check_existence` is the same as passing True
      e_refusal_independent_of_content    for any two things that exist (empty file, non-empty file, directory) the
                                          outcome "refused or not" is the same: size and content play no role
      e_refused_keeps_target, e_existing_kept_unless_disabled, e_clobber_only_if_disabled
                                          a refused (or failed) construction leaves what was there untouched; something
                                          that existed is lost only when the caller passed False
      e_agrees_with_winit, e_agrees_with_wbinit   the row machine and the blocked machine refuse exactly then
      size_sensitive_check_overwrites     negation witness: a test that also asks for a non-zero size lets an enabled
                                          check overwrite an existing empty file
-/
import SarpyModel.Props.C19Blocks

namespace Sarpy.Props.C19
open Sarpy.Spec.Lifecycle

/-- **an existing path is refused iff the check is enabled** - whatever exists there -/
theorem e_refused_iff (pre : PrePath) (check : Option Bool) :
    pathCtor pre check = .refused ↔ (pre.present = true ∧ checkOf check = true) := by
  cases pre <;> cases check with
  | none => simp [pathCtor, refuses, checkOf, PrePath.present]
  | some b => cases b <;> simp [pathCtor, refuses, checkOf, PrePath.present]

theorem e_default_is_checked (pre : PrePath) : pathCtor pre none = pathCtor pre (some true) := rfl

/-- **the refusal does not depend on the size or content of what exists** -/
theorem e_refusal_independent_of_content (p q : PrePath) (check : Option Bool)
    (hp : p.present = true) (hq : q.present = true) :
    pathCtor p check = .refused ↔ pathCtor q check = .refused := by
  rw [e_refused_iff, e_refused_iff]; simp [hp, hq]

/-- in particular an existing empty file is refused exactly when an existing non-empty file is -/
theorem e_empty_like_nonempty (check : Option Bool) :
    pathCtor .emptyFile check = .refused ↔ pathCtor .nonEmptyFile check = .refused :=
  e_refusal_independent_of_content _ _ check rfl rfl

/-- **a refused construction leaves the pre-existing target byte-identical** (so does one whose `open` failed) -/
theorem e_refused_keeps_target (pre : PrePath) (check : Option Bool)
    (h : pathCtor pre check = .refused ∨ pathCtor pre check = .failed) : kept pre check = true := by
  rcases h with h | h <;> simp [kept, h]

/-- **an existing path is not overwritten unless the caller disabled the check** -/
theorem e_existing_kept_unless_disabled (pre : PrePath) (check : Option Bool)
    (hl : kept pre check = false) : check = some false ∧ pre.present = true := by
  cases pre <;> cases check with
  | none => simp [kept, pathCtor, refuses, checkOf, PrePath.present] at hl
  | some b => cases b <;> simp [kept, pathCtor, refuses, checkOf, PrePath.present] at hl ⊢

theorem e_clobber_only_if_disabled (pre : PrePath) (check : Option Bool)
    (h : pathCtor pre check = .opened true) : check = some false ∧ pre.present = true := by
  apply e_existing_kept_unless_disabled
  simp [kept, h]

/-- with the check enabled everything that exists is kept (satisfiable: all three existing kinds, default and True) -/
theorem e_enabled_keeps (pre : PrePath) (check : Option Bool) (hc : checkOf check = true) : kept pre check = true := by
  cases hk : kept pre check with
  | true => rfl
  | false =>
    have := (e_existing_kept_unless_disabled pre check hk).1
    subst this
    simp [checkOf] at hc

/-- the row machine of Props/C19.lean refuses exactly when `pathCtor` does, and truncates exactly when it says so -/
theorem e_agrees_with_winit (pre : PrePath) (check : Option Bool) (shapes : List (Nat × Nat)) :
    (winit { target := .path pre.present, check := checkOf check, shapes := shapes } = none ↔
      pathCtor pre check = .refused) ∧
    ∀ s, winit { target := .path pre.present, check := checkOf check, shapes := shapes } = some s →
      pre ≠ .directory → pathCtor pre check = .opened s.clobbered := by
  refine ⟨?_, ?_⟩
  · rw [w_existing_path_refused_unless_disabled, e_refused_iff]
    cases pre <;> simp [PrePath.present]
  · intro s hs hd
    cases pre <;> cases check with
    | none => simp_all [winit, pathCtor, refuses, checkOf, PrePath.present] <;> (subst hs; rfl)
    | some b => cases b <;> simp_all [winit, pathCtor, refuses, checkOf, PrePath.present] <;> (subst hs; rfl)

/-- so does the blocked machine -/
theorem e_agrees_with_wbinit (pre : PrePath) (check : Option Bool) (shapes : List (Nat × Nat))
    (segs : List (Nat × Nat × List (Nat × Nat × Nat × Nat))) :
    wbinit { target := .path pre.present, check := checkOf check, shapes := shapes, segs := segs } = none ↔
      pathCtor pre check = .refused := by
  rw [wb_existing_path_refused_unless_disabled, e_refused_iff]
  cases pre <;> simp [PrePath.present]

/-! ### satisfiable instances and the negation witness -/

example : pathCtor .emptyFile none = .refused ∧ pathCtor .nonEmptyFile (some true) = .refused ∧
    pathCtor .directory none = .refused ∧ pathCtor .absent none = .opened false ∧
    pathCtor .emptyFile (some false) = .opened true ∧ pathCtor .directory (some false) = .failed := by decide
example : kept .emptyFile none = true ∧ kept .emptyFile (some false) = false ∧ kept .directory (some false) = true := by decide

/-- **negation witness**: a test that also requires a non-zero size (`check and exists and getsize > 0`) does not refuse
    an existing empty file although the check is enabled - the clause fails for it, and only through the size -/
theorem size_sensitive_check_overwrites :
    ¬ (∀ (check exists_ nonEmpty : Bool), refusesUnlessEmpty check exists_ nonEmpty = refuses check exists_) ∧
    refusesUnlessEmpty true true false = false ∧ refuses true true = true := by decide

end Sarpy.Props.C19
