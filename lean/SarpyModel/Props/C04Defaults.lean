/-
  C04, argument defaults of the projection entry points (image_to_ground_hae: hae0; image_to_ground_plane: gref, ugpn),
  regenerated from the current source by translate/gen_defaults.py (Gen.Defaults.*) and bridged to Spec.Defaults.fill.
-/
import SarpyModel.Gen.Defaults
import SarpyModel.Spec.Defaults

namespace Sarpy.Props.C04
open Sarpy Sarpy.Spec.Defaults

/-- an explicitly given value is used as it is, for EVERY value -/
theorem fill_explicit (v d : Int) : fill (some v) d = v := rfl

/-- in particular an explicit zero (the ellipsoid itself as target height) is not replaced by the default -/
theorem fill_explicit_zero (d : Int) : fill (some 0) d = 0 := rfl

/-- the default is used exactly when the argument is absent -/
theorem fill_absent (d : Int) : fill none d = d := rfl

theorem fill_eq_default_iff (x : Option Int) (d : Int) : fill x d = d ↔ x = none ∨ x = some d := by
  cases x with
  | none => simp [fill]
  | some v => simp [fill]

/-- the truthiness form is NOT the specified filling: it differs exactly on an explicit zero with a non-zero default -/
theorem fillTruthy_differs_iff (x : Option Int) (d : Int) : fillTruthy x d ≠ fill x d ↔ x = some 0 ∧ d ≠ 0 := by
  cases x with
  | none => simp [fill, fillTruthy]
  | some v =>
    by_cases h : v = 0
    · subst h; simp [fill, fillTruthy]
    · simp [fill, fillTruthy, h]

example : fillTruthy (some 0) 820 ≠ fill (some 0) 820 := by decide

/-! ### bridges: what the source does now -/

theorem gen_hae0_fill (x : Option Int) (d : Int) : Gen.Defaults.hae0_fill x d = .ok (fill x d) := by
  cases x <;> simp [Gen.Defaults.hae0_fill, fill, getI, bind, Except.bind, pure, Except.pure]

theorem gen_gref_fill (x : Option Int) (d : Int) : Gen.Defaults.gref_fill x d = .ok (fill x d) := by
  cases x <;> simp [Gen.Defaults.gref_fill, fill, getI, bind, Except.bind, pure, Except.pure]

theorem gen_ugpn_fill (x : Option Int) (d : Int) : Gen.Defaults.ugpn_fill x d = .ok (fill x d) := by
  cases x <;> simp [Gen.Defaults.ugpn_fill, fill, getI, bind, Except.bind, pure, Except.pure]

/-- for the regenerated code: an explicit target height - zero included - is the height used -/
theorem gen_hae0_explicit (v d : Int) : Gen.Defaults.hae0_fill (some v) d = .ok v := by
  rw [gen_hae0_fill]; rfl

end Sarpy.Props.C04
