/-
  C19 (extension) — writers over BLOCKED image segments (`Spec/Lifecycle.lean` part (d): `Blk`, `BSeg`, `WBState`,
  `wbstepWith`).  Per-block pixel accounting; an image segment claims to be fully written exactly when EVERY block
  does (conjunction over the children, by induction over any block list); a non-forced flush hands a segment to the
  target only when the conjunction holds.  Every theorem is for every configuration (any number of data segments,
  image segments per data segment, blocks per image segment, block rectangles) and every op history (induction over
  the op list).  The machine is parametrised by the fully-written test `claimF` the non-forced flush trusts:

      conj_eq_all, conj_cons, conj_append, claims_iff_all_blocks     the loop is the conjunction
      lastOnly_eq_getLast                                            the `out = done` loop is the last child only
      wb_close_idempotent, wb_exit_is_close, wb_del_is_close, wb_closed_after_close,
      wb_use_after_close, wb_use_after_close_history, wb_caller_file_never_closed, wb_owned_file_closed,
      wb_closed_full_size, wb_existing_path_refused_unless_disabled   life cycle, for EVERY `claimF`
      wb_claims_iff_complete_partial, wb_incomplete_never_claims_written_partial,
      wb_handed_only_when_complete_partial, wb_no_written_pixel_lost_partial, wb_caller_file_complete_partial
            accounting and hand-over, for every SOUND `claimF` (`claimF g → g.claims`; the code's `BSeg.claims` is one)
            and histories that write no pixel twice (`_partial`: the hypothesis `freshRunB`, as in Props/C19.lean - the
            counter-example without it is `claims_without_fresh_is_false` there)
      lastOnly_is_unsound      `BSeg.claimsLast` is not sound
      lastOnly_loses_rows      negation witness: with the last-block-only test a rewrite-free, complete history ends with
                               written pixels missing from the caller's file, and an incomplete writer claims fully written
-/
import SarpyModel.Props.C19

namespace Sarpy.Props.C19
open Sarpy.Spec.Lifecycle

/-! ## the fully-written loop -/

theorem foldl_and (l : List Bool) (b : Bool) :
    l.foldl (fun out done => out && done) b = (b && l.all id) := by
  induction l generalizing b with
  | nil => simp
  | cons a l ih => simp [ih, Bool.and_assoc]

/-- **the loop `out = True; for child: out &= done` is the conjunction over all children**, for any list -/
theorem conj_eq_all (l : List Bool) : conj l = l.all id := by
  simp [conj, foldl_and]

theorem conj_cons (a : Bool) (l : List Bool) : conj (a :: l) = (a && conj l) := by
  simp [conj_eq_all]

theorem conj_append (l1 l2 : List Bool) : conj (l1 ++ l2) = (conj l1 && conj l2) := by
  simp [conj_eq_all]

/-- an image segment claims to be fully written iff every one of its blocks does -/
theorem claims_iff_all_blocks (g : BSeg) : g.claims = true ↔ ∀ b ∈ g.blocks, b.claims g.spp = true := by
  simp [BSeg.claims, conj_eq_all]

theorem foldl_last (l : List Bool) (b : Bool) : l.foldl (fun _ done => done) b = l.getLast?.getD b := by
  induction l generalizing b with
  | nil => rfl
  | cons a l ih =>
    simp only [List.foldl_cons, ih]
    cases l with
    | nil => rfl
    | cons c l =>
      simp only [List.getLast?_cons_cons]
      cases hl : (c :: l).getLast? with
      | none => simp at hl
      | some v => rfl

/-- the loop with `out = done` is the status of the last child only -/
theorem lastOnly_eq_getLast (l : List Bool) : lastOnly l = l.getLast?.getD true := by
  simp [lastOnly, foldl_last]

/-! ## pixel maps -/

theorem markRows_length (p : List (List Bool)) (r n c m : Nat) : (markRows p r n c m).length = p.length := by
  fun_induction markRows p r n c m <;> simp_all

theorem markRows_rows (w : Nat) (p : List (List Bool)) (r n c m : Nat) (h : ∀ row ∈ p, row.length = w) :
    ∀ row ∈ markRows p r n c m, row.length = w := by
  fun_induction markRows p r n c m with
  | case1 => simp
  | case2 row l => exact h
  | case3 row l n c m ih =>
    intro x hx
    simp only [List.mem_cons] at hx
    rcases hx with rfl | hx
    · rw [setRange_length]; exact h row (by simp)
    · exact ih (fun y hy => h y (by simp [hy])) x hx
  | case4 row l r n c m ih =>
    intro x hx
    simp only [List.mem_cons] at hx
    rcases hx with rfl | hx
    · exact h x (by simp)
    · exact ih (fun y hy => h y (by simp [hy])) x hx

theorem cnt2_le (w : Nat) (p : List (List Bool)) (h : ∀ row ∈ p, row.length = w) : cnt2 p ≤ p.length * w := by
  induction p with
  | nil => simp [cnt2]
  | cons row l ih =>
    have h1 := cnt_le row
    have h2 := ih (fun y hy => h y (by simp [hy]))
    have h3 := h row (by simp)
    simp only [cnt2, List.length_cons, Nat.succ_mul]
    omega

theorem cnt2_eq_iff (w : Nat) (p : List (List Bool)) (h : ∀ row ∈ p, row.length = w) :
    cnt2 p = p.length * w ↔ all2 p = true := by
  induction p with
  | nil => simp [cnt2, all2]
  | cons row l ih =>
    have h1 := cnt_le row
    have h2 := cnt2_le w l (fun y hy => h y (by simp [hy]))
    have h3 := h row (by simp)
    have ih' := ih (fun y hy => h y (by simp [hy]))
    have hrow := cnt_eq_length_iff row
    simp only [cnt2, List.length_cons, Nat.succ_mul]
    have hall : all2 (row :: l) = (row.all id && all2 l) := by simp [all2]
    rw [hall, Bool.and_eq_true, ← ih', ← hrow]
    omega

theorem freshRange_zero (l : List Bool) (r : Nat) : freshRange l r 0 = true := by
  cases l <;> cases r <;> simp [freshRange]

theorem cnt2_markRows_fresh (p : List (List Bool)) (r n c m : Nat) (h : freshRows p r n c m = true) :
    cnt2 (markRows p r n c m) = cnt2 p + n * m := by
  induction p generalizing r n with
  | nil =>
    cases n with
    | zero => simp [markRows]
    | succ n => simp [freshRows] at h
  | cons row l ih =>
    cases r with
    | zero =>
      cases n with
      | zero => simp [markRows]
      | succ n =>
        simp only [freshRows, Bool.and_eq_true] at h
        have h1 := cnt_setRange_fresh row c m h.1
        have h2 := ih 0 n h.2
        simp only [markRows, cnt2, h1, h2, Nat.succ_mul]
        omega
    | succ r =>
      cases n with
      | zero =>
        have : ∀ (q : List (List Bool)) (k : Nat), markRows q k 0 c m = q := by
          intro q
          induction q with
          | nil => intro k; simp [markRows]
          | cons a q ihq => intro k; cases k <;> simp [markRows, ihq]
        simp [this]
      | succ n =>
        simp only [freshRows] at h
        have h2 := ih r (n + 1) h
        simp only [markRows, cnt2, h2]
        omega

/-- on a pixel map that is completely written no non-empty rectangle is fresh -/
theorem not_fresh_of_full2 (p : List (List Bool)) (r n c m : Nat) (h : all2 p = true) :
    freshRows p r (n + 1) c (m + 1) = false := by
  induction p generalizing r n with
  | nil => simp [freshRows]
  | cons row l ih =>
    have hall : all2 (row :: l) = (row.all id && all2 l) := by simp [all2]
    rw [hall, Bool.and_eq_true] at h
    cases r with
    | zero =>
      have := not_fresh_of_full row c m ((cnt_eq_length_iff row).2 h.1)
      simp [freshRows, this]
    | succ r => simp [freshRows, ih r n h.2]

theorem all2_replicate_false (h w : Nat) (hh : 0 < h) (hw : 0 < w) :
    all2 (List.replicate h (List.replicate w false)) = false := by
  obtain ⟨h', rfl⟩ : ∃ k, h = k + 1 := ⟨h - 1, by omega⟩
  obtain ⟨w', rfl⟩ : ∃ k, w = k + 1 := ⟨w - 1, by omega⟩
  simp [all2, List.replicate_succ]

theorem cnt2_replicate_false (h w : Nat) : cnt2 (List.replicate h (List.replicate w false)) = 0 := by
  induction h with
  | zero => rfl
  | succ h ih => simp [List.replicate_succ, cnt2, ih, cnt_replicate_false]

/-! ## one block -/

/-- the two pixel maps of a block have the block's shape -/
structure BlkShape (b : Blk) : Prop where
  plen : b.pix.length = b.h
  prow : ∀ row ∈ b.pix, row.length = b.w
  dlen : b.deliv.length = b.h
  drow : ∀ row ∈ b.deliv, row.length = b.w

theorem BlkShape_mk (r0 c0 h w : Nat) : BlkShape (mkBlk r0 c0 h w) := by
  refine ⟨by simp [mkBlk], ?_, by simp [mkBlk], ?_⟩ <;>
  · intro row hrow
    simp only [mkBlk] at hrow
    rw [List.eq_of_mem_replicate hrow]
    simp [mkBlk]

theorem BlkShape_write (spp : Nat) (inMem : Bool) (b : Blk) (a n c m : Nat) (h : BlkShape b) :
    BlkShape (b.write spp inMem a n c m) := by
  unfold Blk.write
  simp only
  split
  · exact h
  · refine ⟨by simp [markRows_length, h.plen], markRows_rows _ _ _ _ _ _ h.prow, ?_, ?_⟩
    · cases inMem <;> simp [markRows_length, h.dlen]
    · cases inMem
      · exact markRows_rows _ _ _ _ _ _ h.drow
      · exact h.drow

theorem BlkShape_hand (b : Blk) (h : BlkShape b) : BlkShape { b with deliv := b.pix } :=
  ⟨h.plen, h.prow, h.plen, h.prow⟩

/-- **per-block accounting**: when the counter equals the number of written pixels (times samples per pixel), the
    block claims to be fully written exactly when every one of its pixels has been written -/
theorem blk_claims_iff (spp : Nat) (b : Blk) (hs : 0 < spp) (hsh : BlkShape b) (hc : b.count = cnt2 b.pix * spp) :
    b.claims spp = b.complete := by
  have hle := cnt2_le b.w b.pix hsh.prow
  have hiff := cnt2_eq_iff b.w b.pix hsh.prow
  rw [hsh.plen] at hle hiff
  unfold Blk.claims Blk.complete Blk.expected
  rw [hc]
  by_cases h : cnt2 b.pix = b.h * b.w
  · rw [hiff.1 h, h]; simp
  · have h2 : ¬ (all2 b.pix = true) := fun hh => h (hiff.2 hh)
    have h3 : (cnt2 b.pix * spp == b.h * b.w * spp) = false := by
      rw [beq_eq_false_iff_ne]
      intro e
      exact h (Nat.eq_of_mul_eq_mul_right hs e)
    rw [h3]; simpa using h2

/-- a fresh chunk leaves the counter equal to the number of written pixels -/
theorem count_write (spp : Nat) (inMem : Bool) (b : Blk) (a n c m : Nat) (hc : b.count = cnt2 b.pix * spp)
    (hf : b.freshFor a n c m = true) :
    (b.write spp inMem a n c m).count = cnt2 (b.write spp inMem a n c m).pix * spp := by
  unfold Blk.write
  unfold Blk.freshFor at hf
  simp only at hf ⊢
  split
  · exact hc
  · rename_i hne
    simp only [hne, ↓reduceIte] at hf
    simp only [cnt2_markRows_fresh _ _ _ _ _ hf, hc, Nat.add_mul]

/-- a completely written block is not touched by a chunk that is fresh for it -/
theorem write_complete_noop (spp : Nat) (inMem : Bool) (b : Blk) (a n c m : Nat) (hcomp : b.complete = true)
    (hf : b.freshFor a n c m = true) : b.write spp inMem a n c m = b := by
  unfold Blk.write
  unfold Blk.freshFor at hf
  simp only at hf ⊢
  split
  · rfl
  · rename_i hne
    simp only [hne, ↓reduceIte] at hf
    have hr : (overlap a n b.r0 b.h).2 ≠ 0 := fun e => hne (Or.inl e)
    have hcc : (overlap c m b.c0 b.w).2 ≠ 0 := fun e => hne (Or.inr e)
    obtain ⟨n', hn'⟩ : ∃ k, (overlap a n b.r0 b.h).2 = k + 1 := ⟨_, (Nat.succ_pred_eq_of_ne_zero hr).symm⟩
    obtain ⟨m', hm'⟩ : ∃ k, (overlap c m b.c0 b.w).2 = k + 1 := ⟨_, (Nat.succ_pred_eq_of_ne_zero hcc).symm⟩
    rw [hn', hm', not_fresh_of_full2 _ _ _ _ _ hcomp] at hf
    cases hf

/-- a real-file target: what is in the target follows the written pixels chunk by chunk -/
theorem deliv_write_real (spp : Nat) (b : Blk) (a n c m : Nat) (h : b.deliv = b.pix) :
    (b.write spp false a n c m).deliv = (b.write spp false a n c m).pix := by
  unfold Blk.write
  simp only
  split
  · exact h
  · simp [h]

/-! ## life cycle of the blocked writer, for every fully-written test -/

section Life
variable (claimF : BSeg → Bool)

theorem wbclose_idem (s : WBState) : wbclose (wbclose s) = wbclose s := by
  unfold wbclose
  by_cases h : s.closed = true <;> simp [h]

theorem wbclose_gone (s : WBState) : (wbclose s).gone = s.gone := by
  unfold wbclose; split <;> rfl

/-- **close is idempotent** -/
theorem wb_close_idempotent (s : WBState) :
    wbstepWith claimF (wbstepWith claimF s .close).1 .close =
      ((wbstepWith claimF s .close).1, (wbstepWith claimF s .close).2) := by
  unfold wbstepWith
  by_cases hg : s.gone = true
  · simp [hg]
  · simp [hg, wbclose_gone, wbclose_idem]

/-- **context exit performs close** -/
theorem wb_exit_is_close (s : WBState) :
    wbstepWith claimF s .exit = wbstepWith claimF s .close ∧
    wbstepWith claimF s .exitErr = wbstepWith claimF s .close := by
  unfold wbstepWith; split <;> simp

theorem wb_del_is_close (s : WBState) (hg : s.gone = false) :
    (wbstepWith claimF s .del).1 = { (wbstepWith claimF s .close).1 with gone := true } := by
  simp [wbstepWith, hg]

theorem wb_closed_after_close (s : WBState) (hg : s.gone = false) :
    (wbstepWith claimF s .close).1.closed = true := by
  simp only [wbstepWith, hg, Bool.false_eq_true, ↓reduceIte]
  unfold wbclose; split <;> simp_all

/-- **after close, write and flush raise and leave segments, delivered pixels and the file unchanged** -/
theorem wb_use_after_close (s : WBState) (hc : s.closed = true) (hg : s.gone = false) :
    (∀ i a n c m, wbstepWith claimF s (.write i a n c m) = (s, .refused)) ∧
    wbstepWith claimF s .flush = (s, .refused) := by
  simp [wbstepWith, hc, hg]

theorem wbstep_closed (s : WBState) (op : WBOp) (hc : s.closed = true) :
    (wbstepWith claimF s op).1 = s ∨ (wbstepWith claimF s op).1 = { s with gone := true } := by
  unfold wbstepWith
  by_cases hg : s.gone = true
  · simp [hg]
  · cases op <;> simp [hg, wbclose, hc]

def isUseB : WBOp → Bool
  | .write _ _ _ _ _ => true
  | .flush => true
  | _ => false

/-- **use after close, for every history** -/
theorem wb_use_after_close_history (s : WBState) (ops : List WBOp) (hc : s.closed = true) :
    (wbrunWith claimF s ops).segs = s.segs ∧ (wbrunWith claimF s ops).fileOpen = s.fileOpen ∧
    (wbrunWith claimF s ops).closed = true ∧
    ∀ p ∈ List.zip ops (wboutsWith claimF s ops), isUseB p.1 = true → p.2 ≠ .ok := by
  induction ops generalizing s with
  | nil => simp [wbrunWith, wboutsWith, hc]
  | cons op ops ih =>
    have hs := wbstep_closed claimF s op hc
    have h1 : (wbstepWith claimF s op).1.segs = s.segs := by rcases hs with h | h <;> rw [h]
    have h2 : (wbstepWith claimF s op).1.fileOpen = s.fileOpen := by rcases hs with h | h <;> rw [h]
    have h3 : (wbstepWith claimF s op).1.closed = true := by rcases hs with h | h <;> rw [h] <;> exact hc
    have ih' := ih (wbstepWith claimF s op).1 h3
    refine ⟨by simp [wbrunWith, ih'.1, h1], by simp [wbrunWith, ih'.2.1, h2], by simp [wbrunWith, ih'.2.2.1], ?_⟩
    intro p hp hu
    simp only [wboutsWith, List.zip_cons_cons, List.mem_cons] at hp
    rcases hp with rfl | hp
    · simp only
      unfold wbstepWith
      by_cases hg : s.gone = true
      · simp [hg]
      · cases op <;> simp [isUseB] at hu <;> simp [hg, hc]
    · exact ih'.2.2.2 p hp hu

/-- fields no operation changes -/
theorem wbstep_static (s : WBState) (op : WBOp) :
    (wbstepWith claimF s op).1.owns = s.owns ∧ (wbstepWith claimF s op).1.inMem = s.inMem ∧
    (wbstepWith claimF s op).1.clobbered = s.clobbered ∧ (wbstepWith claimF s op).1.shapes = s.shapes := by
  unfold wbstepWith
  by_cases hg : s.gone = true
  · simp [hg]
  · cases op <;> simp only [hg, Bool.false_eq_true, ↓reduceIte]
    · split
      · simp
      · split
        · simp
        · split <;> simp
    · split <;> simp
    all_goals (unfold wbclose; split <;> simp)

theorem wbstep_fileOpen_caller (s : WBState) (op : WBOp) (h : s.owns = false) :
    (wbstepWith claimF s op).1.fileOpen = s.fileOpen := by
  unfold wbstepWith
  by_cases hg : s.gone = true
  · simp [hg]
  · cases op <;> simp only [hg, Bool.false_eq_true, ↓reduceIte]
    · split
      · rfl
      · split
        · rfl
        · split <;> rfl
    · split <;> rfl
    all_goals (unfold wbclose; split <;> simp [h])

/-- **a caller-supplied file object is never closed**, for every history from every state -/
theorem wb_caller_file_never_closed (s : WBState) (ops : List WBOp) (h : s.owns = false) :
    (wbrunWith claimF s ops).fileOpen = s.fileOpen := by
  induction ops generalizing s with
  | nil => rfl
  | cons op ops ih =>
    simp only [wbrunWith]
    rw [ih _ (by rw [(wbstep_static claimF s op).1]; exact h), wbstep_fileOpen_caller claimF s op h]

/-- invariant of every reachable state: shapes of the pixel maps; a closed writer has closed the file it opened and
    has handed every image segment to the target -/
structure WBInv (s : WBState) : Prop where
  shape : ∀ g ∈ s.segs, ∀ b ∈ g.blocks, BlkShape b
  closedOK : s.closed = true → ((s.owns = true → s.fileOpen = false) ∧ ∀ g ∈ s.segs, g.handed = true)

theorem hand_handedB (g : BSeg) : g.hand.handed = true := by
  unfold BSeg.hand; split <;> simp_all

theorem hand_shape (g : BSeg) (h : ∀ b ∈ g.blocks, BlkShape b) : ∀ b ∈ g.hand.blocks, BlkShape b := by
  unfold BSeg.hand
  split
  · exact h
  · intro b hb
    simp only [List.mem_map] at hb
    obtain ⟨b0, hb0, rfl⟩ := hb
    exact BlkShape_hand b0 (h b0 hb0)

theorem write_shape (inMem : Bool) (g : BSeg) (a n c m : Nat) (h : ∀ b ∈ g.blocks, BlkShape b) :
    ∀ b ∈ (g.write inMem a n c m).blocks, BlkShape b := by
  intro b hb
  simp only [BSeg.write, List.mem_map] at hb
  obtain ⟨b0, hb0, rfl⟩ := hb
  exact BlkShape_write _ _ b0 _ _ _ _ (h b0 hb0)

theorem WBInv_wbclose (s : WBState) (h : WBInv s) : WBInv (wbclose s) := by
  unfold wbclose
  by_cases hc : s.closed = true
  · simpa [hc] using h
  · simp only [hc, Bool.false_eq_true, ↓reduceIte]
    refine ⟨?_, ?_⟩
    · intro g hg
      simp only [List.mem_map] at hg
      obtain ⟨g0, hg0, rfl⟩ := hg
      exact hand_shape g0 (h.shape g0 hg0)
    · intro _
      refine ⟨by intro ho; have ho' : s.owns = true := ho; simp [ho'], ?_⟩
      intro g hg
      simp only [List.mem_map] at hg
      obtain ⟨g0, _, rfl⟩ := hg
      exact hand_handedB g0

theorem WBInv_step (s : WBState) (op : WBOp) (h : WBInv s) : WBInv (wbstepWith claimF s op).1 := by
  unfold wbstepWith
  by_cases hg : s.gone = true
  · simpa [hg] using h
  · cases op <;> simp only [hg, Bool.false_eq_true, ↓reduceIte]
    · by_cases hc : s.closed = true
      · simpa [hc] using h
      · simp only [hc, Bool.false_eq_true, ↓reduceIte]
        split
        · exact h
        · split
          · refine ⟨?_, by intro hc'; simp_all⟩
            intro g hgm
            simp only [writeSegs, List.mem_map] at hgm
            obtain ⟨g0, hg0, rfl⟩ := hgm
            split
            · exact write_shape _ g0 _ _ _ _ (h.shape g0 hg0)
            · exact h.shape g0 hg0
          · exact h
    · by_cases hc : s.closed = true
      · simpa [hc] using h
      · simp only [hc, Bool.false_eq_true, ↓reduceIte]
        refine ⟨?_, by intro hc'; simp_all⟩
        intro g hgm
        simp only [flushSegsWith, List.mem_map] at hgm
        obtain ⟨g0, hg0, rfl⟩ := hgm
        split
        · exact hand_shape g0 (h.shape g0 hg0)
        · exact h.shape g0 hg0
    · exact WBInv_wbclose s h
    · exact WBInv_wbclose s h
    · exact WBInv_wbclose s h
    · have := WBInv_wbclose s h
      exact ⟨this.shape, this.closedOK⟩

theorem WBInv_run (s : WBState) (ops : List WBOp) (h : WBInv s) : WBInv (wbrunWith claimF s ops) := by
  induction ops generalizing s with
  | nil => exact h
  | cons op ops ih => exact ih _ (WBInv_step claimF s op h)

theorem wbinit_cases (c : WBCfg) (s : WBState) (h : wbinit c = some s) :
    s.closed = false ∧ s.gone = false ∧ s.fileOpen = true ∧ s.shapes = c.shapes ∧
    ∃ real, s.segs = c.segs.map (mkBSeg real) ∧ real = !s.inMem := by
  unfold wbinit at h
  split at h
  · split at h
    · cases h
    · cases h; exact ⟨rfl, rfl, rfl, rfl, true, rfl, rfl⟩
  · cases h; exact ⟨rfl, rfl, rfl, rfl, false, rfl, rfl⟩
  · cases h; exact ⟨rfl, rfl, rfl, rfl, true, rfl, rfl⟩

theorem WBInv_init (c : WBCfg) (s : WBState) (h : wbinit c = some s) : WBInv s := by
  obtain ⟨hc, _, _, _, real, hs, _⟩ := wbinit_cases c s h
  refine ⟨?_, by intro hc'; rw [hc] at hc'; cases hc'⟩
  intro g hg b hb
  rw [hs] at hg
  simp only [List.mem_map] at hg
  obtain ⟨d, _, rfl⟩ := hg
  simp only [mkBSeg, List.mem_map] at hb
  obtain ⟨q, _, rfl⟩ := hb
  exact BlkShape_mk _ _ _ _

/-- **files the writer opened itself are closed after close** -/
theorem wb_owned_file_closed (c : WBCfg) (s : WBState) (h : wbinit c = some s) (ops : List WBOp)
    (hc : (wbrunWith claimF s ops).closed = true) (ho : (wbrunWith claimF s ops).owns = true) :
    (wbrunWith claimF s ops).fileOpen = false :=
  (((WBInv_run claimF s ops (WBInv_init c s h)).closedOK) hc).1 ho

/-- **a writer closed at any point - complete or not - leaves a container of the full declared size**: every image
    segment has been handed to the target and the target region of every block has the block's declared shape -/
theorem wb_closed_full_size (c : WBCfg) (s : WBState) (h : wbinit c = some s) (ops : List WBOp)
    (hc : (wbrunWith claimF s ops).closed = true) :
    ∀ g ∈ (wbrunWith claimF s ops).segs, g.handed = true ∧
      ∀ b ∈ g.blocks, b.deliv.length = b.h ∧ ∀ row ∈ b.deliv, row.length = b.w := by
  intro g hg
  have inv := WBInv_run claimF s ops (WBInv_init c s h)
  refine ⟨(inv.closedOK hc).2 g hg, ?_⟩
  intro b hb
  exact ⟨(inv.shape g hg b hb).dlen, (inv.shape g hg b hb).drow⟩

/-- **an existing path is refused unless the check is disabled** (and nothing else is refused) -/
theorem wb_existing_path_refused_unless_disabled (c : WBCfg) :
    wbinit c = none ↔ (c.target = .path true ∧ c.check = true) := by
  unfold wbinit
  cases ht : c.target with
  | path ex => cases ex <;> cases hck : c.check <;> simp
  | callerMem => simp
  | callerReal => simp

end Life

/-! ## accounting and hand-over, for histories that write no pixel twice -/

/-- per image segment invariant of rewrite-free histories -/
structure SegInvB (inMem closed : Bool) (g : BSeg) : Prop where
  spp_pos : 0 < g.spp
  shape : ∀ b ∈ g.blocks, BlkShape b
  count_eq : ∀ b ∈ g.blocks, b.count = cnt2 b.pix * g.spp
  deliv_eq : g.handed = true → ∀ b ∈ g.blocks, b.deliv = b.pix
  full : inMem = true → g.handed = true → closed = false → ∀ b ∈ g.blocks, b.complete = true

theorem seg_claims_iff (inMem closed : Bool) (g : BSeg) (h : SegInvB inMem closed g) : g.claims = g.complete := by
  have : ∀ b ∈ g.blocks, b.claims g.spp = b.complete :=
    fun b hb => blk_claims_iff g.spp b h.spp_pos (h.shape b hb) (h.count_eq b hb)
  rw [Bool.eq_iff_iff, claims_iff_all_blocks]
  simp only [BSeg.complete, List.all_eq_true]
  constructor
  · intro hcl b hb; rw [← this b hb]; exact hcl b hb
  · intro hcl b hb; rw [this b hb]; exact hcl b hb

theorem SegInvB_write (inMem : Bool) (g : BSeg) (a n c m : Nat) (h : SegInvB inMem false g)
    (hf : g.blocks.all (fun b => b.freshFor a n c m) = true) : SegInvB inMem false (g.write inMem a n c m) := by
  have hfb : ∀ b ∈ g.blocks, b.freshFor a n c m = true := by simpa using hf
  refine ⟨h.spp_pos, write_shape _ g _ _ _ _ h.shape, ?_, ?_, ?_⟩
  · intro b hb
    simp only [BSeg.write, List.mem_map] at hb
    obtain ⟨b0, hb0, rfl⟩ := hb
    exact count_write g.spp inMem b0 a n c m (h.count_eq b0 hb0) (hfb b0 hb0)
  · intro hh b hb
    have hh' : g.handed = true := hh
    simp only [BSeg.write, List.mem_map] at hb
    obtain ⟨b0, hb0, rfl⟩ := hb
    cases inMem
    · exact deliv_write_real g.spp b0 a n c m (h.deliv_eq hh' b0 hb0)
    · rw [write_complete_noop g.spp true b0 a n c m (h.full rfl hh' rfl b0 hb0) (hfb b0 hb0)]
      exact h.deliv_eq hh' b0 hb0
  · intro hm hh _ b hb
    have hh' : g.handed = true := hh
    simp only [BSeg.write, List.mem_map] at hb
    obtain ⟨b0, hb0, rfl⟩ := hb
    rw [write_complete_noop g.spp inMem b0 a n c m (h.full hm hh' rfl b0 hb0) (hfb b0 hb0)]
    exact h.full hm hh' rfl b0 hb0

theorem hand_blocks_of_not_handed (g : BSeg) (hh : ¬ g.handed = true) :
    g.hand = { g with blocks := g.blocks.map (fun b => { b with deliv := b.pix }), handed := true } := by
  simp [BSeg.hand, hh]

theorem SegInvB_hand (inMem c c' : Bool) (g : BSeg) (h : SegInvB inMem c g)
    (hfull : c' = false → inMem = true → g.handed = false → ∀ b ∈ g.blocks, b.complete = true)
    (hc : c' = false → c = false) : SegInvB inMem c' g.hand := by
  by_cases hh : g.handed = true
  · have e : g.hand = g := by simp [BSeg.hand, hh]
    rw [e]
    exact ⟨h.spp_pos, h.shape, h.count_eq, h.deliv_eq, fun hm hh' hcl => h.full hm hh' (hc hcl)⟩
  · rw [hand_blocks_of_not_handed g hh]
    refine ⟨h.spp_pos, ?_, ?_, ?_, ?_⟩
    · intro b hb
      simp only [List.mem_map] at hb
      obtain ⟨b0, hb0, rfl⟩ := hb
      exact BlkShape_hand b0 (h.shape b0 hb0)
    · intro b hb
      simp only [List.mem_map] at hb
      obtain ⟨b0, hb0, rfl⟩ := hb
      exact h.count_eq b0 hb0
    · intro _ b hb
      simp only [List.mem_map] at hb
      obtain ⟨b0, _, rfl⟩ := hb
      rfl
    · intro hm _ hcl b hb
      simp only [List.mem_map] at hb
      obtain ⟨b0, hb0, rfl⟩ := hb
      exact hfull hcl hm (by simpa using hh) b0 hb0

/-- the accounting invariant of a writer state -/
def AInvB (s : WBState) : Prop := ∀ g ∈ s.segs, SegInvB s.inMem s.closed g

section Accounting
variable (claimF : BSeg → Bool) (hsound : ∀ g, claimF g = true → g.claims = true)
include hsound

omit hsound in
theorem AInvB_wbclose (s : WBState) (h : AInvB s) : AInvB (wbclose s) := by
  unfold wbclose
  by_cases hc : s.closed = true
  · simpa [hc] using h
  · simp only [hc, Bool.false_eq_true, ↓reduceIte]
    intro g hg
    simp only [List.mem_map] at hg
    obtain ⟨g0, hg0, rfl⟩ := hg
    exact SegInvB_hand s.inMem s.closed true g0 (h g0 hg0) (by intro e; cases e) (by intro e; cases e)

theorem AInvB_step (s : WBState) (op : WBOp) (hf : freshOpB s op = true) (h : AInvB s) :
    AInvB (wbstepWith claimF s op).1 := by
  unfold wbstepWith
  by_cases hg : s.gone = true
  · simpa [hg] using h
  · cases op <;> simp only [hg, Bool.false_eq_true, ↓reduceIte]
    · rename_i i a n c m
      by_cases hc : s.closed = true
      · simpa [hc] using h
      · simp only [hc, Bool.false_eq_true, ↓reduceIte]
        have hcf : s.closed = false := by simpa using hc
        have hgf : s.gone = false := by simpa using hg
        cases hi : s.shapes[i]? with
        | none => exact h
        | some sh =>
          simp only
          by_cases hv : chunkValid sh a n c m = true
          · simp only [hv, ↓reduceIte]
            have hfr : s.segs.all (fun g => if g.coll = i then g.blocks.all (fun b => b.freshFor a n c m) else true) = true := by
              simp only [freshOpB, hi] at hf
              simpa [hcf, hgf, hv] using hf
            intro g hgm
            show SegInvB s.inMem false g
            simp only [writeSegs, List.mem_map] at hgm
            obtain ⟨g0, hg0, rfl⟩ := hgm
            have inv0 := h g0 hg0
            rw [hcf] at inv0
            split
            · rename_i hcoll
              have := List.all_eq_true.1 hfr g0 hg0
              simp only [hcoll, ↓reduceIte] at this
              exact SegInvB_write s.inMem g0 a n c m inv0 this
            · exact inv0
          · simp only [hv, Bool.false_eq_true, ↓reduceIte]
            exact h
    · by_cases hc : s.closed = true
      · simpa [hc] using h
      · simp only [hc, Bool.false_eq_true, ↓reduceIte]
        have hcf : s.closed = false := by simpa using hc
        intro g hgm
        show SegInvB s.inMem false g
        simp only [flushSegsWith, List.mem_map] at hgm
        obtain ⟨g0, hg0, rfl⟩ := hgm
        have inv0 := h g0 hg0
        rw [hcf] at inv0
        split
        · rename_i hcl
          refine SegInvB_hand s.inMem false false g0 inv0 ?_ (fun e => e)
          intro _ _ _ b hb
          have hclaims := hsound g0 hcl
          rw [seg_claims_iff s.inMem false g0 inv0] at hclaims
          simp only [BSeg.complete, List.all_eq_true] at hclaims
          exact hclaims b hb
        · exact inv0
    · exact AInvB_wbclose s h
    · exact AInvB_wbclose s h
    · exact AInvB_wbclose s h
    · have := AInvB_wbclose s h
      exact this

theorem AInvB_run (s : WBState) (ops : List WBOp) (hf : freshRunBWith claimF s ops = true) (h : AInvB s) :
    AInvB (wbrunWith claimF s ops) := by
  induction ops generalizing s with
  | nil => exact h
  | cons op ops ih =>
    simp only [freshRunBWith, Bool.and_eq_true] at hf
    exact ih _ hf.2 (AInvB_step claimF hsound s op hf.1 h)

omit hsound in
theorem AInvB_init (c : WBCfg) (s : WBState) (h : wbinit c = some s) (hpos : ∀ d ∈ c.segs, 0 < d.2.1) : AInvB s := by
  obtain ⟨_, _, _, _, real, hs, hreal⟩ := wbinit_cases c s h
  intro g hg
  rw [hs] at hg
  simp only [List.mem_map] at hg
  obtain ⟨d, hd, rfl⟩ := hg
  refine ⟨hpos d hd, ?_, ?_, ?_, ?_⟩
  · intro b hb
    simp only [mkBSeg, List.mem_map] at hb
    obtain ⟨q, _, rfl⟩ := hb
    exact BlkShape_mk _ _ _ _
  · intro b hb
    simp only [mkBSeg, List.mem_map] at hb
    obtain ⟨q, _, rfl⟩ := hb
    simp [mkBlk, cnt2_replicate_false]
  · intro _ b hb
    simp only [mkBSeg, List.mem_map] at hb
    obtain ⟨q, _, rfl⟩ := hb
    rfl
  · intro hm hh _
    simp only [mkBSeg] at hh
    rw [hreal, hm] at hh
    cases hh

variable (c : WBCfg) (s : WBState) (h : wbinit c = some s) (hpos : ∀ d ∈ c.segs, 0 < d.2.1)
  (ops : List WBOp) (hf : freshRunBWith claimF s ops = true)
include h hpos hf

/-- **accounting** (histories that write no pixel twice; any sound fully-written test): at every point of every
    history an image segment claims to be fully written exactly when every pixel of every one of its blocks has been
    written, and so does every single block -/
theorem wb_claims_iff_complete_partial :
    ∀ g ∈ (wbrunWith claimF s ops).segs, g.claims = g.complete ∧ ∀ b ∈ g.blocks, b.claims g.spp = b.complete := by
  intro g hg
  have inv := AInvB_run claimF hsound s ops hf (AInvB_init c s h hpos) g hg
  exact ⟨seg_claims_iff _ _ g inv, fun b hb => blk_claims_iff g.spp b inv.spp_pos (inv.shape b hb) (inv.count_eq b hb)⟩

/-- **a writer closed (or not) before all pixels were written never reports fully-written** (same hypothesis) -/
theorem wb_incomplete_never_claims_written_partial :
    ∀ g ∈ (wbrunWith claimF s ops).segs, g.complete = false → g.claims = false := by
  intro g hg hc
  rw [(wb_claims_iff_complete_partial claimF hsound c s h hpos ops hf g hg).1]; exact hc

/-- **flush hands a segment over only when the conjunction holds**: while the writer is open, an image segment of an
    in-memory target whose bytes have been handed over has every pixel of every block written (same hypothesis) -/
theorem wb_handed_only_when_complete_partial (hm : s.inMem = true) (ho : (wbrunWith claimF s ops).closed = false) :
    ∀ g ∈ (wbrunWith claimF s ops).segs, g.handed = true → g.complete = true := by
  intro g hg hh
  have inv := AInvB_run claimF hsound s ops hf (AInvB_init c s h hpos) g hg
  have hm' : (wbrunWith claimF s ops).inMem = true := by
    have : ∀ (ops : List WBOp) (s : WBState), (wbrunWith claimF s ops).inMem = s.inMem := by
      intro ops
      induction ops with
      | nil => intro s; rfl
      | cons op ops ih => intro s; simp only [wbrunWith]; rw [ih, (wbstep_static claimF s op).2.1]
    rw [this]; exact hm
  have := inv.full hm' hh ho
  simpa [BSeg.complete] using this

/-- **no written pixel is lost**: once the writer is closed, what the target holds of every block is exactly what was
    written into it - every written pixel is there, whatever the order of the chunks and wherever non-forced flushes
    were placed (same hypothesis) -/
theorem wb_no_written_pixel_lost_partial (hc : (wbrunWith claimF s ops).closed = true) :
    ∀ g ∈ (wbrunWith claimF s ops).segs, ∀ b ∈ g.blocks, b.deliv = b.pix := by
  intro g hg
  have inv := AInvB_run claimF hsound s ops hf (AInvB_init c s h hpos) g hg
  have hh := ((WBInv_run claimF s ops (WBInv_init c s h)).closedOK hc).2 g hg
  exact inv.deliv_eq hh

/-- **a caller-supplied file object holds the complete output after close when all pixels were written, and is still
    open** (same hypothesis) -/
theorem wb_caller_file_complete_partial (hc : (wbrunWith claimF s ops).closed = true)
    (hall : ∀ g ∈ (wbrunWith claimF s ops).segs, g.complete = true) :
    (∀ g ∈ (wbrunWith claimF s ops).segs, g.delivered = true) ∧
    (s.owns = false → (wbrunWith claimF s ops).fileOpen = true) := by
  refine ⟨?_, ?_⟩
  · intro g hg
    have hd := wb_no_written_pixel_lost_partial claimF hsound c s h hpos ops hf hc g hg
    have hcmp := hall g hg
    simp only [BSeg.complete, List.all_eq_true] at hcmp
    simp only [BSeg.delivered, List.all_eq_true]
    intro b hb
    unfold Blk.delivered
    rw [hd b hb]
    exact hcmp b hb
  · intro ho
    rw [wb_caller_file_never_closed claimF s ops ho]
    exact (wbinit_cases c s h).2.2.1

end Accounting

/-- what `flush(force)` does to one image segment in the machine is the hand-over decision `shouldHand` of the loop in
    `NITFWriter.flush`: non-forced flush = `force := false`, close = `force := true` -/
theorem hand_iff_shouldHand (g : BSeg) (force claims : Bool) :
    (if (force || claims) = true then g.hand else g) =
      if shouldHand g.handed force claims = true
      then { g with blocks := g.blocks.map (fun b => { b with deliv := b.pix }), handed := true } else g := by
  cases hh : g.handed <;> cases force <;> cases claims <;> simp [BSeg.hand, shouldHand, hh]

/-- the code's test - every block claims - is sound (trivially: it is the reference) -/
theorem claims_sound : ∀ g : BSeg, g.claims = true → g.claims = true := fun _ h => h

/-! ## satisfiable instances and the negation witness -/

/-- a 2 x 4 image in two blocks of 2 x 2 (block 0 left, block 1 right), one sample per pixel, caller's BytesIO -/
def exBCfg : WBCfg := { target := .callerMem, check := true, shapes := [(2, 4)],
                        segs := [(0, 1, [(0, 0, 2, 2), (0, 2, 2, 2)])] }
def exWB : WBState := (wbinit exBCfg).getD default

/-- the last block first, a non-forced flush, then the rest, a flush, close -/
def exHist : List WBOp := [.write 0 0 2 2 2, .flush, .write 0 0 2 0 2, .flush, .close, .close]

example : wbinit exBCfg = some exWB := by decide
example : ∀ d ∈ exBCfg.segs, 0 < d.2.1 := by decide
example : freshRunB exWB exHist = true := by decide
/-- with the conjunction the early flush hands nothing over; at the end everything is delivered, the file is open -/
example : (wbrun exWB [.write 0 0 2 2 2, .flush]).segs.all (fun g => !g.handed && !g.claims) = true := by decide
example : let s := wbrun exWB exHist
    s.closed = true ∧ s.fileOpen = true ∧ s.segs.all BSeg.delivered = true ∧ s.segs.all BSeg.claims = true := by decide
/-- incomplete: closed, handed, nothing claims, the written block is in the target -/
example : let s := wbrun exWB [.write 0 0 2 2 2, .flush, .exit, .write 0 0 2 0 2]
    s.closed = true ∧ s.segs.all (fun g => g.handed && !g.claims && !g.complete) = true ∧
    wbouts exWB [.write 0 0 2 2 2, .flush, .exit, .write 0 0 2 0 2] = [.ok, .ok, .ok, .refused] := by decide
/-- a chunk across both blocks (row 1, columns 1..2) reaches both counters -/
example : ((wbrun exWB [.write 0 1 1 1 2]).segs.map (fun g => g.blocks.map Blk.count)) = [[1, 1]] := by decide

/-- **the last-block-only test is not sound**: a segment whose last block is complete and whose first is empty -/
theorem lastOnly_is_unsound : ¬ (∀ g : BSeg, g.claimsLast = true → g.claims = true) := by
  intro h
  have := h (wbrun exWB [.write 0 0 2 2 2]).segs[0]! (by decide)
  revert this
  decide

/-- **negation witness** for the hand-over clause with the last-block-only test (`out = done` in place of
    `out &= done`): the rewrite-free, complete history `exHist` - last block first, a non-forced flush, then the rest -
    ends closed with every pixel written, yet block 0 never reaches the caller's file object; and the writer that stops
    after the last block claims to be fully written although it is not -/
theorem lastOnly_loses_rows :
    freshRunBWith BSeg.claimsLast exWB exHist = true ∧
    (let s := wbrunWith BSeg.claimsLast exWB exHist
     s.closed = true ∧ s.segs.all BSeg.complete = true ∧ s.segs.all BSeg.delivered = false) ∧
    (let s := wbrunWith BSeg.claimsLast exWB [.write 0 0 2 2 2, .close]
     s.segs.all (fun g => g.claimsLast && !g.complete) = true) := by decide

end Sarpy.Props.C19
