/-
  C02 (a SICD written by sarpy reads back), the step between "file layout / row routing" (Props/C02.lean, C03) and "pixel codecs"
  (Props/C08.lean): THE READER INTERPRETS THE IMAGE SUBHEADERS THE WRITER PRODUCED AS THE VERY PIXEL ENCODING THE WRITER USED.

  All statements are about the reference definitions of Spec/Hdr.lean; Bridge/Hdr.lean proves, on every run, that the decision chains
  regenerated from the current sarpy source (writer: SICDWritingDetails._create_image_segments, SICDWriter.get_format_function,
  NITFWriter._check_image_segment_for_compliance; reader: _get_dtype and its closures, _get_format_function, NITFReader / SICDReader
  ._check_image_segment_for_compliance, SICDReader.get_format_function) ARE these definitions.

  What is finite is decided in the kernel over the WHOLE table (3 pixel types, 3 x 3 cross table) and lifted to every segment size
  and every IID1 by congruence lemmas (`sicdRead_congr`, ...: the interpretation reads PVTYPE, NBPP, IC, IMODE, Bands and the mask flag
  only).  What is not finite is proved in general: band lists of any length (`complexOrder_iff`), metadata pixel types that are
  arbitrary strings (`sicd_compliance_diagonal`), segment sizes (`writer_blocks`), sample lists and byte strings of any length
  (`sicd_roundtrip`, `bytes_roundtrip`), amplitude tables (any strictly increasing table of 256 entries).
-/
import SarpyModel.Props.HdrCommon
import SarpyModel.Bridge.HdrSicd
import SarpyModel.Props.C08
namespace Sarpy.Props.C02
open Sarpy.Spec.Hdr Sarpy.Spec.Codec Sarpy.Props.Hdr

/-! ### 0. the interpretation reads six fields only (Props/HdrCommon.lean) -/

theorem sicdReaderCompliance_congr {h h' : ImgHdr} (e : enc h = enc h') (p : Bool) (pt : String) :
    sicdReaderCompliance h p pt = sicdReaderCompliance h' p pt := by
  simp only [sicdReaderCompliance, nitfReaderCompliance_congr e, getDtype_congr e]

/-- a SICD reader treats two image segments alike when they agree on PVTYPE, NBPP, IC, IMODE, Bands (and the mask flag) -/
theorem sicdRead_congr {h h' : ImgHdr} (e : enc h = enc h') (pt : String) (a p : Bool) : sicdRead pt a p h = sicdRead pt a p h' := by
  simp only [sicdRead, sicdReaderCompliance_congr e, interp_congr e]

theorem sicdWrite_congr {h h' : ImgHdr} (e : enc h = enc h') (pt : String) (a p : Bool) : sicdWrite pt a p h = sicdWrite pt a p h' := by
  simp only [sicdWrite, nitfWriterCompliance_congr e, interp_congr e]

/-- the writer's header for a pixel type has the same encoding fields whatever the segment size and the identifier -/
theorem sicdHdr_enc (p : SicdPixel) (rows cols : Nat) (iid1 : String) : enc (sicdHdr p rows cols iid1) = enc (sicdHdr p 0 0 "") := by
  cases p <;> rfl


/-! ### 1. the whole table: what each pixel type MEANS, and that both sides arrive there -/

def f4 : RawDtype := ⟨true, .f, 4⟩
def i2 : RawDtype := ⟨true, .i, 2⟩
def u1 : RawDtype := ⟨true, .u, 1⟩

/-- the encoding a SICD pixel type stands for (SICD Volume 1, ImageData.PixelType; NITF storage per SICD Volume 2), stated
    independently of the writer's and the reader's chains: two stored bands, pixel interleaved, big-endian;
    RE32F_IM32F = float32 (I, Q); RE16I_IM16I = int16 (I, Q); AMP8I_PHS8I = uint8 (amplitude index, phase) through the AmpTable -/
def intended : SicdPixel → Interp
  | .RE32F_IM32F => ⟨some f4, 2, 2, .complex (some f4) "IQ" 2, .complex64, 1⟩
  | .RE16I_IM16I => ⟨some i2, 2, 2, .complex (some i2) "IQ" 2, .complex64, 1⟩
  | .AMP8I_PHS8I => ⟨some u1, 2, 2, .ampLookup (some u1), .complex64, 1⟩

/-- **(1, reader)** for every pixel type and every segment size: the reader accepts the writer's header (both compliance checks)
    and attaches exactly the intended raw dtype, byte order, band count, band axis, complex order and codec.  (PIL present or not.) -/
theorem sicd_reader_selects (p : SicdPixel) (rows cols : Nat) (iid1 : String) (pil : Bool) :
    sicdRead p.name false pil (sicdHdr p rows cols iid1) = .reads (intended p) := by
  rw [sicdRead_congr (sicdHdr_enc p rows cols iid1)]
  cases p <;> cases pil <;> decide

/-- **(1, writer)** the writer, building its own data segments from the header it made, encodes with the intended codec -/
theorem sicd_writer_selects (p : SicdPixel) (rows cols : Nat) (iid1 : String) (pil : Bool) :
    sicdWrite p.name false pil (sicdHdr p rows cols iid1) = .reads (intended p) := by
  rw [sicdWrite_congr (sicdHdr_enc p rows cols iid1)]
  cases p <;> cases pil <;> decide

/-- reader and writer agree on every pixel type -/
theorem sicd_reader_eq_writer (p : SicdPixel) (rows cols : Nat) (iid1 : String) (pil : Bool) :
    sicdRead p.name false pil (sicdHdr p rows cols iid1) = sicdWrite p.name false pil (sicdHdr p rows cols iid1) := by
  rw [sicd_reader_selects, sicd_writer_selects]

/-- the same for the code as regenerated from the source: header made by the regenerated writer chain, judged by the regenerated
    compliance chain, dtype by the regenerated `_get_dtype`, codec by the regenerated `SICDReader.get_format_function` -/
theorem gen_sicd_reader_selects (p : SicdPixel) (rows cols : Nat) (iid1 : String) (pil : Bool) :
    ∃ h, Gen.HdrSicd.sicd_writer_hdr p.name rows cols iid1 = .ok h ∧
      Gen.HdrSicd.sicd_reader_compliance h pil p.name = .ok true ∧
      ∃ d, Gen.Hdr.get_dtype h = .ok d ∧ d.1 = (intended p).raw ∧ d.2.1 = (intended p).fmtDtype ∧ d.2.2.1 = (intended p).fmtBands ∧
        Gen.HdrSicd.sicd_reader_format_function d.1 d.2.2.2.1 d.2.2.2.2 2 p.name false = .ok (intended p).fmt ∧
        Gen.HdrSicd.sicd_writer_format_function d.1 d.2.2.2.1 d.2.2.2.2 2 p.name false = .ok (intended p).fmt := by
  refine ⟨sicdHdr p rows cols iid1, ?_, ?_, ?_⟩
  · rw [Bridge.HdrSicd.gen_sicd_writer_hdr]; cases p <;> rfl
  · rw [Bridge.HdrSicd.gen_sicd_reader_compliance, sicdReaderCompliance_congr (sicdHdr_enc p rows cols iid1)]
    cases p <;> cases pil <;> decide
  · simp only [Bridge.Hdr.gen_get_dtype, Bridge.HdrSicd.gen_sicd_reader_format_function, Bridge.HdrSicd.gen_sicd_writer_format_function,
      getDtype_congr (sicdHdr_enc p rows cols iid1)]
    cases p
    · exact ⟨(some f4, .complex64, 1, some "IQ", none), by decide, by decide, by decide, by decide, by decide, by decide⟩
    · exact ⟨(some i2, .complex64, 1, some "IQ", none), by decide, by decide, by decide, by decide, by decide, by decide⟩
    · exact ⟨(some u1, .complex64, 1, some "MP", none), by decide, by decide, by decide, by decide, by decide, by decide⟩

/-- AMP8I_PHS8I metadata WITHOUT an amplitude table: both sides refuse (the standard makes the table optional; sarpy does not
    read or write such a product - stated, not hidden) -/
theorem sicd_amp_without_table (rows cols : Nat) (iid1 : String) (pil : Bool) :
    sicdRead "AMP8I_PHS8I" true pil (sicdHdr .AMP8I_PHS8I rows cols iid1) = .refused "ValueError" ∧
    sicdWrite "AMP8I_PHS8I" true pil (sicdHdr .AMP8I_PHS8I rows cols iid1) = .refused "ValueError" := by
  rw [sicdRead_congr (sicdHdr_enc _ rows cols iid1), sicdWrite_congr (sicdHdr_enc _ rows cols iid1)]
  cases pil <;> decide

/-! ### 3. injectivity -/

theorem intended_injective : ∀ p q : SicdPixel, intended p = intended q → p = q := by
  intro p q; cases p <;> cases q <;> decide

/-- **(3)** two different pixel types never produce headers whose raw interpretation (dtype, formatted dtype, bands, order, lut)
    coincides - whatever the metadata says -/
theorem sicd_dtype_injective (p q : SicdPixel) (rows cols rows' cols' : Nat) (iid1 iid1' : String)
    (h : getDtype (sicdHdr p rows cols iid1) = getDtype (sicdHdr q rows' cols' iid1')) : p = q := by
  rw [getDtype_congr (sicdHdr_enc p rows cols iid1), getDtype_congr (sicdHdr_enc q rows' cols' iid1')] at h
  revert h
  cases p <;> cases q <;> decide

/-- ... and never headers the reader interprets alike -/
theorem sicd_read_injective (p q : SicdPixel) (rows cols rows' cols' : Nat) (iid1 iid1' : String) (pil : Bool)
    (h : sicdRead p.name false pil (sicdHdr p rows cols iid1) = sicdRead q.name false pil (sicdHdr q rows' cols' iid1')) : p = q := by
  rw [sicd_reader_selects, sicd_reader_selects] at h
  exact intended_injective p q (by injection h)

/-! ### 4. the cross table of the compliance check -/

/-- **(4)** the SICD reader's compliance check on the writer's header for `p`, with `q` in the metadata: accepted iff `p = q` -/
theorem sicd_compliance_cross (p q : SicdPixel) (rows cols : Nat) (iid1 : String) (pil : Bool) :
    sicdReaderCompliance (sicdHdr p rows cols iid1) pil q.name = .ok (decide (p = q)) := by
  rw [sicdReaderCompliance_congr (sicdHdr_enc p rows cols iid1)]
  cases p <;> cases q <;> cases pil <;> decide

theorem ofName_name (p : SicdPixel) : SicdPixel.ofName p.name = some p := by cases p <;> rfl

theorem ofName_eq_some (s : String) (p : SicdPixel) (h : SicdPixel.ofName s = some p) : s = p.name := by
  unfold SicdPixel.ofName at h
  split_ifs at h with h1 h2 h3 <;> simp only [Option.some.injEq, reduceCtorEq] at h <;> subst h <;> assumption

/-- for ANY string as the metadata's pixel type: the writer's header for `p` is accepted exactly when the string is the name of `p`
    (a string outside the enumeration makes the check raise) -/
theorem sicd_compliance_diagonal (p : SicdPixel) (s : String) (rows cols : Nat) (iid1 : String) (pil : Bool) :
    sicdReaderCompliance (sicdHdr p rows cols iid1) pil s = .ok true ↔ s = p.name := by
  constructor
  · intro h
    cases hq : SicdPixel.ofName s with
    | some q =>
      have hs := ofName_eq_some s q hq
      rw [hs, sicd_compliance_cross] at h
      have : p = q := by simpa using h
      rw [hs, this]
    | none =>
      exfalso
      rw [sicdReaderCompliance_congr (sicdHdr_enc p rows cols iid1)] at h
      have hn : sicdRequires s = none := by
        unfold SicdPixel.ofName at hq
        unfold sicdRequires
        split_ifs at hq ⊢ with h1 h2 h3
        rfl
      have : ∀ (p : SicdPixel) (pil : Bool), nitfReaderCompliance (sicdHdr p 0 0 "") pil = true ∧
          ∃ raw fd lut o nm, getDtype (sicdHdr p 0 0 "") = .ok (raw, fd, 1, some o, lut) ∧ o ∈ ["IQ", "MP"] ∧ dtypeName raw = .ok nm := by
        intro p pil
        cases p <;> cases pil <;> exact ⟨by decide, _, _, _, _, _, by rfl, by decide, by rfl⟩
      obtain ⟨h1, raw, fd, lut, o, nm, h2, h3, h4⟩ := this p pil
      simp [sicdReaderCompliance, h1, h2, h3, h4, hn] at h
  · rintro rfl
    rw [sicd_compliance_cross]; simp

/-- a mislabelled file (header of `p`, metadata says `q ≠ p`) is never read as `q`: the segment is skipped -/
theorem sicd_mislabelled_skipped (p q : SicdPixel) (hpq : p ≠ q) (rows cols : Nat) (iid1 : String) (amp pil : Bool) :
    sicdRead q.name amp pil (sicdHdr p rows cols iid1) = .skipped := by
  simp [sicdRead, sicd_compliance_cross, hpq]

/-- the header fields the theorem speaks about are the ones the writer sets -/
theorem sicdHdr_blocks (p : SicdPixel) (rows cols : Nat) (iid1 : String) :
    let h := sicdHdr p rows cols iid1
    h.nrows = rows ∧ h.ncols = cols ∧ h.nppbv = nppb rows ∧ h.nppbh = nppb cols ∧ h.nbpr = 1 ∧ h.nbpc = 1 := by
  cases p <;> exact ⟨rfl, rfl, rfl, rfl, rfl, rfl⟩

open Sarpy.Spec.L in
/-- **(5)** the block fields of every SICD segment header describe one block covering the segment: the reader's two validity checks
    pass and its block-bound construction returns the single block `[0, rows) x [0, cols)` - for the reference definition and for
    `_construct_block_bounds` as regenerated from the source -/
theorem sicd_writer_blocks (p : SicdPixel) (rows cols : Nat) (iid1 : String) (hr : 1 ≤ rows) (hc : 1 ≤ cols) :
    blockBounds (sicdHdr p rows cols iid1).nrows (sicdHdr p rows cols iid1).ncols (sicdHdr p rows cols iid1).nppbv (sicdHdr p rows cols iid1).nppbh
        (sicdHdr p rows cols iid1).nbpr (sicdHdr p rows cols iid1).nbpc = some [((0 : Int), (rows : Int), (0 : Int), (cols : Int))] ∧
    Gen.L.construct_block_bounds (sicdHdr p rows cols iid1).nrows (sicdHdr p rows cols iid1).ncols (sicdHdr p rows cols iid1).nppbv
        (sicdHdr p rows cols iid1).nppbh (sicdHdr p rows cols iid1).nbpr (sicdHdr p rows cols iid1).nbpc =
      .ok [((0 : Int), (rows : Int), (0 : Int), (cols : Int))] := by
  obtain ⟨e1, e2, e3, e4, e5, e6⟩ := sicdHdr_blocks p rows cols iid1
  rw [e1, e2, e3, e4, e5, e6]
  exact ⟨writer_blocks rows cols hr hc, gen_writer_blocks rows cols hr hc⟩

/-! ### 7. composition with the pixel codecs of C08: decode_reader (hdr_writer pt) (encode_writer pt x) = x -/

open Sarpy.Props.C08

/-- two's-complement wrap of an integer into `bits` bits: what the cast into a signed raw dtype keeps -/
def wrapSigned (bits : Nat) (n : ℤ) : ℤ := (n + 2 ^ (bits - 1)) % 2 ^ bits - 2 ^ (bits - 1)

theorem wrapSigned_of_range (bits : Nat) (hb : 1 ≤ bits) (n : ℤ) (h0 : -(2 : ℤ) ^ (bits - 1) ≤ n) (h1 : n < (2 : ℤ) ^ (bits - 1)) :
    wrapSigned bits n = n := by
  unfold wrapSigned
  have hp : (2 : ℤ) ^ bits = 2 * 2 ^ (bits - 1) := by
    have : bits = (bits - 1) + 1 := by omega
    rw [this, pow_succ]; simp; ring
  rw [Int.emod_eq_of_lt (by linarith) (by linarith)]
  ring

/-- how a component of a complex sample is stored in a raw dtype: floats as they are, signed integers by truncation toward zero
    (the cast of `ComplexFormatFunction._reverse_functional_step`, C08 `truncZ`) wrapped to the item size -/
noncomputable def castRaw (d : RawDtype) (x : ℝ) : ℝ :=
  match d.kind with
  | .f => x
  | _ => (wrapSigned (8 * d.size) (truncZ x) : ℝ)

/-- the writer's side of a codec: complex samples -> stored numbers of the band-interleaved pixel vector -/
noncomputable def encodeWith (f : FmtFn) (T : List ℝ) (zs : List (ℝ × ℝ)) : Option (List ℝ) :=
  match f with
  | .complex (some d) o _ =>
    if o = "IQ" then some (interleave (zs.map (fun z => (castRaw d z.1, castRaw d z.2))))
    else if o = "QI" then some (interleave (zs.map (fun z => (castRaw d z.2, castRaw d z.1))))
    else none
  | .ampLookup _ => some (interleave (zs.map (fun z => ((nearestR T (mag z.1 z.2) : ℝ), ((Pq rhe 8 z.1 z.2 : ℤ) : ℝ)))))
  | _ => none

/-- the reader's side -/
noncomputable def decodeWith (f : FmtFn) (T : List ℝ) (raw : List ℝ) : Option (List (ℝ × ℝ)) :=
  match f with
  | .complex _ o _ =>
    if o = "IQ" then some (deinterleave raw)
    else if o = "QI" then some ((deinterleave raw).map (fun p => (p.2, p.1)))
    else none
  | .ampLookup _ => some ((deinterleave raw).map (fun p => decodeMP realOps 8 (T.getD ⌊p.1⌋₊ 0) p.2))
  | _ => none

/-- representable values of a pixel type (as C08 states them): any float32 pair; any pair of integers of the int16 range; any
    amplitude-table entry of non-zero magnitude with any of the 256 phases -/
def Representable (p : SicdPixel) (T : List ℝ) (z : ℝ × ℝ) : Prop :=
  match p with
  | .RE32F_IM32F => True
  | .RE16I_IM16I => ∃ i q : ℤ, z = ((i : ℝ), (q : ℝ)) ∧ -(2 : ℤ) ^ 15 ≤ i ∧ i < 2 ^ 15 ∧ -(2 : ℤ) ^ 15 ≤ q ∧ q < 2 ^ 15
  | .AMP8I_PHS8I => ∃ m ph : ℕ, m < 256 ∧ ph < 256 ∧ 0 < T.getD m 0 ∧ z = decodeMP realOps 8 (T.getD m 0) (ph : ℝ)

theorem amp_point (T : List ℝ) (hT : T.Pairwise (· < ·)) (hl : T.length = 256) (m ph : ℕ) (hm : m < 256) (hp : ph < 256) (hpos : 0 < T.getD m 0) :
    let z := decodeMP realOps 8 (T.getD m 0) (ph : ℝ)
    decodeMP realOps 8 (T.getD ⌊(nearestR T (mag z.1 z.2) : ℝ)⌋₊ 0) ((Pq rhe 8 z.1 z.2 : ℤ) : ℝ) = z := by
  intro z
  have hml : m < T.length := by omega
  have henc := encodeMP_decodeMP 8 (T.getD m 0) (ph : ℝ) hpos (by positivity) (by
    have : ((2 ^ 8 : ℕ) : ℝ) = 256 := by norm_num
    rw [this]; exact_mod_cast hp)
  rw [encodeMP_eq] at henc
  have hmag : mag z.1 z.2 = T.getD m 0 := congrArg Prod.fst henc
  have hts : tScaled 8 z.1 z.2 = (ph : ℝ) := congrArg Prod.snd henc
  have hidx : nearestR T (mag z.1 z.2) = m := by
    rw [hmag, getD_eq T m hml]
    exact nearestIndex_exact T hT (by omega) m hml
  have hph : Pq rhe 8 z.1 z.2 = (ph : ℤ) := by
    unfold Pq
    rw [hts, isNearest_rhe.natCast]
    have : (((2 ^ 8 : ℕ) : ℕ) : ℤ) = 256 := by norm_num
    rw [this]
    exact Int.emod_eq_of_lt (by positivity) (by exact_mod_cast hp)
  rw [hidx, hph, Nat.floor_natCast, Int.cast_natCast]

/-- **(1, end to end)** for every SICD pixel type, every segment size, every list of representable samples (any length), and - for
    AMP8I_PHS8I - every strictly increasing amplitude table of 256 entries: the codec the WRITER attaches to the header it made
    encodes, the codec the READER attaches to that header decodes, and the decoded samples are the written ones, exactly. -/
theorem sicd_roundtrip (p : SicdPixel) (rows cols : Nat) (iid1 : String) (pil : Bool) (T : List ℝ)
    (hT : p = .AMP8I_PHS8I → T.Pairwise (· < ·) ∧ T.length = 256)
    (zs : List (ℝ × ℝ)) (hz : ∀ z ∈ zs, Representable p T z) :
    ∃ iw ir, sicdWrite p.name false pil (sicdHdr p rows cols iid1) = .reads iw ∧
      sicdRead p.name false pil (sicdHdr p rows cols iid1) = .reads ir ∧
      (encodeWith iw.fmt T zs).bind (decodeWith ir.fmt T) = some zs := by
  refine ⟨intended p, intended p, sicd_writer_selects p rows cols iid1 pil, sicd_reader_selects p rows cols iid1 pil, ?_⟩
  cases p with
  | RE32F_IM32F =>
    simp only [intended, encodeWith, decodeWith, if_true, Option.bind_some, f4, castRaw]
    rw [deinterleave_interleave]
    simp
  | RE16I_IM16I =>
    simp only [intended, encodeWith, decodeWith, if_true, Option.bind_some, i2, castRaw]
    rw [deinterleave_interleave]
    congr 1
    conv_rhs => rw [← List.map_id zs]
    apply List.map_congr_left
    intro z hzm
    obtain ⟨i, q, rfl, hi0, hi1, hq0, hq1⟩ := hz z hzm
    simp only [truncZ_intCast, id]
    rw [wrapSigned_of_range 16 (by norm_num) i (by simpa using hi0) (by simpa using hi1),
      wrapSigned_of_range 16 (by norm_num) q (by simpa using hq0) (by simpa using hq1)]
  | AMP8I_PHS8I =>
    obtain ⟨hTs, hTl⟩ := hT rfl
    simp only [intended, encodeWith, decodeWith, Option.bind_some]
    rw [deinterleave_interleave]
    congr 1
    exact map_roundtrip _ _ zs (fun z hzm => by
      obtain ⟨m, ph, hm, hp, hpos, rfl⟩ := hz z hzm
      exact amp_point T hTs hTl m ph hm hp hpos)

/-- the hypotheses of `sicd_roundtrip` are satisfiable: an int16 sample; a 256-entry table is strictly increasing -/
example : Representable .RE16I_IM16I [] ((-32768 : ℤ), (32767 : ℤ)) := ⟨-32768, 32767, by norm_num, by norm_num, by norm_num, by norm_num, by norm_num⟩
example : ((List.range 256).map (fun (k : ℕ) => (k : ℝ) + 1)).Pairwise (· < ·) ∧ ((List.range 256).map (fun (k : ℕ) => (k : ℝ) + 1)).length = 256 :=
  ⟨List.Pairwise.map _ (fun a b h => by simpa using h) List.pairwise_lt_range, by rw [List.length_map, List.length_range]⟩

/-- a reader that took the pair in the other order would NOT return the written samples: the order is part of the codec -/
example : (encodeWith (.complex (some f4) "IQ" 2) [] [(1, 2)]).bind (decodeWith (.complex (some f4) "QI" 2) []) = some [(2, 1)] := by
  have h1 : encodeWith (.complex (some f4) "IQ" 2) [] [(1, 2)] = some [1, 2] := by
    simp only [encodeWith, if_true, castRaw, f4, List.map_cons, List.map_nil, interleave]
  have h2 : decodeWith (.complex (some f4) "QI" 2) [] [1, 2] = some [(2, 1)] := by
    have : ("QI" : String) ≠ "IQ" := by decide
    simp only [decodeWith, this, if_false, if_true, deinterleave, List.map_cons, List.map_nil]
  rw [h1, Option.bind_some, h2]

end Sarpy.Props.C02
