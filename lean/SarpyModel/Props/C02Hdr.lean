/-
  C02 (a SICD written by sarpy reads back), the step between "file layout / row routing" (Props/C02.lean, C03) and "pixel codecs"
  (Props/C08.lean): THE READER INTERPRETS THE IMAGE SUBHEADERS THE WRITER PRODUCED AS THE VERY PIXEL ENCODING THE WRITER USED.

  All statements are about the reference definitions of Spec/Hdr.lean; Bridge/Hdr.lean proves, on every run, that the decision chains
  regenerated from the current sarpy source (writer: SICDWritingDetails._create_image_segments, SICDWriter.get_format_function,
  NITFWriter._check_image_segment_for_compliance; reader: _get_dtype and its closures, _get_format_function, NITFReader / SICDReader
  ._check_image_segment_for_compliance, SICDReader.get_format_function) ARE these definitions.

  What is finite is decided in the kernel over the WHOLE table (3 pixel types, 3 x 3 cross table) and lifted to every segment size
  and every IID1 by congruence lemmas (`sicdRead_congr`, ...: the interpretation reads PVTYPE, NBPP, IC, IMODE, Bands and the mask flag
  only).  What is not finite is proved in general: band lists of any length (`complexOrder_iff`), metadata pixel types that are
  arbitrary strings (`sicd_compliance_diagonal`), segment sizes (`writer_blocks`), sample lists and byte strings of any length
  (`sicd_roundtrip`, `bytes_roundtrip`), amplitude tables (any strictly increasing table of 256 entries).
-/
import SarpyModel.Spec.Hdr
import SarpyModel.Spec.Loops
import SarpyModel.Bridge.Hdr
import SarpyModel.Bridge.Loops
import SarpyModel.Props.C08
namespace Sarpy.Props.C02
open Sarpy.Spec.Hdr Sarpy.Spec.Codec

/-! ### 0. the interpretation reads six fields only -/

/-- the fields of an image subheader that decide how its samples are interpreted -/
def enc (h : ImgHdr) : String × Nat × String × String × List Band × Bool := (h.pvtype, h.nbpp, h.ic, h.imode, h.bands, h.masked)

theorem enc_fields {h h' : ImgHdr} (e : enc h = enc h') :
    h.pvtype = h'.pvtype ∧ h.nbpp = h'.nbpp ∧ h.ic = h'.ic ∧ h.imode = h'.imode ∧ h.bands = h'.bands ∧ h.masked = h'.masked := by
  simp only [enc, Prod.mk.injEq] at e
  exact e

theorem getDtype_congr {h h' : ImgHdr} (e : enc h = enc h') : getDtype h = getDtype h' := by
  obtain ⟨e1, e2, _, _, e5, _⟩ := enc_fields e
  simp only [getDtype, e1, e2, e5]

theorem interp_congr {h h' : ImgHdr} (e : enc h = enc h') (ff) : interp h ff = interp h' ff := by
  obtain ⟨_, _, e3, e4, e5, _⟩ := enc_fields e
  simp only [interp, route, getDtype_congr e, e3, e4, e5]

theorem nitfReaderCompliance_congr {h h' : ImgHdr} (e : enc h = enc h') (p : Bool) : nitfReaderCompliance h p = nitfReaderCompliance h' p := by
  obtain ⟨_, e2, e3, _, _, _⟩ := enc_fields e
  simp only [nitfReaderCompliance, e2, e3]

theorem nitfWriterCompliance_congr {h h' : ImgHdr} (e : enc h = enc h') (p : Bool) : nitfWriterCompliance h p = nitfWriterCompliance h' p := by
  obtain ⟨_, e2, e3, e4, _, e6⟩ := enc_fields e
  simp only [nitfWriterCompliance, e2, e3, e4, e6]

theorem sicdReaderCompliance_congr {h h' : ImgHdr} (e : enc h = enc h') (p : Bool) (pt : String) :
    sicdReaderCompliance h p pt = sicdReaderCompliance h' p pt := by
  simp only [sicdReaderCompliance, nitfReaderCompliance_congr e, getDtype_congr e]

/-- a SICD reader treats two image segments alike when they agree on PVTYPE, NBPP, IC, IMODE, Bands (and the mask flag) -/
theorem sicdRead_congr {h h' : ImgHdr} (e : enc h = enc h') (pt : String) (a p : Bool) : sicdRead pt a p h = sicdRead pt a p h' := by
  simp only [sicdRead, sicdReaderCompliance_congr e, interp_congr e]

theorem sicdWrite_congr {h h' : ImgHdr} (e : enc h = enc h') (pt : String) (a p : Bool) : sicdWrite pt a p h = sicdWrite pt a p h' := by
  simp only [sicdWrite, nitfWriterCompliance_congr e, interp_congr e]

/-- the writer's header for a pixel type has the same encoding fields whatever the segment size and the identifier -/
theorem sicdHdr_enc (p : SicdPixel) (rows cols : Nat) (iid1 : String) : enc (sicdHdr p rows cols iid1) = enc (sicdHdr p 0 0 "") := by
  cases p <;> rfl

/-! ### 1. the whole table: what each pixel type MEANS, and that both sides arrive there -/

def f4 : RawDtype := ⟨true, .f, 4⟩
def i2 : RawDtype := ⟨true, .i, 2⟩
def u1 : RawDtype := ⟨true, .u, 1⟩

/-- the encoding a SICD pixel type stands for (SICD Volume 1, ImageData.PixelType; NITF storage per SICD Volume 2), stated
    independently of the writer's and the reader's chains: two stored bands, pixel interleaved, big-endian;
    RE32F_IM32F = float32 (I, Q); RE16I_IM16I = int16 (I, Q); AMP8I_PHS8I = uint8 (amplitude index, phase) through the AmpTable -/
def intended : SicdPixel → Interp
  | .RE32F_IM32F => ⟨some f4, 2, 2, .complex (some f4) "IQ" 2, .complex64, 1⟩
  | .RE16I_IM16I => ⟨some i2, 2, 2, .complex (some i2) "IQ" 2, .complex64, 1⟩
  | .AMP8I_PHS8I => ⟨some u1, 2, 2, .ampLookup (some u1), .complex64, 1⟩

/-- **(1, reader)** for every pixel type and every segment size: the reader accepts the writer's header (both compliance checks)
    and attaches exactly the intended raw dtype, byte order, band count, band axis, complex order and codec.  (PIL present or not.) -/
theorem sicd_reader_selects (p : SicdPixel) (rows cols : Nat) (iid1 : String) (pil : Bool) :
    sicdRead p.name false pil (sicdHdr p rows cols iid1) = .reads (intended p) := by
  rw [sicdRead_congr (sicdHdr_enc p rows cols iid1)]
  cases p <;> cases pil <;> decide

/-- **(1, writer)** the writer, building its own data segments from the header it made, encodes with the intended codec -/
theorem sicd_writer_selects (p : SicdPixel) (rows cols : Nat) (iid1 : String) (pil : Bool) :
    sicdWrite p.name false pil (sicdHdr p rows cols iid1) = .reads (intended p) := by
  rw [sicdWrite_congr (sicdHdr_enc p rows cols iid1)]
  cases p <;> cases pil <;> decide

/-- reader and writer agree on every pixel type -/
theorem sicd_reader_eq_writer (p : SicdPixel) (rows cols : Nat) (iid1 : String) (pil : Bool) :
    sicdRead p.name false pil (sicdHdr p rows cols iid1) = sicdWrite p.name false pil (sicdHdr p rows cols iid1) := by
  rw [sicd_reader_selects, sicd_writer_selects]

/-- the same for the code as regenerated from the source: header made by the regenerated writer chain, judged by the regenerated
    compliance chain, dtype by the regenerated `_get_dtype`, codec by the regenerated `SICDReader.get_format_function` -/
theorem gen_sicd_reader_selects (p : SicdPixel) (rows cols : Nat) (iid1 : String) (pil : Bool) :
    ∃ h, Gen.Hdr.sicd_writer_hdr p.name rows cols iid1 = .ok h ∧
      Gen.Hdr.sicd_reader_compliance h pil p.name = .ok true ∧
      ∃ d, Gen.Hdr.get_dtype h = .ok d ∧ d.1 = (intended p).raw ∧ d.2.1 = (intended p).fmtDtype ∧ d.2.2.1 = (intended p).fmtBands ∧
        Gen.Hdr.sicd_reader_format_function d.1 d.2.2.2.1 d.2.2.2.2 2 p.name false = .ok (intended p).fmt ∧
        Gen.Hdr.sicd_writer_format_function d.1 d.2.2.2.1 d.2.2.2.2 2 p.name false = .ok (intended p).fmt := by
  refine ⟨sicdHdr p rows cols iid1, ?_, ?_, ?_⟩
  · rw [Bridge.Hdr.gen_sicd_writer_hdr]; cases p <;> rfl
  · rw [Bridge.Hdr.gen_sicd_reader_compliance, sicdReaderCompliance_congr (sicdHdr_enc p rows cols iid1)]
    cases p <;> cases pil <;> decide
  · simp only [Bridge.Hdr.gen_get_dtype, Bridge.Hdr.gen_sicd_reader_format_function, Bridge.Hdr.gen_sicd_writer_format_function,
      getDtype_congr (sicdHdr_enc p rows cols iid1)]
    cases p
    · exact ⟨(some f4, .complex64, 1, some "IQ", none), by decide, by decide, by decide, by decide, by decide, by decide⟩
    · exact ⟨(some i2, .complex64, 1, some "IQ", none), by decide, by decide, by decide, by decide, by decide, by decide⟩
    · exact ⟨(some u1, .complex64, 1, some "MP", none), by decide, by decide, by decide, by decide, by decide, by decide⟩

/-- AMP8I_PHS8I metadata WITHOUT an amplitude table: both sides refuse (the standard makes the table optional; sarpy does not
    read or write such a product - stated, not hidden) -/
theorem sicd_amp_without_table (rows cols : Nat) (iid1 : String) (pil : Bool) :
    sicdRead "AMP8I_PHS8I" true pil (sicdHdr .AMP8I_PHS8I rows cols iid1) = .refused "ValueError" ∧
    sicdWrite "AMP8I_PHS8I" true pil (sicdHdr .AMP8I_PHS8I rows cols iid1) = .refused "ValueError" := by
  rw [sicdRead_congr (sicdHdr_enc _ rows cols iid1), sicdWrite_congr (sicdHdr_enc _ rows cols iid1)]
  cases pil <;> decide

/-! ### 3. injectivity -/

theorem intended_injective : ∀ p q : SicdPixel, intended p = intended q → p = q := by
  intro p q; cases p <;> cases q <;> decide

/-- **(3)** two different pixel types never produce headers whose raw interpretation (dtype, formatted dtype, bands, order, lut)
    coincides - whatever the metadata says -/
theorem sicd_dtype_injective (p q : SicdPixel) (rows cols rows' cols' : Nat) (iid1 iid1' : String)
    (h : getDtype (sicdHdr p rows cols iid1) = getDtype (sicdHdr q rows' cols' iid1')) : p = q := by
  rw [getDtype_congr (sicdHdr_enc p rows cols iid1), getDtype_congr (sicdHdr_enc q rows' cols' iid1')] at h
  revert h
  cases p <;> cases q <;> decide

/-- ... and never headers the reader interprets alike -/
theorem sicd_read_injective (p q : SicdPixel) (rows cols rows' cols' : Nat) (iid1 iid1' : String) (pil : Bool)
    (h : sicdRead p.name false pil (sicdHdr p rows cols iid1) = sicdRead q.name false pil (sicdHdr q rows' cols' iid1')) : p = q := by
  rw [sicd_reader_selects, sicd_reader_selects] at h
  exact intended_injective p q (by injection h)

/-! ### 4. the cross table of the compliance check -/

/-- **(4)** the SICD reader's compliance check on the writer's header for `p`, with `q` in the metadata: accepted iff `p = q` -/
theorem sicd_compliance_cross (p q : SicdPixel) (rows cols : Nat) (iid1 : String) (pil : Bool) :
    sicdReaderCompliance (sicdHdr p rows cols iid1) pil q.name = .ok (decide (p = q)) := by
  rw [sicdReaderCompliance_congr (sicdHdr_enc p rows cols iid1)]
  cases p <;> cases q <;> cases pil <;> decide

theorem ofName_name (p : SicdPixel) : SicdPixel.ofName p.name = some p := by cases p <;> rfl

theorem ofName_eq_some (s : String) (p : SicdPixel) (h : SicdPixel.ofName s = some p) : s = p.name := by
  unfold SicdPixel.ofName at h
  split_ifs at h with h1 h2 h3 <;> simp only [Option.some.injEq, reduceCtorEq] at h <;> subst h <;> assumption

/-- for ANY string as the metadata's pixel type: the writer's header for `p` is accepted exactly when the string is the name of `p`
    (a string outside the enumeration makes the check raise) -/
theorem sicd_compliance_diagonal (p : SicdPixel) (s : String) (rows cols : Nat) (iid1 : String) (pil : Bool) :
    sicdReaderCompliance (sicdHdr p rows cols iid1) pil s = .ok true ↔ s = p.name := by
  constructor
  · intro h
    cases hq : SicdPixel.ofName s with
    | some q =>
      have hs := ofName_eq_some s q hq
      rw [hs, sicd_compliance_cross] at h
      have : p = q := by simpa using h
      rw [hs, this]
    | none =>
      exfalso
      rw [sicdReaderCompliance_congr (sicdHdr_enc p rows cols iid1)] at h
      have hn : sicdRequires s = none := by
        unfold SicdPixel.ofName at hq
        unfold sicdRequires
        split_ifs at hq ⊢ with h1 h2 h3
        rfl
      have : ∀ (p : SicdPixel) (pil : Bool), nitfReaderCompliance (sicdHdr p 0 0 "") pil = true ∧
          ∃ raw fd lut o nm, getDtype (sicdHdr p 0 0 "") = .ok (raw, fd, 1, some o, lut) ∧ o ∈ ["IQ", "MP"] ∧ dtypeName raw = .ok nm := by
        intro p pil
        cases p <;> cases pil <;> exact ⟨by decide, _, _, _, _, _, by rfl, by decide, by rfl⟩
      obtain ⟨h1, raw, fd, lut, o, nm, h2, h3, h4⟩ := this p pil
      simp [sicdReaderCompliance, h1, h2, h3, h4, hn] at h
  · rintro rfl
    rw [sicd_compliance_cross]; simp

/-- a mislabelled file (header of `p`, metadata says `q ≠ p`) is never read as `q`: the segment is skipped -/
theorem sicd_mislabelled_skipped (p q : SicdPixel) (hpq : p ≠ q) (rows cols : Nat) (iid1 : String) (amp pil : Bool) :
    sicdRead q.name amp pil (sicdHdr p rows cols iid1) = .skipped := by
  simp [sicdRead, sicd_compliance_cross, hpq]

/-! ### 2'. the complex order for band lists of ANY length -/

/-- every consecutive pair of labels concatenates to `order`; an odd leftover is not a pair -/
def pairsAll (order : String) : List String → Bool
  | [] => true
  | [_] => false
  | a :: b :: rest => (a ++ b == order) && pairsAll order rest

theorem pyRange_two_nil (a : Nat) : pyRange a a 2 = [] := by
  simp [pyRange]

theorem pyRange_two_step (a m : Nat) : pyRange a (a + (m + 2)) 2 = a :: pyRange (a + 2) (a + (m + 2)) 2 := by
  unfold pyRange
  have h1 : (a + (m + 2) - a + (2 - 1)) / 2 = (a + (m + 2) - (a + 2) + (2 - 1)) / 2 + 1 := by omega
  rw [h1, List.range_succ_eq_map, List.map_cons, List.map_map]
  congr 1
  apply List.map_congr_left
  intro k _
  simp only [Function.comp, Nat.succ_eq_add_one]
  omega

theorem pyIdx_append_left {α : Type} (pre : List α) (x : α) (rest : List α) : pyIdx (pre ++ x :: rest) pre.length = .ok x := by
  simp [pyIdx]

theorem pyIdx_append_left1 {α : Type} (pre : List α) (x y : α) (rest : List α) : pyIdx (pre ++ x :: y :: rest) (pre.length + 1) = .ok y := by
  have : pre ++ x :: y :: rest = (pre ++ [x]) ++ y :: rest := by simp
  rw [this]
  have h2 := pyIdx_append_left (pre ++ [x]) y rest
  simpa using h2

/-- the search loop of `get_complex_order` over the pairs after a prefix: it finds a differing pair iff not all pairs agree -/
theorem anyM_pairs (order : String) : ∀ (rest pre : List Band), rest.length % 2 = 0 →
    anyM (pairDiffers (pre ++ rest) order) (pyRange pre.length (pre.length + rest.length) 2) =
      .ok (!pairsAll order (rest.map Band.isubcat))
  | [], pre, _ => by simp [pyRange_two_nil, anyM, pairsAll]
  | [_], _, h => by simp at h
  | x :: y :: rest, pre, h => by
    have hr : rest.length % 2 = 0 := by simp only [List.length_cons] at h; omega
    have hlen : pre.length + (x :: y :: rest).length = pre.length + (rest.length + 2) := by simp
    rw [hlen, pyRange_two_step]
    have ih := anyM_pairs order rest (pre ++ [x, y]) hr
    have e1 : pre ++ [x, y] ++ rest = pre ++ x :: y :: rest := by simp
    have e2 : (pre ++ [x, y]).length = pre.length + 2 := by simp
    rw [e1, e2] at ih
    have e3 : pre.length + 2 + rest.length = pre.length + (rest.length + 2) := by omega
    rw [e3] at ih
    have hh : pairDiffers (pre ++ x :: y :: rest) order pre.length = .ok (decide (order ≠ x.isubcat ++ y.isubcat)) := by
      simp only [pairDiffers, pairAt, pyIdx_append_left, pyIdx_append_left1, Except.map]
    simp only [anyM, hh]
    by_cases hxy : x.isubcat ++ y.isubcat = order
    · have : decide (order ≠ x.isubcat ++ y.isubcat) = false := by simp [hxy]
      simp only [this]
      rw [ih]
      simp [pairsAll, hxy]
    · have : decide (order ≠ x.isubcat ++ y.isubcat) = true := by
        simp only [ne_eq, decide_eq_true_eq]; exact fun h => hxy h.symm
      simp only [this]
      simp [pairsAll, hxy]

theorem pairsAll_even (order : String) : ∀ (l : List String), pairsAll order l = true → l.length % 2 = 0
  | [], _ => rfl
  | [_], h => by simp [pairsAll] at h
  | _ :: _ :: rest, h => by
    simp only [pairsAll, Bool.and_eq_true] at h
    have := pairsAll_even order rest h.2
    simp only [List.length_cons]; omega

/-- **`get_complex_order` for band lists of any length**: an order is announced exactly when the first pair's labels concatenate
    to one of the four orders, every pair (the last included) concatenates to the same, and the PVTYPE fits; an odd or
    mixed list announces none; a pixel value type that contradicts the labels is refused -/
theorem complexOrder_iff (pv : String) (a b : Band) (rest : List Band) :
    complexOrder pv (a :: b :: rest) =
      (if (a.isubcat ++ b.isubcat) ∈ orders ∧ pairsAll (a.isubcat ++ b.isubcat) (rest.map Band.isubcat) = true then
        (if pvtypeFits (a.isubcat ++ b.isubcat) pv then .ok (some (a.isubcat ++ b.isubcat)) else .error "ValueError")
       else .ok none) := by
  unfold complexOrder
  by_cases hlen : (a :: b :: rest).length % 2 ≠ 0
  · rw [if_pos hlen]
    have : pairsAll (a.isubcat ++ b.isubcat) (rest.map Band.isubcat) ≠ true := by
      intro hp
      have := pairsAll_even _ _ hp
      simp only [List.length_map] at this
      simp only [List.length_cons] at hlen
      omega
    simp [this]
  · rw [if_neg hlen]
    have hr : rest.length % 2 = 0 := by simp only [List.length_cons] at hlen; omega
    have h0 : pairAt (a :: b :: rest) 0 = .ok (a.isubcat ++ b.isubcat) := rfl
    simp only [h0]
    by_cases ho : (a.isubcat ++ b.isubcat) ∈ orders
    · simp only [ho, not_true_eq_false, if_false, true_and]
      have hl := anyM_pairs (a.isubcat ++ b.isubcat) rest [a, b] hr
      have e1 : ([a, b] : List Band) ++ rest = a :: b :: rest := rfl
      have e2 : ([a, b] : List Band).length = 2 := rfl
      rw [e1, e2] at hl
      have e3 : (a :: b :: rest).length = 2 + rest.length := by simp only [List.length_cons]; omega
      rw [e3, hl]
      cases pairsAll (a.isubcat ++ b.isubcat) (rest.map Band.isubcat) <;> simp
    · simp [ho]

/-- no band pair at all: one band announces nothing; zero bands make the lookup of band 0 fail -/
theorem complexOrder_short (pv : String) (a : Band) : complexOrder pv [a] = .ok none ∧ complexOrder pv [] = .error "IndexError" := by
  constructor <;> rfl

example : complexOrder "R" [band "I" "", band "Q" "", band "I" "", band "Q" ""] = .ok (some "IQ") := by decide
example : complexOrder "R" [band "I" "", band "Q" "", band "Q" "", band "I" ""] = .ok none := by decide
example : complexOrder "INT" [band "I" "", band "Q" ""] = .error "ValueError" := by decide
/-- the labels are concatenated before they are compared: an empty label next to a two-letter one is read as that order -/
example : complexOrder "R" [band "" "", band "IQ" ""] = .ok (some "IQ") := by decide

/-! ### 5. NPPBH / NPPBV: one block covering the segment -/

open Sarpy.Spec.L in
/-- **(5)** for every segment of at least one row and one column: the writer's block fields (`0` beyond 8192, NBPR = NBPC = 1)
    pass the reader's two validity checks and its block-bound construction yields exactly one block, the whole segment -/
theorem writer_blocks (rows cols : Nat) (hr : 1 ≤ rows) (hc : 1 ≤ cols) :
    blockBounds rows cols (nppb rows) (nppb cols) 1 1 = some [((0 : Int), (rows : Int), (0 : Int), (cols : Int))] := by
  unfold blockBounds blocksFit Sarpy.Spec.K2.effBlock nppb
  have h1 : (1 : Int).toNat = 1 := rfl
  by_cases h8 : rows > 8192 <;> by_cases h9 : cols > 8192 <;>
    simp only [h8, h9, if_true, if_false, Nat.cast_zero, h1, blockGrid, blockRow, List.range_one, List.flatMap_cons, List.flatMap_nil,
      List.map_cons, List.map_nil, List.append_nil, Nat.cast_ofNat] <;>
    (rw [if_pos (by constructor <;> constructor <;> (try split_ifs) <;> omega)]; simp <;> split_ifs <;> omega)

open Sarpy.Spec.L in
/-- the same for `_construct_block_bounds` as regenerated from the source (Bridge/Loops.lean) -/
theorem gen_writer_blocks (rows cols : Nat) (hr : 1 ≤ rows) (hc : 1 ≤ cols) :
    Gen.L.construct_block_bounds rows cols (nppb rows) (nppb cols) 1 1 = .ok [((0 : Int), (rows : Int), (0 : Int), (cols : Int))] := by
  rw [Bridge.L.gen_construct_block_bounds, writer_blocks rows cols hr hc]

/-- the header fields the theorem speaks about are the ones the writer sets -/
theorem sicdHdr_blocks (p : SicdPixel) (rows cols : Nat) (iid1 : String) :
    let h := sicdHdr p rows cols iid1
    h.nrows = rows ∧ h.ncols = cols ∧ h.nppbv = nppb rows ∧ h.nppbh = nppb cols ∧ h.nbpr = 1 ∧ h.nbpc = 1 := by
  cases p <;> exact ⟨rfl, rfl, rfl, rfl, rfl, rfl⟩

example : nppb 8192 = 8192 ∧ nppb 8193 = 0 := by decide

/-! ### 6. bytes: the raw dtype's byte order -/

/-- the `size` bytes of `n`, most significant first when `big` -/
def toBytesBE : Nat → Nat → List Nat
  | 0, _ => []
  | s + 1, n => (n / 256 ^ s) % 256 :: toBytesBE s n

def ofBytesBE (bs : List Nat) : Nat := bs.foldl (fun acc b => acc * 256 + b) 0

def toBytes (big : Bool) (size n : Nat) : List Nat := if big then toBytesBE size n else (toBytesBE size n).reverse
def ofBytes (big : Bool) (bs : List Nat) : Nat := if big then ofBytesBE bs else ofBytesBE bs.reverse

theorem ofBytesBE_aux (bs : List Nat) (acc : Nat) : bs.foldl (fun acc b => acc * 256 + b) acc = acc * 256 ^ bs.length + ofBytesBE bs := by
  induction bs generalizing acc with
  | nil => simp [ofBytesBE]
  | cons b rest ih =>
    simp only [List.foldl_cons, List.length_cons, ofBytesBE]
    rw [ih, ih (0 * 256 + b)]
    ring

theorem toBytesBE_length (s n : Nat) : (toBytesBE s n).length = s := by
  induction s with
  | zero => rfl
  | succ s ih => simp [toBytesBE, ih]

theorem ofBytesBE_toBytesBE (s n : Nat) : ofBytesBE (toBytesBE s n) = n % 256 ^ s := by
  induction s with
  | zero => simp [toBytesBE, ofBytesBE, Nat.mod_one]
  | succ s ih =>
    simp only [toBytesBE, ofBytesBE, List.foldl_cons]
    rw [ofBytesBE_aux, toBytesBE_length, ih]
    have h1 : n % 256 ^ (s + 1) = (n / 256 ^ s % 256) * 256 ^ s + n % 256 ^ s := by
      rw [Nat.pow_succ, Nat.mod_mul, Nat.mul_comm]
      omega
    rw [h1]; ring

/-- **a sample written with a raw dtype and read with the same dtype is unchanged** (any item size, either byte order) -/
theorem bytes_roundtrip (big : Bool) (size n : Nat) (hn : n < 256 ^ size) : ofBytes big (toBytes big size n) = n := by
  cases big <;> simp [ofBytes, toBytes, ofBytesBE_toBytesBE, Nat.mod_eq_of_lt hn]

/-- the byte order is not decoration: a two-byte sample read with the other order is another number -/
example : ofBytes false (toBytes true 2 1) = 256 := by decide
example : ofBytes true (toBytes true 2 0x1234) = 0x1234 ∧ toBytes true 2 0x1234 = [0x12, 0x34] := by decide

/-! ### 7. composition with the pixel codecs of C08: decode_reader (hdr_writer pt) (encode_writer pt x) = x -/

open Sarpy.Props.C08

/-- two's-complement wrap of an integer into `bits` bits: what the cast into a signed raw dtype keeps -/
def wrapSigned (bits : Nat) (n : ℤ) : ℤ := (n + 2 ^ (bits - 1)) % 2 ^ bits - 2 ^ (bits - 1)

theorem wrapSigned_of_range (bits : Nat) (hb : 1 ≤ bits) (n : ℤ) (h0 : -(2 : ℤ) ^ (bits - 1) ≤ n) (h1 : n < (2 : ℤ) ^ (bits - 1)) :
    wrapSigned bits n = n := by
  unfold wrapSigned
  have hp : (2 : ℤ) ^ bits = 2 * 2 ^ (bits - 1) := by
    have : bits = (bits - 1) + 1 := by omega
    rw [this, pow_succ]; simp; ring
  rw [Int.emod_eq_of_lt (by linarith) (by linarith)]
  ring

/-- how a component of a complex sample is stored in a raw dtype: floats as they are, signed integers by truncation toward zero
    (the cast of `ComplexFormatFunction._reverse_functional_step`, C08 `truncZ`) wrapped to the item size -/
noncomputable def castRaw (d : RawDtype) (x : ℝ) : ℝ :=
  match d.kind with
  | .f => x
  | _ => (wrapSigned (8 * d.size) (truncZ x) : ℝ)

/-- the writer's side of a codec: complex samples -> stored numbers of the band-interleaved pixel vector -/
noncomputable def encodeWith (f : FmtFn) (T : List ℝ) (zs : List (ℝ × ℝ)) : Option (List ℝ) :=
  match f with
  | .complex (some d) o _ =>
    if o = "IQ" then some (interleave (zs.map (fun z => (castRaw d z.1, castRaw d z.2))))
    else if o = "QI" then some (interleave (zs.map (fun z => (castRaw d z.2, castRaw d z.1))))
    else none
  | .ampLookup _ => some (interleave (zs.map (fun z => ((nearestR T (mag z.1 z.2) : ℝ), ((Pq rhe 8 z.1 z.2 : ℤ) : ℝ)))))
  | _ => none

/-- the reader's side -/
noncomputable def decodeWith (f : FmtFn) (T : List ℝ) (raw : List ℝ) : Option (List (ℝ × ℝ)) :=
  match f with
  | .complex _ o _ =>
    if o = "IQ" then some (deinterleave raw)
    else if o = "QI" then some ((deinterleave raw).map (fun p => (p.2, p.1)))
    else none
  | .ampLookup _ => some ((deinterleave raw).map (fun p => decodeMP realOps 8 (T.getD ⌊p.1⌋₊ 0) p.2))
  | _ => none

/-- representable values of a pixel type (as C08 states them): any float32 pair; any pair of integers of the int16 range; any
    amplitude-table entry of non-zero magnitude with any of the 256 phases -/
def Representable (p : SicdPixel) (T : List ℝ) (z : ℝ × ℝ) : Prop :=
  match p with
  | .RE32F_IM32F => True
  | .RE16I_IM16I => ∃ i q : ℤ, z = ((i : ℝ), (q : ℝ)) ∧ -(2 : ℤ) ^ 15 ≤ i ∧ i < 2 ^ 15 ∧ -(2 : ℤ) ^ 15 ≤ q ∧ q < 2 ^ 15
  | .AMP8I_PHS8I => ∃ m ph : ℕ, m < 256 ∧ ph < 256 ∧ 0 < T.getD m 0 ∧ z = decodeMP realOps 8 (T.getD m 0) (ph : ℝ)

theorem map_roundtrip {α β : Type} (enc : α → β) (dec : β → α) (l : List α) (h : ∀ x ∈ l, dec (enc x) = x) : (l.map enc).map dec = l := by
  rw [List.map_map]
  conv_rhs => rw [← List.map_id l]
  exact List.map_congr_left (fun x hx => by simp [h x hx])

theorem amp_point (T : List ℝ) (hT : T.Pairwise (· < ·)) (hl : T.length = 256) (m ph : ℕ) (hm : m < 256) (hp : ph < 256) (hpos : 0 < T.getD m 0) :
    let z := decodeMP realOps 8 (T.getD m 0) (ph : ℝ)
    decodeMP realOps 8 (T.getD ⌊(nearestR T (mag z.1 z.2) : ℝ)⌋₊ 0) ((Pq rhe 8 z.1 z.2 : ℤ) : ℝ) = z := by
  intro z
  have hml : m < T.length := by omega
  have henc := encodeMP_decodeMP 8 (T.getD m 0) (ph : ℝ) hpos (by positivity) (by
    have : ((2 ^ 8 : ℕ) : ℝ) = 256 := by norm_num
    rw [this]; exact_mod_cast hp)
  rw [encodeMP_eq] at henc
  have hmag : mag z.1 z.2 = T.getD m 0 := congrArg Prod.fst henc
  have hts : tScaled 8 z.1 z.2 = (ph : ℝ) := congrArg Prod.snd henc
  have hidx : nearestR T (mag z.1 z.2) = m := by
    rw [hmag, getD_eq T m hml]
    exact nearestIndex_exact T hT (by omega) m hml
  have hph : Pq rhe 8 z.1 z.2 = (ph : ℤ) := by
    unfold Pq
    rw [hts, isNearest_rhe.natCast]
    have : (((2 ^ 8 : ℕ) : ℕ) : ℤ) = 256 := by norm_num
    rw [this]
    exact Int.emod_eq_of_lt (by positivity) (by exact_mod_cast hp)
  rw [hidx, hph, Nat.floor_natCast, Int.cast_natCast]

/-- **(1, end to end)** for every SICD pixel type, every segment size, every list of representable samples (any length), and - for
    AMP8I_PHS8I - every strictly increasing amplitude table of 256 entries: the codec the WRITER attaches to the header it made
    encodes, the codec the READER attaches to that header decodes, and the decoded samples are the written ones, exactly. -/
theorem sicd_roundtrip (p : SicdPixel) (rows cols : Nat) (iid1 : String) (pil : Bool) (T : List ℝ)
    (hT : p = .AMP8I_PHS8I → T.Pairwise (· < ·) ∧ T.length = 256)
    (zs : List (ℝ × ℝ)) (hz : ∀ z ∈ zs, Representable p T z) :
    ∃ iw ir, sicdWrite p.name false pil (sicdHdr p rows cols iid1) = .reads iw ∧
      sicdRead p.name false pil (sicdHdr p rows cols iid1) = .reads ir ∧
      (encodeWith iw.fmt T zs).bind (decodeWith ir.fmt T) = some zs := by
  refine ⟨intended p, intended p, sicd_writer_selects p rows cols iid1 pil, sicd_reader_selects p rows cols iid1 pil, ?_⟩
  cases p with
  | RE32F_IM32F =>
    simp only [intended, encodeWith, decodeWith, if_true, Option.bind_some, f4, castRaw]
    rw [deinterleave_interleave]
    simp
  | RE16I_IM16I =>
    simp only [intended, encodeWith, decodeWith, if_true, Option.bind_some, i2, castRaw]
    rw [deinterleave_interleave]
    congr 1
    conv_rhs => rw [← List.map_id zs]
    apply List.map_congr_left
    intro z hzm
    obtain ⟨i, q, rfl, hi0, hi1, hq0, hq1⟩ := hz z hzm
    simp only [truncZ_intCast, id]
    rw [wrapSigned_of_range 16 (by norm_num) i (by simpa using hi0) (by simpa using hi1),
      wrapSigned_of_range 16 (by norm_num) q (by simpa using hq0) (by simpa using hq1)]
  | AMP8I_PHS8I =>
    obtain ⟨hTs, hTl⟩ := hT rfl
    simp only [intended, encodeWith, decodeWith, Option.bind_some]
    rw [deinterleave_interleave]
    congr 1
    exact map_roundtrip _ _ zs (fun z hzm => by
      obtain ⟨m, ph, hm, hp, hpos, rfl⟩ := hz z hzm
      exact amp_point T hTs hTl m ph hm hp hpos)

/-- the hypotheses of `sicd_roundtrip` are satisfiable: an int16 sample; a 256-entry table is strictly increasing -/
example : Representable .RE16I_IM16I [] ((-32768 : ℤ), (32767 : ℤ)) := ⟨-32768, 32767, by norm_num, by norm_num, by norm_num, by norm_num, by norm_num⟩
example : ((List.range 256).map (fun (k : ℕ) => (k : ℝ) + 1)).Pairwise (· < ·) ∧ ((List.range 256).map (fun (k : ℕ) => (k : ℝ) + 1)).length = 256 :=
  ⟨List.Pairwise.map _ (fun a b h => by simpa using h) List.pairwise_lt_range, by rw [List.length_map, List.length_range]⟩

/-- a reader that took the pair in the other order would NOT return the written samples: the order is part of the codec -/
example : (encodeWith (.complex (some f4) "IQ" 2) [] [(1, 2)]).bind (decodeWith (.complex (some f4) "QI" 2) []) = some [(2, 1)] := by
  have h1 : encodeWith (.complex (some f4) "IQ" 2) [] [(1, 2)] = some [1, 2] := by
    simp only [encodeWith, if_true, castRaw, f4, List.map_cons, List.map_nil, interleave]
  have h2 : decodeWith (.complex (some f4) "QI" 2) [] [1, 2] = some [(2, 1)] := by
    have : ("QI" : String) ≠ "IQ" := by decide
    simp only [decodeWith, this, if_false, if_true, deinterleave, List.map_cons, List.map_nil]
  rw [h1, Option.bind_some, h2]

end Sarpy.Props.C02
