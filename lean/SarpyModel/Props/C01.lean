/-
  C01 — reading a sub-region equals slicing the full image: the index algebra.

  Every theorem is about `Spec.Slice` (hand-written reference semantics) and, through the
  `gen_*` bridge theorems, about `Gen.*`, the Lean translation of /repo's *current* Python
  kernels that is regenerated on every check run.  Nothing here is bounded: all axis lengths,
  starts, stops and steps of either sign.

  Reading guide (t is a slice in sarpy's normal form on an axis of length n):
  * verify_slice_sound  : what `verify_slice` accepts selects exactly numpy's indices, and is non-empty
  * size_eq_length      : `get_slice_result_size` is the number of selected indices
  * mirror_spec         : reading the mirrored slice from the un-flipped axis and flipping gives
                          what `t` selects from the flipped axis (reverse_axes)
  * overlap_spec        : block routing: the pair returned for a block [b0,b1) enumerates exactly the
                          selected indices inside the block, in order, with their output positions
  * reverse_spec        : `_reverse_slice` enumerates the same indices backwards
  * compose_spec        : subset-of-subset composition (SubsetSegment parent subscripts; chip of chip)
-/
import SarpyModel.Bridge.Slices

namespace Sarpy.Props.C01
open Sarpy Sarpy.Spec

/-- `cnt span s` is the number of multiples `k*s` (k ≥ 0) below `span` -/
theorem cnt_spec {span s : Int} (hs : 0 < s) (k : Nat) : k < cnt span s ↔ (k : Int) * s < span :=
  lt_cnt_iff hs k

theorem size_eq_length (t : NSlice) : t.indices.length = t.count := by simp [NSlice.indices]

theorem normal_nonempty {n : Int} {t : NSlice} (h : t.Normal n) : t.indices ≠ [] := by
  have := Normal.count_pos h
  intro he
  have hl := size_eq_length t
  rw [he] at hl
  simp at hl
  omega

/-- every index a normal slice selects lies inside the axis -/
theorem normal_in_range {n : Int} {t : NSlice} (h : t.Normal n) : ∀ x ∈ t.indices, 0 ≤ x ∧ x < n := by
  intro x hx
  obtain ⟨k, hk, rfl⟩ := mem_ap.1 hx
  exact Normal.index_range h k (by omega) (by omega)

theorem verify_slice_sound {n : Nat} {s : PySlice} {t : NSlice} (h : verifySlice n s = some t) :
    t.Normal n ∧ t.indices = npIndices n s ∧ npIndices n s ≠ [] := by
  obtain ⟨h1, h2⟩ := verifySlice_sound h
  exact ⟨h1, h2, h2 ▸ normal_nonempty h1⟩

theorem verify_int_sound {n : Nat} {i : Int} {t : NSlice} (h : verifyInt n i = some t) :
    t.Normal n ∧ -(n : Int) ≤ i ∧ i < n ∧ t.indices = [if i < 0 then i + n else i] :=
  verifyInt_sound h

theorem mirror_normal {n : Int} {t : NSlice} (h : t.Normal n) : (mirror n t).Normal n := (Spec.mirror_spec h).1

theorem mirror_spec {n : Int} {t : NSlice} (h : t.Normal n) :
    ((mirror n t).indices.reverse.map (fun r => n - 1 - r)) = t.indices ∧ (mirror n t).count = t.count :=
  ⟨(Spec.mirror_spec h).2.2, (Spec.mirror_spec h).2.1⟩

/-- mirroring twice is the identity on the selected indices -/
theorem mirror_involutive {n : Int} {t : NSlice} (h : t.Normal n) :
    (mirror n (mirror n t)).indices = t.indices := by
  have h1 := Spec.mirror_spec h
  have h2 := Spec.mirror_spec h1.1
  have e1 := h1.2.2
  have e2 := h2.2.2
  -- indices t = rev(map f (indices m)); indices m = rev(map f (indices mm))
  rw [← e1, ← e2]
  simp [List.map_reverse, Function.comp_def]

theorem overlap_spec {n : Int} {t : NSlice} (h : t.Normal n) {b0 b1 : Int} (hb0 : 0 ≤ b0) (hb : b0 < b1) (hb1 : b1 ≤ n)
    {p c : NSlice} (ho : overlap t b0 b1 = some (p, c)) :
    ∃ k0 k1 : Nat, c = ⟨k0, some k1, 1⟩ ∧ k0 < k1 ∧ k1 ≤ t.count ∧ p.Normal (b1 - b0) ∧
      p.indices = ((t.indices.drop k0).take (k1 - k0)).map (fun x => x - b0) ∧
      ∀ i : Nat, i < t.count →
        ((b0 ≤ t.start + (i : Int) * t.step ∧ t.start + (i : Int) * t.step < b1) ↔ (k0 ≤ i ∧ i < k1)) := by
  have := Spec.overlap_spec h hb0 hb hb1
  rw [ho] at this
  exact this

theorem overlap_none_spec {n : Int} {t : NSlice} (h : t.Normal n) {b0 b1 : Int} (hb0 : 0 ≤ b0) (hb : b0 < b1) (hb1 : b1 ≤ n)
    (ho : overlap t b0 b1 = none) :
    ∀ x ∈ t.indices, ¬ (b0 ≤ x ∧ x < b1) := by
  have := Spec.overlap_spec h hb0 hb hb1
  rw [ho] at this
  intro x hx
  obtain ⟨k, hk, rfl⟩ := mem_ap.1 hx
  exact this k hk

theorem reverse_spec {n : Int} {t : NSlice} (h : t.Normal n) (hs : t.step < 0) :
    (reverseSlice t).Normal n ∧ (reverseSlice t).indices = t.indices.reverse := Spec.reverse_spec h hs

theorem compose_spec {full : Int} {d p : NSlice} (hd : d.Normal full) (hp : p.Normal d.count) :
    (compose full d p).Normal full ∧
    (compose full d p).indices = p.indices.map (fun i => d.start + i * d.step) :=
  ⟨(Spec.compose_spec hd hp).1, (Spec.compose_spec hd hp).2.2⟩

/-! ### the same statements for the code that is in /repo now (`Gen.*` is regenerated each run) -/

theorem gen_verify_slice (n : Int) (s : PySlice) :
    (Gen.verify_slice (.slice s) n).toOption = (verifySlice n s).map NSlice.toPy := Bridge.gen_verify_slice n s

theorem gen_verify_int (n : Int) (i : Int) :
    (Gen.verify_slice (.int i) n).toOption = (verifyInt n i).map NSlice.toPy := Bridge.gen_verify_int n i

theorem gen_size {n : Int} {t : NSlice} (h : t.Normal n) :
    Gen.get_slice_result_size t.toPy = .ok (t.indices.length : Int) := by
  rw [size_eq_length]; exact Bridge.gen_size h

theorem gen_mirror {n : Int} {t : NSlice} (h : t.Normal n) :
    Gen.reformat_slice t.toPy n true = .ok (mirror n t).toPy := Bridge.gen_mirror h

theorem gen_overlap {n : Int} {t : NSlice} (h : t.Normal n) {b0 b1 : Int} (hb0 : 0 ≤ b0) (hb : b0 < b1) :
    Gen.find_slice_overlap t.toPy ⟨some b0, some b1, some 1⟩ = .ok (Bridge.ovOut (overlap t b0 b1)) :=
  Bridge.gen_overlap h hb0 hb

theorem gen_reverse {n : Int} {t : NSlice} (h : t.Normal n) (hs : t.step < 0) :
    Gen.reverse_slice t.toPy = .ok (reverseSlice t).toPy := Bridge.gen_reverse h hs

/-- end-to-end corollary for the generated code: a slice accepted by the *current* `verify_slice`,
    mirrored by the *current* `reformat_slice`, read from the raw axis and flipped, is numpy's selection
    from the flipped axis. -/
theorem gen_reversed_axis_read {n : Nat} {s : PySlice} {r m : PySlice}
    (hv : Gen.verify_slice (.slice s) n = .ok r) (hm : Gen.reformat_slice r n true = .ok m) :
    ∃ t : NSlice, r = t.toPy ∧ m = (mirror n t).toPy ∧
      ((mirror n t).indices.reverse.map (fun x => (n : Int) - 1 - x)) = npIndices n s := by
  have h1 := gen_verify_slice n s
  rw [hv] at h1
  simp only [Except.toOption] at h1
  cases hvs : verifySlice n s with
  | none => rw [hvs] at h1; simp at h1
  | some t =>
    rw [hvs] at h1
    simp only [Option.map_some, Option.some.injEq] at h1
    obtain ⟨hn, hi, _⟩ := verify_slice_sound hvs
    have h2 := gen_mirror hn
    rw [← h1, hm] at h2
    simp only [Except.ok.injEq] at h2
    exact ⟨t, h1, h2, by rw [(mirror_spec hn).1, hi]⟩

/-! ### non-vacuity: concrete instances meet the hypotheses and exercise both step signs -/

example : (⟨1, some 8, 3⟩ : NSlice).Normal 10 := by decide
example : (⟨7, none, -3⟩ : NSlice).Normal 10 := by decide
example : (mirror 10 ⟨1, some 8, 3⟩).indices = [2, 5, 8] := by decide
example : (mirror 10 ⟨7, none, -3⟩).indices = [8, 5, 2] := by decide
example : overlap ⟨1, some 10, 3⟩ 4 8 = some (⟨0, some 4, 3⟩, ⟨1, some 3, 1⟩) := by decide
example : overlap ⟨0, some 20, 5⟩ 6 8 = none := by decide
example : verifySlice 5 ⟨some 5, some (-5), some (-2)⟩ = some ⟨4, some 0, -2⟩ := by decide
example : (compose 10 ⟨8, some 1, -2⟩ ⟨1, some 4, 2⟩).indices = [6, 2] := by decide

end Sarpy.Props.C01
