/-
  C05 (extension) — coefficient array classes (`ClassTab.poly`: Poly1DType, Poly2DType, the SIDD filter coefficient classes).
  For every specification that is well formed (writer and reader agree on the names, the two exponent attributes differ),
  every number of coefficients / rows / columns and all coefficient values the primitive codec round-trips:
    parsePoly (serializePoly v) = v,   polyOfDict (polyToDict v) = v,
  the reader does not depend on the order of the `Coef` children, and children holding the fill value may be left out.
-/
import SarpyModel.Props.C05Aux

namespace Sarpy.Props.C05
open Sarpy.Spec.XmlFmt

theorem mapOpt_append {α β : Type} (f : α → Option β) : ∀ (a b : List α) (a' b' : List β),
    mapOpt f a = some a' → mapOpt f b = some b' → mapOpt f (a ++ b) = some (a' ++ b')
  | [], b, a', b', ha, hb => by simp [mapOpt] at ha; subst ha; simpa using hb
  | x :: a, b, a', b', ha, hb => by
    simp only [mapOpt] at ha
    cases hx : f x with
    | none => simp [hx] at ha
    | some y =>
      cases hm : mapOpt f a with
      | none => simp [hx, hm] at ha
      | some ys =>
        simp only [hx, hm, Option.some.injEq] at ha
        subst ha
        simp [mapOpt, hx, mapOpt_append f a b ys b' hm hb]

section poly
variable {P S : Type} (C : Codec P S)

theorem primsOf_of_all (p : PrimId) : ∀ (items : List (Val P S)), items.all (isPrimOk C p) = true →
    ∃ cs : List P, primsOf items = some cs ∧ items = cs.map .prim ∧ (∀ x ∈ cs, C.ok p x = true)
  | [], _ => ⟨[], rfl, rfl, by simp⟩
  | i :: items, h => by
    simp only [List.all_cons, Bool.and_eq_true] at h
    rcases primsOf_of_all p items h.2 with ⟨cs, h1, h2, h3⟩
    cases i with
    | prim x =>
      refine ⟨x :: cs, by simp [primsOf, h1], by simp [h2], ?_⟩
      intro y hy
      rcases List.mem_cons.1 hy with rfl | hy
      · simpa [isPrimOk] using h.1
      · exact h3 y hy
    | absent => simp [isPrimOk] at h
    | node k => simp [isPrimOk] at h
    | blob a x ch => simp [isPrimOk] at h

theorem rowsOf_of_all (p : PrimId) (w : Nat) : ∀ (items : List (Val P S)), items.all (isRowOk C p w) = true →
    ∃ rows : List (List P), rowsOf items = some rows ∧ items = rows.map (fun r => .node (r.map .prim)) ∧
      (∀ r ∈ rows, r.length = w ∧ ∀ x ∈ r, C.ok p x = true)
  | [], _ => ⟨[], rfl, rfl, by simp⟩
  | i :: items, h => by
    simp only [List.all_cons, Bool.and_eq_true] at h
    rcases rowsOf_of_all p w items h.2 with ⟨rows, h1, h2, h3⟩
    cases i with
    | node r =>
      have hr := h.1
      simp only [isRowOk, Bool.and_eq_true, beq_iff_eq] at hr
      rcases primsOf_of_all C p r hr.1 with ⟨cs, c1, c2, c3⟩
      refine ⟨cs :: rows, by simp [rowsOf, c1, h1], by simp [h2, c2], ?_⟩
      intro r' hr'
      rcases List.mem_cons.1 hr' with rfl | hr'
      · refine ⟨?_, c3⟩
        have := hr.2; rw [c2] at this; simpa using this
      · exact h3 r' hr'
    | absent => simp [isRowOk] at h
    | prim x => simp [isRowOk] at h
    | blob a x ch => simp [isRowOk] at h

theorem coefNodes1_tag (s : PolySpec) : ∀ (cs : List P) (i : Nat), ∀ x ∈ coefNodes1 (S := S) C s i cs, x.tag = s.coefTag
  | [], _, x, hx => by simp [coefNodes1] at hx
  | c :: cs, i, x, hx => by
    simp only [coefNodes1, List.mem_cons] at hx
    rcases hx with rfl | hx
    · rfl
    · exact coefNodes1_tag s cs (i + 1) x hx

theorem coefRow2_tag (s : PolySpec) (i : Nat) : ∀ (cs : List P) (j : Nat), ∀ x ∈ coefRow2 (S := S) C s i j cs, x.tag = s.coefTag
  | [], _, x, hx => by simp [coefRow2] at hx
  | c :: cs, j, x, hx => by
    simp only [coefRow2, List.mem_cons] at hx
    rcases hx with rfl | hx
    · rfl
    · exact coefRow2_tag s i cs (j + 1) x hx

theorem coefNodes2_tag (s : PolySpec) : ∀ (rows : List (List P)) (i : Nat), ∀ x ∈ coefNodes2 (S := S) C s i rows, x.tag = s.coefTag
  | [], _, x, hx => by simp [coefNodes2] at hx
  | r :: rows, i, x, hx => by
    simp only [coefNodes2, List.mem_append] at hx
    rcases hx with hx | hx
    · exact coefRow2_tag C s i r 0 x hx
    · exact coefNodes2_tag s rows (i + 1) x hx

theorem filter_hasTag_self (q : QName) (l : List (XmlNode S)) (h : ∀ x ∈ l, x.tag = q) : l.filter (hasTag q) = l := by
  rw [List.filter_eq_self]
  intro x hx
  simp [hasTag, h x hx]

theorem attrNat_head (hC : C.Laws) (t : QName) (q : QName) (n : Nat) (rest : List (QName × S)) (tx : Option S) (ch : List (XmlNode S)) :
    attrNat C (.mk t ((q, C.sizeText n) :: rest) tx ch) q = some n := by
  simp [attrNat, XmlNode.attrs, hC.size]

theorem attrNat_second (hC : C.Laws) (t : QName) (q q' : QName) (hne : (q' == q) = false) (m n : Nat) (rest : List (QName × S))
    (tx : Option S) (ch : List (XmlNode S)) :
    attrNat C (.mk t ((q', C.sizeText m) :: (q, C.sizeText n) :: rest) tx ch) q = some n := by
  simp [attrNat, XmlNode.attrs, hC.size, List.find?, hne]

theorem mapOpt_parseCoef1 (hC : C.Laws) (s : PolySpec) (he : s.exp1 = s.pExp1) : ∀ (cs : List P) (i : Nat),
    (∀ x ∈ cs, C.ok s.prim x = true) → mapOpt (parseCoef1 (S := S) C s) (coefNodes1 C s i cs) = some (enumFrom' i cs)
  | [], _, _ => rfl
  | c :: cs, i, h => by
    have ih := mapOpt_parseCoef1 hC s he cs (i + 1) (fun x hx => h x (by simp [hx]))
    have h1 : parseCoef1 (S := S) C s (.mk s.coefTag [(s.exp1, C.sizeText i)] (some (C.toText s.prim c)) []) = some (i, c) := by
      simp [parseCoef1, ← he, attrNat_head C hC, XmlNode.text, hC.rt s.prim c (h c (by simp))]
    simp [coefNodes1, mapOpt, h1, ih, enumFrom']

theorem mapOpt_parseCoef2 (hC : C.Laws) (s : PolySpec) (he1 : s.exp1 = s.pExp1) (he2 : s.exp2 = s.pExp2)
    (hne : (s.exp1 == s.exp2) = false) (w i : Nat) : ∀ (cs : List P) (j : Nat), j + cs.length ≤ w →
    (∀ x ∈ cs, C.ok s.prim x = true) → mapOpt (parseCoef2 (S := S) C s w) (coefRow2 C s i j cs) = some (enumRow w i j cs)
  | [], _, _, _ => rfl
  | c :: cs, j, hw, h => by
    have ih := mapOpt_parseCoef2 hC s he1 he2 hne w i cs (j + 1) (by simp at hw; omega) (fun x hx => h x (by simp [hx]))
    have hj : j < w := by simp at hw; omega
    have h1 : parseCoef2 (S := S) C s w (.mk s.coefTag [(s.exp1, C.sizeText i), (s.exp2, C.sizeText j)] (some (C.toText s.prim c)) [])
        = some (i * w + j, c) := by
      simp [parseCoef2, ← he1, ← he2, attrNat_head C hC, attrNat_second C hC _ _ _ hne, XmlNode.text, hj,
        hC.rt s.prim c (h c (by simp))]
    simp [coefRow2, mapOpt, h1, ih, enumRow]

theorem mapOpt_parseCoefs2 (hC : C.Laws) (s : PolySpec) (he1 : s.exp1 = s.pExp1) (he2 : s.exp2 = s.pExp2)
    (hne : (s.exp1 == s.exp2) = false) (w : Nat) : ∀ (rows : List (List P)) (i : Nat),
    (∀ r ∈ rows, r.length = w ∧ ∀ x ∈ r, C.ok s.prim x = true) →
    mapOpt (parseCoef2 (S := S) C s w) (coefNodes2 C s i rows) = some (enumRows w i rows)
  | [], _, _ => rfl
  | r :: rows, i, h => by
    have hr := h r (by simp)
    have ih := mapOpt_parseCoefs2 hC s he1 he2 hne w rows (i + 1) (fun r' hr' => h r' (by simp [hr']))
    have h1 := mapOpt_parseCoef2 C hC s he1 he2 hne w i r 0 (by omega) hr.2
    simp only [coefNodes2, enumRows]
    exact mapOpt_append _ _ _ _ _ h1 ih

/-- the node that carries a coefficient array is read back exactly -/
theorem parsePolyBody_polyBody (hC : C.Laws) (s : PolySpec) (hs : s.wf = true) (t : QName) (v : Val P S) (hv : wfPoly C s v = true) :
    parsePolyBody C s (.mk t (polyBody C s v).1 none (polyBody C s v).2) = some v := by
  simp only [PolySpec.wf, Bool.and_eq_true, beq_iff_eq, Bool.or_eq_true, Bool.not_eq_true', bne_iff_ne, ne_eq] at hs
  obtain ⟨⟨⟨⟨hct, hd1⟩, he1⟩, h2⟩, _⟩ := hs
  cases v with
  | absent => simp [wfPoly] at hv
  | prim x => simp [wfPoly] at hv
  | blob a x ch => simp [wfPoly] at hv
  | node items =>
    unfold wfPoly at hv
    cases htwo : s.two with
    | false =>
      simp only [htwo, Bool.false_eq_true, if_false, Bool.and_eq_true, decide_eq_true_eq] at hv
      rcases primsOf_of_all C s.prim items hv.1 with ⟨cs, c1, c2, c3⟩
      have hlen : cs.length = items.length := by rw [c2]; simp
      have hoff : cs.length - s.dimOff + s.dimOff = cs.length := by have := hv.2; omega
      have hf : (coefNodes1 (S := S) C s 0 cs).filter (hasTag s.pCoefTag) = coefNodes1 C s 0 cs := by
        rw [← hct]; exact filter_hasTag_self _ _ (coefNodes1_tag C s cs 0)
      simp only [parsePolyBody, polyBody, htwo, c1, Bool.false_eq_true, if_false, XmlNode.children, hf, ← hd1,
        attrNat_head C hC, mapOpt_parseCoef1 C hC s he1 cs 0 c3, hoff, place_enum_zero]
      simp [c2]
    | true =>
      simp only [htwo, if_true] at hv
      cases items with
      | nil => simp at hv
      | cons r0 items0 =>
        simp only [Bool.and_eq_true, decide_eq_true_eq] at hv
        obtain ⟨⟨hall, hn1⟩, hn2⟩ := hv
        rcases rowsOf_of_all C s.prim (lenOf r0) (r0 :: items0) hall with ⟨rows, c1, c2, c3⟩
        have h2' := h2.resolve_left (by simp [htwo])
        obtain ⟨⟨⟨hd2, he2⟩, hne⟩, hdne⟩ := h2'
        have hrl : rows.length = (r0 :: items0).length := by rw [c2]; simp
        have hw : widthOf rows = lenOf r0 := by
          cases rows with
          | nil => simp at hrl
          | cons r rs =>
            simp only [widthOf, List.head?_cons, Option.map_some, Option.getD_some]
            exact (c3 r (by simp)).1
        have hoff1 : rows.length - s.dimOff + s.dimOff = rows.length := by rw [hrl]; omega
        have hoff2 : lenOf r0 - s.dimOff + s.dimOff = lenOf r0 := by omega
        have hf : (coefNodes2 (S := S) C s 0 rows).filter (hasTag s.pCoefTag) = coefNodes2 C s 0 rows := by
          rw [← hct]; exact filter_hasTag_self _ _ (coefNodes2_tag C s rows 0)
        have hne' : (s.exp1 == s.exp2) = false := by simpa using hne
        have hdne' : (s.dim1 == s.dim2) = false := by simpa using hdne
        have hrect : ∀ r ∈ rows, r.length = lenOf r0 := fun r hr => (c3 r hr).1
        have hplace : place (List.replicate (rows.length * lenOf r0) (C.constVal s.fill)) (enumRows (lenOf r0) 0 rows) = some rows.flatten := by
          rw [enumRows_eq _ rows 0 hrect, Nat.zero_mul, ← length_flatten_rect _ rows hrect]
          exact place_enum_zero _ _
        simp only [parsePolyBody, polyBody, htwo, c1, if_true, XmlNode.children, hf, ← hd1, ← hd2, hw,
          attrNat_head C hC, attrNat_second C hC _ _ _ hdne', hoff1, hoff2,
          mapOpt_parseCoefs2 C hC s he1 he2 hne' (lenOf r0) rows 0 c3, hplace, Option.map_some,
          chunk_flatten _ rows hrect]
        rw [c2]

/-- **parse ∘ serialize = id** for coefficient array classes -/
theorem parsePoly_serializePoly (hC : C.Laws) (s : PolySpec) (hs : s.wf = true) (t : QName) (v : Val P S) (hv : wfPoly C s v = true) :
    parsePoly C s (serializePoly C s t v) = some v := by
  have hw : ∀ w, s.wrapper = some w → w.1 = w.2 := by
    intro w hw
    simp only [PolySpec.wf, Bool.and_eq_true, hw, beq_iff_eq] at hs
    exact hs.2
  unfold parsePoly serializePoly
  cases hwr : s.wrapper with
  | none => simpa using parsePolyBody_polyBody C hC s hs t v hv
  | some w =>
    have := hw w hwr
    simp only [XmlNode.children, List.find?, hasTag, XmlNode.tag, this, beq_self_eq_true]
    exact parsePolyBody_polyBody C hC s hs w.2 v hv

/-! #### dict form -/

theorem dPrim_filterMap (p : PrimId) : ∀ (items : List (Val P S)), items.all (isPrimOk C p) = true →
    mapOpt (dPrim (P := P) (S := S)) (items.filterMap dPrimOf) = some items
  | [], _ => by simp [mapOpt]
  | i :: items, h => by
    simp only [List.all_cons, Bool.and_eq_true] at h
    have ih := dPrim_filterMap p items h.2
    cases i with
    | prim x => simp [mapOpt, dPrim, dPrimOf, ih]
    | absent => simp [isPrimOk] at h
    | node k => simp [isPrimOk] at h
    | blob a x ch => simp [isPrimOk] at h

theorem dRow_filterMap (p : PrimId) (w : Nat) : ∀ (items : List (Val P S)), items.all (isRowOk C p w) = true →
    mapOpt (dRow (P := P) (S := S)) (items.filterMap dRowOf) = some items
  | [], _ => by simp [mapOpt]
  | i :: items, h => by
    simp only [List.all_cons, Bool.and_eq_true] at h
    have ih := dRow_filterMap p w items h.2
    cases i with
    | node r =>
      have hr := h.1
      simp only [isRowOk, Bool.and_eq_true] at hr
      simp [mapOpt, dRow, dRowOf, ih, dPrim_filterMap C p r hr.1]
    | absent => simp [isRowOk] at h
    | prim x => simp [isRowOk] at h
    | blob a x ch => simp [isRowOk] at h

/-- **from_dict ∘ to_dict = id** for coefficient array classes -/
theorem polyOfDict_polyToDict (s : PolySpec) (v : Val P S) (hv : wfPoly C s v = true) :
    polyOfDict s (polyToDict s v) = some v := by
  cases v with
  | absent => simp [wfPoly] at hv
  | prim x => simp [wfPoly] at hv
  | blob a x ch => simp [wfPoly] at hv
  | node items =>
    unfold wfPoly at hv
    cases htwo : s.two with
    | false =>
      simp only [htwo, Bool.false_eq_true, if_false, Bool.and_eq_true] at hv
      simp [polyToDict, polyOfDict, htwo, dPrim_filterMap C s.prim items hv.1]
    | true =>
      simp only [htwo, if_true] at hv
      cases items with
      | nil => simp at hv
      | cons r0 items0 =>
        simp only [Bool.and_eq_true] at hv
        simp [polyToDict, polyOfDict, htwo, dRow_filterMap C s.prim (lenOf r0) (r0 :: items0) hv.1.1]

/-! #### document order and sparse documents -/

/-- the 1-D reader on an arbitrary list of `Coef` children -/
def readCoefs1 (s : PolySpec) (n : Nat) (chs : List (XmlNode S)) : Option (List P) :=
  match mapOpt (parseCoef1 C s) chs with
  | none => none
  | some es => place (List.replicate n (C.constVal s.fill)) es

theorem mapOpt_perm {α β : Type} (f : α → Option β) {a b : List α} (hp : a.Perm b) :
    ∀ a', mapOpt f a = some a' → ∃ b', mapOpt f b = some b' ∧ a'.Perm b' := by
  induction hp with
  | nil => intro a' h; exact ⟨[], rfl, by simp [mapOpt] at h; subst h; exact .nil⟩
  | cons x _ ih =>
    intro a' h
    simp only [mapOpt] at h
    cases hx : f x with
    | none => simp [hx] at h
    | some y =>
      rename_i l₁ l₂ _
      cases hm : mapOpt f l₁ with
      | none => simp [hx, hm] at h
      | some ys =>
        simp only [hx, hm, Option.some.injEq] at h
        subst h
        rcases ih ys hm with ⟨b', hb, hpb⟩
        exact ⟨y :: b', by simp [mapOpt, hx, hb], hpb.cons y⟩
  | swap x y l =>
    intro a' h
    simp only [mapOpt] at h
    cases hy : f y with
    | none => simp [hy] at h
    | some y' =>
      cases hx : f x with
      | none => simp [hy, hx] at h
      | some x' =>
        cases hm : mapOpt f l with
        | none => simp [hy, hx, hm] at h
        | some ls =>
          simp only [hy, hx, hm, Option.some.injEq] at h
          subst h
          exact ⟨x' :: y' :: ls, by simp [mapOpt, hx, hy, hm], .swap _ _ _⟩
  | trans _ _ ih₁ ih₂ =>
    intro a' h
    rcases ih₁ a' h with ⟨b', hb, hpb⟩
    rcases ih₂ b' hb with ⟨c', hc, hpc⟩
    exact ⟨c', hc, hpb.trans hpc⟩

/-- **position by exponent, not by document order**: any permutation of the `Coef` children of a serialised 1-D array is read
    back as the same coefficients -/
theorem readCoefs1_perm (hC : C.Laws) (s : PolySpec) (he : s.exp1 = s.pExp1) (cs : List P) (hok : ∀ x ∈ cs, C.ok s.prim x = true)
    (chs : List (XmlNode S)) (hp : (coefNodes1 C s 0 cs).Perm chs) :
    readCoefs1 C s cs.length chs = some cs := by
  have h0 := mapOpt_parseCoef1 (S := S) C hC s he cs 0 hok
  rcases mapOpt_perm _ hp _ h0 with ⟨es, hes, hpe⟩
  have hnd : ((enumFrom' 0 cs).map (·.1)).Nodup := by
    rw [enumFrom'_map_fst]; exact List.nodup_range'
  simp only [readCoefs1, hes]
  rw [← place_perm hpe _ hnd]
  exact place_enum_zero _ _

/-- **absent coefficients are read as zero**: the children whose coefficient is the fill value may be left out of the document
    (a sparse document), in any order of the remaining ones -/
theorem readCoefs1_sparse (hC : C.Laws) (s : PolySpec) (he : s.exp1 = s.pExp1) (cs : List P) (hok : ∀ x ∈ cs, C.ok s.prim x = true) :
    (match mapOpt (parseCoef1 (S := S) C s) (coefNodes1 C s 0 cs) with
     | none => none
     | some es => place (List.replicate cs.length (C.constVal s.fill)) (es.filter (fun e => !(C.peq e.2 (C.constVal s.fill))))) = some cs := by
  rw [mapOpt_parseCoef1 (S := S) C hC s he cs 0 hok]
  have hnd : ((enumFrom' 0 cs).map (·.1)).Nodup := by
    rw [enumFrom'_map_fst]; exact List.nodup_range'
  have hmem : ∀ e ∈ enumFrom' 0 cs, e.1 < cs.length := by
    intro e he'
    have : e.1 ∈ (enumFrom' 0 cs).map (·.1) := List.mem_map_of_mem he'
    rw [enumFrom'_map_fst] at this
    simp [List.mem_range'] at this
    omega
  show place _ _ = some cs
  rw [place_drop_fill (C.constVal s.fill) _ _ _ hnd (by simpa using hmem)
    (fun e he' => by simp [hmem e he'])
    (fun e _ hk => by
      have : C.peq e.2 (C.constVal s.fill) = true := by simpa using hk
      exact (hC.peq _ _).1 this)]
  exact place_enum_zero _ _

end poly

end Sarpy.Props.C05
