/-
  C20 — orthorectified products place each source pixel where the metadata says it is.

  The definitions of `Spec.Ortho` are instantiated at ℝ and the logic core of the property is proved for all
  inputs:

  1. planes     `ortho_ecf_inverse`: for orthonormal row / column vectors and non-zero spacings the PGProjection maps
                ortho (row, col) → ECF → ortho and ECF → ortho → ECF (on the plane, stated both with the plane normal
                `row × col` and parametrically) are identities; `product_plane_agrees`: the plane written into the SIDD
                (reference pixel shifted by the first ortho row / column) sends product pixel (i, j) to the ground point
                of ortho pixel (i + r0, j + c0); `ortho_step_is_spacing`: neighbouring pixels are one sample spacing apart.
  2. index      `digitize_grid`: numpy.digitize on the window lines `g0 … g0+n-1` is `min n (⌊x - g0⌋ + 1)`;
                `codePixel_eq`: inside the code's mask the source line the CODE reads is `⌊x⌋ + 1` whatever the window
                (`window_independent`); `nearest_index_bound` / `nearest_index_minimal`: the specification
                `nearestPixel x = ⌊x + 1/2⌋` is within 1/2 of `x` and no integer is closer;
                `code_index_eq_nearest_iff`: the code's line IS the nearest one exactly when the fractional part of `x`
                is ≥ 1/2, otherwise (`code_index_eq_nearest_succ_iff`) it is the line after the nearest one — in
                particular at every integer coordinate (`code_index_off_by_one_at_integers`); `code_pixel_error`:
                the code's line is above `x` by up to a whole line; `code_not_nearest`: negation witness `x = 5`.
                `codeIndex_lt`, `codeIndex_pos`: the index is in range, and the first line of the window is never read.
                `fixed_index_is_nearest`: the repair proposed in NOTES_C20.md (`Spec.Ortho.fixedIndex`) selects the
                nearest line everywhere inside the mask.
  3. fill       `fill_outside` (code model) and `nearest_fill_outside` (specification): coordinates outside the window
                give the pad value; `code_fill_of_nearest_fill`: the code never writes a value where the specification
                pads.  (The converse fails on the half-line rim, `rim_example`.)
  4. blocks     `block_tiling_independent`: blocks produced pointwise over the tiling `orthoBlocks size step`
                (`extract_blocks`, built on C03's `segmentation` / `segmentation_tiles`), assembled by rows or by
                columns, give the whole product, for every size and step; `tiles_flatten` is the general list lemma
                for any consecutive tiling.

  NOT proved (tied by the harness): that the projection numerics (`project_ground_to_image`, C04) deliver the source
  coordinate the model takes as input, that every block's padded source window contains the lines its pixels need
  (`window_independent` needs the coordinate inside both masks), IEEE rounding.

  The unchanged code does NOT implement the specification: `code_not_nearest`.  The full-strength statement
  `CodeIsNearest` is kept as a definition; its negation is a theorem.
-/
import SarpyModel.Spec.Ortho
import SarpyModel.Props.C03
import Mathlib.Data.Real.Basic
import Mathlib.Algebra.Order.Archimedean.Real.Basic
import Mathlib.Algebra.Order.Floor.Ring
import Mathlib.Algebra.Order.Round
import Mathlib.Tactic.Ring
import Mathlib.Tactic.LinearCombination
import Mathlib.Tactic.FieldSimp
import Mathlib.Tactic.NormNum
import Mathlib.Tactic.Linarith
import Mathlib.Tactic.Push

namespace Sarpy.Props.C20
open Sarpy.Spec.Ortho Sarpy.Spec.Geo Sarpy.Spec.Layout

/-- the scalar operations at ℝ -/
noncomputable instance instOrthoScalarReal : OrthoScalar ℝ where
  ofInt z := (z : ℝ)
  floor x := ⌊x⌋
  le a b := decide (a ≤ b)
  lt a b := decide (a < b)

@[simp] theorem ofInt_real (z : Int) : (OrthoScalar.ofInt z : ℝ) = (z : ℝ) := rfl
@[simp] theorem floor_real (x : ℝ) : OrthoScalar.floor x = ⌊x⌋ := rfl
@[simp] theorem le_real (a b : ℝ) : OrthoScalar.le a b = decide (a ≤ b) := rfl
@[simp] theorem lt_real (a b : ℝ) : OrthoScalar.lt a b = decide (a < b) := rfl

/-! ## 1. the plane maps -/

theorem V3.eq_iff (a b : V3 ℝ) : a = b ↔ a.x = b.x ∧ a.y = b.y ∧ a.z = b.z := by
  cases a; cases b; simp

/-- `numpy.cross` -/
def cross (a b : V3 ℝ) : V3 ℝ := ⟨a.y * b.z - a.z * b.y, a.z * b.x - a.x * b.z, a.x * b.y - a.y * b.x⟩

/-- unit, mutually perpendicular row and column vectors (what `set_plane_frame` establishes) -/
def Orthonormal (P : Plane ℝ) : Prop :=
  V3.dot P.rowVec P.rowVec = 1 ∧ V3.dot P.colVec P.colVec = 1 ∧ V3.dot P.rowVec P.colVec = 0

/-- non-zero sample spacings (the setters insist on `> 0`) -/
def Spaced (P : Plane ℝ) : Prop := P.rowSS ≠ 0 ∧ P.colSS ≠ 0

/-- the point lies in the plane through the reference point spanned by the row and column vectors -/
def OnPlane (P : Plane ℝ) (v : V3 ℝ) : Prop := V3.dot (V3.sub v P.ref) (cross P.rowVec P.colVec) = 0

/-- ortho → ECF → ortho is the identity -/
theorem ecfToOrtho_orthoToEcf (P : Plane ℝ) (ho : Orthonormal P) (hs : Spaced P) (r c : ℝ) :
    planeEcfToOrtho P (orthoToEcf P r c) = (r, c) := by
  obtain ⟨h1, h2, h3⟩ := ho
  obtain ⟨hr, hc⟩ := hs
  simp only [V3.dot] at h1 h2 h3
  simp only [planeEcfToOrtho, orthoToEcf, V3.add, V3.sub, V3.smul, V3.dot]
  refine Prod.ext ?_ ?_
  · simp only
    have e : (P.ref.x + (r - P.refRow) * P.rowSS * P.rowVec.x + (c - P.refCol) * P.colSS * P.colVec.x - P.ref.x) * P.rowVec.x
        + (P.ref.y + (r - P.refRow) * P.rowSS * P.rowVec.y + (c - P.refCol) * P.colSS * P.colVec.y - P.ref.y) * P.rowVec.y
        + (P.ref.z + (r - P.refRow) * P.rowSS * P.rowVec.z + (c - P.refCol) * P.colSS * P.colVec.z - P.ref.z) * P.rowVec.z
        = (r - P.refRow) * P.rowSS := by
      linear_combination ((r - P.refRow) * P.rowSS) * h1 + ((c - P.refCol) * P.colSS) * h3
    rw [e]
    field_simp
    ring
  · simp only
    have e : (P.ref.x + (r - P.refRow) * P.rowSS * P.rowVec.x + (c - P.refCol) * P.colSS * P.colVec.x - P.ref.x) * P.colVec.x
        + (P.ref.y + (r - P.refRow) * P.rowSS * P.rowVec.y + (c - P.refCol) * P.colSS * P.colVec.y - P.ref.y) * P.colVec.y
        + (P.ref.z + (r - P.refRow) * P.rowSS * P.rowVec.z + (c - P.refCol) * P.colSS * P.colVec.z - P.ref.z) * P.colVec.z
        = (c - P.refCol) * P.colSS := by
      linear_combination ((r - P.refRow) * P.rowSS) * h3 + ((c - P.refCol) * P.colSS) * h2
    rw [e]
    field_simp
    ring

/-- a vector with no component along `r × c` is its projection on orthonormal `r`, `c` -/
theorem decompose (r c w : V3 ℝ) (h1 : V3.dot r r = 1) (h2 : V3.dot c c = 1) (h3 : V3.dot r c = 0)
    (h0 : V3.dot w (cross r c) = 0) :
    w = V3.add (V3.smul (V3.dot w r) r) (V3.smul (V3.dot w c) c) := by
  rw [V3.eq_iff]
  simp only [V3.dot, cross, V3.add, V3.smul] at *
  refine ⟨?_, ?_, ?_⟩
  · linear_combination
      (-w.x * (c.x * c.x + c.y * c.y + c.z * c.z) + (w.x * c.x + w.y * c.y + w.z * c.z) * c.x) * h1
      + (-w.x + (w.x * r.x + w.y * r.y + w.z * r.z) * r.x) * h2
      + (w.x * (r.x * c.x + r.y * c.y + r.z * c.z) - (w.x * c.x + w.y * c.y + w.z * c.z) * r.x
          - (w.x * r.x + w.y * r.y + w.z * r.z) * c.x) * h3
      + (r.y * c.z - r.z * c.y) * h0
  · linear_combination
      (-w.y * (c.x * c.x + c.y * c.y + c.z * c.z) + (w.x * c.x + w.y * c.y + w.z * c.z) * c.y) * h1
      + (-w.y + (w.x * r.x + w.y * r.y + w.z * r.z) * r.y) * h2
      + (w.y * (r.x * c.x + r.y * c.y + r.z * c.z) - (w.x * c.x + w.y * c.y + w.z * c.z) * r.y
          - (w.x * r.x + w.y * r.y + w.z * r.z) * c.y) * h3
      + (r.z * c.x - r.x * c.z) * h0
  · linear_combination
      (-w.z * (c.x * c.x + c.y * c.y + c.z * c.z) + (w.x * c.x + w.y * c.y + w.z * c.z) * c.z) * h1
      + (-w.z + (w.x * r.x + w.y * r.y + w.z * r.z) * r.z) * h2
      + (w.z * (r.x * c.x + r.y * c.y + r.z * c.z) - (w.x * c.x + w.y * c.y + w.z * c.z) * r.z
          - (w.x * r.x + w.y * r.y + w.z * r.z) * c.z) * h3
      + (r.x * c.y - r.y * c.x) * h0

/-- ECF → ortho → ECF is the identity on the plane -/
theorem orthoToEcf_ecfToOrtho (P : Plane ℝ) (ho : Orthonormal P) (hs : Spaced P) (v : V3 ℝ) (hv : OnPlane P v) :
    orthoToEcf P (planeEcfToOrtho P v).1 (planeEcfToOrtho P v).2 = v := by
  obtain ⟨h1, h2, h3⟩ := ho
  obtain ⟨hr, hc⟩ := hs
  have key := decompose P.rowVec P.colVec (V3.sub v P.ref) h1 h2 h3 hv
  rw [V3.eq_iff] at key
  obtain ⟨kx, ky, kz⟩ := key
  simp only [V3.add, V3.smul, V3.sub] at kx ky kz
  rw [V3.eq_iff]
  simp only [planeEcfToOrtho, orthoToEcf, V3.add, V3.smul, V3.sub]
  have er : ∀ d : ℝ, (P.refRow + d / P.rowSS - P.refRow) * P.rowSS = d := by
    intro d; field_simp; ring
  have ec : ∀ d : ℝ, (P.refCol + d / P.colSS - P.refCol) * P.colSS = d := by
    intro d; field_simp; ring
  rw [er, ec]
  refine ⟨?_, ?_, ?_⟩
  · linarith
  · linarith
  · linarith

/-- every point the forward map produces is on the plane -/
theorem orthoToEcf_onPlane (P : Plane ℝ) (r c : ℝ) : OnPlane P (orthoToEcf P r c) := by
  simp only [OnPlane, orthoToEcf, cross, V3.dot, V3.add, V3.sub, V3.smul]
  ring

/-- … and every point of the plane is produced by it (parametric form of the plane) -/
theorem onPlane_iff_exists (P : Plane ℝ) (ho : Orthonormal P) (hs : Spaced P) (v : V3 ℝ) :
    OnPlane P v ↔ ∃ r c, v = orthoToEcf P r c := by
  constructor
  · intro hv
    exact ⟨_, _, (orthoToEcf_ecfToOrtho P ho hs v hv).symm⟩
  · rintro ⟨r, c, rfl⟩
    exact orthoToEcf_onPlane P r c

/-- **ortho_ecf_inverse**: the two PGProjection affine maps are mutually inverse (ortho grid ↔ plane) -/
theorem ortho_ecf_inverse (P : Plane ℝ) (ho : Orthonormal P) (hs : Spaced P) :
    (∀ r c, planeEcfToOrtho P (orthoToEcf P r c) = (r, c)) ∧
    (∀ v, OnPlane P v → orthoToEcf P (planeEcfToOrtho P v).1 (planeEcfToOrtho P v).2 = v) :=
  ⟨ecfToOrtho_orthoToEcf P ho hs, orthoToEcf_ecfToOrtho P ho hs⟩

/-- the forward map is injective: two ortho pixels never share a ground point -/
theorem orthoToEcf_injective (P : Plane ℝ) (ho : Orthonormal P) (hs : Spaced P) (r c r' c' : ℝ)
    (h : orthoToEcf P r c = orthoToEcf P r' c') : r = r' ∧ c = c' := by
  have a := ecfToOrtho_orthoToEcf P ho hs r c
  rw [h, ecfToOrtho_orthoToEcf P ho hs r' c'] at a
  exact ⟨(Prod.mk.inj a).1.symm, (Prod.mk.inj a).2.symm⟩

/-- **the product's own metadata names the same ground point**: the SIDD plane (reference pixel shifted by the first
    ortho row / column) maps product pixel (i, j) to the ground point of ortho pixel (i + r0, j + c0) -/
theorem product_plane_agrees (P : Plane ℝ) (r0 c0 i j : ℝ) :
    orthoToEcf (productPlane P r0 c0) i j = orthoToEcf P (i + r0) (j + c0) := by
  rw [V3.eq_iff]
  simp only [productPlane, orthoToEcf, V3.add, V3.smul]
  refine ⟨?_, ?_, ?_⟩ <;> ring

/-- the product plane keeps the frame, so it is orthonormal / spaced when the projection is -/
theorem productPlane_frame (P : Plane ℝ) (r0 c0 : ℝ) :
    (Orthonormal (productPlane P r0 c0) ↔ Orthonormal P) ∧ (Spaced (productPlane P r0 c0) ↔ Spaced P) :=
  ⟨Iff.rfl, Iff.rfl⟩

/-- squared Euclidean length -/
def normSq (v : V3 ℝ) : ℝ := V3.dot v v

/-- neighbouring rows are one row spacing apart, neighbouring columns one column spacing -/
theorem ortho_step_is_spacing (P : Plane ℝ) (ho : Orthonormal P) (r c : ℝ) :
    normSq (V3.sub (orthoToEcf P (r + 1) c) (orthoToEcf P r c)) = P.rowSS * P.rowSS ∧
    normSq (V3.sub (orthoToEcf P r (c + 1)) (orthoToEcf P r c)) = P.colSS * P.colSS := by
  obtain ⟨h1, h2, _⟩ := ho
  simp only [V3.dot] at h1 h2
  simp only [normSq, orthoToEcf, V3.add, V3.sub, V3.smul, V3.dot]
  constructor
  · linear_combination (P.rowSS * P.rowSS) * h1
  · linear_combination (P.colSS * P.colSS) * h2

/-! ## 2. the index functions -/

/-- counting the naturals below `n` that are below an integer bound -/
theorem countP_range_lt (m : Int) (n : Nat) :
    (List.range n).countP (fun (k : Nat) => decide ((k : Int) < m)) = min n m.toNat := by
  induction n with
  | zero => simp
  | succ n ih =>
    rw [List.range_succ, List.countP_append, ih]
    by_cases h : (n : Int) < m
    · simp [h]; omega
    · simp [h]; omega

/-- **numpy.digitize on consecutive integer lines**: the number of lines `g0, g0+1, …, g0+n-1` that are `≤ x` -/
theorem digitize_grid (g0 : Int) (n : Nat) (x : ℝ) :
    digitize (grid g0 n : List ℝ) x = min n (⌊x - g0⌋ + 1).toNat := by
  unfold digitize grid
  rw [List.countP_map, ← countP_range_lt]
  congr 1
  funext k
  simp only [Function.comp, le_real, ofInt_real]
  rw [decide_eq_decide, Int.lt_add_one_iff, Int.le_floor]
  push_cast
  constructor <;> intro h <;> linarith

/-- the mask of `_get_mask`, spelled out -/
theorem inMask_iff (g0 : Int) (n : Nat) (x : ℝ) :
    inMask g0 n x = true ↔ (g0 : ℝ) ≤ x ∧ x < (g0 : ℝ) + n - 1 := by
  simp [inMask]

/-- `InMask g0 n x`: the window is not empty and the coordinate passes the code's mask -/
def InMask (g0 : Int) (n : Nat) (x : ℝ) : Prop := 0 < n ∧ (g0 : ℝ) ≤ x ∧ x < (g0 : ℝ) + n - 1

theorem floor_sub_bounds {g0 : Int} {n : Nat} {x : ℝ} (h : InMask g0 n x) :
    0 ≤ ⌊x - g0⌋ ∧ ⌊x - g0⌋ + 1 < (n : Int) := by
  obtain ⟨_, h1, h2⟩ := h
  constructor
  · rw [Int.le_floor]; push_cast; linarith
  · have : ⌊x - g0⌋ < (n : Int) - 1 := by
      rw [Int.floor_lt]; push_cast; linarith
    omega

/-- inside the mask the code's index into the window is `⌊x - g0⌋ + 1` -/
theorem codeIndex_eq (g0 : Int) (n : Nat) (x : ℝ) (h : InMask g0 n x) :
    codeIndex g0 n x = some (⌊x - g0⌋ + 1).toNat := by
  have hb := floor_sub_bounds h
  obtain ⟨hn, h1, h2⟩ := h
  have hm : inMask g0 n x = true := (inMask_iff g0 n x).2 ⟨h1, h2⟩
  unfold codeIndex
  rw [if_neg (by omega), if_pos hm, digitize_grid]
  congr 1
  omega

/-- outside the mask (or with an empty window) the pixel keeps the pad value -/
theorem codeIndex_none (g0 : Int) (n : Nat) (x : ℝ) (h : ¬ InMask g0 n x) : codeIndex g0 n x = none := by
  unfold codeIndex
  by_cases hn : n = 0
  · rw [if_pos hn]
  · rw [if_neg hn, if_neg]
    intro hm
    exact h ⟨by omega, (inMask_iff g0 n x).1 hm⟩

theorem codeIndex_isSome_iff (g0 : Int) (n : Nat) (x : ℝ) : (codeIndex g0 n x).isSome ↔ InMask g0 n x := by
  by_cases h : InMask g0 n x
  · simp [codeIndex_eq g0 n x h, h]
  · simp [codeIndex_none g0 n x h, h]

/-- the index never leaves the window … -/
theorem codeIndex_lt (g0 : Int) (n : Nat) (x : ℝ) (i : Nat) (h : codeIndex g0 n x = some i) : i < n := by
  have hm : InMask g0 n x := (codeIndex_isSome_iff g0 n x).1 (by simp [h])
  rw [codeIndex_eq g0 n x hm] at h
  have hb := floor_sub_bounds hm
  have := Option.some.inj h
  omega

/-- … and never is its first line: source line `g0` is not read for any coordinate -/
theorem codeIndex_pos (g0 : Int) (n : Nat) (x : ℝ) (i : Nat) (h : codeIndex g0 n x = some i) : 0 < i := by
  have hm : InMask g0 n x := (codeIndex_isSome_iff g0 n x).1 (by simp [h])
  rw [codeIndex_eq g0 n x hm] at h
  have hb := floor_sub_bounds hm
  have := Option.some.inj h
  omega

/-- the source line (absolute number) the code reads for coordinate `x` from the window `g0 … g0+n-1` -/
noncomputable def codePixel (g0 : Int) (n : Nat) (x : ℝ) : Option Int :=
  (codeIndex g0 n x).map (fun (i : Nat) => g0 + (i : Int))

/-- **what the code reads**: the line after `⌊x⌋`, whatever the window -/
theorem codePixel_eq (g0 : Int) (n : Nat) (x : ℝ) (h : InMask g0 n x) : codePixel g0 n x = some (⌊x⌋ + 1) := by
  have hb := floor_sub_bounds h
  unfold codePixel
  rw [codeIndex_eq g0 n x h, Option.map_some]
  congr 1
  have : ⌊x - (g0 : ℝ)⌋ = ⌊x⌋ - g0 := Int.floor_sub_intCast x g0
  omega

/-- the line read does not depend on the source window (block) as long as the coordinate passes both masks -/
theorem window_independent (g0 g0' : Int) (n n' : Nat) (x : ℝ) (h : InMask g0 n x) (h' : InMask g0' n' x) :
    codePixel g0 n x = codePixel g0' n' x := by
  rw [codePixel_eq g0 n x h, codePixel_eq g0' n' x h']

theorem nearestPixel_eq (x : ℝ) : nearestPixel x = ⌊x + 1 / 2⌋ := by
  simp [nearestPixel]

theorem nearestPixel_eq_round (x : ℝ) : nearestPixel x = round x := by
  rw [nearestPixel_eq, round_eq]

/-- **nearest_index_bound**: the specification's line is within half a line of the coordinate -/
theorem nearest_index_bound (x : ℝ) : |((nearestPixel x : Int) : ℝ) - x| ≤ 1 / 2 := by
  rw [nearestPixel_eq_round, abs_sub_comm]
  exact abs_sub_round x

/-- … and no integer is closer -/
theorem nearest_index_minimal (x : ℝ) (k : Int) : |((nearestPixel x : Int) : ℝ) - x| ≤ |(k : ℝ) - x| := by
  rw [nearestPixel_eq_round, abs_sub_comm, abs_sub_comm (k : ℝ)]
  exact round_le x k

/-- inside the window the bound is about the line actually selected -/
theorem nearestIndex_bound (g0 : Int) (n : Nat) (x : ℝ) (i : Nat) (h : nearestIndex g0 n x = some i) :
    i < n ∧ |((g0 + (i : Int) : Int) : ℝ) - x| ≤ 1 / 2 := by
  unfold nearestIndex at h
  simp only at h
  split at h
  · rename_i hk
    have hi := Option.some.inj h
    have e : g0 + (i : Int) = nearestPixel x := by omega
    refine ⟨by omega, ?_⟩
    rw [e]
    exact nearest_index_bound x
  · exact absurd h (by simp)

/-- **where the code agrees with the specification**: exactly when the fractional part is at least one half -/
theorem code_index_eq_nearest_iff (g0 : Int) (n : Nat) (x : ℝ) (h : InMask g0 n x) :
    codePixel g0 n x = some (nearestPixel x) ↔ 1 / 2 ≤ Int.fract x := by
  rw [codePixel_eq g0 n x h, nearestPixel_eq, Option.some_inj, eq_comm, Int.floor_eq_iff]
  have h1 := Int.lt_floor_add_one x
  have h2 : Int.fract x = x - ⌊x⌋ := (Int.self_sub_floor x).symm
  push_cast
  constructor
  · intro a; linarith [a.1]
  · intro a; constructor <;> linarith

/-- **where it differs**: for a fractional part below one half the code reads the line AFTER the nearest one -/
theorem code_index_eq_nearest_succ_iff (g0 : Int) (n : Nat) (x : ℝ) (h : InMask g0 n x) :
    codePixel g0 n x = some (nearestPixel x + 1) ↔ Int.fract x < 1 / 2 := by
  rw [codePixel_eq g0 n x h, nearestPixel_eq, Option.some_inj]
  have h0 := Int.floor_le x
  have h2 : Int.fract x = x - ⌊x⌋ := (Int.self_sub_floor x).symm
  constructor
  · intro a
    have e : ⌊x + 1 / 2⌋ = ⌊x⌋ := by omega
    have := Int.lt_floor_add_one (x + 1 / 2)
    rw [e] at this
    linarith
  · intro a
    have e : ⌊x + 1 / 2⌋ = ⌊x⌋ := by
      rw [Int.floor_eq_iff]
      constructor <;> linarith
    omega

/-- the code's line is the nearest one or the one after it, never anything else -/
theorem code_pixel_nearest_or_next (g0 : Int) (n : Nat) (x : ℝ) (h : InMask g0 n x) :
    codePixel g0 n x = some (nearestPixel x) ∨ codePixel g0 n x = some (nearestPixel x + 1) := by
  rcases le_or_gt (1 / 2) (Int.fract x) with a | a
  · exact Or.inl ((code_index_eq_nearest_iff g0 n x h).2 a)
  · exact Or.inr ((code_index_eq_nearest_succ_iff g0 n x h).2 a)

/-- the code's line lies strictly above the coordinate, by up to one whole line (the nearest line is within 1/2) -/
theorem code_pixel_error (g0 : Int) (n : Nat) (x : ℝ) (h : InMask g0 n x) (p : Int) (hp : codePixel g0 n x = some p) :
    0 < (p : ℝ) - x ∧ (p : ℝ) - x ≤ 1 := by
  rw [codePixel_eq g0 n x h] at hp
  have e : p = ⌊x⌋ + 1 := (Option.some.inj hp).symm
  have h0 := Int.floor_le x
  have h1 := Int.lt_floor_add_one x
  subst e
  push_cast
  constructor <;> linarith

/-- **off by one at every integer coordinate**: a pixel that falls exactly on source line `k` gets line `k + 1` -/
theorem code_index_off_by_one_at_integers (g0 : Int) (n : Nat) (k : Int) (h : InMask g0 n (k : ℝ)) :
    codePixel g0 n (k : ℝ) = some (k + 1) ∧ nearestPixel (k : ℝ) = k := by
  constructor
  · rw [codePixel_eq g0 n _ h, Int.floor_intCast]
  · rw [nearestPixel_eq, Int.floor_eq_iff]
    constructor <;> linarith

/-- full-strength statement of the resampling part of the property for one dimension: wherever the code writes a
    value it is the value of the nearest line -/
def CodeIsNearest : Prop :=
  ∀ (g0 : Int) (n : Nat) (x : ℝ), InMask g0 n x → codePixel g0 n x = some (nearestPixel x)

/-- **negation witness**: window lines 0 … 9, coordinate 5 — the code reads line 6 -/
theorem code_not_nearest : ¬ CodeIsNearest := by
  intro hc
  have hm : InMask 0 10 ((5 : Int) : ℝ) := by
    refine ⟨by norm_num, ?_, ?_⟩ <;> norm_num
  have h1 := hc 0 10 ((5 : Int) : ℝ) hm
  have h2 := code_index_off_by_one_at_integers 0 10 5 hm
  rw [h2.1, h2.2] at h1
  exact absurd (Option.some.inj h1) (by norm_num)

/-- what does hold of the unchanged code: the nearest line or its successor, and exactly the nearest one on the
    upper half of every cell -/
theorem code_is_nearest_partial (g0 : Int) (n : Nat) (x : ℝ) (h : InMask g0 n x) (hf : 1 / 2 ≤ Int.fract x) :
    codePixel g0 n x = some (nearestPixel x) :=
  (code_index_eq_nearest_iff g0 n x h).2 hf

/-! ### the proposed repair is the specification -/

/-- the source line the repaired index function reads -/
noncomputable def fixedPixel (g0 : Int) (n : Nat) (x : ℝ) : Option Int :=
  (fixedIndex g0 n x).map (fun (i : Nat) => g0 + (i : Int))

/-- **the repair proposed in NOTES_C20.md selects the nearest line** everywhere inside the mask (ties upwards) -/
theorem fixed_index_is_nearest (g0 : Int) (n : Nat) (x : ℝ) (h : InMask g0 n x) :
    fixedPixel g0 n x = some (nearestPixel x) := by
  have hb := floor_sub_bounds h
  have hfl : ⌊x - (g0 : ℝ)⌋ = ⌊x⌋ - g0 := Int.floor_sub_intCast x g0
  have hm : inMask g0 n x = true := (inMask_iff g0 n x).2 ⟨h.2.1, h.2.2⟩
  have hd : digitize (grid g0 n : List ℝ) x = (⌊x⌋ - g0 + 1).toNat := by
    rw [digitize_grid, hfl]; omega
  have hi : ((⌊x⌋ - g0 + 1).toNat : Int) = ⌊x⌋ - g0 + 1 := by omega
  have e2 : g0 + (⌊x⌋ - g0 + 1) = ⌊x⌋ + 1 := by omega
  have hfr : Int.fract x = x - ⌊x⌋ := (Int.self_sub_floor x).symm
  unfold fixedPixel fixedIndex
  rw [if_neg (by have := h.1; omega), if_pos hm]
  simp only [hd, lt_real, ofInt_real, Option.map_some, hi, e2]
  by_cases a : Int.fract x < 1 / 2
  · have hn := (code_index_eq_nearest_succ_iff g0 n x h).2 a
    rw [codePixel_eq g0 n x h, Option.some_inj] at hn
    rw [if_pos (by rw [decide_eq_true_eq]; push_cast; linarith)]
    congr 1
    omega
  · have hn := (code_index_eq_nearest_iff g0 n x h).2 (not_lt.1 a)
    rw [codePixel_eq g0 n x h, Option.some_inj] at hn
    rw [if_neg (by rw [decide_eq_true_eq]; push_cast; linarith)]
    congr 1
    omega

/-! ## 3. pad value outside the source window -/

/-- **fill_outside** (code model): a product pixel whose source row or column coordinate fails the mask keeps the
    pad value -/
theorem fill_outside {β : Type} (vals : Nat → Nat → β) (fill : β) (g0r : Int) (nr : Nat) (g0c : Int) (nc : Nat) (x y : ℝ)
    (h : ¬ InMask g0r nr x ∨ ¬ InMask g0c nc y) :
    codeSample vals fill g0r nr g0c nc x y = fill := by
  unfold codeSample
  rcases h with h | h
  · rw [codeIndex_none g0r nr x h]; rfl
  · rw [codeIndex_none g0c nc y h]
    cases codeIndex g0r nr x <;> rfl

/-- in particular for the whole image (window lines `0 … n-1`): coordinates outside `[0, n)` give the pad value -/
theorem fill_outside_image {β : Type} (vals : Nat → Nat → β) (fill : β) (nr nc : Nat) (x y : ℝ)
    (h : x < 0 ∨ (nr : ℝ) ≤ x ∨ y < 0 ∨ (nc : ℝ) ≤ y) :
    codeSample vals fill 0 nr 0 nc x y = fill := by
  apply fill_outside
  rcases h with h | h | h | h
  · left; rintro ⟨_, h1, _⟩; push_cast at h1; linarith
  · left; rintro ⟨_, _, h2⟩; push_cast at h2; linarith
  · right; rintro ⟨_, h1, _⟩; push_cast at h1; linarith
  · right; rintro ⟨_, _, h2⟩; push_cast at h2; linarith

/-- inside both masks the code writes the value at `(⌊x - g0r⌋ + 1, ⌊y - g0c⌋ + 1)` of the window -/
theorem codeSample_inside {β : Type} (vals : Nat → Nat → β) (fill : β) (g0r : Int) (nr : Nat) (g0c : Int) (nc : Nat) (x y : ℝ)
    (hx : InMask g0r nr x) (hy : InMask g0c nc y) :
    codeSample vals fill g0r nr g0c nc x y = vals (⌊x - g0r⌋ + 1).toNat (⌊y - g0c⌋ + 1).toNat := by
  unfold codeSample
  rw [codeIndex_eq g0r nr x hx, codeIndex_eq g0c nc y hy]
  rfl

theorem nearestIndex_none (g0 : Int) (n : Nat) (x : ℝ) (h : x < (g0 : ℝ) - 1 / 2 ∨ (g0 : ℝ) + n - 1 / 2 ≤ x) :
    nearestIndex g0 n x = none := by
  unfold nearestIndex
  simp only
  rw [if_neg]
  rw [nearestPixel_eq]
  rintro ⟨a, b⟩
  rcases h with h | h
  · have : (g0 : Int) ≤ ⌊x + 1 / 2⌋ := by omega
    rw [Int.le_floor] at this
    linarith
  · have : ⌊x + 1 / 2⌋ < g0 + (n : Int) := by omega
    rw [Int.floor_lt] at this
    push_cast at this
    linarith

/-- **fill outside, specification**: more than half a line outside the window there is no nearest line -/
theorem nearest_fill_outside {β : Type} (vals : Nat → Nat → β) (fill : β) (g0r : Int) (nr : Nat) (g0c : Int) (nc : Nat) (x y : ℝ)
    (h : (x < (g0r : ℝ) - 1 / 2 ∨ (g0r : ℝ) + nr - 1 / 2 ≤ x) ∨ (y < (g0c : ℝ) - 1 / 2 ∨ (g0c : ℝ) + nc - 1 / 2 ≤ y)) :
    nearestSample vals fill g0r nr g0c nc x y = fill := by
  unfold nearestSample
  rcases h with h | h
  · rw [nearestIndex_none g0r nr x h]; rfl
  · rw [nearestIndex_none g0c nc y h]
    cases nearestIndex g0r nr x <;> rfl

/-- where the code's mask holds the specification has a line too … -/
theorem nearestIndex_isSome_of_inMask (g0 : Int) (n : Nat) (x : ℝ) (h : InMask g0 n x) : (nearestIndex g0 n x).isSome := by
  obtain ⟨hn, h1, h2⟩ := h
  unfold nearestIndex
  simp only
  rw [if_pos, Option.isSome_some]
  rw [nearestPixel_eq]
  constructor
  · have : g0 ≤ ⌊x + 1 / 2⌋ := by rw [Int.le_floor]; linarith
    omega
  · have : ⌊x + 1 / 2⌋ < g0 + (n : Int) := by rw [Int.floor_lt]; push_cast; linarith
    omega

/-- … so the code never writes a value where the specification pads -/
theorem code_fill_of_nearest_fill (g0 : Int) (n : Nat) (x : ℝ) (h : nearestIndex g0 n x = none) : codeIndex g0 n x = none := by
  apply codeIndex_none
  intro hm
  have := nearestIndex_isSome_of_inMask g0 n x hm
  rw [h] at this
  exact absurd this (by simp)

/-- the converse fails on the rim: at coordinate 9.25 of a 10-line window the nearest line is 9 (a valid line), the
    code pads -/
theorem rim_example : nearestIndex 0 10 ((37 : ℝ) / 4) = some 9 ∧ codeIndex 0 10 ((37 : ℝ) / 4) = none := by
  constructor
  · have e : nearestPixel ((37 : ℝ) / 4) = 9 := by
      rw [nearestPixel_eq, Int.floor_eq_iff]; constructor <;> norm_num
    unfold nearestIndex
    simp only
    rw [e]
    rfl
  · apply codeIndex_none
    rintro ⟨_, _, h2⟩
    norm_num at h2

/-! ## 4. block tiling -/

theorem rangeMap_append {β : Type} (f : Nat → β) (a b c : Nat) (hab : a ≤ b) (hbc : b ≤ c) :
    rangeMap f a b ++ rangeMap f b c = rangeMap f a c := by
  unfold rangeMap
  rw [← List.map_append]
  congr 1
  have e : b = a + (b - a) := by omega
  conv_lhs => rw [e]
  rw [show a + (b - a) - a = b - a by omega]
  rw [show c - (a + (b - a)) = c - b by omega, List.range'_append_1]
  congr 1
  omega

theorem rangeMap_self {β : Type} (f : Nat → β) (a : Nat) : rangeMap f a a = [] := by
  simp [rangeMap]

/-- end of the last tile (or `lo` when there is none) -/
def tilesEnd (lo : Nat) (tiles : List (Nat × Nat)) : Nat := (tiles.getLast?.map (fun s => s.2)).getD lo

theorem tilesEnd_cons (lo : Nat) (t : Nat × Nat) (rest : List (Nat × Nat)) :
    tilesEnd lo (t :: rest) = tilesEnd t.2 rest := by
  cases rest with
  | nil => simp [tilesEnd]
  | cons u us =>
    simp only [tilesEnd, List.getLast?_cons_cons]
    cases h : (u :: us).getLast? with
    | none => simp at h
    | some v => simp

theorem consecutive_le_end (lo : Nat) (tiles : List (Nat × Nat)) (h : Consecutive lo tiles) : lo ≤ tilesEnd lo tiles := by
  induction tiles generalizing lo with
  | nil => simp [tilesEnd]
  | cons t rest ih =>
    obtain ⟨a, b⟩ := t
    obtain ⟨ha, hab, hc⟩ := h
    rw [tilesEnd_cons]
    have := ih b hc
    simp only at this ⊢
    omega

/-- **general list lemma**: mapping a pointwise function over the pieces of ANY consecutive tiling and concatenating
    equals mapping it over the whole range -/
theorem tiles_flatten {β : Type} (f : Nat → β) (lo : Nat) (tiles : List (Nat × Nat)) (h : Consecutive lo tiles) :
    (tiles.map (fun t => rangeMap f t.1 t.2)).flatten = rangeMap f lo (tilesEnd lo tiles) := by
  induction tiles generalizing lo with
  | nil => simp [tilesEnd, rangeMap_self]
  | cons t rest ih =>
    obtain ⟨a, b⟩ := t
    obtain ⟨ha, hab, hc⟩ := h
    subst ha
    rw [List.map_cons, List.flatten_cons, ih b hc, tilesEnd_cons]
    exact rangeMap_append f a b _ hab (consecutive_le_end b rest hc)

/-- the tiling the iterator uses is consecutive from 0 and ends at `size` (from C03's `segmentation_tiles`) -/
theorem orthoBlocks_tiles (size step : Nat) (hs : 0 < step) :
    Consecutive 0 (orthoBlocks size step) ∧ tilesEnd 0 (orthoBlocks size step) = size := by
  unfold orthoBlocks
  split
  · exact ⟨⟨rfl, Nat.zero_le _, trivial⟩, by simp [tilesEnd]⟩
  · have h := Sarpy.Props.C03.segmentation_tiles size step hs
    exact ⟨h.1, h.2.2⟩

/-- every block is non-empty (for a non-empty range) and stays inside the range -/
theorem orthoBlocks_bounds (size step : Nat) (hs : 0 < step) (hz : 0 < size) :
    ∀ b ∈ orthoBlocks size step, b.1 < b.2 ∧ b.2 ≤ size := by
  unfold orthoBlocks
  split
  · intro b hb
    rw [List.mem_singleton] at hb
    subst hb
    exact ⟨hz, Nat.le_refl _⟩
  · intro b hb
    have h := (Sarpy.Props.C03.segmentation_tiles size step hs).2.1 b hb
    exact ⟨h.1, h.2.2⟩

/-- split along rows (dimension 1): blocks of complete rows, stacked -/
theorem assembleRows_eq {β : Type} (pix : Nat → Nat → β) (R C : Nat) (tiles : List (Nat × Nat))
    (h : Consecutive 0 tiles) (he : tilesEnd 0 tiles = R) :
    assembleRows pix C tiles = productWhole pix R C := by
  unfold assembleRows productWhole blockRows
  rw [tiles_flatten (fun r => rangeMap (pix r) 0 C) 0 tiles h, he]

/-- split along columns (dimension 0): every product row is the concatenation of the blocks' rows -/
theorem assembleCols_eq {β : Type} (pix : Nat → Nat → β) (R C : Nat) (tiles : List (Nat × Nat))
    (h : Consecutive 0 tiles) (he : tilesEnd 0 tiles = C) :
    assembleCols pix R tiles = productWhole pix R C := by
  unfold assembleCols productWhole
  congr 1
  funext r
  rw [tiles_flatten (pix r) 0 tiles h, he]

/-- **block_tiling_independent**: for every product size, block size and split dimension, the product assembled from
    blocks that are computed pointwise equals the product computed in one piece — hence any two block sizes / split
    dimensions give the same product -/
theorem block_tiling_independent {β : Type} (pix : Nat → Nat → β) (R C step : Nat) (hs : 0 < step) :
    assembleRows pix C (orthoBlocks R step) = productWhole pix R C ∧
    assembleCols pix R (orthoBlocks C step) = productWhole pix R C :=
  ⟨assembleRows_eq pix R C _ (orthoBlocks_tiles R step hs).1 (orthoBlocks_tiles R step hs).2,
   assembleCols_eq pix R C _ (orthoBlocks_tiles C step hs).1 (orthoBlocks_tiles C step hs).2⟩

theorem block_sizes_agree {β : Type} (pix : Nat → Nat → β) (R C step step' : Nat) (hs : 0 < step) (hs' : 0 < step') :
    assembleRows pix C (orthoBlocks R step) = assembleCols pix R (orthoBlocks C step') := by
  rw [(block_tiling_independent pix R C step hs).1, (block_tiling_independent pix R C step' hs').2]

/-- the fetch block size is at least one line and enough lines reach the requested byte count -/
theorem fetchBlockSize_pos (bytes full : Nat) : 0 < fetchBlockSize bytes full := by
  unfold fetchBlockSize; omega

/-! ## 5. the hypotheses are satisfiable -/

/-- an axis-aligned plane with spacings 0.75 / 0.5 and a shifted reference pixel -/
noncomputable def examplePlane : Plane ℝ :=
  { ref := ⟨6378137, 0, 0⟩, refRow := 650, refCol := 750, rowVec := ⟨0, 0, -1⟩, colVec := ⟨0, 1, 0⟩,
    rowSS := 3 / 4, colSS := 1 / 2 }

example : Orthonormal examplePlane ∧ Spaced examplePlane := by
  refine ⟨⟨?_, ?_, ?_⟩, ?_, ?_⟩ <;> norm_num [examplePlane, V3.dot]

/-- a rotated (3-4-5) frame -/
noncomputable def examplePlane2 : Plane ℝ :=
  { ref := ⟨1, 2, 3⟩, refRow := 0, refCol := 0, rowVec := ⟨3 / 5, 4 / 5, 0⟩, colVec := ⟨-4 / 5, 3 / 5, 0⟩,
    rowSS := 2, colSS := 3 }

example : Orthonormal examplePlane2 ∧ Spaced examplePlane2 := by
  refine ⟨⟨?_, ?_, ?_⟩, ?_, ?_⟩ <;> norm_num [examplePlane2, V3.dot]

example : orthoToEcf examplePlane 651 752 = ⟨6378137, 1, -(3 / 4)⟩ := by
  rw [V3.eq_iff]; norm_num [examplePlane, orthoToEcf, V3.add, V3.smul]

example : OnPlane examplePlane2 ⟨4, 6, 3⟩ := by
  norm_num [OnPlane, examplePlane2, cross, V3.dot, V3.sub]

/-- coordinate 5.75 of window lines 0 … 9: code and specification both pick line 6 -/
example : codePixel 0 10 ((23 : ℝ) / 4) = some 6 ∧ nearestPixel ((23 : ℝ) / 4) = 6 := by
  have hm : InMask 0 10 ((23 : ℝ) / 4) := by refine ⟨by norm_num, ?_, ?_⟩ <;> norm_num
  have e : ⌊(23 : ℝ) / 4⌋ = 5 := by rw [Int.floor_eq_iff]; constructor <;> norm_num
  constructor
  · rw [codePixel_eq 0 10 _ hm, e]; rfl
  · rw [nearestPixel_eq, Int.floor_eq_iff]; constructor <;> norm_num

/-- coordinate 5.25: the specification picks line 5, the code line 6 -/
example : codePixel 0 10 ((21 : ℝ) / 4) = some 6 ∧ nearestPixel ((21 : ℝ) / 4) = 5 := by
  have hm : InMask 0 10 ((21 : ℝ) / 4) := by refine ⟨by norm_num, ?_, ?_⟩ <;> norm_num
  have e : ⌊(21 : ℝ) / 4⌋ = 5 := by rw [Int.floor_eq_iff]; constructor <;> norm_num
  constructor
  · rw [codePixel_eq 0 10 _ hm, e]; rfl
  · rw [nearestPixel_eq, Int.floor_eq_iff]; constructor <;> norm_num

/-- a tiling of 10 columns in blocks of 4 -/
example : orthoBlocks 10 4 = [(0, 4), (4, 8), (8, 10)] := by decide

example : assembleCols (fun r c => 10 * r + c) 2 (orthoBlocks 5 2) = [[0, 1, 2, 3, 4], [10, 11, 12, 13, 14]] := by decide

end Sarpy.Props.C20
