/-
  C12 (continued) — injectivity of the forward map `geodetic_to_ecf` on the domain of the property.

    * `meridian_injective` : in the meridian plane, (φ, h) ↦ ((N+h) cos φ, (N(1−e²)+h) sin φ) is injective for
      cos φ ≥ 0 and h > −b²/a = −a(1−e²) (the smallest radius of curvature: the domain reaches down to the focal
      curve of the ellipse).  Pure real algebra, for ANY a > 0 and 0 < e² < 1.  Route: with u = h/N the point is
      (X(1+u), Z(1−e²+u)) for the foot point (X, Z) = (N cos φ, N sin φ), X² + (1−e²)Z² = a²; the function
      u ↦ p²/(1+u)² + (1−e²)z²/(1−e²+u)² is strictly decreasing on u > −(1−e²), so u is determined by (p, z), then
      the foot point, then N, cos φ, sin φ and h.
    * `forward_injective_on_domain` : for latitudes in [−90, 90], heights above −b²/a and any longitudes, equal ECF
      images have equal latitude and height, and — away from the poles, for longitudes in (−180, 180] — equal
      longitude.  `forward_injective` packages the off-pole case as plain injectivity of the triple.
    * `forward_at_north_pole` / `forward_at_south_pole` : at latitude ±90 the image is (0, 0, ±(b + h)) for every
      longitude: the longitude degeneracy, stated separately.
-/
import SarpyModel.Props.C12
import Mathlib.Analysis.SpecialFunctions.Trigonometric.Inverse

namespace Sarpy.Props.C12
open Sarpy.Spec.Geo

/-! ## 10. injectivity of the forward map -/

/-- if `X₁ k₁ = X₂ k₂` with `0 < k₁ < k₂` then `X₂² ≤ X₁²` -/
theorem sq_le_of_scaled_eq (X₁ X₂ k₁ k₂ : ℝ) (h1 : 0 < k₁) (h12 : k₁ < k₂) (heq : X₁ * k₁ = X₂ * k₂) :
    X₂ * X₂ ≤ X₁ * X₁ := by
  have hk : k₁ * k₁ < k₂ * k₂ := by nlinarith
  have hsq : X₁ * X₁ * (k₁ * k₁) = X₂ * X₂ * (k₂ * k₂) := by
    have : (X₁ * k₁) * (X₁ * k₁) = (X₂ * k₂) * (X₂ * k₂) := by rw [heq]
    linarith [this, mul_mul_mul_comm X₁ k₁ X₁ k₁, mul_mul_mul_comm X₂ k₂ X₂ k₂]
  have h2 : 0 ≤ X₂ * X₂ := mul_self_nonneg X₂
  have hk1 : 0 < k₁ * k₁ := mul_pos h1 h1
  by_contra hcon
  push Not at hcon
  have : X₁ * X₁ * (k₁ * k₁) < X₂ * X₂ * (k₁ * k₁) := mul_lt_mul_of_pos_right hcon hk1
  have : X₂ * X₂ * (k₁ * k₁) ≤ X₂ * X₂ * (k₂ * k₂) := mul_le_mul_of_nonneg_left hk.le h2
  linarith

/-- … and equality of the squares forces both to vanish -/
theorem zero_of_scaled_eq (X₁ X₂ k₁ k₂ : ℝ) (h1 : 0 < k₁) (h12 : k₁ < k₂) (heq : X₁ * k₁ = X₂ * k₂)
    (hsq : X₁ * X₁ = X₂ * X₂) : X₁ = 0 := by
  have hk : k₁ * k₁ < k₂ * k₂ := by nlinarith
  have h' : X₁ * X₁ * (k₁ * k₁) = X₂ * X₂ * (k₂ * k₂) := by
    have : (X₁ * k₁) * (X₁ * k₁) = (X₂ * k₂) * (X₂ * k₂) := by rw [heq]
    linarith [this, mul_mul_mul_comm X₁ k₁ X₁ k₁, mul_mul_mul_comm X₂ k₂ X₂ k₂]
  rw [← hsq] at h'
  have : X₁ * X₁ * (k₂ * k₂ - k₁ * k₁) = 0 := by linarith
  rcases mul_eq_zero.1 this with h0 | h0
  · exact mul_self_eq_zero.1 h0
  · linarith

/-- the strictly monotone core: foot points `(X, Z)` on the ellipse `X² + (1−e)Z² = a²`, scaled by `(1+u, 1−e+u)`
    with `u > −(1−e)`, determine `u` -/
theorem foot_scale_unique (a e X₁ Z₁ u₁ X₂ Z₂ u₂ : ℝ) (ha : 0 < a) (he1 : e < 1)
    (hE₁ : X₁ * X₁ + (1 - e) * (Z₁ * Z₁) = a * a) (hE₂ : X₂ * X₂ + (1 - e) * (Z₂ * Z₂) = a * a)
    (hu₁ : -(1 - e) < u₁) (hu₂ : -(1 - e) < u₂) (he0 : 0 < e)
    (hp : X₁ * (1 + u₁) = X₂ * (1 + u₂)) (hz : Z₁ * (1 - e + u₁) = Z₂ * (1 - e + u₂)) : u₁ = u₂ := by
  have h1e : 0 < 1 - e := by linarith
  -- no strict order either way
  have key : ∀ (X₁ Z₁ u₁ X₂ Z₂ u₂ : ℝ), X₁ * X₁ + (1 - e) * (Z₁ * Z₁) = a * a → X₂ * X₂ + (1 - e) * (Z₂ * Z₂) = a * a →
      -(1 - e) < u₁ → X₁ * (1 + u₁) = X₂ * (1 + u₂) → Z₁ * (1 - e + u₁) = Z₂ * (1 - e + u₂) → ¬ u₁ < u₂ := by
    intro X₁ Z₁ u₁ X₂ Z₂ u₂ hE₁ hE₂ hu₁ hp hz hlt
    have hX := sq_le_of_scaled_eq X₁ X₂ (1 + u₁) (1 + u₂) (by linarith) (by linarith) hp
    have hZ := sq_le_of_scaled_eq Z₁ Z₂ (1 - e + u₁) (1 - e + u₂) (by linarith) (by linarith) hz
    have hZ' : (1 - e) * (Z₂ * Z₂) ≤ (1 - e) * (Z₁ * Z₁) := mul_le_mul_of_nonneg_left hZ h1e.le
    have eX : X₁ * X₁ = X₂ * X₂ := by linarith
    have eZ : Z₁ * Z₁ = Z₂ * Z₂ := by
      have : (1 - e) * (Z₁ * Z₁) = (1 - e) * (Z₂ * Z₂) := by linarith
      exact mul_left_cancel₀ h1e.ne' this
    have x0 := zero_of_scaled_eq X₁ X₂ (1 + u₁) (1 + u₂) (by linarith) (by linarith) hp eX
    have z0 := zero_of_scaled_eq Z₁ Z₂ (1 - e + u₁) (1 - e + u₂) (by linarith) (by linarith) hz eZ
    rw [x0, z0] at hE₁
    have : 0 < a * a := mul_pos ha ha
    linarith
  rcases lt_trichotomy u₁ u₂ with h | h | h
  · exact absurd h (key X₁ Z₁ u₁ X₂ Z₂ u₂ hE₁ hE₂ hu₁ hp hz)
  · exact h
  · exact absurd h (key X₂ Z₂ u₂ X₁ Z₁ u₁ hE₂ hE₁ hu₂ hp.symm hz.symm)

/-- **injectivity in the meridian plane** (any ellipse `a > 0`, `0 < e < 1`; `e` is the squared eccentricity).
    `N` is only constrained by `N²(1 − e s²) = a²`, `N > 0`: the prime-vertical radius. -/
theorem meridian_injective (a e N₁ c₁ s₁ h₁ N₂ c₂ s₂ h₂ : ℝ) (ha : 0 < a) (he0 : 0 < e) (he1 : e < 1)
    (hN₁ : N₁ * N₁ * (1 - e * s₁ * s₁) = a * a) (hN₂ : N₂ * N₂ * (1 - e * s₂ * s₂) = a * a)
    (hp₁ : 0 < N₁) (hp₂ : 0 < N₂) (hu₁ : s₁ * s₁ + c₁ * c₁ = 1) (hu₂ : s₂ * s₂ + c₂ * c₂ = 1)
    (hh₁ : -(a * (1 - e)) < h₁) (hh₂ : -(a * (1 - e)) < h₂)
    (hp : (N₁ + h₁) * c₁ = (N₂ + h₂) * c₂)
    (hz : (N₁ + h₁ - e * N₁) * s₁ = (N₂ + h₂ - e * N₂) * s₂) :
    s₁ = s₂ ∧ c₁ = c₂ ∧ N₁ = N₂ ∧ h₁ = h₂ := by
  have h1e : 0 < 1 - e := by linarith
  -- N ≥ a
  have hge : ∀ N s : ℝ, 0 < N → N * N * (1 - e * s * s) = a * a → a ≤ N := by
    intro N s hN hNN
    by_contra hcon
    push Not at hcon
    have : N * N < a * a := by nlinarith
    have hs : 0 ≤ s * s := mul_self_nonneg s
    nlinarith [mul_nonneg (mul_nonneg hN.le hN.le) (mul_nonneg he0.le hs)]
  have hu : ∀ N h : ℝ, 0 < N → a ≤ N → -(a * (1 - e)) < h → -(1 - e) < h / N := by
    intro N h hN haN hh
    rw [lt_div_iff₀ hN]
    nlinarith
  have hE : ∀ N c s : ℝ, N * N * (1 - e * s * s) = a * a → s * s + c * c = 1 →
      (N * c) * (N * c) + (1 - e) * ((N * s) * (N * s)) = a * a := by
    intro N c s hNN hcs
    have : c * c = 1 - s * s := by linarith
    calc (N * c) * (N * c) + (1 - e) * ((N * s) * (N * s)) = N * N * (c * c) + (1 - e) * (N * N * (s * s)) := by ring
      _ = N * N * (1 - s * s) + (1 - e) * (N * N * (s * s)) := by rw [this]
      _ = N * N * (1 - e * s * s) := by ring
      _ = a * a := hNN
  have hP₁ : (N₁ * c₁) * (1 + h₁ / N₁) = (N₁ + h₁) * c₁ := by field_simp
  have hP₂ : (N₂ * c₂) * (1 + h₂ / N₂) = (N₂ + h₂) * c₂ := by field_simp
  have hZ₁ : (N₁ * s₁) * (1 - e + h₁ / N₁) = (N₁ + h₁ - e * N₁) * s₁ := by field_simp; ring
  have hZ₂ : (N₂ * s₂) * (1 - e + h₂ / N₂) = (N₂ + h₂ - e * N₂) * s₂ := by field_simp; ring
  have hu₁' := hu N₁ h₁ hp₁ (hge N₁ s₁ hp₁ hN₁) hh₁
  have hu₂' := hu N₂ h₂ hp₂ (hge N₂ s₂ hp₂ hN₂) hh₂
  have huu : h₁ / N₁ = h₂ / N₂ :=
    foot_scale_unique a e (N₁ * c₁) (N₁ * s₁) (h₁ / N₁) (N₂ * c₂) (N₂ * s₂) (h₂ / N₂) ha he1
      (hE N₁ c₁ s₁ hN₁ hu₁) (hE N₂ c₂ s₂ hN₂ hu₂) hu₁' hu₂' he0
      (by rw [hP₁, hP₂, hp]) (by rw [hZ₁, hZ₂, hz])
  -- foot points coincide
  have hk₁ : 0 < 1 + h₁ / N₁ := by linarith
  have hm₁ : 0 < 1 - e + h₁ / N₁ := by linarith
  have hX : N₁ * c₁ = N₂ * c₂ := by
    have : (N₁ * c₁) * (1 + h₁ / N₁) = (N₂ * c₂) * (1 + h₁ / N₁) := by rw [hP₁, huu, hP₂, hp]
    exact mul_right_cancel₀ hk₁.ne' this
  have hZ : N₁ * s₁ = N₂ * s₂ := by
    have : (N₁ * s₁) * (1 - e + h₁ / N₁) = (N₂ * s₂) * (1 - e + h₁ / N₁) := by rw [hZ₁, huu, hZ₂, hz]
    exact mul_right_cancel₀ hm₁.ne' this
  have hNN : N₁ * N₁ = N₂ * N₂ := by
    have e1 : N₁ * N₁ = (N₁ * s₁) * (N₁ * s₁) + (N₁ * c₁) * (N₁ * c₁) := by
      have : N₁ * N₁ * (s₁ * s₁ + c₁ * c₁) = N₁ * N₁ := by rw [hu₁, mul_one]
      linarith [this]
    have e2 : N₂ * N₂ = (N₂ * s₂) * (N₂ * s₂) + (N₂ * c₂) * (N₂ * c₂) := by
      have : N₂ * N₂ * (s₂ * s₂ + c₂ * c₂) = N₂ * N₂ := by rw [hu₂, mul_one]
      linarith [this]
    rw [e1, e2, hX, hZ]
  have hN : N₁ = N₂ := by
    have := mul_self_eq_mul_self_iff.1 hNN
    rcases this with h | h
    · exact h
    · linarith
  subst hN
  refine ⟨mul_left_cancel₀ hp₁.ne' hZ, mul_left_cancel₀ hp₁.ne' hX, rfl, ?_⟩
  have := congrArg (· * N₁) huu
  simpa [div_mul_cancel₀ _ hp₁.ne'] using this

/-- degrees in [−90, 90] are radians in [−π/2, π/2] -/
theorem lat_rad_mem (lat : ℝ) (h1 : -90 ≤ lat) (h2 : lat ≤ 90) :
    lat * (Real.pi / 180) ∈ Set.Icc (-(Real.pi / 2)) (Real.pi / 2) := by
  have hpi := Real.pi_pos
  constructor <;> nlinarith

theorem cos_lat_nonneg (lat : ℝ) (h1 : -90 ≤ lat) (h2 : lat ≤ 90) : 0 ≤ Real.cos (lat * (Real.pi / 180)) :=
  Real.cos_nonneg_of_mem_Icc (lat_rad_mem lat h1 h2)

theorem cos_lat_pos (lat : ℝ) (h1 : -90 < lat) (h2 : lat < 90) : 0 < Real.cos (lat * (Real.pi / 180)) := by
  have hpi := Real.pi_pos
  apply Real.cos_pos_of_mem_Ioo
  constructor <;> nlinarith

/-- degrees in (−180, 180] are radians in (−π, π] -/
theorem lon_rad_mem (lon : ℝ) (h1 : -180 < lon) (h2 : lon ≤ 180) :
    lon * (Real.pi / 180) ∈ Set.Ioc (-Real.pi) Real.pi := by
  have hpi := Real.pi_pos
  constructor
  · nlinarith [mul_pos (by linarith : (0 : ℝ) < lon + 180) hpi]
  · nlinarith [mul_nonneg (by linarith : (0 : ℝ) ≤ 180 - lon) hpi.le]

theorem cB2_div_cA : (cB2 : ℝ) / cA = cA * (1 - cE2) := by
  rw [cB2_eq]; unfold cA2; field_simp [cA_pos.ne']

/-- **the forward map is injective on the domain of the property**: latitude in [−90, 90], height above −b²/a
    (≈ −6 335 439 m), any longitude: equal images have equal latitude and height; off the poles and for longitudes in
    (−180, 180] also equal longitude.  (At a pole the longitude is lost: `forward_at_north_pole`.) -/
theorem forward_injective_on_domain (lat lon h lat' lon' h' : ℝ)
    (hl1 : -90 ≤ lat) (hl2 : lat ≤ 90) (hl1' : -90 ≤ lat') (hl2' : lat' ≤ 90)
    (hh : -(cB2 / cA) < h) (hh' : -(cB2 / cA) < h')
    (heq : geodeticToEcfLL lat lon h = geodeticToEcfLL lat' lon' h') :
    lat = lat' ∧ h = h' ∧
      (-90 < lat → lat < 90 → -180 < lon → lon ≤ 180 → -180 < lon' → lon' ≤ 180 → lon = lon') := by
  rw [geodeticToEcfLL_eq, geodeticToEcfLL_eq, V3.eq_iff] at heq
  obtain ⟨hx, hy, hz⟩ := heq
  dsimp only at hx hy hz
  have hc := cos_lat_nonneg lat hl1 hl2
  have hc' := cos_lat_nonneg lat' hl1' hl2'
  obtain ⟨hA, _⟩ := forward_denominators_pos lat h hh
  obtain ⟨hA', _⟩ := forward_denominators_pos lat' h' hh'
  have e2 := sin_cos_unit (lon * (Real.pi / 180))
  have e2' := sin_cos_unit (lon' * (Real.pi / 180))
  -- distance from the polar axis
  have hp0 : 0 ≤ (primeVertical lat + h) * Real.cos (lat * (Real.pi / 180)) := mul_nonneg hA.le hc
  have hp0' : 0 ≤ (primeVertical lat' + h') * Real.cos (lat' * (Real.pi / 180)) := mul_nonneg hA'.le hc'
  have hpp : (primeVertical lat + h) * Real.cos (lat * (Real.pi / 180))
      = (primeVertical lat' + h') * Real.cos (lat' * (Real.pi / 180)) := by
    have hsq : ((primeVertical lat + h) * Real.cos (lat * (Real.pi / 180))) * ((primeVertical lat + h) * Real.cos (lat * (Real.pi / 180)))
        = ((primeVertical lat' + h') * Real.cos (lat' * (Real.pi / 180))) * ((primeVertical lat' + h') * Real.cos (lat' * (Real.pi / 180))) := by
      generalize (primeVertical lat + h) * Real.cos (lat * (Real.pi / 180)) = p at hx hy
      generalize (primeVertical lat' + h') * Real.cos (lat' * (Real.pi / 180)) = p' at hx hy
      linear_combination (-(p * p)) * e2 + (p' * p') * e2'
        + (p * Real.cos (lon * (Real.pi / 180)) + p' * Real.cos (lon' * (Real.pi / 180))) * hx
        + (p * Real.sin (lon * (Real.pi / 180)) + p' * Real.sin (lon' * (Real.pi / 180))) * hy
    rcases mul_self_eq_mul_self_iff.1 hsq with h0 | h0
    · exact h0
    · linarith
  rw [cB2_div_cA] at hh hh'
  obtain ⟨hs, hcc, hNN, hhh⟩ := meridian_injective cA cE2 (primeVertical lat) _ _ h (primeVertical lat') _ _ h' cA_pos cE2_pos cE2_lt_one
    (by have := primeVertical_sq lat; unfold cA2 at this; exact this)
    (by have := primeVertical_sq lat'; unfold cA2 at this; exact this)
    (primeVertical_pos lat) (primeVertical_pos lat') (sin_cos_unit _) (sin_cos_unit _) hh hh' hpp hz
  have hlat : lat = lat' := by
    have := Real.injOn_sin (lat_rad_mem lat hl1 hl2) (lat_rad_mem lat' hl1' hl2') hs
    have hpi : Real.pi / 180 ≠ 0 := by positivity
    exact mul_right_cancel₀ hpi this
  refine ⟨hlat, hhh, ?_⟩
  intro g1 g2 k1 k2 k1' k2'
  have hpos : 0 < (primeVertical lat + h) * Real.cos (lat * (Real.pi / 180)) := mul_pos hA (cos_lat_pos lat g1 g2)
  have hpi := Real.pi_pos
  have hθ := lon_rad_mem lon k1 k2
  have hθ' := lon_rad_mem lon' k1' k2'
  have a1 := arg_polar _ _ hpos hθ
  have a2 := arg_polar _ _ (hpp ▸ hpos) hθ'
  have : lon * (Real.pi / 180) = lon' * (Real.pi / 180) := by
    rw [← a1, ← a2, hx, hy]
  have hpi' : Real.pi / 180 ≠ 0 := by positivity
  exact mul_right_cancel₀ hpi' this

/-- plain injectivity of the triple, off the poles -/
theorem forward_injective (lat lon h lat' lon' h' : ℝ)
    (hl1 : -90 < lat) (hl2 : lat < 90) (hl1' : -90 ≤ lat') (hl2' : lat' ≤ 90)
    (k1 : -180 < lon) (k2 : lon ≤ 180) (k1' : -180 < lon') (k2' : lon' ≤ 180)
    (hh : -(cB2 / cA) < h) (hh' : -(cB2 / cA) < h')
    (heq : geodeticToEcfLL lat lon h = geodeticToEcfLL lat' lon' h') :
    (⟨lat, lon, h⟩ : V3 ℝ) = ⟨lat', lon', h'⟩ := by
  obtain ⟨a, b, c⟩ := forward_injective_on_domain lat lon h lat' lon' h' hl1.le hl2.le hl1' hl2' hh hh' heq
  rw [V3.eq_iff]
  exact ⟨a, c hl1 hl2 k1 k2 k1' k2', b⟩

/-! ### the poles -/

theorem cB_eq_sqrt : (cB : ℝ) = cA * Real.sqrt (1 - cE2) := by
  have h1 : (0 : ℝ) ≤ 1 - cE2 := by linarith [cE2_lt_one]
  have : (cB : ℝ) * cB = (cA * Real.sqrt (1 - cE2)) * (cA * Real.sqrt (1 - cE2)) := by
    have hs := Real.mul_self_sqrt h1
    have hb : (cB : ℝ) * cB = cA * cA * (1 - cE2) := by
      have := cB2_eq; unfold cB2 cA2 at this; exact this
    rw [hb]; linear_combination (-(cA : ℝ) * cA) * hs
  rcases mul_self_eq_mul_self_iff.1 this with h | h
  · exact h
  · have := cB_pos; have := mul_nonneg cA_pos.le (Real.sqrt_nonneg (1 - cE2)); linarith

/-- prime-vertical radius at a pole: a/√(1−e²) = a²/b -/
theorem primeVertical_pole (lat : ℝ) (hs : Real.sin (lat * (Real.pi / 180)) * Real.sin (lat * (Real.pi / 180)) = 1) :
    primeVertical lat * (1 - cE2) = cB := by
  rw [primeVertical_eq, cB_eq_sqrt]
  have h1 : (0 : ℝ) < 1 - cE2 := by linarith [cE2_lt_one]
  have : 1 - cE2 * Real.sin (lat * (Real.pi / 180)) * Real.sin (lat * (Real.pi / 180)) = 1 - cE2 := by
    rw [mul_assoc, hs, mul_one]
  rw [this]
  have hs' := Real.mul_self_sqrt h1.le
  have hne := (Real.sqrt_pos.2 h1).ne'
  rw [div_mul_eq_mul_div, div_eq_iff hne]
  linear_combination (-(cA : ℝ)) * hs'

/-- **north pole**: every longitude gives the same point (0, 0, b + h) -/
theorem forward_at_north_pole (lon h : ℝ) : geodeticToEcfLL 90 lon h = ⟨0, 0, cB + h⟩ := by
  have ha : (90 : ℝ) * (Real.pi / 180) = Real.pi / 2 := by ring
  have hN := primeVertical_pole 90 (by rw [ha, Real.sin_pi_div_two]; norm_num)
  rw [geodeticToEcfLL_eq, V3.eq_iff, ha, Real.cos_pi_div_two, Real.sin_pi_div_two]
  refine ⟨by simp, by simp, ?_⟩
  dsimp only
  linear_combination hN

/-- **south pole**: (0, 0, −(b + h)) -/
theorem forward_at_south_pole (lon h : ℝ) : geodeticToEcfLL (-90) lon h = ⟨0, 0, -(cB + h)⟩ := by
  have ha : (-90 : ℝ) * (Real.pi / 180) = -(Real.pi / 2) := by ring
  have hN := primeVertical_pole (-90) (by rw [ha, Real.sin_neg, Real.sin_pi_div_two]; norm_num)
  rw [geodeticToEcfLL_eq, V3.eq_iff, ha, Real.cos_neg, Real.sin_neg, Real.cos_pi_div_two, Real.sin_pi_div_two]
  refine ⟨by simp, by simp, ?_⟩
  dsimp only
  linear_combination (-1 : ℝ) * hN

/-- the hypotheses of the injectivity theorem hold on the whole range of the property (h ≥ −10 000 m) -/
theorem height_range_in_domain (h : ℝ) (hh : -10000 ≤ h) : -((cB2 : ℝ) / cA) < h := by
  have hb : -((cB2 : ℝ) / cA) < -10000 := by
    simp only [cB2, cB, cA, cF, ofNat_real]; norm_num
  linarith

/-- non-vacuity: two different geodetic points off the poles have different images -/
example : geodeticToEcfLL (34.5 : ℝ) (-118.25) 100 ≠ geodeticToEcfLL 34.5 (-118.25) 101 := by
  intro heq
  have := (forward_injective_on_domain 34.5 (-118.25) 100 34.5 (-118.25) 101 (by norm_num) (by norm_num) (by norm_num)
    (by norm_num) (height_range_in_domain _ (by norm_num)) (height_range_in_domain _ (by norm_num)) heq).2.1
  norm_num at this

end Sarpy.Props.C12
