/-
  C15 — chipping a complex image preserves its pixels and its geolocation: the integer core.

  All statements are for every axis length, every window and every nesting depth (no bounds).

  * `window_normal`, `window_verify`, `window_indices` : a valid window is a step-1 normal slice of C01, it is what
        `verify_slice` makes of `slice(first, first+count)`, and it selects `first, …, first+count-1`
  * `chip_of_chip`        : the composed window is valid in the outer parent, equals C01's `compose` of the two subset
                            definitions, and selects exactly the parent indices the inner chip selects through the outer one
                            (derived from `C01.compose_spec`)
  * `compose_assoc`, `compose_full_left/right`, `full_window_identity` : composition is associative, the full window is its unit
  * `chip_chain`          : any nesting depth: a valid chain composes to a valid window, `first` = sum of the firsts
  * `subset_meta_compose` : `create_subset_structure` of a `create_subset_structure` = one call with the composed bounds
                            (`subset_structure_compose` for both axes incl. `None`; `subset_chain_single` any depth)
  * `subset_refused_iff`  : the call is refused exactly for windows that are not valid
  * `pixel_shift`         : chip pixel r and parent pixel r + r0 have the same offset from the scene centre pixel, hence the
                            same `(row_transform, col_transform)` (`pixel_shift_real`, `transform_arg_shift`: over any ring,
                            so also for fractional pixel coordinates; `pixel_shift_chain`: any depth)
  * `converter_rows_tile` : for every `rows_per_block >= 1` the converter's loop reads consecutive non-empty row blocks that
                            start at the first and end at the last chip row, every chip row lies in exactly one block, no other
                            row in any; the write positions tile `[0, NumRows)`; `converter_output` : the written rows are the
                            parent's rows of the window, whatever the block size; `rowsPerBlock_pos` : `_get_rows_per_block >= 1`
  The projection numerics themselves (R/Rdot contours, iterations) are C04; pixel decoding is C08; the reader's
  index routing is C01.
-/
import SarpyModel.Spec.Chip
import SarpyModel.Props.C01
import SarpyModel.Props.C02
import Mathlib.Tactic.Abel
import Mathlib.Tactic.Ring

namespace Sarpy.Props.C15
open Sarpy Sarpy.Spec Sarpy.Spec.Chip Sarpy.Spec.Layout Sarpy.Spec.Pipeline

/-! ### windows are step-1 normal slices -/

theorem window_count {w : Window} (h : 0 < w.count) : (w.toNSlice.count : Int) = w.count := by
  have e : w.first + w.count - w.first + 1 - 1 = w.count := by omega
  simp only [Window.toNSlice, NSlice.count, cnt, e]
  simp
  omega

theorem window_normal {n : Int} {w : Window} (h : w.Valid n) : w.toNSlice.Normal n := by
  obtain ⟨h0, hc, hn⟩ := h
  refine ⟨h0, by simp only [Window.toNSlice]; omega, Or.inl ⟨by simp [Window.toNSlice], w.first + w.count, rfl, ?_, hn⟩⟩
  simp only [Window.toNSlice]; omega

/-- the window selects `first, first+1, …, first+count-1` -/
theorem window_indices (w : Window) (h : 0 < w.count) :
    w.toNSlice.indices = (List.range w.count.toNat).map (fun (k : Nat) => w.first + (k : Int)) := by
  have hc := window_count h
  have hc' : w.toNSlice.count = w.count.toNat := by omega
  simp only [NSlice.indices, ap, hc']
  simp [Window.toNSlice]

/-- `verify_slice(slice(first, first+count), n)` is the window's normal slice (SubsetSegment's vetting of the definition) -/
theorem window_verify {n : Int} {w : Window} (h : w.Valid n) :
    verifySlice n ⟨some w.first, some (w.first + w.count), none⟩ = some w.toNSlice := by
  obtain ⟨h0, hc, hn⟩ := h
  have hn1 : ¬ n < 1 := by omega
  have c1 : checkBound n (some w.first) = some (some w.first) := by
    simp only [checkBound]
    rw [if_neg (by omega), if_pos (by omega)]
  have c2 : checkBound n (some (w.first + w.count)) = some (some (w.first + w.count)) := by
    simp only [checkBound]
    rw [if_neg (by omega), if_pos (by omega)]
  simp only [verifySlice, if_neg hn1, c1, c2, Option.getD_none, Option.getD_some]
  simp [Window.toNSlice]
  omega

/-- every selected index lies inside the axis -/
theorem window_in_range {n : Int} {w : Window} (h : w.Valid n) : ∀ x ∈ w.toNSlice.indices, 0 ≤ x ∧ x < n :=
  C01.normal_in_range (window_normal h)

/-! ### chip of a chip -/

theorem compose_valid {n : Int} {outer inner : Window} (ho : outer.Valid n) (hi : inner.Valid outer.count) :
    (composeWindow outer inner).Valid n := by
  obtain ⟨a0, a1, a2⟩ := ho
  obtain ⟨b0, b1, b2⟩ := hi
  refine ⟨?_, ?_, ?_⟩ <;> simp only [composeWindow] <;> omega

/-- the composed window is C01's `compose` (`SubsetSegment._get_parent_subscript`) of the two subset definitions -/
theorem compose_eq {n : Int} {outer inner : Window} (ho : outer.Valid n) (hi : inner.Valid outer.count) :
    compose n outer.toNSlice inner.toNSlice = (composeWindow outer inner).toNSlice := by
  have hc := window_count hi.2.1
  obtain ⟨a0, a1, a2⟩ := ho
  obtain ⟨b0, b1, b2⟩ := hi
  have hl : inner.toNSlice.last = inner.first + (inner.count - 1) := by
    simp only [NSlice.last, hc]; simp [Window.toNSlice]
  simp only [compose, hl]
  simp only [Window.toNSlice, composeWindow, Int.mul_one]
  have e1 : ¬ (outer.first + (inner.first + (inner.count - 1)) + 1 < 0) := by omega
  have e2 : ¬ (outer.first + (inner.first + (inner.count - 1)) + 1 > n) := by omega
  rw [if_neg e1, if_neg e2]
  congr 1
  · omega
  · congr 1; omega

/-- **chip of a chip = the composed chip**: valid in the outer parent, the same subset definition the reader composes,
    and exactly the parent indices reached through the two steps, in order -/
theorem chip_of_chip {n : Int} {outer inner : Window} (ho : outer.Valid n) (hi : inner.Valid outer.count) :
    (composeWindow outer inner).Valid n ∧
    (composeWindow outer inner).toNSlice = compose n outer.toNSlice inner.toNSlice ∧
    (composeWindow outer inner).toNSlice.indices = inner.toNSlice.indices.map outer.parentIndex ∧
    (∀ x ∈ inner.toNSlice.indices, outer.parentIndex x ∈ outer.toNSlice.indices) := by
  have hd := window_normal ho
  have hp : inner.toNSlice.Normal (outer.toNSlice.count : Int) := by
    rw [window_count ho.2.1]; exact window_normal hi
  have hcs := C01.compose_spec hd hp
  refine ⟨compose_valid ho hi, (compose_eq ho hi).symm, ?_, ?_⟩
  · rw [← compose_eq ho hi, hcs.2]
    apply List.map_congr_left
    intro i _
    simp [Window.parentIndex, Window.toNSlice]
  · intro x hx
    obtain ⟨x0, x1⟩ := window_in_range hi x hx
    rw [window_indices outer ho.2.1]
    simp only [List.mem_map, List.mem_range, Window.parentIndex]
    exact ⟨x.toNat, by omega, by omega⟩

theorem compose_assoc (a b c : Window) :
    composeWindow (composeWindow a b) c = composeWindow a (composeWindow b c) := by
  simp only [composeWindow, Window.mk.injEq, and_true]; omega

theorem compose_full_left (n : Int) (w : Window) : composeWindow (full n) w = w := by
  simp [composeWindow, full]

theorem compose_full_right (w : Window) : composeWindow w (full w.count) = w := by
  simp [composeWindow, full]

/-- the full-image window is valid, selects every index once in order, and chipping by it is the identity -/
theorem full_window_identity (n : Int) (hn : 0 < n) :
    (full n).Valid n ∧ (full n).toNSlice.indices = (List.range n.toNat).map (fun (k : Nat) => (k : Int)) ∧
    (∀ i, (full n).parentIndex i = i) := by
  refine ⟨⟨by simp [full], by simpa [full] using hn, by simp [full]⟩, ?_, by simp [Window.parentIndex, full]⟩
  rw [window_indices (full n) (by simpa [full] using hn)]
  simp [full]

/-! ### any nesting depth -/

theorem foldl_fields (ws : List Window) (acc : Window) :
    (ws.foldl composeWindow acc).first = acc.first + (ws.map Window.first).sum ∧
    (ws.foldl composeWindow acc).count = (ws.getLast?.map Window.count).getD acc.count := by
  induction ws generalizing acc with
  | nil => simp
  | cons w rest ih =>
    obtain ⟨i2, i3⟩ := ih (composeWindow acc w)
    refine ⟨?_, ?_⟩
    · rw [List.foldl_cons, i2]
      simp only [List.map_cons, List.sum_cons, composeWindow]; omega
    · rw [List.foldl_cons, i3]
      cases rest with
      | nil => simp [composeWindow]
      | cons x xs =>
        cases h : (x :: xs).getLast? with
        | none => simp at h
        | some y => simp [List.getLast?_cons_cons, h]

theorem foldl_chain {n : Int} (ws : List Window) (acc : Window) (ha : acc.Valid n) (hv : ValidChain acc.count ws) :
    (ws.foldl composeWindow acc).Valid n := by
  induction ws generalizing acc with
  | nil => simpa using ha
  | cons w rest ih =>
    obtain ⟨hw, hrest⟩ := hv
    have hv' : ValidChain (composeWindow acc w).count rest := by simpa [composeWindow] using hrest
    simpa using ih (composeWindow acc w) (compose_valid ha hw) hv'

/-- **chips of chips of … chips**: a chain of windows, each valid in the previous one, is one valid window of the outermost
    parent whose first index is the sum of the firsts and whose size is the innermost size -/
theorem chip_chain {n : Int} (hn : 0 < n) (ws : List Window) (hv : ValidChain n ws) :
    (composeChain n ws).Valid n ∧
    (composeChain n ws).first = (ws.map Window.first).sum ∧
    (composeChain n ws).count = (ws.getLast?.map Window.count).getD n := by
  have h := foldl_chain ws (full n) (full_window_identity n hn).1 (by simpa [full] using hv)
  have h2 := foldl_fields ws (full n)
  exact ⟨h, by simpa [composeChain, full] using h2.1, by simpa [composeChain, full] using h2.2⟩

/-- a chain extended by one more chip is the composition of the chain with that chip (so `chip_of_chip` applies at every level) -/
theorem composeChain_snoc (n : Int) (ws : List Window) (w : Window) :
    composeChain n (ws ++ [w]) = composeWindow (composeChain n ws) w := by
  simp [composeChain, List.foldl_append]

/-! ### subset metadata -/

theorem subsetAxis_eq {m : AxisMeta} {a b : Int} (h : (ofBounds a b).Valid m.num) :
    subsetAxis m a b = some ({ m with first := m.first + a, num := b - a }, (a, b)) := by
  obtain ⟨h0, h1, h2⟩ := h
  simp only [ofBounds] at h0 h1 h2
  have hc : 0 ≤ a ∧ a < b ∧ b ≤ m.num := ⟨h0, by omega, by omega⟩
  simp [subsetAxis, checkBounds, hc, ofBounds]

/-- the call is accepted exactly for valid windows -/
theorem subset_refused_iff (m : AxisMeta) (a b : Int) :
    subsetAxis m a b = none ↔ ¬ (ofBounds a b).Valid m.num := by
  by_cases h : (ofBounds a b).Valid m.num
  · simp [subsetAxis_eq h, h]
  · have hc : ¬ (0 ≤ a ∧ a < b ∧ b ≤ m.num) := by
      intro hc; apply h
      obtain ⟨c0, c1, c2⟩ := hc
      exact ⟨by simpa [ofBounds] using c0, by simp only [ofBounds]; omega, by simp only [ofBounds]; omega⟩
    simp [subsetAxis, checkBounds, hc, h]

theorem subsetAxis_some {m m1 : AxisMeta} {a b : Int} {bo : Int × Int} (h : subsetAxis m a b = some (m1, bo)) :
    (ofBounds a b).Valid m.num ∧ m1 = { m with first := m.first + a, num := b - a } ∧ bo = (a, b) := by
  by_cases hv : (ofBounds a b).Valid m.num
  · rw [subsetAxis_eq hv] at h
    simp only [Option.some.injEq, Prod.mk.injEq] at h
    exact ⟨hv, h.1.symm, h.2.symm⟩
  · rw [(subset_refused_iff m a b).2 hv] at h; simp at h

/-- size fields and first index of the subset metadata; the scene centre pixel and the full-image size are untouched -/
theorem subset_meta_fields {m m1 : AxisMeta} {a b : Int} {bo : Int × Int} (h : subsetAxis m a b = some (m1, bo)) :
    m1.first = m.first + a ∧ m1.num = b - a ∧ m1.scp = m.scp ∧ m1.fullNum = m.fullNum ∧
    m1.window = composeWindow m.window (ofBounds a b) ∧ 0 < m1.num := by
  obtain ⟨hv, rfl, _⟩ := subsetAxis_some h
  obtain ⟨_, h1, _⟩ := hv
  simp only [ofBounds] at h1
  refine ⟨rfl, rfl, rfl, rfl, ?_, h1⟩
  simp only [AxisMeta.window, composeWindow, ofBounds, Window.mk.injEq, and_true]; omega

/-- **metadata of a chip of a chip = metadata of the composed chip** (one axis) -/
theorem subset_meta_compose {m m1 m2 : AxisMeta} {a b c d : Int} {bo1 bo2 : Int × Int}
    (h1 : subsetAxis m a b = some (m1, bo1)) (h2 : subsetAxis m1 c d = some (m2, bo2)) :
    subsetAxis m (a + c) (a + d) = some (m2, (a + c, a + d)) ∧
    ofBounds (a + c) (a + d) = composeWindow (ofBounds a b) (ofBounds c d) := by
  obtain ⟨v1, rfl, _⟩ := subsetAxis_some h1
  obtain ⟨v2, rfl, _⟩ := subsetAxis_some h2
  have hw : ofBounds (a + c) (a + d) = composeWindow (ofBounds a b) (ofBounds c d) := by
    simp only [ofBounds, composeWindow, Window.mk.injEq]; omega
  have v2' : (ofBounds c d).Valid (ofBounds a b).count := by simpa [ofBounds] using v2
  have v : (ofBounds (a + c) (a + d)).Valid m.num := hw ▸ compose_valid v1 v2'
  refine ⟨?_, hw⟩
  rw [subsetAxis_eq v]
  simp only [Option.some.injEq, Prod.mk.injEq, and_true]
  have e1 : m.first + (a + c) = m.first + a + c := by omega
  have e2 : a + d - (a + c) = d - c := by omega
  rw [e1, e2]

/-- bounds `None` behave like the explicit full window -/
theorem subsetAxisO_none (m : AxisMeta) (hm : 0 < m.num) :
    subsetAxisO m none = subsetAxis m 0 m.num := by
  have v : (ofBounds 0 m.num).Valid m.num := ⟨by simp [ofBounds], by simpa [ofBounds] using hm, by simp [ofBounds]⟩
  rw [subsetAxis_eq v]
  simp [subsetAxisO]

theorem subsetAxisO_compose {m m1 m2 : AxisMeta} (hm : 0 < m.num) {rb rb' : Option (Int × Int)} {a b c d : Int}
    (h1 : subsetAxisO m rb = some (m1, (a, b))) (h2 : subsetAxisO m1 rb' = some (m2, (c, d))) :
    subsetAxisO m (some (a + c, a + d)) = some (m2, (a + c, a + d)) := by
  have g1 : subsetAxis m a b = some (m1, (a, b)) := by
    cases rb with
    | none =>
      rw [subsetAxisO_none m hm] at h1
      obtain ⟨_, _, hb⟩ := subsetAxis_some h1
      simp only [Prod.mk.injEq] at hb
      obtain ⟨rfl, rfl⟩ := hb
      exact h1
    | some p =>
      obtain ⟨p1, p2⟩ := p
      simp only [subsetAxisO] at h1
      obtain ⟨_, _, hb⟩ := subsetAxis_some h1
      simp only [Prod.mk.injEq] at hb
      obtain ⟨rfl, rfl⟩ := hb
      exact h1
  have hm1 : 0 < m1.num := (subset_meta_fields g1).2.2.2.2.2
  have g2 : subsetAxis m1 c d = some (m2, (c, d)) := by
    cases rb' with
    | none =>
      rw [subsetAxisO_none m1 hm1] at h2
      obtain ⟨_, _, hb⟩ := subsetAxis_some h2
      simp only [Prod.mk.injEq] at hb
      obtain ⟨rfl, rfl⟩ := hb
      exact h2
    | some p =>
      obtain ⟨p1, p2⟩ := p
      simp only [subsetAxisO] at h2
      obtain ⟨_, _, hb⟩ := subsetAxis_some h2
      simp only [Prod.mk.injEq] at hb
      obtain ⟨rfl, rfl⟩ := hb
      exact h2
  exact (subset_meta_compose g1 g2).1

/-- **`create_subset_structure` twice = once with the composed bounds** (both axes, `None` allowed at either level):
    with the vetted bounds `(a,b),(c,d)` returned by the first call and `(a',b'),(c',d')` by the second -/
theorem subset_structure_compose {m m1 m2 : ImageMeta} (hr : 0 < m.row.num) (hc : 0 < m.col.num)
    {rb cb rb' cb' : Option (Int × Int)} {a b c d a' b' c' d' : Int}
    (h1 : subsetStructure m rb cb = some (m1, (a, b), (c, d)))
    (h2 : subsetStructure m1 rb' cb' = some (m2, (a', b'), (c', d'))) :
    subsetStructure m (some (a + a', a + b')) (some (c + c', c + d')) =
      some (m2, (a + a', a + b'), (c + c', c + d')) := by
  simp only [subsetStructure] at h1 h2
  cases e1 : subsetAxisO m.row rb with
  | none => simp [e1] at h1
  | some x1 =>
    cases e2 : subsetAxisO m.col cb with
    | none => simp [e1, e2] at h1
    | some y1 =>
      cases e3 : subsetAxisO m1.row rb' with
      | none => simp [e3] at h2
      | some x2 =>
        cases e4 : subsetAxisO m1.col cb' with
        | none => simp [e3, e4] at h2
        | some y2 =>
          obtain ⟨x1m, x1b⟩ := x1
          obtain ⟨y1m, y1b⟩ := y1
          obtain ⟨x2m, x2b⟩ := x2
          obtain ⟨y2m, y2b⟩ := y2
          simp only [e1, e2, Option.some.injEq, Prod.mk.injEq] at h1
          simp only [e3, e4, Option.some.injEq, Prod.mk.injEq] at h2
          obtain ⟨rfl, rfl, rfl⟩ := h1
          obtain ⟨rfl, rfl, rfl⟩ := h2
          have r := subsetAxisO_compose hr e1 e3
          have c := subsetAxisO_compose hc e2 e4
          simp only [subsetStructure, r, c]

/-- any depth: the chain of calls succeeds only on a valid chain, and yields the parent's metadata moved by the composed window -/
theorem subset_chain {m mk : AxisMeta} (ws : List (Int × Int)) (h : subsetChain m ws = some mk) :
    ValidChain m.num (ws.map (fun p => ofBounds p.1 p.2)) ∧
    mk.window = (ws.map (fun p => ofBounds p.1 p.2)).foldl composeWindow m.window ∧
    mk.scp = m.scp ∧ mk.fullNum = m.fullNum := by
  induction ws generalizing m with
  | nil =>
    simp only [subsetChain, Option.some.injEq] at h
    subst h; simp [ValidChain]
  | cons p rest ih =>
    obtain ⟨a, b⟩ := p
    simp only [subsetChain] at h
    cases e : subsetAxis m a b with
    | none => simp [e] at h
    | some r =>
      obtain ⟨m', bo⟩ := r
      simp only [e] at h
      obtain ⟨i1, i2, i3, i4⟩ := ih h
      obtain ⟨f1, f2, f3, f4, f5, _⟩ := subset_meta_fields e
      obtain ⟨v, _, _⟩ := subsetAxis_some e
      refine ⟨⟨v, ?_⟩, ?_, by rw [i3, f3], by rw [i4, f4]⟩
      · simpa [ofBounds, f2] using i1
      · simp only [List.map_cons, List.foldl_cons, ← f5]; exact i2

/-- any depth (also depth 0): the chain of calls equals one call with the composed window -/
theorem subset_chain_single {m mk : AxisMeta} (hm : 0 < m.num) (ws : List (Int × Int))
    (h : subsetChain m ws = some mk) :
    let w := composeChain m.num (ws.map (fun p => ofBounds p.1 p.2))
    subsetAxis m w.first w.stop = some (mk, (w.first, w.stop)) := by
  intro w
  obtain ⟨hv, hw, hs, hf⟩ := subset_chain ws h
  have hcc := chip_chain hm _ hv
  have hfold := foldl_fields (ws.map (fun p => ofBounds p.1 p.2)) m.window
  have hwv : (ofBounds w.first w.stop).Valid m.num := by
    have : ofBounds w.first w.stop = w := by simp [ofBounds, Window.stop]
    rw [this]; exact hcc.1
  rw [subsetAxis_eq hwv]
  have e1 : mk.first = m.first + w.first := by
    have := congrArg Window.first hw
    simp only [AxisMeta.window] at this hfold
    rw [this, hfold.1, hcc.2.1]
  have e2 : mk.num = w.stop - w.first := by
    have := congrArg Window.count hw
    simp only [AxisMeta.window] at this hfold
    have hws : w.stop - w.first = w.count := by simp [Window.stop]
    rw [this, hfold.2, hws, hcc.2.2]
  cases mk
  simp only [Option.some.injEq, Prod.mk.injEq, and_true, AxisMeta.mk.injEq] at *
  exact ⟨e1.symm, e2.symm, hs.symm, hf.symm⟩

/-! ### projection pixel shift -/

/-- over any additive commutative group (pixel coordinates handed to the projection are real numbers):
    chip pixel `r` of the chip starting `a` rows further and parent pixel `r + a` have the same offset from the SCP pixel -/
theorem pixel_shift_real {α : Type} [AddCommGroup α] (scp first a r : α) :
    offsetFromScp scp (first + a) r = offsetFromScp scp first (r + a) := by
  simp only [offsetFromScp, shift]; abel

/-- hence the same `row_transform` / `col_transform`, the only way pixel coordinates enter the projection -/
theorem transform_arg_shift {α : Type} [Ring α] (scp first a mult r : α) :
    transformArg scp (first + a) mult r = transformArg scp first mult (r + a) := by
  simp only [transformArg, pixel_shift_real]

/-- **pixel shift**: for the metadata `create_subset_structure` produces, chip pixel `r` and parent pixel `r + r0`
    have identical offsets from the scene centre pixel; the shift itself moves by `-r0` -/
theorem pixel_shift {m m1 : AxisMeta} {a b : Int} {bo : Int × Int} (h : subsetAxis m a b = some (m1, bo)) (r : Int) :
    m1.offset r = m.offset (r + a) ∧ m1.shift = m.shift - a ∧
    (r + a) - (m.scp - m.first) = r - (m.scp - (m.first + a)) := by
  obtain ⟨f1, _, f3, _, _, _⟩ := subset_meta_fields h
  simp only [AxisMeta.offset, AxisMeta.shift, offsetFromScp, shift, f1, f3]
  omega

/-- any depth -/
theorem pixel_shift_chain {m mk : AxisMeta} (ws : List (Int × Int)) (h : subsetChain m ws = some mk) (r : Int) :
    mk.offset r = m.offset (r + (ws.map Prod.fst).sum) := by
  induction ws generalizing m with
  | nil =>
    simp only [subsetChain, Option.some.injEq] at h
    subst h; simp
  | cons p rest ih =>
    obtain ⟨a, b⟩ := p
    simp only [subsetChain] at h
    cases e : subsetAxis m a b with
    | none => simp [e] at h
    | some q =>
      obtain ⟨m', bo⟩ := q
      simp only [e] at h
      rw [ih h, (pixel_shift e _).1]
      simp only [List.map_cons, List.sum_cons]
      congr 1; omega

/-! ### the converter's block loop -/

theorem roundHalfEven_ge (a b : Nat) : a / b ≤ roundHalfEven a b := by
  simp only [roundHalfEven]
  split
  · exact Nat.le_refl _
  · split
    · omega
    · split <;> omega

theorem rowsPerBlock_pos (mbs : Option Nat) (pixelType cols : Nat) : 0 < rowsPerBlock mbs pixelType cols := by
  simp only [rowsPerBlock]; omega

theorem lastEnd_consecutive_mem (segs : List (Nat × Nat)) (start : Nat) (hc : Consecutive start segs) :
    ∀ s ∈ segs, start ≤ s.1 := by
  induction segs generalizing start with
  | nil => intro s hs; simp at hs
  | cons x rest ih =>
    obtain ⟨a, b⟩ := x
    obtain ⟨ha, hab, hrest⟩ := hc
    intro s hs
    rcases List.mem_cons.1 hs with rfl | h'
    · simp only; omega
    · have := ih b hrest s h'; omega

/-- in a consecutive tiling with non-empty pieces every index of `[start, end)` lies in exactly one piece, every other in none -/
theorem cover_of_consecutive (segs : List (Nat × Nat)) (start : Nat) (hc : Consecutive start segs)
    (hne : ∀ s ∈ segs, s.1 < s.2) (i : Nat) :
    coverCount segs i = if start ≤ i ∧ i < C02.lastEnd start segs then 1 else 0 := by
  induction segs generalizing start with
  | nil =>
    have : ¬ (start ≤ i ∧ i < start) := by omega
    simp [coverCount, C02.lastEnd, this]
  | cons x rest ih =>
    obtain ⟨a, b⟩ := x
    obtain ⟨ha, hab, hrest⟩ := hc
    subst ha
    have hlt : a < b := hne (a, b) (List.mem_cons_self)
    have ih' := ih b hrest (fun s hs => hne s (List.mem_cons_of_mem _ hs))
    have hge := C02.lastEnd_ge rest b hrest
    have hcons : coverCount ((a, b) :: rest) i = (if a ≤ i ∧ i < b then 1 else 0) + coverCount rest i := by
      simp only [coverCount, List.filter_cons]
      by_cases h1 : a ≤ i ∧ i < b
      · simp [h1, Nat.add_comm]
      · simp [h1]
    rw [hcons, ih']
    simp only [C02.lastEnd]
    by_cases ha : a ≤ i <;> by_cases hb : i < b <;> by_cases hbi : b ≤ i <;>
      by_cases hl : i < C02.lastEnd b rest <;> simp [ha, hb, hbi, hl] <;> omega

theorem writeRanges_consecutive (r0 : Nat) (segs : List (Nat × Nat)) (start : Nat) (h0 : r0 ≤ start)
    (hc : Consecutive start segs) :
    Consecutive (start - r0) (writeRanges r0 segs) ∧
    C02.lastEnd (start - r0) (writeRanges r0 segs) = C02.lastEnd start segs - r0 := by
  induction segs generalizing start with
  | nil => simp [writeRanges, Consecutive, C02.lastEnd]
  | cons x rest ih =>
    obtain ⟨a, b⟩ := x
    obtain ⟨ha, hab, hrest⟩ := hc
    subst ha
    obtain ⟨i1, i2⟩ := ih b (by omega) hrest
    simp only [writeRanges, List.map_cons, Consecutive, C02.lastEnd] at i1 i2 ⊢
    exact ⟨⟨trivial, by omega, i1⟩, i2⟩

/-- **the converter's loop writes every chip row exactly once**, for every `rows_per_block >= 1`
    (so for every `max_block_size`, pixel type and chip width: `rowsPerBlock_pos`) -/
theorem converter_rows_tile (r0 r1 rpb : Nat) (h01 : r0 ≤ r1) (hp : 0 < rpb) :
    Consecutive r0 (converterBlocks r0 r1 rpb) ∧
    (∀ s ∈ converterBlocks r0 r1 rpb, s.1 < s.2 ∧ s.2 - s.1 ≤ rpb ∧ r0 ≤ s.1 ∧ s.2 ≤ r1) ∧
    C02.lastEnd r0 (converterBlocks r0 r1 rpb) = r1 ∧
    (∀ i, coverCount (converterBlocks r0 r1 rpb) i = if r0 ≤ i ∧ i < r1 then 1 else 0) ∧
    Consecutive 0 (writeRanges r0 (converterBlocks r0 r1 rpb)) ∧
    C02.lastEnd 0 (writeRanges r0 (converterBlocks r0 r1 rpb)) = r1 - r0 ∧
    (∀ j, coverCount (writeRanges r0 (converterBlocks r0 r1 rpb)) j = if j < r1 - r0 then 1 else 0) := by
  have hc : Consecutive r0 (converterBlocks r0 r1 rpb) := C03.stepTiling_consecutive r1 rpb hp (r1 - r0) r0
  have hb := C03.stepTiling_bounds r1 rpb hp (r1 - r0) r0
  have he : C02.lastEnd r0 (converterBlocks r0 r1 rpb) = r1 :=
    C02.lastEnd_stepTiling r1 rpb hp (r1 - r0) r0 (by omega) h01
  have hm := lastEnd_consecutive_mem _ r0 hc
  have hw := writeRanges_consecutive r0 _ r0 (Nat.le_refl _) hc
  rw [Nat.sub_self, he] at hw
  refine ⟨hc, ?_, he, ?_, hw.1, hw.2, ?_⟩
  · intro s hs
    obtain ⟨b1, b2, b3⟩ := hb s hs
    exact ⟨b1, b2, hm s hs, b3⟩
  · intro i
    rw [cover_of_consecutive _ r0 hc (fun s hs => (hb s hs).1) i, he]
  · intro j
    have hne : ∀ s ∈ writeRanges r0 (converterBlocks r0 r1 rpb), s.1 < s.2 := by
      intro s hs
      simp only [writeRanges, List.mem_map] at hs
      obtain ⟨t, ht, rfl⟩ := hs
      have := (hb t ht).1
      have := hm t ht
      simp only; omega
    rw [cover_of_consecutive _ 0 hw.1 hne j, hw.2]
    simp

theorem splitRows_take {β : Type} (rows : List β) (e : Nat) (segs : List (Nat × Nat)) (h : ∀ s ∈ segs, s.2 ≤ e) :
    splitRows (rows.take e) segs = splitRows rows segs := by
  simp only [splitRows]
  apply List.map_congr_left
  intro s hs
  have := h s hs
  rw [List.drop_take, List.take_take]
  congr 1
  omega

/-- **the chipped output holds the parent's rows of the window**: joining the blocks the loop reads, in the order it
    writes them, gives rows `r0 … r1-1` of the parent - whatever the block size -/
theorem converter_output {β : Type} (rows : List β) (r0 r1 rpb : Nat) (h01 : r0 ≤ r1) (h1 : r1 ≤ rows.length) (hp : 0 < rpb) :
    (splitRows rows (converterBlocks r0 r1 rpb)).flatten = (rows.drop r0).take (r1 - r0) := by
  obtain ⟨hc, hb, he, _⟩ := converter_rows_tile r0 r1 rpb h01 hp
  have hlen : (rows.take r1).length = r1 := by simp; omega
  have := C02.split_join_rows (rows.take r1) (converterBlocks r0 r1 rpb) r0 hc (by rw [he, hlen])
  rw [splitRows_take rows r1 _ (fun s hs => (hb s hs).2.2.2)] at this
  rw [this, List.drop_take]

/-- the output does not depend on `max_block_size` -/
theorem converter_block_size_independent {β : Type} (rows : List β) (r0 r1 rpb rpb' : Nat) (h01 : r0 ≤ r1)
    (h1 : r1 ≤ rows.length) (hp : 0 < rpb) (hp' : 0 < rpb') :
    (splitRows rows (converterBlocks r0 r1 rpb)).flatten = (splitRows rows (converterBlocks r0 r1 rpb')).flatten := by
  rw [converter_output rows r0 r1 rpb h01 h1 hp, converter_output rows r0 r1 rpb' h01 h1 hp']

/-! ### non-vacuity: the hypotheses are satisfiable and the definitions compute what the code does -/

example : (⟨3, 7⟩ : Window).Valid 40 ∧ (⟨1, 3⟩ : Window).Valid 7 := by decide
example : composeWindow ⟨3, 7⟩ ⟨1, 3⟩ = ⟨4, 3⟩ ∧ (composeWindow ⟨3, 7⟩ ⟨1, 3⟩).toNSlice.indices = [4, 5, 6] := by decide
example : compose 40 (⟨3, 7⟩ : Window).toNSlice (⟨1, 3⟩ : Window).toNSlice = ⟨4, some 7, 1⟩ := by decide
example : ValidChain 40 [⟨3, 30⟩, ⟨5, 20⟩, ⟨19, 1⟩] ∧ composeChain 40 [⟨3, 30⟩, ⟨5, 20⟩, ⟨19, 1⟩] = ⟨27, 1⟩ := by decide
example : subsetAxis ⟨0, 40, 20, 40⟩ 3 10 = some (⟨3, 7, 20, 40⟩, (3, 10)) ∧
    subsetAxis ⟨3, 7, 20, 40⟩ 1 4 = some (⟨4, 3, 20, 40⟩, (1, 4)) ∧
    subsetAxis ⟨0, 40, 20, 40⟩ 4 7 = some (⟨4, 3, 20, 40⟩, (4, 7)) := by decide
example : subsetAxis ⟨0, 40, 20, 40⟩ 3 41 = none ∧ subsetAxis ⟨0, 40, 20, 40⟩ 3 3 = none ∧
    subsetAxis ⟨0, 40, 20, 40⟩ (-1) 3 = none := by decide
example : subsetChain ⟨0, 40, 20, 40⟩ [(3, 33), (5, 25), (19, 20)] = some ⟨27, 1, 20, 40⟩ := by decide
example : subsetStructure ⟨⟨0, 40, 20, 40⟩, ⟨0, 30, 15, 30⟩⟩ none (some (5, 9)) =
    some (⟨⟨0, 40, 20, 40⟩, ⟨5, 4, 15, 30⟩⟩, (0, 40), (5, 9)) := by decide
example : (⟨4, 3, 20, 40⟩ : AxisMeta).offset 2 = -14 ∧ (⟨0, 40, 20, 40⟩ : AxisMeta).offset 6 = -14 := by decide
example : converterBlocks 3 10 3 = [(3, 6), (6, 9), (9, 10)] ∧
    writeRanges 3 (converterBlocks 3 10 3) = [(0, 3), (3, 6), (6, 7)] := by decide
example : (List.range 12).map (coverCount (converterBlocks 3 10 3)) = [0, 0, 0, 1, 1, 1, 1, 1, 1, 1, 0, 0] := by decide
example : splitRows [10, 11, 12, 13, 14, 15] (converterBlocks 1 5 3) = [[11, 12, 13], [14]] := by decide
example : rowsPerBlock (some 1) 0 30000 = 4 ∧ rowsPerBlock none 2 20 = 1677722 ∧ rowsPerBlock (some (2 ^ 20)) 1 65536 = 4 := by decide

end Sarpy.Props.C15
