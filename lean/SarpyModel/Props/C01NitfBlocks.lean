/-
  C01Nitf, part 1: one recorded block (`blockChild`): its shape, well-formedness, placement box and what it shows at every index;
  then the block grid: which block a pixel falls into (`grid_hit`, `grid_miss`).
-/
import SarpyModel.Props.C01NitfBase

namespace Sarpy.Props.C01.Nitf
open Sarpy Sarpy.Spec Sarpy.Spec.NitfAssembly Sarpy.Props.C01Seg

/-- index list of a sample in raw data with `bands` bands at axis `bd` -/
def idxList (bands bd : Nat) (b iy ix : Int) : List Int :=
  if bands = 1 then [iy, ix] else if bd = 0 then [b, iy, ix] else if bd = 1 then [iy, b, ix] else [iy, ix, b]

theorem rank_allTrue : ∀ (k : List Bool), (∀ b ∈ k, b = true) → ∀ i, i < k.length → rank k i = i
  | [], _, i, hi => by simp at hi
  | _ :: _, _, 0, _ => rfl
  | b :: ks, hk, i + 1, hi => by
    have hb : b = true := hk b (by simp)
    have := rank_allTrue ks (fun b hb => hk b (by simp [hb])) i (by simpa using hi)
    simp [rank, hb, this]; omega

theorem pick_allTrue {β : Type} : ∀ (k : List Bool) (l : List β), (∀ b ∈ k, b = true) → k.length = l.length → pick k l = l
  | [], [], _, _ => rfl
  | b :: ks, x :: xs, hk, hl => by
    have hb : b = true := hk b (by simp)
    simp [pick, hb, pick_allTrue ks xs (fun b hb => hk b (by simp [hb])) (by simpa using hl)]
  | [], _ :: _, _, hl => by simp at hl
  | _ :: _, [], _, hl => by simp at hl

theorem keepAxes_false (defs : List NSlice) : keepAxes false defs = defs.map (fun _ => true) := by
  simp [keepAxes]

theorem subsetDef_length (rr cc bands bd : Nat) : (subsetDef rr cc bands bd).length = rankOf bands := by
  rcases lay_cases bands bd with h | ⟨h, h'⟩ | ⟨h, h'⟩ | ⟨h, h', h''⟩ <;> simp [subsetDef, boxDef, rankOf, *]

theorem subsetDef_unit (rr cc bands bd : Nat) : ∀ d ∈ subsetDef rr cc bands bd, d.start = 0 ∧ d.step = 1 := by
  rcases lay_cases bands bd with h | ⟨h, h'⟩ | ⟨h, h'⟩ | ⟨h, h', h''⟩ <;> simp [subsetDef, boxDef, *]

theorem subsetDef_counts (rr cc bands bd : Nat) :
    (subsetDef rr cc bands bd).map NSlice.count = getShape rr cc bands bd := by
  rcases lay_cases bands bd with h | ⟨h, h'⟩ | ⟨h, h'⟩ | ⟨h, h', h''⟩ <;>
    simp [subsetDef, boxDef, getShape, *] <;> simp [NSlice.count, cnt]

section
variable {α : Type} [Pairing α] (L : Nat → List Int → α) (F : α)

/-- cutting pad pixels off (a subset with unit-step definitions starting at 0, nothing squeezed) shows the same sample at the same index -/
theorem unitSubset_get (defs : List NSlice) (hu : ∀ d ∈ defs, d.start = 0 ∧ d.step = 1) (p : Seg) (idx : Idx) (i : Nat)
    (hi : i < defs.length) : selIdx defs (unsq (keepAxes false defs) idx) i = idx i := by
  have hd : sliceAt defs i ∈ defs := by
    simp only [sliceAt, List.getD_eq_getElem?_getD, List.getElem?_eq_getElem hi, Option.getD_some]
    exact List.getElem_mem hi
  obtain ⟨h0, h1⟩ := hu _ hd
  have hk : (keepAxes false defs).getD i false = true := by
    simp [keepAxes_false, List.getD_eq_getElem?_getD, hi]
  have hr : rank (keepAxes false defs) i = i :=
    rank_allTrue _ (by simp [keepAxes_false]) i (by simpa [keepAxes_false] using hi)
  show (sliceAt defs i).start + (if (keepAxes false defs).getD i false then idx (rank (keepAxes false defs) i) else 0) * (sliceAt defs i).step = idx i
  rw [hk, h0, h1, hr]; simp

/-- what one recorded block shows at every index: the stored sample of the block's own array at that index -/
theorem blockChild_full (h : ImageHeaderFields) (mm : Bool) (bands bd : Nat) (b : Nat × Nat × Nat × Nat) (off : Nat) (idx : Idx) :
    ((blockChild h mm bands bd b off).2.full L F).get idx =
      L (h.offset + addlOffset h + off) ((List.range (rankOf bands)).map idx) := by
  unfold blockChild
  simp only []
  split
  · rw [idLeaf_get, getShape_length]
  · rename_i hne
    show (((Seg.orient [] _ _).full L F).select _ |>.squeeze _).get idx = _
    show ((Seg.orient [] _ _).full L F).get (selIdx _ (unsq _ idx)) = _
    rw [idLeaf_get, getShape_length]
    congr 1
    apply List.map_congr_left
    intro i hi
    exact unitSubset_get _ (subsetDef_unit _ _ _ _) (Seg.leaf 0 []) idx i (by rw [subsetDef_length]; exact List.mem_range.1 hi)

end

theorem blockChild_box (h : ImageHeaderFields) (mm : Bool) (bands bd : Nat) (b : Nat × Nat × Nat × Nat) (off : Nat) :
    (blockChild h mm bands bd b off).1 = boxDef b.1 (min b.2.1 h.nrows) b.2.2.1 (min b.2.2.2 h.ncols) bands bd := rfl

theorem blockChild_fshape (h : ImageHeaderFields) (mm : Bool) (bands bd : Nat) (b : Nat × Nat × Nat × Nat) (off : Nat) :
    (blockChild h mm bands bd b off).2.fshape =
      getShape (min b.2.1 h.nrows - b.1) (min b.2.2.2 h.ncols - b.2.2.1) bands bd := by
  unfold blockChild
  simp only []
  split
  · rename_i heq
    rw [idLeaf_fshape, heq.1, heq.2]
  · show pick (keepAxes false _) ((subsetDef _ _ bands bd).map NSlice.count) = _
    rw [pick_allTrue _ _ (by simp [keepAxes_false]) (by simp [keepAxes_false]), subsetDef_counts]

theorem blockChild_leaves (h : ImageHeaderFields) (mm : Bool) (bands bd : Nat) (b : Nat × Nat × Nat × Nat) (off : Nat) :
    (blockChild h mm bands bd b off).2.leaves =
      [(h.offset + addlOffset h + off, getShape (b.2.1 - b.1) (b.2.2.2 - b.2.2.1) bands bd)] := by
  unfold blockChild
  simp only []
  split
  · show (mkLeaf _ _ _).leaves = _
    rw [mkLeaf_leaves]
  · show (mkLeaf _ _ _).leaves = _
    rw [mkLeaf_leaves]

/-- a recorded block never refuses a normalised subscript -/
theorem blockChild_total (h : ImageHeaderFields) (mm : Bool) (bands bd : Nat) (b : Nat × Nat × Nat × Nat) (off : Nat) :
    (blockChild h mm bands bd b off).2.total = true := by
  unfold blockChild
  simp only []
  split <;> cases mm <;> rfl

theorem subsetDef_normal (R C rr cc bands bd : Nat) (hr : 0 < rr) (hr' : rr ≤ R) (hc : 0 < cc) (hc' : cc ≤ C) (hb : 0 < bands) :
    allSlicesNormal (getShape R C bands bd) (subsetDef rr cc bands bd) = true := by
  rcases lay_cases bands bd with h | ⟨h, h'⟩ | ⟨h, h'⟩ | ⟨h, h', h''⟩ <;>
    simp [subsetDef, boxDef, getShape, allSlicesNormal, NSlice.Normal, *] <;> omega

theorem blockChild_wf (h : ImageHeaderFields) (mm : Bool) (bands bd : Nat) (b : Nat × Nat × Nat × Nat) (off : Nat)
    (hb : 0 < bands) (hr : b.1 < min b.2.1 h.nrows) (hc : b.2.2.1 < min b.2.2.2 h.ncols) :
    (blockChild h mm bands bd b off).2.wf = true := by
  have hrank : 0 < (getShape (b.2.1 - b.1) (b.2.2.2 - b.2.2.1) bands bd).length := by
    rw [getShape_length]; unfold rankOf; split <;> omega
  unfold blockChild
  simp only []
  split
  · exact idLeaf_wf _ _ _ hrank
  · show ((Seg.orient [] _ _).wf && allSlicesNormal (Seg.orient [] _ _).fshape _ && (Seg.orient [] _ _).rawOK _) = true
    rw [idLeaf_wf _ _ _ hrank, idLeaf_fshape, Bool.true_and]
    show (allSlicesNormal _ _ && true) = true
    rw [Bool.and_true]
    apply subsetDef_normal <;> omega

theorem boxOK_boxDef (R C r0 re c0 ce bands bd : Nat) (hr : r0 < re) (hr' : re ≤ R) (hc : c0 < ce) (hc' : ce ≤ C) (hb : 0 < bands) :
    boxOK (getShape R C bands bd) (boxDef r0 re c0 ce bands bd) (getShape (re - r0) (ce - c0) bands bd) = true := by
  rcases lay_cases bands bd with h | ⟨h, h'⟩ | ⟨h, h'⟩ | ⟨h, h', h''⟩ <;>
    simp [boxDef, getShape, boxOK, *] <;> omega

theorem inBox_boxDef (r0 re c0 ce bands bd : Nat) (pt : Idx) :
    inBox (boxDef r0 re c0 ce bands bd) pt = true ↔
      ((r0 : Int) ≤ pt (axY bands bd) ∧ pt (axY bands bd) < (re : Int)) ∧
      ((c0 : Int) ≤ pt (axX bands bd) ∧ pt (axX bands bd) < (ce : Int)) ∧
      (bands = 1 ∨ (0 ≤ pt (axB bands bd) ∧ pt (axB bands bd) < (bands : Int))) := by
  rw [inBox_iff]
  rcases lay_cases bands bd with h | ⟨h, h'⟩ | ⟨h, h'⟩ | ⟨h, h', h''⟩
  · simp only [boxDef, h, if_true, axY, axX, List.length_cons, List.length_nil]
    constructor
    · intro hh; exact ⟨by simpa using hh 0 (by omega), by simpa using hh 1 (by omega), Or.inl trivial⟩
    · rintro ⟨h0, h1, _⟩ i hi
      have : i = 0 ∨ i = 1 := by omega
      rcases this with rfl | rfl <;> simpa
  · simp only [boxDef, h, h', if_true, if_false, axY, axX, axB, List.length_cons, List.length_nil]
    constructor
    · intro hh; exact ⟨by simpa using hh 1 (by omega), by simpa using hh 2 (by omega), Or.inr (by simpa using hh 0 (by omega))⟩
    · rintro ⟨h0, h1, h2⟩ i hi
      have h2' := h2.resolve_left not_false
      have : i = 0 ∨ i = 1 ∨ i = 2 := by omega
      rcases this with rfl | rfl | rfl <;> simpa
  · have h0' : ¬ (1 : Nat) = 0 := by omega
    simp only [boxDef, h, h', h0', if_true, if_false, axY, axX, axB, List.length_cons, List.length_nil]
    constructor
    · intro hh; exact ⟨by simpa using hh 0 (by omega), by simpa using hh 2 (by omega), Or.inr (by simpa using hh 1 (by omega))⟩
    · rintro ⟨h0, h1, h2⟩ i hi
      have h2' := h2.resolve_left not_false
      have : i = 0 ∨ i = 1 ∨ i = 2 := by omega
      rcases this with rfl | rfl | rfl <;> simpa
  · simp only [boxDef, h, h', h'', if_false, axY, axX, axB, List.length_cons, List.length_nil]
    constructor
    · intro hh; exact ⟨by simpa using hh 0 (by omega), by simpa using hh 1 (by omega), Or.inr (by simpa using hh 2 (by omega))⟩
    · rintro ⟨h0, h1, h2⟩ i hi
      have h2' := h2.resolve_left not_false
      have : i = 0 ∨ i = 1 ∨ i = 2 := by omega
      rcases this with rfl | rfl | rfl <;> simpa

theorem map_boxLo (r0 re c0 ce bands bd : Nat) (pt : Idx) :
    (List.range (rankOf bands)).map (boxLo (boxDef r0 re c0 ce bands bd) pt) =
      idxList bands bd (pt (axB bands bd)) (pt (axY bands bd) - (r0 : Int)) (pt (axX bands bd) - (c0 : Int)) := by
  rcases lay_cases bands bd with h | ⟨h, h'⟩ | ⟨h, h'⟩ | ⟨h, h', h''⟩ <;>
    simp [rankOf, boxDef, idxList, axY, axX, axB, boxLo, List.range_succ, *]

end Sarpy.Props.C01.Nitf
