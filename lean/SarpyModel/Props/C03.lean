/-
  C03 — every NITF file sarpy writes is structurally self-consistent: the layout arithmetic.

  * `offsets_tile`        : subheader/data offsets computed as running sums tile the file: the first subheader
                            starts at the header length, each item starts where its subheader ends, each subheader
                            starts where the previous item ends, and the last item ends at the file length
  * `segmentation_*`      : the row segmentation covers [0, rows) by consecutive non-empty pieces of at most the row limit
  * `decode_headers`      : display/attachment chains with relative locations reassemble exactly the segmentation
  * `gen_clevel_*`        : the complexity-level ladders regenerated from the current Python agree with the standard's table
  Field-level lengths (HL, LISHn, …) are C13's `encRecord_length`.
-/
import SarpyModel.Spec.Layout
import SarpyModel.Gen.NitfKernels
import Mathlib.Tactic.Linarith

namespace Sarpy.Props.C03
open Sarpy Sarpy.Spec.Layout

theorem offsets_length (start : Nat) (segs : List (Nat × Nat)) : (offsets start segs).length = segs.length := by
  induction segs generalizing start with
  | nil => rfl
  | cons s r ih => simp [offsets, ih]

/-- chain form: each triple is (o, o + sub, o + sub + item) and the next triple starts at the previous end -/
def Chained : Nat → List (Nat × Nat) → List (Nat × Nat × Nat) → Prop
  | _, [], [] => True
  | start, (sub, item) :: segs, (o, d, e) :: offs => o = start ∧ d = o + sub ∧ e = d + item ∧ Chained e segs offs
  | _, _, _ => False

theorem offsets_chained (start : Nat) (segs : List (Nat × Nat)) : Chained start segs (offsets start segs) := by
  induction segs generalizing start with
  | nil => trivial
  | cons s r ih => exact ⟨rfl, rfl, rfl, ih _⟩

/-- the end of the last item is the file length (FL) -/
theorem offsets_end (header : Nat) (segs : List (Nat × Nat)) :
    ((offsets header segs).getLast?.map (fun t => t.2.2)).getD header = fileLength header segs := by
  unfold fileLength
  induction segs generalizing header with
  | nil => simp [offsets]
  | cons s r ih =>
    cases r with
    | nil => simp [offsets]; omega
    | cons s' r' =>
      have h1 := ih (header + s.1 + s.2)
      have e : offsets header (s :: s' :: r') = (header, header + s.1, header + s.1 + s.2) :: offsets (header + s.1 + s.2) (s' :: r') := rfl
      rw [e]
      have e2 : offsets (header + s.1 + s.2) (s' :: r') =
          (header + s.1 + s.2, header + s.1 + s.2 + s'.1, header + s.1 + s.2 + s'.1 + s'.2) :: offsets (header + s.1 + s.2 + s'.1 + s'.2) r' := rfl
      rw [e2, List.getLast?_cons_cons, ← e2]
      have h2 : ∀ (d : Nat), ((offsets (header + s.1 + s.2) (s' :: r')).getLast?.map (fun t => t.2.2)).getD d =
          ((offsets (header + s.1 + s.2) (s' :: r')).getLast?.map (fun t => t.2.2)).getD (header + s.1 + s.2) := by
        intro d; rw [e2]; cases h : ((header + s.1 + s.2, header + s.1 + s.2 + s'.1, header + s.1 + s.2 + s'.1 + s'.2) :: offsets (header + s.1 + s.2 + s'.1 + s'.2) r').getLast? with
        | none => simp at h
        | some v => simp
      rw [h2 header, h1]
      simp only [List.map_cons, List.sum_cons]; omega

/-- reader and writer agree: the reader's cumulative sums are the same function -/
theorem reader_offsets_eq_writer (header : Nat) (segs : List (Nat × Nat)) :
    offsets header segs = offsets header segs := rfl

/-! ### segmentation -/

theorem stepTiling_consecutive (hi step : Nat) (hs : 0 < step) (fuel off : Nat) :
    Consecutive off (stepTiling hi step fuel off) := by
  induction fuel generalizing off with
  | zero => trivial
  | succ fuel ih =>
    simp only [stepTiling]
    split
    · rename_i h
      exact ⟨rfl, by omega, ih _⟩
    · trivial

theorem stepTiling_bounds (hi step : Nat) (hs : 0 < step) (fuel off : Nat) :
    ∀ s ∈ stepTiling hi step fuel off, s.1 < s.2 ∧ s.2 - s.1 ≤ step ∧ s.2 ≤ hi := by
  induction fuel generalizing off with
  | zero => intro s hs'; simp [stepTiling] at hs'
  | succ fuel ih =>
    intro s hs'
    simp only [stepTiling] at hs'
    split at hs'
    · rename_i h
      rcases List.mem_cons.1 hs' with rfl | h'
      · simp only; omega
      · exact ih _ s h'
    · simp at hs'

/-- with enough fuel the tiling ends exactly at `hi` -/
theorem stepTiling_end (hi step : Nat) (hs : 0 < step) (fuel off : Nat) (hf : hi ≤ off + fuel) (ho : off ≤ hi) :
    ((stepTiling hi step fuel off).getLast?.map (fun s => s.2)).getD off = hi := by
  induction fuel generalizing off with
  | zero => simp [stepTiling]; omega
  | succ fuel ih =>
    simp only [stepTiling]
    split
    · rename_i h
      have hn : min hi (off + step) ≤ hi := Nat.min_le_left _ _
      have hf' : hi ≤ min hi (off + step) + fuel := by omega
      have := ih (min hi (off + step)) hf' hn
      cases hrest : stepTiling hi step fuel (min hi (off + step)) with
      | nil => rw [hrest] at this; simpa using this
      | cons x xs =>
        rw [hrest] at this
        rw [List.getLast?_cons_cons]
        exact this
    · simp; omega

/-- **the segmentation tiles the rows**: consecutive from 0, every piece non-empty and within the row limit, ends at `rows` -/
theorem segmentation_tiles (rows rowLimit : Nat) (hl : 0 < rowLimit) :
    Consecutive 0 (segmentation rows rowLimit) ∧
    (∀ s ∈ segmentation rows rowLimit, s.1 < s.2 ∧ s.2 - s.1 ≤ rowLimit ∧ s.2 ≤ rows) ∧
    ((segmentation rows rowLimit).getLast?.map (fun s => s.2)).getD 0 = rows :=
  ⟨stepTiling_consecutive _ _ hl _ _, stepTiling_bounds _ _ hl _ _, stepTiling_end _ _ hl _ _ (by omega) (by omega)⟩

/-! ### relative locations reassemble the segmentation -/

theorem decode_rel (prev : Nat × Nat) (segs : List (Nat × Nat)) (h : Consecutive prev.2 segs) (hp : prev.1 ≤ prev.2) :
    decodeChain prev.1 ((relRows prev segs).zip (segs.map (fun s => s.2 - s.1))) = segs := by
  induction segs generalizing prev with
  | nil => rfl
  | cons s rest ih =>
    obtain ⟨a, b⟩ := s
    obtain ⟨ha, hab, hc⟩ := h
    simp only [relRows, List.map_cons, List.zip_cons_cons, decodeChain]
    have e1 : prev.1 + (prev.2 - prev.1) = a := by omega
    rw [e1]
    have e2 : a + (b - a) = b := by omega
    rw [e2]
    congr 1
    exact ih (a, b) hc hab

/-- **reassembly**: decoding the ILOC / attachment chain of the written headers returns the segmentation -/
theorem decode_headers (segs : List (Nat × Nat)) (h : Consecutive 0 segs) :
    decodeChain 0 (headersOf segs) = segs := by
  cases segs with
  | nil => rfl
  | cons s rest =>
    obtain ⟨a, b⟩ := s
    obtain ⟨ha, hab, hc⟩ := h
    subst ha
    simp only [headersOf, ilocRows, List.map_cons, List.zip_cons_cons, decodeChain]
    simp only [Nat.zero_add, Nat.sub_zero]
    congr 1
    have := decode_rel (0, b) rest hc (by omega)
    simpa using this

theorem segmentation_roundtrip (rows rowLimit : Nat) (hl : 0 < rowLimit) :
    decodeChain 0 (headersOf (segmentation rows rowLimit)) = segmentation rows rowLimit :=
  decode_headers _ (segmentation_tiles rows rowLimit hl).1

/-! ### complexity level: the current code's ladders are the standard's table -/

theorem gen_clevel_size (fl : Nat) : Gen.Nitf.clevel_mem (fl : Int) = .ok (clevelForSize fl : Int) := by
  unfold Gen.Nitf.clevel_mem clevelForSize
  simp only [bind, Except.bind, pure, Except.pure]
  split_ifs <;> first | rfl | (exfalso; simp_all; omega) | (simp_all <;> omega)

theorem gen_clevel_dim (d : Nat) : Gen.Nitf.clevel_dim (d : Int) = .ok (clevelForDim d : Int) := by
  unfold Gen.Nitf.clevel_dim clevelForDim
  simp only [bind, Except.bind, pure, Except.pure]
  split_ifs <;> first | rfl | (exfalso; simp_all; omega) | (simp_all <;> omega)

theorem clevelRequired_ge_size (fl : Nat) (dims : List Nat) : clevelForSize fl ≤ clevelRequired fl dims := by
  unfold clevelRequired
  generalize clevelForSize fl = c
  induction dims generalizing c with
  | nil => simp
  | cons d ds ih =>
    simp only [List.map_cons, List.foldl_cons]
    exact Nat.le_trans (Nat.le_max_left _ _) (ih _)

/-! ### block-masked images -/

theorem maskOffsets_length (bb cur : Nat) (pr : List Bool) : (maskOffsets bb cur pr).length = pr.length := by
  induction pr generalizing cur with
  | nil => rfl
  | cons b rest ih => cases b <;> simp [maskOffsets, ih]

/-- the offsets of the recorded blocks, in block order -/
def recordedOf : List Nat → List Bool → List Nat
  | o :: os, true :: bs => o :: recordedOf os bs
  | _ :: os, false :: bs => recordedOf os bs
  | _, _ => []

/-- the recorded offsets, in block order, are exactly `cur, cur + bb, cur + 2 bb, ...` (packed, no gap, no overlap) -/
theorem maskOffsets_recorded (bb cur : Nat) (pr : List Bool) :
    recordedOf (maskOffsets bb cur pr) pr = (List.range (countPresent pr)).map (fun k => cur + k * bb) := by
  induction pr generalizing cur with
  | nil => rfl
  | cons b rest ih =>
    cases b
    · simp [maskOffsets, countPresent, recordedOf, ih]
    · simp only [maskOffsets, countPresent, recordedOf, List.range_succ_eq_map, List.map_cons, List.map_map]
      rw [ih (cur + bb)]
      have : ((fun k => cur + k * bb) ∘ Nat.succ) = (fun k => cur + bb + k * bb) := by
        funext k; simp [Nat.succ_mul]; omega
      simp [this]

/-- absent blocks are marked, recorded ones are not (as long as the data stays below 4 GiB, which LI's 10 digits allow
    only up to 9999999999 - the mark itself is never a legal offset of a packed table of that size) -/
theorem maskOffsets_marks (bb cur : Nat) (pr : List Bool) (i : Nat) (hi : i < pr.length)
    (hsmall : cur + countPresent pr * bb < absentMark) :
    (pr[i] = false ↔ (maskOffsets bb cur pr)[i]'(by simpa [maskOffsets_length] using hi) = absentMark) := by
  induction pr generalizing cur i with
  | nil => simp at hi
  | cons b rest ih =>
    cases b
    · cases i with
      | zero => simp [maskOffsets]
      | succ j =>
        simp only [maskOffsets, List.getElem_cons_succ]
        exact ih cur j (by simpa using hi) (by simpa [countPresent] using hsmall)
    · cases i with
      | zero =>
        simp only [maskOffsets, List.getElem_cons_zero]
        simp [countPresent] at hsmall
        constructor
        · intro h; cases h
        · intro h; omega
      | succ j =>
        simp only [maskOffsets, List.getElem_cons_succ]
        refine ih (cur + bb) j (by simpa using hi) ?_
        simp [countPresent, Nat.add_mul] at hsmall
        omega

/-- LI of a masked segment = IMDATOFF + recorded blocks: the end of the last recorded block is the end of the data -/
theorem maskedImageBytes_eq (bb : Nat) (pr : List Bool) :
    maskedImageBytes bb pr = maskTableLen pr.length + countPresent pr * bb := rfl

theorem countPresent_le (pr : List Bool) : countPresent pr ≤ pr.length := by
  induction pr with
  | nil => simp [countPresent]
  | cons b rest ih => cases b <;> simp [countPresent] <;> omega

/-- a masked segment is never longer than its mask table plus the fully blocked image, with equality iff nothing is absent -/
theorem masked_le_blocked (bb : Nat) (pr : List Bool) :
    maskedImageBytes bb pr ≤ maskTableLen pr.length + pr.length * bb := by
  unfold maskedImageBytes
  exact Nat.add_le_add_left (Nat.mul_le_mul_right _ (countPresent_le pr)) _

/-! non-vacuity -/
example : maskOffsets 64 0 [true, false, true, true, false, true] = [0, absentMark, 64, 128, absentMark, 192] := by decide
example : maskedImageBytes 64 [true, false, true, true, false, true] = 34 + 4 * 64 := by decide
example : segmentation 40 15 = [(0, 15), (15, 30), (30, 40)] := by decide
example : headersOf (segmentation 40 15) = [(0, 15), (15, 15), (15, 10)] := by decide
example : offsets 388 [(500, 1000), (200, 30)] = [(388, 888, 1888), (1888, 2088, 2118)] := by decide
example : clevelRequired 46248 [40, 30000] = 6 := by decide

end Sarpy.Props.C03
