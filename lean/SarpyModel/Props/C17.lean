/-
  C17 — display remaps produce in-range, monotone, chunk-independent output.

  The model (Spec.Remap) is instantiated at ℝ.  `log10`/`log2` are `Real.log x / Real.log b`,
  the integer cast is `⌊·⌋₊`.  NaN and ±inf are explicit tags (`Amp`, `Ext`) handled as the code
  handles them.

  What is proved, for all parameters satisfying the stated (code-validated) hypotheses, all
  amplitudes and all images / chunkings:
    * range          `clipCast_le`, `*_range`, `remap_range`
    * monotonicity   `clipCast_mono`, `density_mono`, `pedf_mono`, `linear_mono`, `log_mono`,
                     `nrl_mono`, `remap_sorted`
    * chunk independence of a pointwise remap   `remap_append`, `remap_chunks`, `remap_partition`,
                     `remap_pixelwise`; independence from other entries `remap_getElem?`,
                     `remap_set_other`, `remap_indep_of_others`
    * LUT            `lut_eq_table`, `lut_chunks`, `lut_in_table`
    * the density family AS CODED (all-zero chunk short cut, `chunkCoded`): it is the pointwise
      remap exactly when a zero pixel maps to 0 (`chunkCoded_chunk_independent_partial`);
      otherwise it is chunk dependent (`chunkCoded_chunk_dependent`), and a zero pixel does NOT
      map to 0 when 0.8·data_mean ≤ 1e-5 (`density_zero_pixel_ge_dmin`,
      `coded_density_chunk_dependent_witness`): the full-strength statement
      `chunkCoded px = remap px` is FALSE for the code as it stands.
-/
import SarpyModel.Spec.Remap
import Mathlib.Analysis.SpecialFunctions.Log.Basic
import Mathlib.Tactic.Linarith
import Mathlib.Tactic.NormNum
import Mathlib.Tactic.Positivity

namespace Sarpy.Props.C17
open Sarpy.Spec.Remap

noncomputable instance instRemapFnsReal : RemapFns ℝ where
  log10 x := Real.log x / Real.log 10
  log2 x := Real.log x / Real.log 2
  trunc x := ⌊x⌋₊

/-! ### primitives -/

theorem log10_eq (x : ℝ) : RemapFns.log10 x = Real.log x / Real.log 10 := rfl
theorem log2_eq (x : ℝ) : RemapFns.log2 x = Real.log x / Real.log 2 := rfl
theorem trunc_eq (x : ℝ) : RemapFns.trunc x = ⌊x⌋₊ := rfl

theorem log_ten_pos : 0 < Real.log 10 := Real.log_pos (by norm_num)
theorem log_two_pos : 0 < Real.log 2 := Real.log_pos (by norm_num)

/-- `log10` is non-decreasing on the positive reals -/
theorem log10_mono {x y : ℝ} (hx : 0 < x) (h : x ≤ y) : (RemapFns.log10 x : ℝ) ≤ RemapFns.log10 y := by
  rw [log10_eq, log10_eq]
  exact div_le_div_of_nonneg_right (Real.log_le_log hx h) log_ten_pos.le

theorem log10_nonneg {x : ℝ} (h : 1 ≤ x) : (0 : ℝ) ≤ RemapFns.log10 x := by
  rw [log10_eq]; exact div_nonneg (Real.log_nonneg h) log_ten_pos.le

theorem log10_pos {x : ℝ} (h : 1 < x) : (0 : ℝ) < RemapFns.log10 x := by
  rw [log10_eq]; exact div_pos (Real.log_pos h) log_ten_pos

theorem log2_mono {x y : ℝ} (hx : 0 < x) (h : x ≤ y) : (RemapFns.log2 x : ℝ) ≤ RemapFns.log2 y := by
  rw [log2_eq, log2_eq]
  exact div_le_div_of_nonneg_right (Real.log_le_log hx h) log_two_pos.le

theorem log2_nonneg {x : ℝ} (h : 1 ≤ x) : (0 : ℝ) ≤ RemapFns.log2 x := by
  rw [log2_eq]; exact div_nonneg (Real.log_nonneg h) log_two_pos.le

theorem log2_le_one {x : ℝ} (hx : 0 < x) (h : x ≤ 2) : (RemapFns.log2 x : ℝ) ≤ 1 := by
  rw [log2_eq, div_le_one log_two_pos]; exact Real.log_le_log hx h

/-! ### clip -/

theorem clip_le (lo hi x : ℝ) : clip lo hi x ≤ hi := min_le_right _ _

theorem le_clip {lo hi : ℝ} (h : lo ≤ hi) (x : ℝ) : lo ≤ clip lo hi x := le_min (le_max_right _ _) h

theorem clip_mono (lo hi : ℝ) {x y : ℝ} (h : x ≤ y) : clip lo hi x ≤ clip lo hi y :=
  min_le_min (max_le_max h le_rfl) le_rfl

theorem clip_of_mem {lo hi x : ℝ} (h1 : lo ≤ x) (h2 : x ≤ hi) : clip lo hi x = x := by
  unfold clip; rw [max_eq_left h1, min_eq_left h2]

/-! ### clip_cast: range and monotonicity, for every input including the NaN/±inf tags -/

theorem clipCast_fin (M : ℕ) (x : ℝ) : clipCast M (Ext.fin x) = ⌊clip ((0 : ℕ) : ℝ) (M : ℝ) x⌋₊ := rfl

/-- **range**: whatever `raw_call` produced - finite, +inf, -inf or NaN - the output is in `[0, M]` -/
theorem clipCast_le (M : ℕ) (v : Ext ℝ) : clipCast M v ≤ M := by
  cases v with
  | fin x => rw [clipCast_fin]; exact Nat.floor_le_of_le (clip_le _ _ _)
  | pinf => exact le_refl _
  | ninf => exact Nat.zero_le _
  | nan => exact Nat.zero_le _

/-- **monotone**: clip-and-cast is non-decreasing on -inf ≤ finite ≤ +inf -/
theorem clipCast_mono (M : ℕ) {u v : Ext ℝ} (h : Ext.le u v) : clipCast M u ≤ clipCast M v := by
  cases u with
  | fin x =>
    cases v with
    | fin y => rw [clipCast_fin, clipCast_fin]; exact Nat.floor_le_floor (clip_mono _ _ h)
    | pinf => exact clipCast_le M _
    | ninf => exact absurd h (by simp [Ext.le])
    | nan => exact absurd h (by simp [Ext.le])
  | pinf =>
    cases v with
    | pinf => exact le_refl _
    | fin y => exact absurd h (by simp [Ext.le])
    | ninf => exact absurd h (by simp [Ext.le])
    | nan => exact absurd h (by simp [Ext.le])
  | ninf => exact Nat.zero_le _
  | nan => cases v <;> exact absurd h (by simp [Ext.le])

/-- finite values that are already integers in range are kept (the cast does not move them) -/
theorem clipCast_natCast (M k : ℕ) (h : k ≤ M) : clipCast M (Ext.fin (k : ℝ)) = k := by
  rw [clipCast_fin, clip_of_mem (by exact_mod_cast Nat.zero_le k) (by exact_mod_cast h)]
  exact Nat.floor_natCast k

theorem scale_mono {m : ℝ} (hm : 0 ≤ m) {u v : Ext ℝ} (h : Ext.le u v) : Ext.le (Ext.scale m u) (Ext.scale m v) := by
  cases u <;> cases v <;> simp only [Ext.le, Ext.scale] at h ⊢
  exact mul_le_mul_of_nonneg_left h hm

/-! ### amplitude -> density (Density, Brighter, Darker, High_Contrast, GDM) -/

theorem cLow_pos {mean : ℝ} (h : 0 < mean) : 0 < cLow mean := by unfold cLow; positivity

theorem epsCode_pos : (0 : ℝ) < epsCode := by unfold epsCode; positivity

theorem a2dSlope_eq {dmin mmult mean : ℝ} (hmean : 0 < mean) :
    a2dSlope dmin mmult mean = (255 - dmin) / RemapFns.log10 mmult := by
  unfold a2dSlope
  rw [mul_div_cancel_right₀ _ (cLow_pos hmean).ne']
  norm_num

/-- the parameter checks of the code (`0 ≤ dmin < 255`, `mmult ≥ 1`) make the slope non-negative -/
theorem a2dSlope_nonneg {dmin mmult mean : ℝ} (hd : dmin ≤ 255) (hm : 1 ≤ mmult) (hmean : 0 < mean) :
    0 ≤ a2dSlope dmin mmult mean := by
  rw [a2dSlope_eq hmean]
  exact div_nonneg (by linarith) (log10_nonneg hm)

theorem a2dSlope_pos {dmin mmult mean : ℝ} (hd : dmin < 255) (hm : 1 < mmult) (hmean : 0 < mean) :
    0 < a2dSlope dmin mmult mean := by
  rw [a2dSlope_eq hmean]
  exact div_pos (by linarith) (log10_pos hm)

/-- `density_mono` (finite part): log monotone, composed with the `EPS` floor and an affine map of
    non-negative slope -/
theorem a2dFin_mono {dmin mmult mean : ℝ} (hs : 0 ≤ a2dSlope dmin mmult mean) {a b : ℝ} (h : a ≤ b) :
    a2dFin dmin mmult mean a ≤ a2dFin dmin mmult mean b := by
  unfold a2dFin
  have h1 : (RemapFns.log10 (max a epsCode) : ℝ) ≤ RemapFns.log10 (max b epsCode) :=
    log10_mono (lt_of_lt_of_le epsCode_pos (le_max_right _ _)) (max_le_max h le_rfl)
  have := mul_le_mul_of_nonneg_left h1 hs
  linarith

theorem a2d_mono {dmin mmult mean : ℝ} (hs : 0 < a2dSlope dmin mmult mean) {p q : Amp ℝ} (h : Amp.le p q) :
    Ext.le (a2d dmin mmult mean p) (a2d dmin mmult mean q) := by
  have hs' : ((0 : ℕ) : ℝ) < a2dSlope dmin mmult mean := by simpa using hs
  cases p <;> cases q <;> simp only [Amp.le] at h <;> simp only [a2d, if_pos hs', Ext.le]
  exact a2dFin_mono hs.le h

theorem densityRaw_mono (M : ℕ) {dmin mmult mean : ℝ} (hd : dmin < 255) (hm : 1 < mmult) (hmean : 0 < mean)
    {p q : Amp ℝ} (h : Amp.le p q) :
    Ext.le (densityRaw M dmin mmult mean p) (densityRaw M dmin mmult mean q) := by
  unfold densityRaw
  exact scale_mono (by positivity) (a2d_mono (a2dSlope_pos hd hm hmean) h)

/-- **Density family is non-decreasing in amplitude** (finite amplitudes and +inf) -/
theorem density_mono (M : ℕ) {dmin mmult mean : ℝ} (hd : dmin < 255) (hm : 1 < mmult) (hmean : 0 < mean)
    {p q : Amp ℝ} (h : Amp.le p q) : densityPx M dmin mmult mean p ≤ densityPx M dmin mmult mean q :=
  clipCast_mono M (densityRaw_mono M hd hm hmean h)

theorem density_range (M : ℕ) (dmin mmult mean : ℝ) (p : Amp ℝ) : densityPx M dmin mmult mean p ≤ M :=
  clipCast_le M _

/-! ### PEDF -/

theorem pedfFin_mono (half : ℝ) {x y : ℝ} (h : x ≤ y) : pedfFin half x ≤ pedfFin half y := by
  unfold pedfFin
  split_ifs <;> push_cast <;> linarith

theorem pedfRaw_mono (M : ℕ) {dmin mmult mean : ℝ} (hd : dmin < 255) (hm : 1 < mmult) (hmean : 0 < mean)
    {p q : Amp ℝ} (h : Amp.le p q) :
    Ext.le (pedfRaw M dmin mmult mean p) (pedfRaw M dmin mmult mean q) := by
  have h0 := densityRaw_mono M hd hm hmean h
  unfold pedfRaw
  generalize densityRaw M dmin mmult mean p = u at h0 ⊢
  generalize densityRaw M dmin mmult mean q = v at h0 ⊢
  cases u <;> cases v <;> simp only [Ext.le] at h0 ⊢
  exact pedfFin_mono _ h0

theorem pedf_mono (M : ℕ) {dmin mmult mean : ℝ} (hd : dmin < 255) (hm : 1 < mmult) (hmean : 0 < mean)
    {p q : Amp ℝ} (h : Amp.le p q) : pedfPx M dmin mmult mean p ≤ pedfPx M dmin mmult mean q :=
  clipCast_mono M (pedfRaw_mono M hd hm hmean h)

theorem pedf_range (M : ℕ) (dmin mmult mean : ℝ) (p : Amp ℝ) : pedfPx M dmin mmult mean p ≤ M :=
  clipCast_le M _

/-! ### Linear -/

theorem linearMap_mono {lo hi : ℝ} (hlh : lo < hi) {x y : ℝ} (h : x ≤ y) : linearMap lo hi x ≤ linearMap lo hi y := by
  unfold linearMap
  exact clip_mono _ _ (div_le_div_of_nonneg_right (by linarith) (by linarith))

theorem linearMap_nonneg (lo hi x : ℝ) : 0 ≤ linearMap lo hi x := by
  have := le_clip (lo := ((0 : ℕ) : ℝ)) (hi := ((1 : ℕ) : ℝ)) (by norm_num) ((x - lo) / (hi - lo))
  unfold linearMap; simpa using this

theorem linearMap_le_one (lo hi x : ℝ) : linearMap lo hi x ≤ 1 := by
  have := clip_le ((0 : ℕ) : ℝ) ((1 : ℕ) : ℝ) ((x - lo) / (hi - lo))
  unfold linearMap; simpa using this

theorem linearFin_mono (M : ℕ) (lo hi : ℝ) {a b : ℝ} (h : a ≤ b) : linearFin M lo hi a ≤ linearFin M lo hi b := by
  unfold linearFin
  split_ifs with hc
  · exact le_rfl
  · exact mul_le_mul_of_nonneg_left (linearMap_mono (not_le.mp hc) h) (Nat.cast_nonneg M)

theorem linearFin_le (M : ℕ) (lo hi a : ℝ) : linearFin M lo hi a ≤ M := by
  unfold linearFin
  split_ifs with hc
  · simp
  · have := mul_le_mul_of_nonneg_left (linearMap_le_one (sortLo lo hi) (sortHi lo hi) a) (Nat.cast_nonneg (α := ℝ) M)
    linarith

theorem linearRaw_mono (M : ℕ) (lo hi : ℝ) {p q : Amp ℝ} (h : Amp.le p q) :
    Ext.le (linearRaw M lo hi p) (linearRaw M lo hi q) := by
  cases p <;> cases q <;> simp only [Amp.le] at h <;> simp only [linearRaw, Ext.le]
  · exact linearFin_mono M lo hi h
  · exact linearFin_le M lo hi _
  · exact le_rfl

/-- **Linear is non-decreasing** for every (min, max) setting, including swapped and equal ones -/
theorem linear_mono (M : ℕ) (lo hi : ℝ) {p q : Amp ℝ} (h : Amp.le p q) : linearPx M lo hi p ≤ linearPx M lo hi q :=
  clipCast_mono M (linearRaw_mono M lo hi h)

theorem linear_range (M : ℕ) (lo hi : ℝ) (p : Amp ℝ) : linearPx M lo hi p ≤ M := clipCast_le M _

/-- non-finite pixels are shown at full scale -/
theorem linear_nonfinite (M : ℕ) (lo hi : ℝ) : linearPx M lo hi Amp.inf = M ∧ linearPx M lo hi Amp.nan = M :=
  ⟨clipCast_natCast M M le_rfl, clipCast_natCast M M le_rfl⟩

/-! ### Logarithmic -/

/-- the argument of `log2`: in `[1, 2]`, non-decreasing in the amplitude -/
theorem logArg_bounds {l h : ℝ} (hlh : l < h) (a : ℝ) :
    1 ≤ (clip l h a - l) / (h - l) + ((1 : ℕ) : ℝ) ∧ (clip l h a - l) / (h - l) + ((1 : ℕ) : ℝ) ≤ 2 := by
  have h1 := le_clip hlh.le a
  have h2 := clip_le l h a
  have hpos : 0 < h - l := by linarith
  constructor
  · have : 0 ≤ (clip l h a - l) / (h - l) := div_nonneg (by linarith) hpos.le
    push_cast; linarith
  · have : (clip l h a - l) / (h - l) ≤ 1 := (div_le_one hpos).mpr (by linarith)
    push_cast; linarith

theorem logArg_mono {l h : ℝ} (hlh : l < h) {a b : ℝ} (hab : a ≤ b) :
    (clip l h a - l) / (h - l) + ((1 : ℕ) : ℝ) ≤ (clip l h b - l) / (h - l) + ((1 : ℕ) : ℝ) := by
  have := clip_mono l h hab
  have : (clip l h a - l) / (h - l) ≤ (clip l h b - l) / (h - l) :=
    div_le_div_of_nonneg_right (by linarith) (by linarith)
  linarith

theorem logFin_nonneg (M : ℕ) (lo hi a : ℝ) : 0 ≤ logFin M lo hi a := by
  unfold logFin
  split_ifs with h1 h2
  · simp
  · simp
  · exact mul_nonneg (Nat.cast_nonneg M) (log2_nonneg (logArg_bounds (not_le.mp h2) a).1)

theorem logFin_le (M : ℕ) (lo hi a : ℝ) : logFin M lo hi a ≤ M := by
  unfold logFin
  split_ifs with h1 h2
  · simp
  · simp
  · have hb := logArg_bounds (not_le.mp h2) a
    have := mul_le_mul_of_nonneg_left (log2_le_one (by linarith [hb.1]) hb.2) (Nat.cast_nonneg (α := ℝ) M)
    linarith

theorem logFin_mono (M : ℕ) (lo hi : ℝ) {a b : ℝ} (h : a ≤ b) : logFin M lo hi a ≤ logFin M lo hi b := by
  by_cases ha : a ≤ ((0 : ℕ) : ℝ)
  · have : logFin M lo hi a = 0 := by unfold logFin; rw [if_pos ha]; simp
    rw [this]; exact logFin_nonneg M lo hi b
  · have hb : ¬ b ≤ ((0 : ℕ) : ℝ) := fun hb => ha (le_trans h hb)
    unfold logFin
    rw [if_neg ha, if_neg hb]
    split_ifs with h2
    · exact le_rfl
    · have hlh := not_le.mp h2
      exact mul_le_mul_of_nonneg_left
        (log2_mono (by linarith [(logArg_bounds hlh a).1]) (logArg_mono hlh h)) (Nat.cast_nonneg M)

theorem logRaw_mono (M : ℕ) (lo hi : ℝ) {p q : Amp ℝ} (h : Amp.le p q) :
    Ext.le (logRaw M lo hi p) (logRaw M lo hi q) := by
  cases p <;> cases q <;> simp only [Amp.le] at h <;> simp only [logRaw, Ext.le]
  · exact logFin_mono M lo hi h
  · exact logFin_le M lo hi _
  · exact le_rfl

/-- **Logarithmic is non-decreasing** (zero pixels at 0, non-finite at full scale) -/
theorem log_mono (M : ℕ) (lo hi : ℝ) {p q : Amp ℝ} (h : Amp.le p q) : logPx M lo hi p ≤ logPx M lo hi q :=
  clipCast_mono M (logRaw_mono M lo hi h)

theorem log_range (M : ℕ) (lo hi : ℝ) (p : Amp ℝ) : logPx M lo hi p ≤ M := clipCast_le M _

/-! ### NRL: linear below the change-over (output ≤ knee), logarithmic above (output ≥ knee) -/

theorem nrlLow_le_knee (M : ℕ) {knee : ℝ} (hk0 : 0 ≤ knee) (hkM : knee ≤ M) (amin chg a : ℝ) :
    nrlLow M knee amin chg a ≤ knee := by
  unfold nrlLow
  split_ifs
  · have h0 := linearMap_nonneg amin chg a
    have h1 := linearMap_le_one amin chg a
    have hy0 : 0 ≤ knee * linearMap amin chg a := mul_nonneg hk0 h0
    have hy1 : knee * linearMap amin chg a ≤ knee := by nlinarith
    rw [clip_of_mem (by simpa using hy0) (by linarith)]
    exact hy1
  · simpa using hk0

theorem nrlLow_mono (M : ℕ) {knee : ℝ} (hk0 : 0 ≤ knee) (amin chg : ℝ) {a b : ℝ} (h : a ≤ b) :
    nrlLow M knee amin chg a ≤ nrlLow M knee amin chg b := by
  unfold nrlLow
  split_ifs with hc
  · exact clip_mono _ _ (mul_le_mul_of_nonneg_left (linearMap_mono hc h) hk0)
  · exact le_rfl

/-- the argument of `log2` in the upper branch, for an amplitude already in `[chg, amax]` -/
theorem nrlHighAt_ge_knee (M : ℕ) {knee : ℝ} (hkM : knee ≤ M) {amax chg : ℝ} (hc : chg < amax) {x : ℝ} (hx : chg ≤ x) :
    knee ≤ nrlHighAt M knee amax chg x := by
  unfold nrlHighAt
  have harg : (1 : ℝ) ≤ (x - chg) / (amax - chg) + ((1 : ℕ) : ℝ) := by
    have : 0 ≤ (x - chg) / (amax - chg) := div_nonneg (by linarith) (by linarith)
    push_cast; linarith
  have := mul_nonneg (log2_nonneg harg) (by linarith : (0 : ℝ) ≤ (M : ℝ) - knee)
  linarith

theorem nrlHighAt_mono (M : ℕ) {knee : ℝ} (hkM : knee ≤ M) {amax chg : ℝ} (hc : chg < amax) {x y : ℝ}
    (hx : chg ≤ x) (h : x ≤ y) : nrlHighAt M knee amax chg x ≤ nrlHighAt M knee amax chg y := by
  unfold nrlHighAt
  have h0 : 0 ≤ (x - chg) / (amax - chg) := div_nonneg (by linarith) (by linarith)
  have h1 : (x - chg) / (amax - chg) ≤ (y - chg) / (amax - chg) :=
    div_le_div_of_nonneg_right (by linarith) (by linarith)
  have hl : (RemapFns.log2 ((x - chg) / (amax - chg) + ((1 : ℕ) : ℝ)) : ℝ) ≤
      RemapFns.log2 ((y - chg) / (amax - chg) + ((1 : ℕ) : ℝ)) :=
    log2_mono (by push_cast; linarith) (by linarith)
  have := mul_le_mul_of_nonneg_right hl (by linarith : (0 : ℝ) ≤ (M : ℝ) - knee)
  linarith

/-- over ℝ the top of the logarithmic branch is exactly `max_output_value` -/
theorem nrlHighAt_top (M : ℕ) (knee : ℝ) {amax chg : ℝ} (hc : chg < amax) : nrlHighAt M knee amax chg amax = M := by
  unfold nrlHighAt
  have : (amax - chg) / (amax - chg) + ((1 : ℕ) : ℝ) = 2 := by
    rw [div_self (by linarith : amax - chg ≠ 0)]; norm_num
  rw [this, log2_eq, div_self log_two_pos.ne']
  ring

theorem nrlHigh_ge_knee (M : ℕ) {knee : ℝ} (hkM : knee ≤ M) (amax chg a : ℝ) : knee ≤ nrlHigh M knee amax chg a := by
  unfold nrlHigh
  split_ifs with hc
  · exact le_rfl
  · exact nrlHighAt_ge_knee M hkM (not_le.mp hc) (le_clip (not_le.mp hc).le a)

theorem nrlHigh_mono (M : ℕ) {knee : ℝ} (hkM : knee ≤ M) (amax chg : ℝ) {a b : ℝ} (h : a ≤ b) :
    nrlHigh M knee amax chg a ≤ nrlHigh M knee amax chg b := by
  unfold nrlHigh
  split_ifs with hc
  · exact le_rfl
  · exact nrlHighAt_mono M hkM (not_le.mp hc) (le_clip (not_le.mp hc).le a) (clip_mono _ _ h)

theorem nrlFin_mono (M : ℕ) {knee : ℝ} (hk0 : 0 ≤ knee) (hkM : knee ≤ M) (amin amax chg : ℝ) {a b : ℝ} (h : a ≤ b) :
    nrlFin M knee amin amax chg a ≤ nrlFin M knee amin amax chg b := by
  unfold nrlFin
  split_ifs with h0 ha hb hb
  · exact le_rfl
  · exact nrlLow_mono M hk0 amin chg h
  · exact le_trans (nrlLow_le_knee M hk0 hkM amin chg a) (nrlHigh_ge_knee M hkM amax chg b)
  · exact absurd (le_trans h hb) ha
  · exact nrlHigh_mono M hkM amax chg h

/-- with `chg == amax` every finite amplitude is shown no brighter than `knee` -/
theorem nrlFin_le_knee (M : ℕ) {knee : ℝ} (hk0 : 0 ≤ knee) (hkM : knee ≤ M) (amin : ℝ) {amax chg : ℝ}
    (hc : amax ≤ chg) (a : ℝ) : nrlFin M knee amin amax chg a ≤ knee := by
  unfold nrlFin
  split_ifs with h0 ha
  · simpa using hk0
  · exact nrlLow_le_knee M hk0 hkM amin chg a
  · unfold nrlHigh; rw [if_pos hc]

/-- otherwise no brighter than the value of an infinite amplitude -/
theorem nrlFin_le_top (M : ℕ) {knee : ℝ} (hk0 : 0 ≤ knee) (hkM : knee ≤ M) (amin : ℝ) {amax chg : ℝ}
    (hc : chg < amax) (h0 : ¬ amax ≤ amin) (a : ℝ) :
    nrlFin M knee amin amax chg a ≤ nrlHighAt M knee amax chg amax := by
  unfold nrlFin
  rw [if_neg h0]
  split_ifs with ha
  · exact le_trans (nrlLow_le_knee M hk0 hkM amin chg a) (nrlHighAt_ge_knee M hkM hc hc.le)
  · unfold nrlHigh
    rw [if_neg (not_le.mpr hc)]
    exact nrlHighAt_mono M hkM hc (le_clip hc.le a) (clip_le _ _ _)

theorem nrlRaw_mono (M : ℕ) {knee : ℝ} (hk0 : 0 ≤ knee) (hkM : knee ≤ M) (amin amax chg : ℝ)
    {p q : Amp ℝ} (h : Amp.le p q) :
    Ext.le (nrlRaw M knee amin amax chg p) (nrlRaw M knee amin amax chg q) := by
  cases p <;> cases q <;> simp only [Amp.le] at h <;> simp only [nrlRaw]
  · exact nrlFin_mono M hk0 hkM amin amax chg h
  · rename_i a
    by_cases h0 : amax ≤ amin
    · rw [if_pos h0]
      have : nrlFin M knee amin amax chg a = ((0 : ℕ) : ℝ) := by unfold nrlFin; rw [if_pos h0]
      simp only [Ext.le]; exact this.le
    · rw [if_neg h0]
      by_cases hc : amax ≤ chg
      · rw [if_pos hc]; exact nrlFin_le_knee M hk0 hkM amin hc a
      · rw [if_neg hc]; exact nrlFin_le_top M hk0 hkM amin (not_le.mp hc) h0 a
  · split_ifs <;> exact le_rfl (a := (_ : ℝ))

/-- **NRL is non-decreasing** for every validated statistics triple and knee (`0 < knee < M` in the code) -/
theorem nrl_mono (M : ℕ) {knee : ℝ} (hk0 : 0 ≤ knee) (hkM : knee ≤ M) (amin amax chg : ℝ)
    {p q : Amp ℝ} (h : Amp.le p q) : nrlPx M knee amin amax chg p ≤ nrlPx M knee amin amax chg q :=
  clipCast_mono M (nrlRaw_mono M hk0 hkM amin amax chg h)

theorem nrl_range (M : ℕ) (knee amin amax chg : ℝ) (p : Amp ℝ) : nrlPx M knee amin amax chg p ≤ M :=
  clipCast_le M _

/-! ### a remap with fixed global parameters is `List.map`: range, order, chunk independence -/

section pointwise
variable {β γ : Type}

/-- **range** of a whole image: every output of every monochrome remap is in `[0, M]`, whatever the
    pixels are (finite, inf, NaN) and whatever `raw` computes -/
theorem remap_range (M : ℕ) (raw : Amp ℝ → Ext ℝ) (img : List (Amp ℝ)) :
    ∀ y ∈ remap (fun p => clipCast M (raw p)) img, y ≤ M := by
  intro y hy
  obtain ⟨p, _, rfl⟩ := List.mem_map.mp hy
  exact clipCast_le M _

/-- **monotone along a sorted ramp** -/
theorem remap_sorted (px : Amp ℝ → ℕ) (hpx : ∀ p q, Amp.le p q → px p ≤ px q) (img : List (Amp ℝ))
    (h : img.Pairwise Amp.le) : (remap px img).Pairwise (· ≤ ·) := by
  unfold remap
  rw [List.pairwise_map]
  exact h.imp (fun {a b} hab => hpx a b hab)

theorem remap_length (f : β → γ) (img : List β) : (remap f img).length = img.length := List.length_map f

/-- two chunks -/
theorem remap_append (f : β → γ) (a b : List β) : remap f (a ++ b) = remap f a ++ remap f b := List.map_append

/-- **chunk independence**: any sequence of chunks, remapped one by one and put together, equals
    the remap of the whole -/
theorem remap_chunks (f : β → γ) (chunks : List (List β)) :
    remap f chunks.flatten = (chunks.map (remap f)).flatten := by
  unfold remap; rw [List.map_flatten]

/-- the same, phrased for any partition of a given image -/
theorem remap_partition (f : β → γ) (img : List β) (chunks : List (List β)) (h : chunks.flatten = img) :
    (chunks.map (remap f)).flatten = remap f img := by
  rw [← h, remap_chunks]

/-- pixel by pixel -/
theorem remap_pixelwise (f : β → γ) (img : List β) : remap f img = (img.map (fun p => remap f [p])).flatten := by
  induction img with
  | nil => rfl
  | cons p l ih =>
    have : remap f (p :: l) = f p :: remap f l := rfl
    rw [this, ih]; rfl

/-- the output at a position is the transfer function of the pixel at that position ... -/
theorem remap_getElem? (f : β → γ) (img : List β) (i : Nat) : (remap f img)[i]? = (img[i]?).map f := by
  unfold remap; exact List.getElem?_map

/-- ... so it is the same in any two images that agree at that position ... -/
theorem remap_indep_of_others (f : β → γ) (img img' : List β) (i : Nat) (h : img[i]? = img'[i]?) :
    (remap f img)[i]? = (remap f img')[i]? := by
  rw [remap_getElem?, remap_getElem?, h]

/-- ... in particular it does not change when another pixel is replaced (by NaN, inf, anything) -/
theorem remap_set_other (f : β → γ) (img : List β) (i j : Nat) (v : β) (hij : j ≠ i) :
    (remap f (img.set j v))[i]? = (remap f img)[i]? := by
  apply remap_indep_of_others
  exact List.getElem?_set_ne hij

/-! ### colour look-up remaps -/

/-- **LUT remap = table applied to the monochrome result** -/
theorem lut_eq_table (table : List γ) (dflt : γ) (mono : β → Nat) (img : List β) :
    lutRemap table dflt mono img = (remap mono img).map (lutLookup table dflt) := by
  unfold lutRemap remap; rw [List.map_map]; rfl

theorem lut_chunks (table : List γ) (dflt : γ) (mono : β → Nat) (chunks : List (List β)) :
    lutRemap table dflt mono chunks.flatten = (chunks.map (lutRemap table dflt mono)).flatten := by
  unfold lutRemap; rw [List.map_flatten]

/-- with a table of `M + 1` rows and a monochrome remap with range `[0, M]`, every output is a row
    of the table (the index never leaves it) -/
theorem lut_in_table (table : List γ) (dflt : γ) (M : Nat) (hlen : table.length = M + 1) (mono : β → Nat)
    (hmono : ∀ p, mono p ≤ M) (p : β) : lutLookup table dflt (mono p) ∈ table := by
  unfold lutLookup
  have hi : mono p < table.length := by rw [hlen]; exact Nat.lt_succ_of_le (hmono p)
  rw [List.getD_eq_getElem?_getD, List.getElem?_eq_getElem hi]
  exact List.getElem_mem hi

end pointwise

/-! ### the density family as coded: the all-zero chunk short cut -/

theorem chunkCoded_of_not_allZero (px : Amp ℝ → ℕ) (chunk : List (Amp ℝ)) (h : chunk.all Amp.isZero = false) :
    chunkCoded px chunk = remap px chunk := by
  unfold chunkCoded remap; rw [h]; rfl

/-- if zero pixels are mapped to 0 by the pointwise transfer, the coded chunk function is the pointwise remap -/
theorem chunkCoded_eq_remap_of_zero_fixed (px : Amp ℝ → ℕ) (hz : ∀ p : Amp ℝ, p.isZero = true → px p = 0)
    (chunk : List (Amp ℝ)) : chunkCoded px chunk = remap px chunk := by
  unfold chunkCoded remap
  split_ifs with h
  · apply List.map_congr_left
    intro p hp
    exact (hz p (List.all_eq_true.mp h p hp)).symm
  · rfl

/-- **chunk independence of the code as it stands - partial**: it holds under the extra hypothesis
    that the pointwise transfer sends a zero pixel to 0 (true for data means of ordinary size, see
    `density_zero_pixel_ge_dmin` for when it is false).  The unconditional statement is false:
    `chunkCoded_chunk_dependent`. -/
theorem chunkCoded_chunk_independent_partial (px : Amp ℝ → ℕ) (hz : ∀ p : Amp ℝ, p.isZero = true → px p = 0)
    (chunks : List (List (Amp ℝ))) :
    chunkCoded px chunks.flatten = (chunks.map (chunkCoded px)).flatten := by
  rw [chunkCoded_eq_remap_of_zero_fixed px hz, remap_chunks]
  congr 1
  apply List.map_congr_left
  intro c _
  exact (chunkCoded_eq_remap_of_zero_fixed px hz c).symm

/-- **negation witness, general form**: whenever the pointwise transfer sends a zero pixel to a
    non-zero value, a zero pixel next to a non-zero one comes out differently in the two-pixel chunk
    and alone -/
theorem chunkCoded_chunk_dependent (px : Amp ℝ → ℕ) (z a : Amp ℝ) (hz : z.isZero = true) (ha : a.isZero = false)
    (hpx : px z ≠ 0) : chunkCoded px ([z] ++ [a]) ≠ chunkCoded px [z] ++ chunkCoded px [a] := by
  unfold chunkCoded
  simp [hz, ha, hpx]

/-- a zero pixel inside a mixed chunk is shown at `dmin` or brighter as soon as `0.8·data_mean ≤ EPS` -/
theorem density_zero_pixel_ge_dmin {dmin mmult mean : ℝ} (hd : dmin ≤ 255) (hm : 1 ≤ mmult) (hmean : 0 < mean)
    (hsmall : cLow mean ≤ epsCode) : dmin ≤ a2dFin dmin mmult mean 0 := by
  unfold a2dFin a2dConst
  have hs := a2dSlope_nonneg hd hm hmean
  have hmax : max (0 : ℝ) epsCode = epsCode := max_eq_right epsCode_pos.le
  rw [hmax]
  have hl : (RemapFns.log10 (cLow mean) : ℝ) ≤ RemapFns.log10 epsCode := log10_mono (cLow_pos hmean) hsmall
  have := mul_le_mul_of_nonneg_left hl hs
  linarith

/-- **negation witness, concrete**: `Density` (dmin 30, mmult 40, 8 bit) with `data_mean = 1e-7`:
    the zero pixel of the image `[0, 1]` is non-zero when the image is remapped whole and 0 when
    it is remapped pixel by pixel.  The harness replays exactly this on the implementation. -/
theorem coded_density_chunk_dependent_witness :
    chunkCoded (densityPx 255 (30 : ℝ) 40 (1 / 10000000)) ([Amp.fin 0] ++ [Amp.fin 1]) ≠
      chunkCoded (densityPx 255 (30 : ℝ) 40 (1 / 10000000)) [Amp.fin 0] ++
      chunkCoded (densityPx 255 (30 : ℝ) 40 (1 / 10000000)) [Amp.fin 1] := by
  apply chunkCoded_chunk_dependent
  · simp [Amp.isZero]
  · simp [Amp.isZero]
  · have hmean : (0 : ℝ) < 1 / 10000000 := by norm_num
    have hsmall : cLow (1 / 10000000 : ℝ) ≤ epsCode := by unfold cLow epsCode; norm_num
    have h30 := density_zero_pixel_ge_dmin (dmin := 30) (mmult := 40) (by norm_num) (by norm_num) hmean hsmall
    have hpos : 1 ≤ densityPx 255 (30 : ℝ) 40 (1 / 10000000) (Amp.fin 0) := by
      unfold densityPx densityRaw a2d Ext.scale
      rw [clipCast_fin]
      apply Nat.le_floor
      unfold clip
      apply le_min
      · apply le_max_of_le_left
        have : ((255 : ℕ) : ℝ) / ((255 : ℕ) : ℝ) = 1 := by norm_num
        rw [this]; push_cast; linarith
      · norm_num
    omega

/-! ### the hypotheses are satisfiable on ordinary settings -/

example : densityPx 255 (30 : ℝ) 40 1 (Amp.fin 2) ≤ densityPx 255 (30 : ℝ) 40 1 (Amp.fin 3) :=
  density_mono 255 (by norm_num) (by norm_num) (by norm_num) (by simp only [Amp.le]; norm_num)

example : pedfPx 65535 (0 : ℝ) 4 (1 / 2) (Amp.fin 2) ≤ pedfPx 65535 (0 : ℝ) 4 (1 / 2) Amp.inf :=
  pedf_mono 65535 (by norm_num) (by norm_num) (by norm_num) (by simp [Amp.le])

example : nrlPx 255 (204 : ℝ) 0 10 8 (Amp.fin 7) ≤ nrlPx 255 (204 : ℝ) 0 10 8 (Amp.fin 9) :=
  nrl_mono 255 (by norm_num) (by norm_num) 0 10 8 (by simp only [Amp.le]; norm_num)

/-- swapped (min, max) setting, finite pixel against an infinite one -/
example : linearPx 255 (5 : ℝ) 1 (Amp.fin 2) ≤ linearPx 255 (5 : ℝ) 1 Amp.inf :=
  linear_mono 255 5 1 (by simp only [Amp.le])

example (f : Amp ℝ → ℕ) : remap f ([Amp.fin 1, Amp.nan] ++ [Amp.inf]) = remap f [Amp.fin 1, Amp.nan] ++ remap f [Amp.inf] :=
  remap_append f _ _

end Sarpy.Props.C17
