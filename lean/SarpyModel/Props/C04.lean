/-
  C04 — image-to-ground / ground-to-image projection obeys the SICD projection model.

  All theorems are over ℝ (the model `Spec.Proj` instantiated with `Real.sqrt`, `Real.sin`, `Real.cos`); the same
  definitions run at `Float` in the driver and are compared with sarpy by the harness.

  * `plane_point_on_plane`, `plane_point_range(_sq)`, `plane_point_rdot`: the point `_image_to_ground_plane_perform`
    builds lies on the plane, at range R from the ARP, with range rate Rdot, under `NonDegenerate`
    (|uZ| = 1, vX > 0, |cosAz| ≤ 1, |ARP height| < R, look ≠ 0); `ex_nondegenerate` + `example`s: satisfiable;
    `look_zero_counterexample`: the last hypothesis is needed.
  * `planePoint_eq_some` / `planePoint_some_masks`: the two NaN masks vs the hypotheses.
  * `imageToPlane_on_contour`: the whole chain pixel → (R, Rdot, ARP, VARP) → ground point, any branch, any adjustable
    parameters: a returned point is on the plane and on the contour the branch assigned to the pixel.
  * `coa_pointwise`, `batch_getElem`, `batch_append`, `batch_perm`, `blocks_flatten`, `blockwise_eq_map`: pointwise ⇒
    independent of batch composition, order and block size.
  * `doWhile_spec`, `hae_exit_bound`, `g2i_exit_bound`, `hae_iterate_on_contour`, `hae_pointwise_given_iterations`:
    what holds on exit of the two iterations (convergence is NOT proved) and what is pointwise in them.
  * `pfa_rdot_is_time_derivative`, `inca_rdot_is_time_derivative`, `inca_consistent`, `ipp_on_own_contour`,
    `pfa_rrdot_scp`, `rgazcomp_rrdot_scp`: consistency of the branch formulas.
  Not proved: convergence of the iterations, the final slant-plane correction of the HAE method, IEEE rounding.
-/
import SarpyModel.Spec.Proj
import Mathlib.Analysis.Real.Sqrt
import Mathlib.Analysis.SpecialFunctions.Trigonometric.Deriv
import Mathlib.Analysis.Calculus.Deriv.Polynomial
import Mathlib.Analysis.SpecialFunctions.Sqrt
import SarpyModel.Props.C16
import Mathlib.Tactic.Ring
import Mathlib.Tactic.FieldSimp
import Mathlib.Tactic.Linarith
import Mathlib.Tactic.LinearCombination
import Mathlib.Tactic.NormNum

namespace Sarpy.Props.C04
open Sarpy.Spec Sarpy.Spec.Proj

noncomputable instance : Sqrt ℝ := ⟨Real.sqrt⟩

/-! ### polynomial identities of the frame `uX, uY = uZ × uX, uZ` -/

section core
variable (arp v gref z : V3 ℝ) (k a b s : ℝ)

/-- the point `_image_to_ground_plane_perform` returns, with the scalars abstracted -/
noncomputable def corePoint : V3 ℝ :=
  let uX := V3.sdiv (V3.sub v (V3.smul (V3.dot v z) z)) s
  V3.add (V3.add (V3.sub arp (V3.smul k z)) (V3.smul a uX)) (V3.smul b (V3.cross z uX))

theorem onplane_core (hk : k = V3.dot (V3.sub arp gref) z) (hZ : V3.dot z z = 1) :
    V3.dot (V3.sub (corePoint arp v z k a b s) gref) z = 0 := by
  subst hk
  simp only [corePoint, V3.add, V3.sub, V3.smul, V3.sdiv, V3.dot, V3.cross] at *
  linear_combination (-(((arp.x - gref.x) * z.x + (arp.y - gref.y) * z.y + (arp.z - gref.z) * z.z))
    - a * (v.x * z.x + v.y * z.y + v.z * z.z) / s) * hZ

/-- the horizontal part of the velocity, `varp - vZ uZ` -/
noncomputable def wOf (v z : V3 ℝ) : V3 ℝ := V3.sub v (V3.smul (V3.dot v z) z)

theorem w_dot_z (hZ : V3.dot z z = 1) : V3.dot z (wOf v z) = 0 := by
  simp only [wOf, V3.sub, V3.smul, V3.dot] at *
  linear_combination (-(v.x * z.x + v.y * z.y + v.z * z.z)) * hZ

theorem w_dot_w (hZ : V3.dot z z = 1) (hs2 : s * s = V3.dot v v - V3.dot v z * V3.dot v z) :
    V3.dot (wOf v z) (wOf v z) = s * s := by
  simp only [wOf, V3.sub, V3.smul, V3.dot] at *
  linear_combination (v.x * z.x + v.y * z.y + v.z * z.z) ^ 2 * hZ - hs2

theorem v_dot_w (hs2 : s * s = V3.dot v v - V3.dot v z * V3.dot v z) : V3.dot v (wOf v z) = s * s := by
  simp only [wOf, V3.sub, V3.smul, V3.dot] at *
  linear_combination - hs2

theorem range_core (hZ : V3.dot z z = 1) (hs : s ≠ 0) (hs2 : s * s = V3.dot v v - V3.dot v z * V3.dot v z) :
    V3.dot (V3.sub (corePoint arp v z k a b s) arp) (V3.sub (corePoint arp v z k a b s) arp)
      = k * k + a * a + b * b := by
  have key : V3.dot (V3.sub (corePoint arp v z k a b s) arp) (V3.sub (corePoint arp v z k a b s) arp)
      = k * k * V3.dot z z + (a * a * V3.dot (wOf v z) (wOf v z)
          + b * b * (V3.dot z z * V3.dot (wOf v z) (wOf v z) - V3.dot z (wOf v z) ^ 2)) / (s * s)
        - 2 * k * a * V3.dot z (wOf v z) / s := by
    simp only [corePoint, wOf, V3.add, V3.sub, V3.smul, V3.sdiv, V3.dot, V3.cross]
    ring
  rw [key, w_dot_z v z hZ, w_dot_w v z s hZ hs2, hZ]
  have hs' : s ≠ 0 := hs
  field_simp
  ring

theorem rdot_core (hs : s ≠ 0) (hs2 : s * s = V3.dot v v - V3.dot v z * V3.dot v z) :
    V3.dot v (V3.sub (corePoint arp v z k a b s) arp) = s * a - V3.dot v z * k := by
  have key : V3.dot v (V3.sub (corePoint arp v z k a b s) arp)
      = - k * V3.dot v z + a * V3.dot v (wOf v z) / s := by
    simp only [corePoint, wOf, V3.add, V3.sub, V3.smul, V3.sdiv, V3.dot, V3.cross]
    ring
  rw [key, v_dot_w v z s hs2]
  have hs' : s ≠ 0 := hs
  field_simp
  ring

end core

/-! ### scalar finishing steps -/

@[simp] theorem sqrt_def (x : ℝ) : Sqrt.sqrt x = Real.sqrt x := rfl

theorem sgn_mul_self (x : ℝ) (h : sgn x ≠ 0) : sgn x * sgn x = 1 := by
  unfold sgn at *
  split_ifs at * <;> simp_all

theorem sgn_eq (x : ℝ) : sgn x = if 0 < x then 1 else if x < 0 then -1 else 0 := rfl

theorem absS_eq_abs (x : ℝ) : absS x = |x| := by
  unfold absS
  split_ifs with h
  · exact (abs_of_neg h).symm
  · exact (abs_of_nonneg (not_lt.mp h)).symm

theorem dot_self_nonneg (a : V3 ℝ) : 0 ≤ V3.dot a a := by
  simp only [V3.dot]
  nlinarith [mul_self_nonneg a.x, mul_self_nonneg a.y, mul_self_nonneg a.z]

theorem scalar_range (k g c l q r : ℝ) (hg : g * g = r * r - k * k) (hq : q * q = 1 - c * c) (hl : l * l = 1) :
    k * k + (g * c) * (g * c) + (g * (l * q)) * (g * (l * q)) = r * r := by
  linear_combination hg + g * g * l * l * hq + g * g * (1 - c * c) * hl

theorem scalar_rdot (s g r k d rdot : ℝ) (hs : s ≠ 0) (hg : g ≠ 0) (hr : r ≠ 0) :
    -(s * (g * ((-rdot + d * (k / r)) / (s * (g / r)))) - d * k) / r = rdot := by
  field_simp
  ring

/-! ### the theorems about `_image_to_ground_plane_perform` -/

section main
variable (arp varp gref uZ : V3 ℝ) (r rdot : ℝ)

/-- the explicit non-degeneracy hypotheses, on the quantities the code computes:
    unit plane normal, horizontal speed `vX > 0`, `|cosAz| ≤ 1` (the second mask passes),
    ARP strictly closer to the plane than `R` (the first mask passes, and the contour meets the plane in more than
    one point), and the ground reference point is not exactly under the flight line (`look ≠ 0`). -/
structure NonDegenerate : Prop where
  unitZ : V3.dot uZ uZ = 1
  vXpos : 0 < (planeTerms arp varp gref uZ r rdot).vX
  cosAz_le : |(planeTerms arp varp gref uZ r rdot).cosAz| ≤ 1
  height : |(planeTerms arp varp gref uZ r rdot).arpZ| < r
  look_ne : (planeTerms arp varp gref uZ r rdot).look ≠ 0

theorem raw_eq_core : planePointRaw arp varp gref uZ r rdot =
    corePoint arp varp uZ (planeTerms arp varp gref uZ r rdot).arpZ
      ((planeTerms arp varp gref uZ r rdot).gd * (planeTerms arp varp gref uZ r rdot).cosAz)
      ((planeTerms arp varp gref uZ r rdot).gd * (planeTerms arp varp gref uZ r rdot).sinAz)
      (planeTerms arp varp gref uZ r rdot).vX := rfl

/-- **on the plane**: `(p − gref)·uZ = 0`; needs only `|uZ| = 1` -/
theorem plane_point_on_plane (hZ : V3.dot uZ uZ = 1) :
    V3.dot (V3.sub (planePointRaw arp varp gref uZ r rdot) gref) uZ = 0 := by
  rw [raw_eq_core]
  exact onplane_core arp varp gref uZ _ _ _ _ rfl hZ

theorem vX_sq (h : 0 < (planeTerms arp varp gref uZ r rdot).vX) :
    (planeTerms arp varp gref uZ r rdot).vX * (planeTerms arp varp gref uZ r rdot).vX
      = V3.dot varp varp - V3.dot varp uZ * V3.dot varp uZ := by
  have h1 : (planeTerms arp varp gref uZ r rdot).vX
      = Real.sqrt (Real.sqrt (V3.dot varp varp) * Real.sqrt (V3.dot varp varp) - V3.dot varp uZ * V3.dot varp uZ) := rfl
  rw [h1] at h ⊢
  have h2 := Real.sqrt_pos.mp h
  rw [Real.mul_self_sqrt h2.le, Real.mul_self_sqrt (dot_self_nonneg varp)]

theorem gd_sq (h : |(planeTerms arp varp gref uZ r rdot).arpZ| < r) :
    (planeTerms arp varp gref uZ r rdot).gd * (planeTerms arp varp gref uZ r rdot).gd
      = r * r - (planeTerms arp varp gref uZ r rdot).arpZ * (planeTerms arp varp gref uZ r rdot).arpZ
    ∧ 0 < (planeTerms arp varp gref uZ r rdot).gd := by
  have h1 : (planeTerms arp varp gref uZ r rdot).gd
      = Real.sqrt (r * r - (planeTerms arp varp gref uZ r rdot).arpZ * (planeTerms arp varp gref uZ r rdot).arpZ) := rfl
  obtain ⟨hlo, hhi⟩ := abs_lt.mp h
  have hpos : 0 < r * r - (planeTerms arp varp gref uZ r rdot).arpZ * (planeTerms arp varp gref uZ r rdot).arpZ := by
    nlinarith
  rw [h1]
  exact ⟨Real.mul_self_sqrt hpos.le, Real.sqrt_pos.mpr hpos⟩

theorem r_pos (h : |(planeTerms arp varp gref uZ r rdot).arpZ| < r) : 0 < r :=
  lt_of_le_of_lt (abs_nonneg _) h

/-- **on the range sphere**, squared form -/
theorem plane_point_range_sq (H : NonDegenerate arp varp gref uZ r rdot) :
    V3.dot (V3.sub (planePointRaw arp varp gref uZ r rdot) arp) (V3.sub (planePointRaw arp varp gref uZ r rdot) arp)
      = r * r := by
  rw [raw_eq_core, range_core arp varp uZ _ _ _ _ H.unitZ H.vXpos.ne' (vX_sq arp varp gref uZ r rdot H.vXpos)]
  have hsin : (planeTerms arp varp gref uZ r rdot).sinAz
      = (planeTerms arp varp gref uZ r rdot).look
        * Real.sqrt (1 - (planeTerms arp varp gref uZ r rdot).cosAz * (planeTerms arp varp gref uZ r rdot).cosAz) := rfl
  rw [hsin]
  obtain ⟨hlo, hhi⟩ := abs_le.mp H.cosAz_le
  have hc : 0 ≤ 1 - (planeTerms arp varp gref uZ r rdot).cosAz * (planeTerms arp varp gref uZ r rdot).cosAz := by
    nlinarith
  exact scalar_range _ _ _ _ _ _ (gd_sq arp varp gref uZ r rdot H.height).1 (Real.mul_self_sqrt hc)
    (sgn_mul_self _ H.look_ne)

/-- **on the range sphere**: the distance from the ARP to the returned point is `R` -/
theorem plane_point_range (H : NonDegenerate arp varp gref uZ r rdot) :
    V3.norm (V3.sub (planePointRaw arp varp gref uZ r rdot) arp) = r := by
  unfold V3.norm
  rw [plane_point_range_sq arp varp gref uZ r rdot H, sqrt_def]
  exact Real.sqrt_mul_self (r_pos arp varp gref uZ r rdot H.height).le

/-- **on the range-rate cone**: the range rate of the returned point is `Rdot` -/
theorem plane_point_rdot (H : NonDegenerate arp varp gref uZ r rdot) :
    rangeRate arp varp (planePointRaw arp varp gref uZ r rdot) = rdot := by
  unfold rangeRate
  rw [plane_point_range arp varp gref uZ r rdot H, raw_eq_core,
    rdot_core arp varp uZ _ _ _ _ H.vXpos.ne' (vX_sq arp varp gref uZ r rdot H.vXpos)]
  exact scalar_rdot _ _ _ _ _ _ H.vXpos.ne' (gd_sq arp varp gref uZ r rdot H.height).2.ne'
    (r_pos arp varp gref uZ r rdot H.height).ne'

/-- under the hypotheses neither mask fires: the code returns the point (no NaN) -/
theorem planePoint_eq_some (H : NonDegenerate arp varp gref uZ r rdot) :
    planePoint arp varp gref uZ r rdot = some (planePointRaw arp varp gref uZ r rdot) := by
  unfold planePoint
  have h1 : ¬ r < (planeTerms arp varp gref uZ r rdot).arpZ :=
    not_lt.mpr (le_trans (le_abs_self _) H.height.le)
  have h2 : ¬ 1 < absS (planeTerms arp varp gref uZ r rdot).cosAz := by
    rw [absS_eq_abs]; exact not_lt.mpr H.cosAz_le
  simp only [h1, h2, if_false]

/-- conversely, a returned (non-NaN) point certifies the two mask conditions -/
theorem planePoint_some_masks {q : V3 ℝ} (h : planePoint arp varp gref uZ r rdot = some q) :
    q = planePointRaw arp varp gref uZ r rdot ∧ (planeTerms arp varp gref uZ r rdot).arpZ ≤ r
      ∧ |(planeTerms arp varp gref uZ r rdot).cosAz| ≤ 1 := by
  unfold planePoint at h
  by_cases h1 : r < (planeTerms arp varp gref uZ r rdot).arpZ
  · simp [h1] at h
  · by_cases h2 : 1 < absS (planeTerms arp varp gref uZ r rdot).cosAz
    · simp [h1, h2] at h
    · simp only [h1, h2, if_false, Option.some.injEq] at h
      rw [absS_eq_abs] at h2
      exact ⟨h.symm, not_lt.mp h1, not_lt.mp h2⟩

end main

/-! ### the whole chain pixel → (R, Rdot, ARP, VARP) → ground plane point -/

noncomputable instance : Trig ℝ := ⟨Real.sin, Real.cos⟩

section chain
variable (c : Coa ℝ) (m : Method ℝ) (gref uZ : V3 ℝ)

/-- **a returned point is on the requested plane and on the pixel's R/Rdot contour**: whatever the image formation
    branch, the adjustable parameters and the COA polynomials, if `_image_to_ground_plane` returns a point `q`
    (no NaN) for pixel `p`, then `q` lies in the plane through `gref` normal to `uZ`, at the range the branch
    assigned to the pixel (incl. range bias) from the (adjusted) ARP, with the assigned range rate w.r.t. the
    (adjusted) VARP.  The two mask conditions come from the returned value itself. -/
theorem imageToPlane_on_contour (p : ℝ × ℝ) (q : V3 ℝ)
    (h : imageToPlane c m gref uZ p = some q)
    (hZ : V3.dot uZ uZ = 1)
    (hvX : 0 < (planeTerms (projection c m p.1 p.2).arp (projection c m p.1 p.2).varp gref uZ
              (projection c m p.1 p.2).r (projection c m p.1 p.2).rdot).vX)
    (hgt : |(planeTerms (projection c m p.1 p.2).arp (projection c m p.1 p.2).varp gref uZ
              (projection c m p.1 p.2).r (projection c m p.1 p.2).rdot).arpZ| < (projection c m p.1 p.2).r)
    (hlook : (planeTerms (projection c m p.1 p.2).arp (projection c m p.1 p.2).varp gref uZ
              (projection c m p.1 p.2).r (projection c m p.1 p.2).rdot).look ≠ 0) :
    V3.dot (V3.sub q gref) uZ = 0
      ∧ V3.norm (V3.sub q (projection c m p.1 p.2).arp) = (projection c m p.1 p.2).r
      ∧ rangeRate (projection c m p.1 p.2).arp (projection c m p.1 p.2).varp q = (projection c m p.1 p.2).rdot := by
  obtain ⟨hq, _, hcos⟩ := planePoint_some_masks _ _ _ _ _ _ h
  have H : NonDegenerate (projection c m p.1 p.2).arp (projection c m p.1 p.2).varp gref uZ
      (projection c m p.1 p.2).r (projection c m p.1 p.2).rdot := ⟨hZ, hvX, hcos, hgt, hlook⟩
  subst hq
  exact ⟨plane_point_on_plane _ _ _ _ _ _ hZ, plane_point_range _ _ _ _ _ _ H, plane_point_rdot _ _ _ _ _ _ H⟩

/-! ### batch, order, block independence -/

/-- **pointwise**: the result for row `i` of any batch is the single-point result of that row -/
theorem coa_pointwise (pts : List (ℝ × ℝ)) :
    imageToPlaneBatch c m gref uZ pts = pts.map (imageToPlane c m gref uZ) := rfl

theorem batch_getElem (pts : List (ℝ × ℝ)) (i : Nat) (h : i < pts.length) :
    (imageToPlaneBatch c m gref uZ pts)[i]'(by simpa [imageToPlaneBatch] using h)
      = imageToPlane c m gref uZ pts[i] := by
  simp [imageToPlaneBatch]

/-- batch composition: concatenating batches concatenates results -/
theorem batch_append (p q : List (ℝ × ℝ)) :
    imageToPlaneBatch c m gref uZ (p ++ q) = imageToPlaneBatch c m gref uZ p ++ imageToPlaneBatch c m gref uZ q := by
  simp [imageToPlaneBatch]

/-- order of points: permuting the input permutes the output the same way -/
theorem batch_perm {p q : List (ℝ × ℝ)} (h : p.Perm q) :
    (imageToPlaneBatch c m gref uZ p).Perm (imageToPlaneBatch c m gref uZ q) :=
  h.map _

end chain

theorem blocksFuel_flatten {β : Type} (n : Nat) (hn : 0 < n) :
    ∀ (f : Nat) (l : List β), l.length ≤ f → (blocksFuel n f l).flatten = l := by
  intro f
  induction f with
  | zero =>
    intro l hl
    have : l = [] := List.length_eq_zero_iff.mp (Nat.le_zero.mp hl)
    subst this; rfl
  | succ f ih =>
    intro l hl
    unfold blocksFuel
    by_cases he : l.isEmpty
    · simp only [he, if_true, List.flatten_nil]
      exact (List.isEmpty_iff.mp he).symm
    · simp only [he, Bool.false_eq_true, if_false, List.flatten_cons]
      have hne : l ≠ [] := fun h => he (List.isEmpty_iff.mpr h)
      have hpos : 0 < l.length := List.length_pos_iff.mpr hne
      rw [ih (l.drop n) (by rw [List.length_drop]; omega), List.take_append_drop]

/-- the blocks of the `start_block … end_block` loop tile the input exactly -/
theorem blocks_flatten {β : Type} (n : Nat) (hn : 0 < n) (l : List β) : (blocks n l).flatten = l :=
  blocksFuel_flatten n hn l.length l (Nat.le_refl _)

/-- **block size independence**: processing block by block with a pointwise function equals one pass -/
theorem blockwise_eq_map {β γ : Type} (f : β → γ) (n : Nat) (hn : 0 < n) (l : List β) :
    blockwise (List.map f) n l = l.map f := by
  unfold blockwise
  rw [← List.map_flatten, blocks_flatten n hn]

/-! ### the iterations: what holds on exit (convergence itself is not proved) -/

section loops
variable {σ : Type} (step : σ → σ) (cont : σ → Bool)

theorem doWhileAux_spec : ∀ (r k : Nat) (s : σ),
    k + 1 ≤ (doWhileAux step cont r k s).2 ∧ (doWhileAux step cont r k s).2 ≤ k + r + 1
      ∧ (doWhileAux step cont r k s).1 = step^[(doWhileAux step cont r k s).2 - k] s
      ∧ ((doWhileAux step cont r k s).2 < k + r + 1 → cont (doWhileAux step cont r k s).1 = false) := by
  intro r
  induction r with
  | zero =>
    intro k s
    simp [doWhileAux]
  | succ r ih =>
    intro k s
    unfold doWhileAux
    by_cases hc : cont (step s) = true
    · simp only [hc, if_true]
      obtain ⟨h1, h2, h3, h4⟩ := ih (k + 1) (step s)
      refine ⟨by omega, by omega, ?_, fun h => h4 (by omega)⟩
      rw [h3]
      have : (doWhileAux step cont r (k + 1) (step s)).2 - k
          = ((doWhileAux step cont r (k + 1) (step s)).2 - (k + 1)) + 1 := by omega
      rw [this, Function.iterate_succ_apply]
    · simp only [hc, Bool.false_eq_true, if_false]
      refine ⟨by omega, by omega, ?_, fun _ => by simp⟩
      simp

/-- **exit condition of the `while cont:` loops**: at least one and at most `max(maxIter, 1)` iterations run, the
    result is the body iterated that many times, and if the loop stopped before the iteration budget was used up
    then the continuation test is false on the final state -/
theorem doWhile_spec (maxIter : Nat) (s : σ) :
    1 ≤ (doWhile step cont maxIter s).2 ∧ (doWhile step cont maxIter s).2 ≤ max maxIter 1
      ∧ (doWhile step cont maxIter s).1 = step^[(doWhile step cont maxIter s).2] s
      ∧ ((doWhile step cont maxIter s).2 < maxIter → cont (doWhile step cont maxIter s).1 = false) := by
  unfold doWhile
  obtain ⟨h1, h2, h3, h4⟩ := doWhileAux_spec step cont (maxIter - 1) 0 s
  refine ⟨by omega, by omega, by simpa using h3, fun h => h4 (by omega)⟩

end loops

theorem foldl_max_ge (l : List ℝ) : ∀ m : ℝ,
    m ≤ l.foldl (fun m x => if m < absS x then absS x else m) m
      ∧ ∀ x ∈ l, |x| ≤ l.foldl (fun m x => if m < absS x then absS x else m) m := by
  induction l with
  | nil => intro m; simp
  | cons y l ih =>
    intro m
    simp only [List.foldl_cons, List.mem_cons, forall_eq_or_imp]
    obtain ⟨h1, h2⟩ := ih (if m < absS y then absS y else m)
    have hm : m ≤ (if m < absS y then absS y else m) := by split_ifs with h <;> [exact h.le; exact le_refl _]
    have hy : |y| ≤ (if m < absS y then absS y else m) := by
      rw [← absS_eq_abs]; split_ifs with h <;> [exact le_refl _; exact not_lt.mp h]
    exact ⟨le_trans hm h1, le_trans hy h1, h2⟩

theorem le_maxAbs (l : List ℝ) (x : ℝ) (h : x ∈ l) : |x| ≤ maxAbs l := (foldl_max_ge l 0).2 x h

section hae
variable (hgt : V3 ℝ → ℝ) (hae0 tol : ℝ) (ugpn : V3 ℝ)

/-- **constant-HAE iteration, exit bound**: if the loop stops before `max_iterations`, every point's height error
    (geodetic height of its ground plane point minus `hae0`) is within the tolerance -/
theorem hae_exit_bound (maxIter : Nat) (st : List (HaePt ℝ))
    (h : (doWhile (List.map (haeStep hgt hae0 ugpn)) (haeCont tol) maxIter st).2 < maxIter) :
    ∀ p ∈ (doWhile (List.map (haeStep hgt hae0 ugpn)) (haeCont tol) maxIter st).1, |p.dh| ≤ tol := by
  have hc := (doWhile_spec (List.map (haeStep hgt hae0 ugpn)) (haeCont tol) maxIter st).2.2.2 h
  intro p hp
  have hle : maxAbs ((doWhile (List.map (haeStep hgt hae0 ugpn)) (haeCont tol) maxIter st).1.map (·.dh)) ≤ tol :=
    not_lt.mp (of_decide_eq_false hc)
  exact le_trans (le_maxAbs _ _ (List.mem_map_of_mem hp)) hle

/-- the body keeps each point's contour data -/
theorem haeStep_keeps (p : HaePt ℝ) :
    (haeStep hgt hae0 ugpn p).arp = p.arp ∧ (haeStep hgt hae0 ugpn p).varp = p.varp
      ∧ (haeStep hgt hae0 ugpn p).r = p.r ∧ (haeStep hgt hae0 ugpn p).rdot = p.rdot := ⟨rfl, rfl, rfl, rfl⟩

/-- and the recorded height error is the height error of the new ground plane point -/
theorem haeStep_dh (p : HaePt ℝ) :
    (haeStep hgt hae0 ugpn p).dh = hgt (haeStep hgt hae0 ugpn p).gpp - hae0 := rfl

/-- **every iterate is on the pixel's contour**, whatever the current ground reference point: the ground plane
    point of each iteration is at range `R` with range rate `Rdot`, in the plane through the current `gref` -/
theorem hae_iterate_on_contour (p : HaePt ℝ) (H : NonDegenerate p.arp p.varp p.gref ugpn p.r p.rdot) :
    V3.dot (V3.sub (haeStep hgt hae0 ugpn p).gpp p.gref) ugpn = 0
      ∧ V3.norm (V3.sub (haeStep hgt hae0 ugpn p).gpp p.arp) = p.r
      ∧ rangeRate p.arp p.varp (haeStep hgt hae0 ugpn p).gpp = p.rdot :=
  ⟨plane_point_on_plane _ _ _ _ _ _ H.unitZ, plane_point_range _ _ _ _ _ _ H, plane_point_rdot _ _ _ _ _ _ H⟩

end hae

/-- **what is pointwise in the iterations**: after the same number of iterations the state of a point depends on
    that point only (the number of iterations itself is shared by the batch: see `hae_exit_bound`) -/
theorem hae_pointwise_given_iterations {β : Type} (f : β → β) (k : Nat) (l : List β) :
    (List.map f)^[k] l = l.map (f^[k]) := by
  induction k generalizing l with
  | zero => simp
  | succ k ih => rw [Function.iterate_succ_apply, ih, List.map_map, Function.iterate_succ]

/-- **ground-to-image iteration, exit bound**: if the loop stops before `max_iterations`, every point's residual
    ground plane displacement is within the tolerance -/
theorem g2i_exit_bound {σ : Type} (step : σ → σ) (delta : σ → List ℝ) (tol : ℝ) (maxIter : Nat) (s : σ)
    (h : (doWhile step (fun s => g2iCont tol (delta s)) maxIter s).2 < maxIter) :
    ∀ d ∈ delta (doWhile step (fun s => g2iCont tol (delta s)) maxIter s).1, d ≤ tol := by
  have hc := (doWhile_spec step (fun s => g2iCont tol (delta s)) maxIter s).2.2.2 h
  intro d hd
  unfold g2iCont at hc
  rw [List.any_eq_false] at hc
  simpa using hc d hd

/-! ### the hypotheses are satisfiable: a concrete non-trivial geometry

  plane z = 0, ARP at height 3 and 4 to the side of the reference point, velocity (3, 0, 4) (climbing), R = 5,
  Rdot = 6/5.  Then vMag = 5, vZ = 4, vX = 3, ground range gd = 4, cosAz = 1/2, look = +1. -/

theorem sqrt_of_sq (a b : ℝ) (hb : 0 ≤ b) (h : a = b * b) : Real.sqrt a = b := by
  rw [h]; exact Real.sqrt_mul_self hb

def exArp : V3 ℝ := ⟨0, -4, 3⟩
def exVarp : V3 ℝ := ⟨3, 0, 4⟩
def exGref : V3 ℝ := ⟨0, 0, 0⟩
def exUZ : V3 ℝ := ⟨0, 0, 1⟩

theorem ex_terms :
    (planeTerms exArp exVarp exGref exUZ 5 (6/5)).arpZ = 3 ∧
    (planeTerms exArp exVarp exGref exUZ 5 (6/5)).vX = 3 ∧
    (planeTerms exArp exVarp exGref exUZ 5 (6/5)).gd = 4 ∧
    (planeTerms exArp exVarp exGref exUZ 5 (6/5)).cosAz = 1/2 ∧
    (planeTerms exArp exVarp exGref exUZ 5 (6/5)).look = 1 := by
  have h25 : Real.sqrt (3 * 3 + 0 * 0 + 4 * 4) = 5 := sqrt_of_sq _ _ (by norm_num) (by norm_num)
  have hz : (planeTerms exArp exVarp exGref exUZ 5 (6/5)).arpZ = 3 := by
    simp [planeTerms, exArp, exGref, exUZ, V3.dot, V3.sub]
  have hvx : (planeTerms exArp exVarp exGref exUZ 5 (6/5)).vX = 3 := by
    simp only [planeTerms, exVarp, exUZ, V3.norm, V3.dot, sqrt_def, h25]
    exact sqrt_of_sq _ _ (by norm_num) (by norm_num)
  have hgd : (planeTerms exArp exVarp exGref exUZ 5 (6/5)).gd = 4 := by
    have : (planeTerms exArp exVarp exGref exUZ 5 (6/5)).gd
      = Real.sqrt (5 * 5 - (planeTerms exArp exVarp exGref exUZ 5 (6/5)).arpZ
          * (planeTerms exArp exVarp exGref exUZ 5 (6/5)).arpZ) := rfl
    rw [this, hz]
    exact sqrt_of_sq _ _ (by norm_num) (by norm_num)
  refine ⟨hz, hvx, hgd, ?_, ?_⟩
  · have : (planeTerms exArp exVarp exGref exUZ 5 (6/5)).cosAz
      = (-(6/5) + V3.dot exVarp exUZ * ((planeTerms exArp exVarp exGref exUZ 5 (6/5)).arpZ / 5))
        / ((planeTerms exArp exVarp exGref exUZ 5 (6/5)).vX
            * ((planeTerms exArp exVarp exGref exUZ 5 (6/5)).gd / 5)) := rfl
    rw [this, hz, hvx, hgd]
    simp [exVarp, exUZ, V3.dot]
    norm_num
  · simp [planeTerms, sgn, exArp, exVarp, exGref, exUZ, V3.dot, V3.sub, V3.cross]

/-- all five hypotheses hold together on the example -/
theorem ex_nondegenerate : NonDegenerate exArp exVarp exGref exUZ 5 (6/5) := by
  obtain ⟨hz, hvx, _, hc, hl⟩ := ex_terms
  refine ⟨by simp [exUZ, V3.dot], by rw [hvx]; norm_num, by rw [hc]; norm_num [abs_le], by rw [hz]; norm_num [abs_lt],
    by rw [hl]; norm_num⟩

example : V3.dot exUZ exUZ = 1 := ex_nondegenerate.unitZ
example : 0 < (planeTerms exArp exVarp exGref exUZ 5 (6/5)).vX := ex_nondegenerate.vXpos
example : |(planeTerms exArp exVarp exGref exUZ 5 (6/5)).cosAz| ≤ 1 := ex_nondegenerate.cosAz_le
example : |(planeTerms exArp exVarp exGref exUZ 5 (6/5)).arpZ| < 5 := ex_nondegenerate.height
example : (planeTerms exArp exVarp exGref exUZ 5 (6/5)).look ≠ 0 := ex_nondegenerate.look_ne
/-- so on the example the code returns a point, on the plane, 5 away from the ARP, with range rate 6/5 -/
example : planePoint exArp exVarp exGref exUZ 5 (6/5) = some (planePointRaw exArp exVarp exGref exUZ 5 (6/5))
    ∧ V3.dot (V3.sub (planePointRaw exArp exVarp exGref exUZ 5 (6/5)) exGref) exUZ = 0
    ∧ V3.norm (V3.sub (planePointRaw exArp exVarp exGref exUZ 5 (6/5)) exArp) = 5
    ∧ rangeRate exArp exVarp (planePointRaw exArp exVarp exGref exUZ 5 (6/5)) = 6/5 :=
  ⟨planePoint_eq_some _ _ _ _ _ _ ex_nondegenerate, plane_point_on_plane _ _ _ _ _ _ ex_nondegenerate.unitZ,
    plane_point_range _ _ _ _ _ _ ex_nondegenerate, plane_point_rdot _ _ _ _ _ _ ex_nondegenerate⟩

/-- the `look ≠ 0` hypothesis cannot be dropped: with the reference point exactly under the flight line the code
    returns a point whose distance to the ARP is not `R` (3-4-5 geometry, Rdot = 0: the point returned is the nadir) -/
theorem look_zero_counterexample :
    planePointRaw (⟨0, 0, 3⟩ : V3 ℝ) ⟨1, 0, 0⟩ ⟨0, 0, 0⟩ ⟨0, 0, 1⟩ 5 0 = ⟨0, 0, 0⟩ := by
  simp [planePointRaw, planeTerms, sgn, V3.norm, V3.dot, V3.sub, V3.add, V3.smul, V3.sdiv, V3.cross]

/-! ### the image-formation branches: consistency of the formulas (Volume 3 equations as transcribed in Spec.Proj) -/

section branches
variable (c : Coa ℝ)

/-- at the SCP pixel the PFA offsets vanish -/
theorem pfa_delta_scp (pa ksf : List ℝ) (t : ℝ) : pfaDelta pa ksf 0 0 t = (0, 0) := by
  simp [pfaDelta]

/-- PFA / RGAZCOMP at the SCP pixel: range and range rate of the SCP itself -/
theorem pfa_rrdot_scp (scp : V3 ℝ) (pa ksf : List ℝ) (t : ℝ) (arp varp : V3 ℝ) :
    (Method.pfa scp pa ksf).rrdot c 0 0 t arp varp = scpRRdot scp arp varp := by
  simp [Method.rrdot, pfa_delta_scp]

theorem rgazcomp_rrdot_scp (scp : V3 ℝ) (azSF : ℝ) (t : ℝ) (arp varp : V3 ℝ) :
    (Method.rgazcomp scp azSF).rrdot c 0 0 t arp varp = scpRRdot scp arp varp := by
  simp [Method.rrdot]

/-- planar grids (SICD XRGYCR / XCTYAT / PLANE and SIDD plane projection): the image plane point of the pixel lies on
    the contour assigned to the pixel -/
theorem ipp_on_own_contour (ipp arp varp : V3 ℝ) :
    V3.norm (V3.sub ipp arp) = (ippRRdot ipp arp varp).1
      ∧ rangeRate arp varp ipp = (ippRRdot ipp arp varp).2 := by
  have hd : V3.dot (V3.sub ipp arp) (V3.sub ipp arp) = V3.dot (V3.sub arp ipp) (V3.sub arp ipp) := by
    simp only [V3.dot, V3.sub]; ring
  have hn : V3.norm (V3.sub ipp arp) = V3.norm (V3.sub arp ipp) := by unfold V3.norm; rw [hd]
  refine ⟨hn, ?_⟩
  unfold rangeRate ippRRdot
  rw [hn]
  have : -(V3.dot varp (V3.sub ipp arp)) = V3.dot varp (V3.sub arp ipp) := by simp only [V3.dot, V3.sub]; ring
  rw [this]

/-- INCA: the range / range-rate pair satisfies `R² = R_CA² + DRSF·V_CA²·Δt²` and `R·Rdot = DRSF·V_CA²·Δt` -/
theorem inca_consistent (rCaScp : ℝ) (timeCA : List ℝ) (drsf : List (List ℝ)) (xr yc t : ℝ)
    (hpos : 0 < (rCaScp + xr) * (rCaScp + xr)
      + Poly.eval2 drsf xr yc * V3.dot (c.varpAt (Poly.eval timeCA yc)) (c.varpAt (Poly.eval timeCA yc))
        * (t - Poly.eval timeCA yc) * (t - Poly.eval timeCA yc)) :
    (incaRRdot c rCaScp timeCA drsf xr yc t).1 * (incaRRdot c rCaScp timeCA drsf xr yc t).1
        = (rCaScp + xr) * (rCaScp + xr)
          + Poly.eval2 drsf xr yc * V3.dot (c.varpAt (Poly.eval timeCA yc)) (c.varpAt (Poly.eval timeCA yc))
            * (t - Poly.eval timeCA yc) * (t - Poly.eval timeCA yc)
      ∧ (incaRRdot c rCaScp timeCA drsf xr yc t).1 * (incaRRdot c rCaScp timeCA drsf xr yc t).2
        = Poly.eval2 drsf xr yc * V3.dot (c.varpAt (Poly.eval timeCA yc)) (c.varpAt (Poly.eval timeCA yc))
            * (t - Poly.eval timeCA yc) := by
  have hr : (incaRRdot c rCaScp timeCA drsf xr yc t).1 = Real.sqrt ((rCaScp + xr) * (rCaScp + xr)
      + Poly.eval2 drsf xr yc * V3.dot (c.varpAt (Poly.eval timeCA yc)) (c.varpAt (Poly.eval timeCA yc))
        * (t - Poly.eval timeCA yc) * (t - Poly.eval timeCA yc)) := rfl
  have h2 : (incaRRdot c rCaScp timeCA drsf xr yc t).2
      = (Poly.eval2 drsf xr yc / (incaRRdot c rCaScp timeCA drsf xr yc t).1)
        * V3.dot (c.varpAt (Poly.eval timeCA yc)) (c.varpAt (Poly.eval timeCA yc)) * (t - Poly.eval timeCA yc) := rfl
  have hne : (incaRRdot c rCaScp timeCA drsf xr yc t).1 ≠ 0 := by
    rw [hr]; exact (Real.sqrt_pos.mpr hpos).ne'
  refine ⟨by rw [hr]; exact Real.mul_self_sqrt hpos.le, ?_⟩
  rw [h2]
  field_simp

end branches

/-! ### range rate = time derivative of range, branch by branch

  For a fixed pixel the image-formation specific range offset is a function of the COA time; the range-rate offset
  the code (and Volume 3) assigns is its time derivative.  A sign or factor slip in either formula breaks these. -/

theorem eval_hasDerivAt (p : List ℝ) (x : ℝ) :
    HasDerivAt (fun t => Poly.eval p t) (Poly.eval (Poly.der p) x) x := by
  have h1 : (fun t => Poly.eval p t) = fun t => (Sarpy.Props.C16.toPoly p).eval t := by
    funext t; exact Sarpy.Props.C16.eval_eq p t
  rw [h1, Sarpy.Props.C16.eval_eq, Sarpy.Props.C16.toPoly_der]
  exact Polynomial.hasDerivAt _ _

/-- PFA: `deltaRDotTgtCoa = d/dt deltaRTgtCoa` -/
theorem pfa_rdot_is_time_derivative (pa ksf : List ℝ) (xr yc t : ℝ) :
    HasDerivAt (fun s => (pfaDelta pa ksf xr yc s).1) (pfaDelta pa ksf xr yc t).2 t := by
  have hth := eval_hasDerivAt pa t
  have hk : HasDerivAt (fun s => Poly.eval ksf (Poly.eval pa s))
      (Poly.eval (Poly.der ksf) (Poly.eval pa t) * Poly.eval (Poly.der pa) t) t :=
    (eval_hasDerivAt ksf (Poly.eval pa t)).comp t hth
  have hc : HasDerivAt (fun s => Real.cos (Poly.eval pa s)) (-Real.sin (Poly.eval pa t) * Poly.eval (Poly.der pa) t) t :=
    (Real.hasDerivAt_cos _).comp t hth
  have hs : HasDerivAt (fun s => Real.sin (Poly.eval pa s)) (Real.cos (Poly.eval pa t) * Poly.eval (Poly.der pa) t) t :=
    (Real.hasDerivAt_sin _).comp t hth
  have hfun : (fun s => (pfaDelta pa ksf xr yc s).1) = fun s => Poly.eval ksf (Poly.eval pa s)
      * (xr * Real.cos (Poly.eval pa s) + yc * Real.sin (Poly.eval pa s)) := rfl
  rw [hfun]
  have h := hk.mul (((hasDerivAt_const t xr).mul hc).add ((hasDerivAt_const t yc).mul hs))
  refine HasDerivAt.congr_deriv h ?_
  have h2 : (pfaDelta pa ksf xr yc t).2 = (Poly.eval (Poly.der ksf) (Poly.eval pa t)
      * (xr * Real.cos (Poly.eval pa t) + yc * Real.sin (Poly.eval pa t))
      + Poly.eval ksf (Poly.eval pa t) * (-xr * Real.sin (Poly.eval pa t) + yc * Real.cos (Poly.eval pa t)))
      * Poly.eval (Poly.der pa) t := rfl
  rw [h2]
  simp only [Pi.add_apply, Pi.mul_apply]
  ring

/-- INCA: `r_dot_tgt_coa = d/dt r_tgt_coa` (COA time varying, closest-approach data fixed) -/
theorem inca_rdot_is_time_derivative (c : Coa ℝ) (rCaScp : ℝ) (timeCA : List ℝ) (drsf : List (List ℝ)) (xr yc t : ℝ)
    (hpos : 0 < (rCaScp + xr) * (rCaScp + xr)
      + Poly.eval2 drsf xr yc * V3.dot (c.varpAt (Poly.eval timeCA yc)) (c.varpAt (Poly.eval timeCA yc))
        * (t - Poly.eval timeCA yc) * (t - Poly.eval timeCA yc)) :
    HasDerivAt (fun s => (incaRRdot c rCaScp timeCA drsf xr yc s).1) (incaRRdot c rCaScp timeCA drsf xr yc t).2 t := by
  have hfun : (fun s => (incaRRdot c rCaScp timeCA drsf xr yc s).1) = fun s => Real.sqrt ((rCaScp + xr) * (rCaScp + xr)
      + Poly.eval2 drsf xr yc * V3.dot (c.varpAt (Poly.eval timeCA yc)) (c.varpAt (Poly.eval timeCA yc))
        * (s - Poly.eval timeCA yc) * (s - Poly.eval timeCA yc)) := rfl
  have h2 : (incaRRdot c rCaScp timeCA drsf xr yc t).2
      = (Poly.eval2 drsf xr yc / Real.sqrt ((rCaScp + xr) * (rCaScp + xr)
      + Poly.eval2 drsf xr yc * V3.dot (c.varpAt (Poly.eval timeCA yc)) (c.varpAt (Poly.eval timeCA yc))
        * (t - Poly.eval timeCA yc) * (t - Poly.eval timeCA yc)))
        * V3.dot (c.varpAt (Poly.eval timeCA yc)) (c.varpAt (Poly.eval timeCA yc)) * (t - Poly.eval timeCA yc) := rfl
  rw [hfun, h2]
  have hin : HasDerivAt (fun s => (rCaScp + xr) * (rCaScp + xr)
      + Poly.eval2 drsf xr yc * V3.dot (c.varpAt (Poly.eval timeCA yc)) (c.varpAt (Poly.eval timeCA yc))
        * (s - Poly.eval timeCA yc) * (s - Poly.eval timeCA yc))
      (2 * (Poly.eval2 drsf xr yc * V3.dot (c.varpAt (Poly.eval timeCA yc)) (c.varpAt (Poly.eval timeCA yc)))
        * (t - Poly.eval timeCA yc)) t := by
    have h1 : HasDerivAt (fun s : ℝ => s - Poly.eval timeCA yc) 1 t := (hasDerivAt_id t).sub_const _
    have h3 := ((h1.const_mul (Poly.eval2 drsf xr yc * V3.dot (c.varpAt (Poly.eval timeCA yc)) (c.varpAt (Poly.eval timeCA yc)))).mul h1).const_add
      ((rCaScp + xr) * (rCaScp + xr))
    refine HasDerivAt.congr_deriv h3 ?_
    ring
  refine HasDerivAt.congr_deriv (hin.sqrt hpos.ne') ?_
  have hs := (Real.sqrt_pos.mpr hpos).ne'
  field_simp


/-! ### the stored COA projection: which adjustable parameters the structure's own methods use after any history of definitions -/
section CoaCache
variable {P : Type}

theorem coaDefine_override (st : Option P) (p : P) : coaDefine st (p, true) = some p := by
  simp [coaDefine]

theorem coaDefine_fresh (p : P) (o : Bool) : coaDefine (none : Option P) (p, o) = some p := by
  simp [coaDefine]

theorem coaDefine_keep (q p : P) : coaDefine (some q) (p, false) = some q := by
  simp [coaDefine]

/-- after any history that ends with an overriding definition, exactly that definition is in effect -/
theorem coaRun_last_override (ops : List (P × Bool)) (p : P) : coaRun (ops ++ [(p, true)]) = some p := by
  simp [coaRun, List.foldl_append, coaDefine_override]

/-- a non-overriding definition changes nothing once something is stored, and stores its parameters on a fresh structure -/
theorem coaRun_snoc_keep (ops : List (P × Bool)) (p : P) :
    coaRun (ops ++ [(p, false)]) = (match coaRun ops with | some q => some q | none => some p) := by
  simp only [coaRun, List.foldl_append, List.foldl_cons, List.foldl_nil]
  cases h : List.foldl coaDefine none ops <;> simp [coaDefine]

/-- the projection in effect is always one that some call supplied: the last overriding call, or the first call if none overrides -/
theorem coaRun_mem (ops : List (P × Bool)) (q : P) (h : coaRun ops = some q) : ∃ o, (q, o) ∈ ops := by
  induction ops using List.reverseRecOn generalizing q with
  | nil => simp [coaRun] at h
  | append_singleton ops op ih =>
    obtain ⟨p, o⟩ := op
    cases o with
    | true =>
      rw [coaRun_last_override] at h
      have hq : p = q := Option.some.inj h
      subst hq
      exact ⟨true, by simp⟩
    | false =>
      rw [coaRun_snoc_keep] at h
      cases h2 : coaRun ops with
      | none =>
        rw [h2] at h
        have hq : p = q := Option.some.inj h
        subst hq
        exact ⟨false, by simp⟩
      | some r =>
        rw [h2] at h
        have hq : r = q := Option.some.inj h
        subst hq
        obtain ⟨o', ho'⟩ := ih r h2
        exact ⟨o', by simp [ho']⟩

theorem coaRun_isSome (ops : List (P × Bool)) (h : ops ≠ []) : (coaRun ops).isSome := by
  induction ops using List.reverseRecOn with
  | nil => exact absurd rfl h
  | append_singleton ops op _ =>
    obtain ⟨p, o⟩ := op
    cases o with
    | true => simp [coaRun_last_override]
    | false => rw [coaRun_snoc_keep]; cases coaRun ops <;> simp

/-- a method call (which defines the default projection without overriding) never replaces what a definition stored -/
theorem coaUsed_after_method (dflt : P) (ops : List (P × Bool)) :
    coaUsed dflt (coaRun (ops ++ [(dflt, false)])) = coaUsed dflt (coaRun ops) := by
  rw [coaRun_snoc_keep]; cases coaRun ops <;> rfl

example : coaRun [((1 : Nat), true), (2, false), (3, true), (4, false)] = some 3 := by decide
example : coaRun [((1 : Nat), false), (2, false)] = some 1 := by decide
end CoaCache

end Sarpy.Props.C04
