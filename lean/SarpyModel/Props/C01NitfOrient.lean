/-
  C01Nitf, part 4: the orientation handed to the outermost segment (`orientBPR`, `orientLast`): it is a permutation of the raw axes
  that brings rows, columns, bands to the formatted positions 0, 1, 2 (or columns, rows, bands with transpose_axes), and its
  reverse_axes flip exactly the raw row / column axis - `OrientOK`.
-/
import SarpyModel.Props.C01NitfRaw

namespace Sarpy.Props.C01.Nitf
open Sarpy Sarpy.Spec Sarpy.Spec.NitfAssembly Sarpy.Props.C01Seg

/-- raw index shown at formatted index `idx` under reverse_axes `rev` and the inverse `qinv` of transpose_axes -/
def rawIdx (shape rev qinv : List Nat) (idx : Idx) : Idx :=
  fun i => if i ∈ rev then (dimAt shape i : Int) - 1 - idx (qinv.getD i 0) else idx (qinv.getD i 0)

section
variable {α : Type} [Pairing α] (L : Nat → List Int → α) (F : α)

theorem orient_get (rev perm : List Nat) (p : Seg) (idx : Idx) :
    ((Seg.orient rev perm p).full L F).get idx = (p.full L F).get (rawIdx (p.full L F).shape rev (invPerm perm) idx) := rfl

theorem cplx_get (iq : Bool) (rev perm : List Nat) (p : Seg) (idx : Idx) :
    ((Seg.cplx (ordOf iq) rev perm 2 p).full L F).get idx =
      if iq then Pairing.pair ((p.full L F).get (rawIdx (p.full L F).shape rev (invPerm perm) (insAx 2 0 idx)))
                              ((p.full L F).get (rawIdx (p.full L F).shape rev (invPerm perm) (insAx 2 1 idx)))
      else Pairing.pair ((p.full L F).get (rawIdx (p.full L F).shape rev (invPerm perm) (insAx 2 1 idx)))
                        ((p.full L F).get (rawIdx (p.full L F).shape rev (invPerm perm) (insAx 2 0 idx))) := by
  cases iq <;> rfl

end

theorem invPerm_01 : invPerm [0, 1] = [0, 1] := by decide
theorem invPerm_10 : invPerm [1, 0] = [1, 0] := by decide
theorem invPerm_120 : invPerm [1, 2, 0] = [2, 0, 1] := by decide
theorem invPerm_210 : invPerm [2, 1, 0] = [2, 1, 0] := by decide
theorem invPerm_021 : invPerm [0, 2, 1] = [0, 2, 1] := by decide
theorem invPerm_201 : invPerm [2, 0, 1] = [1, 2, 0] := by decide
theorem invPerm_012 : invPerm [0, 1, 2] = [0, 1, 2] := by decide
theorem invPerm_102 : invPerm [1, 0, 2] = [1, 0, 2] := by decide

/-! membership in the re-indexed reverse_axes -/

theorem mem_succ_map (l : List Nat) (i : Nat) : (i + 1) ∈ l.map (· + 1) ↔ i ∈ l := by simp
theorem one_mem_succ_map (l : List Nat) : 1 ∈ l.map (· + 1) ↔ 0 ∈ l := by simp
theorem two_mem_succ_map (l : List Nat) : 2 ∈ l.map (· + 1) ↔ 1 ∈ l := by simp
theorem zero_not_mem_succ_map (l : List Nat) : ¬ 0 ∈ l.map (· + 1) := by simp

def rmap (e : Nat) : Nat := if e = 0 then 0 else 2
theorem zero_mem_rmap (l : List Nat) : 0 ∈ l.map rmap ↔ 0 ∈ l := by
  simp only [List.mem_map, rmap]
  constructor
  · rintro ⟨a, ha, h⟩; by_cases h0 : a = 0 <;> simp_all
  · intro h; exact ⟨0, h, by simp⟩
theorem one_not_mem_rmap (l : List Nat) : ¬ 1 ∈ l.map rmap := by
  simp only [List.mem_map, rmap, not_exists, not_and]
  intro a _; by_cases h0 : a = 0 <;> simp [h0]
theorem two_mem_rmap (l : List Nat) (hl : ∀ e ∈ l, e < 2) : 2 ∈ l.map rmap ↔ 1 ∈ l := by
  simp only [List.mem_map, rmap]
  constructor
  · rintro ⟨a, ha, h⟩
    have := hl a ha
    by_cases h0 : a = 0
    · simp [h0] at h
    · have : a = 1 := by omega
      subst this; exact ha
  · intro h; exact ⟨1, h, by simp⟩

theorem optionsOK_iff (o : ReaderOptions) : optionsOK o = true ↔ ∀ e ∈ o.reverse, e < 2 := by
  simp [optionsOK, List.all_eq_true]

/-- what the orientation `w` handed to the outermost segment must do for raw data of shape `getShape nrows ncols nbands bd` -/
structure OrientOK (nrows ncols nbands bd : Nat) (o : ReaderOptions) (w : Option Bool × List Nat × List Nat) : Prop where
  perm : isPerm w.2.2 (rankOf nbands) = true
  rev : w.2.1.all (fun i => decide (i < rankOf nbands)) = true
  shape : gather w.2.2 (getShape nrows ncols nbands bd) =
    (if o.transpose then [ncols, nrows] else [nrows, ncols]) ++ (if nbands = 1 then [] else [nbands])
  coords : ∀ idx : Idx, 0 ≤ idx 0 → idx 0 < ((if o.transpose then ncols else nrows : Nat) : Int) →
    0 ≤ idx 1 → idx 1 < ((if o.transpose then nrows else ncols : Nat) : Int) →
    (nbands ≠ 1 → 0 ≤ idx 2 ∧ idx 2 < (nbands : Int)) →
    (0 ≤ rawIdx (getShape nrows ncols nbands bd) w.2.1 (invPerm w.2.2) idx (axY nbands bd) ∧
     rawIdx (getShape nrows ncols nbands bd) w.2.1 (invPerm w.2.2) idx (axY nbands bd) < (nrows : Int) ∧
     (rawIdx (getShape nrows ncols nbands bd) w.2.1 (invPerm w.2.2) idx (axY nbands bd)).toNat =
        imgRow nrows o (idx 0).toNat (idx 1).toNat) ∧
    (0 ≤ rawIdx (getShape nrows ncols nbands bd) w.2.1 (invPerm w.2.2) idx (axX nbands bd) ∧
     rawIdx (getShape nrows ncols nbands bd) w.2.1 (invPerm w.2.2) idx (axX nbands bd) < (ncols : Int) ∧
     (rawIdx (getShape nrows ncols nbands bd) w.2.1 (invPerm w.2.2) idx (axX nbands bd)).toNat =
        imgCol ncols o (idx 0).toNat (idx 1).toNat) ∧
    (nbands ≠ 1 → rawIdx (getShape nrows ncols nbands bd) w.2.1 (invPerm w.2.2) idx (axB nbands bd) = idx 2)

/-- bands last (IMODE P, the IMODE S band stack, the collection mosaic) or a single band -/
theorem orientLast_ok (nrows ncols nbands : Nat) (c : Option Bool) (o : ReaderOptions) (ho : optionsOK o = true) :
    OrientOK nrows ncols nbands 2 o (orientLast c nbands o true) := by
  have ho' := (optionsOK_iff o).1 ho
  by_cases h1 : nbands = 1 <;> cases htr : o.transpose
  all_goals
    constructor
    · simp [orientLast, h1, htr, rankOf, isPerm] <;> (intro x hx; omega)
    · simp only [orientLast, h1, htr, rankOf, if_true, if_false, Bool.true_and, Bool.and_self, List.all_eq_true, decide_eq_true_eq]
      intro e he; have := ho' e he; omega
    · simp [orientLast, h1, htr, getShape, gather]
    · intro idx h00 h01 h10 h11 hb
      simp only [orientLast, h1, htr, if_true, if_false, Bool.true_and, Bool.and_self, Bool.false_eq_true, invPerm_01, invPerm_10,
        invPerm_012, invPerm_102, rawIdx, axY, axX, axB, getShape, imgRow, imgCol, Nat.reduceEqDiff] at h01 h11 ⊢
      simp only [List.getD_cons_zero, List.getD_cons_succ, dimAt] at h01 h11 ⊢
      refine ⟨?_, ?_, ?_⟩
      · split <;> omega
      · split <;> omega
      · intro hne
        first
          | exact absurd rfl hne
          | (have : ¬ 2 ∈ o.reverse := fun hm => by have := ho' 2 hm; omega
             simp [this])

theorem orientBPR_R (h : ImageHeaderFields) (o : ReaderOptions) (h1 : h.nbands ≠ 1) (hR : h.imode = .R) :
    orientBPR h o true = (h.cplx, o.reverse.map rmap, if o.transpose then [2, 0, 1] else [0, 2, 1]) := by
  simp [orientBPR, h1, hR, rmap]

/-- IMODE B / P / R: the bands sit at raw axis 0 / 2 / 1 -/
theorem orientBPR_ok (h : ImageHeaderFields) (o : ReaderOptions) (ho : optionsOK o = true) (hS : h.imode ≠ .S) :
    OrientOK h.nrows h.ncols h.nbands (rawBandDim h.imode) o (orientBPR h o true) := by
  have ho' := (optionsOK_iff o).1 ho
  have hno2 : ¬ 2 ∈ o.reverse := fun hm => by have := ho' 2 hm; omega
  by_cases h1 : h.nbands = 1
  · -- a single band: two raw axes
    cases htr : o.transpose
    all_goals
      constructor
      · simp [orientBPR, h1, htr, rankOf, isPerm] <;> (intro x hx; omega)
      · simp only [orientBPR, h1, htr, rankOf, if_true, if_false, Bool.true_and, Bool.and_self, List.all_eq_true, decide_eq_true_eq]
        intro e he; have := ho' e he; omega
      · simp [orientBPR, h1, htr, getShape, gather]
      · intro idx h00 h01 h10 h11 hb
        simp only [orientBPR, h1, htr, if_true, if_false, Bool.true_and, Bool.and_self, Bool.false_eq_true, invPerm_01, invPerm_10,
          rawIdx, axY, axX, axB, getShape, imgRow, imgCol] at h01 h11 ⊢
        simp only [List.getD_cons_zero, List.getD_cons_succ, dimAt] at h01 h11 ⊢
        refine ⟨?_, ?_, ?_⟩
        · split <;> omega
        · split <;> omega
        · intro hne; exact absurd rfl hne
  · cases hi : h.imode with
    | S => exact absurd hi hS
    | B =>
      cases htr : o.transpose
      all_goals
        constructor
        · simp [orientBPR, h1, hi, htr, rankOf, isPerm] <;> (intro x hx; omega)
        · simp only [orientBPR, h1, hi, htr, rankOf, if_true, if_false, Bool.true_and, Bool.and_self, List.all_eq_true, decide_eq_true_eq,
            List.mem_map, forall_exists_index, and_imp]
          intro e a he hea; have := ho' a he; omega
        · simp [orientBPR, h1, hi, htr, getShape, gather, rawBandDim]
        · intro idx h00 h01 h10 h11 hb
          have hb' := hb h1
          simp only [orientBPR, h1, hi, htr, if_true, if_false, Bool.true_and, Bool.and_self, Bool.false_eq_true, invPerm_120, invPerm_210,
            rawIdx, axY, axX, axB, getShape, imgRow, imgCol, rawBandDim] at h01 h11 ⊢
          simp only [List.getD_cons_zero, List.getD_cons_succ, dimAt, one_mem_succ_map, two_mem_succ_map, zero_not_mem_succ_map] at h01 h11 ⊢
          refine ⟨?_, ?_, ?_⟩
          · split <;> omega
          · split <;> omega
          · intro _; simp
    | R =>
      rw [orientBPR_R h o h1 hi]
      cases htr : o.transpose
      all_goals
        constructor
        · simp [rankOf, h1, htr, isPerm] <;> (intro x hx; omega)
        · simp only [rankOf, h1, htr, if_true, if_false, List.all_eq_true, decide_eq_true_eq, List.mem_map, forall_exists_index, and_imp, rmap]
          intro e a he hea; by_cases ha : a = 0 <;> simp [ha] at hea <;> omega
        · simp [h1, htr, getShape, gather, rawBandDim]
        · intro idx h00 h01 h10 h11 hb
          have hb' := hb h1
          simp only [h1, htr, if_true, if_false, Bool.false_eq_true, invPerm_021, invPerm_201,
            rawIdx, axY, axX, axB, getShape, imgRow, imgCol, rawBandDim, Nat.one_ne_zero, Nat.reduceEqDiff] at h01 h11 ⊢
          simp only [List.getD_cons_zero, List.getD_cons_succ, dimAt, zero_mem_rmap, one_not_mem_rmap, two_mem_rmap _ ho'] at h01 h11 ⊢
          refine ⟨?_, ?_, ?_⟩
          · split <;> omega
          · split <;> omega
          · intro _; rfl
    | P =>
      cases htr : o.transpose
      all_goals
        constructor
        · simp [orientBPR, h1, hi, htr, rankOf, isPerm] <;> (intro x hx; omega)
        · simp only [orientBPR, h1, hi, htr, rankOf, if_true, if_false, Bool.true_and, Bool.and_self, List.all_eq_true, decide_eq_true_eq]
          intro e he; have := ho' e he; omega
        · simp [orientBPR, h1, hi, htr, getShape, gather, rawBandDim]
        · intro idx h00 h01 h10 h11 hb
          have hb' := hb h1
          simp only [orientBPR, h1, hi, htr, if_true, if_false, Bool.true_and, Bool.and_self, Bool.false_eq_true, invPerm_012, invPerm_102,
            rawIdx, axY, axX, axB, getShape, imgRow, imgCol, rawBandDim, Nat.reduceEqDiff] at h01 h11 ⊢
          simp only [List.getD_cons_zero, List.getD_cons_succ, dimAt] at h01 h11 ⊢
          refine ⟨?_, ?_, ?_⟩
          · split <;> omega
          · split <;> omega
          · intro _; simp [hno2]

end Sarpy.Props.C01.Nitf
