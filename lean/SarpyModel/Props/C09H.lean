/-
  C09 / C11 — the header text of a CPHD / CRSD file, byte by byte, and the retry of `make_file_header`.

  * `decimal_length`, `valueOf_decimal`, `decimal_digits` : `str(n)` has `digits n` characters, all of them digits, and `int(str(n)) = n`
  * `line_eq_format`, `line_length`                        : one line is `"{} := {}\n".format(name, value)`
  * `headerBytes_length`                                   : the rendered header has exactly `hdrLen` bytes (the C11 length model is the
                                                             length of the explicit text)
  * `choose_succ`                                          : the hand-written recursion `choose` is the iteration of the regenerated decision
                                                             `retryOffset` (Bridge: `gen_retry`)
  * `header_text_fits`                                     : whatever layout the retry returns, rendered text + `\f\n` end before the XML block
  * `choose_mono`, `choose_terminates_aux`, `chooseText_terminates`, `retry_terminates_7`
                                                           : **termination under an explicit bound**: a failed attempt makes the next
                                                             header text more than 32 bytes longer, and the text of a file below 10^D bytes
                                                             is at most 47 + 8 D bytes longer than the shortest one; for files below 10^18
                                                             bytes (beyond the 2^53 exactness range of `_align`) at most 7 attempts are made,
                                                             and more fuel never changes the answer.
-/
import SarpyModel.Spec.CphdLayout
import SarpyModel.Spec.CrsdHeader
import SarpyModel.Spec.CphdHeaderText
import SarpyModel.Props.C09

namespace Sarpy.Props.C09
open Sarpy.Spec.CphdLayout Sarpy.Spec.CrsdHeader Sarpy.Spec.CphdHeaderText

/-! ### decimal rendering -/

theorem decimalAux_length (fuel n : Nat) : (decimalAux fuel n).length = digitsAux fuel n := by
  induction fuel generalizing n with
  | zero => simp [decimalAux, digitsAux]
  | succ f ih =>
    simp only [decimalAux, digitsAux]
    split
    · simp
    · simp [ih]; omega

/-- `len(str(n))` is the digit count of the C11 length model -/
theorem decimal_length (n : Nat) : (decimal n).length = digits n := decimalAux_length n n

theorem valueOf_append_single (l : List Nat) (d : Nat) : valueOf (l ++ [d]) = 10 * valueOf l + (d - 48) := by
  simp [valueOf, List.foldl_append]

theorem valueOf_decimalAux (fuel n : Nat) (h : n ≤ fuel) : valueOf (decimalAux fuel n) = n := by
  induction fuel generalizing n with
  | zero =>
    have : n = 0 := by omega
    subst this; simp [decimalAux, valueOf]
  | succ f ih =>
    simp only [decimalAux]
    split
    · simp [valueOf]
    · rw [valueOf_append_single, ih (n / 10) (by omega)]; omega

/-- **numbers survive the header**: `int(str(n)) = n` -/
theorem valueOf_decimal (n : Nat) : valueOf (decimal n) = n := valueOf_decimalAux n n (Nat.le_refl n)

theorem decimalAux_digits (fuel n : Nat) : ∀ d ∈ decimalAux fuel n, 48 ≤ d ∧ d ≤ 57 := by
  induction fuel generalizing n with
  | zero => intro d hd; simp [decimalAux] at hd; omega
  | succ f ih =>
    intro d hd
    simp only [decimalAux] at hd
    split at hd
    · simp at hd; omega
    · simp only [List.mem_append, List.mem_singleton] at hd
      rcases hd with hd | hd
      · exact ih _ d hd
      · omega

/-- every character of `str(n)` is a decimal digit (no sign, no separator, no newline) -/
theorem decimal_digits (n : Nat) : ∀ d ∈ decimal n, 48 ≤ d ∧ d ≤ 57 := decimalAux_digits n n

/-! ### lines and the whole text -/

theorem line_length (n v : List Nat) : (line n v).length = lineLen n.length v.length := by
  simp [line, lineLen, ascii]; omega

/-- one header line is Python's `"{} := {}\n".format(name, value)` -/
theorem line_eq_format (n v : List Nat) : line n v = pyFormat (ascii lineFmt) [n, v] := by
  have : ascii lineFmt = [123, 125, 32, 58, 61, 32, 123, 125, 10] := by decide
  rw [this]
  simp [pyFormat, line, ascii]

/-- **the length model is the length of the text**: the rendered header has exactly `hdrLen` bytes -/
theorem headerBytes_length (t : Texts) (b : Blocks) : (headerBytes t b).length = hdrLen t.fixed b := by
  have hn : fieldNames = ["XML_BLOCK_SIZE", "XML_BLOCK_BYTE_OFFSET", "SUPPORT_BLOCK_SIZE", "SUPPORT_BLOCK_BYTE_OFFSET",
      "PVP_BLOCK_SIZE", "PVP_BLOCK_BYTE_OFFSET", "SIGNAL_BLOCK_SIZE", "SIGNAL_BLOCK_BYTE_OFFSET", "CLASSIFICATION", "RELEASE_INFO"] := rfl
  have l1 : (ascii "XML_BLOCK_SIZE").length = 14 := by decide
  have l2 : (ascii "XML_BLOCK_BYTE_OFFSET").length = 21 := by decide
  have l3 : (ascii "SUPPORT_BLOCK_SIZE").length = 18 := by decide
  have l4 : (ascii "SUPPORT_BLOCK_BYTE_OFFSET").length = 25 := by decide
  have l5 : (ascii "PVP_BLOCK_SIZE").length = 14 := by decide
  have l6 : (ascii "PVP_BLOCK_BYTE_OFFSET").length = 21 := by decide
  have l7 : (ascii "SIGNAL_BLOCK_SIZE").length = 17 := by decide
  have l8 : (ascii "SIGNAL_BLOCK_BYTE_OFFSET").length = 24 := by decide
  have l9 : (ascii "CLASSIFICATION").length = 14 := by decide
  have l10 : (ascii "RELEASE_INFO").length = 12 := by decide
  obtain ⟨xo, xs, sp, po, ps, so, ss⟩ := b
  cases sp with
  | none =>
    simp only [headerBytes, hn, fieldValues, joinLines, Option.map, List.length_append, line_length, decimal_length,
      l1, l2, l5, l6, l7, l8, l9, l10, hdrLen, Texts.fixed, nXmlSize, nXmlOff, nPvpSize, nPvpOff, nSigSize, nSigOff, nClass, nRelease,
      List.length_cons, List.length_nil]
    omega
  | some p =>
    obtain ⟨o, s⟩ := p
    simp only [headerBytes, hn, fieldValues, joinLines, Option.map, List.length_append, line_length, decimal_length,
      l1, l2, l3, l4, l5, l6, l7, l8, l9, l10, hdrLen, Texts.fixed, nXmlSize, nXmlOff, nSuppSize, nSuppOff, nPvpSize, nPvpOff,
      nSigSize, nSigOff, nClass, nRelease, List.length_cons, List.length_nil]
    omega

/-- the retry over the rendered text is the retry over the length model (so every C11 theorem about `chooseCrsd` applies) -/
theorem chooseText_eq (t : Texts) (xs : Nat) (ss : Option Nat) (ps gs fuel : Nat) :
    chooseText t xs ss ps gs fuel = chooseCrsd t.fixed xs ss ps gs fuel := by
  unfold chooseText chooseCrsd
  have : (fun b => (headerBytes t b).length) = hdrLen t.fixed := funext (headerBytes_length t)
  rw [this]

/-- `choose` is the iteration of the decision `retryOffset` (which the bridge ties to the regenerated Python) -/
theorem choose_succ (hl : Blocks → Nat) (xs : Nat) (ss : Option Nat) (ps gs fuel xo : Nat) :
    choose hl xs ss ps gs (fuel + 1) xo =
      (match retryOffset xo (hl (layout xo xs ss ps gs)) with
       | some xo' => choose hl xs ss ps gs fuel xo'
       | none => some (layout xo xs ss ps gs)) := by
  simp only [choose, retryOffset]
  split <;> rfl

/-- **the header fits (explicit text)**: whatever layout the retry returns, the rendered header text and its `\f\n` end at or before the XML block -/
theorem header_text_fits (t : Texts) (xs : Nat) (ss : Option Nat) (ps gs fuel : Nat) (b : Blocks)
    (h : chooseText t xs ss ps gs fuel = some b) :
    (headerBytes t b).length + 2 ≤ b.xmlOff ∧ ∃ xo, b = layout xo xs ss ps gs :=
  choose_fits (fun b => (headerBytes t b).length) xs ss ps gs fuel 1024 b h

/-! ### termination of the retry -/

/-- more fuel never changes an answer -/
theorem choose_mono (hl : Blocks → Nat) (xs : Nat) (ss : Option Nat) (ps gs : Nat) (fuel xo : Nat) (b : Blocks)
    (h : choose hl xs ss ps gs fuel xo = some b) : choose hl xs ss ps gs (fuel + 1) xo = some b := by
  induction fuel generalizing xo with
  | zero => simp [choose] at h
  | succ f ih =>
    rw [choose] at h ⊢
    split
    · rename_i hlt; rw [if_pos hlt] at h; exact ih _ h
    · rename_i hlt; rw [if_neg hlt] at h; exact h

theorem choose_mono_le (hl : Blocks → Nat) (xs : Nat) (ss : Option Nat) (ps gs : Nat) (fuel k xo : Nat) (b : Blocks)
    (h : choose hl xs ss ps gs fuel xo = some b) : choose hl xs ss ps gs (fuel + k) xo = some b := by
  induction k with
  | zero => exact h
  | succ k ih => exact choose_mono hl xs ss ps gs (fuel + k) xo b ih

/-- the potential argument: if every header text the retry can meet is at most `Hmax` long and the current XML offset is at least
    `L + 34`, then `(Hmax - L) / 32` further attempts suffice (each failed attempt raises the text length by more than 32) -/
theorem choose_terminates_aux (hl : Blocks → Nat) (xs : Nat) (ss : Option Nat) (ps gs : Nat) (Hmax B : Nat)
    (hb : ∀ xo, xo ≤ B → hl (layout xo xs ss ps gs) ≤ Hmax) (hB : Hmax + 97 ≤ B) :
    ∀ fuel xo L, xo ≤ B → L + 34 ≤ xo → Hmax ≤ L + 32 * (fuel + 1) →
      ∃ b, choose hl xs ss ps gs (fuel + 1) xo = some b := by
  intro fuel
  induction fuel with
  | zero =>
    intro xo L hxo hL hH
    have := hb xo hxo
    refine ⟨layout xo xs ss ps gs, ?_⟩
    rw [choose, if_neg (by omega)]
  | succ f ih =>
    intro xo L hxo hL hH
    by_cases hfit : xo < hl (layout xo xs ss ps gs) + 2
    · rw [choose, if_pos hfit]
      have h1 := hb xo hxo
      have h2 := align_ge (hl (layout xo xs ss ps gs) + 2 + 32)
      have h3 := align_lt (hl (layout xo xs ss ps gs) + 2 + 32)
      exact ih (align (hl (layout xo xs ss ps gs) + 2 + 32)) (hl (layout xo xs ss ps gs)) (by omega) (by omega) (by omega)
    · exact ⟨layout xo xs ss ps gs, by rw [choose, if_neg hfit]⟩

theorem digitsAux_le_of_lt_pow (fuel n d : Nat) (hd : 1 ≤ d) (h : n < 10 ^ d) : digitsAux fuel n ≤ d := by
  induction fuel generalizing n d with
  | zero => simp [digitsAux]; omega
  | succ f ih =>
    simp only [digitsAux]
    split
    · omega
    · rename_i h10
      have hd2 : 2 ≤ d := by
        rcases Nat.lt_or_ge d 2 with h1 | h1
        · have : d = 1 := by omega
          subst this; simp at h; omega
        · exact h1
      have hp : 10 ^ d = 10 ^ (d - 1) * 10 := by rw [← Nat.pow_succ]; congr 1; omega
      have : n / 10 < 10 ^ (d - 1) := by
        rw [Nat.div_lt_iff_lt_mul (by omega)]; omega
      have := ih (n / 10) (d - 1) (by omega) this
      omega

/-- a number below `10^D` has at most `D` digits -/
theorem digits_le_of_lt_pow (n D : Nat) (hD : 1 ≤ D) (h : n < 10 ^ D) : digits n ≤ D :=
  digitsAux_le_of_lt_pow n n D hD h

theorem digitsAux_pos' (fuel n : Nat) : 1 ≤ digitsAux fuel n := by
  cases fuel with
  | zero => simp [digitsAux]
  | succ f => simp only [digitsAux]; split <;> omega

/-- longest header text of a file whose end is below `10^D` -/
def hdrMax (f : Fixed) (D : Nat) : Nat := f.typeLen + f.classLen + f.relLen + 231 + 8 * D
/-- shortest header text (one digit per number, no SUPPORT lines) -/
def hdrMin (f : Fixed) : Nat := f.typeLen + f.classLen + f.relLen + 184

theorem hdrLen_ge (f : Fixed) (b : Blocks) : hdrMin f ≤ hdrLen f b := by
  have h1 := digitsAux_pos' b.xmlSize b.xmlSize
  have h2 := digitsAux_pos' b.xmlOff b.xmlOff
  have h3 := digitsAux_pos' b.pvpSize b.pvpSize
  have h4 := digitsAux_pos' b.pvpOff b.pvpOff
  have h5 := digitsAux_pos' b.sigSize b.sigSize
  have h6 := digitsAux_pos' b.sigOff b.sigOff
  simp only [hdrLen, hdrMin, lineLen, digits, nXmlSize, nXmlOff, nPvpSize, nPvpOff, nSigSize, nSigOff, nClass, nRelease]
  omega

/-- the file end of a layout: XML offset + payload + less than three paddings -/
theorem fileEnd_lt (xo xs : Nat) (ss : Option Nat) (ps gs : Nat) :
    fileEnd (layout xo xs ss ps gs) < xo + xs + 2 + ss.getD 0 + ps + gs + 192 := by
  cases ss with
  | none =>
    simp only [layout, fileEnd, Option.getD]
    have h1 := align_lt (xo + xs + 2)
    have h2 := align_lt (align (xo + xs + 2) + ps)
    omega
  | some s =>
    simp only [layout, fileEnd, Option.getD]
    have h1 := align_lt (xo + xs + 2)
    have h2 := align_lt (align (xo + xs + 2) + s)
    have h3 := align_lt (align (align (xo + xs + 2) + s) + ps)
    omega

/-- the header text of a layout whose file end is below `10^D` is at most `hdrMax` bytes long -/
theorem hdrLen_le (f : Fixed) (xo xs : Nat) (ss : Option Nat) (ps gs D : Nat) (hD : 1 ≤ D)
    (h : fileEnd (layout xo xs ss ps gs) < 10 ^ D) : hdrLen f (layout xo xs ss ps gs) ≤ hdrMax f D := by
  cases ss with
  | none =>
    simp only [layout, fileEnd] at h
    have a1 := align_ge (xo + xs + 2)
    have a2 := align_ge (align (xo + xs + 2) + ps)
    have d1 := digits_le_of_lt_pow xs D hD (by omega)
    have d2 := digits_le_of_lt_pow xo D hD (by omega)
    have d3 := digits_le_of_lt_pow ps D hD (by omega)
    have d4 := digits_le_of_lt_pow (align (xo + xs + 2)) D hD (by omega)
    have d5 := digits_le_of_lt_pow gs D hD (by omega)
    have d6 := digits_le_of_lt_pow (align (align (xo + xs + 2) + ps)) D hD (by omega)
    simp only [hdrLen, hdrMax, layout, lineLen, nXmlSize, nXmlOff, nPvpSize, nPvpOff, nSigSize, nSigOff, nClass, nRelease]
    omega
  | some s =>
    simp only [layout, fileEnd] at h
    have a1 := align_ge (xo + xs + 2)
    have a2 := align_ge (align (xo + xs + 2) + s)
    have a3 := align_ge (align (align (xo + xs + 2) + s) + ps)
    have d1 := digits_le_of_lt_pow xs D hD (by omega)
    have d2 := digits_le_of_lt_pow xo D hD (by omega)
    have d3 := digits_le_of_lt_pow ps D hD (by omega)
    have d4 := digits_le_of_lt_pow (align (align (xo + xs + 2) + s)) D hD (by omega)
    have d5 := digits_le_of_lt_pow gs D hD (by omega)
    have d6 := digits_le_of_lt_pow (align (align (align (xo + xs + 2) + s) + ps)) D hD (by omega)
    have d7 := digits_le_of_lt_pow s D hD (by omega)
    have d8 := digits_le_of_lt_pow (align (xo + xs + 2)) D hD (by omega)
    simp only [hdrLen, hdrMax, layout, lineLen, nXmlSize, nXmlOff, nSuppSize, nSuppOff, nPvpSize, nPvpOff, nSigSize, nSigOff, nClass, nRelease]
    omega

/-- **termination under an explicit bound**: if the strings and the payload are small enough that no layout the retry can visit reaches
    `10^D` bytes, then `make_file_header` returns after at most `fuel + 2` attempts as soon as `47 + 8 D ≤ 32 (fuel + 1)` -/
theorem chooseText_terminates (t : Texts) (xs : Nat) (ss : Option Nat) (ps gs D fuel : Nat) (hD : 1 ≤ D)
    (hbound : hdrMax t.fixed D + 1121 + (xs + 2 + ss.getD 0 + ps + gs) + 192 ≤ 10 ^ D)
    (hfuel : 47 + 8 * D ≤ 32 * (fuel + 1)) :
    ∃ b, chooseText t xs ss ps gs (fuel + 2) = some b := by
  rw [chooseText_eq]
  unfold chooseCrsd
  have hb : ∀ xo, xo ≤ hdrMax t.fixed D + 1121 → hdrLen t.fixed (layout xo xs ss ps gs) ≤ hdrMax t.fixed D := by
    intro xo hxo
    apply hdrLen_le _ _ _ _ _ _ _ hD
    have := fileEnd_lt xo xs ss ps gs
    omega
  by_cases hfit : 1024 < hdrLen t.fixed (layout 1024 xs ss ps gs) + 2
  · rw [choose, if_pos hfit]
    have h1 := hb 1024 (by omega)
    have h0 := hdrLen_ge t.fixed (layout 1024 xs ss ps gs)
    have h2 := align_ge (hdrLen t.fixed (layout 1024 xs ss ps gs) + 2 + 32)
    have h3 := align_lt (hdrLen t.fixed (layout 1024 xs ss ps gs) + 2 + 32)
    refine choose_terminates_aux (hdrLen t.fixed) xs ss ps gs (hdrMax t.fixed D) (hdrMax t.fixed D + 1121) hb (by omega)
      fuel _ (hdrLen t.fixed (layout 1024 xs ss ps gs)) (by omega) (by omega) ?_
    simp only [hdrMax, hdrMin] at *
    omega
  · exact ⟨layout 1024 xs ss ps gs, by rw [choose, if_neg hfit]⟩

/-- **files below 10^18 bytes: at most 7 attempts** (10^18 > 2^53, the range in which `_align`'s float arithmetic is exact), for any
    classification / release strings and sizes with `strings + payload + 2000 ≤ 10^18`; with `choose_mono_le`, any larger fuel
    (the unbounded Python recursion) returns the same header -/
theorem retry_terminates_7 (t : Texts) (xs : Nat) (ss : Option Nat) (ps gs : Nat)
    (h : t.typ.length + t.cls.length + t.rel.length + xs + ss.getD 0 + ps + gs + 2000 ≤ 10 ^ 18) :
    ∃ b, chooseText t xs ss ps gs 7 = some b ∧ ∀ k, chooseText t xs ss ps gs (7 + k) = some b := by
  obtain ⟨b, hb⟩ := chooseText_terminates t xs ss ps gs 18 5 (by omega)
    (by simp only [hdrMax, Texts.fixed]; omega) (by omega)
  exact ⟨b, hb, fun k => choose_mono_le _ xs ss ps gs 7 k 1024 b hb⟩

/-! ### non-vacuity (numbers from files written by `CPHDWriter1`) -/

example : decimal 0 = [48] ∧ decimal 7 = [55] ∧ decimal 1024 = [49, 48, 50, 52] ∧ decimal 99999 = [57, 57, 57, 57, 57] := by decide
-- the header of a real two-channel file with one support array (293 bytes, as `CPHDWriter1` wrote it)
set_option maxRecDepth 100000 in
example : headerBytes ⟨ascii "CPHD/1.1.0", ascii "UNCLASSIFIED", ascii "UNRESTRICTED"⟩ (layout 1024 6162 (some 24) 1344 44) =
    ascii "CPHD/1.1.0\n" ++ ascii "XML_BLOCK_SIZE := 6162\n" ++ ascii "XML_BLOCK_BYTE_OFFSET := 1024\n" ++ ascii "SUPPORT_BLOCK_SIZE := 24\n" ++
    ascii "SUPPORT_BLOCK_BYTE_OFFSET := 7232\n" ++ ascii "PVP_BLOCK_SIZE := 1344\n" ++ ascii "PVP_BLOCK_BYTE_OFFSET := 7296\n" ++
    ascii "SIGNAL_BLOCK_SIZE := 44\n" ++ ascii "SIGNAL_BLOCK_BYTE_OFFSET := 8640\n" ++ ascii "CLASSIFICATION := UNCLASSIFIED\n" ++
    ascii "RELEASE_INFO := UNRESTRICTED\n" := by decide +kernel
example : hdrLen ⟨10, 12, 12⟩ (layout 1024 6162 (some 24) 1344 44) = 293 := by decide
-- a 1200-byte release string: the first attempt does not fit, the second (1472) does (same numbers as the C11 example)
example : chooseCrsd ⟨10, 12, 1200⟩ 4417 none 560 88 7 = some (layout 1472 4417 none 560 88) := by decide
example : ascii "CPHD/1.1.0" = [67, 80, 72, 68, 47, 49, 46, 49, 46, 48] := by decide

end Sarpy.Props.C09
