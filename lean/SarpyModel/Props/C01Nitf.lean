import SarpyModel.Spec.NitfAssembly
import SarpyModel.Props.C01Seg

namespace Sarpy.Props.C01.Nitf
open Sarpy Sarpy.Spec Sarpy.Spec.NitfAssembly

theorem stub : True := trivial

end Sarpy.Props.C01.Nitf
