/-
  C01Nitf — the NITF reader's assembly of segment trees from image subheader fields (Spec/NitfAssembly.lean).

  * `assemble_wf`     : every tree `assemble` returns is well formed (`Seg.wf`), so `C01Seg.read_refines` - reading a sub-region equals
                        slicing the full image - applies to every uncompressed NITF layout (IMODE B / P / R / S, any block grid incl.
                        NPPBH / NPPBV = 0 and pad pixels, block masks with absent blocks, I/Q pairs, reverse_axes / transpose_axes,
                        memmap or file-read access);
  * `assemble_shape`, `assemble_raw_shape` : the advertised formatted / raw shapes are rows x cols [x bands] after the orientation
                        options / the IMODE's band position;
  * `assemble_spec`   : the SPECIFICATION - the full image at formatted index (r, c, b) is `formattedSrc h o r c b`: the stored sample
                        of band b at the image position the documented reverse / transpose of (r, c) names, in block
                        (y / NPPBV, x / NPPBH), at the file offset the mask table / block order prescribes, at the index inside the
                        block the IMODE prescribes (the fill value for a block that is not recorded; the complex pair for I/Q bands);
  * `assemble_read_spec` : the same for every read: the element at position `idx` of `read ts` is `formattedSrc` at the selected index;
  * `leaf_file_offset` : the flat sample offset inside a block, per IMODE (so provenance `id:flat` is file byte `id + flat * bytes`);
  * `assembleCollection_wf / _shape / _spec` : the same for a product image made of several image segments stacked by rows.

  All statements are for arbitrary header values (no bounds); side conditions `Valid` are stated in Props/C01NitfRaw.lean.
-/
import SarpyModel.Props.C01NitfWrap
import Mathlib.Tactic.Ring

namespace Sarpy.Props.C01.Nitf
open Sarpy Sarpy.Spec Sarpy.Spec.NitfAssembly Sarpy.Props.C01Seg

/-! ### what a successful assembly went through -/

theorem assembleBPR_ok {h : ImageHeaderFields} {o : ReaderOptions} {af : Bool} {t : Seg} (hok : assembleBPR h o af = .ok t) :
    h.nbands ≠ 0 ∧ gridOK h = true ∧ cplxOK h = true ∧ ∃ offs, flatOffsets h (bounds h).length = .ok offs ∧
      (bounds h).length = offs.length ∧ t = wrap (orientBPR h o af) (rawBPR h o.memmap offs) := by
  unfold assembleBPR at hok
  split at hok
  · cases hok
  rename_i hnb
  split at hok
  · cases hok
  rename_i hg
  split at hok
  · cases hok
  rename_i hc
  split at hok
  · cases hok
  rename_i offs hoffs
  split at hok
  · cases hok
  rename_i hlen
  split at hok
  · cases hok
  split at hok
  · cases hok
  simp only [Except.ok.injEq] at hok
  refine ⟨hnb, by simpa using hg, by simpa using hc, offs, hoffs, by simpa using hlen, hok.symm⟩

theorem assembleS_ok {h : ImageHeaderFields} {o : ReaderOptions} {af : Bool} {t : Seg} (hok : assembleS h o af = .ok t) :
    2 ≤ h.nbands ∧ gridOK h = true ∧ cplxOK h = true ∧ ∃ table, bandOffsets h (bounds h).length = .ok table ∧
      t = wrap (orientLast h.cplx h.nbands o af) (rawS h o.memmap table) := by
  unfold assembleS at hok
  split at hok
  · cases hok
  rename_i hnb
  split at hok
  · cases hok
  split at hok
  · cases hok
  rename_i hg
  split at hok
  · cases hok
  rename_i hc
  split at hok
  · cases hok
  rename_i table htab
  split at hok
  · cases hok
  split at hok
  · cases hok
  split at hok
  · cases hok
  simp only [Except.ok.injEq] at hok
  refine ⟨by omega, by simpa using hg, by simpa using hc, table, htab, hok.symm⟩

/-! ### the raw nodes are well formed and have the raw shape -/

theorem blockList_wf (h : ImageHeaderFields) (hg : gridOK h = true) (mm : Bool) (bands bd : Nat) (hb : 0 < bands) (offs : List Nat) :
    ∀ e ∈ blockList h mm bands bd (bounds h) offs,
      (e.2.wf && boxOK (getShape h.nrows h.ncols bands bd) e.1 e.2.fshape) = true := by
  intro e he
  obtain ⟨k, v, hk, _, _, rfl⟩ := (mem_blockList h mm bands bd offs e).1 he
  have hg' := hg
  simp only [gridOK, decide_eq_true_eq] at hg'
  have hbh := blockH_pos hg
  have hbw := blockW_pos hg
  have hnbpr : 0 < h.nbpr := by
    rcases Nat.eq_zero_or_pos h.nbpr with h0 | h0
    · rw [h0] at hk; simp at hk
    · exact h0
  have hrb : k / h.nbpr < h.nbpc := Nat.div_lt_of_lt_mul (by rw [Nat.mul_comm]; exact hk)
  have hcb : k % h.nbpr < h.nbpr := Nat.mod_lt _ hnbpr
  -- the block starts inside the image
  have hr1 : (k / h.nbpr + 1) * blockH h ≤ h.nbpc * blockH h := Nat.mul_le_mul_right _ hrb
  have hc1 : (k % h.nbpr + 1) * blockW h ≤ h.nbpr * blockW h := Nat.mul_le_mul_right _ hcb
  rw [Nat.add_mul, Nat.one_mul] at hr1 hc1
  rw [Nat.mul_comm h.nbpc] at hr1
  rw [Nat.mul_comm h.nbpr] at hc1
  have hrow : (bnd h (k / h.nbpr) (k % h.nbpr)).1 < min (bnd h (k / h.nbpr) (k % h.nbpr)).2.1 h.nrows := by
    simp only [bnd]; rw [Nat.add_mul, Nat.one_mul]; omega
  have hcol : (bnd h (k / h.nbpr) (k % h.nbpr)).2.2.1 < min (bnd h (k / h.nbpr) (k % h.nbpr)).2.2.2 h.ncols := by
    simp only [bnd]; rw [Nat.add_mul, Nat.one_mul]; omega
  rw [blockChild_wf h mm bands bd _ v hb hrow hcol, blockChild_box, blockChild_fshape, Bool.true_and]
  exact boxOK_boxDef _ _ _ _ _ _ _ _ hrow (Nat.min_le_right _ _) hcol (Nat.min_le_right _ _) hb

theorem rawBPR_fshape (h : ImageHeaderFields) (mm : Bool) (offs : List Nat) :
    (rawBPR h mm offs).fshape = getShape h.nrows h.ncols h.nbands (rawBandDim h.imode) := by
  unfold rawBPR
  simp only []
  split
  · rw [mkLeaf_fshape]
  · rfl

theorem rawBPR_wf (h : ImageHeaderFields) (hg : gridOK h = true) (hb : h.nbands ≠ 0) (mm : Bool) (offs : List Nat) :
    (rawBPR h mm offs).wf = true := by
  unfold rawBPR
  simp only []
  split
  · apply mkLeaf_wf
    rw [getShape_length]; unfold rankOf; split <;> omega
  · show (mkBlks _).wfAll _ = true
    rw [mkBlks_wfAll, List.all_eq_true]
    exact blockList_wf h hg mm _ _ (Nat.pos_of_ne_zero hb) offs

theorem bandSeg_fshape (h : ImageHeaderFields) (mm : Bool) (row : List Nat) : (bandSeg h mm row).fshape = [h.nrows, h.ncols] := rfl

theorem bandSeg_wf (h : ImageHeaderFields) (hg : gridOK h = true) (mm : Bool) (row : List Nat) : (bandSeg h mm row).wf = true := by
  unfold bandSeg
  have hbl : (mkBlks (blockList h mm 1 2 (bounds h) row)).wfAll [h.nrows, h.ncols] = true := by
    rw [mkBlks_wfAll, List.all_eq_true]
    have := blockList_wf h hg mm 1 2 (by omega) row
    simpa [getShape] using this
  simp only [Seg.wf, hbl, Seg.fshape, Bool.true_and, Bool.and_eq_true]
  exact ⟨by simp [isPerm]; intro x hx; omega, by simp⟩

theorem bandOffsets_length {h : ImageHeaderFields} {n : Nat} {table : List (List Nat)} (htab : bandOffsets h n = .ok table) :
    table.length = h.nbands := by
  unfold bandOffsets at htab
  split at htab
  · simp only [Except.ok.injEq] at htab; rw [← htab]; simp
  · split at htab
    · rename_i hc; simp only [Except.ok.injEq] at htab; rw [← htab]; exact hc.1
    · cases htab

theorem rawS_fshape (h : ImageHeaderFields) (mm : Bool) (table : List (List Nat)) (hl : table.length = h.nbands) (h2 : 2 ≤ h.nbands) :
    (rawS h mm table).fshape = getShape h.nrows h.ncols h.nbands 2 := by
  unfold rawS
  cases table with
  | nil => simp at hl; omega
  | cons r rest =>
    show insAt 2 (mkSegs _).length (mkSegs _).headShape = _
    rw [mkSegs_length, List.map_cons, mkSegs_headShape, bandSeg_fshape]
    have hl' : (bandSeg h mm r :: List.map (bandSeg h mm) rest).length = h.nbands := by simpa using hl
    rw [hl']
    have : h.nbands ≠ 1 := by omega
    simp [insAt, getShape, this]

theorem rawS_wf (h : ImageHeaderFields) (hg : gridOK h = true) (mm : Bool) (table : List (List Nat)) (hl : table.length = h.nbands)
    (h2 : 2 ≤ h.nbands) : (rawS h mm table).wf = true := by
  unfold rawS
  cases table with
  | nil => simp at hl; omega
  | cons r rest =>
    simp only [Seg.wf, List.map_cons, mkSegs_headShape, bandSeg_fshape, mkSegs_length, Bool.and_eq_true, decide_eq_true_eq]
    refine ⟨⟨?_, by simp⟩, by simp⟩
    rw [← List.map_cons, mkSegs_wfAll, List.all_eq_true]
    intro c hc
    obtain ⟨row, _, rfl⟩ := List.mem_map.1 hc
    simp [bandSeg_wf h hg mm row, bandSeg_fshape]

/-! ### the raw nodes refuse no normalised subscript -/

theorem blockList_total (h : ImageHeaderFields) (mm : Bool) (bands bd : Nat) (offs : List Nat) :
    (mkBlks (blockList h mm bands bd (bounds h) offs)).total = true := by
  rw [mkBlks_total, List.all_eq_true]
  intro e he
  obtain ⟨k, v, _, _, _, rfl⟩ := (mem_blockList h mm bands bd offs e).1 he
  exact blockChild_total h mm bands bd _ v

theorem rawBPR_total (h : ImageHeaderFields) (mm : Bool) (offs : List Nat) : (rawBPR h mm offs).total = true := by
  unfold rawBPR
  simp only []
  split
  · cases mm <;> rfl
  · exact blockList_total h mm _ _ offs

theorem rawS_total (h : ImageHeaderFields) (mm : Bool) (table : List (List Nat)) : (rawS h mm table).total = true := by
  unfold rawS
  show (mkSegs _).total = true
  rw [mkSegs_total, List.all_eq_true]
  intro c hc
  obtain ⟨row, _, rfl⟩ := List.mem_map.1 hc
  exact blockList_total h mm 1 2 row

/-! ### one image segment -/

theorem cplxOK_two {h : ImageHeaderFields} (hc : cplxOK h = true) (iq : Bool) (hq : h.cplx = some iq) : h.nbands = 2 := by
  unfold cplxOK at hc; rw [hq] at hc; simpa using hc

theorem orientBPR_fmt (h : ImageHeaderFields) (o : ReaderOptions) : (orientBPR h o true).1 = h.cplx := by
  unfold orientBPR
  by_cases h1 : h.nbands = 1
  · simp [h1]
  · cases h.imode <;> simp [h1]

theorem orientLast_fmt (c : Option Bool) (nb : Nat) (o : ReaderOptions) : (orientLast c nb o true).1 = c := by
  unfold orientLast
  by_cases h1 : nb = 1 <;> simp [h1]

/-- everything the theorems below need to know about a tree `assembleImage h o true` returned -/
structure Assembled (h : ImageHeaderFields) (o : ReaderOptions) (t : Seg) : Prop where
  ex : ∃ (X : Seg) (bd : Nat) (w : Option Bool × List Nat × List Nat),
    t = wrap w X ∧ X.total = true ∧ bd = rawBandDim h.imode ∧ OrientOK h.nrows h.ncols h.nbands bd o w ∧ X.wf = true ∧
    X.fshape = getShape h.nrows h.ncols h.nbands bd ∧ w.1 = h.cplx ∧ (∀ iq, w.1 = some iq → h.nbands = 2) ∧
    (Valid h → RawSpec X h.nrows h.ncols h.nbands bd (pixelSrc h))

theorem assembleImage_assembled {h : ImageHeaderFields} {o : ReaderOptions} {t : Seg} (ho : optionsOK o = true)
    (hok : assembleImage h o true = .ok t) : Assembled h o t := by
  unfold assembleImage at hok
  by_cases hS : h.imode = .S
  · rw [hS] at hok
    simp only [] at hok
    obtain ⟨h2, hg, hc, table, htab, rfl⟩ := assembleS_ok hok
    have hl := bandOffsets_length htab
    have h1 : h.nbands ≠ 1 := by omega
    refine ⟨rawS h o.memmap table, 2, _, rfl, rawS_total h _ table, by rw [hS]; rfl, orientLast_ok _ _ _ _ o ho, rawS_wf h hg _ table hl h2,
      rawS_fshape h _ table hl h2, orientLast_fmt _ _ _, ?_, ?_⟩
    · intro iq hq; rw [orientLast_fmt] at hq; exact cplxOK_two hc iq hq
    · intro hv pt hy0 hy1 hx0 hx1 b hb
      simp only [axY, axX, axB, h1, if_false] at hy0 hy1 hx0 hx1 hb ⊢
      simp only [Nat.reduceEqDiff, if_false] at hy0 hy1 hx0 hx1 hb ⊢
      exact rawS_get h hg hS hv _ table htab pt hy0 hy1 hx0 hx1 b (hb h1).1 (hb h1).2
  · have hok' : assembleBPR h o true = .ok t := by
      cases hi : h.imode with
      | S => exact absurd hi hS
      | B => rw [hi] at hok; exact hok
      | P => rw [hi] at hok; exact hok
      | R => rw [hi] at hok; exact hok
    obtain ⟨hnb, hg, hc, offs, hoffs, hlen, rfl⟩ := assembleBPR_ok hok'
    refine ⟨rawBPR h o.memmap offs, rawBandDim h.imode, _, rfl, rawBPR_total h _ offs, rfl, orientBPR_ok h o ho hS, rawBPR_wf h hg hnb _ offs,
      rawBPR_fshape h _ offs, orientBPR_fmt h o, ?_, ?_⟩
    · intro iq hq; rw [orientBPR_fmt] at hq; exact cplxOK_two hc iq hq
    · intro hv pt hy0 hy1 hx0 hx1 b hb
      apply rawBPR_get h hg hnb hS hv _ offs hoffs hlen pt _ b (fun hne => (hb hne).1)
      refine ⟨hy0, hy1, hx0, hx1, ?_⟩
      by_cases h1 : h.nbands = 1
      · exact Or.inl h1
      · obtain ⟨e, hlt⟩ := hb h1
        exact Or.inr ⟨by rw [e]; omega, by rw [e]; omega⟩

theorem assemble_assembled {h : ImageHeaderFields} {o : ReaderOptions} {t : Seg} (hok : assemble h o = .ok t) :
    optionsOK o = true ∧ Assembled h o t := by
  unfold assemble at hok
  split at hok
  · cases hok
  rename_i ho
  have ho' : optionsOK o = true := by simpa using ho
  exact ⟨ho', assembleImage_assembled ho' hok⟩

/-- **every tree the assembly returns is well formed**, so `C01Seg.read_refines` (reading a sub-region = slicing the full image),
    `full_shape` and `read_in_store` apply to every uncompressed NITF layout -/
theorem assemble_wf {h : ImageHeaderFields} {o : ReaderOptions} {t : Seg} (hok : assemble h o = .ok t) : t.wf = true := by
  obtain ⟨_, ⟨X, bd, w, rfl, _, _, hw, hX, hXs, _, hc, _⟩⟩ := assemble_assembled hok
  exact wrap_wf X _ _ _ bd o w hw hX hXs hc

/-- **the assembled tree refuses no normalised subscript** (no kept-band complex node): `t.accepts ts` holds for every `ts`, so the
    premise of `C01Seg.read_refines` is met -/
theorem assemble_total {h : ImageHeaderFields} {o : ReaderOptions} {t : Seg} (hok : assemble h o = .ok t) : t.total = true := by
  obtain ⟨_, ⟨X, bd, w, rfl, htot, _⟩⟩ := assemble_assembled hok
  exact wrap_total w X htot

theorem assemble_accepts {h : ImageHeaderFields} {o : ReaderOptions} {t : Seg} (hok : assemble h o = .ok t) (ts : List NSlice) :
    t.accepts ts = true := accepts_of_total t (assemble_total hok) ts

theorem formattedShape_eq (rows cols : Nat) (h : ImageHeaderFields) (o : ReaderOptions) :
    formattedShape rows cols h o = match h.cplx with
      | none => rcShape rows cols o ++ (if h.nbands = 1 then [] else [h.nbands])
      | some _ => rcShape rows cols o := by
  unfold formattedShape rcShape
  cases h.cplx with
  | some _ => rfl
  | none => by_cases h1 : h.nbands = 1 <;> simp [h1]

/-- **advertised formatted shape** = rows x cols [x bands] after the orientation options (cols x rows with transpose_axes; no band
    axis for a single band or an I/Q pair) -/
theorem assemble_shape {h : ImageHeaderFields} {o : ReaderOptions} {t : Seg} (hok : assemble h o = .ok t) :
    t.fshape = formattedShape h.nrows h.ncols h o := by
  obtain ⟨_, ⟨X, bd, w, rfl, _, _, hw, hX, hXs, hfmt, hc, _⟩⟩ := assemble_assembled hok
  rw [wrap_fshape X _ _ _ bd o w hw hXs hc, formattedShape_eq, hfmt]
  cases h.cplx <;> rfl

/-- **advertised raw shape** (the shape of `read_raw`): rows, cols and the bands at the axis the IMODE puts them -/
theorem assemble_raw_shape {h : ImageHeaderFields} {o : ReaderOptions} {t : Seg} (hok : assemble h o = .ok t) :
    (below t).fshape = rawShapeOf h := by
  obtain ⟨_, ⟨X, bd, w, rfl, _, hbd, _, _, hXs, _⟩⟩ := assemble_assembled hok
  rw [wrap_below, hXs, hbd]; rfl

theorem InR_rc (rows cols : Nat) (o : ReaderOptions) (tail : List Nat) (idx : Idx) (hin : InR (rcShape rows cols o ++ tail) idx) :
    (0 ≤ idx 0 ∧ idx 0 < ((if o.transpose then cols else rows : Nat) : Int)) ∧
    (0 ≤ idx 1 ∧ idx 1 < ((if o.transpose then rows else cols : Nat) : Int)) ∧
    (∀ nb, tail = [nb] → 0 ≤ idx 2 ∧ idx 2 < (nb : Int)) := by
  unfold rcShape at hin
  cases htr : o.transpose <;> simp only [htr, if_true, if_false, Bool.false_eq_true] at hin ⊢
  all_goals
    refine ⟨by simpa [dimAt] using hin 0 (by simp), by simpa [dimAt] using hin 1 (by simp), ?_⟩
    intro nb hnb; subst hnb
    simpa [dimAt] using hin 2 (by simp)

/-- **the specification**: for all header values, the full image the assembled tree denotes shows at formatted index (r, c, b)
    exactly `formattedSrc h o r c b` - the stored sample of band b at the image position given by the documented reverse / transpose
    of (r, c), in block (y / NPPBV, x / NPPBH), at the file offset the mask table / block order gives, at the in-block index the IMODE
    prescribes -/
theorem assemble_spec {h : ImageHeaderFields} {o : ReaderOptions} {t : Seg} (hv : Valid h) (hok : assemble h o = .ok t)
    (idx : Idx) (hin : InR t.fshape idx) :
    t.fullSrc.get idx = formattedSrc h o (idx 0).toNat (idx 1).toNat (idx 2).toNat := by
  have hsh := assemble_shape hok
  obtain ⟨_, ⟨X, bd, w, rfl, _, _, hw, hX, hXs, hfmt, hc, hraw⟩⟩ := assemble_assembled hok
  rw [hsh, formattedShape_eq] at hin
  have hin' : ∃ tail, InR (rcShape h.nrows h.ncols o ++ tail) idx ∧ (h.cplx = none → h.nbands ≠ 1 → tail = [h.nbands]) := by
    cases hq : h.cplx with
    | none => simp only [hq] at hin; exact ⟨_, hin, fun _ h1 => by simp [h1]⟩
    | some iq => simp only [hq] at hin; exact ⟨[], by simpa using hin, fun hn => by cases hn⟩
  obtain ⟨tail, hint, htail⟩ := hin'
  obtain ⟨hr0, hr1, hr2⟩ := InR_rc _ _ o tail idx hint
  have hb : w.1 = none → h.nbands ≠ 1 → 0 ≤ idx 2 ∧ idx 2 < (h.nbands : Int) := by
    intro hn h1
    rw [hfmt] at hn
    exact hr2 _ (htail hn h1)
  rw [wrap_spec X _ _ _ bd o w (pixelSrc h) hw hX hXs hc (hraw hv) idx hr0.1 hr0.2 hr1.1 hr1.2 hb]
  unfold formattedSrc
  rw [hfmt]
  cases hq : h.cplx with
  | none => rfl
  | some iq => cases iq <;> rfl

/-- **every read of the assembled tree**: element `idx` of `read ts` (any normalised subscript: any start, stop, step of either
    sign per axis) is the specified sample at the selected formatted index `start + idx * step` - `read_refines` composed with
    `assemble_wf` and `assemble_spec` -/
theorem assemble_read_spec {h : ImageHeaderFields} {o : ReaderOptions} {t : Seg} (hv : Valid h) (hok : assemble h o = .ok t)
    (ts : List NSlice) (hts : NormalSub t.fshape ts) (idx : Idx) (hin : InR (ts.map NSlice.count) idx) :
    (t.readSrc ts).shape = ts.map NSlice.count ∧
    (t.readSrc ts).get idx =
      formattedSrc h o (selIdx ts idx 0).toNat (selIdx ts idx 1).toNat (selIdx ts idx 2).toNat := by
  have hwf := assemble_wf hok
  have href := read_refines_total Src.leaf Src.fill t hwf (assemble_total hok) ts hts
  refine ⟨href.1, ?_⟩
  have h1 := href.2 idx (by rw [href.1]; exact hin)
  rw [show t.readSrc ts = t.read Src.leaf Src.fill ts from rfl, h1]
  exact assemble_spec hv hok (selIdx ts idx) (selIdx_inR hts hin)

/-- **file position of a sample**: the flat sample offset of band b, row iy, column ix inside a block, per IMODE - band interleaved
    by block: ((b * NPPBV) + iy) * NPPBH + ix; by row: (iy * NBANDS + b) * NPPBH + ix; by pixel: (iy * NPPBH + ix) * NBANDS + b; band
    sequential: iy * NPPBH + ix.  With the leaf id (the byte offset of the block in the file) this names the file byte
    `id + flat * bytesPerSample` every formatted pixel is read from. -/
theorem leaf_file_offset (h : ImageHeaderFields) (b iy ix : Nat) :
    flatOff (leafShape h) (leafIdx h b iy ix) =
      if h.nbands = 1 then ((iy * blockW h + ix : Nat) : Int) else
      match h.imode with
      | .B => (((b * blockH h + iy) * blockW h + ix : Nat) : Int)
      | .R => (((iy * h.nbands + b) * blockW h + ix : Nat) : Int)
      | .P => (((iy * blockW h + ix) * h.nbands + b : Nat) : Int)
      | .S => ((iy * blockW h + ix : Nat) : Int) := by
  unfold leafShape leafIdx
  by_cases h1 : h.nbands = 1
  · cases h.imode <;> simp [h1, getShape, flatOff, rawBandDim]
  · cases h.imode <;> simp [h1, getShape, flatOff, rawBandDim] <;> ring

/-! ### the hypotheses are satisfiable: a 2 x 2 grid with pad pixels, three bands by block, one block masked out, rows reversed and
    axes transposed -/

def exH : ImageHeaderFields :=
  { nrows := 3, ncols := 5, nbands := 3, imode := .B, nbpr := 2, nbpc := 2, nppbh := 3, nppbv := 2, bps := 2, cplx := none,
    mask := some ⟨26, [[36, 4294967295, 0, 72]]⟩, offset := 1000, size := 26 + 3 * 36, ilocRow := 0, ilocCol := 0 }
def exO : ReaderOptions := { reverse := [0], transpose := true, memmap := true }

theorem exH_valid : Valid exH := by
  constructor
  · intro hm; simp [exH] at hm
  · intro m hm; simp [exH] at hm; subst hm; decide
example : ∃ t, assemble exH exO = .ok t ∧ t.fshape = [5, 3, 3] ∧ (below t).fshape = [3, 3, 5] := ⟨_, rfl, by decide, by decide⟩
-- formatted (c, r, b) = (4, 0, 2): image row 3 - 1 - 0 = 2, column 4 -> block (1, 1) = number 3 at offset 72, inside the block (band 2, row 0, col 1)
example : formattedSrc exH exO 4 0 2 = Src.leaf (1000 + 26 + 72) [2, 0, 1] := by decide
-- image row 0, column 4 lies in block (0, 1), which is masked out
example : formattedSrc exH exO 4 2 1 = Src.fill := by decide
example : flatOff (leafShape exH) (leafIdx exH 2 0 1) = 13 := by decide

end Sarpy.Props.C01.Nitf
