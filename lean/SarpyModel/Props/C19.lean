/-
  C19 — readers and writers have a sound open/close life cycle.

  Theorems about the two state machines of `Spec/Lifecycle.lean`, each for every state / every
  configuration and every operation history of any length (induction over the op list).

  (a) readers / segment trees (`rstep`)
      r_close_idempotent, r_exit_is_close, r_del_is_close, r_closed_after_close,
      r_use_after_close, r_use_after_close_history, r_read_ok_before_close,
      r_temp_files_removed, r_reached_objects_closed, r_owned_files_closed,
      r_caller_file_untouched
  (b) writers (`wstep`)
      w_close_idempotent, w_exit_is_close, w_closed_after_close, w_use_after_close,
      w_use_after_close_history, w_caller_file_never_closed, w_owned_file_closed,
      w_closed_full_size, w_existing_path_refused_unless_disabled, w_clobber_only_if_disabled,
      w_claims_iff_complete_partial, w_incomplete_never_claims_written_partial,
      w_caller_file_complete_partial
      The three `_partial` theorems carry the hypothesis `freshRun` (no write touches a row that was
      already written).  Without it the clause is false for sarpy's pixel *counter*: see
      `claims_without_fresh_is_false` (negation witness; the harness replays it on the implementation).
  No Mathlib import is needed.
-/
import SarpyModel.Spec.Lifecycle

namespace Sarpy.Props.C19
open Sarpy.Spec.Lifecycle

/-! ## helpers on bit lists -/

theorem setRange_length (l : List Bool) (r n : Nat) : (setRange l r n).length = l.length := by
  fun_induction setRange l r n <;> simp_all

theorem cnt_le (l : List Bool) : cnt l ≤ l.length := by
  induction l with
  | nil => simp [cnt]
  | cons b l ih => cases b <;> simp [cnt] <;> omega

theorem cnt_eq_length_iff (l : List Bool) : cnt l = l.length ↔ l.all id = true := by
  induction l with
  | nil => simp [cnt]
  | cons b l ih =>
    have := cnt_le l
    cases b
    · simp [cnt]; omega
    · simp [cnt, ← ih]; omega

theorem setRange_zero (l : List Bool) (r : Nat) : setRange l r 0 = l := by
  induction l generalizing r with
  | nil => simp [setRange]
  | cons b l ih =>
    cases r with
    | zero => simp [setRange]
    | succ r => simp [setRange, ih]

/-- a fresh chunk adds exactly its rows -/
theorem cnt_setRange_fresh (l : List Bool) (r n : Nat) (h : freshRange l r n = true) :
    cnt (setRange l r n) = cnt l + n := by
  induction l generalizing r n with
  | nil =>
    cases n with
    | zero => simp [setRange]
    | succ n => simp [freshRange] at h
  | cons b l ih =>
    cases n with
    | zero => simp [setRange_zero]
    | succ n =>
      cases r with
      | zero =>
        simp [freshRange] at h
        have := ih 0 n h.2
        simp [setRange, cnt, h.1]; omega
      | succ r =>
        simp [freshRange] at h
        have := ih r (n + 1) h
        simp [setRange, cnt]; omega

/-- when every row is written no non-empty chunk is fresh -/
theorem not_fresh_of_full (l : List Bool) (r n : Nat) (h : cnt l = l.length) :
    freshRange l r (n + 1) = false := by
  induction l generalizing r with
  | nil => simp [freshRange]
  | cons b l ih =>
    have hle := cnt_le l
    cases b
    · simp [cnt] at h; omega
    · have hl : cnt l = l.length := by simp [cnt] at h; omega
      cases r with
      | zero => simp [freshRange]
      | succ r => simp [freshRange, ih r hl]

/-! ## (a) readers and segment trees -/

theorem closeAll_idem (f : Forest) : closeAll (closeAll f) = closeAll f := by
  induction f with
  | nil => rfl
  | cons c p file cf kids rest ihk ihr =>
    cases c <;> simp [closeAll, ihr]

theorem toClose_closeAll (f : Forest) : toClose (closeAll f) = [] := by
  induction f with
  | nil => rfl
  | cons c p file cf kids rest ihk ihr =>
    cases c <;> simp [closeAll, toClose, ihr]

theorem rootClosed_closeAll (c p : Bool) (file : Option Nat) (cf : Bool) (kids rest : Forest) :
    rootClosed (closeAll (.cons c p file cf kids rest)) = true := by
  cases c <;> simp [closeAll, rootClosed]

theorem rootClosed_rclose (s : RState) (h : s.root ≠ .nil) : rootClosed (rclose s).root = true := by
  unfold rclose
  split
  · assumption
  · cases hs : s.root with
    | nil => exact absurd hs h
    | cons c p file cf kids rest => simp [rootClosed_closeAll]

theorem rclose_of_closed (s : RState) (h : rootClosed s.root = true) : rclose s = s := by
  simp [rclose, h]

/-- **close is idempotent** (state level) -/
theorem rclose_idem (s : RState) : rclose (rclose s) = rclose s := by
  by_cases h : rootClosed s.root = true
  · simp [rclose, h]
  · cases hs : s.root with
    | nil => simp [hs, rootClosed] at h
    | cons c p file cf kids rest =>
      exact rclose_of_closed _ (rootClosed_rclose s (by simp [hs]))

/-- **close is idempotent**: a second `close()` returns normally and changes nothing -/
theorem r_close_idempotent (s : RState) :
    rstep (rstep s .close).1 .close = ((rstep s .close).1, (rstep s .close).2) := by
  unfold rstep
  by_cases hg : s.gone = true
  · simp [hg]
  · have : (rclose s).gone = false := by
      unfold rclose; split <;> simp_all
    simp [hg, this, rclose_idem]

/-- **context exit performs close** (with or without an exception in flight) -/
theorem r_exit_is_close (s : RState) :
    rstep s .exit = rstep s .close ∧ rstep s .exitErr = rstep s .close := by
  unfold rstep; split <;> simp

/-- garbage collection of the object does to everything else exactly what `close()` does -/
theorem r_del_is_close (s : RState) (hg : s.gone = false) :
    (rstep s .del).1 = { (rstep s .close).1 with gone := true } := by
  simp [rstep, hg]

theorem r_closed_after_close (s : RState) (h : s.root ≠ .nil) (hg : s.gone = false) :
    rootClosed (rstep s .close).1.root = true := by
  simp [rstep, hg, rootClosed_rclose s h]

theorem readable_closed (f : Forest) (i : Option Nat) (h : rootClosed f = true) : readable f i = false := by
  cases f with
  | nil => cases i <;> rfl
  | cons c p file cf kids rest =>
    simp [rootClosed] at h
    cases i <;> simp [readable, h]

/-- **after close, a read raises and leaves the state unchanged** -/
theorem r_use_after_close (s : RState) (i : Option Nat) (hc : rootClosed s.root = true) (hg : s.gone = false) :
    rstep s (.read i) = (s, .refused) := by
  simp [rstep, hg, readable_closed s.root i hc]

/-- once closed, no operation changes anything but the `gone` flag -/
theorem rstep_closed (s : RState) (op : ROp) (hc : rootClosed s.root = true) :
    (rstep s op).1 = s ∨ (rstep s op).1 = { s with gone := true } := by
  unfold rstep
  by_cases hg : s.gone = true
  · simp [hg]
  · cases op <;> simp [hg, rclose, hc]

def isRead : ROp → Bool
  | .read _ => true
  | _ => false

/-- **use after close, for every history**: from a closed state, every later read of any history is
    refused (or the object is gone) and root, files and temp files stay exactly as they were -/
theorem r_use_after_close_history (s : RState) (ops : List ROp) (hc : rootClosed s.root = true) :
    (rrun s ops).root = s.root ∧ (rrun s ops).files = s.files ∧ (rrun s ops).temp = s.temp ∧
    ∀ p ∈ List.zip ops (routs s ops), isRead p.1 = true → p.2 ≠ .ok := by
  induction ops generalizing s with
  | nil => simp [rrun, routs]
  | cons op ops ih =>
    have hs := rstep_closed s op hc
    have hroot : (rstep s op).1.root = s.root := by rcases hs with h | h <;> rw [h]
    have hfiles : (rstep s op).1.files = s.files := by rcases hs with h | h <;> rw [h]
    have htemp : (rstep s op).1.temp = s.temp := by rcases hs with h | h <;> rw [h]
    have ih' := ih (rstep s op).1 (by rw [hroot]; exact hc)
    refine ⟨by simp [rrun, ih'.1, hroot], by simp [rrun, ih'.2.1, hfiles], by simp [rrun, ih'.2.2.1, htemp], ?_⟩
    intro p hp hr
    simp only [routs, List.zip_cons_cons, List.mem_cons] at hp
    rcases hp with rfl | hp
    · simp only
      cases op <;> simp [isRead] at hr
      rename_i i
      unfold rstep
      by_cases hg : s.gone = true
      · simp [hg]
      · simp [hg, readable_closed s.root i hc]
    · exact ih'.2.2.2 p hp hr

/-! ### reachable states: invariants -/

/-- every object below a closed propagating object is closed, at every depth -/
def good : Forest → Bool
  | .nil => true
  | .cons c p _ _ kids rest => (if c && p then reachClosed kids else true) && good kids && good rest

/-- file objects owned by closed leaves -/
def closedOwned : Forest → List Nat
  | .nil => []
  | .cons c _ file cf kids rest =>
    closedOwned kids ++ (match c, file, cf with | true, some f, true => [f] | _, _, _ => []) ++ closedOwned rest

theorem good_fresh (f : Forest) : good (fresh f) = true := by
  induction f with
  | nil => rfl
  | cons c p file cf kids rest ihk ihr => simp [fresh, good, ihk, ihr]

theorem allOpen_fresh (f : Forest) : allOpen (fresh f) = true := by
  induction f with
  | nil => rfl
  | cons c p file cf kids rest ihk ihr => simp [fresh, allOpen, ihk, ihr]

theorem closedOwned_fresh (f : Forest) : closedOwned (fresh f) = [] := by
  induction f with
  | nil => rfl
  | cons c p file cf kids rest ihk ihr => simp [fresh, closedOwned, ihk, ihr]

theorem closeAll_good (f : Forest) (h : good f = true) :
    good (closeAll f) = true ∧ reachClosed (closeAll f) = true := by
  induction f with
  | nil => simp [closeAll, good, reachClosed]
  | cons c p file cf kids rest ihk ihr =>
    simp only [good, Bool.and_eq_true] at h
    obtain ⟨⟨h1, hk⟩, hr⟩ := h
    have ⟨gr, rr⟩ := ihr hr
    have ⟨gk, rk⟩ := ihk hk
    cases c <;> cases p <;> simp_all [closeAll, good, reachClosed]

theorem owned_closeAll (f : Forest) : owned (closeAll f) = owned f := by
  induction f with
  | nil => rfl
  | cons c p file cf kids rest ihk ihr =>
    cases c <;> cases p <;> simp [closeAll, owned, ihk, ihr]

theorem toClose_sub_owned (f : Forest) : ∀ id ∈ toClose f, id ∈ owned f := by
  induction f with
  | nil => simp [toClose]
  | cons c p file cf kids rest ihk ihr =>
    intro id hid
    cases c <;> cases p <;> simp [toClose, owned] at hid ⊢
    all_goals
      first
        | (rcases hid with h | h | h
           · exact Or.inl (ihk id h)
           · exact Or.inr (Or.inl h)
           · exact Or.inr (Or.inr (ihr id h)))
        | (rcases hid with h | h
           · exact Or.inr (Or.inl h)
           · exact Or.inr (Or.inr (ihr id h)))
        | exact Or.inr (Or.inr (ihr id hid))

theorem closedOwned_closeAll (f : Forest) :
    ∀ id ∈ closedOwned (closeAll f), id ∈ closedOwned f ∨ id ∈ toClose f := by
  induction f with
  | nil => simp [closeAll, closedOwned]
  | cons c p file cf kids rest ihk ihr =>
    intro id hid
    cases c
    · -- open node: gets closed now
      cases p
      · simp only [closeAll, Bool.false_eq_true, ↓reduceIte, closedOwned, List.mem_append] at hid
        simp only [closedOwned, toClose, Bool.false_eq_true, ↓reduceIte, List.mem_append, List.nil_append]
        rcases hid with (h | h) | h
        · exact Or.inl (Or.inl (Or.inl h))
        · right; left
          cases file <;> cases cf <;> simp_all
        · rcases ihr id h with h | h
          · exact Or.inl (Or.inr h)
          · exact Or.inr (Or.inr h)
      · simp only [closeAll, Bool.false_eq_true, ↓reduceIte, closedOwned, List.mem_append] at hid
        simp only [closedOwned, toClose, Bool.false_eq_true, ↓reduceIte, List.mem_append]
        rcases hid with (h | h) | h
        · rcases ihk id h with h | h
          · exact Or.inl (Or.inl (Or.inl h))
          · exact Or.inr (Or.inl (Or.inl h))
        · right; left; right
          cases file <;> cases cf <;> simp_all
        · rcases ihr id h with h | h
          · exact Or.inl (Or.inr h)
          · exact Or.inr (Or.inr h)
    · simp only [closeAll, ↓reduceIte, closedOwned, List.mem_append] at hid
      simp only [closedOwned, toClose, ↓reduceIte, List.mem_append]
      rcases hid with (h | h) | h
      · exact Or.inl (Or.inl (Or.inl h))
      · exact Or.inl (Or.inl (Or.inr h))
      · rcases ihr id h with h | h
        · exact Or.inl (Or.inr h)
        · exact Or.inr h

theorem reachOwned_sub_closedOwned (f : Forest) (h : reachClosed f = true) :
    ∀ id ∈ reachOwned f, id ∈ closedOwned f := by
  induction f with
  | nil => simp [reachOwned]
  | cons c p file cf kids rest ihk ihr =>
    intro id hid
    simp only [reachClosed, Bool.and_eq_true] at h
    obtain ⟨⟨hc, hk⟩, hr⟩ := h
    subst hc
    simp only [reachOwned, List.mem_append] at hid
    simp only [closedOwned, List.mem_append]
    rcases hid with (h | h) | h
    · cases p
      · simp at h
      · simp at h hk; exact Or.inl (Or.inl (ihk hk id h))
    · refine Or.inl (Or.inr ?_)
      cases file <;> cases cf <;> simp_all
    · exact Or.inr (ihr hr id h)

theorem closeFiles_get_of_not_mem (fs : List Bool) (ids : List Nat) (id : Nat) (h : id ∉ ids) :
    (closeFiles fs ids)[id]? = fs[id]? := by
  unfold closeFiles
  induction ids generalizing fs with
  | nil => rfl
  | cons a ids ih =>
    simp only [List.mem_cons, not_or] at h
    simp only [List.foldl_cons]
    rw [ih _ h.2, List.getElem?_set_ne (fun e => h.1 e.symm)]

theorem closeFiles_mono (fs : List Bool) (ids : List Nat) (id : Nat) (h : fs[id]? ≠ some true) :
    (closeFiles fs ids)[id]? ≠ some true := by
  unfold closeFiles
  induction ids generalizing fs with
  | nil => exact h
  | cons a ids ih =>
    simp only [List.foldl_cons]
    apply ih
    by_cases e : a = id
    · subst e
      by_cases hl : a < fs.length
      · simp [List.getElem?_set_self hl]
      · rw [List.getElem?_eq_none (by simp; omega)]; simp
    · rw [List.getElem?_set_ne e]; exact h

theorem closeFiles_of_mem (fs : List Bool) (ids : List Nat) (id : Nat) (h : id ∈ ids) :
    (closeFiles fs ids)[id]? ≠ some true := by
  induction ids generalizing fs with
  | nil => simp at h
  | cons a ids ih =>
    by_cases e : a = id
    · subst e
      have : closeFiles fs (a :: ids) = closeFiles (fs.set a false) ids := rfl
      rw [this]
      apply closeFiles_mono
      by_cases hl : a < fs.length
      · simp [List.getElem?_set_self hl]
      · rw [List.getElem?_eq_none (by simp; omega)]; simp
    · have : closeFiles fs (a :: ids) = closeFiles (fs.set a false) ids := rfl
      rw [this]
      exact ih _ (by simpa [Ne.symm e] using h)

theorem closeFiles_length (fs : List Bool) (ids : List Nat) : (closeFiles fs ids).length = fs.length := by
  unfold closeFiles
  induction ids generalizing fs with
  | nil => rfl
  | cons a ids ih => simp [ih]

/-- the invariant of reachable reader states -/
structure RInv (s : RState) : Prop where
  nonempty : s.root ≠ .nil
  single : ∃ c p file cf kids, s.root = .cons c p file cf kids .nil
  good : good s.root = true
  openAll : rootClosed s.root = false → allOpen s.root = true ∧ s.temp.all id = true
  tempGone : rootClosed s.root = true → s.temp.all (fun b => !b) = true
  filesClosed : ∀ id ∈ closedOwned s.root, s.files[id]? ≠ some true

theorem RInv_init (p : Bool) (file : Option Nat) (cf : Bool) (kids : Forest) (nf nt : Nat) :
    RInv (rinit p file cf kids nf nt) := by
  refine ⟨by simp [rinit], ⟨false, p, file, cf, fresh kids, rfl⟩, ?_, ?_, ?_, ?_⟩
  · simp [rinit, good, good_fresh]
  · intro _; simp [rinit, allOpen, allOpen_fresh]
  · intro h; simp [rinit, rootClosed] at h
  · intro id hid; simp [rinit, closedOwned, closedOwned_fresh] at hid

theorem RInv_rclose (s : RState) (h : RInv s) : RInv (rclose s) := by
  by_cases hc : rootClosed s.root = true
  · simpa [rclose, hc] using h
  · obtain ⟨c, p, file, cf, kids, hs⟩ := h.single
    have hcl : rootClosed (rclose s).root = true := rootClosed_rclose s h.nonempty
    have hroot : (rclose s).root = closeAll s.root := by simp [rclose, hc]
    have hfiles : (rclose s).files = closeFiles s.files (toClose s.root) := by simp [rclose, hc]
    have htemp : (rclose s).temp = s.temp.map (fun _ => false) := by simp [rclose, hc]
    refine ⟨?_, ?_, ?_, ?_, ?_, ?_⟩
    · rw [hroot, hs]; cases c <;> simp [closeAll]
    · rw [hroot, hs]; cases c <;> simp [closeAll]
    · rw [hroot]; exact (closeAll_good _ h.good).1
    · intro h'; rw [hcl] at h'; cases h'
    · intro _; rw [htemp]; simp
    · intro id hid
      rw [hroot] at hid; rw [hfiles]
      rcases closedOwned_closeAll _ id hid with h1 | h1
      · exact closeFiles_mono _ _ _ (h.filesClosed id h1)
      · exact closeFiles_of_mem _ _ _ h1

theorem RInv_step (s : RState) (op : ROp) (h : RInv s) : RInv (rstep s op).1 := by
  unfold rstep
  by_cases hg : s.gone = true
  · simpa [hg] using h
  · cases op <;> simp only [hg, Bool.false_eq_true, ↓reduceIte]
    · exact h
    · exact RInv_rclose s h
    · exact RInv_rclose s h
    · exact RInv_rclose s h
    · have := RInv_rclose s h
      exact ⟨this.nonempty, this.single, this.good, this.openAll, this.tempGone, this.filesClosed⟩

theorem RInv_run (s : RState) (ops : List ROp) (h : RInv s) : RInv (rrun s ops) := by
  induction ops generalizing s with
  | nil => exact h
  | cons op ops ih => exact ih _ (RInv_step s op h)

section Reachable
variable (p : Bool) (file : Option Nat) (cf : Bool) (kids : Forest) (nf nt : Nat) (ops : List ROp)

/-- before any close, a freshly built reader / segment returns data -/
theorem r_read_ok_before_close (hopen : rootClosed (rrun (rinit p file cf kids nf nt) ops).root = false)
    (hg : (rrun (rinit p file cf kids nf nt) ops).gone = false) :
    rstep (rrun (rinit p file cf kids nf nt) ops) (.read none) = (rrun (rinit p file cf kids nf nt) ops, .ok) := by
  have inv := RInv_run _ ops (RInv_init p file cf kids nf nt)
  obtain ⟨c, p', file', cf', kids', hs⟩ := inv.single
  have ho := (inv.openAll hopen).1
  rw [hs] at ho hopen
  simp [rootClosed] at hopen
  simp [allOpen] at ho
  simp [rstep, hg, hs, readable, hopen, ho]

/-- **temp files are removed once closed**, whatever the history -/
theorem r_temp_files_removed (hc : rootClosed (rrun (rinit p file cf kids nf nt) ops).root = true) :
    (rrun (rinit p file cf kids nf nt) ops).temp.all (fun b => !b) = true :=
  (RInv_run _ ops (RInv_init p file cf kids nf nt)).tempGone hc

/-- ... and they are all still there while the reader is open -/
theorem r_temp_files_kept_while_open (hc : rootClosed (rrun (rinit p file cf kids nf nt) ops).root = false) :
    (rrun (rinit p file cf kids nf nt) ops).temp.all id = true :=
  ((RInv_run _ ops (RInv_init p file cf kids nf nt)).openAll hc).2

/-- **close propagates**: once the root is closed every object it reaches through
    `close_segments` / `close_parent` / `close_children` is closed -/
theorem r_reached_objects_closed (hc : rootClosed (rrun (rinit p file cf kids nf nt) ops).root = true) :
    reachClosed (rrun (rinit p file cf kids nf nt) ops).root = true := by
  have inv := RInv_run _ ops (RInv_init p file cf kids nf nt)
  obtain ⟨c, p', file', cf', kids', hs⟩ := inv.single
  have hg := inv.good
  rw [hs] at hg hc ⊢
  simp [rootClosed] at hc
  subst hc
  cases p' <;> simp_all [good, reachClosed]

/-- **files the machine was given ownership of are closed after close** -/
theorem r_owned_files_closed (hc : rootClosed (rrun (rinit p file cf kids nf nt) ops).root = true) :
    ∀ id ∈ reachOwned (rrun (rinit p file cf kids nf nt) ops).root,
      (rrun (rinit p file cf kids nf nt) ops).files[id]? ≠ some true := by
  intro id hid
  have inv := RInv_run _ ops (RInv_init p file cf kids nf nt)
  exact inv.filesClosed id (reachOwned_sub_closedOwned _ (r_reached_objects_closed p file cf kids nf nt ops hc) id hid)

end Reachable

theorem owned_rstep (s : RState) (op : ROp) : owned (rstep s op).1.root = owned s.root := by
  unfold rstep
  by_cases hg : s.gone = true
  · simp [hg]
  · cases op <;> simp only [hg, Bool.false_eq_true, ↓reduceIte]
    all_goals (unfold rclose; split <;> simp [owned_closeAll])

theorem files_rstep (s : RState) (op : ROp) (id : Nat) (h : id ∉ owned s.root) :
    (rstep s op).1.files[id]? = s.files[id]? := by
  have hn : id ∉ toClose s.root := fun hm => h (toClose_sub_owned _ id hm)
  unfold rstep
  by_cases hg : s.gone = true
  · simp [hg]
  · cases op <;> simp only [hg, Bool.false_eq_true, ↓reduceIte]
    all_goals (unfold rclose; split <;> simp [closeFiles_get_of_not_mem _ _ _ hn])

/-- **a file object of the caller is never closed by the machine**: a file object that no segment
    was given ownership of (`close_file=False` everywhere) keeps its state through every history,
    from every state -/
theorem r_caller_file_untouched (s : RState) (ops : List ROp) (id : Nat) (h : id ∉ owned s.root) :
    (rrun s ops).files[id]? = s.files[id]? := by
  induction ops generalizing s with
  | nil => rfl
  | cons op ops ih =>
    simp only [rrun]
    rw [ih (rstep s op).1 (by rw [owned_rstep]; exact h), files_rstep s op id h]

/-! ### satisfiable instances (reader over two segments: an owned-file leaf and a subset, whose
    `close_parent=False`, over a caller-file leaf; two temp files) -/

def exKids : Forest :=
  .cons false true (some 0) true .nil (.cons false false none false (.cons false true (some 1) true .nil .nil) .nil)
def exS : RState := rinit true none false exKids 2 2

example : (rrun exS [.read (some 0), .close]).temp = [false, false] := by decide
example : (rrun exS [.read (some 0), .close]).files = [false, true] := by decide
example : flags (rrun exS [.close]).root = [true, true, true, false] := by decide
example : routs exS [.read (some 1), .close, .close, .read (some 1), .exit, .del, .read none] =
    [.ok, .ok, .ok, .refused, .ok, .ok, .gone] := by decide
example : rootClosed (rrun exS [.exitErr]).root = true ∧ reachOwned (rrun exS [.exitErr]).root = [0] := by decide
example : (1 : Nat) ∉ owned (rinit true none false
    (.cons false true (some 0) true .nil (.cons false true (some 1) false .nil .nil)) 2 0).root := by decide

/-! ## (b) writers -/

theorem wclose_idem (s : WState) : wclose (wclose s) = wclose s := by
  unfold wclose
  by_cases h : s.closed = true <;> simp [h]

theorem wclose_gone (s : WState) : (wclose s).gone = s.gone := by
  unfold wclose; split <;> rfl

/-- **close is idempotent** -/
theorem w_close_idempotent (s : WState) :
    wstep (wstep s .close).1 .close = ((wstep s .close).1, (wstep s .close).2) := by
  unfold wstep
  by_cases hg : s.gone = true
  · simp [hg]
  · simp [hg, wclose_gone, wclose_idem]

/-- **context exit performs close** -/
theorem w_exit_is_close (s : WState) :
    wstep s .exit = wstep s .close ∧ wstep s .exitErr = wstep s .close := by
  unfold wstep; split <;> simp

theorem w_del_is_close (s : WState) (hg : s.gone = false) :
    (wstep s .del).1 = { (wstep s .close).1 with gone := true } := by
  simp [wstep, hg]

theorem w_closed_after_close (s : WState) (hg : s.gone = false) : (wstep s .close).1.closed = true := by
  simp only [wstep, hg, Bool.false_eq_true, ↓reduceIte]
  unfold wclose; split <;> simp_all

/-- **after close, write and flush raise and leave the state (segments, delivered bytes, file) unchanged** -/
theorem w_use_after_close (s : WState) (hc : s.closed = true) (hg : s.gone = false) :
    (∀ i r0 n, wstep s (.write i r0 n) = (s, .refused)) ∧ wstep s .flush = (s, .refused) := by
  simp [wstep, hc, hg]

theorem wstep_closed (s : WState) (op : WOp) (hc : s.closed = true) :
    (wstep s op).1 = s ∨ (wstep s op).1 = { s with gone := true } := by
  unfold wstep
  by_cases hg : s.gone = true
  · simp [hg]
  · cases op <;> simp [hg, wclose, hc]

def isUse : WOp → Bool
  | .write _ _ _ => true
  | .flush => true
  | _ => false

/-- **use after close, for every history** -/
theorem w_use_after_close_history (s : WState) (ops : List WOp) (hc : s.closed = true) :
    (wrun s ops).segs = s.segs ∧ (wrun s ops).fileOpen = s.fileOpen ∧ (wrun s ops).closed = true ∧
    ∀ p ∈ List.zip ops (wouts s ops), isUse p.1 = true → p.2 ≠ .ok := by
  induction ops generalizing s with
  | nil => simp [wrun, wouts, hc]
  | cons op ops ih =>
    have hs := wstep_closed s op hc
    have h1 : (wstep s op).1.segs = s.segs := by rcases hs with h | h <;> rw [h]
    have h2 : (wstep s op).1.fileOpen = s.fileOpen := by rcases hs with h | h <;> rw [h]
    have h3 : (wstep s op).1.closed = true := by rcases hs with h | h <;> rw [h] <;> exact hc
    have ih' := ih (wstep s op).1 h3
    refine ⟨by simp [wrun, ih'.1, h1], by simp [wrun, ih'.2.1, h2], by simp [wrun, ih'.2.2.1], ?_⟩
    intro p hp hu
    simp only [wouts, List.zip_cons_cons, List.mem_cons] at hp
    rcases hp with rfl | hp
    · simp only
      unfold wstep
      by_cases hg : s.gone = true
      · simp [hg]
      · cases op <;> simp [isUse] at hu <;> simp [hg, hc]
    · exact ih'.2.2.2 p hp hu

theorem wstep_owns (s : WState) (op : WOp) : (wstep s op).1.owns = s.owns := by
  unfold wstep
  by_cases hg : s.gone = true
  · simp [hg]
  · cases op <;> simp only [hg, Bool.false_eq_true, ↓reduceIte]
    · split
      · rfl
      · split
        · rfl
        · split <;> rfl
    · split <;> rfl
    all_goals (unfold wclose; split <;> rfl)

theorem wstep_fileOpen_caller (s : WState) (op : WOp) (h : s.owns = false) :
    (wstep s op).1.fileOpen = s.fileOpen := by
  unfold wstep
  by_cases hg : s.gone = true
  · simp [hg]
  · cases op <;> simp only [hg, Bool.false_eq_true, ↓reduceIte]
    · split
      · rfl
      · split
        · rfl
        · split <;> rfl
    · split <;> rfl
    all_goals (unfold wclose; split <;> simp [h])

/-- **a caller-supplied file object is never closed by the machine**, for every history from every state -/
theorem w_caller_file_never_closed (s : WState) (ops : List WOp) (h : s.owns = false) :
    (wrun s ops).fileOpen = s.fileOpen := by
  induction ops generalizing s with
  | nil => rfl
  | cons op ops ih =>
    simp only [wrun]
    rw [ih _ (by rw [wstep_owns]; exact h), wstep_fileOpen_caller s op h]

/-- invariant: (i) a closed writer that opened its file has closed it, (ii) a closed writer has handed
    every segment to the target -/
def WInv (s : WState) : Prop :=
  s.closed = true → ((s.owns = true → s.fileOpen = false) ∧ ∀ g ∈ s.segs, g.handed = true)

theorem hand_handed (g : Seg) : g.hand.handed = true := by
  unfold Seg.hand; split <;> simp_all

theorem WInv_wclose (s : WState) (h : WInv s) : WInv (wclose s) := by
  unfold wclose
  by_cases hc : s.closed = true
  · simpa [hc] using h
  · simp only [hc, Bool.false_eq_true, ↓reduceIte]
    intro _
    refine ⟨by intro ho; have ho' : s.owns = true := ho; simp [ho'], ?_⟩
    intro g hg
    simp only [List.mem_map] at hg
    obtain ⟨g0, _, rfl⟩ := hg
    exact hand_handed g0

theorem WInv_step (s : WState) (op : WOp) (h : WInv s) : WInv (wstep s op).1 := by
  unfold wstep
  by_cases hg : s.gone = true
  · simpa [hg] using h
  · cases op <;> simp only [hg, Bool.false_eq_true, ↓reduceIte]
    · by_cases hc : s.closed = true
      · simpa [hc] using h
      · simp only [hc, Bool.false_eq_true, ↓reduceIte]
        split
        · exact h
        · split
          · intro hc'; simp at hc'
          · exact h
    · by_cases hc : s.closed = true
      · simpa [hc] using h
      · simp only [hc, Bool.false_eq_true, ↓reduceIte]
        intro hc'; simp at hc'
    · exact WInv_wclose s h
    · exact WInv_wclose s h
    · exact WInv_wclose s h
    · exact WInv_wclose s h

theorem WInv_run (s : WState) (ops : List WOp) (h : WInv s) : WInv (wrun s ops) := by
  induction ops generalizing s with
  | nil => exact h
  | cons op ops ih => exact ih _ (WInv_step s op h)

theorem WInv_init (c : WCfg) (s : WState) (h : winit c = some s) : WInv s := by
  have : s.closed = false := by
    unfold winit at h
    split at h
    · split at h
      · cases h
      · cases h; rfl
    · cases h; rfl
    · cases h; rfl
  intro hc; rw [this] at hc; cases hc

/-- **files the writer opened itself are closed after close** -/
theorem w_owned_file_closed (c : WCfg) (s : WState) (h : winit c = some s) (ops : List WOp)
    (hc : (wrun s ops).closed = true) (ho : (wrun s ops).owns = true) : (wrun s ops).fileOpen = false :=
  ((WInv_run s ops (WInv_init c s h)) hc).1 ho

/-- a path target is owned, a caller's object is not -/
theorem w_owns_iff_path (c : WCfg) (s : WState) (h : winit c = some s) :
    s.owns = true ↔ ∃ ex, c.target = .path ex := by
  unfold winit at h
  split at h
  · rename_i ex heq
    split at h
    · cases h
    · cases h; simp [heq]
  · rename_i heq; cases h; simp [heq]
  · rename_i heq; cases h; simp [heq]

/-- the target region of every segment always has the full declared length -/
def lenOK (g : Seg) : Prop := g.deliv.length = g.rows.length

theorem lenOK_write (inMem : Bool) (g : Seg) (r0 n : Nat) (h : lenOK g) : lenOK (g.write inMem r0 n) := by
  unfold lenOK Seg.write at *
  cases inMem <;> simp [setRange_length, h]

theorem lenOK_hand (g : Seg) (h : lenOK g) : lenOK g.hand := by
  unfold lenOK Seg.hand at *
  split <;> simp_all

theorem mem_modifyAt (l : List Seg) (i : Nat) (f : Seg → Seg) (g : Seg) (h : g ∈ modifyAt l i f) :
    g ∈ l ∨ ∃ g0 ∈ l, g = f g0 := by
  induction l generalizing i with
  | nil => simp [modifyAt] at h
  | cons a l ih =>
    cases i with
    | zero =>
      simp only [modifyAt, List.mem_cons] at h
      rcases h with rfl | h
      · exact Or.inr ⟨a, by simp, rfl⟩
      · exact Or.inl (by simp [h])
    | succ i =>
      simp only [modifyAt, List.mem_cons] at h
      rcases h with rfl | h
      · exact Or.inl (by simp)
      · rcases ih i h with h | ⟨g0, hg0, e⟩
        · exact Or.inl (by simp [h])
        · exact Or.inr ⟨g0, by simp [hg0], e⟩

/-- a property of single segments that `write`, `hand` preserve is preserved by every step -/
theorem segs_step (P : Seg → Prop) (s : WState) (op : WOp)
    (hw : ∀ g r0 n, P g → P (g.write s.inMem r0 n)) (hh : ∀ g, P g → P g.hand)
    (h : ∀ g ∈ s.segs, P g) : ∀ g ∈ (wstep s op).1.segs, P g := by
  unfold wstep
  by_cases hg : s.gone = true
  · simpa [hg] using h
  · have hcl : ∀ g ∈ (wclose s).segs, P g := by
      unfold wclose
      split
      · exact h
      · intro g hg
        simp only [List.mem_map] at hg
        obtain ⟨g0, hg0, rfl⟩ := hg
        exact hh g0 (h g0 hg0)
    cases op <;> simp only [hg, Bool.false_eq_true, ↓reduceIte]
    · split
      · exact h
      · split
        · exact h
        · split
          · intro g hgm
            rcases mem_modifyAt _ _ _ g hgm with h1 | ⟨g0, hg0, rfl⟩
            · exact h g h1
            · exact hw g0 _ _ (h g0 hg0)
          · exact h
    · split
      · exact h
      · intro g hgm
        simp only [flushSegs, List.mem_map] at hgm
        obtain ⟨g0, hg0, rfl⟩ := hgm
        split
        · exact hh g0 (h g0 hg0)
        · exact h g0 hg0
    · exact hcl
    · exact hcl
    · exact hcl
    · exact hcl

theorem wstep_inMem (s : WState) (op : WOp) : (wstep s op).1.inMem = s.inMem := by
  unfold wstep
  by_cases hg : s.gone = true
  · simp [hg]
  · cases op <;> simp only [hg, Bool.false_eq_true, ↓reduceIte]
    · split
      · rfl
      · split
        · rfl
        · split <;> rfl
    · split <;> rfl
    all_goals (unfold wclose; split <;> rfl)

theorem lenOK_run (s : WState) (ops : List WOp) (h : ∀ g ∈ s.segs, lenOK g) :
    ∀ g ∈ (wrun s ops).segs, lenOK g := by
  induction ops generalizing s with
  | nil => exact h
  | cons op ops ih =>
    exact ih _ (segs_step lenOK s op (fun g r0 n => lenOK_write _ g r0 n) lenOK_hand h)

theorem init_segs (c : WCfg) (s : WState) (h : winit c = some s) :
    ∃ real, s.segs = c.shapes.map (mkSeg real) ∧ (real = !s.inMem) := by
  unfold winit at h
  split at h
  · split at h
    · cases h
    · cases h; exact ⟨true, rfl, rfl⟩
  · cases h; exact ⟨false, rfl, rfl⟩
  · cases h; exact ⟨true, rfl, rfl⟩

/-- **a writer closed at any point — complete or not — leaves a container of the full declared
    size**: every segment has been handed to the target and its region has the declared length -/
theorem w_closed_full_size (c : WCfg) (s : WState) (h : winit c = some s) (ops : List WOp)
    (hc : (wrun s ops).closed = true) :
    ∀ g ∈ (wrun s ops).segs, g.handed = true ∧ g.deliv.length = g.rows.length := by
  intro g hg
  refine ⟨((WInv_run s ops (WInv_init c s h)) hc).2 g hg, ?_⟩
  apply lenOK_run s ops _ g hg
  obtain ⟨real, hs, _⟩ := init_segs c s h
  intro g hg
  rw [hs] at hg
  simp only [List.mem_map] at hg
  obtain ⟨sh, _, rfl⟩ := hg
  simp [lenOK, mkSeg]

/-- **an existing path is refused unless the check is disabled** (and nothing else is refused) -/
theorem w_existing_path_refused_unless_disabled (c : WCfg) :
    winit c = none ↔ (c.target = .path true ∧ c.check = true) := by
  unfold winit
  cases ht : c.target with
  | path ex => cases ex <;> cases hck : c.check <;> simp
  | callerMem => simp
  | callerReal => simp

/-- an existing file is only ever truncated when the caller disabled the check -/
theorem w_clobber_only_if_disabled (c : WCfg) (s : WState) (h : winit c = some s) (ops : List WOp)
    (hcl : (wrun s ops).clobbered = true) : c.check = false ∧ c.target = .path true := by
  have hk : ∀ (s : WState) (op : WOp), (wstep s op).1.clobbered = s.clobbered := by
    intro s op
    unfold wstep
    by_cases hg : s.gone = true
    · simp [hg]
    · cases op <;> simp only [hg, Bool.false_eq_true, ↓reduceIte]
      · split
        · rfl
        · split
          · rfl
          · split <;> rfl
      · split <;> rfl
      all_goals (unfold wclose; split <;> rfl)
  have hr : ∀ (ops : List WOp) (s : WState), (wrun s ops).clobbered = s.clobbered := by
    intro ops
    induction ops with
    | nil => intro s; rfl
    | cons op ops ih => intro s; simp only [wrun]; rw [ih, hk]
  rw [hr] at hcl
  unfold winit at h
  cases ht : c.target with
  | path ex =>
    rw [ht] at h
    cases ex <;> cases hck : c.check <;> simp [hck] at h <;> (subst h; simp_all)
  | callerMem => rw [ht] at h; simp at h; subst h; simp at hcl
  | callerReal => rw [ht] at h; simp at h; subst h; simp at hcl

/-! ### accounting, for histories that never rewrite a row -/

/-- per-segment invariant of rewrite-free histories -/
structure SegInv (inMem closed : Bool) (g : Seg) : Prop where
  cols_pos : 0 < g.cols
  count_eq : g.count = cnt g.rows * g.cols
  deliv_eq : g.handed = true → g.deliv = g.rows
  full : inMem = true → g.handed = true → closed = false → cnt g.rows = g.rows.length

theorem claims_iff (g : Seg) (hc : 0 < g.cols) (he : g.count = cnt g.rows * g.cols) :
    g.claims = g.complete := by
  have hle := cnt_le g.rows
  have hiff := cnt_eq_length_iff g.rows
  unfold Seg.claims Seg.complete Seg.expected
  rw [he]
  by_cases h : cnt g.rows = g.rows.length
  · rw [hiff.1 h, h]; simp [Nat.mul_comm]
  · have h2 : ¬ (g.rows.all id = true) := fun hh => h (hiff.2 hh)
    have h3 : (cnt g.rows * g.cols == g.cols * g.rows.length) = false := by
      rw [beq_eq_false_iff_ne]
      intro e
      rw [Nat.mul_comm g.cols] at e
      exact h (Nat.eq_of_mul_eq_mul_right hc e)
    rw [h3]; simpa using h2

theorem cnt_replicate_false (n : Nat) : cnt (List.replicate n false) = 0 := by
  induction n with
  | zero => rfl
  | succ n ih => simp [List.replicate_succ, cnt, ih]

theorem SegInv_write (inMem : Bool) (g : Seg) (r0 n : Nat) (h : SegInv inMem false g)
    (hv : g.valid r0 n = true) (hf : freshRange g.rows r0 n = true) :
    SegInv inMem false (g.write inMem r0 n) := by
  have hn : 1 ≤ n := by
    unfold Seg.valid at hv
    simp only [Bool.and_eq_true, decide_eq_true_eq] at hv
    exact hv.1
  obtain ⟨m, rfl⟩ : ∃ m, n = m + 1 := ⟨n - 1, by omega⟩
  have hnofull : ¬ (cnt g.rows = g.rows.length) := by
    intro e
    rw [not_fresh_of_full g.rows r0 m e] at hf
    cases hf
  refine ⟨h.cols_pos, ?_, ?_, ?_⟩
  · show g.count + (m + 1) * g.cols = cnt (setRange g.rows r0 (m + 1)) * g.cols
    rw [cnt_setRange_fresh _ _ _ hf, h.count_eq]
    exact (Nat.add_mul _ _ _).symm
  · intro hh
    have hh' : g.handed = true := hh
    cases inMem
    · show setRange g.deliv r0 (m + 1) = setRange g.rows r0 (m + 1)
      rw [h.deliv_eq hh']
    · exact absurd (h.full rfl hh' rfl) hnofull
  · intro hm hh _
    have hh' : g.handed = true := hh
    exact absurd (h.full hm hh' rfl) hnofull

theorem SegInv_hand_closed (inMem c : Bool) (g : Seg) (h : SegInv inMem c g) : SegInv inMem true g.hand := by
  by_cases hh : g.handed = true
  · have e : g.hand = g := by simp [Seg.hand, hh]
    rw [e]
    exact ⟨h.cols_pos, h.count_eq, h.deliv_eq, by intro _ _ hc; cases hc⟩
  · have e : g.hand = { g with deliv := g.rows, handed := true } := by simp [Seg.hand, hh]
    rw [e]
    exact ⟨h.cols_pos, h.count_eq, by intro _; rfl, by intro _ _ hc; cases hc⟩

theorem SegInv_flush (inMem : Bool) (g : Seg) (h : SegInv inMem false g) :
    SegInv inMem false (if g.claims = true then g.hand else g) := by
  split
  · rename_i hcl
    by_cases hh : g.handed = true
    · have e : g.hand = g := by simp [Seg.hand, hh]
      rw [e]; exact h
    · have e : g.hand = { g with deliv := g.rows, handed := true } := by simp [Seg.hand, hh]
      rw [e]
      refine ⟨h.cols_pos, h.count_eq, by intro _; rfl, ?_⟩
      intro _ _ _
      show cnt g.rows = g.rows.length
      have := claims_iff g h.cols_pos h.count_eq
      rw [hcl] at this
      exact (cnt_eq_length_iff g.rows).2 this.symm
  · exact h

/-- the accounting invariant of a writer state -/
def AInv (s : WState) : Prop := ∀ g ∈ s.segs, SegInv s.inMem s.closed g

theorem mem_modifyAt' (l : List Seg) (i : Nat) (f : Seg → Seg) (g : Seg) (h : g ∈ modifyAt l i f) :
    g ∈ l ∨ ∃ g0, l[i]? = some g0 ∧ g = f g0 := by
  induction l generalizing i with
  | nil => simp [modifyAt] at h
  | cons a l ih =>
    cases i with
    | zero =>
      simp only [modifyAt, List.mem_cons] at h
      rcases h with rfl | h
      · exact Or.inr ⟨a, by simp, rfl⟩
      · exact Or.inl (by simp [h])
    | succ i =>
      simp only [modifyAt, List.mem_cons] at h
      rcases h with rfl | h
      · exact Or.inl (by simp)
      · rcases ih i h with h | ⟨g0, hg0, e⟩
        · exact Or.inl (by simp [h])
        · exact Or.inr ⟨g0, by simpa using hg0, e⟩

theorem AInv_wclose (s : WState) (h : AInv s) : AInv (wclose s) := by
  unfold wclose
  by_cases hc : s.closed = true
  · simpa [hc] using h
  · simp only [hc, Bool.false_eq_true, ↓reduceIte]
    intro g hg
    simp only [List.mem_map] at hg
    obtain ⟨g0, hg0, rfl⟩ := hg
    exact SegInv_hand_closed s.inMem s.closed g0 (h g0 hg0)

theorem AInv_step (s : WState) (op : WOp) (hf : freshOp s op = true) (h : AInv s) : AInv (wstep s op).1 := by
  unfold wstep
  by_cases hg : s.gone = true
  · simpa [hg] using h
  · cases op <;> simp only [hg, Bool.false_eq_true, ↓reduceIte]
    · rename_i i r0 n
      by_cases hc : s.closed = true
      · simpa [hc] using h
      · simp only [hc, Bool.false_eq_true, ↓reduceIte]
        cases hi : s.segs[i]? with
        | none => exact h
        | some g0 =>
          simp only
          by_cases hv : g0.valid r0 n = true
          · simp only [hv, ↓reduceIte]
            have hfr : freshRange g0.rows r0 n = true := by
              simp only [freshOp, hi] at hf
              have hcf : s.closed = false := by simpa using hc
              have hgf : s.gone = false := by simpa using hg
              simpa [hcf, hgf, hv] using hf
            have hcf : s.closed = false := by simpa using hc
            intro g hgm
            show SegInv s.inMem false g
            rcases mem_modifyAt' _ _ _ g hgm with h1 | ⟨g1, hg1, rfl⟩
            · have := h g h1
              rw [hcf] at this
              exact this
            · rw [hi] at hg1
              cases hg1
              have hin : g0 ∈ s.segs := List.mem_of_getElem? hi
              have := h g0 hin
              rw [hcf] at this
              exact SegInv_write s.inMem g0 r0 n this hv hfr
          · simp only [hv, Bool.false_eq_true, ↓reduceIte]
            exact h
    · by_cases hc : s.closed = true
      · simpa [hc] using h
      · simp only [hc, Bool.false_eq_true, ↓reduceIte]
        have hcf : s.closed = false := by simpa using hc
        intro g hgm
        show SegInv s.inMem false g
        simp only [flushSegs, List.mem_map] at hgm
        obtain ⟨g0, hg0, rfl⟩ := hgm
        have := h g0 hg0
        rw [hcf] at this
        exact SegInv_flush s.inMem g0 this
    · exact AInv_wclose s h
    · exact AInv_wclose s h
    · exact AInv_wclose s h
    · have := AInv_wclose s h
      exact this

theorem AInv_run (s : WState) (ops : List WOp) (hf : freshRun s ops = true) (h : AInv s) : AInv (wrun s ops) := by
  induction ops generalizing s with
  | nil => exact h
  | cons op ops ih =>
    simp only [freshRun, Bool.and_eq_true] at hf
    exact ih _ hf.2 (AInv_step s op hf.1 h)

theorem AInv_init (c : WCfg) (s : WState) (h : winit c = some s) (hpos : ∀ sh ∈ c.shapes, 0 < sh.2) : AInv s := by
  obtain ⟨real, hs, hreal⟩ := init_segs c s h
  intro g hg
  rw [hs] at hg
  simp only [List.mem_map] at hg
  obtain ⟨sh, hsh, rfl⟩ := hg
  refine ⟨hpos sh hsh, by simp [mkSeg, cnt_replicate_false], by intro _; rfl, ?_⟩
  intro hm hh _
  simp only [mkSeg] at hh
  rw [hreal, hm] at hh
  cases hh

section Accounting
variable (c : WCfg) (s : WState) (h : winit c = some s) (hpos : ∀ sh ∈ c.shapes, 0 < sh.2)
  (ops : List WOp) (hf : freshRun s ops = true)
include h hpos hf

/-- **accounting** (histories that never rewrite a row): at every point of every history a segment
    claims to be fully written exactly when every one of its rows has been written -/
theorem w_claims_iff_complete_partial : ∀ g ∈ (wrun s ops).segs, g.claims = g.complete := by
  intro g hg
  have inv := AInv_run s ops hf (AInv_init c s h hpos) g hg
  exact claims_iff g inv.cols_pos inv.count_eq

/-- **a writer closed before all pixels were written never reports fully-written** (same hypothesis) -/
theorem w_incomplete_never_claims_written_partial :
    ∀ g ∈ (wrun s ops).segs, g.complete = false → g.claims = false := by
  intro g hg hc
  rw [w_claims_iff_complete_partial c s h hpos ops hf g hg]; exact hc

/-- **a caller-supplied file object holds the complete output after close when all pixels were
    written, and is still open** (same hypothesis) -/
theorem w_caller_file_complete_partial (hc : (wrun s ops).closed = true)
    (hall : ∀ g ∈ (wrun s ops).segs, g.complete = true) :
    (∀ g ∈ (wrun s ops).segs, g.delivered = true) ∧ (s.owns = false → (wrun s ops).fileOpen = true) := by
  refine ⟨?_, ?_⟩
  · intro g hg
    have inv := AInv_run s ops hf (AInv_init c s h hpos) g hg
    have hh := ((WInv_run s ops (WInv_init c s h)) hc).2 g hg
    unfold Seg.delivered
    rw [inv.deliv_eq hh]
    exact hall g hg
  · intro ho
    rw [w_caller_file_never_closed s ops ho]
    unfold winit at h
    split at h
    · split at h
      · cases h
      · cases h; rfl
    · cases h; rfl
    · cases h; rfl

end Accounting

/-! ### satisfiable instances and the negation witness -/

def exCfg : WCfg := { target := .callerMem, check := true, shapes := [(2, 3), (1, 4)] }
def exW : WState := (winit exCfg).getD default

example : winit exCfg = some exW := by decide
example : ∀ sh ∈ exCfg.shapes, 0 < sh.2 := by decide
/-- a complete, rewrite-free history with an early flush: everything delivered, caller file open -/
example : freshRun exW [.write 0 1 1, .flush, .write 1 0 1, .write 0 0 1, .close, .close] = true := by decide
example : let s := wrun exW [.write 0 1 1, .flush, .write 1 0 1, .write 0 0 1, .close, .close]
    s.closed = true ∧ s.fileOpen = true ∧ s.segs.all Seg.delivered = true ∧ s.segs.all Seg.claims = true := by decide
/-- an incomplete history: closed, full size, nothing claims, caller file open -/
example : let s := wrun exW [.write 0 1 1, .flush, .exit, .write 0 0 1]
    s.closed = true ∧ s.fileOpen = true ∧ s.segs.all (fun g => g.handed && !g.claims) = true ∧
    wouts exW [.write 0 1 1, .flush, .exit, .write 0 0 1] = [.ok, .ok, .ok, .refused] := by decide
/-- a path target: owned, closed by close; an existing path is refused / truncated per the option -/
example : (winit { target := .path true, check := true, shapes := [(2, 3)] }) = none := by decide
example : ((winit { target := .path true, check := false, shapes := [(2, 3)] }).map
    (fun s => (s.clobbered, (wrun s [.write 0 0 2, .del]).fileOpen))) = some (true, false) := by decide

/-- **negation witness** for the clause without the no-rewrite hypothesis: writing the first row of a
    two-row segment twice makes sarpy's pixel counter reach the expected total, so the segment claims
    to be fully written although the second row never was (the harness replays this history on the
    real writers; key `fully-written-claim-counts-rewritten-pixels`) -/
theorem claims_without_fresh_is_false :
    ¬ (∀ ops : List WOp, ∀ g ∈ (wrun exW ops).segs, g.complete = false → g.claims = false) := by
  intro hall
  have := hall [.write 0 0 1, .write 0 0 1, .close] (wrun exW [.write 0 0 1, .write 0 0 1, .close]).segs[0]! (by decide) (by decide)
  revert this
  decide

end Sarpy.Props.C19
