/-
  C01Nitf, part 0: list / array lemmas for the NITF assembly proofs: the nested block loops as one indexed list, the mosaic of a
  list of blocks evaluated pointwise (`fullOnto_mkBlks`: the last block that contains the point wins, else the canvas), children
  lists, identity orientation of a stored block.
-/
import SarpyModel.Spec.NitfAssembly
import SarpyModel.Props.C01Seg

namespace Sarpy.Props.C01.Nitf
open Sarpy Sarpy.Spec Sarpy.Spec.NitfAssembly Sarpy.Props.C01Seg

/-! ### the nested loops of `_construct_block_bounds` -/

theorem flatMap_range_map {β : Type} (f : Nat → Nat → β) (a b : Nat) :
    (List.range a).flatMap (fun r => (List.range b).map (f r)) = (List.range (a * b)).map (fun k => f (k / b) (k % b)) := by
  induction a with
  | zero => simp
  | succ a ih =>
    rw [List.range_succ, List.flatMap_append, ih, Nat.succ_mul, List.range_add, List.map_append]
    congr 1
    simp only [List.flatMap_cons, List.flatMap_nil, List.append_nil, List.map_map]
    apply List.map_congr_left
    intro j hj
    have hj' : j < b := List.mem_range.1 hj
    have hb : 0 < b := by omega
    simp only [Function.comp]
    rw [Nat.mul_comm a b, Nat.mul_add_div hb, Nat.mul_add_mod, Nat.div_eq_of_lt hj', Nat.mod_eq_of_lt hj']
    simp

/-- block number `k` (row-major over the grid) is the block in block row `k / NBPR`, block column `k % NBPR` -/
theorem bounds_eq (h : ImageHeaderFields) :
    bounds h = (List.range (h.nbpc * h.nbpr)).map (fun k => bnd h (k / h.nbpr) (k % h.nbpr)) := by
  unfold bounds
  exact flatMap_range_map (fun rb cb => bnd h rb cb) h.nbpc h.nbpr

theorem bounds_length (h : ImageHeaderFields) : (bounds h).length = h.nbpc * h.nbpr := by
  rw [bounds_eq]; simp

section
variable {α : Type} [Pairing α] (L : Nat → List Int → α) (F : α)

/-! ### mosaics -/

/-- the mosaic of a list of blocks, pointwise: the LAST block whose box contains the point shows, else the canvas -/
theorem fullOnto_mkBlks : ∀ (l : List (List (Int × Int) × Seg)) (acc : Arr α) (pt : Idx),
    ((mkBlks l).fullOnto L F acc).get pt =
      match l.reverse.find? (fun e => inBox e.1 pt) with
      | some e => (e.2.full L F).get (boxLo e.1 pt)
      | none => acc.get pt
  | [], acc, pt => by simp [mkBlks, Blks.fullOnto]
  | e :: r, acc, pt => by
    simp only [mkBlks, Blks.fullOnto]
    rw [fullOnto_mkBlks r (acc.paste e.1 (e.2.full L F)) pt, List.reverse_cons, List.find?_append]
    cases hr : r.reverse.find? (fun e => inBox e.1 pt) with
    | some e' => simp
    | none =>
      simp only [Option.none_or, List.find?_cons, List.find?_nil]
      show (if inBox e.1 pt then (e.2.full L F).get (boxLo e.1 pt) else acc.get pt) = _
      cases hb : inBox e.1 pt <;> simp

/-- when at most one block can contain the point: that block shows if it is in the list -/
theorem fullOnto_unique (l : List (List (Int × Int) × Seg)) (acc : Arr α) (pt : Idx) (e : List (Int × Int) × Seg)
    (hmem : e ∈ l) (hin : inBox e.1 pt = true) (huniq : ∀ e' ∈ l, inBox e'.1 pt = true → e' = e) :
    ((mkBlks l).fullOnto L F acc).get pt = (e.2.full L F).get (boxLo e.1 pt) := by
  rw [fullOnto_mkBlks]
  cases hf : l.reverse.find? (fun e => inBox e.1 pt) with
  | some e' =>
    have h1 := List.find?_some hf
    have h2 := List.mem_of_find?_eq_some hf
    rw [huniq e' (List.mem_reverse.1 h2) h1]
  | none =>
    have := List.find?_eq_none.1 hf e (List.mem_reverse.2 hmem)
    simp [hin] at this

/-- when no block contains the point the canvas shows -/
theorem fullOnto_none (l : List (List (Int × Int) × Seg)) (acc : Arr α) (pt : Idx)
    (hno : ∀ e ∈ l, inBox e.1 pt = false) :
    ((mkBlks l).fullOnto L F acc).get pt = acc.get pt := by
  rw [fullOnto_mkBlks]
  cases hf : l.reverse.find? (fun e => inBox e.1 pt) with
  | some e' =>
    have h1 := List.find?_some hf
    have h2 := List.mem_of_find?_eq_some hf
    rw [hno e' (List.mem_reverse.1 h2)] at h1
    simp at h1
  | none => rfl

theorem mkSegs_length : ∀ l : List Seg, (mkSegs l).length = l.length
  | [] => rfl
  | _ :: r => by simp [mkSegs, Segs.length, mkSegs_length r]

theorem fullNth_mkSegs : ∀ (l : List Seg) (n : Nat) (hn : n < l.length), (mkSegs l).fullNth L F n = (l[n]).full L F
  | [], n, hn => by simp at hn
  | c :: r, 0, _ => rfl
  | c :: r, n + 1, hn => by
    simp only [mkSegs, Segs.fullNth, List.getElem_cons_succ]
    exact fullNth_mkSegs r n (by simpa using hn)

end

/-! ### well-formedness of children lists -/

theorem mkBlks_wfAll : ∀ (l : List (List (Int × Int) × Seg)) (sh : List Nat),
    (mkBlks l).wfAll sh = l.all (fun e => e.2.wf && boxOK sh e.1 e.2.fshape)
  | [], _ => rfl
  | e :: r, sh => by simp [mkBlks, Blks.wfAll, mkBlks_wfAll r sh, Bool.and_assoc]

theorem mkSegs_wfAll : ∀ (l : List Seg) (sh : List Nat),
    (mkSegs l).wfAll sh = l.all (fun c => c.wf && decide (c.fshape = sh))
  | [], _ => rfl
  | c :: r, sh => by simp [mkSegs, Segs.wfAll, mkSegs_wfAll r sh, Bool.and_assoc]

theorem mkBlks_total : ∀ (l : List (List (Int × Int) × Seg)), (mkBlks l).total = l.all (fun e => e.2.total)
  | [] => rfl
  | e :: r => by simp [mkBlks, Blks.total, mkBlks_total r]

theorem mkSegs_total : ∀ (l : List Seg), (mkSegs l).total = l.all (fun c => c.total)
  | [] => rfl
  | c :: r => by simp [mkSegs, Segs.total, mkSegs_total r]

theorem mkSegs_headShape (c : Seg) (r : List Seg) : (mkSegs (c :: r)).headShape = c.fshape := rfl

theorem mkBlks_leaves : ∀ l : List (List (Int × Int) × Seg), (mkBlks l).leaves = l.flatMap (fun e => e.2.leaves)
  | [] => rfl
  | e :: r => by simp [mkBlks, Blks.leaves, mkBlks_leaves r]

end Sarpy.Props.C01.Nitf

namespace Sarpy.Props.C01.Nitf
open Sarpy Sarpy.Spec Sarpy.Spec.NitfAssembly Sarpy.Props.C01Seg

/-! ### raw layouts: where the row / column / band axes sit -/

theorem lay_cases (bands bd : Nat) :
    bands = 1 ∨ (bands ≠ 1 ∧ bd = 0) ∨ (bands ≠ 1 ∧ bd = 1) ∨ (bands ≠ 1 ∧ bd ≠ 0 ∧ bd ≠ 1) := by omega

def axY (bands bd : Nat) : Nat := if bands = 1 then 0 else if bd = 0 then 1 else 0
def axX (bands bd : Nat) : Nat := if bands = 1 then 1 else if bd = 0 then 2 else if bd = 1 then 2 else 1
def axB (bands bd : Nat) : Nat := if bands = 1 then 2 else if bd = 0 then 0 else if bd = 1 then 1 else 2
def rankOf (bands : Nat) : Nat := if bands = 1 then 2 else 3

theorem getShape_length (r c bands bd : Nat) : (getShape r c bands bd).length = rankOf bands := by
  rcases lay_cases bands bd with h | ⟨h, h'⟩ | ⟨h, h'⟩ | ⟨h, h', h''⟩ <;> simp [getShape, rankOf, *]

theorem count_unit (n : Nat) : (⟨0, some (n : Int), 1⟩ : NSlice).count = n := by
  simp [NSlice.count, cnt]

theorem idxOf_range {n i : Nat} (hi : i < n) : (List.range n).idxOf i = i := by
  have := (List.nodup_range (n := n)).idxOf_getElem i (by simpa using hi)
  simpa using this

theorem invPerm_range {n i : Nat} (hi : i < n) : (invPerm (List.range n)).getD i 0 = i := by
  rw [invPerm_getD]; simp [hi, idxOf_range hi]

theorem gather_range (s : List Nat) : gather (List.range s.length) s = s := by
  apply List.ext_getElem
  · simp [gather]
  · intro i h1 h2
    simp [gather, List.getD_eq_getElem?_getD, h2]

theorem isPerm_range (n : Nat) : isPerm (List.range n) n = true := by
  simp [isPerm, List.nodup_range]

section
variable {α : Type} [Pairing α] (L : Nat → List Int → α) (F : α)

/-- a stored block behind a segment without orientation options: formatted = raw -/
theorem idLeaf_get (mm : Bool) (id : Nat) (s : List Nat) (idx : Idx) :
    ((Seg.orient [] (List.range s.length) (mkLeaf mm id s)).full L F).get idx = L id ((List.range s.length).map idx) := by
  have key : ∀ p : Seg, (p.full L F) = ⟨s, fun idx => L id ((List.range s.length).map idx)⟩ →
      ((Seg.orient [] (List.range s.length) p).full L F).get idx = L id ((List.range s.length).map idx) := by
    intro p hp
    show ((((p.full L F).flip []).transpose (List.range s.length) (invPerm (List.range s.length)))).get idx = _
    rw [hp]
    show L id ((List.range s.length).map (fun i => if i ∈ ([] : List Nat) then _ else idx ((invPerm (List.range s.length)).getD i 0))) = _
    congr 1
    apply List.map_congr_left
    intro i hi
    have hi' := invPerm_range (List.mem_range.1 hi)
    simp only [List.not_mem_nil, if_false, hi']
  cases mm
  · exact key _ rfl
  · exact key _ rfl

end

theorem mkLeaf_fshape (mm : Bool) (id : Nat) (s : List Nat) : (mkLeaf mm id s).fshape = s := by
  cases mm <;> rfl

theorem mkLeaf_wf (mm : Bool) (id : Nat) (s : List Nat) (hs : 0 < s.length) : (mkLeaf mm id s).wf = true := by
  cases mm <;> simp [mkLeaf, Seg.wf, hs]

theorem mkLeaf_leaves (mm : Bool) (id : Nat) (s : List Nat) : (mkLeaf mm id s).leaves = [(id, s)] := by
  cases mm <;> rfl

theorem idLeaf_fshape (mm : Bool) (id : Nat) (s : List Nat) :
    (Seg.orient [] (List.range s.length) (mkLeaf mm id s)).fshape = s := by
  show gather (List.range s.length) (mkLeaf mm id s).fshape = s
  rw [mkLeaf_fshape, gather_range]

theorem idLeaf_wf (mm : Bool) (id : Nat) (s : List Nat) (hs : 0 < s.length) :
    (Seg.orient [] (List.range s.length) (mkLeaf mm id s)).wf = true := by
  simp [Seg.wf, mkLeaf_wf mm id s hs, mkLeaf_fshape, isPerm_range]

end Sarpy.Props.C01.Nitf
