/-
  C01Seg, part 1: one refinement lemma per kind of node, stated on arrays (what lies below the node is any
  array `rd` that is known to equal the selection from `fl`).  `Props/C01Seg.lean` assembles them by induction.
-/
import SarpyModel.Props.C01SegBase

namespace Sarpy.Props.C01Seg
open Sarpy Sarpy.Spec

/-! ### permutations (`transpose_axes`) -/

structure PermOK (perm : List Nat) (nd : Nat) : Prop where
  len : perm.length = nd
  lt : ∀ j, j < nd → perm.getD j 0 < nd
  invlen : (invPerm perm).length = nd
  invlt : ∀ i, i < nd → (invPerm perm).getD i 0 < nd
  pinv : ∀ i, i < nd → perm.getD ((invPerm perm).getD i 0) 0 = i
  invp : ∀ j, j < nd → (invPerm perm).getD (perm.getD j 0) 0 = j

theorem invPerm_getD (perm : List Nat) (i : Nat) :
    (invPerm perm).getD i 0 = if i < perm.length then perm.idxOf i else 0 := by
  unfold invPerm; rw [getD_map_range]

theorem isPerm_ok {perm : List Nat} {nd : Nat} (h : isPerm perm nd = true) : PermOK perm nd := by
  simp only [isPerm, Bool.and_eq_true, decide_eq_true_eq, List.all_eq_true, List.mem_range] at h
  obtain ⟨⟨⟨hl, hlt⟩, hmem⟩, hnd⟩ := h
  have hget : ∀ j (hj : j < nd), perm.getD j 0 = perm[j]'(by omega) := by
    intro j hj; simp [List.getD_eq_getElem?_getD, hl, hj]
  refine ⟨hl, ?_, by simp [invPerm, hl], ?_, ?_, ?_⟩
  · intro j hj
    rw [hget j hj]
    exact hlt _ (List.getElem_mem _)
  · intro i hi
    rw [invPerm_getD, if_pos (by omega), ← hl]
    exact List.idxOf_lt_length_iff.2 (hmem i hi)
  · intro i hi
    have hlt' : perm.idxOf i < perm.length := List.idxOf_lt_length_iff.2 (hmem i hi)
    rw [invPerm_getD, if_pos (by omega), hget _ (by omega)]
    exact List.getElem_idxOf hlt'
  · intro j hj
    have hj' : j < perm.length := by omega
    have h1 : perm.getD j 0 < nd := by rw [hget j hj]; exact hlt _ (List.getElem_mem _)
    rw [invPerm_getD, if_pos (by omega), hget j hj]
    exact hnd.idxOf_getElem j hj'

/-! ### file-read leaf: whole rows, sliced, flipped back -/

theorem reverse_count {n : Int} {t : NSlice} (h : t.Normal n) (hs : t.step < 0) :
    (reverseSlice t).count = t.count := by
  have := congrArg List.length (reverse_spec h hs).2
  simpa [NSlice.indices] using this

theorem fleaf_refines {α : Type} [Pairing α] (L : Nat → List Int → α) (F : α) (id : Nat) (s : List Nat) (hs : 0 < s.length)
    (ts : List NSlice) (hts : NormalSub s ts) :
    Arr.Equiv ((Seg.fleaf id s).read L F ts) (((Seg.fleaf id s).full L F).select ts) := by
  obtain ⟨htl, htn⟩ := (normalSub_iff _ _).1 hts
  have h0 := htn 0 hs
  obtain ⟨t0, tl, rfl⟩ : ∃ t0 tl, ts = t0 :: tl := by
    cases ts with
    | nil => simp at htl; omega
    | cons a b => exact ⟨a, b, rfl⟩
  simp only [sliceAt_cons_zero] at h0
  have hc := Normal.count_pos h0
  have hsl : ∀ (x : NSlice) i, 0 < i → sliceAt (x :: tl) i = sliceAt (t0 :: tl) i := by
    intro x i hi
    obtain ⟨j, rfl⟩ : ∃ j, i = j + 1 := ⟨i - 1, by omega⟩
    rfl
  by_cases hneg : t0.step < 0
  · -- reversed first slice
    have hrc := reverse_count h0 hneg
    have hrn := (reverse_spec h0 hneg).1
    have hlast : t0.last = t0.start + ((t0.count : Int) - 1) * t0.step := rfl
    have hrows : ((reverseSlice t0).stop.getD 0 - (reverseSlice t0).start) = t0.start + 1 - t0.last := by
      simp [reverseSlice]
    have hlr := Normal.last_range h0
    have hle : t0.last ≤ t0.start := by
      rw [hlast]
      have : ((t0.count : Int) - 1) * t0.step ≤ 0 := by nlinarith
      omega
    have hcnt : (⟨0, some (((t0.start + 1 - t0.last).toNat : Nat) : Int), -t0.step⟩ : NSlice).count = t0.count := by
      rw [← hrc]
      have e : (((t0.start + 1 - t0.last).toNat : Nat) : Int) = t0.start + 1 - t0.last := by omega
      simp only [NSlice.count, reverseSlice, e]
      have : -t0.step > 0 := by omega
      simp only [this, if_true]
      congr 1; omega
    constructor
    · show (Arr.flip [0] _).shape = _
      simp only [Seg.read, sliceAt_cons_zero, hneg, if_true, hrows, List.tail_cons]
      show List.map NSlice.count _ = List.map NSlice.count _
      simp only [List.map_cons, reverseSlice, hcnt]
    · intro idx hidx
      simp only [Seg.read, sliceAt_cons_zero, hneg, if_true, hrows, List.tail_cons] at hidx ⊢
      have hk := hidx 0 (by simp [Arr.flip, Arr.select])
      simp only [Arr.flip, Arr.select, List.map_cons, reverseSlice, hcnt, dimAt_cons_zero] at hk
      show L id _ = L id _
      congr 1
      apply List.map_congr_left
      intro i hi
      by_cases hi0 : i = 0
      · subst hi0
        simp only [Arr.select, List.map_cons, reverseSlice, hcnt, dimAt_cons_zero, selIdx, sliceAt_cons_zero,
          List.mem_singleton, if_true]
        rw [hlast]
        ring
      · have hne : ¬ (i ∈ [0]) := by simpa using hi0
        simp only [hi0, hne, if_false, selIdx, hsl _ i (by omega)]
  · -- positive step
    have hpos : 0 < t0.step := by
      obtain ⟨_, _, (⟨h1, _⟩ | ⟨h1, _⟩)⟩ := h0 <;> omega
    obtain ⟨b, hb, hab, _⟩ : ∃ b, t0.stop = some b ∧ t0.start < b ∧ b ≤ (dimAt s 0 : Int) := by
      obtain ⟨_, _, (⟨_, b, h2, h3, h4⟩ | ⟨h1, _⟩)⟩ := h0
      · exact ⟨b, h2, h3, h4⟩
      · omega
    have hcnt : (⟨0, some (((b - t0.start).toNat : Nat) : Int), t0.step⟩ : NSlice).count = t0.count := by
      have e : (((b - t0.start).toNat : Nat) : Int) = b - t0.start := by omega
      simp only [NSlice.count, e, hb, hpos, gt_iff_lt, if_true]
      congr 1; omega
    constructor
    · simp only [Seg.read, sliceAt_cons_zero, hneg, if_false, hb, Option.getD_some, List.tail_cons]
      show List.map NSlice.count _ = List.map NSlice.count _
      simp only [List.map_cons, hcnt]
    · intro idx _
      simp only [Seg.read, sliceAt_cons_zero, hneg, if_false, hb, Option.getD_some, List.tail_cons]
      show L id _ = L id _
      congr 1
      apply List.map_congr_left
      intro i hi
      by_cases hi0 : i = 0
      · subst hi0
        simp only [selIdx, sliceAt_cons_zero, if_true]
        ring
      · simp only [hi0, if_false, selIdx, hsl _ i (by omega)]

/-! ### re-orientation: `DataSegment.read` with reverse_axes / transpose_axes -/

theorem sliceAt_rawSub (S rev inv : List Nat) (ts : List NSlice) (i : Nat) (hi : i < inv.length) :
    sliceAt (rawSub S rev inv ts) i =
      if i ∈ rev then mirror (dimAt S i) (sliceAt ts (inv.getD i 0)) else sliceAt ts (inv.getD i 0) := by
  unfold rawSub sliceAt
  rw [getD_map_range, if_pos hi]

theorem rawSub_length (S rev inv : List Nat) (ts : List NSlice) : (rawSub S rev inv ts).length = inv.length := by
  simp [rawSub]

/-- the formatted subscript, seen from a raw axis, is normal for that raw axis -/
theorem fmt_slice_normal {S perm : List Nat} (hp : PermOK perm S.length) {ts : List NSlice}
    (hts : NormalSub (gather perm S) ts) {i : Nat} (hi : i < S.length) :
    (sliceAt ts ((invPerm perm).getD i 0)).Normal (dimAt S i) := by
  obtain ⟨_, hn⟩ := (normalSub_iff _ _).1 hts
  have h1 := hp.invlt i hi
  have := hn _ (by rw [gather_length, hp.len]; exact h1)
  rwa [dimAt_gather, if_pos (by rw [hp.len]; exact h1), hp.pinv i hi] at this

/-- `transform_formatted_slice` yields a normalised raw subscript -/
theorem rawSub_normal {S perm : List Nat} (rev : List Nat) (hp : PermOK perm S.length) {ts : List NSlice}
    (hts : NormalSub (gather perm S) ts) : NormalSub S (rawSub S rev (invPerm perm) ts) := by
  rw [normalSub_iff]
  refine ⟨by rw [rawSub_length, hp.invlen], ?_⟩
  intro i hi
  rw [sliceAt_rawSub _ _ _ _ _ (by rw [hp.invlen]; exact hi)]
  have := fmt_slice_normal hp hts hi
  split
  · exact (mirror_spec this).1
  · exact this

theorem rawSub_count {S perm : List Nat} (rev : List Nat) (hp : PermOK perm S.length) {ts : List NSlice}
    (hts : NormalSub (gather perm S) ts) {i : Nat} (hi : i < S.length) :
    (sliceAt (rawSub S rev (invPerm perm) ts) i).count = (sliceAt ts ((invPerm perm).getD i 0)).count := by
  rw [sliceAt_rawSub _ _ _ _ _ (by rw [hp.invlen]; exact hi)]
  split
  · exact mirror_count (fmt_slice_normal hp hts hi)
  · rfl

/-- the shape the code returns after flip + transpose is the shape of the subscript -/
theorem orient_shape {S perm : List Nat} (rev : List Nat) (hp : PermOK perm S.length) {ts : List NSlice}
    (hts : NormalSub (gather perm S) ts) :
    gather perm ((rawSub S rev (invPerm perm) ts).map NSlice.count) = ts.map NSlice.count := by
  obtain ⟨hl, _⟩ := (normalSub_iff _ _).1 hts
  rw [gather_length, hp.len] at hl
  apply List.ext_getElem
  · simp [gather, hp.len, hl]
  · intro j h1 h2
    have hj : j < S.length := by simpa [gather, hp.len] using h1
    have e1 := dimAt_lt h1
    have e2 := dimAt_lt h2
    rw [← e1, ← e2, dimAt_gather, if_pos (by rw [hp.len]; exact hj), dimAt_map_count, dimAt_map_count,
      rawSub_count rev hp hts (hp.lt j hj), hp.invp j hj]

theorem orient_refines {α : Type} (rd fl : Arr α) (S rev perm : List Nat) (ts : List NSlice)
    (hp : PermOK perm S.length) (hS : fl.shape = S) (hloc : fl.Local) (hts : NormalSub (gather perm S) ts)
    (ih : Arr.Equiv rd (fl.select (rawSub S rev (invPerm perm) ts))) :
    Arr.Equiv ((rd.flip rev).transpose perm (invPerm perm))
      (((fl.flip rev).transpose perm (invPerm perm)).select ts) := by
  obtain ⟨hl, hn⟩ := (normalSub_iff _ _).1 hts
  rw [gather_length, hp.len] at hl
  have hrs : rd.shape = (rawSub S rev (invPerm perm) ts).map NSlice.count := ih.1
  constructor
  · show gather perm rd.shape = ts.map NSlice.count
    rw [hrs]; exact orient_shape rev hp hts
  · intro idx hidx
    have hidx' : InR (ts.map NSlice.count) idx := by
      have : ((rd.flip rev).transpose perm (invPerm perm)).shape = ts.map NSlice.count := by
        show gather perm rd.shape = _
        rw [hrs]; exact orient_shape rev hp hts
      rwa [this] at hidx
    -- the index the code reads below
    show rd.get (fun i => if i ∈ rev then (dimAt rd.shape i : Int) - 1 - idx ((invPerm perm).getD i 0)
        else idx ((invPerm perm).getD i 0)) = _
    have hk : ∀ i, i < S.length → 0 ≤ idx ((invPerm perm).getD i 0) ∧
        idx ((invPerm perm).getD i 0) < ((sliceAt ts ((invPerm perm).getD i 0)).count : Int) := by
      intro i hi
      have := hidx' _ (by simp only [List.length_map, hl]; exact hp.invlt i hi)
      rwa [dimAt_map_count] at this
    rw [ih.2]
    · show fl.get _ = fl.get _
      apply hloc
      intro i hi
      rw [hS] at hi
      have hnorm := fmt_slice_normal hp hts hi
      simp only [selIdx]
      rw [hrs, dimAt_map_count, hS, sliceAt_rawSub _ _ _ _ _ (by rw [hp.invlen]; exact hi)]
      by_cases hr : i ∈ rev
      · simp only [hr, if_true]
        exact mirror_point hnorm _ (hk i hi).1 (hk i hi).2
      · simp only [hr, if_false]
    · -- the index read below is inside the array read below
      intro i hi
      rw [hrs] at hi ⊢
      simp only [List.length_map, rawSub_length, hp.invlen] at hi
      beta_reduce
      rw [dimAt_map_count, rawSub_count rev hp hts hi]
      have := hk i hi
      by_cases hr : i ∈ rev
      · simp only [hr, if_true]; omega
      · simp only [hr, if_false]; exact this

/-! ### complex pairs along a collapsed band axis -/

theorem sliceAt_insAt (k : Nat) (x : NSlice) (ts : List NSlice) (hk : k ≤ ts.length) (i : Nat) :
    sliceAt (insAt k x ts) i = if i < k then sliceAt ts i else if i = k then x else sliceAt ts (i - 1) :=
  getD_insAt k x ts default hk i

theorem dimAt_delAt (k : Nat) (l : List Nat) (hk : k ≤ l.length) (i : Nat) :
    dimAt (delAt k l) i = if i < k then dimAt l i else dimAt l (i + 1) := getD_delAt k l 0 hk i

theorem insAx_selIdx (bd : Nat) (ts : List NSlice) (hbd : bd ≤ ts.length) (k : Int) (idx : Idx) :
    selIdx (insAt bd ⟨0, some 2, 1⟩ ts) (insAx bd k idx) = insAx bd k (selIdx ts idx) := by
  funext i
  simp only [selIdx, insAx, sliceAt_insAt _ _ _ hbd]
  by_cases h1 : i < bd
  · simp [h1]
  · by_cases h2 : i = bd
    · simp [h2]
    · simp [h1, h2]

/-- the subscript padded with `slice(0, 2, 1)` at the band axis is normal for the un-collapsed shape -/
theorem cplx_sub {G : List Nat} {bd : Nat} (hbd : bd < G.length) (h2 : dimAt G bd = 2) {ts : List NSlice}
    (hts : NormalSub (delAt bd G) ts) : NormalSub G (insAt bd ⟨0, some 2, 1⟩ ts) ∧ ts.length + 1 = G.length := by
  obtain ⟨hl, hn⟩ := (normalSub_iff _ _).1 hts
  rw [delAt_length _ _ hbd] at hl hn
  refine ⟨?_, by omega⟩
  rw [normalSub_iff]
  refine ⟨by rw [insAt_length _ _ _ (by omega)]; omega, fun i hi => ?_⟩
  rw [sliceAt_insAt _ _ _ (by omega)]
  by_cases c1 : i < bd
  · have := hn i (by omega)
    rw [dimAt_delAt _ _ (by omega), if_pos c1] at this
    simpa [c1] using this
  · by_cases c2 : i = bd
    · subst c2
      simp only [Nat.lt_irrefl, if_false, if_true, h2]
      decide
    · have := hn (i - 1) (by omega)
      rw [dimAt_delAt _ _ (by omega), if_neg (by omega), show i - 1 + 1 = i by omega] at this
      simpa [c1, c2] using this

theorem cplx_refines {α : Type} [Pairing α] (R O : Arr α) (ord : COrd) (bd : Nat) (ts : List NSlice)
    (hbd : bd ≤ ts.length) (ih : Arr.Equiv R (O.select (insAt bd ⟨0, some 2, 1⟩ ts))) :
    Arr.Equiv (R.pairUp ord bd) ((O.pairUp ord bd).select ts) := by
  have hsh : (R.pairUp ord bd).shape = ts.map NSlice.count := by
    show delAt bd R.shape = _
    rw [ih.1]
    show delAt bd ((insAt bd _ ts).map NSlice.count) = _
    apply List.ext_getElem
    · rw [delAt_length _ _ (by simp [insAt_length _ _ _ hbd]; omega)]
      simp [insAt_length _ _ _ hbd]
    · intro i h1 h2
      rw [← dimAt_lt h1, ← dimAt_lt h2, dimAt_delAt _ _ (by simp [insAt_length _ _ _ hbd]; omega),
        dimAt_map_count, dimAt_map_count, dimAt_map_count, sliceAt_insAt _ _ _ hbd, sliceAt_insAt _ _ _ hbd]
      by_cases c1 : i < bd
      · simp [c1]
      · have a : ¬ (i + 1 < bd) := by omega
        have b : ¬ (i + 1 = bd) := by omega
        simp [c1, a, b]
  refine ⟨hsh, fun idx hidx => ?_⟩
  rw [hsh] at hidx
  have hin : ∀ k : Int, 0 ≤ k → k < 2 → InR R.shape (insAx bd k idx) := by
    intro k hk0 hk2 i hi
    rw [ih.1] at hi ⊢
    simp only [Arr.select, List.length_map, insAt_length _ _ _ hbd] at hi
    simp only [Arr.select, dimAt_map_count, sliceAt_insAt _ _ _ hbd, insAx]
    by_cases c1 : i < bd
    · have := hidx i (by simp; omega)
      rw [dimAt_map_count] at this
      simpa [c1] using this
    · by_cases c2 : i = bd
      · subst c2
        simp only [Nat.lt_irrefl, if_false, if_true]
        refine ⟨hk0, ?_⟩
        show k < ((⟨0, some 2, 1⟩ : NSlice).count : Int)
        have : (⟨0, some 2, 1⟩ : NSlice).count = 2 := by decide
        rw [this]; exact hk2
      · have := hidx (i - 1) (by simp; omega)
        rw [dimAt_map_count] at this
        simpa [c1, c2] using this
  have hget : ∀ k : Int, 0 ≤ k → k < 2 → R.get (insAx bd k idx) = O.get (insAx bd k (selIdx ts idx)) := by
    intro k hk0 hk2
    rw [ih.2 _ (hin k hk0 hk2)]
    show O.get _ = _
    rw [insAx_selIdx _ _ hbd]
  show comb ord (R.get (insAx bd 0 idx)) (R.get (insAx bd 1 idx)) =
    comb ord (O.get (insAx bd 0 (selIdx ts idx))) (O.get (insAx bd 1 (selIdx ts idx)))
  rw [hget 0 (by decide) (by decide), hget 1 (by decide) (by decide)]

/-! ### subset: kept and squeezed axes, composition of the subset definition with the subscript -/

theorem pick_length {β : Type} : ∀ (K : List Bool) (l : List β), K.length = l.length →
    (pick K l).length = (keptAxes K).length
  | [], [], _ => rfl
  | k :: ks, x :: xs, h => by
    have ih := pick_length ks xs (by simpa using h)
    cases k <;> simp [pick, keptAxes, ih]
  | [], _ :: _, h => by simp at h
  | _ :: _, [], h => by simp at h

theorem getD_pick_rank {β : Type} (d : β) : ∀ (K : List Bool) (l : List β) (i : Nat), K.length = l.length →
    i < K.length → K.getD i false = true → (pick K l).getD (rank K i) d = l.getD i d
  | k :: ks, x :: xs, 0, _, _, hk => by
    have : k = true := by simpa using hk
    subst this
    simp [pick, rank]
  | k :: ks, x :: xs, i + 1, h, hi, hk => by
    have ih := getD_pick_rank d ks xs i (by simpa using h) (by simpa using hi) (by simpa using hk)
    cases k
    · simpa [pick, rank] using ih
    · simp only [pick, rank, if_true, List.getD_cons_succ]
      rw [show 1 + rank ks i = rank ks i + 1 by omega, List.getD_cons_succ]
      exact ih
  | [], _, _, _, hi, _ => by simp at hi
  | _ :: _, [], _, h, _, _ => by simp at h

theorem rank_lt : ∀ (K : List Bool) (i : Nat), i < K.length → K.getD i false = true → rank K i < (keptAxes K).length
  | k :: ks, 0, _, hk => by
    have : k = true := by simpa using hk
    subst this
    simp [rank, keptAxes]
  | k :: ks, i + 1, hi, hk => by
    have ih := rank_lt ks i (by simpa using hi) (by simpa using hk)
    cases k <;> simp [rank, keptAxes] <;> omega
  | [], _, hi, _ => by simp at hi

theorem kept_rank : ∀ (K : List Bool) (i : Nat), i < K.length → K.getD i false = true →
    (keptAxes K).getD (rank K i) 0 = i
  | k :: ks, 0, _, hk => by
    have : k = true := by simpa using hk
    subst this
    simp [rank, keptAxes]
  | k :: ks, i + 1, hi, hk => by
    have ih := kept_rank ks i (by simpa using hi) (by simpa using hk)
    have hl := rank_lt ks i (by simpa using hi) (by simpa using hk)
    cases k
    · simp only [rank, keptAxes, if_false, Bool.false_eq_true, List.nil_append, Nat.zero_add]
      rw [List.getD_eq_getElem?_getD, List.getElem?_map, List.getElem?_eq_getElem hl]
      rw [List.getD_eq_getElem?_getD, List.getElem?_eq_getElem hl] at ih
      simpa using ih
    · simp only [rank, keptAxes, if_true, List.singleton_append]
      rw [show 1 + rank ks i = rank ks i + 1 by omega, List.getD_cons_succ,
        List.getD_eq_getElem?_getD, List.getElem?_map, List.getElem?_eq_getElem hl]
      rw [List.getD_eq_getElem?_getD, List.getElem?_eq_getElem hl] at ih
      simpa using ih
  | [], _, hi, _ => by simp at hi

theorem kept_spec : ∀ (K : List Bool) (r : Nat), r < (keptAxes K).length →
    (keptAxes K).getD r 0 < K.length ∧ K.getD ((keptAxes K).getD r 0) false = true ∧
    rank K ((keptAxes K).getD r 0) = r
  | [], r, h => by simp [keptAxes] at h
  | k :: ks, r, h => by
    cases k
    · have h' : r < (keptAxes ks).length := by simpa [keptAxes] using h
      obtain ⟨i1, i2, i3⟩ := kept_spec ks r h'
      have e : (keptAxes (false :: ks)).getD r 0 = (keptAxes ks).getD r 0 + 1 := by
        simp only [keptAxes, Bool.false_eq_true, if_false, List.nil_append]
        rw [List.getD_eq_getElem?_getD, List.getElem?_map, List.getElem?_eq_getElem h',
          List.getD_eq_getElem?_getD, List.getElem?_eq_getElem h']
        simp
      rw [e]
      refine ⟨by simpa using i1, by simpa using i2, by simpa [rank] using i3⟩
    · cases r with
      | zero => simp [keptAxes, rank]
      | succ r =>
        have h' : r < (keptAxes ks).length := by simpa [keptAxes] using h
        obtain ⟨i1, i2, i3⟩ := kept_spec ks r h'
        have e : (keptAxes (true :: ks)).getD (r + 1) 0 = (keptAxes ks).getD r 0 + 1 := by
          simp only [keptAxes, if_true, List.singleton_append, List.getD_cons_succ]
          rw [List.getD_eq_getElem?_getD, List.getElem?_map, List.getElem?_eq_getElem h',
            List.getD_eq_getElem?_getD, List.getElem?_eq_getElem h']
          simp
        rw [e]
        refine ⟨by simpa using i1, by simpa using i2, ?_⟩
        simp only [rank, if_true, i3]; omega

theorem getD_pick {β : Type} (d : β) (K : List Bool) (l : List β) (h : K.length = l.length) (r : Nat)
    (hr : r < (keptAxes K).length) : (pick K l).getD r d = l.getD ((keptAxes K).getD r 0) d := by
  obtain ⟨h1, h2, h3⟩ := kept_spec K r hr
  have := getD_pick_rank d K l _ h h1 h2
  rwa [h3] at this

theorem keepAxes_length (sq : Bool) (defs : List NSlice) : (keepAxes sq defs).length = defs.length := by
  simp [keepAxes]

theorem keepAxes_getD (sq : Bool) (defs : List NSlice) (i : Nat) (hi : i < defs.length) :
    (keepAxes sq defs).getD i false = !(sq && (sliceAt defs i).count == 1) := by
  simp [keepAxes, sliceAt, List.getD_eq_getElem?_getD, hi]

theorem composeSq_spec : ∀ (S : List Nat) (ds : List NSlice) (K : List Bool) (ps : List NSlice),
    ds.length = S.length → K.length = S.length → ps.length = (keptAxes K).length →
    (composeSq S ds K ps).length = S.length ∧
    ∀ i, i < S.length → sliceAt (composeSq S ds K ps) i =
      if K.getD i false then compose (dimAt S i) (sliceAt ds i) (sliceAt ps (rank K i)) else sliceAt ds i
  | [], [], [], ps, _, _, _ => by simp [composeSq]
  | n :: S, d :: ds, true :: K, p :: ps, h1, h2, h3 => by
    obtain ⟨ihl, ih⟩ := composeSq_spec S ds K ps (by simpa using h1) (by simpa using h2) (by simpa [keptAxes] using h3)
    refine ⟨by simp [composeSq, ihl], ?_⟩
    intro i hi
    cases i with
    | zero => simp [composeSq, sliceAt, dimAt, rank]
    | succ i =>
      have := ih i (by simpa using hi)
      simp only [composeSq, sliceAt_cons_succ, dimAt_cons_succ, this, List.getD_cons_succ, rank, if_true]
      rw [show 1 + rank K i = rank K i + 1 by omega, sliceAt_cons_succ]
  | n :: S, d :: ds, false :: K, ps, h1, h2, h3 => by
    obtain ⟨ihl, ih⟩ := composeSq_spec S ds K ps (by simpa using h1) (by simpa using h2) (by simpa [keptAxes] using h3)
    refine ⟨by simp [composeSq, ihl], ?_⟩
    intro i hi
    cases i with
    | zero => simp [composeSq, sliceAt]
    | succ i =>
      have := ih i (by simpa using hi)
      simp only [composeSq, sliceAt_cons_succ, dimAt_cons_succ, this, List.getD_cons_succ, rank]
      simp
  | n :: S, d :: ds, true :: K, [], _, _, h3 => by simp [keptAxes] at h3
  | [], _ :: _, _, _, h, _, _ => by simp at h
  | [], [], _ :: _, _, _, h, _ => by simp at h
  | _ :: _, [], _, _, h, _, _ => by simp at h
  | _ :: _, _ :: _, [], _, _, h, _ => by simp at h

/-- everything the subset case needs, per parent axis -/
theorem subset_sub {S : List Nat} {sq : Bool} {defs ts : List NSlice} (hd : NormalSub S defs)
    (hts : NormalSub (pick (keepAxes sq defs) (defs.map NSlice.count)) ts) :
    NormalSub S (composeSq S defs (keepAxes sq defs) ts) ∧
    pick (keepAxes sq defs) ((composeSq S defs (keepAxes sq defs) ts).map NSlice.count) = ts.map NSlice.count ∧
    (∀ (idx : Idx) i, i < S.length → selIdx (composeSq S defs (keepAxes sq defs) ts) (unsq (keepAxes sq defs) idx) i =
        selIdx defs (unsq (keepAxes sq defs) (selIdx ts idx)) i) ∧
    (∀ i, i < S.length → (sliceAt (composeSq S defs (keepAxes sq defs) ts) i).count =
        if (keepAxes sq defs).getD i false then (sliceAt ts (rank (keepAxes sq defs) i)).count else 1) ∧
    ts.length = (keptAxes (keepAxes sq defs)).length := by
  set K := keepAxes sq defs with hK
  obtain ⟨hdl, hdn⟩ := (normalSub_iff _ _).1 hd
  obtain ⟨htl, htn⟩ := (normalSub_iff _ _).1 hts
  have hKl : K.length = S.length := by rw [hK, keepAxes_length, hdl]
  have hpl : (pick K (defs.map NSlice.count)).length = (keptAxes K).length :=
    pick_length K _ (by simp [hKl, hdl])
  rw [hpl] at htl htn
  obtain ⟨hcl, hc⟩ := composeSq_spec S defs K ts hdl hKl htl
  -- the subscript entry of a kept axis is normal for the count of its definition
  have hkept : ∀ i, i < S.length → K.getD i false = true →
      (sliceAt ts (rank K i)).Normal ((sliceAt defs i).count) := by
    intro i hi hk
    have := htn _ (rank_lt K i (by omega) hk)
    rwa [show dimAt (pick K (defs.map NSlice.count)) (rank K i) = (sliceAt defs i).count from by
      unfold dimAt; rw [getD_pick_rank 0 K _ i (by simp [hKl, hdl]) (by omega) hk]; exact dimAt_map_count defs i] at this
  have hsq : ∀ i, i < S.length → K.getD i false = false → (sliceAt defs i).count = 1 := by
    intro i hi hk
    rw [hK, keepAxes_getD sq defs i (by omega)] at hk
    have : sq = true ∧ (sliceAt defs i).count = 1 := by simpa using hk
    exact this.2
  have hcount : ∀ i, i < S.length → (sliceAt (composeSq S defs K ts) i).count =
      if K.getD i false then (sliceAt ts (rank K i)).count else 1 := by
    intro i hi
    rw [hc i hi]
    by_cases hk : K.getD i false = true
    · simp only [hk, if_true]
      exact (compose_spec (hdn i hi) (hkept i hi hk)).2.1
    · have hk' : K.getD i false = false := by simpa using hk
      simp only [hk', Bool.false_eq_true, if_false]
      exact hsq i hi hk'
  refine ⟨?_, ?_, ?_, hcount, htl⟩
  · rw [normalSub_iff]
    refine ⟨hcl, fun i hi => ?_⟩
    rw [hc i hi]
    by_cases hk : K.getD i false = true
    · simp only [hk, if_true]
      exact (compose_spec (hdn i hi) (hkept i hi hk)).1
    · have hk' : K.getD i false = false := by simpa using hk
      simp only [hk', Bool.false_eq_true, if_false]
      exact hdn i hi
  · apply List.ext_getElem
    · rw [pick_length K _ (by simp [hKl, hcl])]; simp [htl]
    · intro r h1 h2
      have hr : r < (keptAxes K).length := by rw [pick_length K _ (by simp [hKl, hcl])] at h1; exact h1
      obtain ⟨i1, i2, i3⟩ := kept_spec K r hr
      rw [← dimAt_lt h1, ← dimAt_lt h2]
      unfold dimAt
      rw [getD_pick 0 K _ (by simp [hKl, hcl]) r hr]
      have e1 := dimAt_map_count (composeSq S defs K ts) ((keptAxes K).getD r 0)
      have e2 := dimAt_map_count ts r
      unfold dimAt at e1 e2
      rw [e1, e2, hcount _ (by omega), if_pos i2, i3]
  · intro idx i hi
    simp only [selIdx, unsq, hc i hi]
    by_cases hk : K.getD i false = true
    · simp only [hk, if_true, compose]
      ring
    · have hk' : K.getD i false = false := by simpa using hk
      simp only [hk', Bool.false_eq_true, if_false]

theorem unsq_inR {S : List Nat} {sq : Bool} {defs ts : List NSlice} (hd : NormalSub S defs)
    (hts : NormalSub (pick (keepAxes sq defs) (defs.map NSlice.count)) ts) {idx : Idx}
    (hidx : InR (ts.map NSlice.count) idx) :
    InR ((composeSq S defs (keepAxes sq defs) ts).map NSlice.count) (unsq (keepAxes sq defs) idx) := by
  obtain ⟨hn, _, _, hcount, htl⟩ := subset_sub hd hts
  obtain ⟨hcl, _⟩ := (normalSub_iff _ _).1 hn
  have hKl : (keepAxes sq defs).length = S.length := by
    rw [keepAxes_length, ((normalSub_iff _ _).1 hd).1]
  intro i hi
  simp only [List.length_map, hcl] at hi
  rw [dimAt_map_count, hcount i hi]
  simp only [unsq]
  by_cases hk : (keepAxes sq defs).getD i false = true
  · simp only [hk, if_true]
    have := hidx _ (by simp only [List.length_map, htl]; exact rank_lt _ i (by omega) hk)
    rwa [dimAt_map_count] at this
  · have hk' : (keepAxes sq defs).getD i false = false := by simpa using hk
    simp only [hk', Bool.false_eq_true, if_false]
    constructor <;> omega

theorem subset_refines {α : Type} (rd fl : Arr α) (S : List Nat) (sq : Bool) (defs ts : List NSlice)
    (hS : fl.shape = S) (hloc : fl.Local)
    (hd : NormalSub S defs) (hts : NormalSub (pick (keepAxes sq defs) (defs.map NSlice.count)) ts)
    (ih : Arr.Equiv rd (fl.select (composeSq S defs (keepAxes sq defs) ts))) :
    Arr.Equiv (rd.squeeze (keepAxes sq defs)) (((fl.select defs).squeeze (keepAxes sq defs)).select ts) := by
  obtain ⟨_, hcnt, hsel, _, _⟩ := subset_sub hd hts
  have hsh : (rd.squeeze (keepAxes sq defs)).shape = ts.map NSlice.count := by
    show pick _ rd.shape = _
    rw [ih.1]; exact hcnt
  refine ⟨hsh, fun idx hidx => ?_⟩
  rw [hsh] at hidx
  show rd.get (unsq (keepAxes sq defs) idx) = fl.get (selIdx defs (unsq (keepAxes sq defs) (selIdx ts idx)))
  rw [ih.2 _ (by rw [ih.1]; exact unsq_inR hd hts hidx)]
  show fl.get _ = fl.get _
  apply hloc
  intro i hi
  rw [hS] at hi
  exact hsel idx i hi

/-! ### band aggregate -/

theorem sliceAt_delAt (k : Nat) (ts : List NSlice) (hk : k ≤ ts.length) (i : Nat) :
    sliceAt (delAt k ts) i = if i < k then sliceAt ts i else sliceAt ts (i + 1) := getD_delAt k ts default hk i

theorem dimAt_insAt (k x : Nat) (l : List Nat) (hk : k ≤ l.length) (i : Nat) :
    dimAt (insAt k x l) i = if i < k then dimAt l i else if i = k then x else dimAt l (i - 1) := getD_insAt k x l 0 hk i

/-- the children's subscript (`norm_subscript[:bd] + norm_subscript[bd+1:]`) and the band slice are normal -/
theorem bands_sub {sh : List Nat} {bd nb : Nat} (hbd : bd ≤ sh.length) {ts : List NSlice}
    (hts : NormalSub (insAt bd nb sh) ts) :
    NormalSub sh (delAt bd ts) ∧ (sliceAt ts bd).Normal nb := by
  obtain ⟨hl, hn⟩ := (normalSub_iff _ _).1 hts
  rw [insAt_length _ _ _ hbd] at hl hn
  constructor
  · rw [normalSub_iff]
    refine ⟨by rw [delAt_length _ _ (by omega)]; omega, fun i hi => ?_⟩
    rw [sliceAt_delAt _ _ (by omega)]
    by_cases h : i < bd
    · have := hn i (by omega)
      rw [dimAt_insAt _ _ _ hbd, if_pos h] at this
      simpa [h] using this
    · have := hn (i + 1) (by omega)
      rw [dimAt_insAt _ _ _ hbd, if_neg (by omega), if_neg (by omega)] at this
      simpa [h] using this
  · have := hn bd (by omega)
    rwa [dimAt_insAt _ _ _ hbd, if_neg (by omega), if_pos rfl] at this

theorem dropAx_selIdx (bd : Nat) (ts : List NSlice) (hbd : bd ≤ ts.length) (idx : Idx) :
    dropAx bd (selIdx ts idx) = selIdx (delAt bd ts) (dropAx bd idx) := by
  funext i
  simp only [dropAx, selIdx, sliceAt_delAt _ _ hbd]
  split <;> rfl

theorem dropAx_inR {bd : Nat} {ts : List NSlice} (hbd : bd < ts.length) {idx : Idx}
    (h : InR (ts.map NSlice.count) idx) : InR ((delAt bd ts).map NSlice.count) (dropAx bd idx) := by
  intro i hi
  simp only [List.length_map, delAt_length _ _ hbd] at hi
  rw [dimAt_map_count, sliceAt_delAt _ _ (by omega)]
  simp only [dropAx]
  by_cases hlt : i < bd
  · have := h i (by simp; omega)
    rw [dimAt_map_count] at this
    simpa [hlt] using this
  · have := h (i + 1) (by simp; omega)
    rw [dimAt_map_count] at this
    simpa [hlt] using this

/-- which child band `out_index` of the output is read from: `arange(bands)[ts[bd]][out_index]` -/
theorem band_index {nb : Nat} {t : NSlice} (hn : t.Normal nb) {k : Int} (hk0 : 0 ≤ k) (hk : k < t.count) :
    (t.indices.getD k.toNat 0) = t.start + k * t.step ∧ 0 ≤ t.start + k * t.step ∧ t.start + k * t.step < nb := by
  have hl : k.toNat < t.indices.length := by simp [NSlice.indices]; omega
  refine ⟨?_, Normal.index_range hn k hk0 hk⟩
  rw [List.getD_eq_getElem?_getD, List.getElem?_eq_getElem hl]
  simp only [NSlice.indices, ap_getElem, Option.getD_some]
  rw [show ((k.toNat : Nat) : Int) = k by omega]

/-! ### block aggregate -/

theorem overlaps_spec : ∀ (ts : List NSlice) (arr : List (Int × Int)), ts.length = arr.length →
    match overlaps ts arr with
    | none => ∃ i, i < arr.length ∧ overlap (sliceAt ts i) (arr.getD i (0, 0)).1 (arr.getD i (0, 0)).2 = none
    | some (cs, ps) => cs.length = arr.length ∧ ps.length = arr.length ∧
        ∀ i, i < arr.length →
          overlap (sliceAt ts i) (arr.getD i (0, 0)).1 (arr.getD i (0, 0)).2 = some (sliceAt cs i, sliceAt ps i)
  | [], [], _ => by simp [overlaps]
  | t :: ts, b :: bs, h => by
    have ih := overlaps_spec ts bs (by simpa using h)
    unfold overlaps
    cases ho : overlap t b.1 b.2 with
    | none => exact ⟨0, by simp, by simpa [sliceAt] using ho⟩
    | some pc =>
      obtain ⟨c, p⟩ := pc
      cases hos : overlaps ts bs with
      | none =>
        rw [hos] at ih
        obtain ⟨i, hi, hio⟩ := ih
        exact ⟨i + 1, by simpa using hi, by simpa [sliceAt] using hio⟩
      | some cp =>
        obtain ⟨cs, ps⟩ := cp
        rw [hos] at ih
        obtain ⟨h1, h2, h3⟩ := ih
        refine ⟨by simp [h1], by simp [h2], ?_⟩
        intro i hi
        cases i with
        | zero => simpa [sliceAt] using ho
        | succ i => simpa [sliceAt] using h3 i (by simpa using hi)
  | [], _ :: _, h => by simp at h
  | _ :: _, [], h => by simp at h

theorem inBox_iff (box : List (Int × Int)) (idx : Idx) :
    inBox box idx = true ↔ ∀ i, i < box.length → (box.getD i (0, 0)).1 ≤ idx i ∧ idx i < (box.getD i (0, 0)).2 := by
  simp [inBox, List.all_eq_true]

theorem boxOK_iff : ∀ (sh : List Nat) (arr : List (Int × Int)) (csh : List Nat),
    boxOK sh arr csh = true ↔ arr.length = sh.length ∧ csh.length = sh.length ∧
      ∀ i, i < sh.length → 0 ≤ (arr.getD i (0, 0)).1 ∧ (arr.getD i (0, 0)).1 < (arr.getD i (0, 0)).2 ∧
        (arr.getD i (0, 0)).2 ≤ (dimAt sh i : Int) ∧ (dimAt csh i : Int) = (arr.getD i (0, 0)).2 - (arr.getD i (0, 0)).1
  | [], [], [] => by simp [boxOK]
  | n :: sh, b :: arr, c :: csh => by
    have ih := boxOK_iff sh arr csh
    simp only [boxOK, Bool.and_eq_true, decide_eq_true_eq, ih, List.length_cons]
    constructor
    · rintro ⟨h0, h1, h2, h3⟩
      refine ⟨by omega, by omega, ?_⟩
      intro i hi
      cases i with
      | zero => simpa [dimAt] using h0
      | succ i => simpa [dimAt] using h3 i (by omega)
    · rintro ⟨h1, h2, h3⟩
      refine ⟨by simpa [dimAt] using h3 0 (by omega), by omega, by omega, ?_⟩
      intro i hi
      simpa [dimAt] using h3 (i + 1) (by omega)
  | [], [], _ :: _ => by simp [boxOK]
  | [], _ :: _, _ => by simp [boxOK]
  | _ :: _, [], _ => by simp [boxOK]
  | _ :: _, _ :: _, [] => by simp [boxOK]


theorem sliceBox_length (ps : List NSlice) : (sliceBox ps).length = ps.length := by simp [sliceBox]

theorem sliceBox_getD (ps : List NSlice) (i : Nat) (hi : i < ps.length) :
    (sliceBox ps).getD i (0, 0) = ((sliceAt ps i).start, (sliceAt ps i).stop.getD 0) := by
  simp [sliceBox, sliceAt, List.getD_eq_getElem?_getD, hi]

/-- per-axis facts for one block (from `overlap_spec`), collected over the axes -/
theorem block_axes {sh csh : List Nat} {arr : List (Int × Int)} {ts csub psub : List NSlice}
    (hbox : boxOK sh arr csh = true) (hts : NormalSub sh ts) (ho : overlaps ts arr = some (csub, psub)) :
    csub.length = sh.length ∧ psub.length = sh.length ∧
    ∀ i, i < sh.length → ∃ k0 k1 : Int,
      (sliceAt psub i).start = k0 ∧ (sliceAt psub i).stop = some k1 ∧ 0 ≤ k0 ∧ k0 < k1 ∧
      k1 ≤ (sliceAt ts i).count ∧ (sliceAt csub i).Normal (dimAt csh i) ∧ ((sliceAt csub i).count : Int) = k1 - k0 ∧
      (∀ k : Int, 0 ≤ k → k < (sliceAt ts i).count →
        (((arr.getD i (0, 0)).1 ≤ (sliceAt ts i).start + k * (sliceAt ts i).step ∧
          (sliceAt ts i).start + k * (sliceAt ts i).step < (arr.getD i (0, 0)).2) ↔ (k0 ≤ k ∧ k < k1))) ∧
      (∀ k : Int, k0 ≤ k → k < k1 → (sliceAt csub i).start + (k - k0) * (sliceAt csub i).step =
        (sliceAt ts i).start + k * (sliceAt ts i).step - (arr.getD i (0, 0)).1) := by
  obtain ⟨hal, hcl, hb⟩ := (boxOK_iff _ _ _).1 hbox
  obtain ⟨htl, htn⟩ := (normalSub_iff _ _).1 hts
  have hs := overlaps_spec ts arr (by omega)
  rw [ho] at hs
  obtain ⟨h1, h2, h3⟩ := hs
  refine ⟨by omega, by omega, fun i hi => ?_⟩
  obtain ⟨hb0, hb01, hb1, hc⟩ := hb i hi
  have hp := overlap_point (htn i hi) hb0 hb01 hb1
  rw [h3 i (by omega)] at hp
  obtain ⟨k0, k1, e1, e2, e3, e4, e5, e6, e7, e8, e9⟩ := hp
  rw [hc]
  exact ⟨k0, k1, e1, e2, e3, e4, e5, e6, e7, e8, e9⟩

theorem block_none {α : Type} (acc cfl : Arr α) {sh csh : List Nat} {arr : List (Int × Int)} {ts : List NSlice}
    (hbox : boxOK sh arr csh = true) (hts : NormalSub sh ts) (ho : overlaps ts arr = none)
    (idx : Idx) (hidx : InR (ts.map NSlice.count) idx) :
    (acc.paste arr cfl).get (selIdx ts idx) = acc.get (selIdx ts idx) := by
  obtain ⟨hal, hcl, hb⟩ := (boxOK_iff _ _ _).1 hbox
  obtain ⟨htl, htn⟩ := (normalSub_iff _ _).1 hts
  have hs := overlaps_spec ts arr (by omega)
  rw [ho] at hs
  obtain ⟨i, hi, hio⟩ := hs
  obtain ⟨hb0, hb01, hb1, _⟩ := hb i (by omega)
  have hp := overlap_point (htn i (by omega)) hb0 hb01 hb1
  rw [hio] at hp
  have hk := hidx i (by simp; omega)
  rw [dimAt_map_count] at hk
  have hnot := hp (idx i) hk.1 hk.2
  have : inBox arr (selIdx ts idx) = false := by
    rw [Bool.eq_false_iff]
    intro hin
    exact hnot ((inBox_iff _ _).1 hin i hi)
  simp [Arr.paste, this]

theorem block_some {α : Type} (out acc crd cfl : Arr α) {sh csh : List Nat} {arr : List (Int × Int)}
    {ts csub psub : List NSlice}
    (hbox : boxOK sh arr csh = true) (hts : NormalSub sh ts) (ho : overlaps ts arr = some (csub, psub))
    (hcs : cfl.shape = csh) (hcloc : cfl.Local) (ihc : Arr.Equiv crd (cfl.select csub))
    (idx : Idx) (hidx : InR (ts.map NSlice.count) idx) (hout : out.get idx = acc.get (selIdx ts idx)) :
    (out.paste (sliceBox psub) crd).get idx = (acc.paste arr cfl).get (selIdx ts idx) := by
  obtain ⟨hcl, hpl, hax⟩ := block_axes hbox hts ho
  obtain ⟨hal, hcshl, _⟩ := (boxOK_iff _ _ _).1 hbox
  have hk : ∀ i, i < sh.length → 0 ≤ idx i ∧ idx i < ((sliceAt ts i).count : Int) := by
    intro i hi
    have htl := ((normalSub_iff _ _).1 hts).1
    have := hidx i (by simp; omega)
    rwa [dimAt_map_count] at this
  have hcond : inBox (sliceBox psub) idx = inBox arr (selIdx ts idx) := by
    rw [Bool.eq_iff_iff, inBox_iff, inBox_iff]
    simp only [sliceBox_length, hpl, hal]
    constructor
    · intro h i hi
      obtain ⟨k0, k1, e1, e2, _, _, _, _, _, e8, _⟩ := hax i hi
      have := h i hi
      have hg := sliceBox_getD psub i (by omega)
      rw [hg, e1, e2] at this
      exact (e8 (idx i) (hk i hi).1 (hk i hi).2).2 (by simpa using this)
    · intro h i hi
      obtain ⟨k0, k1, e1, e2, _, _, _, _, _, e8, _⟩ := hax i hi
      have := (e8 (idx i) (hk i hi).1 (hk i hi).2).1 (h i hi)
      have hg := sliceBox_getD psub i (by omega)
      rw [hg, e1, e2]
      simpa using this
  show (if inBox (sliceBox psub) idx then crd.get (boxLo (sliceBox psub) idx) else out.get idx) =
    (if inBox arr (selIdx ts idx) then cfl.get (boxLo arr (selIdx ts idx)) else acc.get (selIdx ts idx))
  rw [hcond]
  by_cases hin : inBox arr (selIdx ts idx) = true
  · simp only [hin, if_true]
    have hin' := hcond ▸ hin
    rw [inBox_iff] at hin'
    simp only [sliceBox_length, hpl] at hin'
    have hloc : ∀ i, i < sh.length → ∃ k0 k1 : Int, (sliceBox psub).getD i (0, 0) = (k0, k1) ∧ k0 ≤ idx i ∧ idx i < k1 ∧
        ((sliceAt csub i).count : Int) = k1 - k0 ∧
        (sliceAt csub i).start + (idx i - k0) * (sliceAt csub i).step =
          (sliceAt ts i).start + idx i * (sliceAt ts i).step - (arr.getD i (0, 0)).1 := by
      intro i hi
      obtain ⟨k0, k1, e1, e2, _, _, _, _, e7, _, e9⟩ := hax i hi
      have hg := sliceBox_getD psub i (by omega)
      have := hin' i hi
      rw [hg, e1, e2] at this
      simp only [Option.getD_some] at this
      refine ⟨k0, k1, by rw [hg, e1, e2]; rfl, this.1, this.2, e7, e9 _ this.1 this.2⟩
    rw [ihc.2]
    · show cfl.get _ = cfl.get _
      apply hcloc
      intro i hi
      rw [hcs, hcshl] at hi
      obtain ⟨k0, k1, hg, _, _, _, e⟩ := hloc i hi
      simp only [selIdx, boxLo, hg]
      exact e
    · intro i hi
      rw [ihc.1] at hi ⊢
      simp only [Arr.select, List.length_map, hcl] at hi
      obtain ⟨k0, k1, hg, h1, h2, e7, _⟩ := hloc i hi
      simp only [Arr.select, dimAt_map_count, boxLo, hg]
      omega
  · simp only [hin, if_false]
    exact hout

end Sarpy.Props.C01Seg
