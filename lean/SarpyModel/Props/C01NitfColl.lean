/-
  C01Nitf, part 6: a product image made of several image segments stacked by rows (`assembleCollection`): the members are assembled
  raw (bands last, no orientation), pasted at the rows the ILOC chain gives, and the orientation / complex pairing is applied to the
  mosaic.  `assembleCollection_wf`, `_shape`, `_spec`.
-/
import SarpyModel.Props.C01Nitf

namespace Sarpy.Props.C01.Nitf
open Sarpy Sarpy.Spec Sarpy.Spec.NitfAssembly Sarpy.Props.C01Seg

/-! ### a member: `assembleImage h o false` -/

def rawH (h : ImageHeaderFields) : ImageHeaderFields := { h with cplx := none }
def rawO (o : ReaderOptions) : ReaderOptions := { o with reverse := [], transpose := false }

theorem assembleImage_false {h : ImageHeaderFields} {o : ReaderOptions} {t : Seg} (hc : cplxOK h = true)
    (hok : assembleImage h o false = .ok t) : assembleImage (rawH h) (rawO o) true = .ok t := by
  rw [← hok]
  unfold assembleImage
  have hc' : cplxOK (rawH h) = true := rfl
  cases hi : h.imode with
  | S =>
    have : (rawH h).imode = .S := hi
    rw [this]
    simp only []
    unfold assembleS
    rw [hc, hc']
    rfl
  | B =>
    have : (rawH h).imode = .B := hi
    rw [this]
    simp only []
    unfold assembleBPR
    rw [hc, hc']
    have e : orientBPR (rawH h) (rawO o) true = orientBPR h o false := by
      unfold orientBPR; simp [rawH, rawO, hi]
    rw [e]
    rfl
  | P =>
    have : (rawH h).imode = .P := hi
    rw [this]
    simp only []
    unfold assembleBPR
    rw [hc, hc']
    have e : orientBPR (rawH h) (rawO o) true = orientBPR h o false := by
      unfold orientBPR; simp [rawH, rawO, hi]
    rw [e]
    rfl
  | R =>
    have : (rawH h).imode = .R := hi
    rw [this]
    simp only []
    unfold assembleBPR
    rw [hc, hc']
    have e : orientBPR (rawH h) (rawO o) true = orientBPR h o false := by
      unfold orientBPR; simp [rawH, rawO, hi]
    rw [e]
    rfl

theorem ax_last (nb : Nat) : axY nb 2 = 0 ∧ axX nb 2 = 1 ∧ axB nb 2 = 2 := by
  unfold axY axX axB; by_cases h : nb = 1 <;> simp [h]

/-- what a member of a collection is: well formed, bands last, and showing the stored samples of its image segment unoriented -/
structure Member (h : ImageHeaderFields) (t : Seg) : Prop where
  wf : t.wf = true
  fshape : t.fshape = getShape h.nrows h.ncols h.nbands 2
  pos : 0 < h.nrows ∧ 0 < h.ncols ∧ 0 < h.nbands
  spec : Valid h → ∀ idx : Idx, 0 ≤ idx 0 → idx 0 < (h.nrows : Int) → 0 ≤ idx 1 → idx 1 < (h.ncols : Int) →
    ∀ b : Nat, (h.nbands ≠ 1 → idx 2 = (b : Int) ∧ b < h.nbands) →
      t.fullSrc.get idx = pixelSrc h (idx 0).toNat (idx 1).toNat b

theorem rawO_ok (o : ReaderOptions) : optionsOK (rawO o) = true := rfl

theorem member_of_assembled {h : ImageHeaderFields} {o : ReaderOptions} {t : Seg} (hc : cplxOK h = true)
    (hok : assembleImage h o false = .ok t) : Member h t := by
  have hok' := assembleImage_false hc hok
  have hpos : 0 < h.nrows ∧ 0 < h.ncols ∧ 0 < h.nbands := by
    have hg : gridOK h = true ∧ 0 < h.nbands := by
      unfold assembleImage at hok
      cases hi : h.imode with
      | S => rw [hi] at hok; obtain ⟨h2, hg, _⟩ := assembleS_ok hok; exact ⟨hg, by omega⟩
      | B => rw [hi] at hok; obtain ⟨h2, hg, _⟩ := assembleBPR_ok hok; exact ⟨hg, by omega⟩
      | P => rw [hi] at hok; obtain ⟨h2, hg, _⟩ := assembleBPR_ok hok; exact ⟨hg, by omega⟩
      | R => rw [hi] at hok; obtain ⟨h2, hg, _⟩ := assembleBPR_ok hok; exact ⟨hg, by omega⟩
    have hg' := hg.1
    simp only [gridOK, decide_eq_true_eq] at hg'
    exact ⟨hg'.2.2.2.2.1, hg'.2.2.2.2.2, hg.2⟩
  obtain ⟨X, bd, w, rfl, _, hw, hX, hXs, hfmt, hcc, hraw⟩ := (assembleImage_assembled (rawO_ok o) hok').ex
  have hn : w.1 = none := hfmt
  have hsh := wrap_fshape X _ _ _ bd (rawO o) w hw hXs hcc
  refine ⟨wrap_wf X _ _ _ bd (rawO o) w hw hX hXs hcc, ?_, hpos, ?_⟩
  · rw [hsh, hn]
    show rcShape h.nrows h.ncols (rawO o) ++ (if h.nbands = 1 then [] else [h.nbands]) = _
    unfold rcShape getShape
    by_cases h1 : h.nbands = 1 <;> simp [h1, rawO]
  · intro hv idx h00 h01 h10 h11 b hb
    have hv' : Valid (rawH h) := ⟨hv.noSentinel, hv.maskLen⟩
    have := wrap_spec_plain X _ _ _ bd (rawO o) w (pixelSrc (rawH h)) hw hX hXs hn (hraw hv') idx h00 h01 h10 h11 b hb
    rw [this]
    show pixelSrc h _ _ b = _
    simp [imgRow, imgCol, rawO]

/-! ### members stacked by rows -/

/-- every member is attached to its predecessor, displaced by the predecessor's number of rows, in column 0 -/
def Stacked' : Nat → List ImageHeaderFields → Prop
  | _, [] => True
  | prev, h :: rest => h.ilocRow = prev ∧ h.ilocCol = 0 ∧ Stacked' h.nrows rest

def Stacked (hs : List ImageHeaderFields) : Prop := Stacked' 0 hs

def stackBoxes : Nat → List ImageHeaderFields → List (Nat × Nat × Nat × Nat)
  | _, [] => []
  | R, h :: rest => (R, R + h.nrows, 0, h.ncols) :: stackBoxes (R + h.nrows) rest

theorem chain_stacked : ∀ (hs : List ImageHeaderFields) (r prev : Nat), Stacked' prev hs →
    chain r 0 hs = (rowStarts (r + prev) hs).map (fun s => (s, 0))
  | [], _, _, _ => rfl
  | h :: rest, r, prev, hst => by
    obtain ⟨h1, h2, h3⟩ := hst
    simp only [chain, rowStarts, List.map_cons, h1, h2, Nat.add_zero]
    rw [chain_stacked rest (r + prev) h.nrows h3]

theorem foldl_min_zero : ∀ l : List Nat, l.foldl min 0 = 0
  | [] => rfl
  | x :: xs => by simp [List.foldl, foldl_min_zero xs]

theorem limits_stacked (hs : List ImageHeaderFields) (hst : Stacked hs) : limits hs = stackBoxes 0 hs := by
  unfold limits
  rw [chain_stacked hs 0 0 hst]
  simp only [Nat.add_zero]
  have hmr : listMin (((rowStarts 0 hs).map (fun s => (s, 0))).map (·.1)) = 0 := by
    cases hs with
    | nil => rfl
    | cons h rest => simp [rowStarts, listMin, foldl_min_zero]
  have hmc : listMin (((rowStarts 0 hs).map (fun s => (s, 0))).map (·.2)) = 0 := by
    cases hs with
    | nil => rfl
    | cons h rest => simp [rowStarts, listMin, foldl_min_zero]
  simp only [hmr, hmc, Nat.sub_zero]
  have key : ∀ (l : List ImageHeaderFields) (R : Nat),
      (((rowStarts R l).map (fun s => (s, 0))).zip l).map (fun p => (p.1.1, p.1.1 + p.2.nrows, p.1.2, p.1.2 + p.2.ncols)) = stackBoxes R l := by
    intro l
    induction l with
    | nil => intro R; rfl
    | cons h rest ih => intro R; simp [rowStarts, stackBoxes, ih]
  exact key hs 0

end Sarpy.Props.C01.Nitf
