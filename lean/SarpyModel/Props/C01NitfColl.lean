/-
  C01Nitf, part 6: a product image made of several image segments stacked by rows (`assembleCollection`): the members are assembled
  raw (bands last, no orientation), pasted at the rows the ILOC chain gives, and the orientation / complex pairing is applied to the
  mosaic.  `assembleCollection_wf`, `_shape`, `_spec`.
-/
import SarpyModel.Props.C01Nitf

namespace Sarpy.Props.C01.Nitf
open Sarpy Sarpy.Spec Sarpy.Spec.NitfAssembly Sarpy.Props.C01Seg

/-! ### a member: `assembleImage h o false` -/

def rawH (h : ImageHeaderFields) : ImageHeaderFields := { h with cplx := none }
def rawO (o : ReaderOptions) : ReaderOptions := { o with reverse := [], transpose := false }

theorem assembleImage_false {h : ImageHeaderFields} {o : ReaderOptions} {t : Seg} (hc : cplxOK h = true)
    (hok : assembleImage h o false = .ok t) : assembleImage (rawH h) (rawO o) true = .ok t := by
  rw [← hok]
  unfold assembleImage
  have hc' : cplxOK (rawH h) = true := rfl
  cases hi : h.imode with
  | S =>
    have : (rawH h).imode = .S := hi
    rw [this]
    simp only []
    unfold assembleS
    rw [hc, hc']
    rfl
  | B =>
    have : (rawH h).imode = .B := hi
    rw [this]
    simp only []
    unfold assembleBPR
    rw [hc, hc']
    have e : orientBPR (rawH h) (rawO o) true = orientBPR h o false := by
      unfold orientBPR; simp [rawH, rawO, hi]
    rw [e]
    rfl
  | P =>
    have : (rawH h).imode = .P := hi
    rw [this]
    simp only []
    unfold assembleBPR
    rw [hc, hc']
    have e : orientBPR (rawH h) (rawO o) true = orientBPR h o false := by
      unfold orientBPR; simp [rawH, rawO, hi]
    rw [e]
    rfl
  | R =>
    have : (rawH h).imode = .R := hi
    rw [this]
    simp only []
    unfold assembleBPR
    rw [hc, hc']
    have e : orientBPR (rawH h) (rawO o) true = orientBPR h o false := by
      unfold orientBPR; simp [rawH, rawO, hi]
    rw [e]
    rfl

theorem ax_last (nb : Nat) : axY nb 2 = 0 ∧ axX nb 2 = 1 ∧ axB nb 2 = 2 := by
  unfold axY axX axB; by_cases h : nb = 1 <;> simp [h]

/-- what a member of a collection is: well formed, bands last, and showing the stored samples of its image segment unoriented -/
structure Member (h : ImageHeaderFields) (t : Seg) : Prop where
  wf : t.wf = true
  total : t.total = true
  fshape : t.fshape = getShape h.nrows h.ncols h.nbands 2
  pos : 0 < h.nrows ∧ 0 < h.ncols ∧ 0 < h.nbands
  spec : Valid h → ∀ idx : Idx, 0 ≤ idx 0 → idx 0 < (h.nrows : Int) → 0 ≤ idx 1 → idx 1 < (h.ncols : Int) →
    ∀ b : Nat, (h.nbands ≠ 1 → idx 2 = (b : Int) ∧ b < h.nbands) →
      t.fullSrc.get idx = pixelSrc h (idx 0).toNat (idx 1).toNat b

theorem rawO_ok (o : ReaderOptions) : optionsOK (rawO o) = true := rfl

theorem member_of_assembled {h : ImageHeaderFields} {o : ReaderOptions} {t : Seg} (hc : cplxOK h = true)
    (hok : assembleImage h o false = .ok t) : Member h t := by
  have hok' := assembleImage_false hc hok
  have hpos : 0 < h.nrows ∧ 0 < h.ncols ∧ 0 < h.nbands := by
    have hg : gridOK h = true ∧ 0 < h.nbands := by
      unfold assembleImage at hok
      cases hi : h.imode with
      | S => rw [hi] at hok; obtain ⟨h2, hg, _⟩ := assembleS_ok hok; exact ⟨hg, by omega⟩
      | B => rw [hi] at hok; obtain ⟨h2, hg, _⟩ := assembleBPR_ok hok; exact ⟨hg, by omega⟩
      | P => rw [hi] at hok; obtain ⟨h2, hg, _⟩ := assembleBPR_ok hok; exact ⟨hg, by omega⟩
      | R => rw [hi] at hok; obtain ⟨h2, hg, _⟩ := assembleBPR_ok hok; exact ⟨hg, by omega⟩
    have hg' := hg.1
    simp only [gridOK, decide_eq_true_eq] at hg'
    exact ⟨hg'.2.2.2.2.1, hg'.2.2.2.2.2, hg.2⟩
  obtain ⟨X, bd, w, rfl, htot, _, hw, hX, hXs, hfmt, hcc, hraw⟩ := (assembleImage_assembled (rawO_ok o) hok').ex
  have hn : w.1 = none := hfmt
  have hsh := wrap_fshape X _ _ _ bd (rawO o) w hw hXs hcc
  refine ⟨wrap_wf X _ _ _ bd (rawO o) w hw hX hXs hcc, wrap_total w X htot, ?_, hpos, ?_⟩
  · rw [hsh, hn]
    show rcShape h.nrows h.ncols (rawO o) ++ (if h.nbands = 1 then [] else [h.nbands]) = _
    unfold rcShape getShape
    by_cases h1 : h.nbands = 1 <;> simp [h1, rawO]
  · intro hv idx h00 h01 h10 h11 b hb
    have hv' : Valid (rawH h) := ⟨hv.noSentinel, hv.maskLen⟩
    have := wrap_spec_plain X _ _ _ bd (rawO o) w (pixelSrc (rawH h)) hw hX hXs hn (hraw hv') idx h00 h01 h10 h11 b hb
    rw [this]
    show pixelSrc h _ _ b = _
    simp [imgRow, imgCol, rawO]

/-! ### members stacked by rows -/

/-- every member is attached to its predecessor, displaced by the predecessor's number of rows, in column 0 -/
def Stacked' : Nat → List ImageHeaderFields → Prop
  | _, [] => True
  | prev, h :: rest => h.ilocRow = prev ∧ h.ilocCol = 0 ∧ Stacked' h.nrows rest

def Stacked (hs : List ImageHeaderFields) : Prop := Stacked' 0 hs

def stackBoxes : Nat → List ImageHeaderFields → List (Nat × Nat × Nat × Nat)
  | _, [] => []
  | R, h :: rest => (R, R + h.nrows, 0, h.ncols) :: stackBoxes (R + h.nrows) rest

theorem chain_stacked : ∀ (hs : List ImageHeaderFields) (r prev : Nat), Stacked' prev hs →
    chain r 0 hs = (rowStarts (r + prev) hs).map (fun s => (s, 0))
  | [], _, _, _ => rfl
  | h :: rest, r, prev, hst => by
    obtain ⟨h1, h2, h3⟩ := hst
    simp only [chain, rowStarts, List.map_cons, h1, h2, Nat.add_zero]
    rw [chain_stacked rest (r + prev) h.nrows h3]

theorem foldl_min_zero : ∀ l : List Nat, l.foldl min 0 = 0
  | [] => rfl
  | x :: xs => by simp [List.foldl, foldl_min_zero xs]

theorem limits_stacked (hs : List ImageHeaderFields) (hst : Stacked hs) : limits hs = stackBoxes 0 hs := by
  unfold limits
  rw [chain_stacked hs 0 0 hst]
  simp only [Nat.add_zero]
  have hmr : listMin (((rowStarts 0 hs).map (fun s => (s, 0))).map (·.1)) = 0 := by
    cases hs with
    | nil => rfl
    | cons h rest => simp [rowStarts, listMin, foldl_min_zero]
  have hmc : listMin (((rowStarts 0 hs).map (fun s => (s, 0))).map (·.2)) = 0 := by
    cases hs with
    | nil => rfl
    | cons h rest => simp [rowStarts, listMin, foldl_min_zero]
  simp only [hmr, hmc, Nat.sub_zero]
  have key : ∀ (l : List ImageHeaderFields) (R : Nat),
      (((rowStarts R l).map (fun s => (s, 0))).zip l).map (fun p => (p.1.1, p.1.1 + p.2.nrows, p.1.2, p.1.2 + p.2.ncols)) = stackBoxes R l := by
    intro l
    induction l with
    | nil => intro R; rfl
    | cons h rest ih => intro R; simp [rowStarts, stackBoxes, ih]
  exact key hs 0

theorem boxLo_last (r0 re c0 ce nb : Nat) (pt : Idx) :
    boxLo (boxDef r0 re c0 ce nb 2) pt 0 = pt 0 - (r0 : Int) ∧ boxLo (boxDef r0 re c0 ce nb 2) pt 1 = pt 1 - (c0 : Int) ∧
    boxLo (boxDef r0 re c0 ce nb 2) pt 2 = pt 2 := by
  unfold boxDef boxLo
  by_cases h : nb = 1 <;> simp [h]

/-- the mosaic of row-stacked members, pointwise: the member that holds the row shows, where it is wide enough -/
theorem stacked_get (nb : Nat) : ∀ (hs : List ImageHeaderFields) (cs : List Seg), List.Forall₂ Member hs cs →
    (∀ h ∈ hs, h.nbands = nb ∧ Valid h) →
    ∀ (R : Nat) (acc : Arr Src) (pt : Idx), 0 ≤ pt 0 → 0 ≤ pt 1 → ∀ b : Nat, (nb ≠ 1 → pt 2 = (b : Int) ∧ b < nb) →
    ((mkBlks (((stackBoxes R hs).map (fun bx => boxDef bx.1 bx.2.1 bx.2.2.1 bx.2.2.2 nb 2)).zip cs)).fullOnto
        Src.leaf Src.fill acc).get pt =
      if R ≤ (pt 0).toNat then
        match locate hs ((pt 0).toNat - R) with
        | none => acc.get pt
        | some (h, yy) => if (pt 1).toNat < h.ncols then pixelSrc h yy (pt 1).toNat b else acc.get pt
      else acc.get pt
  | [], [], _, _, R, acc, pt, _, _, b, _ => by
    simp only [stackBoxes, List.map_nil, List.zip_nil_left, mkBlks, Blks.fullOnto, locate]
    split <;> rfl
  | h :: rest, t :: ts, .cons hm hrest, hall, R, acc, pt, hy0, hx0, b, hb => by
    obtain ⟨hnb, hv⟩ := hall h (by simp)
    have ih := stacked_get nb rest ts hrest (fun h' hh' => hall h' (by simp [hh'])) (R + h.nrows)
      (acc.paste (boxDef R (R + h.nrows) 0 h.ncols nb 2) (t.full Src.leaf Src.fill)) pt hy0 hx0 b hb
    simp only [stackBoxes, List.map_cons, List.zip_cons_cons, mkBlks, Blks.fullOnto]
    rw [ih]
    have hpaste : (acc.paste (boxDef R (R + h.nrows) 0 h.ncols nb 2) (t.full Src.leaf Src.fill)).get pt =
        if inBox (boxDef R (R + h.nrows) 0 h.ncols nb 2) pt then
          t.fullSrc.get (boxLo (boxDef R (R + h.nrows) 0 h.ncols nb 2) pt) else acc.get pt := rfl
    obtain ⟨a0, a1, a2⟩ := ax_last nb
    have hbox : inBox (boxDef R (R + h.nrows) 0 h.ncols nb 2) pt = true ↔
        (R ≤ (pt 0).toNat ∧ (pt 0).toNat < R + h.nrows) ∧ (pt 1).toNat < h.ncols := by
      rw [inBox_boxDef, a0, a1, a2]
      constructor
      · rintro ⟨⟨h1, h2⟩, ⟨_, h4⟩, _⟩
        refine ⟨⟨?_, ?_⟩, ?_⟩ <;> push_cast at * <;> omega
      · rintro ⟨⟨h1, h2⟩, h3⟩
        refine ⟨⟨?_, ?_⟩, ⟨?_, ?_⟩, ?_⟩
        · push_cast; omega
        · push_cast; omega
        · push_cast; omega
        · omega
        · by_cases h1' : nb = 1
          · exact Or.inl h1'
          · obtain ⟨e, hlt⟩ := hb h1'
            exact Or.inr ⟨by rw [e]; omega, by rw [e]; omega⟩
    obtain ⟨l0, l1, l2⟩ := boxLo_last R (R + h.nrows) 0 h.ncols nb pt
    by_cases hlo : R ≤ (pt 0).toNat
    · by_cases hhi : (pt 0).toNat < R + h.nrows
      · -- the row lies in this member
        have hloc : locate (h :: rest) ((pt 0).toNat - R) = some (h, (pt 0).toNat - R) := by
          simp only [locate]; rw [if_pos (by omega)]
        rw [if_neg (by omega), if_pos hlo, hloc, hpaste]
        simp only []
        by_cases hx : (pt 1).toNat < h.ncols
        · rw [if_pos hx, if_pos (hbox.2 ⟨⟨hlo, hhi⟩, hx⟩)]
          have := hm.spec hv (boxLo (boxDef R (R + h.nrows) 0 h.ncols nb 2) pt)
            (by rw [l0]; omega) (by rw [l0]; omega) (by rw [l1]; push_cast; omega) (by rw [l1]; push_cast; omega) b
            (fun hne => by rw [l2]; exact hnb ▸ hb (hnb ▸ hne))
          rw [this, l0, l1]
          congr 1 <;> omega
        · rw [if_neg hx]
          have : ¬ inBox (boxDef R (R + h.nrows) 0 h.ncols nb 2) pt = true := fun hh => hx (hbox.1 hh).2
          rw [if_neg this]
      · -- the row lies in a later member (or below all)
        have hloc : locate (h :: rest) ((pt 0).toNat - R) = locate rest ((pt 0).toNat - (R + h.nrows)) := by
          simp only [locate]; rw [if_neg (by omega)]; congr 1; omega
        have hnot : ¬ inBox (boxDef R (R + h.nrows) 0 h.ncols nb 2) pt = true := fun hh => hhi (hbox.1 hh).1.2
        rw [if_pos (by omega), if_pos hlo, hloc, hpaste, if_neg hnot]
    · have hnot : ¬ inBox (boxDef R (R + h.nrows) 0 h.ncols nb 2) pt = true := fun hh => hlo (hbox.1 hh).1.1
      rw [if_neg (by omega), if_neg hlo, hpaste, if_neg hnot]

/-! ### the collection -/

theorem mapM'_forall₂ {β γ : Type} (f : β → Except Err γ) : ∀ (l : List β) (r : List γ), mapM' f l = .ok r →
    List.Forall₂ (fun x y => f x = .ok y) l r
  | [], r, h => by simp only [mapM', Except.ok.injEq] at h; subst h; exact .nil
  | x :: xs, r, h => by
    simp only [mapM'] at h
    split at h
    · cases h
    · rename_i y hy
      split at h
      · cases h
      · rename_i ys hys
        simp only [Except.ok.injEq] at h; subst h
        exact .cons hy (mapM'_forall₂ f xs ys hys)

theorem foldl_max_le : ∀ (l : List Nat) (a : Nat), a ≤ l.foldl max a ∧ ∀ x ∈ l, x ≤ l.foldl max a
  | [], a => ⟨Nat.le_refl _, fun _ h => by simp at h⟩
  | y :: ys, a => by
    obtain ⟨h1, h2⟩ := foldl_max_le ys (max a y)
    refine ⟨by simp only [List.foldl]; omega, ?_⟩
    intro x hx
    simp only [List.foldl]
    rcases List.mem_cons.1 hx with rfl | hx
    · omega
    · exact h2 x hx

theorem le_listMax {l : List Nat} {x : Nat} (hx : x ∈ l) : x ≤ listMax l := by
  cases l with
  | nil => simp at hx
  | cons a as =>
    obtain ⟨h1, h2⟩ := foldl_max_le as a
    rcases List.mem_cons.1 hx with rfl | hx
    · exact h1
    · exact h2 x hx

theorem stack_rows : ∀ (hs : List ImageHeaderFields) (R : Nat),
    ((stackBoxes R hs).map (·.2.1)).foldl max R = R + (hs.map (·.nrows)).sum
  | [], R => by simp [stackBoxes]
  | h :: rest, R => by
    simp only [stackBoxes, List.map_cons, List.foldl, List.sum_cons]
    rw [Nat.max_eq_right (by omega), stack_rows rest (R + h.nrows)]
    omega

theorem stack_cols : ∀ (hs : List ImageHeaderFields) (R : Nat), (stackBoxes R hs).map (·.2.2.2) = hs.map (·.ncols)
  | [], _ => rfl
  | h :: rest, R => by simp [stackBoxes, stack_cols rest]

/-- total rows of the product image: the members' rows added up -/
def totalRows (hs : List ImageHeaderFields) : Nat := (hs.map (·.nrows)).sum
/-- columns of the product image: the widest member -/
def totalCols (hs : List ImageHeaderFields) : Nat := listMax (hs.map (·.ncols))

theorem stacked_mosaic_wf (nb rows cols : Nat) : ∀ (hs : List ImageHeaderFields) (cs : List Seg), List.Forall₂ Member hs cs →
    (∀ h ∈ hs, h.nbands = nb) → ∀ R : Nat, (∀ bx ∈ stackBoxes R hs, bx.2.1 ≤ rows ∧ bx.2.2.2 ≤ cols) →
    (mkBlks (((stackBoxes R hs).map (fun bx => boxDef bx.1 bx.2.1 bx.2.2.1 bx.2.2.2 nb 2)).zip cs)).wfAll
      (getShape rows cols nb 2) = true
  | [], [], _, _, _, _ => rfl
  | h :: rest, t :: ts, .cons hm hrest, hall, R, hbx => by
    have hnb := hall h (by simp)
    obtain ⟨hr, hc⟩ := hbx (R, R + h.nrows, 0, h.ncols) (by simp [stackBoxes])
    simp only [stackBoxes, List.map_cons, List.zip_cons_cons, mkBlks, Blks.wfAll, Bool.and_eq_true]
    refine ⟨⟨hm.wf, ?_⟩, stacked_mosaic_wf nb rows cols rest ts hrest (fun h' hh' => hall h' (by simp [hh'])) (R + h.nrows)
      (fun bx hb => hbx bx (by simp [stackBoxes, hb]))⟩
    rw [hm.fshape, hnb]
    have := boxOK_boxDef rows cols R (R + h.nrows) 0 h.ncols nb 2 (by have := hm.pos.1; omega) hr hm.pos.2.1 hc (hnb ▸ hm.pos.2.2)
    simpa using this

theorem stacked_mosaic_total (nb : Nat) : ∀ (hs : List ImageHeaderFields) (cs : List Seg), List.Forall₂ Member hs cs → ∀ R : Nat,
    (mkBlks (((stackBoxes R hs).map (fun bx => boxDef bx.1 bx.2.1 bx.2.2.1 bx.2.2.2 nb 2)).zip cs)).total = true
  | [], [], _, _ => rfl
  | h :: rest, t :: ts, .cons hm hrest, R => by
    simp only [stackBoxes, List.map_cons, List.zip_cons_cons, mkBlks, Blks.total, Bool.and_eq_true]
    exact ⟨hm.total, stacked_mosaic_total nb rest ts hrest (R + h.nrows)⟩

/-- what a successful assembly of a collection of two or more members went through -/
theorem assembleCollection_ok {h0 h1 : ImageHeaderFields} {rest : List ImageHeaderFields} {o : ReaderOptions} {t : Seg}
    (hok : assembleCollection (h0 :: h1 :: rest) o = .ok t) :
    optionsOK o = true ∧ (∀ h ∈ h0 :: h1 :: rest, compatible h0 h = true) ∧ cplxOK h0 = true ∧
    ∃ children, mapM' (fun h => assembleImage h o false) (h0 :: h1 :: rest) = .ok children ∧
      t = wrap (orientLast h0.cplx h0.nbands o true)
        (.blocks (if h0.nbands = 1 then [listMax ((limits (h0 :: h1 :: rest)).map (·.2.1)), listMax ((limits (h0 :: h1 :: rest)).map (·.2.2.2))]
                  else [listMax ((limits (h0 :: h1 :: rest)).map (·.2.1)), listMax ((limits (h0 :: h1 :: rest)).map (·.2.2.2)), h0.nbands])
          (mkBlks (((limits (h0 :: h1 :: rest)).map (fun b => boxDef b.1 b.2.1 b.2.2.1 b.2.2.2 h0.nbands 2)).zip children))) := by
  unfold assembleCollection at hok
  split at hok
  · cases hok
  rename_i ho
  simp only [] at hok
  split at hok
  · cases hok
  rename_i hcompat
  split at hok
  · cases hok
  rename_i hc
  split at hok
  · cases hok
  rename_i children hch
  simp only [Except.ok.injEq] at hok
  refine ⟨by simpa using ho, ?_, by simpa using hc, children, hch, hok.symm⟩
  have : (h0 :: h1 :: rest).all (compatible h0) = true := by simpa using hcompat
  exact List.all_eq_true.1 this

theorem compatible_iff {h0 h : ImageHeaderFields} (hc : compatible h0 h = true) : h.nbands = h0.nbands ∧ h.cplx = h0.cplx := by
  simp only [compatible, Bool.and_eq_true, beq_iff_eq] at hc
  exact ⟨hc.1.1.symm, hc.2.symm⟩

theorem members_of (o : ReaderOptions) : ∀ (hs : List ImageHeaderFields) (cs : List Seg),
    List.Forall₂ (fun h t => assembleImage h o false = .ok t) hs cs → (∀ h ∈ hs, cplxOK h = true) → List.Forall₂ Member hs cs
  | [], [], _, _ => .nil
  | h :: rest, t :: ts, .cons hy hrest, hc =>
    .cons (member_of_assembled (hc h (by simp)) hy) (members_of o rest ts hrest (fun h' hh' => hc h' (by simp [hh'])))

theorem rawShape_last (rows cols nb : Nat) : (if nb = 1 then [rows, cols] else [rows, cols, nb]) = getShape rows cols nb 2 := by
  unfold getShape; by_cases h : nb = 1 <;> simp [h]

/-- everything the three theorems need about an assembled row-stacked collection -/
theorem collection_assembled {h0 h1 : ImageHeaderFields} {rest : List ImageHeaderFields} {o : ReaderOptions} {t : Seg}
    (hst : Stacked (h0 :: h1 :: rest)) (hok : assembleCollection (h0 :: h1 :: rest) o = .ok t) :
    optionsOK o = true ∧ (∀ iq, h0.cplx = some iq → h0.nbands = 2) ∧
    ∃ X, t = wrap (orientLast h0.cplx h0.nbands o true) X ∧ X.total = true ∧ X.wf = true ∧
      X.fshape = getShape (totalRows (h0 :: h1 :: rest)) (totalCols (h0 :: h1 :: rest)) h0.nbands 2 ∧
      ((∀ h ∈ h0 :: h1 :: rest, Valid h) →
        RawSpec X (totalRows (h0 :: h1 :: rest)) (totalCols (h0 :: h1 :: rest)) h0.nbands 2 (stackedSrc (h0 :: h1 :: rest))) := by
  obtain ⟨ho, hcompat, hc, children, hch, rfl⟩ := assembleCollection_ok hok
  have hnb : ∀ h ∈ h0 :: h1 :: rest, h.nbands = h0.nbands := fun h hh => (compatible_iff (hcompat h hh)).1
  have hcplx : ∀ h ∈ h0 :: h1 :: rest, cplxOK h = true := by
    intro h hh
    obtain ⟨e1, e2⟩ := compatible_iff (hcompat h hh)
    unfold cplxOK at hc ⊢
    rw [e1, e2]; exact hc
  have hmem : List.Forall₂ Member (h0 :: h1 :: rest) children := members_of o _ _ (mapM'_forall₂ _ _ _ hch) hcplx
  have hrows : listMax ((limits (h0 :: h1 :: rest)).map (·.2.1)) = totalRows (h0 :: h1 :: rest) := by
    rw [limits_stacked _ hst]
    show ((stackBoxes (0 + h0.nrows) (h1 :: rest)).map (·.2.1)).foldl max (0 + h0.nrows) = _
    rw [stack_rows]; simp [totalRows]
  have hcols : listMax ((limits (h0 :: h1 :: rest)).map (·.2.2.2)) = totalCols (h0 :: h1 :: rest) := by
    rw [limits_stacked _ hst, stack_cols]; rfl
  rw [hrows, hcols, rawShape_last, limits_stacked _ hst]
  refine ⟨ho, fun iq hq => cplxOK_two hc iq hq, _, rfl, stacked_mosaic_total h0.nbands _ _ hmem 0, ?_, rfl, ?_⟩
  · show (mkBlks _).wfAll _ = true
    apply stacked_mosaic_wf h0.nbands _ _ _ _ hmem hnb 0
    intro bx hbx
    constructor
    · rw [← hrows, limits_stacked _ hst]
      exact le_listMax (List.mem_map.2 ⟨bx, hbx, rfl⟩)
    · rw [← hcols, limits_stacked _ hst]
      exact le_listMax (List.mem_map.2 ⟨bx, hbx, rfl⟩)
  · intro hv pt hy0 _ hx0 _ b hb
    obtain ⟨a0, a1, a2⟩ := ax_last h0.nbands
    rw [a0] at hy0
    rw [a1] at hx0
    rw [a2] at hb
    rw [a0, a1]
    show ((mkBlks _).fullOnto Src.leaf Src.fill (Arr.const _ Src.fill)).get pt = _
    rw [stacked_get h0.nbands _ _ hmem (fun h hh => ⟨hnb h hh, hv h hh⟩) 0 _ pt hy0 hx0 b hb]
    rw [if_pos (Nat.zero_le _), Nat.sub_zero]
    unfold stackedSrc
    cases locate (h0 :: h1 :: rest) (pt 0).toNat with
    | none => rfl
    | some p => rfl

/-- **a row-stacked collection assembles into a well-formed tree** (so `read_refines` applies to multi-segment images as well) -/
theorem assembleCollection_wf {h0 h1 : ImageHeaderFields} {rest : List ImageHeaderFields} {o : ReaderOptions} {t : Seg}
    (hst : Stacked (h0 :: h1 :: rest)) (hok : assembleCollection (h0 :: h1 :: rest) o = .ok t) : t.wf = true := by
  obtain ⟨ho, hc, X, rfl, _, hX, hXs, _⟩ := collection_assembled hst hok
  exact wrap_wf X _ _ _ 2 o _ (orientLast_ok _ _ _ _ o ho) hX hXs (fun iq hq => hc iq (by rw [orientLast_fmt] at hq; exact hq))

/-- a row-stacked collection refuses no normalised subscript: the premise `accepts` of `read_refines` holds for every subscript -/
theorem assembleCollection_total {h0 h1 : ImageHeaderFields} {rest : List ImageHeaderFields} {o : ReaderOptions} {t : Seg}
    (hst : Stacked (h0 :: h1 :: rest)) (hok : assembleCollection (h0 :: h1 :: rest) o = .ok t) : t.total = true := by
  obtain ⟨_, _, X, rfl, htot, _⟩ := collection_assembled hst hok
  exact wrap_total _ X htot

/-- **advertised shape of the product image**: (sum of the members' rows) x (widest member) [x bands] after the orientation options -/
theorem assembleCollection_shape {h0 h1 : ImageHeaderFields} {rest : List ImageHeaderFields} {o : ReaderOptions} {t : Seg}
    (hst : Stacked (h0 :: h1 :: rest)) (hok : assembleCollection (h0 :: h1 :: rest) o = .ok t) :
    t.fshape = formattedShape (totalRows (h0 :: h1 :: rest)) (totalCols (h0 :: h1 :: rest)) h0 o := by
  obtain ⟨ho, hc, X, rfl, _, hX, hXs, _⟩ := collection_assembled hst hok
  rw [wrap_fshape X _ _ _ 2 o _ (orientLast_ok _ _ _ _ o ho) hXs (fun iq hq => hc iq (by rw [orientLast_fmt] at hq; exact hq)),
    formattedShape_eq, orientLast_fmt]
  cases h0.cplx <;> rfl

/-- **specification of the product image**: formatted index (r, c, b) shows the stored sample of the member that holds the image row
    the documented reverse / transpose of (r, c) names - `pixelSrc` of that member at the row inside it -, the complex pair for I/Q
    bands -/
theorem assembleCollection_spec {h0 h1 : ImageHeaderFields} {rest : List ImageHeaderFields} {o : ReaderOptions} {t : Seg}
    (hst : Stacked (h0 :: h1 :: rest)) (hv : ∀ h ∈ h0 :: h1 :: rest, Valid h)
    (hok : assembleCollection (h0 :: h1 :: rest) o = .ok t) (idx : Idx) (hin : InR t.fshape idx) :
    t.fullSrc.get idx =
      collectionSrc (h0 :: h1 :: rest) o (totalRows (h0 :: h1 :: rest)) (totalCols (h0 :: h1 :: rest))
        (idx 0).toNat (idx 1).toNat (idx 2).toNat := by
  have hsh := assembleCollection_shape hst hok
  obtain ⟨ho, hc, X, rfl, _, hX, hXs, hraw⟩ := collection_assembled hst hok
  have hcc : ∀ iq, (orientLast h0.cplx h0.nbands o true).1 = some iq → h0.nbands = 2 :=
    fun iq hq => hc iq (by rw [orientLast_fmt] at hq; exact hq)
  rw [hsh, formattedShape_eq] at hin
  have hin' : ∃ tail, InR (rcShape (totalRows (h0 :: h1 :: rest)) (totalCols (h0 :: h1 :: rest)) o ++ tail) idx ∧
      (h0.cplx = none → h0.nbands ≠ 1 → tail = [h0.nbands]) := by
    cases hq : h0.cplx with
    | none => simp only [hq] at hin; exact ⟨_, hin, fun _ h1 => by simp [h1]⟩
    | some iq => simp only [hq] at hin; exact ⟨[], by simpa using hin, fun hn => by cases hn⟩
  obtain ⟨tail, hint, htail⟩ := hin'
  obtain ⟨hr0, hr1, hr2⟩ := InR_rc _ _ o tail idx hint
  rw [wrap_spec X _ _ _ 2 o _ (stackedSrc (h0 :: h1 :: rest)) (orientLast_ok _ _ _ _ o ho) hX hXs hcc (hraw hv) idx
    hr0.1 hr0.2 hr1.1 hr1.2 (fun hn h1 => hr2 _ (htail (by rw [orientLast_fmt] at hn; exact hn) h1))]
  unfold collectionSrc
  rw [orientLast_fmt]
  show _ = match h0.cplx with | none => _ | some true => _ | some false => _
  cases hq : h0.cplx with
  | none => rfl
  | some iq => cases iq <;> rfl

/-! satisfiable: two members (one blocked with pad pixels, one single block), two bands, stacked by rows -/
def exM0 : ImageHeaderFields :=
  { nrows := 3, ncols := 4, nbands := 2, imode := .P, nbpr := 2, nbpc := 2, nppbh := 2, nppbv := 2, bps := 1, cplx := none,
    mask := none, offset := 500, size := 4 * 8, ilocRow := 0, ilocCol := 0 }
def exM1 : ImageHeaderFields :=
  { nrows := 2, ncols := 4, nbands := 2, imode := .B, nbpr := 1, nbpc := 1, nppbh := 0, nppbv := 0, bps := 1, cplx := none,
    mask := none, offset := 900, size := 16, ilocRow := 3, ilocCol := 0 }

example : Stacked [exM0, exM1] := by simp [Stacked, Stacked', exM0, exM1]
example : ∃ t, assembleCollection [exM0, exM1] exO = .ok t ∧ t.fshape = [4, 5, 2] := ⟨_, rfl, by decide⟩
-- formatted (c, r, b) = (1, 0, 1) with rows reversed and axes transposed: image row 5 - 1 - 0 = 4, i.e. row 1 of the second member
example : collectionSrc [exM0, exM1] exO 5 4 1 0 1 = Src.leaf 900 [1, 1, 1] := by decide

end Sarpy.Props.C01.Nitf
