/-
  C08 (decoding follows the published definitions for every supported layout): the inference of the complex pair order from the
  NITF band subcategories.  The reader may combine bands into complex samples only when every pair of bands says the same thing.
-/
import SarpyModel.Spec.NitfDtype
import Mathlib.Tactic.SplitIfs
namespace Sarpy.Props.C08Order
open Sarpy.Spec.NitfDtype

/-- the labels of one pair of order `o` -/
def labels : Ord4 → String × String
  | .IQ => ("I", "Q") | .QI => ("Q", "I") | .MP => ("M", "P") | .PM => ("P", "M")

theorem pairOrder_labels (o : Ord4) (a b : String) : pairOrder a b = some o ↔ (a, b) = labels o := by
  unfold pairOrder
  constructor
  · intro h
    split_ifs at h with h1 h2 h3 h4
    · obtain ⟨rfl, rfl⟩ := h1; cases h; rfl
    · obtain ⟨rfl, rfl⟩ := h2; cases h; rfl
    · obtain ⟨rfl, rfl⟩ := h3; cases h; rfl
    · obtain ⟨rfl, rfl⟩ := h4; cases h; rfl
  · intro h
    cases o <;> simp only [labels, Prod.mk.injEq] at h <;> obtain ⟨rfl, rfl⟩ := h <;> decide

/-- the order is inferred from the first pair, and only if all later pairs are labelled the same way -/
theorem complexOrder_cons (a b : String) (rest : List String) (o : Ord4) :
    complexOrder (a :: b :: rest) = some o ↔ pairOrder a b = some o ∧ allPairs o rest = true := by
  unfold complexOrder
  cases hp : pairOrder a b with
  | none => simp [hp]
  | some o' =>
    by_cases hall : allPairs o' rest = true
    · simp only [hp, hall, if_true, Option.some.injEq]
      constructor
      · rintro rfl; exact ⟨rfl, hall⟩
      · rintro ⟨h, _⟩; exact h
    · simp only [hp, hall, Option.some.injEq]
      constructor
      · intro h; simp at h
      · rintro ⟨h, h2⟩; subst h; exact absurd h2 hall

/-- pairs are checked all the way to the end: appending one more pair keeps the verdict iff that pair is labelled `o` too -/
theorem allPairs_append_pair (o : Ord4) (a b : String) : ∀ (l : List String), l.length % 2 = 0 →
    allPairs o (l ++ [a, b]) = (allPairs o l && (pairOrder a b == some o))
  | [], _ => by simp [allPairs]
  | [_], h => by simp at h
  | x :: y :: rest, h => by
    have hr : rest.length % 2 = 0 := by simp only [List.length_cons] at h; omega
    simp only [List.cons_append, allPairs, allPairs_append_pair o a b rest hr, Bool.and_assoc]

/-- **the last pair counts**: if an order is inferred for a band list ending in the pair (a, b), that pair carries the labels of
    that order - a last pair labelled differently from the leading pairs is never silently combined with their order -/
theorem complexOrder_last_pair (x y : String) (mid : List String) (a b : String) (o : Ord4) (hm : mid.length % 2 = 0)
    (h : complexOrder (x :: y :: (mid ++ [a, b])) = some o) : (a, b) = labels o := by
  have h2 := ((complexOrder_cons x y _ o).mp h).2
  rw [allPairs_append_pair o a b mid hm] at h2
  have : pairOrder a b = some o := by
    simp only [Bool.and_eq_true, beq_iff_eq] at h2
    exact h2.2
  exact (pairOrder_labels o a b).mp this

theorem allPairs_length (o : Ord4) : ∀ (l : List String), allPairs o l = true → l.length % 2 = 0
  | [], _ => rfl
  | [_], h => by simp [allPairs] at h
  | _ :: _ :: rest, h => by
    simp only [allPairs, Bool.and_eq_true] at h
    have := allPairs_length o rest h.2
    simp only [List.length_cons]; omega

/-- an odd number of bands is never combined -/
theorem complexOrder_even (subs : List String) (o : Ord4) (h : complexOrder subs = some o) : subs.length % 2 = 0 := by
  match subs, h with
  | a :: b :: rest, h =>
    have := allPairs_length o rest ((complexOrder_cons a b rest o).mp h).2
    simp only [List.length_cons]; omega

/-- when an order is inferred the formatted band count is half the stored band count -/
theorem formattedBands_complex (o : Ord4) (subs : List String) (h : complexOrder subs = some o) : 2 * formattedBands subs = subs.length := by
  have := complexOrder_even subs o h
  simp only [formattedBands, h]; omega

theorem formattedBands_plain (subs : List String) (h : complexOrder subs = none) : formattedBands subs = subs.length := by
  simp [formattedBands, h]

example : complexOrder ["I", "Q", "I", "Q"] = some .IQ := by decide
example : complexOrder ["I", "Q", "Q", "I"] = none := by decide
example : complexOrder ["I", "Q", "", ""] = none := by decide
example : complexOrder ["Q", "I", "Q", "I", "I", "Q"] = none := by decide
example : complexOrder ["M", "P"] = some .MP ∧ complexOrder ["I"] = none ∧ complexOrder ["I", "Q", "I"] = none := by decide

end Sarpy.Props.C08Order
