/-
  C10 (a SIDD written by sarpy reads back), the step between the file layout / IID1 regrouping (Props/C10.lean, Bridge/LoopsSidd.lean)
  and the pixels: THE READER INTERPRETS THE IMAGE SUBHEADERS THE SIDD WRITER PRODUCED AS THE PIXEL ENCODING THE WRITER USED.

  Reference definitions: Spec/Hdr.lean; Bridge/Hdr.lean proves on every run that the chains regenerated from the current source
  (SIDDWritingDetails._create_image_segment_for_sidd, NITFWriter._check_image_segment_for_compliance; _get_dtype, _get_format_function,
  NITFReader / SIDDReader._check_image_segment_for_compliance, _check_iid_format) ARE these definitions.

  The SIDD standard names five pixel types.  The writer knows three (MONO8I, MONO16I, RGB24I) and REFUSES the two lookup-table types
  MONO8LU and RGB8LU (`ValueError: Unsupported PixelType`): it has no product of those types to read back (`sidd_writer_table`).
  What the reader does with a lookup-table segment made by another producer is stated too (`sidd_reads_lut`).
-/
import SarpyModel.Props.HdrCommon
import SarpyModel.Bridge.HdrSidd
import SarpyModel.Props.C13
namespace Sarpy.Props.C10
open Sarpy.Spec.Hdr Sarpy.Props.Hdr

def u1 : RawDtype := ⟨true, .u, 1⟩

/-! ### 0. congruence: which fields a SIDD reader looks at -/

theorem siddReaderCompliance_congr {h h' : ImgHdr} (e : enc h = enc h') (e1 : h.icat = h'.icat) (e2 : h.iid1 = h'.iid1) (p : Bool) :
    siddReaderCompliance h p = siddReaderCompliance h' p := by
  simp only [siddReaderCompliance, nitfReaderCompliance_congr e, e1, e2]

theorem siddRead_congr {h h' : ImgHdr} (e : enc h = enc h') (e1 : h.icat = h'.icat) (e2 : h.iid1 = h'.iid1) (p : Bool) :
    siddRead p h = siddRead p h' := by
  simp only [siddRead, siddReaderCompliance_congr e e1 e2, interp_congr e]

theorem siddWrite_congr {h h' : ImgHdr} (e : enc h = enc h') (p : Bool) : siddWrite p h = siddWrite p h' := by
  simp only [siddWrite, nitfWriterCompliance_congr e, interp_congr e]

/-! ### 1. the writer's table: three of the five pixel types -/

/-- **the writer's table over the whole enumeration**: a header is produced exactly for MONO8I, MONO16I, RGB24I -/
theorem sidd_writer_table (p : SiddPixel) (rows cols : Nat) (iid1 : String) :
    (siddHdr p rows cols iid1).isSome = decide (p ∈ SiddPixel.written) := by
  cases p <;> rfl

/-- the lookup-table pixel types are refused by the writer: there is no sarpy-written MONO8LU / RGB8LU product -/
theorem sidd_writer_refuses_lut (rows cols : Nat) (iid1 : String) :
    siddWriterHdr "MONO8LU" rows cols iid1 = .error "ValueError" ∧ siddWriterHdr "RGB8LU" rows cols iid1 = .error "ValueError" := by
  constructor <;> rfl

/-- for ANY string as the pixel type: the writer produces a header only for the three names -/
theorem sidd_writer_accepts (s : String) (rows cols : Nat) (iid1 : String) (h : ImgHdr) (hs : siddWriterHdr s rows cols iid1 = .ok h) :
    s ∈ ["MONO8I", "MONO16I", "RGB24I"] := by
  unfold siddWriterHdr SiddPixel.ofName at hs
  split_ifs at hs with h1 h2 h3 h4 h5 <;> simp_all [siddHdr]

/-- the same statement for the chain as regenerated from the source -/
theorem gen_sidd_writer_accepts (s : String) (rows cols : Nat) (iid1 : String) (h : ImgHdr)
    (hs : Gen.HdrSidd.sidd_writer_hdr s rows cols iid1 = .ok h) : s ∈ ["MONO8I", "MONO16I", "RGB24I"] := by
  rw [Bridge.HdrSidd.gen_sidd_writer_hdr] at hs
  exact sidd_writer_accepts s rows cols iid1 h hs

def u2 : RawDtype := ⟨true, .u, 2⟩

/-- what a SIDD pixel type stands for (SIDD Volume 2): unsigned samples, big-endian, no format function (formatted = raw);
    MONO8I one band of uint8, MONO16I one band of uint16 (band-sequential, axis 0), RGB24I three bands of uint8, pixel interleaved -/
def intendedSidd : SiddPixel → Option Interp
  | .MONO8I => some ⟨some u1, 1, 0, .none, .ofRaw (some u1), 1⟩
  | .MONO16I => some ⟨some u2, 1, 0, .none, .ofRaw (some u2), 1⟩
  | .RGB24I => some ⟨some u1, 3, 2, .none, .ofRaw (some u1), 3⟩
  | .MONO8LU | .RGB8LU => none

theorem siddHdr_enc (p : SiddPixel) (rows cols : Nat) (iid1 : String) (h : ImgHdr) (hh : siddHdr p rows cols iid1 = some h) :
    ∃ h0, siddHdr p 0 0 "" = some h0 ∧ enc h = enc h0 ∧ h.icat = "SAR" ∧ h0.icat = "SAR" ∧ h.iid1 = iid1 := by
  cases p <;> simp only [siddHdr, Option.some.injEq, reduceCtorEq] at hh <;> subst hh <;> exact ⟨_, rfl, rfl, rfl, rfl, rfl⟩

/-- **(2, reader)** for every pixel type the writer accepts, every segment size and every well-formed identifier: the reader accepts
    the writer's header (NITF and SIDD compliance checks) and reads the intended raw dtype, byte order, band count and band axis,
    with no format function and no lookup table -/
theorem sidd_reader_selects (p : SiddPixel) (rows cols : Nat) (iid1 : String) (pil : Bool) (h : ImgHdr)
    (hh : siddHdr p rows cols iid1 = some h) (hi : checkIidFormat iid1 = true) :
    ∃ i, intendedSidd p = some i ∧ siddRead pil h = .reads i := by
  obtain ⟨h0, hh0, e, e1, e2, e3⟩ := siddHdr_enc p rows cols iid1 h hh
  have hc : ∀ (p : SiddPixel) (pil : Bool) (h0 : ImgHdr), siddHdr p 0 0 "" = some h0 →
      ∃ i, intendedSidd p = some i ∧ nitfReaderCompliance h0 pil = true ∧ h0.icat = "SAR" ∧
        interp h0 (fun r o l b => .ok (formatFunction r o l b)) = .reads i := by
    intro p pil h0 hh0
    cases p <;> simp only [siddHdr, Option.some.injEq, reduceCtorEq] at hh0 <;> subst hh0 <;> cases pil <;>
      exact ⟨_, rfl, by decide, rfl, by decide⟩
  obtain ⟨i, hi1, hi2, hi3, hi4⟩ := hc p pil h0 hh0
  refine ⟨i, hi1, ?_⟩
  simp only [siddRead, siddReaderCompliance, nitfReaderCompliance_congr e, interp_congr e, e1, e3, hi, hi2, hi4]
  simp

/-- **(2, writer)** the writer encodes with the intended encoding -/
theorem sidd_writer_selects (p : SiddPixel) (rows cols : Nat) (iid1 : String) (pil : Bool) (h : ImgHdr)
    (hh : siddHdr p rows cols iid1 = some h) :
    ∃ i, intendedSidd p = some i ∧ siddWrite pil h = .reads i := by
  obtain ⟨h0, hh0, e, _, _, _⟩ := siddHdr_enc p rows cols iid1 h hh
  rw [siddWrite_congr e]
  cases p <;> simp only [siddHdr, Option.some.injEq, reduceCtorEq] at hh0 <;> subst hh0 <;> cases pil <;> exact ⟨_, rfl, by decide⟩

theorem sidd_reader_eq_writer (p : SiddPixel) (rows cols : Nat) (iid1 : String) (pil : Bool) (h : ImgHdr)
    (hh : siddHdr p rows cols iid1 = some h) (hi : checkIidFormat iid1 = true) : siddRead pil h = siddWrite pil h := by
  obtain ⟨i, h1, h2⟩ := sidd_reader_selects p rows cols iid1 pil h hh hi
  obtain ⟨j, h3, h4⟩ := sidd_writer_selects p rows cols iid1 pil h hh
  rw [h2, h4]; rw [h1] at h3; injection h3 with h3; rw [h3]

/-! ### 3. injectivity -/

/-- **(3)** two different pixel types never produce headers with the same raw interpretation -/
theorem sidd_dtype_injective (p q : SiddPixel) (rows cols rows' cols' : Nat) (iid1 iid1' : String) (h h' : ImgHdr)
    (hp : siddHdr p rows cols iid1 = some h) (hq : siddHdr q rows' cols' iid1' = some h')
    (hd : getDtype h = getDtype h' ∧ route h = route h') : p = q := by
  obtain ⟨h0, hh0, e, _, _, _⟩ := siddHdr_enc p rows cols iid1 h hp
  obtain ⟨h0', hh0', e', _, _, _⟩ := siddHdr_enc q rows' cols' iid1' h' hq
  have r1 : route h = route h0 := by obtain ⟨_, _, e3, e4, _, _⟩ := enc_fields e; simp only [route, e3, e4]
  have r2 : route h' = route h0' := by obtain ⟨_, _, e3, e4, _, _⟩ := enc_fields e'; simp only [route, e3, e4]
  rw [getDtype_congr e, getDtype_congr e', r1, r2] at hd
  revert hd
  cases p <;> cases q <;> simp only [siddHdr, Option.some.injEq, reduceCtorEq] at hh0 hh0' <;> subst hh0 <;> subst hh0' <;> decide

theorem intendedSidd_injective (p q : SiddPixel) (i : Interp) (hp : intendedSidd p = some i) (hq : intendedSidd q = some i) : p = q := by
  revert hp hq
  cases p <;> cases q <;> simp [intendedSidd] <;> intro h1 h2 <;> subst h1 <;> revert h2 <;> decide

/-! ### 2'. lookup-table segments (another producer's MONO8LU / RGB8LU product) -/

/-- a single-band segment whose band carries `n` lookup tables of `e` entries (NLUTS = n, NELUT = e; RGB8LU: n = 3, MONO8LU: n = 1) -/
def lutHdr (n e : Nat) (pv irep imode iid1 lab : String) (nb rows cols : Nat) : ImgHdr :=
  { pvtype := pv, nbpp := nb, abpp := nb, irep := irep, icat := "SAR", ic := "NC", imode := imode,
    bands := [⟨"", lab, some ⟨[n, e]⟩⟩], nrows := rows, ncols := cols, nppbh := nppb cols, nppbv := nppb rows, nbpr := 1, nbpc := 1,
    masked := false, iid1 := iid1 }

/-- **what the reader does with a lookup-table segment** (any table size): it attaches `SingleLUTFormatFunction` with the table
    transposed to `e x n` and reports `n` formatted bands of the table's dtype -/
theorem sidd_reads_lut (n e : Nat) (pv irep imode iid1 lab : String) (nb rows cols : Nat) (pil : Bool) (raw : RawDtype) (axis : Nat)
    (hraw : rawDtype pv (nb / 8) = .ok (some raw)) (hnb : nb ∈ [8, 16, 32, 64]) (hi : checkIidFormat iid1 = true)
    (hm : (if imode = "B" then some 0 else if imode = "R" then some 1 else if imode = "P" then some 2 else none) = some axis) :
    siddRead pil (lutHdr n e pv irep imode iid1 lab nb rows cols) =
      .reads ⟨some raw, 1, axis, .singleLut ⟨[e, n]⟩, .lutDtype, n⟩ := by
  have hc : ∀ pv, complexOrder pv [(⟨"", lab, some ⟨[n, e]⟩⟩ : Band)] = .ok none := fun _ => rfl
  have hl : lutInfo [(⟨"", lab, some ⟨[n, e]⟩⟩ : Band)] = .ok (some ⟨[e, n]⟩) := by
    simp [lutInfo, pyIdx, Lut.transpose]
  have hnc : nitfReaderCompliance (lutHdr n e pv irep imode iid1 lab nb rows cols) pil = true := by
    simp only [nitfReaderCompliance, lutHdr, hnb, decide_true, Bool.true_and]
    cases pil <;> simp [isCompressed]
  have p1 : (lutHdr n e pv irep imode iid1 lab nb rows cols).ic = "NC" := rfl
  have p2 : (lutHdr n e pv irep imode iid1 lab nb rows cols).imode = imode := rfl
  have p3 : (lutHdr n e pv irep imode iid1 lab nb rows cols).bands = [⟨"", lab, some ⟨[n, e]⟩⟩] := rfl
  have p4 : (lutHdr n e pv irep imode iid1 lab nb rows cols).pvtype = pv := rfl
  have p5 : (lutHdr n e pv irep imode iid1 lab nb rows cols).nbpp = nb := rfl
  have p6 : (lutHdr n e pv irep imode iid1 lab nb rows cols).icat = "SAR" := rfl
  have p7 : (lutHdr n e pv irep imode iid1 lab nb rows cols).iid1 = iid1 := rfl
  have hr : route (lutHdr n e pv irep imode iid1 lab nb rows cols) = some axis := by
    simp only [route, p1, p2]
    rw [if_neg (by decide)]
    exact hm
  have hg : getDtype (lutHdr n e pv irep imode iid1 lab nb rows cols) = .ok (some raw, .lutDtype, n, none, some ⟨[e, n]⟩) := by
    simp only [getDtype, p3, p4, p5, hraw, hc, hl]
    simp [pyIdx]
  simp only [siddRead, siddReaderCompliance, hnc, p6, p7, hi, interp, hr, hg, p3]
  simp [formatFunction, ctorOk]

example : rawDtype "INT" (8 / 8) = .ok (some u1) ∧ checkIidFormat "SIDD001001" = true := by decide

/-! ### 5. blocks, identifier -/

theorem siddHdr_blocks (p : SiddPixel) (rows cols : Nat) (iid1 : String) (h : ImgHdr) (hh : siddHdr p rows cols iid1 = some h) :
    h.nrows = rows ∧ h.ncols = cols ∧ h.nppbv = nppb rows ∧ h.nppbh = nppb cols ∧ h.nbpr = 1 ∧ h.nbpc = 1 := by
  cases p <;> simp only [siddHdr, Option.some.injEq, reduceCtorEq] at hh <;> subst hh <;> exact ⟨rfl, rfl, rfl, rfl, rfl, rfl⟩

open Sarpy.Spec.L in
/-- **(5)** the block fields of every SIDD segment header describe one block covering the segment, for the reference and for the
    regenerated `_construct_block_bounds` -/
theorem sidd_writer_blocks (p : SiddPixel) (rows cols : Nat) (iid1 : String) (h : ImgHdr) (hh : siddHdr p rows cols iid1 = some h)
    (hr : 1 ≤ rows) (hc : 1 ≤ cols) :
    blockBounds h.nrows h.ncols h.nppbv h.nppbh h.nbpr h.nbpc = some [((0 : Int), (rows : Int), (0 : Int), (cols : Int))] ∧
    Gen.L.construct_block_bounds h.nrows h.ncols h.nppbv h.nppbh h.nbpr h.nbpc = .ok [((0 : Int), (rows : Int), (0 : Int), (cols : Int))] := by
  obtain ⟨e1, e2, e3, e4, e5, e6⟩ := siddHdr_blocks p rows cols iid1 h hh
  rw [e1, e2, e3, e4, e5, e6]
  exact ⟨writer_blocks rows cols hr hc, gen_writer_blocks rows cols hr hc⟩

open Sarpy.Spec.FieldFmt in
/-- the identifier the writer gives to segment `k + 1` of product image `i + 1`: `'SIDD{0:03d}{1:03d}'` (numbers below 1000) -/
def siddIid (a b : Nat) : String := String.ofList ("SIDD".toList ++ ((padDigits 3 a ++ padDigits 3 b).map Char.ofNat))

theorem isDigit_ofNat (b : Nat) (h0 : 48 ≤ b) (h1 : b ≤ 57) : (Char.ofNat b).isDigit = true := by
  have : b = 48 ∨ b = 49 ∨ b = 50 ∨ b = 51 ∨ b = 52 ∨ b = 53 ∨ b = 54 ∨ b = 55 ∨ b = 56 ∨ b = 57 := by omega
  rcases this with h | h | h | h | h | h | h | h | h | h <;> subst h <;> decide

/-- every identifier of that form passes the reader's `_check_iid_format`, for all numbers -/
theorem siddIid_ok (a b : Nat) : checkIidFormat (siddIid a b) = true := by
  have hl : ((Sarpy.Spec.FieldFmt.padDigits 3 a ++ Sarpy.Spec.FieldFmt.padDigits 3 b).map Char.ofNat).length = 6 := by
    simp [Sarpy.Props.C13.padDigits_length]
  have h4 : ("SIDD".toList : List Char) = ['S', 'I', 'D', 'D'] := by decide
  simp only [checkIidFormat, pySlice, pySliceFrom, siddIid, String.toList_ofList, h4, pyIsNumeric, Bool.and_eq_true, decide_eq_true_eq]
  refine ⟨by simp, ?_, ?_⟩
  · simp only [List.cons_append, List.nil_append, List.drop_succ_cons, List.drop_zero]
    intro h
    rw [h] at hl
    simp at hl
  · simp only [List.cons_append, List.nil_append, List.drop_succ_cons, List.drop_zero, List.all_eq_true, List.mem_map]
    rintro c ⟨x, hx, rfl⟩
    rw [List.mem_append] at hx
    rcases hx with hx | hx
    · obtain ⟨u, v⟩ := Sarpy.Props.C13.padDigits_digit 3 a x hx; exact isDigit_ofNat x u v
    · obtain ⟨u, v⟩ := Sarpy.Props.C13.padDigits_digit 3 b x hx; exact isDigit_ofNat x u v

example : siddIid 1 2 = "SIDD001002" := by decide

/-! ### 7. end to end: the stored bytes of every sample come back -/

/-- **(2, end to end)** for every pixel type the writer accepts, every segment size, every identifier the writer can produce and every
    list of samples that fit the item size: the raw dtype the READER attaches to the writer's header decodes the bytes the raw dtype
    the WRITER attaches produces; neither side has a format function or a lookup table, so these are the pixels -/
theorem sidd_roundtrip (p : SiddPixel) (rows cols a b : Nat) (pil : Bool) (h : ImgHdr)
    (hh : siddHdr p rows cols (siddIid a b) = some h) (xs : List Nat) :
    ∃ iw ir dw dr, siddWrite pil h = .reads iw ∧ siddRead pil h = .reads ir ∧ iw.raw = some dw ∧ ir.raw = some dr ∧
      iw.fmt = .none ∧ ir.fmt = .none ∧ iw.rawBands = ir.rawBands ∧ iw.rawBandAxis = ir.rawBandAxis ∧
      ((∀ x ∈ xs, x < 256 ^ dw.size) → (xs.map (toBytes dw.big dw.size)).map (ofBytes dr.big) = xs) := by
  obtain ⟨i, h1, h2⟩ := sidd_reader_selects p rows cols (siddIid a b) pil h hh (siddIid_ok a b)
  obtain ⟨j, h3, h4⟩ := sidd_writer_selects p rows cols (siddIid a b) pil h hh
  have hij : j = i := by rw [h1] at h3; injection h3 with h3; exact h3.symm
  subst hij
  have : ∃ d, j.raw = some d ∧ j.fmt = .none := by
    cases p <;> simp only [intendedSidd, Option.some.injEq, reduceCtorEq] at h1 <;> subst h1 <;> exact ⟨_, rfl, rfl⟩
  obtain ⟨d, hd, hf⟩ := this
  refine ⟨j, j, d, d, h4, h2, hd, hd, hf, hf, rfl, rfl, ?_⟩
  intro hx
  exact map_roundtrip _ _ xs (fun x hxm => bytes_roundtrip d.big d.size x (hx x hxm))

end Sarpy.Props.C10
