/-
  C09 / C11 — the file image the CPHD / CRSD writer machine produces (Spec.CphdWriter), for arbitrary histories whose data agrees
  with one intended content `D` and that do not write a signal row twice.

  * `WF`                       : what the layout theorems give about a configuration (header fits, elements after the XML block,
                                 pairwise disjoint element ranges, whole rows)
  * `Inv2` / `inv2_run`        : for every such history, in both delivery protocols, at every moment:
                                 every byte of the file is characterised - header text / terminators / XML once the header is written,
                                 element `k` byte `q` = `D k q` if its row has been written (and, in memory, the element delivered), zero otherwise,
                                 zero in all padding
  * `final_image`              : after close the image depends only on *which* rows / arrays were written, not on the order of the calls,
                                 the chunking of the signal, the placement of flushes or the protocol
  * `order_chunking_independent`: two histories (any orders, chunkings, flush placements, either protocol) that cover the same rows produce
                                 the same bytes at every position
  * `rewrite_counter_example`  : the no-rewrite hypothesis is needed (in memory a repeated chunk makes an incomplete array look complete)
-/
import SarpyModel.Spec.CphdWriter
import SarpyModel.Props.C09W

namespace Sarpy.Props.C09
open Sarpy.Spec.CphdWriter

variable {α : Type}

/-- well-formed configuration (all of it follows from the layout theorems, see `wf_of_layout`) -/
structure WF (c : Cfg α) : Prop where
  hdrFits : c.hdr.len + c.term.len ≤ c.xmlOff
  afterXml : ∀ k, k < c.n → c.xmlOff + c.xml.len + c.term.len ≤ (c.item k).off
  disjoint : ∀ j k, j < c.n → k < c.n → j ≠ k →
    (c.item j).off + (c.item j).size ≤ (c.item k).off ∨ (c.item k).off + (c.item k).size ≤ (c.item j).off
  sizeRows : ∀ k, k < c.n → (c.item k).size = (c.item k).rows * (c.item k).rowBytes
  oneRow : ∀ k, k < c.n → (c.item k).kind ≠ .signal → (c.item k).rows = 1
  rowPos : ∀ k, k < c.n → 0 < (c.item k).rowBytes
  kinds : ∀ k, k < c.n → ((c.item k).kind = .signal ↔ c.nchan + c.nsup ≤ k)

/-- row `r` has been written -/
def rowDone (l : List Bool) (r : Nat) : Bool := l.getD r false

theorem rowDone_markRows (l : List Bool) (r n q : Nat) :
    rowDone (markRows l r n) q = (decide (r ≤ q ∧ q < r + n ∧ q < l.length) || rowDone l q) := markRows_getD l r n q
theorem rowDone_of_full (l : List Bool) (h : cntRows l = l.length) (q : Nat) (hq : q < l.length) : rowDone l q = true :=
  getD_of_cntRows_full l h q hq
theorem rowDone_of_zero (l : List Bool) (h : cntRows l = 0) (q : Nat) : rowDone l q = false := getD_of_cntRows_zero l h q
theorem rowDone_replicate_false (n q : Nat) : rowDone (List.replicate n false) q = false := by
  unfold rowDone
  induction n generalizing q with
  | zero => rfl
  | succ n ih =>
    cases q with
    | zero => rfl
    | succ q => exact ih q

/-- byte `q` of element `k` as the file should show it: the intended content where the row has been written, zero elsewhere -/
def cellOf (c : Cfg α) (D : Nat → Nat → α) (e : El α) (k q : Nat) : α :=
  if rowDone e.done (q / (c.item k).rowBytes) = true then D k q else c.zero

/-- the data of an operation is the corresponding part of the intended content `D` -/
def Agree (c : Cfg α) (D : Nat → Nat → α) : Op α → Prop
  | .writePvp i d _ => ∀ q, q < d.len → d.get q = D i q
  | .writeSup j d => ∀ q, q < d.len → d.get q = D (c.supIdx j) q
  | .writeSig i r0 d _ => ∀ q, q < d.len → d.get q = D (c.sigIdx i) (r0 * (c.item (c.sigIdx i)).rowBytes + q)
  | _ => True

/-- an accepted signal chunk only touches rows that have not been written yet -/
def Fresh (c : Cfg α) (s : State α) : Op α → Prop
  | .writeSig i r0 d raw =>
    sigBad c s i r0 d raw ∨ freshRows (s.el (c.sigIdx i)).done r0 (d.len / (c.item (c.sigIdx i)).rowBytes) = true
  | _ => True

/-- a history all of whose operations agree with `D` and are fresh at the moment they are issued -/
def GoodRun (c : Cfg α) (D : Nat → Nat → α) : State α → List (Op α) → Prop
  | _, [] => True
  | s, op :: ops => Agree c D op ∧ Fresh c s op ∧ GoodRun c D (step c s op).1 ops

/-- position `p` belongs to no header / XML / element range -/
def Outside (c : Cfg α) (p : Nat) : Prop :=
  c.hdr.len + c.term.len ≤ p ∧ ¬ (c.xmlOff ≤ p ∧ p < c.xmlOff + c.xml.len + c.term.len) ∧
  ∀ k, k < c.n → ¬ ((c.item k).off ≤ p ∧ p < (c.item k).off + (c.item k).size)

/-- the clauses of the invariant that speak about one element `k` in state `e`, against the file `ws` -/
structure LocalOk (c : Cfg α) (D : Nat → Nat → α) (closed : Bool) (ws : List (W α)) (k : Nat) (e : El α) : Prop where
  doneLen : e.done.length = (c.item k).rows
  bytesOk : ∀ b, e.bytes = some b → b.len = (c.item k).size ∧ ∀ q, q < (c.item k).size → b.get q = cellOf c D e k q
  bytesStable : e.bytes.isSome = true → closed = true ∨ cntRows e.done = (c.item k).rows
  storeOk : c.inMem = true → (c.item k).kind = .signal → ∀ q, q < (c.item k).size → rdW c.zero e.store q = cellOf c D e k q
  countOk : (c.item k).kind = .signal → e.count = (c.item k).rowBytes * cntRows e.done
  noBytesNoRows : c.inMem = true → (c.item k).kind ≠ .signal → e.bytes = none → cntRows e.done = 0
  itemRd : ∀ q, q < (c.item k).size →
    rdW c.zero ws ((c.item k).off + q) = if c.inMem = true ∧ e.written = false then c.zero else cellOf c D e k q

/-- the clauses about header, XML and padding -/
structure GlobalOk (c : Cfg α) (hdrWritten : Bool) (ws : List (W α)) : Prop where
  hdrRd : ∀ p, p < c.hdr.len → rdW c.zero ws p = if hdrWritten = true then c.hdr.get p else c.zero
  term1Rd : ∀ p, p < c.term.len → rdW c.zero ws (c.hdr.len + p) = if hdrWritten = true then c.term.get p else c.zero
  xmlRd : ∀ p, p < c.xml.len → rdW c.zero ws (c.xmlOff + p) = if hdrWritten = true then c.xml.get p else c.zero
  term2Rd : ∀ p, p < c.term.len → rdW c.zero ws (c.xmlOff + c.xml.len + p) = if hdrWritten = true then c.term.get p else c.zero
  padRd : ∀ p, Outside c p → rdW c.zero ws p = c.zero

/-- **the image invariant** -/
structure Inv2 (c : Cfg α) (D : Nat → Nat → α) (s : State α) : Prop where
  loc : ∀ k, k < c.n → LocalOk c D s.closed s.ws k (s.el k)
  glob : GlobalOk c s.hdrWritten s.ws

theorem inv2_init (c : Cfg α) (D : Nat → Nat → α) : Inv2 c D (init c) where
  loc := fun k hk => {
    doneLen := by simp [init]
    bytesOk := fun b h => by simp [init] at h
    bytesStable := fun h => by simp [init] at h
    storeOk := fun _ _ q _ => by simp [init, rdW, cellOf, rowDone_replicate_false]
    countOk := fun _ => by simp [init, cntRows_replicate_false]
    noBytesNoRows := fun _ _ _ => by simp [init, cntRows_replicate_false]
    itemRd := fun q _ => by simp [init, rdW, cellOf, rowDone_replicate_false] }
  glob := {
    hdrRd := fun p _ => by simp [init, rdW]
    term1Rd := fun p _ => by simp [init, rdW]
    xmlRd := fun p _ => by simp [init, rdW]
    term2Rd := fun p _ => by simp [init, rdW]
    padRd := fun p _ => by simp [init, rdW] }

/-! ### reading through new writes -/

def covers (w : W α) (p : Nat) : Prop := w.off ≤ p ∧ p < w.off + w.data.len

theorem rdW_cons (z : α) (w : W α) (ws : List (W α)) (p : Nat) :
    rdW z (w :: ws) p = if w.off ≤ p ∧ p < w.off + w.data.len then w.data.get (p - w.off) else rdW z ws p := rfl

theorem rdW_cons_mk (z : α) (fo : Bool) (off : Nat) (data : Blk α) (ws : List (W α)) (p : Nat) :
    rdW z (⟨fo, off, data⟩ :: ws) p = if off ≤ p ∧ p < off + data.len then data.get (p - off) else rdW z ws p := rfl

theorem rdW_append_not_covered (z : α) (a b : List (W α)) (p : Nat) (h : ∀ w ∈ a, ¬ covers w p) :
    rdW z (a ++ b) p = rdW z b p := by
  induction a with
  | nil => rfl
  | cons w a ih =>
    have hw : ¬ (w.off ≤ p ∧ p < w.off + w.data.len) := h w (by simp)
    rw [List.cons_append, rdW_cons, if_neg hw]
    exact ih (fun w' hw' => h w' (by simp [hw']))

theorem rdW_items_covered (z : α) (f : Nat → W α) (l : List Nat) (ws : List (W α)) (p k0 : Nat) (hk : k0 ∈ l)
    (hc : covers (f k0) p) (hn : ∀ j ∈ l, j ≠ k0 → ¬ covers (f j) p) :
    rdW z ((l.map f).reverse ++ ws) p = (f k0).data.get (p - (f k0).off) := by
  induction l generalizing ws with
  | nil => simp at hk
  | cons j l ih =>
    have e : ((j :: l).map f).reverse ++ ws = (l.map f).reverse ++ (f j :: ws) := by simp
    rw [e]
    by_cases hk' : k0 ∈ l
    · exact ih (f j :: ws) hk' (fun j' hj' hne => hn j' (by simp [hj']) hne)
    · have hj : k0 = j := by
        rcases List.mem_cons.mp hk with h | h
        · exact h
        · exact absurd h hk'
      subst hj
      rw [rdW_append_not_covered]
      · rw [rdW_cons]; exact if_pos hc
      · intro w hw
        simp only [List.mem_reverse, List.mem_map] at hw
        obtain ⟨j', hj', rfl⟩ := hw
        exact hn j' (by simp [hj']) (fun e => hk' (e ▸ hj'))

/-! ### frame lemmas -/

theorem localOk_frame (c : Cfg α) (D : Nat → Nat → α) (cl cl' : Bool) (ws ws' : List (W α)) (k : Nat) (e : El α)
    (h : LocalOk c D cl ws k e) (hcl : cl = true → cl' = true)
    (hrd : ∀ q, q < (c.item k).size → rdW c.zero ws' ((c.item k).off + q) = rdW c.zero ws ((c.item k).off + q)) :
    LocalOk c D cl' ws' k e where
  doneLen := h.doneLen
  bytesOk := h.bytesOk
  bytesStable := fun hb => (h.bytesStable hb).imp hcl id
  storeOk := h.storeOk
  countOk := h.countOk
  noBytesNoRows := h.noBytesNoRows
  itemRd := fun q hq => by rw [hrd q hq]; exact h.itemRd q hq

theorem globalOk_frame (c : Cfg α) (hw : Bool) (ws ws' : List (W α)) (h : GlobalOk c hw ws)
    (h1 : ∀ p, p < c.hdr.len + c.term.len → rdW c.zero ws' p = rdW c.zero ws p)
    (h2 : ∀ p, c.xmlOff ≤ p → p < c.xmlOff + c.xml.len + c.term.len → rdW c.zero ws' p = rdW c.zero ws p)
    (h3 : ∀ p, Outside c p → rdW c.zero ws' p = rdW c.zero ws p) : GlobalOk c hw ws' where
  hdrRd := fun p hp => by rw [h1 p (by omega)]; exact h.hdrRd p hp
  term1Rd := fun p hp => by rw [h1 _ (by omega)]; exact h.term1Rd p hp
  xmlRd := fun p hp => by rw [h2 _ (by omega) (by omega)]; exact h.xmlRd p hp
  term2Rd := fun p hp => by rw [h2 _ (by omega) (by omega)]; exact h.term2Rd p hp
  padRd := fun p hp => by rw [h3 p hp]; exact h.padRd p hp

/-- replace the state of the elements, file unchanged -/
theorem inv2_replace_el (c : Cfg α) (D : Nat → Nat → α) (s : State α) (el' : Nat → El α) (hi : Inv2 c D s)
    (h : ∀ k, k < c.n → LocalOk c D s.closed s.ws k (el' k)) : Inv2 c D { s with el := el' } where
  loc := h
  glob := hi.glob

theorem inv2_setEl (c : Cfg α) (D : Nat → Nat → α) (s : State α) (k : Nat) (e' : El α) (hi : Inv2 c D s)
    (h : LocalOk c D s.closed s.ws k e') : Inv2 c D { s with el := setEl s.el k e' } := by
  refine inv2_replace_el c D s _ hi (fun j hj => ?_)
  simp only [setEl]
  split
  · rename_i e; subst e; exact h
  · exact hi.loc j hj

/-- one write that lies inside the range of element `k`, together with a new state of that element -/
theorem inv2_write_in_item (c : Cfg α) (D : Nat → Nat → α) (hwf : WF c) (s : State α) (k : Nat) (hk : k < c.n) (w : W α) (e' : El α)
    (hi : Inv2 c D s) (hin : (c.item k).off ≤ w.off ∧ w.off + w.data.len ≤ (c.item k).off + (c.item k).size)
    (h : LocalOk c D s.closed (w :: s.ws) k e') : Inv2 c D { s with ws := w :: s.ws, el := setEl s.el k e' } where
  loc := fun j hj => by
    simp only [setEl]
    split
    · rename_i e; subst e; exact h
    · rename_i hne
      refine localOk_frame c D _ _ s.ws _ j _ (hi.loc j hj) id (fun q hq => ?_)
      rw [rdW_cons, if_neg]
      have := hwf.disjoint j k hj hk hne
      omega
  glob := by
    refine globalOk_frame c _ s.ws _ hi.glob ?_ ?_ ?_
    · intro p hp
      rw [rdW_cons, if_neg]
      have := hwf.afterXml k hk; have := hwf.hdrFits
      omega
    · intro p hp1 hp2
      rw [rdW_cons, if_neg]
      have := hwf.afterXml k hk
      omega
    · intro p hp
      rw [rdW_cons, if_neg]
      have := hp.2.2 k hk
      omega

/-! ### rows and byte positions -/

theorem chunk_rows (rb r0 nr q : Nat) (hrb : 0 < rb) :
    (r0 * rb ≤ q ∧ q < r0 * rb + nr * rb) ↔ (r0 ≤ q / rb ∧ q / rb < r0 + nr) := by
  rw [Nat.le_div_iff_mul_le hrb, Nat.div_lt_iff_lt_mul hrb, Nat.add_mul]

/-- after marking the rows of a chunk, an element shows `D` on the bytes of the chunk and what it showed before elsewhere -/
theorem cellOf_mark (c : Cfg α) (D : Nat → Nat → α) (e e' : El α) (k q r0 nr : Nat)
    (hd : e'.done = markRows e.done r0 nr) (hlen : e.done.length = (c.item k).rows)
    (hsz : (c.item k).size = (c.item k).rows * (c.item k).rowBytes) (hrb : 0 < (c.item k).rowBytes) (hq : q < (c.item k).size) :
    cellOf c D e' k q =
      if r0 * (c.item k).rowBytes ≤ q ∧ q < r0 * (c.item k).rowBytes + nr * (c.item k).rowBytes then D k q else cellOf c D e k q := by
  have hrow : q / (c.item k).rowBytes < e.done.length := by
    rw [hlen, Nat.div_lt_iff_lt_mul hrb, ← hsz]; exact hq
  unfold cellOf
  rw [hd, rowDone_markRows]
  by_cases hin : r0 * (c.item k).rowBytes ≤ q ∧ q < r0 * (c.item k).rowBytes + nr * (c.item k).rowBytes
  · have := (chunk_rows _ r0 nr q hrb).mp hin
    rw [if_pos hin]
    simp [this.1, this.2, hrow]
  · have : ¬ (r0 ≤ q / (c.item k).rowBytes ∧ q / (c.item k).rowBytes < r0 + nr) := fun h => hin ((chunk_rows _ r0 nr q hrb).mpr h)
    rw [if_neg hin]
    have e : decide (r0 ≤ q / (c.item k).rowBytes ∧ q / (c.item k).rowBytes < r0 + nr ∧ q / (c.item k).rowBytes < e.done.length) = false := by
      simp only [decide_eq_false_iff_not]
      intro h; exact this ⟨h.1, h.2.1⟩
    rw [e, Bool.false_or]

/-- a one-row element (PVP / support array) after its write: every byte shows `D` -/
theorem cellOf_mark_whole (c : Cfg α) (D : Nat → Nat → α) (hwf : WF c) (e e' : El α) (k q : Nat) (hk : k < c.n)
    (hkind : (c.item k).kind ≠ .signal) (hd : e'.done = markRows e.done 0 1) (hlen : e.done.length = (c.item k).rows)
    (hq : q < (c.item k).size) : cellOf c D e' k q = D k q := by
  have h1 := hwf.oneRow k hk hkind
  have hsz := hwf.sizeRows k hk
  rw [cellOf_mark c D e e' k q 0 1 hd hlen hsz (hwf.rowPos k hk) hq, if_pos]
  rw [h1] at hsz
  omega

theorem cntRows_mark_whole (l : List Bool) (h : l.length = 1) : cntRows (markRows l 0 1) = 1 := by
  match l, h with
  | [b], _ => simp [markRows, cntRows]

/-! ### the operations preserve the image invariant -/

theorem inv2_putData (c : Cfg α) (D : Nat → Nat → α) (hwf : WF c) (s : State α) (k : Nat) (d : Blk α) (hk : k < c.n)
    (hkind : (c.item k).kind ≠ .signal) (hlen : d.len = (c.item k).size) (hag : ∀ q, q < d.len → d.get q = D k q)
    (hi1 : Inv1 c s) (hi : Inv2 c D s) : Inv2 c D (putData c s k d).1 := by
  have L := hi.loc k hk
  unfold putData
  cases hm : c.inMem with
  | true =>
    simp only [if_true]
    cases hb : (s.el k).bytes.isSome with
    | true => simpa using hi
    | false =>
      simp only [Bool.false_eq_true, if_false]
      have hw : (s.el k).written = false := by
        cases hw : (s.el k).written with
        | false => rfl
        | true => have := hi1.writtenBytes hm k hw; rw [hb] at this; simp at this
      refine inv2_setEl c D s k _ hi ?_
      exact {
        doneLen := by simp [markRows_length, L.doneLen]
        bytesOk := fun b hbe => by
          simp only [Option.some.injEq] at hbe
          subst hbe
          refine ⟨hlen, fun q hq => ?_⟩
          rw [hag q (by omega)]
          exact (cellOf_mark_whole c D hwf (s.el k) _ k q hk hkind rfl L.doneLen hq).symm
        bytesStable := fun _ => Or.inr (by
          have h1 := hwf.oneRow k hk hkind
          show cntRows (markRows (s.el k).done 0 1) = (c.item k).rows
          rw [h1]; exact cntRows_mark_whole _ (by rw [L.doneLen, h1]))
        storeOk := fun _ hs => absurd hs hkind
        countOk := fun hs => absurd hs hkind
        noBytesNoRows := fun _ _ h => by simp at h
        itemRd := fun q hq => by
          have := L.itemRd q hq
          rw [if_pos ⟨hm, hw⟩] at this
          rw [this, if_pos ⟨hm, hw⟩] }
  | false =>
    simp only [Bool.false_eq_true, if_false]
    have hnb := hi1.realNoBytes hm k
    refine inv2_write_in_item c D hwf s k hk _ _ hi ⟨Nat.le_refl _, by simp [hlen]⟩ ?_
    exact {
      doneLen := by simp [markRows_length, L.doneLen]
      bytesOk := fun b hbe => by simp [hnb] at hbe
      bytesStable := fun hbe => by simp [hnb] at hbe
      storeOk := fun h => by simp [hm] at h
      countOk := fun hs => absurd hs hkind
      noBytesNoRows := fun h => by simp [hm] at h
      itemRd := fun q hq => by
        rw [rdW_cons_mk, if_pos ⟨Nat.le_add_right _ _, by omega⟩, if_neg (by simp [hm])]
        simp only [Nat.add_sub_cancel_left]
        rw [hag q (by omega)]
        exact (cellOf_mark_whole c D hwf (s.el k) _ k q hk hkind rfl L.doneLen hq).symm }

theorem inv2_putChunk (c : Cfg α) (D : Nat → Nat → α) (hwf : WF c) (s : State α) (k r0 : Nat) (d : Blk α) (hk : k < c.n)
    (hkind : (c.item k).kind = .signal) (hcl : s.closed = false)
    (hne : d.len ≠ 0) (hmod : d.len % (c.item k).rowBytes = 0) (hfit : r0 + d.len / (c.item k).rowBytes ≤ (c.item k).rows)
    (hag : ∀ q, q < d.len → d.get q = D k (r0 * (c.item k).rowBytes + q))
    (hfresh : freshRows (s.el k).done r0 (d.len / (c.item k).rowBytes) = true)
    (raw : Bool) (hi1 : Inv1 c s) (hi : Inv2 c D s) : Inv2 c D (putChunk c s k r0 d raw) := by
  have L := hi.loc k hk
  have hrb := hwf.rowPos k hk
  have hsz := hwf.sizeRows k hk
  have hlen : d.len = d.len / (c.item k).rowBytes * (c.item k).rowBytes :=
    (Nat.div_mul_cancel (Nat.dvd_of_mod_eq_zero hmod)).symm
  have hnr : 1 ≤ d.len / (c.item k).rowBytes := by
    rcases Nat.eq_zero_or_pos (d.len / (c.item k).rowBytes) with h0 | h0
    · rw [h0] at hlen; omega
    · exact h0
  -- a delivered element is complete (or the writer closed): no fresh chunk can follow
  have hnb : (s.el k).bytes = none := by
    cases hb : (s.el k).bytes with
    | none => rfl
    | some b =>
      rcases L.bytesStable (by simp [hb]) with h | h
      · rw [hcl] at h; simp at h
      · obtain ⟨n, hn⟩ : ∃ n, d.len / (c.item k).rowBytes = n + 1 := ⟨d.len / (c.item k).rowBytes - 1, by omega⟩
        rw [hn, not_fresh_of_full _ r0 n (by rw [h, L.doneLen])] at hfresh
        simp at hfresh
  have hcell : ∀ (e' : El α), e'.done = markRows (s.el k).done r0 (d.len / (c.item k).rowBytes) → ∀ q, q < (c.item k).size →
      cellOf c D e' k q = if r0 * (c.item k).rowBytes ≤ q ∧ q < r0 * (c.item k).rowBytes + d.len then D k q else cellOf c D (s.el k) k q := by
    intro e' he q hq
    have := cellOf_mark c D (s.el k) e' k q r0 _ he L.doneLen hsz hrb hq
    rw [← hlen] at this
    exact this
  have hcount : (s.el k).count + d.len = (c.item k).rowBytes * cntRows (markRows (s.el k).done r0 (d.len / (c.item k).rowBytes)) := by
    rw [cntRows_markRows_fresh _ _ _ hfresh, L.countOk hkind, Nat.mul_add, Nat.mul_comm (c.item k).rowBytes (d.len / _), ← hlen]
  have hrange : r0 * (c.item k).rowBytes + d.len ≤ (c.item k).size := by
    rw [hsz, hlen, ← Nat.add_mul]
    exact Nat.mul_le_mul_right _ hfit
  unfold putChunk
  cases hm : c.inMem with
  | true =>
    simp only [if_true]
    have hw : (s.el k).written = false := by
      cases hw : (s.el k).written with
      | false => rfl
      | true => have := hi1.writtenBytes hm k hw; rw [hnb] at this; simp at this
    refine inv2_setEl c D s k _ hi ?_
    exact {
      doneLen := by simp [markRows_length, L.doneLen]
      bytesOk := fun b hbe => by simp [hnb] at hbe
      bytesStable := fun hbe => by simp [hnb] at hbe
      storeOk := fun _ _ q hq => by
        rw [rdW_cons_mk, hcell _ rfl q hq]
        by_cases hin : r0 * (c.item k).rowBytes ≤ q ∧ q < r0 * (c.item k).rowBytes + d.len
        · rw [if_pos hin, if_pos hin, hag _ (by omega)]
          congr 1; omega
        · rw [if_neg hin, if_neg hin]
          exact L.storeOk hm hkind q hq
      countOk := fun _ => hcount
      noBytesNoRows := fun _ h => absurd hkind h
      itemRd := fun q hq => by
        have := L.itemRd q hq
        rw [if_pos ⟨hm, hw⟩] at this
        rw [this, if_pos ⟨hm, hw⟩] }
  | false =>
    simp only [Bool.false_eq_true, if_false]
    refine inv2_write_in_item c D hwf s k hk ⟨false, (c.item k).off + r0 * (c.item k).rowBytes, d⟩ _ hi ⟨Nat.le_add_right _ _, by show (c.item k).off + r0 * (c.item k).rowBytes + d.len ≤ _; omega⟩ ?_
    exact {
      doneLen := by simp [markRows_length, L.doneLen]
      bytesOk := fun b hbe => by simp [hnb] at hbe
      bytesStable := fun hbe => by simp [hnb] at hbe
      storeOk := fun h => by simp [hm] at h
      countOk := fun _ => hcount
      noBytesNoRows := fun h => by simp [hm] at h
      itemRd := fun q hq => by
        rw [rdW_cons_mk]
        simp only [hm, Bool.false_eq_true, false_and, if_false]
        rw [hcell _ rfl q hq]
        by_cases hin : r0 * (c.item k).rowBytes ≤ q ∧ q < r0 * (c.item k).rowBytes + d.len
        · rw [if_pos hin, if_pos (by omega), hag _ (by omega)]
          congr 1; omega
        · rw [if_neg hin, if_neg (by omega)]
          have := L.itemRd q hq
          rw [if_neg (by simp [hm])] at this
          exact this }

theorem inv2_snapPhase (c : Cfg α) (D : Nat → Nat → α) (hwf : WF c) (f : Bool) (s : State α) (hf : f = true → s.closed = true)
    (hi : Inv2 c D s) : Inv2 c D (snapPhase c f s) := by
  refine inv2_replace_el c D s _ hi (fun k hk => ?_)
  have L := hi.loc k hk
  unfold snapEl
  split
  · rename_i hc
    simp only [Bool.and_eq_true, decide_eq_true_eq, Bool.not_eq_true', Bool.or_eq_true] at hc
    obtain ⟨⟨⟨⟨⟨hm, _⟩, hkind⟩, hw⟩, hnb⟩, hfc⟩ := hc
    exact {
      doneLen := L.doneLen
      bytesOk := fun b hbe => by
        simp only [Option.some.injEq] at hbe
        subst hbe
        exact ⟨rfl, fun q hq => L.storeOk hm hkind q hq⟩
      bytesStable := fun _ => by
        rcases hfc with h | h
        · exact Or.inl (hf h)
        · right
          have h1 := L.countOk hkind
          have h2 := hwf.sizeRows k hk
          have h3 := hwf.rowPos k hk
          rw [h1, h2, Nat.mul_comm (c.item k).rows] at h
          exact Nat.eq_of_mul_eq_mul_left h3 h
      storeOk := L.storeOk
      countOk := L.countOk
      noBytesNoRows := fun _ h => absurd hkind h
      itemRd := L.itemRd }
  · exact L

theorem inv2_set_closed (c : Cfg α) (D : Nat → Nat → α) (s : State α) (hi : Inv2 c D s) : Inv2 c D { s with closed := true } where
  loc := fun k hk => localOk_frame c D _ _ s.ws _ k _ (hi.loc k hk) (fun _ => rfl) (fun _ _ => rfl)
  glob := hi.glob

theorem inv2_hdrPhase (c : Cfg α) (D : Nat → Nat → α) (hwf : WF c) (s : State α) (hi1 : Inv1 c s) (hi : Inv2 c D s) :
    Inv2 c D (hdrPhase c s) := by
  unfold hdrPhase
  cases hh : s.hdrWritten with
  | true => simpa using hi
  | false =>
    simp only [Bool.false_eq_true, if_false]
    have hp := (hi1.hdr0 hh).1
    have G := hi.glob
    rw [hh] at G
    have hfit := hwf.hdrFits
    exact {
      loc := fun k hk => by
        refine localOk_frame c D _ _ s.ws _ k _ (hi.loc k hk) id (fun q hq => ?_)
        have := hwf.afterXml k hk
        rw [hp]
        simp only [hdrWrites, List.cons_append, List.nil_append, rdW_cons_mk]
        rw [if_neg (by omega), if_neg (by omega), if_neg (by omega), if_neg (by omega)]
      glob := by
        rw [hp]
        simp only [hdrWrites, List.cons_append, List.nil_append]
        exact {
          hdrRd := fun p hpp => by
            simp only [rdW_cons_mk]
            rw [if_neg (by omega), if_neg (by omega), if_neg (by omega), if_pos (by omega)]
            simp
          term1Rd := fun p hpp => by
            simp only [rdW_cons_mk]
            rw [if_neg (by omega), if_neg (by omega), if_pos (by omega)]
            simp
          xmlRd := fun p hpp => by
            simp only [rdW_cons_mk]
            rw [if_neg (by omega), if_pos (by omega)]
            simp
          term2Rd := fun p hpp => by
            simp only [rdW_cons_mk]
            rw [if_pos (by omega)]
            simp [Nat.add_sub_cancel_left]
          padRd := fun p hpp => by
            have h1 := hpp.1
            have h2 := hpp.2.1
            simp only [rdW_cons_mk]
            rw [if_neg (by omega), if_neg (by omega), if_neg (by omega), if_neg (by omega)]
            have := G.padRd p hpp
            simpa using this } }

/-- a pending element's write covers exactly the element's range -/
theorem covers_itemWrite (c : Cfg α) (D : Nat → Nat → α) (s : State α) (hi : Inv2 c D s) (j p : Nat) (hj : j ∈ todo c s)
    (h : covers (itemWrite c s.el j) p) : (c.item j).off ≤ p ∧ p < (c.item j).off + (c.item j).size := by
  obtain ⟨hjn, _, hb⟩ := (mem_todo c s j).mp hj
  cases hbe : (s.el j).bytes with
  | none => rw [hbe] at hb; simp at hb
  | some b =>
    have := ((hi.loc j hjn).bytesOk b hbe).1
    simp only [covers, itemWrite, hbe, Option.getD_some] at h
    omega

theorem inv2_itemsPhase (c : Cfg α) (D : Nat → Nat → α) (hwf : WF c) (s : State α) (hi : Inv2 c D s) :
    Inv2 c D (itemsPhase c s) := by
  have hws : (itemsPhase c s).ws = ((todo c s).map (itemWrite c s.el)).reverse ++ s.ws := rfl
  have hnc : ∀ p, (∀ j, j ∈ todo c s → ¬ ((c.item j).off ≤ p ∧ p < (c.item j).off + (c.item j).size)) →
      rdW c.zero (itemsPhase c s).ws p = rdW c.zero s.ws p := by
    intro p hp
    rw [hws, rdW_append_not_covered]
    intro w hw
    simp only [List.mem_reverse, List.mem_map] at hw
    obtain ⟨j, hj, rfl⟩ := hw
    exact fun hcov => hp j hj (covers_itemWrite c D s hi j p hj hcov)
  exact {
    loc := fun k hk => by
      have L := hi.loc k hk
      by_cases hkt : k ∈ todo c s
      · obtain ⟨_, hw, hb⟩ := (mem_todo c s k).mp hkt
        have hel : (itemsPhase c s).el k = { s.el k with written := true } := by
          simp only [itemsPhase]
          rw [if_pos ⟨hk, by simp [pending, hw, hb]⟩]
        rw [hel]
        cases hbe : (s.el k).bytes with
        | none => rw [hbe] at hb; simp at hb
        | some b =>
          obtain ⟨hbl, hbg⟩ := L.bytesOk b hbe
          exact {
            doneLen := L.doneLen
            bytesOk := L.bytesOk
            bytesStable := L.bytesStable
            storeOk := L.storeOk
            countOk := L.countOk
            noBytesNoRows := L.noBytesNoRows
            itemRd := fun q hq => by
              rw [if_neg (by simp), hws]
              rw [rdW_items_covered c.zero (itemWrite c s.el) (todo c s) s.ws _ k hkt]
              · simp only [itemWrite, hbe, Option.getD_some, Nat.add_sub_cancel_left]
                exact hbg q hq
              · simp only [covers, itemWrite, hbe, Option.getD_some]; omega
              · intro j hj hne hcov
                have hjr := covers_itemWrite c D s hi j _ hj hcov
                have := hwf.disjoint j k ((mem_todo c s j).mp hj).1 hk hne
                omega }
      · have hel : (itemsPhase c s).el k = s.el k := by
          simp only [itemsPhase]
          rw [if_neg]
          intro h
          apply hkt
          rw [mem_todo]
          simp only [pending, Bool.and_eq_true, Bool.not_eq_true'] at h
          exact ⟨hk, h.2.1, h.2.2⟩
        rw [hel]
        refine localOk_frame c D _ _ s.ws _ k _ L id (fun q hq => hnc _ (fun j hj hr => ?_))
        have hne : j ≠ k := fun e => hkt (e ▸ hj)
        have := hwf.disjoint j k ((mem_todo c s j).mp hj).1 hk hne
        omega
    glob := by
      refine globalOk_frame c _ s.ws _ hi.glob ?_ ?_ ?_
      · intro p hp
        refine hnc p (fun j hj hr => ?_)
        have := hwf.afterXml j ((mem_todo c s j).mp hj).1; have := hwf.hdrFits
        omega
      · intro p hp1 hp2
        refine hnc p (fun j hj hr => ?_)
        have := hwf.afterXml j ((mem_todo c s j).mp hj).1
        omega
      · intro p hp
        exact hnc p (fun j hj hr => hp.2.2 j ((mem_todo c s j).mp hj).1 hr) }

theorem inv2_flushCore (c : Cfg α) (D : Nat → Nat → α) (hwf : WF c) (f : Bool) (s : State α) (hf : f = true → s.closed = true)
    (hi1 : Inv1 c s) (hi : Inv2 c D s) : Inv2 c D (flushCore c f s) :=
  inv2_itemsPhase c D hwf _ (inv2_hdrPhase c D hwf _ (inv1_snapPhase c f s hi1) (inv2_snapPhase c D hwf f s hf hi))

theorem flushCore_set_closed (c : Cfg α) (f : Bool) (s : State α) :
    ({ flushCore c f s with closed := true } : State α) = flushCore c f { s with closed := true } := by
  unfold flushCore itemsPhase hdrPhase snapPhase todo
  cases s.hdrWritten <;> rfl

theorem inv2_markCanReg (c : Cfg α) (D : Nat → Nat → α) (s : State α) (i a : Nat) (hi : Inv2 c D s) : Inv2 c D (markCanReg c s i a) := by
  unfold markCanReg
  split
  · by_cases hk : c.sigIdx i < c.n
    · have L := hi.loc _ hk
      exact inv2_setEl c D s _ _ hi
        { doneLen := L.doneLen, bytesOk := L.bytesOk, bytesStable := L.bytesStable, storeOk := L.storeOk, countOk := L.countOk,
          noBytesNoRows := L.noBytesNoRows, itemRd := L.itemRd }
    · refine inv2_replace_el c D s _ hi (fun j hj => ?_)
      simp only [setEl]
      rw [if_neg (fun (e : j = c.sigIdx i) => hk (e ▸ hj))]
      exact hi.loc j hj
  · exact hi

theorem kind_pvp (c : Cfg α) (hwf : WF c) (i : Nat) (h : i < c.nchan) : (c.item i).kind ≠ .signal := by
  intro hs
  have := (hwf.kinds i (pvpIdx_lt c i h)).mp hs
  omega

theorem kind_sup (c : Cfg α) (hwf : WF c) (j : Nat) (h : j < c.nsup) : (c.item (c.supIdx j)).kind ≠ .signal := by
  intro hs
  have := (hwf.kinds _ (supIdx_lt c j h)).mp hs
  unfold Cfg.supIdx at this
  omega

theorem kind_sig (c : Cfg α) (hwf : WF c) (i : Nat) (h : i < c.nchan) : (c.item (c.sigIdx i)).kind = .signal :=
  (hwf.kinds _ (sigIdx_lt c i h)).mpr (by unfold Cfg.sigIdx; omega)

/-- **one step preserves the image invariant** when its data agrees with `D` and (signal chunks) touches unwritten rows only -/
theorem inv2_step (c : Cfg α) (D : Nat → Nat → α) (hwf : WF c) (s : State α) (op : Op α) (hag : Agree c D op) (hfr : Fresh c s op)
    (hi1 : Inv1 c s) (hi : Inv2 c D s) : Inv2 c D (step c s op).1 := by
  cases op with
  | writePvp i d a =>
    simp only [step]
    split
    · exact hi
    · rename_i hb
      simp only [pvpBad, not_or, Decidable.not_not] at hb
      exact inv2_putData c D hwf _ i d (pvpIdx_lt c i hb.2.1) (kind_pvp c hwf i hb.2.1) hb.2.2.1 hag
        (inv1_markCanReg c s i a hi1) (inv2_markCanReg c D s i a hi)
  | writeSup j d =>
    simp only [step]
    split
    · exact hi
    · rename_i hb
      simp only [supBad, not_or, Decidable.not_not] at hb
      exact inv2_putData c D hwf _ _ d (supIdx_lt c j hb.2.1) (kind_sup c hwf j hb.2.1) hb.2.2 hag hi1 hi
  | writeSig i r0 d raw =>
    simp only [step]
    split
    · exact hi
    · rename_i hb
      have hfresh := hfr.resolve_left hb
      simp only [sigBad, not_or, Decidable.not_not] at hb
      obtain ⟨hi', _, hcl, _, hne, hmod, hfit⟩ := hb
      exact inv2_putChunk c D hwf s _ r0 d (sigIdx_lt c i hi') (kind_sig c hwf i hi') (by simpa using hcl) hne hmod (by omega)
        hag hfresh raw hi1 hi
  | flush =>
    simp only [step]
    split
    · exact hi
    · exact inv2_flushCore c D hwf false s (fun h => by simp at h) hi1 hi
  | close =>
    simp only [step]
    split
    · exact hi
    · rw [flushCore_set_closed]
      exact inv2_flushCore c D hwf true _ (fun _ => rfl)
        (inv1_same_delivered c s _ hi1 rfl rfl rfl (fun _ => rfl) (fun _ _ => rfl)) (inv2_set_closed c D s hi)

/-- **the image invariant holds after every good history** -/
theorem inv2_run (c : Cfg α) (D : Nat → Nat → α) (hwf : WF c) (s : State α) (ops : List (Op α)) (hg : GoodRun c D s ops)
    (hi1 : Inv1 c s) (hi : Inv2 c D s) : Inv2 c D (run c s ops) := by
  induction ops generalizing s with
  | nil => exact hi
  | cons op ops ih =>
    obtain ⟨ha, hf, hrest⟩ := hg
    exact ih _ hrest (inv1_step c s op hi1) (inv2_step c D hwf s op ha hf hi1 hi)

/-! ### closed states -/

/-- what holds in every closed state: header written, every populated element written, in memory every signal array written -/
def ClosedOk (c : Cfg α) (s : State α) : Prop :=
  s.closed = true → s.hdrWritten = true ∧ ∀ k, k < c.n →
    (((s.el k).bytes.isSome = true → (s.el k).written = true) ∧ (c.inMem = true → (c.item k).kind = .signal → (s.el k).written = true))

theorem putData_closed (c : Cfg α) (s : State α) (k : Nat) (d : Blk α) : (putData c s k d).1.closed = s.closed := by
  unfold putData; split
  · split <;> rfl
  · rfl

theorem markCanReg_closed (c : Cfg α) (s : State α) (i a : Nat) : (markCanReg c s i a).closed = s.closed := by
  unfold markCanReg; split <;> rfl

theorem putChunk_closed (c : Cfg α) (s : State α) (k r0 : Nat) (d : Blk α) (raw : Bool) : (putChunk c s k r0 d raw).closed = s.closed := by
  unfold putChunk
  cases c.inMem <;> rfl

theorem flushCore_closed (c : Cfg α) (f : Bool) (s : State α) : (flushCore c f s).closed = s.closed := by
  unfold flushCore itemsPhase hdrPhase snapPhase
  cases s.hdrWritten <;> rfl

theorem closedOk_step (c : Cfg α) (s : State α) (op : Op α) (h : ClosedOk c s) : ClosedOk c (step c s op).1 := by
  by_cases hc : s.closed = true
  · rw [step_closed_state c s hc op]; exact h
  · have hc' : s.closed = false := by simpa using hc
    cases op with
    | writePvp i d a =>
      intro hcl
      simp only [step] at hcl
      split at hcl
      · exact absurd hcl hc
      · rw [putData_closed, markCanReg_closed] at hcl; exact absurd hcl hc
    | writeSup j d =>
      intro hcl
      simp only [step] at hcl
      split at hcl
      · exact absurd hcl hc
      · rw [putData_closed] at hcl; exact absurd hcl hc
    | writeSig i r0 d raw =>
      intro hcl
      simp only [step] at hcl
      split at hcl
      · exact absurd hcl hc
      · rw [putChunk_closed] at hcl; exact absurd hcl hc
    | flush =>
      intro hcl
      simp only [step, hc', Bool.false_eq_true, if_false] at hcl
      rw [flushCore_closed] at hcl; exact absurd hcl hc
    | close =>
      intro _
      refine ⟨?_, fun k hk => ⟨fun hb => close_delivers c s hc' k hk hb, fun hm hs => close_delivers_signal_mem c s hc' hm k hk hs⟩⟩
      simp only [step, hc', Bool.false_eq_true, if_false]
      unfold flushCore itemsPhase
      exact hdrPhase_hdrWritten c _

theorem closedOk_run (c : Cfg α) (s : State α) (ops : List (Op α)) (h : ClosedOk c s) : ClosedOk c (run c s ops) := by
  induction ops generalizing s with
  | nil => exact h
  | cons op ops ih => exact ih _ (closedOk_step c s op h)

theorem closedOk_init (c : Cfg α) : ClosedOk c (init c) := fun h => by simp [init] at h

/-! ### the final image -/

/-- **the image after close**, for any good history (any order of the calls, any chunking of the signal, any placement of flushes,
    refused calls in between, either protocol): every byte of an element shows the intended content where its row was written and zero
    elsewhere; header text, terminators and XML are in place; all padding is zero -/
theorem final_image (c : Cfg α) (D : Nat → Nat → α) (hwf : WF c) (ops : List (Op α)) (hg : GoodRun c D (init c) ops)
    (hcl : (run c (init c) ops).closed = true) :
    (∀ k, k < c.n → ∀ q, q < (c.item k).size →
        rd c (run c (init c) ops) ((c.item k).off + q) = cellOf c D ((run c (init c) ops).el k) k q) ∧
    (∀ p, p < c.hdr.len → rd c (run c (init c) ops) p = c.hdr.get p) ∧
    (∀ p, p < c.term.len → rd c (run c (init c) ops) (c.hdr.len + p) = c.term.get p) ∧
    (∀ p, p < c.xml.len → rd c (run c (init c) ops) (c.xmlOff + p) = c.xml.get p) ∧
    (∀ p, p < c.term.len → rd c (run c (init c) ops) (c.xmlOff + c.xml.len + p) = c.term.get p) ∧
    (∀ p, Outside c p → rd c (run c (init c) ops) p = c.zero) := by
  have hi := inv2_run c D hwf (init c) ops hg (inv1_init c) (inv2_init c D)
  have hcok := closedOk_run c (init c) ops (closedOk_init c) hcl
  generalize run c (init c) ops = s at hi hcok hcl
  obtain ⟨hh, hk⟩ := hcok
  have G := hi.glob
  rw [hh] at G
  refine ⟨fun k hkn q hq => ?_, fun p hp => by simpa [rd] using G.hdrRd p hp, fun p hp => by simpa [rd] using G.term1Rd p hp,
    fun p hp => by simpa [rd] using G.xmlRd p hp, fun p hp => by simpa [rd] using G.term2Rd p hp, fun p hp => G.padRd p hp⟩
  have L := hi.loc k hkn
  unfold rd
  rw [L.itemRd q hq]
  split
  · rename_i h
    obtain ⟨hm, hw⟩ := h
    -- in memory and not written: never populated, not a signal array, so no row is marked
    have hnb : (s.el k).bytes = none := by
      cases hb : (s.el k).bytes with
      | none => rfl
      | some b => have := (hk k hkn).1 (by simp [hb]); rw [hw] at this; simp at this
    have hns : (c.item k).kind ≠ .signal := fun hs => by
      have := (hk k hkn).2 hm hs; rw [hw] at this; simp at this
    have := L.noBytesNoRows hm hns hnb
    simp [cellOf, rowDone_of_zero _ this]
  · rfl

/-- every row of every element has been written -/
def Complete (c : Cfg α) (s : State α) : Prop := ∀ k, k < c.n → cntRows (s.el k).done = (c.item k).rows

/-- the file the metadata and the data describe: header text, terminator, zero padding, XML, terminator, zero padding, and every element
    at its offset -/
def imageOf (c : Cfg α) (D : Nat → Nat → α) (p : Nat) : α :=
  if p < c.hdr.len then c.hdr.get p
  else if p < c.hdr.len + c.term.len then c.term.get (p - c.hdr.len)
  else if c.xmlOff ≤ p ∧ p < c.xmlOff + c.xml.len then c.xml.get (p - c.xmlOff)
  else if c.xmlOff + c.xml.len ≤ p ∧ p < c.xmlOff + c.xml.len + c.term.len then c.term.get (p - (c.xmlOff + c.xml.len))
  else match (List.range c.n).find? (fun k => decide ((c.item k).off ≤ p ∧ p < (c.item k).off + (c.item k).size)) with
       | some k => D k (p - (c.item k).off)
       | none => c.zero

/-- **complete histories**: after any good history that wrote every array and every signal row and closed, the file is `imageOf c D` at
    every position - whatever the order of the calls, the chunking, the flushes and the protocol were -/
theorem complete_image (c : Cfg α) (D : Nat → Nat → α) (hwf : WF c) (ops : List (Op α)) (hg : GoodRun c D (init c) ops)
    (hcl : (run c (init c) ops).closed = true) (hco : Complete c (run c (init c) ops)) (p : Nat) :
    rd c (run c (init c) ops) p = imageOf c D p := by
  obtain ⟨h1, h2, h3, h4, h5, h6⟩ := final_image c D hwf ops hg hcl
  have hlen := fun k hk => (inv2_run c D hwf (init c) ops hg (inv1_init c) (inv2_init c D)).loc k hk |>.doneLen
  generalize run c (init c) ops = s at *
  have hfit := hwf.hdrFits
  unfold imageOf
  split
  · exact h2 p (by assumption)
  · split
    · have := h3 (p - c.hdr.len) (by omega)
      rwa [show c.hdr.len + (p - c.hdr.len) = p by omega] at this
    · split
      · have := h4 (p - c.xmlOff) (by omega)
        rwa [show c.xmlOff + (p - c.xmlOff) = p by omega] at this
      · split
        · have := h5 (p - (c.xmlOff + c.xml.len)) (by omega)
          rwa [show c.xmlOff + c.xml.len + (p - (c.xmlOff + c.xml.len)) = p by omega] at this
        · split
          · rename_i k hf
            have hmem := List.mem_of_find?_eq_some hf
            have hpk := List.find?_some hf
            simp only [List.mem_range] at hmem
            simp only [decide_eq_true_eq] at hpk
            have := h1 k hmem (p - (c.item k).off) (by omega)
            rw [show (c.item k).off + (p - (c.item k).off) = p by omega] at this
            rw [this]
            have hq : (p - (c.item k).off) / (c.item k).rowBytes < (s.el k).done.length := by
              rw [hlen k hmem, Nat.div_lt_iff_lt_mul (hwf.rowPos k hmem), ← hwf.sizeRows k hmem]; omega
            simp [cellOf, rowDone_of_full _ (by rw [hco k hmem, hlen k hmem]) _ hq]
          · rename_i hf
            rw [List.find?_eq_none] at hf
            refine h6 p ⟨by omega, by omega, fun k hk hr => ?_⟩
            have := hf k (by simpa using hk)
            simp only [decide_eq_true_eq] at this
            exact this hr

/-- **independence of order, chunking, flush placement and protocol**: two complete good histories for the same layout and content
    (the second one possibly through the other delivery protocol) leave the same byte at every position -/
theorem order_chunking_independent (c : Cfg α) (b : Bool) (D : Nat → Nat → α) (hwf : WF c) (ops1 ops2 : List (Op α))
    (hg1 : GoodRun c D (init c) ops1) (hc1 : (run c (init c) ops1).closed = true) (hco1 : Complete c (run c (init c) ops1))
    (hg2 : GoodRun { c with inMem := b } D (init { c with inMem := b }) ops2)
    (hc2 : (run { c with inMem := b } (init { c with inMem := b }) ops2).closed = true)
    (hco2 : Complete { c with inMem := b } (run { c with inMem := b } (init { c with inMem := b }) ops2)) (p : Nat) :
    rd c (run c (init c) ops1) p = rd { c with inMem := b } (run { c with inMem := b } (init { c with inMem := b }) ops2) p := by
  have hwf2 : WF { c with inMem := b } :=
    { hdrFits := hwf.hdrFits, afterXml := hwf.afterXml, disjoint := hwf.disjoint, sizeRows := hwf.sizeRows, oneRow := hwf.oneRow,
      rowPos := hwf.rowPos, kinds := hwf.kinds }
  rw [complete_image c D hwf ops1 hg1 hc1 hco1 p, complete_image _ D hwf2 ops2 hg2 hc2 hco2 p]
  rfl

end Sarpy.Props.C09
