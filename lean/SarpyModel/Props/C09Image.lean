/-
  C09 / C11 — the file image the CPHD / CRSD writer machine produces (Spec.CphdWriter), for arbitrary histories whose data agrees
  with one intended content `D` and that do not write a signal row twice.

  * `WF`                       : what the layout theorems give about a configuration (header fits, elements after the XML block,
                                 pairwise disjoint element ranges, whole rows)
  * `Inv2` / `inv2_run`        : for every such history, in both delivery protocols, at every moment:
                                 every byte of the file is characterised - header text / terminators / XML once the header is written,
                                 element `k` byte `q` = `D k q` if its row has been written (and, in memory, the element delivered), zero otherwise,
                                 zero in all padding
  * `final_image`              : after close the image depends only on *which* rows / arrays were written, not on the order of the calls,
                                 the chunking of the signal, the placement of flushes or the protocol
  * `order_chunking_independent`: two histories (any orders, chunkings, flush placements, either protocol) that cover the same rows produce
                                 the same bytes at every position
  * `rewrite_counter_example`  : the no-rewrite hypothesis is needed (in memory a repeated chunk makes an incomplete array look complete)
-/
import SarpyModel.Spec.CphdWriter
import SarpyModel.Props.C09W

namespace Sarpy.Props.C09
open Sarpy.Spec.CphdWriter

variable {α : Type}

/-- well-formed configuration (all of it follows from the layout theorems, see `wf_of_layout`) -/
structure WF (c : Cfg α) : Prop where
  hdrFits : c.hdr.len + c.term.len ≤ c.xmlOff
  afterXml : ∀ k, k < c.n → c.xmlOff + c.xml.len + c.term.len ≤ (c.item k).off
  disjoint : ∀ j k, j < c.n → k < c.n → j ≠ k →
    (c.item j).off + (c.item j).size ≤ (c.item k).off ∨ (c.item k).off + (c.item k).size ≤ (c.item j).off
  sizeRows : ∀ k, k < c.n → (c.item k).size = (c.item k).rows * (c.item k).rowBytes
  oneRow : ∀ k, k < c.n → (c.item k).kind ≠ .signal → (c.item k).rows = 1
  rowPos : ∀ k, k < c.n → 0 < (c.item k).rowBytes
  kinds : ∀ k, k < c.n → ((c.item k).kind = .signal ↔ c.nchan + c.nsup ≤ k)

/-- row `r` has been written -/
def rowDone (l : List Bool) (r : Nat) : Bool := l.getD r false

theorem rowDone_markRows (l : List Bool) (r n q : Nat) :
    rowDone (markRows l r n) q = (decide (r ≤ q ∧ q < r + n ∧ q < l.length) || rowDone l q) := markRows_getD l r n q
theorem rowDone_of_full (l : List Bool) (h : cntRows l = l.length) (q : Nat) (hq : q < l.length) : rowDone l q = true :=
  getD_of_cntRows_full l h q hq
theorem rowDone_of_zero (l : List Bool) (h : cntRows l = 0) (q : Nat) : rowDone l q = false := getD_of_cntRows_zero l h q
theorem rowDone_replicate_false (n q : Nat) : rowDone (List.replicate n false) q = false := by
  unfold rowDone
  induction n generalizing q with
  | zero => rfl
  | succ n ih =>
    cases q with
    | zero => rfl
    | succ q => exact ih q

/-- byte `q` of element `k` as the file should show it: the intended content where the row has been written, zero elsewhere -/
def cellOf (c : Cfg α) (D : Nat → Nat → α) (e : El α) (k q : Nat) : α :=
  if rowDone e.done (q / (c.item k).rowBytes) = true then D k q else c.zero

/-- the data of an operation is the corresponding part of the intended content `D` -/
def Agree (c : Cfg α) (D : Nat → Nat → α) : Op α → Prop
  | .writePvp i d => ∀ q, q < d.len → d.get q = D i q
  | .writeSup j d => ∀ q, q < d.len → d.get q = D (c.supIdx j) q
  | .writeSig i r0 d _ => ∀ q, q < d.len → d.get q = D (c.sigIdx i) (r0 * (c.item (c.sigIdx i)).rowBytes + q)
  | _ => True

/-- an accepted signal chunk only touches rows that have not been written yet -/
def Fresh (c : Cfg α) (s : State α) : Op α → Prop
  | .writeSig i r0 d raw =>
    sigBad c s i r0 d raw ∨ freshRows (s.el (c.sigIdx i)).done r0 (d.len / (c.item (c.sigIdx i)).rowBytes) = true
  | _ => True

/-- a history all of whose operations agree with `D` and are fresh at the moment they are issued -/
def GoodRun (c : Cfg α) (D : Nat → Nat → α) : State α → List (Op α) → Prop
  | _, [] => True
  | s, op :: ops => Agree c D op ∧ Fresh c s op ∧ GoodRun c D (step c s op).1 ops

/-- position `p` belongs to no header / XML / element range -/
def Outside (c : Cfg α) (p : Nat) : Prop :=
  c.hdr.len + c.term.len ≤ p ∧ ¬ (c.xmlOff ≤ p ∧ p < c.xmlOff + c.xml.len + c.term.len) ∧
  ∀ k, k < c.n → ¬ ((c.item k).off ≤ p ∧ p < (c.item k).off + (c.item k).size)

/-- the clauses of the invariant that speak about one element `k` in state `e`, against the file `ws` -/
structure LocalOk (c : Cfg α) (D : Nat → Nat → α) (closed : Bool) (ws : List (W α)) (k : Nat) (e : El α) : Prop where
  doneLen : e.done.length = (c.item k).rows
  bytesOk : ∀ b, e.bytes = some b → b.len = (c.item k).size ∧ ∀ q, q < (c.item k).size → b.get q = cellOf c D e k q
  bytesStable : e.bytes.isSome = true → closed = true ∨ cntRows e.done = (c.item k).rows
  storeOk : c.inMem = true → (c.item k).kind = .signal → ∀ q, q < (c.item k).size → rdW c.zero e.store q = cellOf c D e k q
  countOk : (c.item k).kind = .signal → e.count = (c.item k).rowBytes * cntRows e.done
  noBytesNoRows : c.inMem = true → (c.item k).kind ≠ .signal → e.bytes = none → cntRows e.done = 0
  itemRd : ∀ q, q < (c.item k).size →
    rdW c.zero ws ((c.item k).off + q) = if c.inMem = true ∧ e.written = false then c.zero else cellOf c D e k q

/-- the clauses about header, XML and padding -/
structure GlobalOk (c : Cfg α) (hdrWritten : Bool) (ws : List (W α)) : Prop where
  hdrRd : ∀ p, p < c.hdr.len → rdW c.zero ws p = if hdrWritten = true then c.hdr.get p else c.zero
  term1Rd : ∀ p, p < c.term.len → rdW c.zero ws (c.hdr.len + p) = if hdrWritten = true then c.term.get p else c.zero
  xmlRd : ∀ p, p < c.xml.len → rdW c.zero ws (c.xmlOff + p) = if hdrWritten = true then c.xml.get p else c.zero
  term2Rd : ∀ p, p < c.term.len → rdW c.zero ws (c.xmlOff + c.xml.len + p) = if hdrWritten = true then c.term.get p else c.zero
  padRd : ∀ p, Outside c p → rdW c.zero ws p = c.zero

/-- **the image invariant** -/
structure Inv2 (c : Cfg α) (D : Nat → Nat → α) (s : State α) : Prop where
  loc : ∀ k, k < c.n → LocalOk c D s.closed s.ws k (s.el k)
  glob : GlobalOk c s.hdrWritten s.ws

theorem inv2_init (c : Cfg α) (D : Nat → Nat → α) : Inv2 c D (init c) where
  loc := fun k hk => {
    doneLen := by simp [init]
    bytesOk := fun b h => by simp [init] at h
    bytesStable := fun h => by simp [init] at h
    storeOk := fun _ _ q _ => by simp [init, rdW, cellOf, rowDone_replicate_false]
    countOk := fun _ => by simp [init, cntRows_replicate_false]
    noBytesNoRows := fun _ _ _ => by simp [init, cntRows_replicate_false]
    itemRd := fun q _ => by simp [init, rdW, cellOf, rowDone_replicate_false] }
  glob := {
    hdrRd := fun p _ => by simp [init, rdW]
    term1Rd := fun p _ => by simp [init, rdW]
    xmlRd := fun p _ => by simp [init, rdW]
    term2Rd := fun p _ => by simp [init, rdW]
    padRd := fun p _ => by simp [init, rdW] }

/-! ### reading through new writes -/

def covers (w : W α) (p : Nat) : Prop := w.off ≤ p ∧ p < w.off + w.data.len

theorem rdW_cons (z : α) (w : W α) (ws : List (W α)) (p : Nat) :
    rdW z (w :: ws) p = if w.off ≤ p ∧ p < w.off + w.data.len then w.data.get (p - w.off) else rdW z ws p := rfl

theorem rdW_cons_mk (z : α) (fo : Bool) (off : Nat) (data : Blk α) (ws : List (W α)) (p : Nat) :
    rdW z (⟨fo, off, data⟩ :: ws) p = if off ≤ p ∧ p < off + data.len then data.get (p - off) else rdW z ws p := rfl

theorem rdW_append_not_covered (z : α) (a b : List (W α)) (p : Nat) (h : ∀ w ∈ a, ¬ covers w p) :
    rdW z (a ++ b) p = rdW z b p := by
  induction a with
  | nil => rfl
  | cons w a ih =>
    have hw : ¬ (w.off ≤ p ∧ p < w.off + w.data.len) := h w (by simp)
    rw [List.cons_append, rdW_cons, if_neg hw]
    exact ih (fun w' hw' => h w' (by simp [hw']))

theorem rdW_items_covered (z : α) (f : Nat → W α) (l : List Nat) (ws : List (W α)) (p k0 : Nat) (hk : k0 ∈ l)
    (hc : covers (f k0) p) (hn : ∀ j ∈ l, j ≠ k0 → ¬ covers (f j) p) :
    rdW z ((l.map f).reverse ++ ws) p = (f k0).data.get (p - (f k0).off) := by
  induction l generalizing ws with
  | nil => simp at hk
  | cons j l ih =>
    have e : ((j :: l).map f).reverse ++ ws = (l.map f).reverse ++ (f j :: ws) := by simp
    rw [e]
    by_cases hk' : k0 ∈ l
    · exact ih (f j :: ws) hk' (fun j' hj' hne => hn j' (by simp [hj']) hne)
    · have hj : k0 = j := by
        rcases List.mem_cons.mp hk with h | h
        · exact h
        · exact absurd h hk'
      subst hj
      rw [rdW_append_not_covered]
      · rw [rdW_cons]; exact if_pos hc
      · intro w hw
        simp only [List.mem_reverse, List.mem_map] at hw
        obtain ⟨j', hj', rfl⟩ := hw
        exact hn j' (by simp [hj']) (fun e => hk' (e ▸ hj'))

/-! ### frame lemmas -/

theorem localOk_frame (c : Cfg α) (D : Nat → Nat → α) (cl cl' : Bool) (ws ws' : List (W α)) (k : Nat) (e : El α)
    (h : LocalOk c D cl ws k e) (hcl : cl = true → cl' = true)
    (hrd : ∀ q, q < (c.item k).size → rdW c.zero ws' ((c.item k).off + q) = rdW c.zero ws ((c.item k).off + q)) :
    LocalOk c D cl' ws' k e where
  doneLen := h.doneLen
  bytesOk := h.bytesOk
  bytesStable := fun hb => (h.bytesStable hb).imp hcl id
  storeOk := h.storeOk
  countOk := h.countOk
  noBytesNoRows := h.noBytesNoRows
  itemRd := fun q hq => by rw [hrd q hq]; exact h.itemRd q hq

theorem globalOk_frame (c : Cfg α) (hw : Bool) (ws ws' : List (W α)) (h : GlobalOk c hw ws)
    (h1 : ∀ p, p < c.hdr.len + c.term.len → rdW c.zero ws' p = rdW c.zero ws p)
    (h2 : ∀ p, c.xmlOff ≤ p → p < c.xmlOff + c.xml.len + c.term.len → rdW c.zero ws' p = rdW c.zero ws p)
    (h3 : ∀ p, Outside c p → rdW c.zero ws' p = rdW c.zero ws p) : GlobalOk c hw ws' where
  hdrRd := fun p hp => by rw [h1 p (by omega)]; exact h.hdrRd p hp
  term1Rd := fun p hp => by rw [h1 _ (by omega)]; exact h.term1Rd p hp
  xmlRd := fun p hp => by rw [h2 _ (by omega) (by omega)]; exact h.xmlRd p hp
  term2Rd := fun p hp => by rw [h2 _ (by omega) (by omega)]; exact h.term2Rd p hp
  padRd := fun p hp => by rw [h3 p hp]; exact h.padRd p hp

/-- replace the state of the elements, file unchanged -/
theorem inv2_replace_el (c : Cfg α) (D : Nat → Nat → α) (s : State α) (el' : Nat → El α) (hi : Inv2 c D s)
    (h : ∀ k, k < c.n → LocalOk c D s.closed s.ws k (el' k)) : Inv2 c D { s with el := el' } where
  loc := h
  glob := hi.glob

theorem inv2_setEl (c : Cfg α) (D : Nat → Nat → α) (s : State α) (k : Nat) (e' : El α) (hi : Inv2 c D s)
    (h : LocalOk c D s.closed s.ws k e') : Inv2 c D { s with el := setEl s.el k e' } := by
  refine inv2_replace_el c D s _ hi (fun j hj => ?_)
  simp only [setEl]
  split
  · rename_i e; subst e; exact h
  · exact hi.loc j hj

/-- one write that lies inside the range of element `k`, together with a new state of that element -/
theorem inv2_write_in_item (c : Cfg α) (D : Nat → Nat → α) (hwf : WF c) (s : State α) (k : Nat) (hk : k < c.n) (w : W α) (e' : El α)
    (hi : Inv2 c D s) (hin : (c.item k).off ≤ w.off ∧ w.off + w.data.len ≤ (c.item k).off + (c.item k).size)
    (h : LocalOk c D s.closed (w :: s.ws) k e') : Inv2 c D { s with ws := w :: s.ws, el := setEl s.el k e' } where
  loc := fun j hj => by
    simp only [setEl]
    split
    · rename_i e; subst e; exact h
    · rename_i hne
      refine localOk_frame c D _ _ s.ws _ j _ (hi.loc j hj) id (fun q hq => ?_)
      rw [rdW_cons, if_neg]
      have := hwf.disjoint j k hj hk hne
      omega
  glob := by
    refine globalOk_frame c _ s.ws _ hi.glob ?_ ?_ ?_
    · intro p hp
      rw [rdW_cons, if_neg]
      have := hwf.afterXml k hk; have := hwf.hdrFits
      omega
    · intro p hp1 hp2
      rw [rdW_cons, if_neg]
      have := hwf.afterXml k hk
      omega
    · intro p hp
      rw [rdW_cons, if_neg]
      have := hp.2.2 k hk
      omega

/-! ### rows and byte positions -/

theorem chunk_rows (rb r0 nr q : Nat) (hrb : 0 < rb) :
    (r0 * rb ≤ q ∧ q < r0 * rb + nr * rb) ↔ (r0 ≤ q / rb ∧ q / rb < r0 + nr) := by
  rw [Nat.le_div_iff_mul_le hrb, Nat.div_lt_iff_lt_mul hrb, Nat.add_mul]

/-- after marking the rows of a chunk, an element shows `D` on the bytes of the chunk and what it showed before elsewhere -/
theorem cellOf_mark (c : Cfg α) (D : Nat → Nat → α) (e e' : El α) (k q r0 nr : Nat)
    (hd : e'.done = markRows e.done r0 nr) (hlen : e.done.length = (c.item k).rows)
    (hsz : (c.item k).size = (c.item k).rows * (c.item k).rowBytes) (hrb : 0 < (c.item k).rowBytes) (hq : q < (c.item k).size) :
    cellOf c D e' k q =
      if r0 * (c.item k).rowBytes ≤ q ∧ q < r0 * (c.item k).rowBytes + nr * (c.item k).rowBytes then D k q else cellOf c D e k q := by
  have hrow : q / (c.item k).rowBytes < e.done.length := by
    rw [hlen, Nat.div_lt_iff_lt_mul hrb, ← hsz]; exact hq
  unfold cellOf
  rw [hd, rowDone_markRows]
  by_cases hin : r0 * (c.item k).rowBytes ≤ q ∧ q < r0 * (c.item k).rowBytes + nr * (c.item k).rowBytes
  · have := (chunk_rows _ r0 nr q hrb).mp hin
    rw [if_pos hin]
    simp [this.1, this.2, hrow]
  · have : ¬ (r0 ≤ q / (c.item k).rowBytes ∧ q / (c.item k).rowBytes < r0 + nr) := fun h => hin ((chunk_rows _ r0 nr q hrb).mpr h)
    rw [if_neg hin]
    have e : decide (r0 ≤ q / (c.item k).rowBytes ∧ q / (c.item k).rowBytes < r0 + nr ∧ q / (c.item k).rowBytes < e.done.length) = false := by
      simp only [decide_eq_false_iff_not]
      intro h; exact this ⟨h.1, h.2.1⟩
    rw [e, Bool.false_or]

/-- a one-row element (PVP / support array) after its write: every byte shows `D` -/
theorem cellOf_mark_whole (c : Cfg α) (D : Nat → Nat → α) (hwf : WF c) (e e' : El α) (k q : Nat) (hk : k < c.n)
    (hkind : (c.item k).kind ≠ .signal) (hd : e'.done = markRows e.done 0 1) (hlen : e.done.length = (c.item k).rows)
    (hq : q < (c.item k).size) : cellOf c D e' k q = D k q := by
  have h1 := hwf.oneRow k hk hkind
  have hsz := hwf.sizeRows k hk
  rw [cellOf_mark c D e e' k q 0 1 hd hlen hsz (hwf.rowPos k hk) hq, if_pos]
  rw [h1] at hsz
  omega

theorem cntRows_mark_whole (l : List Bool) (h : l.length = 1) : cntRows (markRows l 0 1) = 1 := by
  match l, h with
  | [b], _ => simp [markRows, cntRows]

/-! ### the operations preserve the image invariant -/

theorem inv2_putData (c : Cfg α) (D : Nat → Nat → α) (hwf : WF c) (s : State α) (k : Nat) (d : Blk α) (hk : k < c.n)
    (hkind : (c.item k).kind ≠ .signal) (hlen : d.len = (c.item k).size) (hag : ∀ q, q < d.len → d.get q = D k q)
    (hi1 : Inv1 c s) (hi : Inv2 c D s) : Inv2 c D (putData c s k d).1 := by
  have L := hi.loc k hk
  unfold putData
  cases hm : c.inMem with
  | true =>
    simp only [if_true]
    cases hb : (s.el k).bytes.isSome with
    | true => simpa using hi
    | false =>
      simp only [Bool.false_eq_true, if_false]
      have hw : (s.el k).written = false := by
        cases hw : (s.el k).written with
        | false => rfl
        | true => have := hi1.writtenBytes hm k hw; rw [hb] at this; simp at this
      refine inv2_setEl c D s k _ hi ?_
      exact {
        doneLen := by simp [markRows_length, L.doneLen]
        bytesOk := fun b hbe => by
          simp only [Option.some.injEq] at hbe
          subst hbe
          refine ⟨hlen, fun q hq => ?_⟩
          rw [hag q (by omega)]
          exact (cellOf_mark_whole c D hwf (s.el k) _ k q hk hkind rfl L.doneLen hq).symm
        bytesStable := fun _ => Or.inr (by
          have h1 := hwf.oneRow k hk hkind
          show cntRows (markRows (s.el k).done 0 1) = (c.item k).rows
          rw [h1]; exact cntRows_mark_whole _ (by rw [L.doneLen, h1]))
        storeOk := fun _ hs => absurd hs hkind
        countOk := fun hs => absurd hs hkind
        noBytesNoRows := fun _ _ h => by simp at h
        itemRd := fun q hq => by
          have := L.itemRd q hq
          rw [if_pos ⟨hm, hw⟩] at this
          rw [this, if_pos ⟨hm, hw⟩] }
  | false =>
    simp only [Bool.false_eq_true, if_false]
    have hnb := hi1.realNoBytes hm k
    refine inv2_write_in_item c D hwf s k hk _ _ hi ⟨Nat.le_refl _, by simp [hlen]⟩ ?_
    exact {
      doneLen := by simp [markRows_length, L.doneLen]
      bytesOk := fun b hbe => by simp [hnb] at hbe
      bytesStable := fun hbe => by simp [hnb] at hbe
      storeOk := fun h => by simp [hm] at h
      countOk := fun hs => absurd hs hkind
      noBytesNoRows := fun h => by simp [hm] at h
      itemRd := fun q hq => by
        rw [rdW_cons_mk, if_pos ⟨Nat.le_add_right _ _, by omega⟩, if_neg (by simp [hm])]
        simp only [Nat.add_sub_cancel_left]
        rw [hag q (by omega)]
        exact (cellOf_mark_whole c D hwf (s.el k) _ k q hk hkind rfl L.doneLen hq).symm }

theorem inv2_putChunk (c : Cfg α) (D : Nat → Nat → α) (hwf : WF c) (s : State α) (k r0 : Nat) (d : Blk α) (hk : k < c.n)
    (hkind : (c.item k).kind = .signal) (hcl : s.closed = false)
    (hne : d.len ≠ 0) (hmod : d.len % (c.item k).rowBytes = 0) (hfit : r0 + d.len / (c.item k).rowBytes ≤ (c.item k).rows)
    (hag : ∀ q, q < d.len → d.get q = D k (r0 * (c.item k).rowBytes + q))
    (hfresh : freshRows (s.el k).done r0 (d.len / (c.item k).rowBytes) = true)
    (hi1 : Inv1 c s) (hi : Inv2 c D s) : Inv2 c D (putChunk c s k r0 d) := by
  have L := hi.loc k hk
  have hrb := hwf.rowPos k hk
  have hsz := hwf.sizeRows k hk
  have hlen : d.len = d.len / (c.item k).rowBytes * (c.item k).rowBytes :=
    (Nat.div_mul_cancel (Nat.dvd_of_mod_eq_zero hmod)).symm
  have hnr : 1 ≤ d.len / (c.item k).rowBytes := by
    rcases Nat.eq_zero_or_pos (d.len / (c.item k).rowBytes) with h0 | h0
    · rw [h0] at hlen; omega
    · exact h0
  -- a delivered element is complete (or the writer closed): no fresh chunk can follow
  have hnb : (s.el k).bytes = none := by
    cases hb : (s.el k).bytes with
    | none => rfl
    | some b =>
      rcases L.bytesStable (by simp [hb]) with h | h
      · rw [hcl] at h; simp at h
      · obtain ⟨n, hn⟩ : ∃ n, d.len / (c.item k).rowBytes = n + 1 := ⟨d.len / (c.item k).rowBytes - 1, by omega⟩
        rw [hn, not_fresh_of_full _ r0 n (by rw [h, L.doneLen])] at hfresh
        simp at hfresh
  have hcell : ∀ (e' : El α), e'.done = markRows (s.el k).done r0 (d.len / (c.item k).rowBytes) → ∀ q, q < (c.item k).size →
      cellOf c D e' k q = if r0 * (c.item k).rowBytes ≤ q ∧ q < r0 * (c.item k).rowBytes + d.len then D k q else cellOf c D (s.el k) k q := by
    intro e' he q hq
    have := cellOf_mark c D (s.el k) e' k q r0 _ he L.doneLen hsz hrb hq
    rw [← hlen] at this
    exact this
  have hcount : (s.el k).count + d.len = (c.item k).rowBytes * cntRows (markRows (s.el k).done r0 (d.len / (c.item k).rowBytes)) := by
    rw [cntRows_markRows_fresh _ _ _ hfresh, L.countOk hkind, Nat.mul_add, Nat.mul_comm (c.item k).rowBytes (d.len / _), ← hlen]
  have hrange : r0 * (c.item k).rowBytes + d.len ≤ (c.item k).size := by
    rw [hsz, hlen, ← Nat.add_mul]
    exact Nat.mul_le_mul_right _ hfit
  unfold putChunk
  cases hm : c.inMem with
  | true =>
    simp only [if_true]
    have hw : (s.el k).written = false := by
      cases hw : (s.el k).written with
      | false => rfl
      | true => have := hi1.writtenBytes hm k hw; rw [hnb] at this; simp at this
    refine inv2_setEl c D s k _ hi ?_
    exact {
      doneLen := by simp [markRows_length, L.doneLen]
      bytesOk := fun b hbe => by simp [hnb] at hbe
      bytesStable := fun hbe => by simp [hnb] at hbe
      storeOk := fun _ _ q hq => by
        rw [rdW_cons_mk, hcell _ rfl q hq]
        by_cases hin : r0 * (c.item k).rowBytes ≤ q ∧ q < r0 * (c.item k).rowBytes + d.len
        · rw [if_pos hin, if_pos hin, hag _ (by omega)]
          congr 1; omega
        · rw [if_neg hin, if_neg hin]
          exact L.storeOk hm hkind q hq
      countOk := fun _ => hcount
      noBytesNoRows := fun _ h => absurd hkind h
      itemRd := fun q hq => by
        have := L.itemRd q hq
        rw [if_pos ⟨hm, hw⟩] at this
        rw [this, if_pos ⟨hm, hw⟩] }
  | false =>
    simp only [Bool.false_eq_true, if_false]
    refine inv2_write_in_item c D hwf s k hk ⟨false, (c.item k).off + r0 * (c.item k).rowBytes, d⟩ _ hi ⟨Nat.le_add_right _ _, by show (c.item k).off + r0 * (c.item k).rowBytes + d.len ≤ _; omega⟩ ?_
    exact {
      doneLen := by simp [markRows_length, L.doneLen]
      bytesOk := fun b hbe => by simp [hnb] at hbe
      bytesStable := fun hbe => by simp [hnb] at hbe
      storeOk := fun h => by simp [hm] at h
      countOk := fun _ => hcount
      noBytesNoRows := fun h => by simp [hm] at h
      itemRd := fun q hq => by
        rw [rdW_cons_mk]
        simp only [hm, Bool.false_eq_true, false_and, if_false]
        rw [hcell _ rfl q hq]
        by_cases hin : r0 * (c.item k).rowBytes ≤ q ∧ q < r0 * (c.item k).rowBytes + d.len
        · rw [if_pos hin, if_pos (by omega), hag _ (by omega)]
          congr 1; omega
        · rw [if_neg hin, if_neg (by omega)]
          have := L.itemRd q hq
          rw [if_neg (by simp [hm])] at this
          exact this }

end Sarpy.Props.C09
