/-
  C10 — a SIDD written by sarpy reads back: the segment regrouping decision logic.

  `regroup_iidList`: for any number of product images and any (positive) number of segments per image, the
  reader's IID1-based regrouping of the headers the writer emits returns exactly the writer's grouping, in order.
  Pixel routing inside one image is C02's `segmentation_split_join`; layout is C03; pixel types are bit-exact
  integer copies (no codec).
-/
import SarpyModel.Spec.Sidd
import Mathlib.Tactic.Linarith

namespace Sarpy.Props.C10
open Sarpy.Spec.Sidd

theorem indicesOf_append (e off : Nat) (a b : List Nat) :
    indicesOf e off (a ++ b) = indicesOf e off a ++ indicesOf e (off + a.length) b := by
  induction a generalizing off with
  | nil => simp [indicesOf]
  | cons x xs ih =>
    have e : off + 1 + xs.length = off + (xs.length + 1) := by omega
    simp only [List.cons_append, indicesOf, List.length_cons]
    split
    · rw [ih, e]; rfl
    · rw [ih, e]

theorem indicesOf_replicate_self (e off n : Nat) : indicesOf e off (List.replicate n e) = List.range' off n := by
  induction n generalizing off with
  | zero => rfl
  | succ n ih => simp [List.replicate_succ, indicesOf, ih, List.range'_succ]

theorem indicesOf_none (e off : Nat) (l : List Nat) (h : ∀ x ∈ l, x ≠ e) : indicesOf e off l = [] := by
  induction l generalizing off with
  | nil => rfl
  | cons x xs ih =>
    have hx : x ≠ e := h x (by simp)
    simp only [indicesOf, hx, if_false]
    exact ih _ (fun y hy => h y (by simp [hy]))

theorem iidFrom_gt (base : Nat) (counts : List Nat) : ∀ x ∈ iidFrom base counts, base < x := by
  induction counts generalizing base with
  | nil => intro x hx; simp [iidFrom] at hx
  | cons n rest ih =>
    intro x hx
    simp only [iidFrom, List.mem_append, List.mem_replicate] at hx
    rcases hx with ⟨_, rfl⟩ | hx
    · omega
    · have := ih (base + 1) x hx; omega

theorem iidFrom_le (base : Nat) (counts : List Nat) : ∀ x ∈ iidFrom base counts, x ≤ base + counts.length := by
  induction counts generalizing base with
  | nil => intro x hx; simp [iidFrom] at hx
  | cons n rest ih =>
    intro x hx
    simp only [iidFrom, List.mem_append, List.mem_replicate] at hx
    rcases hx with ⟨_, rfl⟩ | hx
    · simp
    · have := ih (base + 1) x hx; simp only [List.length_cons]; omega

theorem iidFrom_length (base : Nat) (counts : List Nat) : (iidFrom base counts).length = counts.sum := by
  induction counts generalizing base with
  | nil => rfl
  | cons n rest ih => simp [iidFrom, ih]

/-- the groups found for image numbers `base+1 …` in the tail of the header list are the expected ones -/
theorem groups_from (base off : Nat) (counts : List Nat) :
    (List.range counts.length).map (fun k => indicesOf (base + k + 1) off (iidFrom base counts)) = expectedGroups off counts := by
  induction counts generalizing base off with
  | nil => rfl
  | cons n rest ih =>
    simp only [List.length_cons, List.range_succ_eq_map, List.map_cons, List.map_map, expectedGroups]
    congr 1
    · -- image base+1: all of the first n, none of the rest
      simp only [iidFrom, Nat.add_zero]
      rw [indicesOf_append, indicesOf_replicate_self]
      rw [indicesOf_none _ _ _ (fun x hx => by have := iidFrom_gt (base + 1) rest x hx; omega)]
      simp
    · have := ih (base + 1) (off + n)
      rw [← this]
      apply List.map_congr_left
      intro k _
      simp only [Function.comp, iidFrom]
      rw [indicesOf_append]
      rw [indicesOf_none _ _ (List.replicate n (base + 1)) (fun x hx => by
        simp only [List.mem_replicate] at hx; omega)]
      simp only [List.length_replicate, List.nil_append]
      congr 1; omega

/-- **regrouping**: the reader recovers the writer's grouping for every image count and all positive segment counts -/
theorem regroup_iidList (counts : List Nat) (hpos : ∀ n ∈ counts, 0 < n) :
    regroup counts.length (iidList counts) = some (expectedGroups 0 counts) := by
  unfold regroup iidList
  have h1 : (iidFrom 0 counts).any (fun e => e = 0 || e > counts.length) = false := by
    rw [List.any_eq_false]
    intro x hx
    have a := iidFrom_gt 0 counts x hx
    have b := iidFrom_le 0 counts x hx
    simp; omega
  rw [if_neg (by simp [h1])]
  have hg := groups_from 0 0 counts
  simp only [Nat.zero_add] at hg
  simp only [hg]
  have h2 : (expectedGroups 0 counts).any List.isEmpty = false := by
    have : ∀ (off : Nat) (cs : List Nat), (∀ n ∈ cs, 0 < n) → (expectedGroups off cs).any List.isEmpty = false := by
      intro off cs
      induction cs generalizing off with
      | nil => intro _; rfl
      | cons n rest ih =>
        intro h
        have hn := h n (by simp)
        simp only [expectedGroups, List.any_cons, Bool.or_eq_false_iff]
        refine ⟨?_, ih _ (fun m hm => h m (by simp [hm]))⟩
        cases n with
        | zero => omega
        | succ m => simp [List.range'_succ]
    exact this 0 counts hpos
  rw [if_neg (by simp [h2])]

/-- every segment index belongs to exactly one group (the groups partition `0 … total-1`) -/
theorem expectedGroups_flatten (off : Nat) (counts : List Nat) :
    (expectedGroups off counts).flatten = List.range' off counts.sum := by
  induction counts generalizing off with
  | nil => rfl
  | cons n rest ih =>
    simp only [expectedGroups, List.flatten_cons, ih, List.sum_cons]
    rw [List.range'_append_1]

/-- a header whose element number exceeds the number of SIDD structures is refused -/
example : regroup 2 [1, 1, 3] = none := by decide
/-- non-vacuity: three images with 2, 1, 3 segments -/
example : regroup 3 (iidList [2, 1, 3]) = some [[0, 1], [2], [3, 4, 5]] := by decide

end Sarpy.Props.C10
