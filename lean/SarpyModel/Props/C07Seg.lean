/-
  C07Seg — where the segment classes store a written chunk: the dual of `C01Seg.read_refines`.

  `write_routes`: for every well-formed segment tree whose block aggregates are tilings (pairwise disjoint blocks,
  holes allowed), every normalised subscript `ts` and every chunk `d` of the matching shape, the raw assignments the
  code performs (`Seg.write`, mirroring `DataSegment.write` / `write_raw` of every class) are exactly

        { (stored sample that the full image shows at position ts[idx])  <-  d[idx]   |  idx in the chunk }

  (positions that fall into a hole of a block aggregate are dropped, as documented).  So a write stores each chunk
  element at the very sample a later read of that pixel fetches, and touches nothing else.

  Consequences proved here:
  * `write_positions`      : the set of raw samples a chunk touches depends only on the selected positions
  * `writes_disjoint`      : chunks that select disjoint position sets touch disjoint raw samples, given that distinct
                             pixels are stored at distinct samples (`Injective`, the premise of any partition argument)
  * `chunks_commute`       : ... hence (Props/C07 `writes_commute_of_disjoint`) the two stores commute in the scatter
                             model: any order of the chunks of a partition gives the same stored image
-/
import SarpyModel.Props.C07SegNodes
import SarpyModel.Props.C07

namespace Sarpy.Props.C07Seg
open Sarpy Sarpy.Spec Sarpy.Props.C01Seg

/-! ### which block a mosaic position is read from -/

/-- position `pt` of the mosaic lies in a block whose image there is sample `x` of leaf `id` -/
def hit : Blks → Idx → Nat → List Int → Prop
  | .nil, _, _, _ => False
  | .cons arr c r, pt, id, x => (inBox arr pt = true ∧ c.fullSrc.get (boxLo arr pt) = Src.leaf id x) ∨ hit r pt id x
  | .rcons arr rv c r, pt, id, x =>
    (inBox arr pt = true ∧ c.fullSrc.get (boxLoR arr rv pt) = Src.leaf id x) ∨ hit r pt id x

/-- position `pt` lies in no block -/
def outside : Blks → Idx → Prop
  | .nil, _ => True
  | .cons arr _ r, pt => inBox arr pt = false ∧ outside r pt
  | .rcons arr _ _ r, pt => inBox arr pt = false ∧ outside r pt

theorem fullOnto_outside : ∀ (cs : Blks) (acc : Arr Src) (pt : Idx), outside cs pt →
    (cs.fullOnto Src.leaf Src.fill acc).get pt = acc.get pt
  | .nil, _, _, _ => rfl
  | .cons arr c r, acc, pt, h => by
    simp only [Blks.fullOnto]
    rw [fullOnto_outside r _ pt h.2]
    show (if inBox arr pt then _ else acc.get pt) = _
    simp [h.1]
  | .rcons arr rv c r, acc, pt, h => by
    simp only [Blks.fullOnto]
    rw [fullOnto_outside r _ pt h.2]
    show (if inBox arr pt then _ else acc.get pt) = _
    simp [h.1]

theorem disjoint_outside : ∀ (r : Blks) (sh : List Nat) (a : List (Int × Int)), r.wfAll sh = true →
    a.length = sh.length → r.allDisjointFrom a = true → ∀ pt, inBox a pt = true → outside r pt
  | .nil, _, _, _, _, _, _, _ => trivial
  | .cons arr c r, sh, a, hwf, hal, hd, pt, hin => by
    simp only [Blks.wfAll, Bool.and_eq_true] at hwf
    simp only [Blks.allDisjointFrom, Bool.and_eq_true] at hd
    refine ⟨?_, disjoint_outside r sh a hwf.2 hal hd.2 pt hin⟩
    obtain ⟨harr, _, _⟩ := (boxOK_iff _ _ _).1 hwf.1.2
    simp only [boxesDisjoint, List.any_eq_true, List.mem_range, decide_eq_true_eq] at hd
    obtain ⟨i, hi, hdis⟩ := hd.1
    rw [Bool.eq_false_iff]
    intro hin2
    have h1 := (inBox_iff _ _).1 hin i hi
    have h2 := (inBox_iff _ _).1 hin2 i (by omega)
    omega
  | .rcons arr rv c r, sh, a, hwf, hal, hd, pt, hin => by
    simp only [Blks.wfAll, Bool.and_eq_true] at hwf
    simp only [Blks.allDisjointFrom, Bool.and_eq_true] at hd
    refine ⟨?_, disjoint_outside r sh a hwf.2 hal hd.2 pt hin⟩
    obtain ⟨harr, _, _⟩ := (boxOK_iff _ _ _).1 hwf.1.1.1.2
    simp only [boxesDisjoint, List.any_eq_true, List.mem_range, decide_eq_true_eq] at hd
    obtain ⟨i, hi, hdis⟩ := hd.1
    rw [Bool.eq_false_iff]
    intro hin2
    have h1 := (inBox_iff _ _).1 hin i hi
    have h2 := (inBox_iff _ _).1 hin2 i (by omega)
    omega

theorem fullOnto_char : ∀ (cs : Blks) (sh : List Nat), cs.wfAll sh = true → cs.tiled = true →
    ∀ (acc : Arr Src) (pt : Idx) (id : Nat) (x : List Int),
    (cs.fullOnto Src.leaf Src.fill acc).get pt = Src.leaf id x ↔
      hit cs pt id x ∨ (outside cs pt ∧ acc.get pt = Src.leaf id x)
  | .nil, _, _, _, acc, pt, id, x => by simp [Blks.fullOnto, hit, outside]
  | .cons arr c r, sh, hwf, htl, acc, pt, id, x => by
    simp only [Blks.wfAll, Bool.and_eq_true] at hwf
    simp only [Blks.tiled, Bool.and_eq_true] at htl
    obtain ⟨harr, _, _⟩ := (boxOK_iff _ _ _).1 hwf.1.2
    have ih := fullOnto_char r sh hwf.2 htl.2 (acc.paste arr c.fullSrc) pt id x
    simp only [Blks.fullOnto, hit, outside]
    rw [show (r.fullOnto Src.leaf Src.fill (acc.paste arr (c.full Src.leaf Src.fill))) =
      (r.fullOnto Src.leaf Src.fill (acc.paste arr c.fullSrc)) from rfl, ih]
    have hp : (acc.paste arr c.fullSrc).get pt =
        if inBox arr pt then c.fullSrc.get (boxLo arr pt) else acc.get pt := rfl
    rw [hp]
    by_cases hin : inBox arr pt = true
    · have hout := disjoint_outside r sh arr hwf.2 harr htl.1.2 pt hin
      simp only [hin, if_true]
      constructor
      · rintro (h | ⟨_, h⟩)
        · exact Or.inl (Or.inr h)
        · exact Or.inl (Or.inl ⟨trivial, h⟩)
      · rintro ((⟨_, h⟩ | h) | ⟨⟨h, _⟩, _⟩)
        · exact Or.inr ⟨hout, h⟩
        · exact Or.inl h
        · simp at h
    · have hin' : inBox arr pt = false := by simpa using hin
      simp only [hin', Bool.false_eq_true, if_false, false_and, false_or, true_and]
  | .rcons arr rv c r, sh, hwf, htl, acc, pt, id, x => by
    simp only [Blks.wfAll, Bool.and_eq_true] at hwf
    simp only [Blks.tiled, Bool.and_eq_true] at htl
    obtain ⟨harr, _, _⟩ := (boxOK_iff _ _ _).1 hwf.1.1.1.2
    have ih := fullOnto_char r sh hwf.2 htl.2 (acc.pasteR arr rv c.fullSrc) pt id x
    simp only [Blks.fullOnto, hit, outside]
    rw [show (r.fullOnto Src.leaf Src.fill (acc.pasteR arr rv (c.full Src.leaf Src.fill))) =
      (r.fullOnto Src.leaf Src.fill (acc.pasteR arr rv c.fullSrc)) from rfl, ih]
    have hp : (acc.pasteR arr rv c.fullSrc).get pt =
        if inBox arr pt then c.fullSrc.get (boxLoR arr rv pt) else acc.get pt := rfl
    rw [hp]
    by_cases hin : inBox arr pt = true
    · have hout := disjoint_outside r sh arr hwf.2 harr htl.1.2 pt hin
      simp only [hin, if_true]
      constructor
      · rintro (h | ⟨_, h⟩)
        · exact Or.inl (Or.inr h)
        · exact Or.inl (Or.inl ⟨trivial, h⟩)
      · rintro ((⟨_, h⟩ | h) | ⟨⟨h, _⟩, _⟩)
        · exact Or.inr ⟨hout, h⟩
        · exact Or.inl h
        · simp at h
    · have hin' : inBox arr pt = false := by simpa using hin
      simp only [hin', Bool.false_eq_true, if_false, false_and, false_or, true_and]

/-! ### helper facts for the induction -/

theorem block_none_inBox {sh csh : List Nat} {arr : List (Int × Int)} {ts : List NSlice}
    (hbox : boxOK sh arr csh = true) (hts : NormalSub sh ts) (ho : overlaps ts arr = none)
    (idx : Idx) (hidx : InR (ts.map NSlice.count) idx) : inBox arr (selIdx ts idx) = false := by
  obtain ⟨hal, hcl, hb⟩ := (boxOK_iff _ _ _).1 hbox
  obtain ⟨htl, htn⟩ := (normalSub_iff _ _).1 hts
  have hs := overlaps_spec ts arr (by omega)
  rw [ho] at hs
  obtain ⟨i, hi, hio⟩ := hs
  obtain ⟨hb0, hb01, hb1, _⟩ := hb i (by omega)
  have hp := overlap_point (htn i (by omega)) hb0 hb01 hb1
  rw [hio] at hp
  have hk := hidx i (by simp; omega)
  rw [dimAt_map_count] at hk
  have hnot := hp (idx i) hk.1 hk.2
  rw [Bool.eq_false_iff]
  intro hin
  exact hnot ((inBox_iff _ _).1 hin i hi)

theorem unit_count {p : NSlice} {k0 k1 : Int} (h1 : p.start = k0) (h2 : p.stop = some k1) (h3 : p.step = 1) :
    (p.count : Int) = max (k1 - k0) 0 := by
  obtain ⟨a, b, c⟩ := p
  simp only at h1 h2 h3
  subst h1 h2 h3
  simp only [NSlice.count, show (1 : Int) > 0 by decide, if_true, cnt_one]
  omega

/-- the part of the chunk handed to a block has the shape of the child subscript, and is local -/
theorem block_data {α : Type} {sh csh : List Nat} {arr : List (Int × Int)} {ts csub psub : List NSlice}
    (hbox : boxOK sh arr csh = true) (hts : NormalSub sh ts) (ho : overlaps ts arr = some (csub, psub))
    (d : Arr α) (hd : d.shape = ts.map NSlice.count) (hdl : d.Local) :
    (d.select psub).shape = csub.map NSlice.count ∧ (d.select psub).Local := by
  obtain ⟨hcl, hpl, hax⟩ := block_axes hbox hts ho
  have hstep := block_axes_step hbox hts ho
  have htl := ((normalSub_iff _ _).1 hts).1
  constructor
  · show psub.map NSlice.count = csub.map NSlice.count
    apply List.ext_getElem
    · simp [hcl, hpl]
    · intro i h1 h2
      have hi : i < sh.length := by simpa [hpl] using h1
      obtain ⟨k0, k1, e1, e2, _, e4, _, _, e7, _, _⟩ := hax i hi
      have := unit_count e1 e2 (hstep i hi)
      rw [← dimAt_lt h1, ← dimAt_lt h2, dimAt_map_count, dimAt_map_count]
      omega
  · intro idx idx' h
    show d.get _ = d.get _
    apply hdl
    intro i hi
    rw [hd] at hi
    simp only [List.length_map, htl] at hi
    have := h i (by show i < (psub.map NSlice.count).length; simp [hpl, hi])
    simp only [selIdx, this]

theorem block_dataR {α : Type} {sh csh : List Nat} {arr : List (Int × Int)} {rv : List Bool} {ts csub psub : List NSlice}
    (hbox : boxOK sh arr csh = true) (hrl : rv.length = sh.length) (hts : NormalSub sh ts)
    (ho : overlapsR ts arr rv = some (csub, psub))
    (d : Arr α) (hd : d.shape = ts.map NSlice.count) (hdl : d.Local) :
    (d.select psub).shape = csub.map NSlice.count ∧ (d.select psub).Local := by
  obtain ⟨hcl, hpl, _, hax⟩ := block_axesR hbox hrl hts ho
  have hstep := block_axes_stepR hbox hrl hts ho
  have htl := ((normalSub_iff _ _).1 hts).1
  constructor
  · show psub.map NSlice.count = csub.map NSlice.count
    apply List.ext_getElem
    · simp [hcl, hpl]
    · intro i h1 h2
      have hi : i < sh.length := by simpa [hpl] using h1
      obtain ⟨k0, k1, e1, e2, _, e4, _, _, e7, _, _⟩ := hax i hi
      have := unit_count e1 e2 (hstep i hi)
      rw [← dimAt_lt h1, ← dimAt_lt h2, dimAt_map_count, dimAt_map_count]
      omega
  · intro idx idx' h
    show d.get _ = d.get _
    apply hdl
    intro i hi
    rw [hd] at hi
    simp only [List.length_map, htl] at hi
    have := h i (by show i < (psub.map NSlice.count).length; simp [hpl, hi])
    simp only [selIdx, this]

/-! ### the routing theorem -/

section
variable {α : Type} [Parts α]

mutual
/-- **a written chunk is stored exactly where the full image is read from** -/
theorem write_routes : ∀ (t : Seg), t.wf = true → t.tiled = true → ∀ ts : List NSlice, NormalSub t.fshape ts →
    ∀ d : Arr α, d.shape = ts.map NSlice.count → d.Local → Routes t.fullSrc ts d (t.write ts d)
  | .leaf id s, _, _, ts, hts, d, hd, hdl => leaf_routes id s ts hts d hd hdl
  | .fleaf _ _, _, htl, _, _, _, _, _ => by simp [Seg.tiled] at htl
  | .cplx _ _ _ _ _, _, htl, _, _, _, _, _ => by simp [Seg.tiled] at htl
  | .cplxK _ _ _ _ _, _, htl, _, _, _, _, _ => by simp [Seg.tiled] at htl
  | .lut1 _ _ _, _, htl, _, _, _, _, _ => by simp [Seg.tiled] at htl
  | .lut2 _ _ _ _, _, htl, _, _, _, _, _ => by simp [Seg.tiled] at htl
  | .subsetR sq rdefs rev perm p, h, htl, ts, hts, d, hd, hdl => by
    simp only [Seg.wf, Bool.and_eq_true] at h
    simp only [Seg.tiled] at htl
    obtain ⟨⟨⟨hpwf, hperm⟩, _⟩, hrn⟩ := h
    have hp := isPerm_ok hperm
    have hdn : NormalSub (gather perm p.fshape) (fmtSub p.fshape rev perm rdefs) := fmtSub_normal rev hp hrn
    have hpts := (subset_sub hdn hts).1
    have hul := unsqueeze_local hdn hts d hd hdl
    have ih := write_routes p hpwf htl _ (rawSub_normal rev hp hpts)
      (((d.unsqueeze (keepAxes sq (fmtSub p.fshape rev perm rdefs))
          ((composeSq (gather perm p.fshape) (fmtSub p.fshape rev perm rdefs)
            (keepAxes sq (fmtSub p.fshape rev perm rdefs)) ts).map NSlice.count)).transpose (invPerm perm) perm).flip rev)
      (by show gather (invPerm perm) _ = _; exact inv_data_shape rev hp hpts)
      (inv_data_local rev hp hpts _ rfl hul)
    have ho := orient_routes _ p.fshape rev perm _ hp (full_shape _ _ p hpwf) (full_local _ _ p hpwf) hpts _ rfl hul _ ih
    have hOs : (((p.full Src.leaf Src.fill).flip rev).transpose perm (invPerm perm)).shape = gather perm p.fshape := by
      show gather perm (p.full Src.leaf Src.fill).shape = _
      rw [full_shape _ _ p hpwf]
    exact subset_routes _ (gather perm p.fshape) sq _ ts hOs
      (orient_local rev hp (full_shape _ _ p hpwf) (full_local _ _ p hpwf)) hdn hts d hd hdl _ ho
  | .orient rev perm p, h, htl, ts, hts, d, hd, hdl => by
    simp only [Seg.wf, Bool.and_eq_true] at h
    simp only [Seg.tiled] at htl
    have hp := isPerm_ok h.1.2
    have ih := write_routes p h.1.1 htl (rawSub p.fshape rev (invPerm perm) ts) (rawSub_normal rev hp hts)
      ((d.transpose (invPerm perm) perm).flip rev)
      (by show gather (invPerm perm) d.shape = _; rw [hd]; exact inv_data_shape rev hp hts)
      (inv_data_local rev hp hts d hd hdl)
    exact orient_routes _ p.fshape rev perm ts hp (full_shape _ _ p h.1.1) (full_local _ _ p h.1.1) hts d hd hdl _ ih
  | .subset sq defs p, h, htl, ts, hts, d, hd, hdl => by
    simp only [Seg.wf, Bool.and_eq_true] at h
    simp only [Seg.tiled] at htl
    have hdn : NormalSub p.fshape defs := h.1.2
    have ih := write_routes p h.1.1 htl (composeSq p.fshape defs (keepAxes sq defs) ts) (subset_sub hdn hts).1
      (d.unsqueeze (keepAxes sq defs) ((composeSq p.fshape defs (keepAxes sq defs) ts).map NSlice.count)) rfl
      (unsqueeze_local hdn hts d hd hdl)
    exact subset_routes _ p.fshape sq defs ts (full_shape _ _ p h.1.1) (full_local _ _ p h.1.1) hdn hts d hd hdl _ ih
  | .bands bd cs, h, htl, ts, hts, d, hd, hdl => by
    simp only [Seg.wf, Bool.and_eq_true, decide_eq_true_eq] at h
    simp only [Seg.tiled] at htl
    obtain ⟨⟨hwf, hbd⟩, _⟩ := h
    exact bands_routes (fun n dd => cs.writeNth n (delAt bd ts) dd) (fun n => cs.fullNth Src.leaf Src.fill n)
      cs.headShape bd cs.length hbd ts hts d hd hdl
      (fun n hn dd hds hdl' => writeNth_routes cs cs.headShape hwf htl n hn (delAt bd ts) (bands_sub hbd hts).1 dd hds hdl')
  | .blocks s cs, h, htl, ts, hts, d, hd, hdl => by
    simp only [Seg.wf] at h
    simp only [Seg.tiled] at htl
    intro id r v
    show (id, r, v) ∈ cs.writeOnto s ts d ↔ _
    rw [writeOnto_routes cs s h htl ts hts d hd hdl id r v]
    have hc : ∀ pt, (Seg.blocks s cs).fullSrc.get pt = Src.leaf id r ↔ hit cs pt id r := by
      intro pt
      have := fullOnto_char cs s h htl (Arr.const s Src.fill) pt id r
      rw [show (Seg.blocks s cs).fullSrc = cs.fullOnto Src.leaf Src.fill (Arr.const s Src.fill) from rfl, this]
      simp [Arr.const]
    constructor
    · rintro ⟨idx, h1, h2, h3⟩; exact ⟨idx, h1, (hc _).2 h2, h3⟩
    · rintro ⟨idx, h1, h2, h3⟩; exact ⟨idx, h1, (hc _).1 h2, h3⟩
theorem writeNth_routes : ∀ (cs : Segs) (sh : List Nat), cs.wfAll sh = true → cs.tiled = true →
    ∀ n, n < cs.length → ∀ ts : List NSlice, NormalSub sh ts →
    ∀ d : Arr α, d.shape = ts.map NSlice.count → d.Local →
    Routes (cs.fullNth Src.leaf Src.fill n) ts d (cs.writeNth n ts d)
  | .nil, _, _, _, n, hn, _, _, _, _, _ => by simp [Segs.length] at hn
  | .cons c r, sh, h, htl, n, hn, ts, hts, d, hd, hdl => by
    simp only [Segs.wfAll, Bool.and_eq_true, decide_eq_true_eq] at h
    simp only [Segs.tiled, Bool.and_eq_true] at htl
    cases n with
    | zero =>
      simp only [Segs.writeNth, Segs.fullNth]
      exact write_routes c h.1.1 htl.1 ts (h.1.2 ▸ hts) d hd hdl
    | succ n =>
      simp only [Segs.writeNth, Segs.fullNth]
      exact writeNth_routes r sh h.2 htl.2 n (by simpa [Segs.length] using hn) ts hts d hd hdl
theorem writeOnto_routes : ∀ (cs : Blks) (sh : List Nat), cs.wfAll sh = true → cs.tiled = true →
    ∀ ts : List NSlice, NormalSub sh ts → ∀ d : Arr α, d.shape = ts.map NSlice.count → d.Local →
    ∀ (id : Nat) (r : List Int) (v : α), (id, r, v) ∈ cs.writeOnto sh ts d ↔
      ∃ idx : Idx, InR (ts.map NSlice.count) idx ∧ hit cs (selIdx ts idx) id r ∧ d.get idx = v
  | .nil, _, _, _, _, _, _, _, _, _, _, _ => by simp [Blks.writeOnto, hit]
  | .cons arr c r, sh, h, htl, ts, hts, d, hd, hdl, id, x, v => by
    simp only [Blks.wfAll, Bool.and_eq_true] at h
    simp only [Blks.tiled, Bool.and_eq_true] at htl
    obtain ⟨⟨hcwf, hbox⟩, hrwf⟩ := h
    have ihr := writeOnto_routes r sh hrwf htl.2 ts hts d hd hdl id x v
    have hfirst : ∀ A0 : List (Nat × List Int × α),
        (match overlaps ts arr with
          | none => []
          | some (csub, dsub) => c.write csub (d.select dsub)) = A0 →
        ((id, x, v) ∈ A0 ↔
        ∃ idx : Idx, InR (ts.map NSlice.count) idx ∧ inBox arr (selIdx ts idx) = true ∧
          c.fullSrc.get (boxLo arr (selIdx ts idx)) = Src.leaf id x ∧ d.get idx = v) := by
      intro A0 hA
      cases ho : overlaps ts arr with
      | none =>
        rw [ho] at hA
        simp only at hA
        subst hA
        simp only [List.not_mem_nil, false_iff]
        rintro ⟨idx, hidx, hin, _⟩
        rw [block_none_inBox hbox hts ho idx hidx] at hin
        simp at hin
      | some cp =>
        obtain ⟨csub, psub⟩ := cp
        rw [ho] at hA
        simp only at hA
        subst hA
        obtain ⟨hcl, _, hax⟩ := block_axes hbox hts ho
        obtain ⟨_, hcshl, _⟩ := (boxOK_iff _ _ _).1 hbox
        have hcn : NormalSub c.fshape csub := by
          rw [normalSub_iff]
          refine ⟨by omega, fun i hi => ?_⟩
          obtain ⟨k0, k1, _, _, _, _, _, e6, _⟩ := hax i (by omega)
          exact e6
        obtain ⟨hds, hdl'⟩ := block_data hbox hts ho d hd hdl
        have ihc := write_routes c hcwf htl.1.1 csub hcn (d.select psub) hds hdl'
        exact block_routes c.fullSrc hbox hts ho (full_shape _ _ c hcwf) (full_local _ _ c hcwf) d hd hdl _ ihc id x v
    simp only [Blks.writeOnto, List.mem_append, hit, overlapsW_eq sh ts arr c.fshape hts hbox, ihr]
    refine Iff.trans (or_congr (hfirst _ rfl) Iff.rfl) ?_
    constructor
    · rintro (⟨idx, h1, h2, h3, h4⟩ | ⟨idx, h1, h2, h3⟩)
      · exact ⟨idx, h1, Or.inl ⟨h2, h3⟩, h4⟩
      · exact ⟨idx, h1, Or.inr h2, h3⟩
    · rintro ⟨idx, h1, (⟨h2, h3⟩ | h2), h4⟩
      · exact Or.inl ⟨idx, h1, h2, h3, h4⟩
      · exact Or.inr ⟨idx, h1, h2, h4⟩
  | .rcons arr rv c r, sh, h, htl, ts, hts, d, hd, hdl, id, x, v => by
    simp only [Blks.wfAll, Bool.and_eq_true, decide_eq_true_eq] at h
    simp only [Blks.tiled, Bool.and_eq_true] at htl
    obtain ⟨⟨⟨⟨hcwf, hbox⟩, hrl⟩, _⟩, hrwf⟩ := h
    obtain ⟨hal, _, _⟩ := (boxOK_iff _ _ _).1 hbox
    have htl' := ((normalSub_iff _ _).1 hts).1
    have ihr := writeOnto_routes r sh hrwf htl.2 ts hts d hd hdl id x v
    have hfirst : ∀ A0 : List (Nat × List Int × α),
        (match overlapsR ts arr rv with
          | none => []
          | some (csub, dsub) => c.write csub (d.select dsub)) = A0 →
        ((id, x, v) ∈ A0 ↔
        ∃ idx : Idx, InR (ts.map NSlice.count) idx ∧ inBox arr (selIdx ts idx) = true ∧
          c.fullSrc.get (boxLoR arr rv (selIdx ts idx)) = Src.leaf id x ∧ d.get idx = v) := by
      intro A0 hA
      cases ho : overlapsR ts arr rv with
      | none =>
        rw [ho] at hA
        simp only at hA
        subst hA
        have hs0 := overlapsR_spec ts arr rv (by omega) (by omega)
        rw [ho] at hs0
        simp only [List.not_mem_nil, false_iff]
        rintro ⟨idx, hidx, hin, _⟩
        rw [block_none_inBox hbox hts hs0 idx hidx] at hin
        simp at hin
      | some cp =>
        obtain ⟨csub, psub⟩ := cp
        rw [ho] at hA
        simp only at hA
        subst hA
        obtain ⟨hcl, _, _, hax⟩ := block_axesR hbox hrl hts ho
        obtain ⟨_, hcshl, _⟩ := (boxOK_iff _ _ _).1 hbox
        have hcn : NormalSub c.fshape csub := by
          rw [normalSub_iff]
          refine ⟨by omega, fun i hi => ?_⟩
          obtain ⟨k0, k1, _, _, _, _, _, e6, _⟩ := hax i (by omega)
          exact e6
        obtain ⟨hds, hdl'⟩ := block_dataR hbox hrl hts ho d hd hdl
        have ihc := write_routes c hcwf htl.1.1 csub hcn (d.select psub) hds hdl'
        rw [ihc id x v]
        exact block_routesRQ (fun s y => s = Src.leaf id x ∧ y = v) c.fullSrc hbox hrl hts ho (full_shape _ _ c hcwf)
          (full_local _ _ c hcwf) d hd hdl
    simp only [Blks.writeOnto, List.mem_append, hit, overlapsWR_eq sh ts arr rv c.fshape hts hbox hrl, ihr]
    refine Iff.trans (or_congr (hfirst _ rfl) Iff.rfl) ?_
    constructor
    · rintro (⟨idx, h1, h2, h3, h4⟩ | ⟨idx, h1, h2, h3⟩)
      · exact ⟨idx, h1, Or.inl ⟨h2, h3⟩, h4⟩
      · exact ⟨idx, h1, Or.inr h2, h3⟩
    · rintro ⟨idx, h1, (⟨h2, h3⟩ | h2), h4⟩
      · exact Or.inl ⟨idx, h1, h2, h3, h4⟩
      · exact Or.inr ⟨idx, h1, h2, h4⟩
end

end

/-! ### stores: the image after a write -/

/-- a store: the sample of leaf `id` at raw index `r` -/
abbrev SStore (α : Type) := Nat → List Int → α

def upd {α : Type} (σ : SStore α) (a : Nat × List Int × α) : SStore α :=
  fun id r => if id = a.1 ∧ r = a.2.1 then a.2.2 else σ id r

/-- perform the assignments in order -/
def applyAll {α : Type} (σ : SStore α) (A : List (Nat × List Int × α)) : SStore α := A.foldl upd σ

def evalSrc {α : Type} [Pairing α] (L : SStore α) (F : α) : Src → α
  | .fill => F
  | .leaf id r => L id r
  | .pair a b => Pairing.pair (evalSrc L F a) (evalSrc L F b)
  | .polar a b => Pairing.polar (evalSrc L F a) (evalSrc L F b)
  | .lut c a => Pairing.lut c (evalSrc L F a)

theorem applyAll_untouched {α : Type} (A : List (Nat × List Int × α)) (σ : SStore α) (id : Nat) (r : List Int)
    (h : ∀ a ∈ A, ¬ (a.1 = id ∧ a.2.1 = r)) : applyAll σ A id r = σ id r := by
  induction A generalizing σ with
  | nil => rfl
  | cons a A ih =>
    have h1 : applyAll σ (a :: A) = applyAll (upd σ a) A := rfl
    rw [h1, ih _ (fun b hb => h b (by simp [hb]))]
    have := h a (by simp)
    simp only [upd]
    rw [if_neg]
    rintro ⟨e1, e2⟩
    exact this ⟨e1.symm, e2.symm⟩

theorem applyAll_written {α : Type} (A : List (Nat × List Int × α)) (σ : SStore α) (id : Nat) (r : List Int) (v : α)
    (hm : (id, r, v) ∈ A) (hf : ∀ v', (id, r, v') ∈ A → v' = v) : applyAll σ A id r = v := by
  induction A generalizing σ with
  | nil => simp at hm
  | cons a A ih =>
    have h1 : applyAll σ (a :: A) = applyAll (upd σ a) A := rfl
    rw [h1]
    by_cases hin : (id, r, v) ∈ A
    · exact ih _ hin (fun v' hv' => hf v' (by simp [hv']))
    · have ha : a = (id, r, v) := by
        rcases List.mem_cons.1 hm with h | h
        · exact h.symm
        · exact absurd h hin
      rw [applyAll_untouched A _ id r]
      · simp [upd, ha]
      · rintro b hb ⟨e1, e2⟩
        obtain ⟨b1, b2, b3⟩ := b
        simp only at e1 e2
        subst e1 e2
        have := hf b3 (by simp [hb])
        subst this
        exact hin hb

mutual
/-- the image under any store is the provenance image evaluated in that store -/
theorem full_eval {α : Type} [Pairing α] (L : SStore α) (F : α) : ∀ (t : Seg) (idx : Idx),
    (t.full L F).get idx = evalSrc L F (t.fullSrc.get idx)
  | .leaf _ _, _ => rfl
  | .fleaf _ _, _ => rfl
  | .orient rev perm p, idx => by
    show (p.full L F).get _ = evalSrc L F ((p.full Src.leaf Src.fill).get _)
    have e1 : (p.full L F).shape = (p.full Src.leaf Src.fill).shape := full_shape_eq L F p
    rw [e1]
    exact full_eval L F p _
  | .cplx ord rev perm bd p, idx => by
    have e1 : (p.full L F).shape = (p.full Src.leaf Src.fill).shape := full_shape_eq L F p
    have hk : ∀ q : Idx, (((p.full L F).flip rev).transpose perm (invPerm perm)).get q =
        evalSrc L F ((((p.full Src.leaf Src.fill).flip rev).transpose perm (invPerm perm)).get q) := by
      intro q
      show (p.full L F).get _ = evalSrc L F ((p.full Src.leaf Src.fill).get _)
      rw [e1]
      exact full_eval L F p _
    show comb ord _ _ = evalSrc L F (comb ord _ _)
    cases ord <;> simp only [comb, evalSrc, hk] <;> rfl
  | .cplxK ord rev perm bd p, idx => by
    have e1 : (p.full L F).shape = (p.full Src.leaf Src.fill).shape := full_shape_eq L F p
    have hk : ∀ q : Idx, (((p.full L F).flip rev).transpose perm (invPerm perm)).get q =
        evalSrc L F ((((p.full Src.leaf Src.fill).flip rev).transpose perm (invPerm perm)).get q) := by
      intro q
      show (p.full L F).get _ = evalSrc L F ((p.full Src.leaf Src.fill).get _)
      rw [e1]
      exact full_eval L F p _
    show comb ord _ _ = evalSrc L F (comb ord _ _)
    cases ord <;> simp only [comb, evalSrc, hk] <;> rfl
  | .lut1 rev perm p, idx => by
    have e1 : (p.full L F).shape = (p.full Src.leaf Src.fill).shape := full_shape_eq L F p
    show Pairing.lut 0 ((p.full L F).get _) = evalSrc L F (Src.lut 0 ((p.full Src.leaf Src.fill).get _))
    rw [e1]
    simp only [evalSrc]
    rw [full_eval L F p _]
    rfl
  | .lut2 m rev perm p, idx => by
    have e1 : (p.full L F).shape = (p.full Src.leaf Src.fill).shape := full_shape_eq L F p
    show Pairing.lut (idx (gather perm (p.full L F).shape).length).toNat ((p.full L F).get _) =
      evalSrc L F (Src.lut (idx (gather perm (p.full Src.leaf Src.fill).shape).length).toNat ((p.full Src.leaf Src.fill).get _))
    rw [e1]
    simp only [evalSrc]
    rw [full_eval L F p _]
    rfl
  | .subset sq defs p, idx => full_eval L F p _
  | .subsetR sq rdefs rev perm p, idx => by
    show (p.full L F).get _ = evalSrc L F ((p.full Src.leaf Src.fill).get _)
    have e1 : (p.full L F).shape = (p.full Src.leaf Src.fill).shape := full_shape_eq L F p
    rw [e1]
    exact full_eval L F p _
  | .bands bd cs, idx => fullNth_eval L F cs _ _
  | .blocks s cs, idx => by
    show (cs.fullOnto L F (Arr.const s F)).get idx = evalSrc L F ((cs.fullOnto Src.leaf Src.fill (Arr.const s Src.fill)).get idx)
    exact fullOntoM_eval L F cs _ _ (fun _ => rfl) idx
theorem fullNth_eval {α : Type} [Pairing α] (L : SStore α) (F : α) : ∀ (cs : Segs) (n : Nat) (idx : Idx),
    (cs.fullNth L F n).get idx = evalSrc L F ((cs.fullNth Src.leaf Src.fill n).get idx)
  | .nil, _, _ => rfl
  | .cons c _, 0, idx => full_eval L F c idx
  | .cons _ r, n + 1, idx => fullNth_eval L F r n idx
theorem fullOntoM_eval {α : Type} [Pairing α] (L : SStore α) (F : α) : ∀ (cs : Blks) (acc : Arr α) (accS : Arr Src),
    (∀ idx, acc.get idx = evalSrc L F (accS.get idx)) →
    ∀ idx, (cs.fullOnto L F acc).get idx = evalSrc L F ((cs.fullOnto Src.leaf Src.fill accS).get idx)
  | .nil, _, _, h, idx => h idx
  | .cons arr c r, acc, accS, h, idx => by
    simp only [Blks.fullOnto]
    apply fullOntoM_eval L F r
    intro idx
    show (if inBox arr idx then (c.full L F).get (boxLo arr idx) else acc.get idx) =
      evalSrc L F (if inBox arr idx then (c.full Src.leaf Src.fill).get (boxLo arr idx) else accS.get idx)
    split
    · exact full_eval L F c _
    · exact h idx
  | .rcons arr rv c r, acc, accS, h, idx => by
    simp only [Blks.fullOnto]
    apply fullOntoM_eval L F r
    intro idx
    show (if inBox arr idx then (c.full L F).get (boxLoR arr rv idx) else acc.get idx) =
      evalSrc L F (if inBox arr idx then (c.full Src.leaf Src.fill).get (boxLoR arr rv idx) else accS.get idx)
    split
    · exact full_eval L F c _
    · exact h idx
/-- the shape of the full image does not depend on the stored samples -/
theorem full_shape_eq {α : Type} [Pairing α] (L : SStore α) (F : α) : ∀ t : Seg,
    (t.full L F).shape = (t.full Src.leaf Src.fill).shape
  | .leaf _ _ => rfl
  | .fleaf _ _ => rfl
  | .orient rev perm p => by
    show gather perm (p.full L F).shape = gather perm (p.full Src.leaf Src.fill).shape
    rw [full_shape_eq L F p]
  | .cplx ord rev perm bd p => by
    show delAt bd (gather perm (p.full L F).shape) = delAt bd (gather perm (p.full Src.leaf Src.fill).shape)
    rw [full_shape_eq L F p]
  | .cplxK ord rev perm bd p => by
    show halveAt bd (gather perm (p.full L F).shape) = halveAt bd (gather perm (p.full Src.leaf Src.fill).shape)
    rw [full_shape_eq L F p]
  | .lut1 rev perm p => by
    show gather perm (p.full L F).shape = gather perm (p.full Src.leaf Src.fill).shape
    rw [full_shape_eq L F p]
  | .lut2 m rev perm p => by
    show gather perm (p.full L F).shape ++ [m] = gather perm (p.full Src.leaf Src.fill).shape ++ [m]
    rw [full_shape_eq L F p]
  | .subset _ _ _ => rfl
  | .subsetR _ _ _ _ _ => rfl
  | .bands _ _ => rfl
  | .blocks s cs => by
    show (cs.fullOnto L F (Arr.const s F)).shape = (cs.fullOnto Src.leaf Src.fill (Arr.const s Src.fill)).shape
    rw [fullOnto_shape, fullOnto_shape]; rfl
end

/-- not a complex pair -/
def plain : Src → Prop
  | .pair _ _ => False
  | .polar _ _ => False
  | .lut _ _ => False
  | _ => True

mutual
/-- a writable tree has no complex pairs in its image -/
theorem tiled_plain : ∀ (t : Seg), t.tiled = true → ∀ idx, plain (t.fullSrc.get idx)
  | .leaf _ _, _, _ => trivial
  | .fleaf _ _, h, _ => by simp [Seg.tiled] at h
  | .cplx _ _ _ _ _, h, _ => by simp [Seg.tiled] at h
  | .cplxK _ _ _ _ _, h, _ => by simp [Seg.tiled] at h
  | .lut1 _ _ _, h, _ => by simp [Seg.tiled] at h
  | .lut2 _ _ _ _, h, _ => by simp [Seg.tiled] at h
  | .subsetR sq rdefs rev perm p, h, idx => by
    simp only [Seg.tiled] at h
    exact tiled_plain p h _
  | .orient rev perm p, h, idx => by
    simp only [Seg.tiled] at h
    exact tiled_plain p h _
  | .subset sq defs p, h, idx => by
    simp only [Seg.tiled] at h
    exact tiled_plain p h _
  | .bands bd cs, h, idx => by
    simp only [Seg.tiled] at h
    exact fullNth_plain cs h _ _
  | .blocks s cs, h, idx => by
    simp only [Seg.tiled] at h
    exact fullOnto_plain cs h (Arr.const s Src.fill) (fun _ => trivial) idx
theorem fullNth_plain : ∀ (cs : Segs), cs.tiled = true → ∀ n idx, plain ((cs.fullNth Src.leaf Src.fill n).get idx)
  | .nil, _, _, _ => trivial
  | .cons c _, h, 0, idx => by
    simp only [Segs.tiled, Bool.and_eq_true] at h
    exact tiled_plain c h.1 idx
  | .cons _ r, h, n + 1, idx => by
    simp only [Segs.tiled, Bool.and_eq_true] at h
    exact fullNth_plain r h.2 n idx
theorem fullOnto_plain : ∀ (cs : Blks), cs.tiled = true → ∀ acc : Arr Src, (∀ idx, plain (acc.get idx)) →
    ∀ idx, plain ((cs.fullOnto Src.leaf Src.fill acc).get idx)
  | .nil, _, _, hacc, idx => hacc idx
  | .cons arr c r, h, acc, hacc, idx => by
    simp only [Blks.tiled, Bool.and_eq_true] at h
    simp only [Blks.fullOnto]
    apply fullOnto_plain r h.2
    intro idx
    show plain (if inBox arr idx then (c.full Src.leaf Src.fill).get (boxLo arr idx) else acc.get idx)
    split
    · exact tiled_plain c h.1.1 _
    · exact hacc idx
  | .rcons arr rv c r, h, acc, hacc, idx => by
    simp only [Blks.tiled, Bool.and_eq_true] at h
    simp only [Blks.fullOnto]
    apply fullOnto_plain r h.2
    intro idx
    show plain (if inBox arr idx then (c.full Src.leaf Src.fill).get (boxLoR arr rv idx) else acc.get idx)
    split
    · exact tiled_plain c h.1.1 _
    · exact hacc idx
end

/-- distinct pixels of the full image are stored at distinct samples (true for every tree with distinct leaves,
    disjoint blocks and subsets that do not alias; it is the premise of "a partition of the image") -/
def Injective (t : Seg) : Prop :=
  ∀ (pt pt' : Idx) (id : Nat) (r : List Int), InR t.fshape pt → InR t.fshape pt' →
    t.fullSrc.get pt = Src.leaf id r → t.fullSrc.get pt' = Src.leaf id r → ∀ i, i < t.fshape.length → pt i = pt' i

theorem selIdx_inj {shape : List Nat} {ts : List NSlice} (hts : NormalSub shape ts) {idx idx' : Idx}
    (h : ∀ i, i < shape.length → selIdx ts idx i = selIdx ts idx' i) : ∀ i, i < shape.length → idx i = idx' i := by
  obtain ⟨_, hn⟩ := (normalSub_iff _ _).1 hts
  intro i hi
  have hs : (sliceAt ts i).step ≠ 0 := by
    obtain ⟨_, _, (⟨hs, _⟩ | ⟨hs, _⟩)⟩ := hn i hi <;> omega
  have := h i hi
  simp only [selIdx] at this
  have h2 : (idx i - idx' i) * (sliceAt ts i).step = 0 := by
    have : idx i * (sliceAt ts i).step = idx' i * (sliceAt ts i).step := by omega
    rw [Int.sub_mul]; omega
  rcases Int.mul_eq_zero.1 h2 with h3 | h3
  · omega
  · exact absurd h3 hs

/-! ### distinct leaves + tilings give injectivity -/

def idsOf (lv : List (Nat × List Nat)) : List Nat := lv.map Prod.fst

theorem owns_id {lv : List (Nat × List Nat)} {id : Nat} {r : List Int} (h : Owns lv (Src.leaf id r)) :
    id ∈ idsOf lv := by
  obtain ⟨sh, hm, _⟩ := h
  exact List.mem_map.2 ⟨(id, sh), hm, rfl⟩

theorem hit_id : ∀ (cs : Blks) (sh : List Nat), cs.wfAll sh = true → ∀ pt id x, hit cs pt id x → id ∈ idsOf cs.leaves
  | .nil, _, _, _, _, _, h => by simp [hit] at h
  | .cons arr c r, sh, hwf, pt, id, x, h => by
    simp only [Blks.wfAll, Bool.and_eq_true] at hwf
    simp only [idsOf, Blks.leaves, List.map_append, List.mem_append]
    rcases h with ⟨hin, hsrc⟩ | h
    · left
      have := full_in_store c hwf.1.1 _ (box_ix_inR hwf.1.2 hin)
      rw [hsrc] at this
      exact owns_id this
    · right; exact hit_id r sh hwf.2 pt id x h
  | .rcons arr rv c r, sh, hwf, pt, id, x, h => by
    simp only [Blks.wfAll, Bool.and_eq_true] at hwf
    simp only [idsOf, Blks.leaves, List.map_append, List.mem_append]
    rcases h with ⟨hin, hsrc⟩ | h
    · left
      have := full_in_store c hwf.1.1.1.1 _ (boxR_ix_inR rv hwf.1.1.1.2 hin)
      rw [hsrc] at this
      exact owns_id this
    · right; exact hit_id r sh hwf.2 pt id x h

theorem map_range_inj {idx idx' : Idx} {n : Nat} (h : (List.range n).map idx = (List.range n).map idx') :
    ∀ i, i < n → idx i = idx' i := by
  intro i hi
  have := congrArg (fun l => l.getD i 0) h
  simpa [getD_map_range, hi] using this

/-- distinct positions of an image show distinct stored samples -/
def InjArr (fl : Arr Src) (S : List Nat) : Prop :=
  ∀ (pt pt' : Idx) (id : Nat) (r : List Int), InR S pt → InR S pt' →
    fl.get pt = Src.leaf id r → fl.get pt' = Src.leaf id r → ∀ i, i < S.length → pt i = pt' i

theorem orient_inj {fl : Arr Src} {S perm : List Nat} (rev : List Nat) (hp : PermOK perm S.length) (hS : fl.shape = S)
    (ih : InjArr fl S) : InjArr ((fl.flip rev).transpose perm (invPerm perm)) (gather perm S) := by
  intro pt pt' id r hpt hpt' h1 h2 j hj
  have hj' : j < S.length := by rw [gather_length, hp.len] at hj; exact hj
  have e : ∀ q : Idx, ((fl.flip rev).transpose perm (invPerm perm)).get q = fl.get (fun i =>
      if i ∈ rev then (dimAt S i : Int) - 1 - q ((invPerm perm).getD i 0)
      else q ((invPerm perm).getD i 0)) := by
    intro q
    have : ((fl.flip rev).transpose perm (invPerm perm)).get q = fl.get (fun i =>
      if i ∈ rev then (dimAt fl.shape i : Int) - 1 - q ((invPerm perm).getD i 0)
      else q ((invPerm perm).getD i 0)) := rfl
    rw [this, hS]
  rw [e] at h1 h2
  have := ih _ _ id r (orient_ix_inR (rev := rev) hp hpt) (orient_ix_inR (rev := rev) hp hpt') h1 h2
    (perm.getD j 0) (hp.lt j hj')
  simp only [hp.invp j hj'] at this
  split at this <;> omega

theorem subset_inj {fl : Arr Src} {S : List Nat} (sq : Bool) {defs : List NSlice} (hd : NormalSub S defs)
    (ih : InjArr fl S) :
    InjArr ((fl.select defs).squeeze (keepAxes sq defs)) (pick (keepAxes sq defs) (defs.map NSlice.count)) := by
  obtain ⟨hdl, _⟩ := (normalSub_iff _ _).1 hd
  have hKl : (keepAxes sq defs).length = S.length := by rw [keepAxes_length, hdl]
  intro pt pt' id r hpt hpt' h1 h2 j hj
  have hj' : j < (keptAxes (keepAxes sq defs)).length := by
    have : (pick (keepAxes sq defs) (defs.map NSlice.count)).length = (keptAxes (keepAxes sq defs)).length :=
      pick_length _ _ (by rw [keepAxes_length]; simp)
    omega
  have e : ∀ q : Idx, ((fl.select defs).squeeze (keepAxes sq defs)).get q =
      fl.get (selIdx defs (unsq (keepAxes sq defs) q)) := fun _ => rfl
  rw [e] at h1 h2
  have h3 := ih _ _ id r (subset_ix_inR hd hpt) (subset_ix_inR hd hpt') h1 h2
  have h4 := selIdx_inj hd h3
  obtain ⟨i1, i2, i3⟩ := kept_spec _ j hj'
  have := h4 ((keptAxes (keepAxes sq defs)).getD j 0) (by omega)
  simpa only [unsq, i2, if_true, i3] using this

mutual
/-- a tree with pairwise distinct leaf ids whose block aggregates are tilings stores distinct pixels at
    distinct samples -/
theorem injective_of_distinct : ∀ (t : Seg), t.wf = true → t.tiled = true → (idsOf t.leaves).Nodup → Injective t
  | .leaf id s, _, _, _ => by
    intro pt pt' id' r _ _ h1 h2 i hi
    have e1 : Src.leaf id ((List.range s.length).map pt) = Src.leaf id' r := h1
    have e2 : Src.leaf id ((List.range s.length).map pt') = Src.leaf id' r := h2
    simp only [Src.leaf.injEq] at e1 e2
    exact map_range_inj (e1.2.trans e2.2.symm) i hi
  | .fleaf _ _, _, htl, _ => by simp [Seg.tiled] at htl
  | .cplx _ _ _ _ _, _, htl, _ => by simp [Seg.tiled] at htl
  | .cplxK _ _ _ _ _, _, htl, _ => by simp [Seg.tiled] at htl
  | .lut1 _ _ _, _, htl, _ => by simp [Seg.tiled] at htl
  | .lut2 _ _ _ _, _, htl, _ => by simp [Seg.tiled] at htl
  | .orient rev perm p, h, htl, hnd => by
    simp only [Seg.wf, Bool.and_eq_true] at h
    simp only [Seg.tiled] at htl
    exact orient_inj rev (isPerm_ok h.1.2) (full_shape _ _ p h.1.1) (injective_of_distinct p h.1.1 htl hnd)
  | .subset sq defs p, h, htl, hnd => by
    simp only [Seg.wf, Bool.and_eq_true] at h
    simp only [Seg.tiled] at htl
    exact subset_inj sq h.1.2 (injective_of_distinct p h.1.1 htl hnd)
  | .subsetR sq rdefs rev perm p, h, htl, hnd => by
    simp only [Seg.wf, Bool.and_eq_true] at h
    simp only [Seg.tiled] at htl
    obtain ⟨⟨⟨hpwf, hperm⟩, _⟩, hrn⟩ := h
    have hp := isPerm_ok hperm
    exact subset_inj sq (fmtSub_normal rev hp hrn)
      (orient_inj rev hp (full_shape _ _ p hpwf) (injective_of_distinct p hpwf htl hnd))
  | .bands bd cs, h, htl, hnd => by
    simp only [Seg.wf, Bool.and_eq_true, decide_eq_true_eq] at h
    simp only [Seg.tiled] at htl
    obtain ⟨⟨hwf, hbd⟩, _⟩ := h
    intro pt pt' id r hpt hpt' h1 h2 j hj
    obtain ⟨a1, a2, a3⟩ := bands_ix_inR hbd hpt
    obtain ⟨b1, b2, b3⟩ := bands_ix_inR hbd hpt'
    have hj' : j < cs.headShape.length + 1 := by
      have : (Seg.bands bd cs).fshape.length = cs.headShape.length + 1 := insAt_length _ _ _ hbd
      omega
    have e1 : (cs.fullNth Src.leaf Src.fill (pt bd).toNat).get (dropAx bd pt) = Src.leaf id r := h1
    have e2 : (cs.fullNth Src.leaf Src.fill (pt' bd).toNat).get (dropAx bd pt') = Src.leaf id r := h2
    obtain ⟨hn, hq⟩ := fullNth_inj cs cs.headShape hwf htl hnd _ _ (by omega) (by omega) _ _ a1 b1 id r e1 e2
    by_cases c1 : j < bd
    · have := hq j (by omega)
      simpa [dropAx, c1] using this
    · by_cases c2 : j = bd
      · subst c2; omega
      · have := hq (j - 1) (by omega)
        simp only [dropAx, show ¬ (j - 1 < bd) by omega, if_false, show j - 1 + 1 = j by omega] at this
        exact this
  | .blocks s cs, h, htl, hnd => by
    simp only [Seg.wf] at h
    simp only [Seg.tiled] at htl
    intro pt pt' id r hpt hpt' h1 h2 j hj
    have hc : ∀ q, (Seg.blocks s cs).fullSrc.get q = Src.leaf id r ↔ hit cs q id r := by
      intro q
      have := fullOnto_char cs s h htl (Arr.const s Src.fill) q id r
      rw [show (Seg.blocks s cs).fullSrc = cs.fullOnto Src.leaf Src.fill (Arr.const s Src.fill) from rfl, this]
      simp [Arr.const]
    exact hit_inj cs s h htl hnd pt pt' id r ((hc pt).1 h1) ((hc pt').1 h2) j hj
theorem fullNth_inj : ∀ (cs : Segs) (sh : List Nat), cs.wfAll sh = true → cs.tiled = true → (idsOf cs.leaves).Nodup →
    ∀ n n', n < cs.length → n' < cs.length → ∀ q q' : Idx, InR sh q → InR sh q' → ∀ id r,
    (cs.fullNth Src.leaf Src.fill n).get q = Src.leaf id r → (cs.fullNth Src.leaf Src.fill n').get q' = Src.leaf id r →
    n = n' ∧ ∀ i, i < sh.length → q i = q' i
  | .nil, _, _, _, _, n, _, hn, _, _, _, _, _, _, _, _, _ => by simp [Segs.length] at hn
  | .cons c rest, sh, h, htl, hnd, n, n', hn, hn', q, q', hq, hq', id, r, h1, h2 => by
    simp only [Segs.wfAll, Bool.and_eq_true, decide_eq_true_eq] at h
    simp only [Segs.tiled, Bool.and_eq_true] at htl
    simp only [idsOf, Segs.leaves, List.map_append] at hnd
    obtain ⟨nd1, nd2, ndd⟩ := List.nodup_append.1 hnd
    have own_c : ∀ q, InR sh q → ∀ id r, (c.full Src.leaf Src.fill).get q = Src.leaf id r → id ∈ idsOf c.leaves := by
      intro q hq id r hh
      have := full_in_store c h.1.1 q (h.1.2 ▸ hq)
      rw [show c.fullSrc.get q = (c.full Src.leaf Src.fill).get q from rfl, hh] at this
      exact owns_id this
    have own_r : ∀ m, m < rest.length → ∀ q, InR sh q → ∀ id r,
        (rest.fullNth Src.leaf Src.fill m).get q = Src.leaf id r → id ∈ idsOf rest.leaves := by
      intro m hm q hq id r hh
      have := fullNth_in_store rest sh h.2 m hm q hq
      rw [hh] at this
      exact owns_id this
    cases n with
    | zero =>
      cases n' with
      | zero =>
        simp only [Segs.fullNth] at h1 h2
        have := injective_of_distinct c h.1.1 htl.1 nd1 q q' id r (h.1.2 ▸ hq) (h.1.2 ▸ hq') h1 h2
        exact ⟨rfl, fun i hi => this i (h.1.2 ▸ hi)⟩
      | succ m' =>
        simp only [Segs.fullNth] at h1 h2
        exact absurd rfl (ndd id (own_c q hq id r h1) id
          (own_r m' (by simpa [Segs.length] using hn') q' hq' id r h2))
    | succ m =>
      cases n' with
      | zero =>
        simp only [Segs.fullNth] at h1 h2
        exact absurd rfl (ndd id (own_c q' hq' id r h2) id
          (own_r m (by simpa [Segs.length] using hn) q hq id r h1))
      | succ m' =>
        simp only [Segs.fullNth] at h1 h2
        obtain ⟨e, hh⟩ := fullNth_inj rest sh h.2 htl.2 nd2 m m' (by simpa [Segs.length] using hn)
          (by simpa [Segs.length] using hn') q q' hq hq' id r h1 h2
        exact ⟨by omega, hh⟩
theorem hit_inj : ∀ (cs : Blks) (sh : List Nat), cs.wfAll sh = true → cs.tiled = true → (idsOf cs.leaves).Nodup →
    ∀ (pt pt' : Idx) id r, hit cs pt id r → hit cs pt' id r → ∀ i, i < sh.length → pt i = pt' i
  | .nil, _, _, _, _, _, _, _, _, h, _ => by simp [hit] at h
  | .cons arr c rest, sh, h, htl, hnd, pt, pt', id, r, h1, h2 => by
    simp only [Blks.wfAll, Bool.and_eq_true] at h
    simp only [Blks.tiled, Bool.and_eq_true] at htl
    simp only [idsOf, Blks.leaves, List.map_append] at hnd
    obtain ⟨nd1, nd2, ndd⟩ := List.nodup_append.1 hnd
    obtain ⟨hal, hcshl, _⟩ := (boxOK_iff _ _ _).1 h.1.2
    have own_c : ∀ q, inBox arr q = true → c.fullSrc.get (boxLo arr q) = Src.leaf id r → id ∈ idsOf c.leaves := by
      intro q hin hh
      have := full_in_store c h.1.1 _ (box_ix_inR h.1.2 hin)
      rw [hh] at this
      exact owns_id this
    rcases h1 with ⟨in1, s1⟩ | h1 <;> rcases h2 with ⟨in2, s2⟩ | h2
    · intro i hi
      have := injective_of_distinct c h.1.1 htl.1.1 nd1 _ _ id r (box_ix_inR h.1.2 in1) (box_ix_inR h.1.2 in2) s1 s2
        i (by omega)
      simp only [boxLo] at this
      omega
    · exact absurd rfl (ndd id (own_c pt in1 s1) id (hit_id rest sh h.2 pt' id r h2))
    · exact absurd rfl (ndd id (own_c pt' in2 s2) id (hit_id rest sh h.2 pt id r h1))
    · exact hit_inj rest sh h.2 htl.2 nd2 pt pt' id r h1 h2
  | .rcons arr rv c rest, sh, h, htl, hnd, pt, pt', id, r, h1, h2 => by
    simp only [Blks.wfAll, Bool.and_eq_true, decide_eq_true_eq] at h
    simp only [Blks.tiled, Bool.and_eq_true] at htl
    simp only [idsOf, Blks.leaves, List.map_append] at hnd
    obtain ⟨nd1, nd2, ndd⟩ := List.nodup_append.1 hnd
    obtain ⟨⟨⟨⟨hcwf, hbox⟩, _⟩, _⟩, hrwf⟩ := h
    obtain ⟨hal, hcshl, _⟩ := (boxOK_iff _ _ _).1 hbox
    have own_c : ∀ q, inBox arr q = true → c.fullSrc.get (boxLoR arr rv q) = Src.leaf id r → id ∈ idsOf c.leaves := by
      intro q hin hh
      have := full_in_store c hcwf _ (boxR_ix_inR rv hbox hin)
      rw [hh] at this
      exact owns_id this
    rcases h1 with ⟨in1, s1⟩ | h1 <;> rcases h2 with ⟨in2, s2⟩ | h2
    · intro i hi
      have := injective_of_distinct c hcwf htl.1.1 nd1 _ _ id r (boxR_ix_inR rv hbox in1) (boxR_ix_inR rv hbox in2) s1 s2
        i (by omega)
      simp only [boxLoR] at this
      split at this <;> omega
    · exact absurd rfl (ndd id (own_c pt in1 s1) id (hit_id rest sh hrwf pt' id r h2))
    · exact absurd rfl (ndd id (own_c pt' in2 s2) id (hit_id rest sh hrwf pt id r h1))
    · exact hit_inj rest sh hrwf htl.2 nd2 pt pt' id r h1 h2
end

section
variable {α : Type} [Pairing α] [Parts α]

/-- **read after write**: after `write(d, subscript=ts)` the full image holds `d[idx]` at every selected position
    that is backed by a stored sample -/
theorem write_then_full_selected (t : Seg) (hwf : t.wf = true) (htl : t.tiled = true) (hinj : Injective t)
    (ts : List NSlice) (hts : NormalSub t.fshape ts) (d : Arr α) (hd : d.shape = ts.map NSlice.count) (hdl : d.Local)
    (σ : SStore α) (F : α) (idx : Idx) (hidx : InR (ts.map NSlice.count) idx) (id : Nat) (r : List Int)
    (hsrc : t.fullSrc.get (selIdx ts idx) = Src.leaf id r) :
    (t.full (applyAll σ (t.write ts d)) F).get (selIdx ts idx) = d.get idx := by
  have hr := write_routes t hwf htl ts hts d hd hdl
  have htl' := ((normalSub_iff _ _).1 hts).1
  rw [full_eval, hsrc]
  show applyAll σ (t.write ts d) id r = d.get idx
  apply applyAll_written
  · exact (hr id r _).2 ⟨idx, hidx, hsrc, rfl⟩
  · intro v' hv'
    obtain ⟨idx', hidx', hsrc', hv⟩ := (hr id r v').1 hv'
    have := hinj _ _ id r (selIdx_inR hts hidx') (selIdx_inR hts hidx) hsrc' hsrc
    have he := selIdx_inj hts this
    rw [← hv]
    apply hdl
    intro i hi
    rw [hd] at hi
    exact he i (by simpa [htl'] using hi)

/-- **nothing else changes**: a position that the subscript does not select keeps its value -/
theorem write_then_full_other (t : Seg) (hwf : t.wf = true) (htl : t.tiled = true) (hinj : Injective t)
    (ts : List NSlice) (hts : NormalSub t.fshape ts) (d : Arr α) (hd : d.shape = ts.map NSlice.count) (hdl : d.Local)
    (σ : SStore α) (F : α) (pt : Idx) (hpt : InR t.fshape pt)
    (hns : ∀ idx, InR (ts.map NSlice.count) idx → ∃ i, i < t.fshape.length ∧ selIdx ts idx i ≠ pt i) :
    (t.full (applyAll σ (t.write ts d)) F).get pt = (t.full σ F).get pt := by
  have hr := write_routes t hwf htl ts hts d hd hdl
  rw [full_eval, full_eval (L := σ)]
  cases hs : t.fullSrc.get pt with
  | fill => rfl
  | pair a b => have := tiled_plain t htl pt; rw [hs] at this; exact absurd this (by simp [plain])
  | polar a b => have := tiled_plain t htl pt; rw [hs] at this; exact absurd this (by simp [plain])
  | lut c a => have := tiled_plain t htl pt; rw [hs] at this; exact absurd this (by simp [plain])
  | leaf id r =>
    show applyAll σ (t.write ts d) id r = σ id r
    apply applyAll_untouched
    rintro ⟨a1, a2, a3⟩ ha ⟨e1, e2⟩
    simp only at e1 e2
    subst e1 e2
    obtain ⟨idx, hidx, hsrc, _⟩ := (hr _ _ _).1 ha
    obtain ⟨i, hi, hne⟩ := hns idx hidx
    exact hne (hinj _ _ _ _ (selIdx_inR hts hidx) hpt hsrc hs i hi)

/-- the raw samples two chunks touch are disjoint when the chunks select disjoint sets of positions -/
theorem writes_disjoint (t : Seg) (hwf : t.wf = true) (htl : t.tiled = true) (hinj : Injective t)
    (ts ts' : List NSlice) (hts : NormalSub t.fshape ts) (hts' : NormalSub t.fshape ts')
    (d d' : Arr α) (hd : d.shape = ts.map NSlice.count) (hdl : d.Local)
    (hd' : d'.shape = ts'.map NSlice.count) (hdl' : d'.Local)
    (hdis : ∀ idx idx', InR (ts.map NSlice.count) idx → InR (ts'.map NSlice.count) idx' →
      ∃ i, i < t.fshape.length ∧ selIdx ts idx i ≠ selIdx ts' idx' i) :
    ∀ a ∈ t.write ts d, ∀ b ∈ t.write ts' d', ¬ (a.1 = b.1 ∧ a.2.1 = b.2.1) := by
  rintro ⟨a1, a2, a3⟩ ha ⟨b1, b2, b3⟩ hb ⟨e1, e2⟩
  simp only at e1 e2
  subst e1 e2
  obtain ⟨idx, hidx, hsrc, _⟩ := (write_routes t hwf htl ts hts d hd hdl _ _ _).1 ha
  obtain ⟨idx', hidx', hsrc', _⟩ := (write_routes t hwf htl ts' hts' d' hd' hdl' _ _ _).1 hb
  obtain ⟨i, hi, hne⟩ := hdis idx idx' hidx hidx'
  exact hne (hinj _ _ _ _ (selIdx_inR hts hidx) (selIdx_inR hts' hidx') hsrc hsrc' i hi)

theorem applyAll_comm (A B : List (Nat × List Int × α)) (σ : SStore α)
    (h : ∀ a ∈ A, ∀ b ∈ B, ¬ (a.1 = b.1 ∧ a.2.1 = b.2.1)) :
    applyAll (applyAll σ A) B = applyAll (applyAll σ B) A := by
  induction A generalizing σ with
  | nil => rfl
  | cons a A ih =>
    have h1 : ∀ s : SStore α, applyAll s (a :: A) = applyAll (upd s a) A := fun _ => rfl
    rw [h1, h1, ih _ (fun x hx b hb => h x (by simp [hx]) b hb)]
    congr 1
    -- one assignment commutes with a list that does not touch its key
    clear ih
    induction B generalizing σ with
    | nil => rfl
    | cons b B ihb =>
      have h2 : ∀ s : SStore α, applyAll s (b :: B) = applyAll (upd s b) B := fun _ => rfl
      rw [h2, h2, ← ihb _ (fun x hx y hy => h x hx y (by simp [hy]))]
      congr 1
      funext id r
      have hab := h a (by simp) b (by simp)
      simp only [upd]
      by_cases c1 : id = b.1 ∧ r = b.2.1
      · by_cases c2 : id = a.1 ∧ r = a.2.1
        · exact absurd ⟨c2.1.symm.trans c1.1, c2.2.symm.trans c1.2⟩ hab
        · simp only [if_pos c1, if_neg c2]
      · by_cases c2 : id = a.1 ∧ r = a.2.1
        · simp only [if_neg c1, if_pos c2]
        · simp only [if_neg c1, if_neg c2]

/-- **any order**: two chunks that select disjoint position sets can be written in either order -/
theorem chunks_commute (t : Seg) (hwf : t.wf = true) (htl : t.tiled = true) (hinj : Injective t)
    (ts ts' : List NSlice) (hts : NormalSub t.fshape ts) (hts' : NormalSub t.fshape ts')
    (d d' : Arr α) (hd : d.shape = ts.map NSlice.count) (hdl : d.Local)
    (hd' : d'.shape = ts'.map NSlice.count) (hdl' : d'.Local)
    (hdis : ∀ idx idx', InR (ts.map NSlice.count) idx → InR (ts'.map NSlice.count) idx' →
      ∃ i, i < t.fshape.length ∧ selIdx ts idx i ≠ selIdx ts' idx' i) (σ : SStore α) :
    applyAll (applyAll σ (t.write ts d)) (t.write ts' d') = applyAll (applyAll σ (t.write ts' d')) (t.write ts d) :=
  applyAll_comm _ _ σ (writes_disjoint t hwf htl hinj ts ts' hts hts' d d' hd hdl hd' hdl' hdis)

/-- **the C07 statement on the model, without the injectivity premise**: for a tree with distinct stored arrays
    whose mosaics are tilings, after `write(d, subscript=ts)` the full image is the old full image with `d`
    at the selected positions (first clause, for positions backed by a stored sample) and unchanged elsewhere -/
theorem write_then_full (t : Seg) (hwf : t.wf = true) (htl : t.tiled = true) (hnd : (idsOf t.leaves).Nodup)
    (ts : List NSlice) (hts : NormalSub t.fshape ts) (d : Arr α) (hd : d.shape = ts.map NSlice.count) (hdl : d.Local)
    (σ : SStore α) (F : α) :
    (∀ idx, InR (ts.map NSlice.count) idx → t.fullSrc.get (selIdx ts idx) ≠ Src.fill →
      (t.full (applyAll σ (t.write ts d)) F).get (selIdx ts idx) = d.get idx) ∧
    (∀ pt, InR t.fshape pt → (∀ idx, InR (ts.map NSlice.count) idx → ∃ i, i < t.fshape.length ∧ selIdx ts idx i ≠ pt i) →
      (t.full (applyAll σ (t.write ts d)) F).get pt = (t.full σ F).get pt) := by
  have hinj := injective_of_distinct t hwf htl hnd
  constructor
  · intro idx hidx hne
    cases hs : t.fullSrc.get (selIdx ts idx) with
    | fill => exact absurd hs hne
    | pair a b => have := tiled_plain t htl (selIdx ts idx); rw [hs] at this; exact absurd this (by simp [plain])
    | polar a b => have := tiled_plain t htl (selIdx ts idx); rw [hs] at this; exact absurd this (by simp [plain])
    | lut c a => have := tiled_plain t htl (selIdx ts idx); rw [hs] at this; exact absurd this (by simp [plain])
    | leaf id r => exact write_then_full_selected t hwf htl hinj ts hts d hd hdl σ F idx hidx id r hs
  · intro pt hpt hns
    exact write_then_full_other t hwf htl hinj ts hts d hd hdl σ F pt hpt hns

/-! ### the same in the flat scatter model of `Props/C07.lean` -/

/-- the assignments as a chunk of the flat store, under a numbering `enc` of the stored samples -/
def toChunk (enc : Nat → List Int → Nat) (A : List (Nat × List Int × α)) : Chunk α :=
  A.map (fun a => (enc a.1 a.2.1, a.2.2))

/-- two chunks of a partition, routed by the segment tree, satisfy the premise of
    `C07.writes_commute_of_disjoint` for every injective numbering of the stored samples -/
theorem chunks_commute_scatter (t : Seg) (hwf : t.wf = true) (htl : t.tiled = true) (hinj : Injective t)
    (ts ts' : List NSlice) (hts : NormalSub t.fshape ts) (hts' : NormalSub t.fshape ts')
    (d d' : Arr α) (hd : d.shape = ts.map NSlice.count) (hdl : d.Local)
    (hd' : d'.shape = ts'.map NSlice.count) (hdl' : d'.Local)
    (hdis : ∀ idx idx', InR (ts.map NSlice.count) idx → InR (ts'.map NSlice.count) idx' →
      ∃ i, i < t.fshape.length ∧ selIdx ts idx i ≠ selIdx ts' idx' i)
    (enc : Nat → List Int → Nat) (henc : ∀ id r id' r', enc id r = enc id' r' → id = id' ∧ r = r') (st : Store α) :
    scatter (scatter st (toChunk enc (t.write ts d))) (toChunk enc (t.write ts' d')) =
      scatter (scatter st (toChunk enc (t.write ts' d'))) (toChunk enc (t.write ts d)) := by
  apply C07.writes_commute_of_disjoint
  intro p hp q hq heq
  simp only [toChunk, List.mem_map] at hp hq
  obtain ⟨a, ha, rfl⟩ := hp
  obtain ⟨b, hb, rfl⟩ := hq
  exact writes_disjoint t hwf htl hinj ts ts' hts hts' d d' hd hdl hd' hdl' hdis a ha b hb (henc _ _ _ _ heq)

end

/-! ### non-vacuity -/

example : exTree.wf = true ∧ exTree.tiled = true ∧ (idsOf exTree.leaves).Nodup := by decide
/-- where the six elements of the chunk `exSub` (rows 3 and 1 of the subset) are stored; the three that fall into holes
    are dropped -/
example : exTree.write exSub (idChunkW exSub) =
    [(1, [0, 0], .elem [0, 1]), (1, [2, 0], .elem [0, 2]), (2, [1, 0], .elem [1, 0])] := by decide
/-- an overlapping mosaic is not a tiling -/
example : (Seg.blocks [2, 3] (.cons [(0, 2), (0, 3)] (exLeaf 1) (.cons [(0, 2), (0, 3)] (exLeaf 2) .nil))).tiled = false := by
  decide

end Sarpy.Props.C07Seg
